(** WP10 / property C07, part 1: the reports agree on period totals.
    Law-free list facts first, then the accumulator characterisation, then the
    agreement theorems (with the exact monoid laws each one needs). *)
From Coq Require Import Lia Permutation.
From HP Require Import Base.Bytes Base.Num Model.Elements Model.Tree Model.Reporters Spec.AgreeSpec.

(** * byte-string equality *)
Lemma beq_refl : forall x, beq x x = true.
Proof. induction x as [|a x IH]; cbn; [reflexivity|]. rewrite N.eqb_refl, IH. reflexivity. Qed.

Lemma beq_true_iff : forall x y, beq x y = true <-> x = y.
Proof.
  induction x as [|a x IH]; intros [|c y]; cbn; split; intros H; try reflexivity; try discriminate.
  - apply andb_true_iff in H. destruct H as [H1 H2]. apply N.eqb_eq in H1. apply IH in H2. congruence.
  - inversion H; subst. rewrite N.eqb_refl. cbn. apply IH. reflexivity.
Qed.

Lemma beq_false_iff : forall x y, beq x y = false <-> x <> y.
Proof.
  intros x y. split.
  - intros H E. apply beq_true_iff in E. congruence.
  - intros H. destruct (beq x y) eqn:E; [|reflexivity]. apply beq_true_iff in E. contradiction.
Qed.

Lemma beq_sym : forall x y, beq x y = beq y x.
Proof.
  intros x y. destruct (beq x y) eqn:E.
  - apply beq_true_iff in E. subst. symmetry. apply beq_refl.
  - symmetry. apply beq_false_iff. apply beq_false_iff in E. congruence.
Qed.

Lemma beq_spec : forall x y, reflect (x = y) (beq x y).
Proof. intros x y. destruct (beq x y) eqn:E; constructor; [apply beq_true_iff|apply beq_false_iff]; exact E. Qed.

(** * association lists *)
Section Assoc.
  Context {V : Type}.
  Implicit Types (l : list (bytes * V)).

  Lemma lookup_app : forall k l1 l2,
    lookup k (l1 ++ l2) = match lookup k l1 with Some v => Some v | None => lookup k l2 end.
  Proof.
    intros k l1 l2. induction l1 as [|[k' v] r IH]; cbn; [reflexivity|].
    destruct (beq k k'); [reflexivity|exact IH].
  Qed.

  Lemma lookup_set_same : forall k v l, lookup k (set k v l) = Some v.
  Proof.
    intros k v l. induction l as [|[k' v'] r IH]; cbn.
    - rewrite beq_refl. reflexivity.
    - destruct (beq k k') eqn:E; cbn.
      + rewrite beq_refl. reflexivity.
      + rewrite E. exact IH.
  Qed.

  Lemma lookup_set_other : forall k k' v l, k <> k' -> lookup k (set k' v l) = lookup k l.
  Proof.
    intros k k' v l Hne. induction l as [|[k2 v2] r IH]; cbn.
    - apply beq_false_iff in Hne. rewrite Hne. reflexivity.
    - destruct (beq k' k2) eqn:E; cbn.
      + apply beq_true_iff in E. subst k2. apply beq_false_iff in Hne. rewrite Hne. reflexivity.
      + destruct (beq k k2); [reflexivity|exact IH].
  Qed.

  Lemma lookup_some_in_keys : forall k l v, lookup k l = Some v -> In k (keys l).
  Proof.
    intros k l. induction l as [|[k' v'] r IH]; cbn; intros v H; [discriminate|].
    destruct (beq k k') eqn:E.
    - left. apply beq_true_iff in E. congruence.
    - right. eapply IH. exact H.
  Qed.

  Lemma lookup_none_not_in_keys : forall k l, lookup k l = None -> ~ In k (keys l).
  Proof.
    intros k l. induction l as [|[k' v'] r IH]; cbn; intros H; [tauto|].
    destruct (beq k k') eqn:E; [discriminate|]. apply beq_false_iff in E.
    intros [Hk|Hk]; [congruence|]. exact (IH H Hk).
  Qed.

  Lemma set_not_nil : forall k v l, set k v l <> [].
  Proof. intros k v [|[k' v'] r]; cbn; [discriminate|]. destruct (beq k k'); discriminate. Qed.

  Lemma keys_set_present : forall k v l w, lookup k l = Some w -> keys (set k v l) = keys l.
  Proof.
    intros k v l. induction l as [|[k' v'] r IH]; cbn; intros w H; [discriminate|].
    destruct (beq k k') eqn:E; cbn.
    - apply beq_true_iff in E. congruence.
    - f_equal. eapply IH. exact H.
  Qed.
End Assoc.

(** * insertion sort keeps the members *)
Lemma insert_sorted_in : forall {A} (leb : A -> A -> bool) x y l, In y (insert_sorted leb x l) <-> y = x \/ In y l.
Proof.
  intros A leb x y l. induction l as [|z r IH]; cbn.
  - intuition.
  - destruct (leb x z); cbn; [intuition|]. rewrite IH. intuition.
Qed.

Lemma isort_in : forall {A} (leb : A -> A -> bool) y l, In y (isort leb l) <-> In y l.
Proof.
  intros A leb y l. induction l as [|z r IH]; cbn; [tauto|].
  rewrite insert_sorted_in, IH. intuition.
Qed.

Lemma insert_sorted_perm : forall {A} (leb : A -> A -> bool) x l, Permutation (insert_sorted leb x l) (x :: l).
Proof.
  intros A leb x l. induction l as [|z r IH]; cbn; [apply Permutation_refl|].
  destruct (leb x z); [apply Permutation_refl|].
  eapply Permutation_trans; [apply perm_skip; exact IH|apply perm_swap].
Qed.

Lemma isort_perm : forall {A} (leb : A -> A -> bool) l, Permutation (isort leb l) l.
Proof.
  intros A leb l. induction l as [|z r IH]; cbn; [constructor|].
  eapply Permutation_trans; [apply insert_sorted_perm|]. apply perm_skip. exact IH.
Qed.

Section Agree.
  Context (NM : Num).
  Notation T := (T NM).
  Notation elements := (elements NM).
  Notation db := (list (bytes * elements)).
  Notation lognode := (lognode NM).
  Notation oracle := (list bytes -> list bytes).
  Notation accumulator := (accumulator NM).

  Implicit Types (x name : bytes) (v : T) (cs : elements) (acc : accumulator) (d : db) (ln : lognode)
                 (L : list lognode) (c : rconfig).

  (** * The law-free "Key" facts: the re-implementations select the same values *)

  Lemma named_app : forall x cs1 cs2, named NM x (cs1 ++ cs2) = named NM x cs1 ++ named NM x cs2.
  Proof. intros. unfold named. apply filter_app. Qed.

  Lemma named_flat_map : forall {A} x (f : A -> elements) (l : list A),
    named NM x (flat_map f l) = flat_map (fun a => named NM x (f a)) l.
  Proof.
    intros A x f l. induction l as [|a r IH]; cbn [flat_map]; [reflexivity|].
    rewrite named_app, IH. reflexivity.
  Qed.

  Lemma named_idem : forall x cs, named NM x (named NM x cs) = named NM x cs.
  Proof.
    intros x cs. unfold named. induction cs as [|[n v] r IH]; cbn; [reflexivity|].
    destruct (beq n x) eqn:E; cbn; [rewrite E; f_equal|]; exact IH.
  Qed.

  Lemma named_all : forall x cs nv, In nv (named NM x cs) -> fst nv = x.
  Proof. intros x cs nv H. apply filter_In in H. destruct H as [_ H]. apply beq_true_iff. exact H. Qed.

  Lemma occurs_in_named_nil : forall x cs, occurs_in NM x cs = false <-> named NM x cs = [].
  Proof.
    intros x cs. unfold occurs_in, named. induction cs as [|[n v] r IH]; cbn; [tauto|].
    destruct (beq n x); cbn; [split; discriminate|exact IH].
  Qed.

  Lemma occurs_in_app : forall x cs1 cs2, occurs_in NM x (cs1 ++ cs2) = occurs_in NM x cs1 || occurs_in NM x cs2.
  Proof. intros. unfold occurs_in. apply existsb_app. Qed.

  Lemma occurs_in_flat_map : forall {A} x (f : A -> elements) (l : list A),
    occurs_in NM x (flat_map f l) = existsb (fun a => occurs_in NM x (f a)) l.
  Proof.
    intros A x f l. induction l as [|a r IH]; cbn [flat_map existsb]; [reflexivity|].
    rewrite occurs_in_app, IH. reflexivity.
  Qed.

  Lemma occurs_in_named : forall x cs, occurs_in NM x (named NM x cs) = occurs_in NM x cs.
  Proof.
    intros x cs. unfold occurs_in, named. induction cs as [|[n v] r IH]; cbn; [reflexivity|].
    destruct (beq n x) eqn:E; cbn; [rewrite E; reflexivity|exact IH].
  Qed.

  (** singleReporter selects exactly the sub-list of the register's contributions named [x] *)
  Theorem single_contributions_is_filter : forall d x ln,
    single_contributions NM d x ln = named NM x (contributions NM d ln).
  Proof.
    intros d x ln. unfold single_contributions, contributions.
    rewrite named_flat_map. apply flat_map_ext. intros [name v]. cbn [fst snd].
    unfold ingredients_of. destruct (lookup name d) as [els|].
    - unfold named. induction els as [|[n w] r IH]; cbn; [reflexivity|].
      destruct (beq n x); cbn; [f_equal|]; exact IH.
    - unfold named. cbn. destruct (beq name x); reflexivity.
  Qed.

  (** balanceSingleReporter feeds the same values (under food names instead of the element) *)
  Theorem bal_single_values_are_filter : forall d x ln,
    map snd (bal_single_contributions NM d x ln) = map snd (named NM x (contributions NM d ln)).
  Proof.
    intros d x ln. unfold bal_single_contributions, contributions.
    rewrite named_flat_map, !flat_map_concat_map, !concat_map, !map_map. f_equal.
    apply map_ext. intros [name v]. cbn [fst snd].
    unfold ingredients_of. destruct (lookup name d) as [els|].
    - unfold named. induction els as [|[n w] r IH]; cbn; [reflexivity|].
      destruct (beq n x); cbn; [f_equal|]; exact IH.
    - unfold named. cbn. destruct (beq name x); reflexivity.
  Qed.

  (** elementByFoodReporter: the same values again.  Since fix F26 a food the book does not define stands
      for itself here too (before, [reg -s X -g] dropped X when it was logged directly, and this statement
      needed the log restricted to the foods the book defines, [defined_only]) *)
  Theorem byfood_values_are_filter : forall d x ln,
    map snd (byfood_contributions NM d x ln) = map snd (named NM x (contributions NM d ln)).
  Proof.
    intros d x ln. unfold byfood_contributions, contributions.
    rewrite named_flat_map, !flat_map_concat_map, !concat_map, !map_map. f_equal.
    apply map_ext. intros [name v]. cbn [fst snd].
    unfold ingredients_of. destruct (lookup name d) as [els|].
    - unfold named. induction els as [|[n w] r IH]; cbn; [reflexivity|].
      destruct (beq n x); cbn; [f_equal|]; exact IH.
    - unfold named. cbn. destruct (beq name x); reflexivity.
  Qed.
End Agree.
