(** C15, colour, continued: the three templates, the old reporter's chunks and
    whole Process outputs -- coloured and plain output are equal once escape
    sequences are removed, for every [Num], every configuration, every item
    (names, date and even the number formatter may produce any bytes). *)
From Coq Require Import Lia.
From HP Require Import Base.Bytes Base.Utf8 Base.Num Model.Elements Model.Dates Model.Tree Model.Writer
  Model.Reporters Spec.PresentationSpec Proofs.PresentationStrip.
Local Open Scope N_scope.

(** a non-empty literal made of bytes that are neither ESC nor able to continue a sequence *)
Definition lit_ok (l : bytes) : bool := match l with [] => false | _ => forallb neutral l end.

Lemma forallb_neutral_no_esc : forall l, forallb neutral l = true -> no_esc l.
Proof.
  induction l as [|n l IH]; intros H; [intros []|].
  cbn [forallb] in H. apply andb_true_iff in H. destruct H as [H1 H2].
  apply no_esc_cons. split; [|apply IH; exact H2].
  unfold neutral in H1. apply andb_true_iff in H1. destruct H1 as [_ H1].
  intros E. subst n. discriminate H1.
Qed.

Section ColourTemplates.
  Context (NM : Num).
  Notation T := (T NM).
  Notation elements := (elements NM).
  Notation db := (list (bytes * elements)).

  Lemma sim_lit : forall l x y, lit_ok l = true -> strip_sgr x = strip_sgr y -> sim (l ++ x) (l ++ y).
  Proof.
    intros [|n l] x y Hl H; [discriminate|]. unfold lit_ok in Hl.
    pose proof (forallb_neutral_no_esc _ Hl) as Hne.
    cbn [forallb] in Hl. apply andb_true_iff in Hl. destruct Hl as [Hn _].
    unfold neutral in Hn. apply andb_true_iff in Hn. destruct Hn as [Hn _].
    repeat split; try exact Hn.
    rewrite !strip_app_no_esc by exact Hne. rewrite H. reflexivity.
  Qed.

  Lemma sim_lit_end : forall l, lit_ok l = true -> sim l l.
  Proof.
    intros l Hl. rewrite <- (app_nil_r l). apply sim_lit; [exact Hl|reflexivity].
  Qed.

  (** *** 1b. the three templates *)
  Theorem color_strip_default : forall (c : rconfig) (it : report_item NM),
    strip_sgr (render_default NM (set_color c true) it) = strip_sgr (render_default NM (set_color c false) it).
  Proof.
    intros c it. unfold render_default, fdate. cbn [set_color rc_color rc_shorten rc_date].
    apply eq_app_any. apply sim_flat_map.
    - intros [[name v] ings] x y _ Hs. rewrite <- !app_assoc.
      apply sim_lit; [reflexivity|]. apply eq_app_any. apply sim_lit; [reflexivity|]. apply eq_fv.
      apply sim_flat_map; [|exact Hs].
      intros i x' y' _ Hs'. rewrite <- !app_assoc.
      apply sim_lit; [reflexivity|]. apply eq_app_any. apply sim_lit; [reflexivity|]. apply eq_fv. exact Hs'.
    - destruct (ri_totals NM it) as [ts|].
      + rewrite <- !app_assoc. apply sim_lit; [reflexivity|]. apply eq_app_any.
        apply sim_flat_map; [|apply sim_lit_end; reflexivity].
        intros [[[name p] n] s] x y _ Hs. rewrite <- !app_assoc.
        apply sim_lit; [reflexivity|]. apply eq_app_any. apply sim_lit; [reflexivity|]. apply eq_fv.
        apply sim_lit; [reflexivity|]. apply eq_fv. apply sim_lit; [reflexivity|]. apply eq_fv. exact Hs.
      + apply sim_lit_end. reflexivity.
  Qed.

  Theorem color_strip_left : forall (c : rconfig) (it : report_item NM),
    strip_sgr (render_left NM (set_color c true) it) = strip_sgr (render_left NM (set_color c false) it).
  Proof.
    intros c it. unfold render_left, fdate. cbn [set_color rc_color rc_shorten rc_date].
    apply eq_app_any. apply sim_flat_map.
    - intros [[name v] ings] x y _ Hs. rewrite <- !app_assoc.
      apply sim_lit; [reflexivity|]. apply sim_eq. apply sim_lit; [reflexivity|]. apply eq_fv.
      apply sim_lit; [reflexivity|]. apply eq_app_any.
      apply sim_flat_map; [|exact Hs].
      intros i x' y' _ Hs'. rewrite <- !app_assoc.
      apply sim_lit; [reflexivity|]. apply sim_eq. apply sim_lit; [reflexivity|]. apply eq_fv.
      apply sim_lit; [reflexivity|]. apply eq_app_any. exact Hs'.
    - destruct (ri_totals NM it) as [ts|].
      + rewrite <- !app_assoc. apply sim_lit; [reflexivity|]. apply eq_app_any.
        apply sim_flat_map; [|apply sim_lit_end; reflexivity].
        intros [[[name p] n] s] x y _ Hs. rewrite <- !app_assoc.
        apply sim_lit; [reflexivity|]. apply sim_eq. apply sim_lit; [reflexivity|]. apply eq_fv.
        apply sim_lit; [reflexivity|]. apply eq_fv. apply sim_lit; [reflexivity|]. apply eq_fv.
        apply sim_lit; [reflexivity|]. apply eq_app_any. exact Hs.
      + apply sim_lit_end. reflexivity.
  Qed.

  Theorem color_strip_summary : forall (c : rconfig) (it : report_item NM),
    strip_sgr (render_summary NM (set_color c true) it) = strip_sgr (render_summary NM (set_color c false) it).
  Proof.
    intros c it. unfold render_summary, fdate. cbn [set_color rc_color rc_shorten rc_date].
    apply eq_app_any. apply sim_lit; [reflexivity|].
    assert (Htail : sim
      ([c_lf] ++ b "------------"
       ++ flat_map (fun e : bytes * T * elements => let '(name, v, _) := e in
                      [c_lf] ++ format_value NM true v ++ b " : " ++ name) (ri_elements NM it) ++ [c_lf])
      ([c_lf] ++ b "------------"
       ++ flat_map (fun e : bytes * T * elements => let '(name, v, _) := e in
                      [c_lf] ++ format_value NM false v ++ b " : " ++ name) (ri_elements NM it) ++ [c_lf])).
    { apply sim_lit; [reflexivity|]. apply eq_app_any.
      apply sim_flat_map; [|apply sim_lit_end; reflexivity].
      intros [[name v] ings] x y _ Hs. rewrite <- !app_assoc.
      apply sim_lit; [reflexivity|]. apply eq_fv. apply sim_lit; [reflexivity|]. apply eq_app_any. exact Hs. }
    destruct (ri_totals NM it) as [ts|].
    - apply sim_eq. apply sim_flat_map; [|exact Htail].
      intros [[[name p] n] s] x y _ Hs. rewrite <- !app_assoc.
      apply sim_lit; [reflexivity|]. apply eq_fv. apply sim_lit; [reflexivity|]. apply eq_app_any. exact Hs.
    - apply sim_eq. exact Htail.
  Qed.

  (** for ESC-free plain output, the stripped coloured output IS the plain output *)
  Corollary color_strip_default_plain : forall (c : rconfig) (it : report_item NM),
    no_esc (render_default NM (set_color c false) it) ->
    strip_sgr (render_default NM (set_color c true) it) = render_default NM (set_color c false) it.
  Proof. intros c it H. rewrite color_strip_default. apply strip_no_esc. exact H. Qed.

  Corollary color_strip_left_plain : forall (c : rconfig) (it : report_item NM),
    no_esc (render_left NM (set_color c false) it) ->
    strip_sgr (render_left NM (set_color c true) it) = render_left NM (set_color c false) it.
  Proof. intros c it H. rewrite color_strip_left. apply strip_no_esc. exact H. Qed.

  Corollary color_strip_summary_plain : forall (c : rconfig) (it : report_item NM),
    no_esc (render_summary NM (set_color c false) it) ->
    strip_sgr (render_summary NM (set_color c true) it) = render_summary NM (set_color c false) it.
  Proof. intros c it H. rewrite color_strip_summary. apply strip_no_esc. exact H. Qed.

  (** *** chunk lists: related chunk by chunk *)
  Definition csim (cs1 cs2 : list chunk) : Prop :=
    Forall2 (fun a b => sim (fst a) (fst b) /\ snd a = snd b) cs1 cs2.

  Lemma csim_strip_chunks : forall cs1 cs2, csim cs1 cs2 -> strip_chunks cs1 = strip_chunks cs2.
  Proof.
    intros cs1 cs2 H. induction H as [|a b' l1 l2 [Hs Hf] _ IH]; [reflexivity|].
    cbn [strip_chunks map]. fold (strip_chunks l1). fold (strip_chunks l2).
    rewrite IH, Hf, (sim_eq _ _ Hs). reflexivity.
  Qed.

  Lemma csim_bytes : forall cs1 cs2, csim cs1 cs2 -> sim (chunk_bytes cs1) (chunk_bytes cs2).
  Proof.
    intros cs1 cs2 H. induction H as [|a b' l1 l2 [Hs Hf] _ IH]; [apply sim_nil|].
    unfold chunk_bytes. cbn [map concat]. apply sim_app; [exact Hs|exact IH].
  Qed.

  Lemma csim_app : forall a a' b' b'', csim a a' -> csim b' b'' -> csim (a ++ b') (a' ++ b'').
  Proof. intros a a' b' b'' H1 H2. apply Forall2_app; assumption. Qed.

  Lemma csim_map : forall {A} (f g : A -> chunk) (l : list A),
    (forall a, sim (fst (f a)) (fst (g a)) /\ snd (f a) = snd (g a)) -> csim (map f l) (map g l).
  Proof.
    intros A f g l H. induction l as [|a l IH]; [constructor|].
    cbn [map]. constructor; [apply H|exact IH].
  Qed.

  Lemma csim_flat_map : forall {A} (f g : A -> list chunk) (l : list A),
    (forall a, csim (f a) (g a)) -> csim (flat_map f l) (flat_map g l).
  Proof.
    intros A f g l H. induction l as [|a l IH]; [constructor|].
    cbn [flat_map]. apply csim_app; [apply H|exact IH].
  Qed.

  (** *** 1c. the old reporter *)
  Lemma old_rows_csim : forall (c : rconfig) (d : db) (ln : lognode NM),
    csim (old_rows NM (set_color c true) d ln) (old_rows NM (set_color c false) d ln).
  Proof.
    intros c d ln. unfold old_rows. cbn [set_color rc_color rc_totals_only].
    apply csim_flat_map. intros [name v].
    destruct (rc_totals_only c); [constructor|].
    apply csim_app.
    - constructor; [|constructor]. split; [|reflexivity]. cbn [fst unchecked].
      apply sim_lit; [reflexivity|]. apply eq_app_any. apply sim_lit; [reflexivity|]. apply eq_fv.
      apply sim_lit_end. reflexivity.
    - apply csim_map. intros i. split; [|reflexivity]. cbn [fst unchecked].
      apply sim_lit; [reflexivity|]. apply eq_app_any. apply sim_lit; [reflexivity|]. apply eq_fv.
      apply sim_lit_end. reflexivity.
  Qed.

  Lemma good_tail_total_header : good_tail (total_header_default ++ [c_lf]).
  Proof. reflexivity. Qed.

  Lemma old_totals_csim : forall (c : rconfig) perm (d : db) (ln : lognode NM),
    csim (old_totals NM (set_color c true) perm d ln) (old_totals NM (set_color c false) perm d ln).
  Proof.
    intros c perm d ln. unfold old_totals. cbn [set_color rc_color rc_totals].
    destruct (rc_totals c); [|constructor].
    destruct (accumulate NM (contributions NM d ln)) as [|a0 acc]; [constructor|].
    constructor.
    - split; [|reflexivity]. cbn [fst unchecked]. apply sim_refl. exact good_tail_total_header.
    - apply csim_map. intros [[[name p] n] s]. split; [|reflexivity]. cbn [fst unchecked].
      apply sim_lit; [reflexivity|]. apply eq_app_any. apply sim_lit; [reflexivity|]. apply eq_fv.
      apply sim_lit; [reflexivity|]. apply eq_fv. apply sim_lit; [reflexivity|]. apply eq_fv.
      apply sim_lit_end. reflexivity.
  Qed.

  Theorem color_strip_old_rows : forall (c : rconfig) (d : db) (ln : lognode NM),
    strip_chunks (old_rows NM (set_color c true) d ln) = strip_chunks (old_rows NM (set_color c false) d ln).
  Proof. intros c d ln. apply csim_strip_chunks. apply old_rows_csim. Qed.

  Theorem color_strip_old_totals : forall (c : rconfig) perm (d : db) (ln : lognode NM),
    strip_chunks (old_totals NM (set_color c true) perm d ln)
    = strip_chunks (old_totals NM (set_color c false) perm d ln).
  Proof. intros c perm d ln. apply csim_strip_chunks. apply old_totals_csim. Qed.

  (** *** 1d. whole Process outputs *)
  Theorem color_strip_process_template : forall (c : rconfig) (d : db) perm st (ln : lognode NM),
    strip_chunks (process_chunks NM (rep_template NM (set_color c true) d) perm st ln)
    = strip_chunks (process_chunks NM (rep_template NM (set_color c false) d) perm st ln)
    /\ strip_sgr (process_bytes NM (rep_template NM (set_color c true) d) perm st ln)
       = strip_sgr (process_bytes NM (rep_template NM (set_color c false) d) perm st ln).
  Proof.
    intros c d perm st ln.
    assert (H : strip_chunks (process_chunks NM (rep_template NM (set_color c true) d) perm st ln)
                = strip_chunks (process_chunks NM (rep_template NM (set_color c false) d) perm st ln)).
    { unfold process_chunks, rep_template. cbn [r_process fst snd strip_chunks map checked].
      cbn [set_color rc_template].
      assert (Hit : get_report_item NM (set_color c true) perm d ln = get_report_item NM (set_color c false) perm d ln)
        by reflexivity.
      rewrite Hit.
      destruct (beq (rc_template c) (b "left-aligned")).
      - rewrite color_strip_left. reflexivity.
      - rewrite color_strip_default. reflexivity. }
    split; [exact H|].
    unfold process_bytes. revert H. unfold process_chunks, rep_template.
    cbn [r_process fst snd strip_chunks map checked chunk_bytes concat].
    intros H. injection H as H. rewrite !app_nil_r. exact H.
  Qed.

  Theorem color_strip_process_summary : forall (c : rconfig) (d : db) perm st (ln : lognode NM),
    strip_chunks (process_chunks NM (rep_summary NM (set_color c true) d) perm st ln)
    = strip_chunks (process_chunks NM (rep_summary NM (set_color c false) d) perm st ln)
    /\ strip_sgr (process_bytes NM (rep_summary NM (set_color c true) d) perm st ln)
       = strip_sgr (process_bytes NM (rep_summary NM (set_color c false) d) perm st ln).
  Proof.
    intros c d perm st ln.
    assert (Hit : get_report_item NM (set_color c true) perm d ln = get_report_item NM (set_color c false) perm d ln)
      by reflexivity.
    unfold process_bytes, process_chunks, rep_summary.
    cbn [r_process fst snd strip_chunks map checked chunk_bytes concat].
    rewrite !app_nil_r, Hit, color_strip_summary. split; reflexivity.
  Qed.

  Theorem color_strip_process_old : forall (c : rconfig) (d : db) perm st (ln : lognode NM),
    strip_chunks (process_chunks NM (rep_old NM (set_color c true) d) perm st ln)
    = strip_chunks (process_chunks NM (rep_old NM (set_color c false) d) perm st ln)
    /\ strip_sgr (process_bytes NM (rep_old NM (set_color c true) d) perm st ln)
       = strip_sgr (process_bytes NM (rep_old NM (set_color c false) d) perm st ln).
  Proof.
    intros c d perm st ln.
    pose proof (csim_app _ _ _ _ (old_rows_csim c d ln) (old_totals_csim c perm d ln)) as Hcs.
    unfold process_bytes, process_chunks, rep_old. cbn [r_process fst snd].
    split.
    - cbn [strip_chunks map]. f_equal. apply csim_strip_chunks. exact Hcs.
    - unfold chunk_bytes. cbn [map concat fst unchecked].
      unfold fdate. cbn [set_color rc_date]. rewrite <- !app_assoc.
      apply eq_app_any. apply sim_lit; [reflexivity|]. apply sim_eq. apply csim_bytes. exact Hcs.
  Qed.

  (** colour does not change which reporter state follows or which error Process returns *)
  Lemma color_process_state_template : forall (c : rconfig) (d : db) perm st (ln : lognode NM),
    snd (r_process NM (rep_template NM (set_color c true) d) perm st ln)
    = snd (r_process NM (rep_template NM (set_color c false) d) perm st ln).
  Proof. reflexivity. Qed.
End ColourTemplates.

(** *** non-vacuity: a day with a positive, a negative and a zero amount (exact integers) *)
Definition ex_item : report_item ZNum :=
  Build_report_item ZNum {| inst := 0; off := 0; civ := (2024, 3, 1)%Z |}
    [(b "lunch/soup", 2%Z, [(b "kcal", 300%Z); (b "debt", (-5)%Z); (b "salt", 0%Z)])]
    (Some [(b "debt", 0%Z, (-5)%Z, (-5)%Z); (b "kcal", 300%Z, 0%Z, 300%Z)]).

Definition ex_cfg (col : bool) : rconfig :=
  {| rc_color := col; rc_totals_only := false; rc_totals := true;
     rc_date := [Y4; Lit 47; M2; Lit 47; D2];
     rc_single_element := []; rc_single_food := []; rc_collapse_last := false; rc_collapse := false;
     rc_group_food := false; rc_shorten := false; rc_old := false; rc_template := b "default"; rc_csv := false |}.

Example ex_colour_differs :
  render_default ZNum (ex_cfg true) ex_item <> render_default ZNum (ex_cfg false) ex_item.
Proof. vm_compute. discriminate. Qed.

Example ex_colour_strip :
  strip_sgr (render_default ZNum (ex_cfg true) ex_item) = render_default ZNum (ex_cfg false) ex_item
  /\ strip_sgr (render_left ZNum (ex_cfg true) ex_item) = render_left ZNum (ex_cfg false) ex_item
  /\ strip_sgr (render_summary ZNum (ex_cfg true) ex_item) = render_summary ZNum (ex_cfg false) ex_item.
Proof. vm_compute. repeat split. Qed.

(** positive red, negative green, zero plain *)
Example ex_paint :
  format_value ZNum true 300%Z = esc_red ++ b "       300" ++ esc_reset
  /\ format_value ZNum true (-5)%Z = esc_green ++ b "        -5" ++ esc_reset
  /\ format_value ZNum true 0%Z = b "         0".
Proof. vm_compute. repeat split. Qed.

(** an ESC that is not part of "ESC [ digits m" survives, and a name ending in a
    dangling "ESC [" is not completed by what the template prints after it *)
Example ex_dangling :
  strip_sgr (27 :: 91 :: 51 :: esc_red ++ b "x" ++ esc_reset) = 27 :: 91 :: 51 :: b "x".
Proof. vm_compute. reflexivity. Qed.
