(** WP03 – corollaries of the round trip (C04, parser half of C09). *)
From Coq Require Import Lia ZifyBool ZifyNat ZifyN.
From HP Require Import Base.Bytes Base.Utf8 Base.Num Model.Scanner Model.Parser Model.Syntax.
From HP Require Import Proofs.ParserBytes Proofs.ParserScan Proofs.ParserClassify Proofs.ParserRoundtrip.
Open Scope N_scope.

Definition is_heading (it : item) : bool := match it with IHeading _ _ => true | _ => false end.

(** the names of the headings, in file order *)
Fixpoint heading_names (l : list item) : list bytes :=
  match l with
  | [] => []
  | IHeading n _ :: r => n :: heading_names r
  | _ :: r => heading_names r
  end.

(** the file from its first heading on (lines before it belong to no record) *)
Fixpoint from_first_heading (l : list item) : list item :=
  match l with
  | [] => []
  | IHeading _ _ :: _ => l
  | _ :: r => from_first_heading r
  end.

(** the note lines, as the key/value pairs the parser stores *)
Fixpoint notes_of (l : list item) : list (bytes * bytes) :=
  match l with
  | [] => []
  | INote _ raw :: r => metadata_pair raw :: notes_of r
  | _ :: r => notes_of r
  end.

Definition no_heading (l : list item) : Prop := forallb (fun it => negb (is_heading it)) l = true.

(** items numbered from [i] on *)
Fixpoint indexed {A} (i : N) (l : list A) : list (N * A) :=
  match l with [] => [] | x :: r => (i, x) :: indexed (i + 1) r end.

(** the error the parser reports for the malformed item [it] at 0-based
    position [i] of the file: physical line number [i + 1], the raw line *)
Definition err_at (i : N) (it : item) : perr :=
  match it with
  | IBadNum _ _ _ t _ => Conversion t (i + 1) (render_line it)
  | _ => BadSyntax (i + 1) (render_line it)
  end.

(** the malformed items that lie after some heading, with their positions, in
    file order *)
Definition bad_after_heading (l : list item) : list (N * item) :=
  filter (fun p => is_bad (snd p) && existsb is_heading (firstn (N.to_nat (fst p)) l)) (indexed 0 l).

(** what is left of an item when layout is forgotten; blank and comment lines
    leave nothing *)
Inductive content :=
| CHeading (name : bytes)
| CEntry (name lexeme : bytes)
| CNote (raw : bytes).

Definition content_of (it : item) : option content :=
  match it with
  | IHeading n _ => Some (CHeading n)
  | IEntry _ n _ lx _ => Some (CEntry n lx)
  | INote _ raw => Some (CNote raw)
  | _ => None
  end.

Fixpoint contents (l : list item) : list content :=
  match l with
  | [] => []
  | it :: r => match content_of it with Some c => c :: contents r | None => contents r end
  end.

Definition no_bad_items (f : file) : Prop :=
  forallb (fun ic : item * bool => negb (is_bad (fst ic))) (f_items f) = true.

Lemma lengthN_nat {A} (l : list A) : N.to_nat (lengthN l) = length l.
Proof. induction l as [|x l IH]; [reflexivity|]. cbn [lengthN length]. lia. Qed.

Lemma forallb_map {A B} (g : A -> B) (p : B -> bool) l : forallb p (map g l) = forallb (fun x => p (g x)) l.
Proof. induction l as [|x l IH]; [reflexivity|]. cbn [map forallb]. rewrite IH. reflexivity. Qed.

Lemma nth_error_firstn_lt {A} (l : list A) i j : (j < i)%nat -> nth_error (firstn i l) j = nth_error l j.
Proof.
  revert i j. induction l as [|x l IH]; intros i j H.
  - rewrite firstn_nil. reflexivity.
  - destruct i as [|i]; [lia|]. destruct j as [|j]; [reflexivity|].
    cbn [firstn nth_error]. apply IH. lia.
Qed.

Lemma indexed_In {A} (l : list A) i0 i x :
  nth_error l i = Some x -> In (i0 + N.of_nat i, x) (indexed i0 l).
Proof.
  revert i0 i. induction l as [|y l IH]; intros i0 i H; [destruct i; discriminate|].
  destruct i as [|i].
  - injection H as ->. left. f_equal. lia.
  - right. cbn [nth_error] in H. replace (i0 + N.of_nat (S i)) with ((i0 + 1) + N.of_nat i) by lia.
    apply IH, H.
Qed.

Section Corollaries.
  Context (NM : Num).
  Notation T := (T NM).

  Definition nodes_of (evs : list (event NM)) : list (pnode NM) :=
    flat_map (fun e => match e with ENode n => [n] | EErr _ => [] end) evs.

  Definition errs_of (evs : list (event NM)) : list perr :=
    flat_map (fun e => match e with ENode _ => [] | EErr e => [e] end) evs.

  Lemma nodes_of_app a c : nodes_of (a ++ c) = nodes_of a ++ nodes_of c.
  Proof. apply flat_map_app. Qed.

  Lemma errs_of_app a c : errs_of (a ++ c) = errs_of a ++ errs_of c.
  Proof. apply flat_map_app. Qed.

  (** the entry lines, as (name, value) *)
  Fixpoint entries_of (l : list item) : list (bytes * T) :=
    match l with
    | [] => []
    | IEntry _ n _ lx _ :: r => (n, value_of NM lx) :: entries_of r
    | _ :: r => entries_of r
    end.

  (** ** last record kept *)

  Theorem last_record_kept_newline l :
    forallb (fun ic : item * bool => wf_item NM (fst ic)) l = true -> short_items l true ->
    events NM (render {| f_items := l; f_final_newline := true |})
    = events NM (render {| f_items := l; f_final_newline := false |}).
  Proof.
    intros Hwf Hs.
    rewrite !parse_render_roundtrip; try assumption; [reflexivity|].
    apply short_items_drop_final_newline, Hs.
  Qed.

  (** splitting the item list at a heading splits the events (only the line
      counter is carried over) *)
  Lemma expect_app_heading l1 n s r ln cur :
    expect NM (l1 ++ IHeading n s :: r) ln cur
    = expect NM l1 ln cur ++ expect NM (IHeading n s :: r) (ln + lengthN l1) None.
  Proof.
    revert ln cur. induction l1 as [|it l1 IH]; intros ln cur.
    - cbn [app lengthN expect]. rewrite N.add_0_r. destruct cur; reflexivity.
    - assert (E : ln + lengthN (it :: l1) = ln + 1 + lengthN l1) by (cbn [lengthN]; lia).
      rewrite E. clear E.
      destruct it; cbn [app expect]; rewrite IH, ?app_assoc; reflexivity.
  Qed.

  Definition step_item (c : pnode NM) (it : item) : pnode NM :=
    match it with
    | IEntry _ n _ lx _ => add_elem NM c n (value_of NM lx)
    | INote _ raw => add_meta NM c (metadata_pair raw)
    | _ => c
    end.

  (** under an open record, items up to the next heading only extend it (and
      report errors) *)
  Lemma expect_body l ln c :
    no_heading l ->
    exists evs, expect NM l ln (Some c) = evs ++ [ENode (fold_left step_item l c)] /\ nodes_of evs = [].
  Proof.
    unfold no_heading. revert ln c. induction l as [|it l IH]; intros ln c H.
    - exists []. split; reflexivity.
    - cbn [forallb] in H. apply andb_true_iff in H as [Hit H].
      destruct it; try discriminate; cbn [expect fold_left step_item option_map].
      + apply IH, H.
      + apply IH, H.
      + apply IH, H.
      + apply IH, H.
      + destruct (IH (ln + 1) c H) as [evs [E Hn]].
        eexists (_ :: evs). rewrite E. split; [reflexivity|exact Hn].
      + destruct (IH (ln + 1) c H) as [evs [E Hn]].
        eexists (_ :: evs). rewrite E. split; [reflexivity|exact Hn].
  Qed.

  Definition meta_ext (m : option (list (bytes * bytes))) (ns : list (bytes * bytes)) :=
    match ns with
    | [] => m
    | _ => Some (match m with None => [] | Some l => l end ++ ns)
    end.

  Lemma fold_step_items l c :
    fold_left step_item l c
    = {| header := header c; elems := elems c ++ entries_of l; meta := meta_ext (meta c) (notes_of l) |}.
  Proof.
    revert c. induction l as [|it l IH]; intros c.
    - destruct c as [h e m]. cbn [fold_left header elems meta entries_of notes_of meta_ext].
      rewrite app_nil_r. reflexivity.
    - cbn [fold_left]. rewrite IH. clear IH.
      destruct it; cbn [step_item entries_of notes_of]; try reflexivity.
      + cbn [add_elem header elems meta]. rewrite <- app_assoc. reflexivity.
      + cbn [add_meta header elems meta]. f_equal.
        destruct (notes_of l) as [|x ns]; cbn [meta_ext].
        * destruct (meta c); reflexivity.
        * destruct (meta c); cbn [app]; rewrite <- ?app_assoc; reflexivity.
  Qed.

  (** the record of a heading [n] followed by the lines [body] *)
  Definition record (n : bytes) (body : list item) : pnode NM :=
    {| header := n; elems := entries_of body;
       meta := match notes_of body with [] => None | ns => Some ns end |}.

  Lemma fold_new_node n body : fold_left step_item body (new_node NM n) = record n body.
  Proof.
    rewrite fold_step_items. unfold record, new_node. cbn [header elems meta app meta_ext].
    destruct (notes_of body); reflexivity.
  Qed.

  Lemma expect_last_heading l1 n s l2 ln cur :
    no_heading l2 ->
    exists evs, expect NM (l1 ++ IHeading n s :: l2) ln cur = evs ++ [ENode (record n l2)].
  Proof.
    intros H. rewrite expect_app_heading. cbn [expect app].
    destruct (expect_body l2 (ln + lengthN l1 + 1) (new_node NM n) H) as [evs [E _]].
    rewrite E, fold_new_node. eexists. rewrite app_assoc. reflexivity.
  Qed.

  (** the last heading with everything under it is the last event, whether or
      not the file ends in a newline *)
  Theorem last_record_kept f l1 n s l2 :
    wf_file NM f = true -> short_lines f ->
    map fst (f_items f) = l1 ++ IHeading n s :: l2 -> no_heading l2 ->
    exists evs, events NM (render f) = evs ++ [ENode (record n l2)].
  Proof.
    intros Hwf Hs E H. rewrite parse_render_roundtrip by assumption.
    unfold expected_events. rewrite E. apply expect_last_heading, H.
  Qed.

  (** ** one record per heading, in order *)

  Lemma headers_expect l ln cur :
    map header (nodes_of (expect NM l ln cur))
    = match cur with Some c => [header c] | None => [] end ++ heading_names l.
  Proof.
    revert ln cur. induction l as [|it l IH]; intros ln cur.
    - destruct cur; reflexivity.
    - destruct it; cbn [expect heading_names]; rewrite ?nodes_of_app, ?map_app, IH;
        destruct cur; reflexivity.
  Qed.

  Theorem one_record_per_heading_expected f :
    map header (nodes_of (expected_events NM f)) = heading_names (map fst (f_items f)).
  Proof. unfold expected_events. rewrite headers_expect. reflexivity. Qed.

  Theorem one_record_per_heading f :
    wf_file NM f = true -> short_lines f ->
    map header (nodes_of (events NM (render f))) = heading_names (map fst (f_items f)).
  Proof. intros Hwf Hs. rewrite parse_render_roundtrip by assumption. apply one_record_per_heading_expected. Qed.

  (** ** entries come from entry lines only *)

  Lemma elems_expect l ln cur :
    flat_map elems (nodes_of (expect NM l ln cur))
    = match cur with
      | Some c => elems c ++ entries_of l
      | None => entries_of (from_first_heading l)
      end.
  Proof.
    revert ln cur. induction l as [|it l IH]; intros ln cur.
    - destruct cur; [cbn; rewrite app_nil_r|]; reflexivity.
    - destruct it; cbn [expect entries_of from_first_heading];
        rewrite ?nodes_of_app, ?flat_map_app, IH; destruct cur as [c|];
        cbn [option_map add_elem add_meta new_node elems nodes_of flat_map app];
        rewrite <- ?app_assoc, ?app_nil_r; reflexivity.
  Qed.

  Theorem entries_only_from_entry_lines_expected f :
    flat_map elems (nodes_of (expected_events NM f))
    = entries_of (from_first_heading (map fst (f_items f))).
  Proof. unfold expected_events. apply elems_expect. Qed.

  Theorem comments_blanks_notes_never_entries f :
    wf_file NM f = true -> short_lines f ->
    flat_map elems (nodes_of (events NM (render f)))
    = entries_of (from_first_heading (map fst (f_items f))).
  Proof. intros Hwf Hs. rewrite parse_render_roundtrip by assumption. apply entries_only_from_entry_lines_expected. Qed.

  (** ** each record: the k-th node is the k-th heading with the lines up to
      the next heading *)

  Lemma nodes_expect_body l ln c : no_heading l -> nodes_of (expect NM l ln (Some c)) = [fold_left step_item l c].
  Proof.
    intros H. destruct (expect_body l ln c H) as [evs [E Hn]].
    rewrite E, nodes_of_app, Hn. reflexivity.
  Qed.

  Theorem record_under_heading_expected l1 n s l2 l3 :
    no_heading l2 -> (l3 = [] \/ exists n' s' r, l3 = IHeading n' s' :: r) ->
    exists before after,
      nodes_of (expect NM (l1 ++ IHeading n s :: l2 ++ l3) 0 None) = before ++ record n l2 :: after
      /\ length before = length (heading_names l1)
      /\ length after = length (heading_names l3).
  Proof.
    intros H2 H3.
    exists (nodes_of (expect NM l1 0 None)).
    rewrite expect_app_heading, nodes_of_app.
    assert (Hlen : forall l ln, length (nodes_of (expect NM l ln None)) = length (heading_names l)).
    { intros l ln. rewrite <- (map_length header), headers_expect. reflexivity. }
    destruct H3 as [-> | [n' [s' [r ->]]]].
    - exists []. rewrite app_nil_r. cbn [expect app].
      rewrite nodes_expect_body by exact H2. rewrite fold_new_node.
      split; [reflexivity|]. split; [apply Hlen|reflexivity].
    - change (IHeading n s :: l2 ++ IHeading n' s' :: r) with ((IHeading n s :: l2) ++ IHeading n' s' :: r).
      rewrite expect_app_heading, nodes_of_app.
      set (X := expect NM (IHeading n' s' :: r) _ None).
      exists (nodes_of X).
      cbn [expect app].
      rewrite nodes_expect_body by exact H2. rewrite fold_new_node.
      split; [reflexivity|]. split; [apply Hlen|]. subst X. apply Hlen.
  Qed.

  Theorem record_under_heading f l1 n s l2 l3 :
    wf_file NM f = true -> short_lines f ->
    map fst (f_items f) = l1 ++ IHeading n s :: l2 ++ l3 ->
    no_heading l2 -> (l3 = [] \/ exists n' s' r, l3 = IHeading n' s' :: r) ->
    exists before after,
      nodes_of (events NM (render f)) = before ++ record n l2 :: after
      /\ length before = length (heading_names l1)
      /\ length after = length (heading_names l3).
  Proof.
    intros Hwf Hs E H2 H3. rewrite parse_render_roundtrip by assumption.
    unfold expected_events. rewrite E. apply record_under_heading_expected; assumption.
  Qed.

  (** ** layout invariance *)

  Fixpoint expect_c (l : list content) (cur : option (pnode NM)) : list (event NM) :=
    match l with
    | [] => opt_node NM cur
    | CHeading n :: r => opt_node NM cur ++ expect_c r (Some (new_node NM n))
    | CEntry n lx :: r => expect_c r (option_map (fun c => add_elem NM c n (value_of NM lx)) cur)
    | CNote raw :: r => expect_c r (option_map (fun c => add_meta NM c (metadata_pair raw)) cur)
    end.

  Lemma expect_contents l :
    forallb (fun it => negb (is_bad it)) l = true ->
    forall ln cur, expect NM l ln cur = expect_c (contents l) cur.
  Proof.
    induction l as [|it l IH]; intros H ln cur; [reflexivity|].
    cbn [forallb] in H. apply andb_true_iff in H as [Hit H]. specialize (IH H).
    destruct it; try discriminate; cbn [expect contents content_of expect_c]; rewrite IH; reflexivity.
  Qed.

  Theorem layout_invariance f f' :
    wf_file NM f = true -> short_lines f -> no_bad_items f ->
    wf_file NM f' = true -> short_lines f' -> no_bad_items f' ->
    contents (map fst (f_items f)) = contents (map fst (f_items f')) ->
    events NM (render f) = events NM (render f').
  Proof.
    intros Hwf Hs Hb Hwf' Hs' Hb' E.
    rewrite !parse_render_roundtrip by assumption. unfold expected_events.
    unfold no_bad_items in *.
    rewrite !expect_contents by (rewrite forallb_map; assumption).
    rewrite E. reflexivity.
  Qed.

  (** ** errors carry the physical line number, in file order *)

  (** stateful enumeration, as the parser walks *)
  Fixpoint bad_walk (l : list item) (i : N) (seen : bool) : list (N * item) :=
    match l with
    | [] => []
    | it :: r => (if seen && is_bad it then [(i, it)] else []) ++ bad_walk r (i + 1) (seen || is_heading it)
    end.

  Definition is_some {A} (o : option A) : bool := match o with Some _ => true | None => false end.

  Lemma errs_expect l ln cur :
    errs_of (expect NM l ln cur) = map (fun p => err_at (fst p) (snd p)) (bad_walk l ln (is_some cur)).
  Proof.
    revert ln cur. induction l as [|it l IH]; intros ln cur.
    - destruct cur; reflexivity.
    - destruct it; cbn [expect bad_walk is_bad is_heading]; rewrite ?errs_of_app, IH;
        destruct cur; cbn [is_some andb orb option_map app map errs_of flat_map fst snd err_at render_line];
        reflexivity.
  Qed.

  Lemma bad_walk_filter pre r :
    bad_walk r (lengthN pre) (existsb is_heading pre)
    = filter (fun p => is_bad (snd p) && existsb is_heading (firstn (N.to_nat (fst p)) (pre ++ r)))
             (indexed (lengthN pre) r).
  Proof.
    revert pre. induction r as [|it r IH]; intros pre; [reflexivity|].
    cbn [bad_walk indexed filter fst snd].
    rewrite lengthN_nat, firstn_app_exact.
    specialize (IH (pre ++ [it])).
    rewrite lengthN_app, existsb_app, <- app_assoc in IH. cbn [lengthN existsb app] in IH.
    rewrite orb_false_r in IH. change (N.succ 0) with 1 in IH. rewrite IH.
    rewrite (andb_comm (existsb is_heading pre)).
    destruct (is_bad it && existsb is_heading pre); reflexivity.
  Qed.

  Theorem errors_in_file_order_expected f :
    errs_of (expected_events NM f)
    = map (fun p => err_at (fst p) (snd p)) (bad_after_heading (map fst (f_items f))).
  Proof.
    unfold expected_events. rewrite errs_expect. unfold bad_after_heading.
    f_equal. exact (bad_walk_filter [] (map fst (f_items f))).
  Qed.

  (** the positions listed by [bad_after_heading] are what the name says *)
  Lemma bad_after_heading_In l i it :
    nth_error l i = Some it -> is_bad it = true ->
    (exists j n s, (j < i)%nat /\ nth_error l j = Some (IHeading n s)) ->
    In (N.of_nat i, it) (bad_after_heading l).
  Proof.
    intros Hi Hb [j [n [s [Hj Hh]]]]. unfold bad_after_heading.
    apply filter_In. split.
    - apply (indexed_In l 0 i it Hi).
    - cbn [fst snd]. rewrite Hb, Nat2N.id. cbn [andb].
      apply existsb_exists. exists (IHeading n s). split; [|reflexivity].
      apply (nth_error_In _ j). rewrite nth_error_firstn_lt by exact Hj. exact Hh.
  Qed.

  Theorem error_line_numbers_physical f :
    wf_file NM f = true -> short_lines f ->
    errs_of (events NM (render f))
    = map (fun p => err_at (fst p) (snd p)) (bad_after_heading (map fst (f_items f)))
    /\ forall i it,
         nth_error (map fst (f_items f)) i = Some it -> is_bad it = true ->
         (exists j n s, (j < i)%nat /\ nth_error (map fst (f_items f)) j = Some (IHeading n s)) ->
         In (EErr (err_at (N.of_nat i) it)) (events NM (render f)).
  Proof.
    intros Hwf Hs. rewrite parse_render_roundtrip by assumption.
    pose proof (errors_in_file_order_expected f) as E. split; [exact E|].
    intros i it Hi Hb Hh.
    pose proof (bad_after_heading_In _ i it Hi Hb Hh) as Hin.
    apply (in_map (fun p => err_at (fst p) (snd p))) in Hin. cbn [fst snd] in Hin.
    rewrite <- E in Hin. unfold errs_of in Hin. apply in_flat_map in Hin as [e [He Hin]].
    destruct e as [nd|e]; [destruct Hin|]. destruct Hin as [->|[]]. exact He.
  Qed.
End Corollaries.
