(** WP12: the walk over an event list, writer-free ([pwalk]), its agreement
    with [walk_events] on a sink that never fails, the connecting lemma to
    [walk_and_finish], and the concatenation law of [pwalk]. *)
From Coq Require Import Lia.
From HP Require Import Base.Bytes Base.Utf8 Base.Num Model.Scanner Model.Parser Model.Elements Model.Dates
  Model.Tree Model.Writer Model.Reporters Model.Cli Spec.ComposeSpec Proofs.ComposeWriter.

Section Walk.
  Context (NM : Num).
  Context (R : reporter NM) (pd : nat -> list bytes -> list bytes) (pf : list bytes -> list bytes)
          (toks : list ltoken) (bt et : option time).

  Notation RSt := (RS NM R).

  Definition is_some {A} (o : option A) : bool := match o with Some _ => true | None => false end.

  (** one event: new state, new day index, bytes written, error *)
  Definition pstep_ev (pd : nat -> list bytes -> list bytes) (rs : RSt) (i : nat) (ev : event NM)
    : RSt * nat * bytes * option cerr :=
    match classify_event NM toks bt et ev with
    | KErr e => (rs, i, [], Some e)
    | KSkip => (rs, i, [], None)
    | KDay ln =>
        let '(rs', chunks, perr) := r_process NM R (pd i) rs ln in
        (rs', S i, chunk_bytes chunks, perr)
    end.

  Fixpoint pwalk (pd : nat -> list bytes -> list bytes) (evs : list (event NM)) (rs : RSt) (i : nat)
    : RSt * nat * bytes * option cerr :=
    match evs with
    | [] => (rs, i, [], None)
    | ev :: r =>
        let '(rs', i', o, e) := pstep_ev pd rs i ev in
        match e with
        | Some _ => (rs', i', o, e)
        | None => let '(rs'', i'', o', e') := pwalk pd r rs' i' in (rs'', i'', o ++ o', e')
        end
    end.

  (** the stop flag of [walk_cb] is exactly "an error is returned" *)
  Lemma walk_cb_stop : forall st ev,
    snd (fst (walk_cb NM R pd toks bt et st ev)) = is_some (snd (walk_cb NM R pd toks bt et st ev)).
  Proof.
    intros [[rs i] wr] ev. unfold walk_cb.
    destruct ev as [n|e]; [|reflexivity].
    destruct (parse_date toks (header n)) as [c|]; [|reflexivity].
    destruct (in_interval bt et (time_of_civil c)); [|reflexivity].
    destruct (r_process NM R (pd i) rs _) as [[rs' chunks] perr].
    destruct (bw_chunks wr chunks) as [wr' werr].
    cbn. destruct werr; [reflexivity|]. destruct perr; reflexivity.
  Qed.

  Lemma walk_cb_good : forall rs i wr ev, good wr ->
    let '(rs', i', o, e) := pstep_ev pd rs i ev in
    exists wr', walk_cb NM R pd toks bt et (rs, i, wr) ev = ((rs', i', wr'), is_some e, e)
                /\ good wr' /\ out wr' = out wr ++ o.
  Proof.
    intros rs i wr ev Hg. unfold pstep_ev, walk_cb, classify_event.
    destruct ev as [n|e].
    - destruct (parse_date toks (header n)) as [c|].
      + destruct (in_interval bt et (time_of_civil c)).
        * destruct (r_process NM R (pd i) rs _) as [[rs' chunks] perr].
          destruct (bw_chunks_good chunks wr Hg) as (Hg1 & He1 & Ho1).
          destruct (bw_chunks wr chunks) as [wr' werr]. cbn [fst snd] in Hg1, He1, Ho1. subst werr.
          exists wr'. split; [|split; assumption]. destruct perr; reflexivity.
        * exists wr. rewrite app_nil_r. split; [reflexivity | split; [assumption | reflexivity]].
      + exists wr. rewrite app_nil_r. split; [reflexivity | split; [assumption | reflexivity]].
    - exists wr. rewrite app_nil_r. split; [reflexivity | split; [assumption | reflexivity]].
  Qed.

  Lemma walk_events_good : forall evs rs i wr, good wr ->
    let '(rs', i', o, e) := pwalk pd evs rs i in
    exists wr', walk_events NM R pd toks bt et evs (rs, i, wr) = ((rs', i', wr'), e)
                /\ good wr' /\ out wr' = out wr ++ o.
  Proof.
    induction evs as [|ev r IH]; intros rs i wr Hg.
    - cbn. exists wr. rewrite app_nil_r. split; [reflexivity | split; [assumption | reflexivity]].
    - cbn [pwalk walk_events].
      pose proof (walk_cb_good rs i wr ev Hg) as Hcb.
      destruct (pstep_ev pd rs i ev) as [[[rs1 i1] o1] e1].
      destruct Hcb as (wr1 & Hcb & Hg1 & Ho1). rewrite Hcb.
      destruct e1 as [e1|]; cbn [is_some].
      + exists wr1. split; [reflexivity | split; assumption].
      + specialize (IH rs1 i1 wr1 Hg1).
        destruct (pwalk pd r rs1 i1) as [[[rs2 i2] o2] e2].
        destruct IH as (wr2 & Hw & Hg2 & Ho2).
        exists wr2. split; [exact Hw | split; [exact Hg2 |]].
        rewrite Ho2, Ho1, app_assoc. reflexivity.
  Qed.

  (** [report_from] on a good writer, in terms of [pwalk] *)
  Lemma report_from_good : forall evs wr, good wr ->
    let '(rs', i', o, e) := pwalk pd evs (r_init NM R) O in
    exists wr3, report_from NM R pd pf toks bt et wr evs = (wr3, e, rs')
                /\ good wr3
                /\ s_got (bw_sink wr3) = out wr ++ o ++ chunk_bytes (r_flush NM R pf rs')
                /\ bw_buf wr3 = [].
  Proof.
    intros evs wr Hg. unfold report_from.
    pose proof (walk_events_good evs (r_init NM R) O wr Hg) as Hw.
    destruct (pwalk pd evs (r_init NM R) O) as [[[rs1 i1] o1] e1].
    destruct Hw as (wr1 & Hw & Hg1 & Ho1). rewrite Hw.
    destruct (bw_chunks_good (r_flush NM R pf rs1) wr1 Hg1) as (Hg2 & He2 & Ho2).
    destruct (bw_chunks wr1 (r_flush NM R pf rs1)) as [wr2 e2]. cbn [fst snd] in Hg2, He2, Ho2. subst e2.
    destruct (bw_flush_good wr2 Hg2) as (Hg3 & He3 & Hgot3 & Hbuf3).
    destruct (bw_flush wr2) as [wr3 e3]. cbn [fst snd] in Hg3, He3, Hgot3, Hbuf3. subst e3.
    exists wr3. split; [destruct e1; reflexivity|]. split; [exact Hg3|]. split; [|exact Hbuf3].
    rewrite Hgot3, Ho2, Ho1, <- app_assoc. reflexivity.
  Qed.

  (** the report on a fresh writer in front of a sink that never fails *)
  Lemma report_pwalk : forall evs,
    report NM R pd pf toks bt et evs =
    (let '(rs', _, o, e) := pwalk pd evs (r_init NM R) O in (o ++ chunk_bytes (r_flush NM R pf rs'), e)).
  Proof.
    intros evs. unfold report.
    pose proof (report_from_good evs fresh_writer (good_new [])) as H.
    destruct (pwalk pd evs (r_init NM R) O) as [[[rs1 i1] o1] e1].
    destruct H as (wr3 & Hr & _ & Hgot & _). rewrite Hr, Hgot. reflexivity.
  Qed.

  Lemma report_state_pwalk : forall evs,
    report_state NM R pd pf toks bt et evs = fst (fst (fst (pwalk pd evs (r_init NM R) O))).
  Proof.
    intros evs. unfold report_state.
    pose proof (report_from_good evs fresh_writer (good_new [])) as H.
    destruct (pwalk pd evs (r_init NM R) O) as [[[rs1 i1] o1] e1].
    destruct H as (wr3 & Hr & _). rewrite Hr. reflexivity.
  Qed.

  (** *** the connecting lemma *)
  Lemma walk_events_drive_loop : forall evs tail st,
    walk_events NM R pd toks bt et (evs ++ tail) st =
    match drive_loop NM (walk_cb NM R pd toks bt et) evs st with
    | (st', Some e) => (st', e)
    | (st', None) => walk_events NM R pd toks bt et tail st'
    end.
  Proof.
    induction evs as [|ev r IH]; intros tail st.
    - reflexivity.
    - cbn [app walk_events drive_loop].
      destruct (walk_cb NM R pd toks bt et st ev) as [[st1 stop] e].
      destruct stop; [reflexivity | apply IH].
  Qed.

  (** [walk_and_finish] on a readable file is [report_from] on the events of the file *)
  Theorem walk_and_finish_events : forall data wr,
    snd (scan data NoFault) = ScanEOF ->
    walk_and_finish NM R pd pf toks bt et (OData data NoFault) wr
    = report_from NM R pd pf toks bt et wr (events NM data).
  Proof.
    intros data wr Hscan.
    unfold walk_and_finish, report_from, parse_opened, parse_stream, events.
    destruct (scan data NoFault) as [lines fin]. cbn [fst snd] in Hscan |- *. subst fin.
    destruct (parse_lines NM lines) as [evs last]. cbv beta iota.
    unfold drive. rewrite walk_events_drive_loop.
    destruct (drive_loop NM (walk_cb NM R pd toks bt et) evs (r_init NM R, O, wr)) as [st1 [e|]].
    - destruct st1 as [[rs1 i1] wr1]. destruct e; reflexivity.
    - destruct last as [n|].
      + cbn [walk_events].
        pose proof (walk_cb_stop st1 (ENode n)) as Hstop.
        destruct (walk_cb NM R pd toks bt et st1 (ENode n)) as [[st2 stop] e]. cbn [fst snd] in Hstop.
        destruct st2 as [[rs2 i2] wr2]. subst stop. destruct e; reflexivity.
      + cbn [walk_events]. destruct st1 as [[rs1 i1] wr1]. reflexivity.
  Qed.

  (** with the standard writer of a run whose stdout never fails *)
  Corollary walk_and_finish_report : forall data,
    snd (scan data NoFault) = ScanEOF ->
    let '(wr, e, rs) := walk_and_finish NM R pd pf toks bt et (OData data NoFault) fresh_writer in
    (s_got (bw_sink wr), e) = report NM R pd pf toks bt et (events NM data)
    /\ rs = report_state NM R pd pf toks bt et (events NM data).
  Proof.
    intros data Hscan. rewrite (walk_and_finish_events data fresh_writer Hscan).
    unfold report, report_state.
    destruct (report_from NM R pd pf toks bt et fresh_writer (events NM data)) as [[wr e] rs].
    split; reflexivity.
  Qed.
End Walk.

Arguments is_some {A}.

(** *** concatenation of histories *)
Section Concat.
  Context (NM : Num).
  Context (R : reporter NM) (toks : list ltoken) (bt et : option time).
  Notation RSt := (RS NM R).

  (** [pwalk] from index [k] with oracle [pd] = [pwalk] from [0] with the shifted oracle, index shifted back *)
  Lemma pstep_ev_shift : forall pd k rs i ev,
    pstep_ev NM R toks bt et pd rs (k + i) ev =
    (let '(rs', i', o, e) := pstep_ev NM R toks bt et (fun j => pd (k + j)) rs i ev in (rs', k + i', o, e)).
  Proof.
    intros pd k rs i ev. unfold pstep_ev.
    destruct (classify_event NM toks bt et ev) as [e| |ln]; try reflexivity.
    destruct (r_process NM R (pd (k + i)) rs ln) as [[rs' chunks] perr].
    rewrite <- plus_n_Sm. reflexivity.
  Qed.

  Lemma pwalk_shift : forall pd k evs rs i,
    pwalk NM R toks bt et pd evs rs (k + i) =
    (let '(rs', i', o, e) := pwalk NM R toks bt et (fun j => pd (k + j)) evs rs i in (rs', k + i', o, e)).
  Proof.
    intros pd k. induction evs as [|ev r IH]; intros rs i.
    - reflexivity.
    - cbn [pwalk]. rewrite pstep_ev_shift.
      destruct (pstep_ev NM R toks bt et (fun j => pd (k + j)) rs i ev) as [[[rs1 i1] o1] e1].
      destruct e1 as [e1|]; [reflexivity|].
      rewrite IH.
      destruct (pwalk NM R toks bt et (fun j => pd (k + j)) r rs1 i1) as [[[rs2 i2] o2] e2]. reflexivity.
  Qed.

  Lemma pwalk_app : forall pd evs1 evs2 rs i,
    pwalk NM R toks bt et pd (evs1 ++ evs2) rs i =
    (let '(rs1, i1, o1, e1) := pwalk NM R toks bt et pd evs1 rs i in
     match e1 with
     | Some _ => (rs1, i1, o1, e1)
     | None => let '(rs2, i2, o2, e2) := pwalk NM R toks bt et pd evs2 rs1 i1 in (rs2, i2, o1 ++ o2, e2)
     end).
  Proof.
    intros pd. induction evs1 as [|ev r IH]; intros evs2 rs i.
    - cbn [app pwalk]. destruct (pwalk NM R toks bt et pd evs2 rs i) as [[[rs2 i2] o2] e2]. reflexivity.
    - cbn [app pwalk].
      destruct (pstep_ev NM R toks bt et pd rs i ev) as [[[rs0 i0] o0] e0].
      destruct e0 as [e0|]; [reflexivity|].
      rewrite IH.
      destruct (pwalk NM R toks bt et pd r rs0 i0) as [[[rs1 i1] o1] e1].
      destruct e1 as [e1|]; [reflexivity|].
      destruct (pwalk NM R toks bt et pd evs2 rs1 i1) as [[[rs2 i2] o2] e2].
      rewrite app_assoc. reflexivity.
  Qed.

  (** a walk without error has met exactly the selected days *)
  Lemma pwalk_index : forall pd evs rs i,
    snd (pwalk NM R toks bt et pd evs rs i) = None ->
    snd (fst (fst (pwalk NM R toks bt et pd evs rs i))) = i + selected_days NM toks bt et evs.
  Proof.
    intros pd. induction evs as [|ev r IH]; intros rs i Hok.
    - cbn. lia.
    - cbn [pwalk selected_days] in *. unfold pstep_ev in *.
      destruct (classify_event NM toks bt et ev) as [e| |ln].
      + discriminate Hok.
      + specialize (IH rs i).
        destruct (pwalk NM R toks bt et pd r rs i) as [[[rs2 i2] o2] e2]. cbn [fst snd] in *. auto.
      + destruct (r_process NM R (pd i) rs ln) as [[rs' chunks] perr].
        destruct perr as [pe|]; [discriminate Hok|].
        specialize (IH rs' (S i)).
        destruct (pwalk NM R toks bt et pd r rs' (S i)) as [[[rs2 i2] o2] e2]. cbn [fst snd] in *.
        rewrite IH by assumption. lia.
  Qed.
End Concat.
