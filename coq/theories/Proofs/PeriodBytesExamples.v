(** WP26: non-vacuity of the byte-level C06 theorems, and witnesses for their hypotheses. *)
From Coq Require Import Lia String.
From HP Require Import Base.Bytes Base.Utf8 Base.Num Base.GoFloat Model.Scanner Model.Parser Model.Syntax Model.Elements
  Model.Resolver Model.Dates Model.Tree Model.Writer Model.Reporters Model.Cli.
From HP Require Import Spec.PeriodSpec Spec.PeriodBytesSpec.
From HP Require Import Proofs.ParserBytes Proofs.ParserScan Proofs.ParserCorollaries Proofs.PeriodPick Proofs.PeriodRun
  Proofs.PeriodBytesParse Proofs.PeriodBytesRun Proofs.PeriodBytesCli.

(** a checkable form of [headings_dated] *)
Definition headings_dated_b (toks : list ltoken) (f : file) : bool :=
  forallb (fun ic : item * bool =>
             match fst ic with
             | IHeading n _ => match parse_date toks n with Some _ => true | None => false end
             | _ => true
             end) (f_items f).

Lemma headings_dated_b_ok toks f : headings_dated_b toks f = true -> headings_dated toks f.
Proof.
  unfold headings_dated_b, headings_dated. intros H n s crlf Hin.
  rewrite forallb_forall in H. specialize (H _ Hin). cbn [fst] in H.
  destruct (parse_date toks n); [discriminate | discriminate H].
Qed.

(** *** an abstract log: five records of four days, not in date order, 2021/03/13 twice;
    a comment before the first heading and one inside a record, an empty line and a line of
    blanks, a note, a YAML dash, a tab indent, two CRLF line endings, no final newline *)
Definition ex_f : file := {| f_items := [
  (IComment (b " my log"), false);
  (IHeading (b "2021/03/15") (b ":"), false);
  (IEntry (b "  ") (b "pear") (b ": ") (b "2") [], false);
  (IBlank [], false);
  (IHeading (b "2021/03/13") (b ":"), true);
  (INote (b "  ") (b "# mood: fine"), false);
  (IEntry (b "  - ") (b "plum") (b ": ") (b "5") (b " "), false);
  (IHeading (b "2021/03/14") (b ":"), false);
  (IEntry [c_tab] (b "apple") (b " ") (b "1") [], true);
  (IComment (b " snack"), false);
  (IHeading (b "2021/03/13") (b ":"), false);
  (IEntry (b "  ") (b "fig") (b ": ") (b "3") [], false);
  (IBlank (b "  "), false);
  (IHeading (b "2021/03/12") (b ":"), false);
  (IEntry (b "  ") (b "kiwi") (b ": ") (b "7") [], false)];
  f_final_newline := false |}.

Definition ex_bt : option time := Some (time_of_civil (2021, 3, 13)%Z).
Definition ex_et : option time := Some (time_of_civil (2021, 3, 14)%Z).

Definition ex_w : world := ex_world_log (render ex_f).

(** the hypotheses of the theorems hold of it *)
Example ex_f_hypotheses :
  wf_file ZNum ex_f = true /\ short_lines ex_f /\ clean_file ex_f /\ headings_dated ex_toks ex_f
  /\ file_is ex_w (b "log.yaml") (render ex_f).
Proof.
  split; [vm_compute; reflexivity|].
  split; [apply short_lines_simple; repeat constructor; vm_compute; reflexivity|].
  split; [vm_compute; reflexivity|].
  split; [apply headings_dated_b_ok; vm_compute; reflexivity|].
  split; [discriminate|]. split; [intro HH; vm_compute in HH; discriminate HH|]. split; vm_compute; reflexivity.
Qed.

(** the file with the other days deleted: the records of 03/15 and 03/12 are gone with all their
    lines (the empty line after "pear" belonged to the 03/15 record), everything else is byte for
    byte what it was *)
Example ex_f_reduced :
  render (keep_records (in_period ex_toks ex_bt ex_et) ex_f)
  = b "# my log" ++ [c_lf]
    ++ b "2021/03/13:" ++ [c_cr; c_lf] ++ b "  # mood: fine" ++ [c_lf] ++ b "  - plum: 5 " ++ [c_lf]
    ++ b "2021/03/14:" ++ [c_lf] ++ [c_tab] ++ b "apple 1" ++ [c_cr; c_lf] ++ b "# snack" ++ [c_lf]
    ++ b "2021/03/13:" ++ [c_lf] ++ b "  fig: 3" ++ [c_lf] ++ b "  ".
Proof. vm_compute. reflexivity. Qed.

(** the parser statement is exercised: five records, three are kept *)
Example ex_f_events :
  length (events ZNum (render ex_f)) = 5%nat /\
  length (events ZNum (render (keep_records (in_period ex_toks ex_bt ex_et) ex_f))) = 3%nat /\
  events ZNum (render (keep_records (in_period ex_toks ex_bt ex_et) ex_f))
  = filter (keep_ev_strict ZNum ex_toks ex_bt ex_et) (events ZNum (render ex_f)).
Proof.
  split; [vm_compute; reflexivity|]. split; [vm_compute; reflexivity|].
  destruct ex_f_hypotheses as [Hwf [Hs [Hc _]]]. apply delete_days_events; assumption.
Qed.

(** [register] with a global period overridden at its begin by the sub-command's flag *)
Definition ex_i : invocation :=
  ex_inv None (Some (b "2021/03/01")) (Some (b "2021/03/14")) (Some (b "2021/03/13")) None CReg.

Definition ex_op : options :=
  {| op_db := dev_null; op_log := b "log.yaml"; op_fmt := b "2006/01/02"; op_depth := 10;
     op_now := time_of_civil (civ (w_clock ex_w)); op_begin := ex_bt; op_end := ex_et;
     op_rc := {| rc_color := false; rc_totals_only := false; rc_totals := true; rc_date := ex_toks;
                 rc_single_element := []; rc_single_food := []; rc_collapse_last := false; rc_collapse := false;
                 rc_group_food := false; rc_shorten := false; rc_old := false; rc_template := b "default";
                 rc_csv := false |} |}.

Example ex_load : load ex_w ex_i = inr ex_op.
Proof. vm_compute. reflexivity. Qed.

(** the instance of [period_is_deletion_run]; the output is not empty, and it is not what the
    unrestricted run prints *)
Example period_is_deletion_reg :
  run ZNum ex_w ex_i
  = run ZNum (with_file ex_w (b "log.yaml") (render (keep_records (in_period ex_toks ex_bt ex_et) ex_f)))
        (without_period_flags ex_i)
  /\ out_status (run ZNum ex_w ex_i) = Ok
  /\ (300 < length (out_stdout (run ZNum ex_w ex_i)))%nat
  /\ run ZNum ex_w (without_period_flags ex_i) <> run ZNum ex_w ex_i.
Proof.
  split.
  - destruct ex_f_hypotheses as [Hwf [Hs [Hc [Hd Hf]]]].
    exact (period_is_deletion_run ZNum ex_w ex_i ex_op ex_f ex_load eq_refl Hwf Hs Hc Hd Hf
             ltac:(vm_compute; discriminate) ltac:(vm_compute; discriminate)).
  - split; [vm_compute; reflexivity|]. split; [vm_compute; lia|]. vm_compute. discriminate.
Qed.

(** the same for [print] (a [run_log] command) and for binary64 values *)
Example period_is_deletion_print_b64 :
  let i := ex_inv None None (Some (b "2021/03/14")) (Some (b "2021/03/13")) None CPrint in
  run B64 ex_w i
  = run B64 (with_file ex_w (b "log.yaml") (render (keep_records (in_period ex_toks ex_bt ex_et) ex_f)))
        (without_period_flags i)
  /\ out_stdout (run B64 ex_w i) <> [].
Proof. vm_compute. split; [reflexivity | discriminate]. Qed.

(** *** why the run-level theorems do not go through [log_restricted]
    The byte-deleted file does NOT satisfy [log_restricted] of Spec/PeriodSpec.v in general: when the
    last record of the file is deleted, the last KEPT record becomes the pending record of the
    reduced file (reported after the loop), while [log_restricted] wants it among the loop's events.
    The two streams differ only in where that record sits; the commands cannot tell (for the walk's
    callback "stop" and "error" coincide), which is what [walk_and_finish_events] uses. *)
Definition ex_g : file := {| f_items := [
  (IHeading (b "2021/03/14") (b ":"), false); (IEntry (b "  ") (b "apple") (b ": ") (b "1") [], false);
  (IHeading (b "2021/03/15") (b ":"), false); (IEntry (b "  ") (b "pear") (b ": ") (b "2") [], false)];
  f_final_newline := true |}.

Example log_restricted_not_literal_deletion :
  wf_file ZNum ex_g = true /\ clean_file ex_g /\ headings_dated ex_toks ex_g /\
  ~ log_restricted ZNum ex_toks ex_et ex_et
      (OData (render ex_g) NoFault)
      (OData (render (keep_records (in_period ex_toks ex_et ex_et) ex_g)) NoFault).
Proof.
  split; [vm_compute; reflexivity|]. split; [vm_compute; reflexivity|].
  split; [apply headings_dated_b_ok; vm_compute; reflexivity|].
  vm_compute. discriminate.
Qed.

(** *** hypotheses that the property text does not have, with witnesses *)

(** a malformed line under a heading ([clean_file] fails): already with the line inside a KEPT
    record the two runs differ, in the line number of the message *)
Definition ex_h : file := {| f_items := [
  (IHeading (b "2021/03/13") (b ":"), false); (IEntry (b "  ") (b "plum") (b ": ") (b "5") [], false);
  (IHeading (b "2021/03/14") (b ":"), false); (IBadNoSep (b "  ") (b "apple"), false)];
  f_final_newline := true |}.

Example clean_file_needed :
  let w := ex_world_log (render ex_h) in
  let i := ex_inv None (Some (b "2021/03/14")) None None None CReg in
  wf_file ZNum ex_h = true /\ short_lines ex_h /\ headings_dated ex_toks ex_h /\ ~ clean_file ex_h /\
  out_status (run ZNum w i) = Failed (EParse (b "bad syntax on line 4, ""  apple"".")) /\
  out_status (run ZNum (with_file w (b "log.yaml") (render (keep_records (in_period ex_toks ex_et None) ex_h)))
                  (without_period_flags i))
  = Failed (EParse (b "bad syntax on line 2, ""  apple"".")).
Proof.
  cbv zeta.
  split; [vm_compute; reflexivity|].
  split; [apply short_lines_simple; repeat constructor; vm_compute; reflexivity|].
  split; [apply headings_dated_b_ok; vm_compute; reflexivity|].
  split; [vm_compute; discriminate|]. split; vm_compute; reflexivity.
Qed.

(** a heading that is not a date ([headings_dated] fails): the run with the period fails with
    EBadDate, the run on the reduced file succeeds *)
Definition ex_k : file := {| f_items := [
  (IHeading (b "banana") (b ":"), false); (IEntry (b "  ") (b "plum") (b ": ") (b "5") [], false);
  (IHeading (b "2021/03/14") (b ":"), false); (IEntry (b "  ") (b "apple") (b ": ") (b "1") [], false)];
  f_final_newline := true |}.

Example headings_dated_needed :
  let w := ex_world_log (render ex_k) in
  let i := ex_inv None (Some (b "2021/03/14")) None None None CReg in
  wf_file ZNum ex_k = true /\ short_lines ex_k /\ clean_file ex_k /\ ~ headings_dated ex_toks ex_k /\
  out_status (run ZNum w i) = Failed EBadDate /\
  out_status (run ZNum (with_file w (b "log.yaml") (render (keep_records (in_period ex_toks ex_et None) ex_k)))
                  (without_period_flags i)) = Ok.
Proof.
  cbv zeta.
  split; [vm_compute; reflexivity|].
  split; [apply short_lines_simple; repeat constructor; vm_compute; reflexivity|].
  split; [vm_compute; reflexivity|].
  split.
  - intros H. apply (H (b "banana") (b ":") false); [left; reflexivity | vm_compute; reflexivity].
  - split; vm_compute; reflexivity.
Qed.

(** an injected read fault on the log (last conjunct of [file_is] fails): the fault sits at a byte
    OFFSET, and deleting days moves the bytes under it *)
Example read_fault_free_needed :
  let w0 := ex_world_log (render ex_f) in
  let w := {| w_fs := w_fs w0; w_default_config := w_default_config w0; w_tz := w_tz w0; w_clock := w_clock w0;
              w_or := w_or w0; w_sink := w_sink w0; w_read_fault := [(b "log.yaml", 60%nat)] |} in
  run ZNum w ex_i
  <> run ZNum (with_file w (b "log.yaml") (render (keep_records (in_period ex_toks ex_bt ex_et) ex_f)))
         (without_period_flags ex_i).
Proof. vm_compute. discriminate. Qed.

(** the book and the log in the same file ([op_db op <> op_log op] fails): deleting days from the
    log deletes recipes from the book *)
Definition ex_m : file := {| f_items := [
  (IHeading (b "2021/03/13") (b ":"), false); (IEntry (b "  ") (b "pear") (b ": ") (b "5") [], false);
  (IHeading (b "2021/03/14") (b ":"), false); (IEntry (b "  ") (b "2021/03/13") (b ": ") (b "2") [], false)];
  f_final_newline := true |}.

Definition ex_i_book_is_log : invocation :=
  {| i_f_db := Some (b "log.yaml"); i_e_db := None; i_f_log := None; i_e_log := None; i_f_fmt := None;
     i_e_fmt := None; i_f_depth := None; i_e_depth := None; i_f_today := None; i_f_config := None;
     i_e_config := None; i_no_database := false; i_g_begin := Some (b "2021/03/14"); i_g_end := None;
     i_l_begin := None; i_l_end := None; i_g_no_color := true; i_l_no_color := false;
     i_single_food := []; i_single_element := []; i_group_food := false; i_csv := false;
     i_no_totals := false; i_totals_only := true; i_shorten := false; i_old := false;
     i_template := None; i_collapse := false; i_collapse_last := false; i_desc := false;
     i_silent := false; i_cmd := CReg |}.

Example distinct_files_needed :
  let w := ex_world_log (render ex_m) in
  wf_file ZNum ex_m = true /\ short_lines ex_m /\ clean_file ex_m /\ headings_dated ex_toks ex_m /\
  (exists op, load w ex_i_book_is_log = inr op /\ op_db op = op_log op) /\
  run ZNum w ex_i_book_is_log
  <> run ZNum (with_file w (b "log.yaml") (render (keep_records (in_period ex_toks ex_et None) ex_m)))
         (without_period_flags ex_i_book_is_log).
Proof.
  cbv zeta.
  split; [vm_compute; reflexivity|].
  split; [apply short_lines_simple; repeat constructor; vm_compute; reflexivity|].
  split; [vm_compute; reflexivity|].
  split; [apply headings_dated_b_ok; vm_compute; reflexivity|].
  split; [eexists; split; vm_compute; reflexivity|].
  vm_compute. discriminate.
Qed.
