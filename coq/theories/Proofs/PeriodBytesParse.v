(** WP26, part 1 (pure parser statement): deleting whole records from a syntactically clean
    abstract file deletes exactly the corresponding events, nothing else changes. *)
From Coq Require Import Lia ZifyBool ZifyNat ZifyN.
From HP Require Import Base.Bytes Base.Utf8 Base.Num Model.Scanner Model.Parser Model.Syntax Model.Dates Model.Cli.
From HP Require Import Spec.PeriodSpec Spec.PeriodBytesSpec.
From HP Require Import Proofs.ParserBytes Proofs.ParserScan Proofs.ParserClassify Proofs.ParserRoundtrip
  Proofs.ParserCorollaries.
Open Scope N_scope.

(** ** [keep_items] on the items and on the (item, CRLF flag) pairs *)

Lemma keep_items_fst keep l : forall on, map fst (keep_items keep on l) = keep_its keep on (map fst l).
Proof.
  induction l as [|[it crlf] r IH]; intros on; [reflexivity|].
  destruct it as [ws|t|n s|pre n mid lx post|pre raw|pre t|pre n mid t post];
    cbn [keep_items keep_its map fst];
    try (destruct on; cbn [map fst]; rewrite IH; reflexivity).
  destruct (keep n); cbn [map fst]; rewrite IH; reflexivity.
Qed.

(** every item of the reduced file is an item of the file *)
Lemma keep_items_incl keep l : forall on ic, In ic (keep_items keep on l) -> In ic l.
Proof.
  induction l as [|[it crlf] r IH]; intros on ic H; [exact H|].
  destruct it as [ws|t|n s|pre n mid lx post|pre raw|pre t|pre n mid t post];
    cbn [keep_items] in H;
    try (destruct on; [destruct H as [H|H]; [left; exact H | right; exact (IH _ _ H)] | right; exact (IH _ _ H)]).
  destruct (keep n); [destruct H as [H|H]; [left; exact H | right; exact (IH _ _ H)] | right; exact (IH _ _ H)].
Qed.

(** two predicates that agree on the headings of the file delete the same records *)
Lemma keep_items_ext k1 k2 l :
  (forall n s crlf, In (IHeading n s, crlf) l -> k1 n = k2 n) ->
  forall on, keep_items k1 on l = keep_items k2 on l.
Proof.
  induction l as [|[it crlf] r IH]; intros H on; [reflexivity|].
  assert (Hr : forall n s c, In (IHeading n s, c) r -> k1 n = k2 n).
  { intros n s c Hin. apply (H n s c). right. exact Hin. }
  specialize (IH Hr).
  destruct it as [ws|t|n s|pre n mid lx post|pre raw|pre t|pre n mid t post];
    cbn [keep_items]; rewrite ?IH; try reflexivity.
  rewrite (H n s crlf) by (left; reflexivity). reflexivity.
Qed.

(** keeping everything is the identity *)
Lemma keep_items_all keep l : (forall n, keep n = true) -> keep_items keep true l = l.
Proof.
  intros H. induction l as [|[it crlf] r IH]; [reflexivity|].
  destruct it; cbn [keep_items]; rewrite ?H, IH; reflexivity.
Qed.

(** ** the hypotheses pass to the reduced file *)

Section Hyps.
  Context (NM : Num).

  Lemma keep_records_wf keep f : wf_file NM f = true -> wf_file NM (keep_records keep f) = true.
  Proof.
    unfold wf_file, keep_records. cbn [f_items]. intros H.
    rewrite forallb_forall in *. intros ic Hin. apply H. exact (keep_items_incl _ _ _ _ Hin).
  Qed.

  (** the length bound, item by item: every line but the last counts its CR; the last one
      counts it only when the file ends in a newline *)
  Definition bound_mid (ic : item * bool) : Prop := lengthN (render_line (fst ic) ++ cr_if (snd ic)) < max_token.
  Definition bound_last (fnl : bool) (ic : item * bool) : Prop :=
    if fnl then bound_mid ic else lengthN (render_line (fst ic)) < max_token.

  Fixpoint bounded (fnl : bool) (l : list (item * bool)) : Prop :=
    match l with
    | [] => True
    | [ic] => bound_last fnl ic
    | ic :: r => bound_mid ic /\ bounded fnl r
    end.

  Lemma bound_mid_last fnl ic : bound_mid ic -> bound_last fnl ic.
  Proof.
    unfold bound_last, bound_mid. destruct fnl; [exact (fun H => H)|].
    rewrite lengthN_app. lia.
  Qed.

  Lemma short_items_bounded l fnl : short_items l fnl <-> bounded fnl l.
  Proof.
    unfold short_items. induction l as [|[it crlf] r IH]; [split; [exact (fun _ => I) | constructor]|].
    destruct r as [|ic2 r'].
    - cbn [raws_of bounded]. unfold bound_last, bound_mid. cbn [fst snd]. destruct fnl.
      + split; [intros H; inversion H as [|x y H1 H2]; subst; exact H1 | intros H; constructor; [exact H|constructor]].
      + destruct (render_line it) as [|c l] eqn:E.
        * split; [intros _; cbn [lengthN]; unfold max_token; lia | constructor].
        * split; [intros H; inversion H as [|x y H1 H2]; subst; exact H1 | intros H; constructor; [exact H|constructor]].
    - change (raws_of ((it, crlf) :: ic2 :: r') fnl)
        with ((render_line it ++ cr_if crlf, true) :: raws_of (ic2 :: r') fnl).
      change (bounded fnl ((it, crlf) :: ic2 :: r')) with (bound_mid (it, crlf) /\ bounded fnl (ic2 :: r')).
      split.
      + intros H. inversion H as [|x y H1 H2]; subst. split; [exact H1 | apply IH, H2].
      + intros [H1 H2]. constructor; [exact H1 | apply IH, H2].
  Qed.

  Lemma bounded_cons fnl ic r : bounded fnl (ic :: r) -> bound_last fnl ic /\ (r <> [] -> bound_mid ic) /\ bounded fnl r.
  Proof.
    destruct r as [|ic2 r'].
    - cbn [bounded]. intros H. split; [exact H|]. split; [intros C; congruence | exact I].
    - change (bounded fnl (ic :: ic2 :: r')) with (bound_mid ic /\ bounded fnl (ic2 :: r')).
      intros [H1 H2]. split; [apply bound_mid_last, H1|]. split; [intros _; exact H1 | exact H2].
  Qed.

  Lemma bounded_cons_intro fnl ic r : bound_last fnl ic -> (r <> [] -> bound_mid ic) -> bounded fnl r -> bounded fnl (ic :: r).
  Proof.
    destruct r as [|ic2 r']; intros H1 H2 H3.
    - exact H1.
    - change (bounded fnl (ic :: ic2 :: r')) with (bound_mid ic /\ bounded fnl (ic2 :: r')).
      split; [apply H2; discriminate | exact H3].
  Qed.

  Lemma keep_items_nil_of_nil keep on : keep_items keep on [] = [].
  Proof. reflexivity. Qed.

  Lemma bounded_keep_items keep fnl l : forall on, bounded fnl l -> bounded fnl (keep_items keep on l).
  Proof.
    induction l as [|[it crlf] r IH]; intros on H; [exact I|].
    apply bounded_cons in H as [Hl [Hm Hr]].
    assert (Hcons : forall on', bounded fnl ((it, crlf) :: keep_items keep on' r)).
    { intros on'. apply bounded_cons_intro; [exact Hl | | apply IH, Hr].
      intros Hne. apply Hm. intros ->. apply Hne. reflexivity. }
    destruct it as [ws|t|n s|pre n mid lx post|pre raw|pre t|pre n mid t post];
      cbn [keep_items];
      try (destruct on; [apply Hcons | apply IH, Hr]).
    destruct (keep n); [apply Hcons | apply IH, Hr].
  Qed.

  Lemma keep_records_short keep f : short_lines f -> short_lines (keep_records keep f).
  Proof.
    unfold short_lines, keep_records. cbn [f_items f_final_newline]. intros H.
    apply short_items_bounded. apply bounded_keep_items. apply short_items_bounded. exact H.
  Qed.
End Hyps.

(** ** the core: [expect] of the reduced item list *)

Section Core.
  Context (NM : Num) (keep : bytes -> bool).

  Notation kev := (@keep_event NM keep).
  Notation opt := (opt_node NM).

  Definition kept_cur (cur : option (pnode NM)) : Prop := forall c, cur = Some c -> keep (header c) = true.

  Lemma filter_opt_kept cur : kept_cur cur -> filter kev (opt cur) = opt cur.
  Proof.
    intros H. destruct cur as [c|]; [|reflexivity]. cbn [opt_node filter keep_event].
    rewrite (H c eq_refl). reflexivity.
  Qed.

  (** the invariant between the record open in the file ([cur]) and the one open in the reduced
      file ([cur']): inside a kept record they are the same record; inside a deleted record the
      reduced file still has the last kept record open *)
  Definition inv (on : bool) (cur cur' : option (pnode NM)) : Prop :=
    kept_cur cur' /\
    if on then cur' = cur else exists c, cur = Some c /\ keep (header c) = false.

  Lemma is_some_opt (cur : option (pnode NM)) : is_some cur = match cur with Some _ => true | None => false end.
  Proof. destruct cur; reflexivity. Qed.

  Lemma expect_keep l : forall ln ln' cur cur' on,
    no_bad_under (is_some cur) l = true ->
    inv on cur cur' ->
    expect NM (keep_its keep on l) ln' cur'
    = (if on then [] else opt cur') ++ filter kev (expect NM l ln cur).
  Proof.
    induction l as [|it l IH]; intros ln ln' cur cur' on Hb [Hk Hinv].
    - cbn [keep_its expect]. fold (opt cur') (opt cur). destruct on.
      + subst cur'. rewrite filter_opt_kept by exact Hk. reflexivity.
      + destruct Hinv as [c [-> Hc]]. cbn [opt_node filter keep_event]. rewrite Hc, app_nil_r. reflexivity.
    - cbn [no_bad_under] in Hb. apply andb_true_iff in Hb as [Hbit Hb].
      destruct it as [ws|t|n s|pre n mid lx post|pre raw|pre t|pre n mid t post].
      + (* blank *)
        rewrite orb_false_r in Hb. cbn [keep_its]. destruct on; cbn [expect].
        * apply (IH (ln + 1) (ln' + 1) cur cur' true Hb). split; assumption.
        * apply (IH (ln + 1) ln' cur cur' false Hb). split; assumption.
      + (* comment *)
        rewrite orb_false_r in Hb. cbn [keep_its]. destruct on; cbn [expect].
        * apply (IH (ln + 1) (ln' + 1) cur cur' true Hb). split; assumption.
        * apply (IH (ln + 1) ln' cur cur' false Hb). split; assumption.
      + (* heading *)
        rewrite orb_true_r in Hb. cbn [keep_its].
        assert (Hpre : (if on then [] else opt cur') ++ filter kev (opt cur) = opt cur').
        { destruct on.
          - subst cur'. apply filter_opt_kept, Hk.
          - destruct Hinv as [c [-> Hc]]. cbn [opt_node filter keep_event]. rewrite Hc, app_nil_r. reflexivity. }
        cbn [expect]. fold (opt cur). rewrite filter_app, app_assoc, Hpre.
        destruct (keep n) eqn:Hn.
        * cbn [expect]. fold (opt cur'). f_equal.
          apply (IH (ln + 1) (ln' + 1) (Some (new_node NM n)) (Some (new_node NM n)) true Hb).
          split; [|reflexivity]. intros c Hc. injection Hc as <-. exact Hn.
        * apply (IH (ln + 1) ln' (Some (new_node NM n)) cur' false Hb).
          split; [exact Hk|]. exists (new_node NM n). split; [reflexivity | exact Hn].
      + (* entry *)
        rewrite orb_false_r in Hb. cbn [keep_its]. destruct on; cbn [expect].
        * subst cur'.
          apply (IH (ln + 1) (ln' + 1) _ _ true).
          -- destruct cur; exact Hb.
          -- split; [|reflexivity]. intros c Hc. destruct cur as [c0|]; [|discriminate].
             cbn [option_map] in Hc. injection Hc as <-. cbn [add_elem header]. apply Hk. reflexivity.
        * destruct Hinv as [c [-> Hc]]. cbn [option_map].
          match goal with |- _ = _ ++ filter _ (expect _ _ _ (Some ?x)) =>
            apply (IH (ln + 1) ln' (Some x) cur' false Hb) end.
          split; [exact Hk|]. eexists. split; [reflexivity|]. exact Hc.
      + (* note *)
        rewrite orb_false_r in Hb. cbn [keep_its]. destruct on; cbn [expect].
        * subst cur'.
          apply (IH (ln + 1) (ln' + 1) _ _ true).
          -- destruct cur; exact Hb.
          -- split; [|reflexivity]. intros c Hc. destruct cur as [c0|]; [|discriminate].
             cbn [option_map] in Hc. injection Hc as <-. cbn [add_meta header]. apply Hk. reflexivity.
        * destruct Hinv as [c [-> Hc]]. cbn [option_map].
          match goal with |- _ = _ ++ filter _ (expect _ _ _ (Some ?x)) =>
            apply (IH (ln + 1) ln' (Some x) cur' false Hb) end.
          split; [exact Hk|]. eexists. split; [reflexivity|]. exact Hc.
      + (* malformed: only possible before the first heading *)
        rewrite orb_false_r in Hb. cbn [is_bad] in Hbit. rewrite andb_true_r in Hbit.
        destruct cur as [c|]; [discriminate Hbit|].
        destruct on; [|destruct Hinv as [c [Hc _]]; discriminate Hc].
        subst cur'. cbn [keep_its expect app].
        apply (IH (ln + 1) (ln' + 1) None None true Hb). split; [exact Hk | reflexivity].
      + rewrite orb_false_r in Hb. cbn [is_bad] in Hbit. rewrite andb_true_r in Hbit.
        destruct cur as [c|]; [discriminate Hbit|].
        destruct on; [|destruct Hinv as [c [Hc _]]; discriminate Hc].
        subst cur'. cbn [keep_its expect app].
        apply (IH (ln + 1) (ln' + 1) None None true Hb). split; [exact Hk | reflexivity].
  Qed.

  Theorem expected_events_keep_records f :
    clean_file f ->
    expected_events NM (keep_records keep f) = filter kev (expected_events NM f).
  Proof.
    intros Hc. unfold expected_events, keep_records. cbn [f_items].
    rewrite keep_items_fst.
    apply (expect_keep (map fst (f_items f)) 0 0 None None true Hc).
    split; [intros c Hx; discriminate Hx | reflexivity].
  Qed.

  (** *** the pure parser statement, for ANY predicate on headings *)
  Theorem delete_records_events f :
    wf_file NM f = true -> short_lines f -> clean_file f ->
    events NM (render (keep_records keep f)) = filter kev (events NM (render f)).
  Proof.
    intros Hwf Hs Hc.
    rewrite (parse_render_roundtrip NM _ (keep_records_wf NM keep f Hwf) (keep_records_short keep f Hs)).
    rewrite (parse_render_roundtrip NM f Hwf Hs).
    apply expected_events_keep_records, Hc.
  Qed.

  (** the reduced file is read to the end by the scanner *)
  Lemma keep_records_scan_eof f :
    wf_file NM f = true -> short_lines f -> snd (scan (render (keep_records keep f)) NoFault) = ScanEOF.
  Proof.
    intros Hwf Hs. apply (short_lines_exact NM); [apply keep_records_wf, Hwf | apply keep_records_short, Hs].
  Qed.
End Core.

(** ** the meaning of [clean_file] *)

Section Clean.
  Context (NM : Num).

  Lemma no_bad_under_bad_walk l : forall ln seen, no_bad_under seen l = true <-> bad_walk l ln seen = [].
  Proof.
    induction l as [|it l IH]; intros ln seen; [split; reflexivity|].
    cbn [no_bad_under bad_walk]. rewrite andb_true_iff.
    assert (E : (match it with IHeading _ _ => true | _ => false end) = is_heading it) by (destruct it; reflexivity).
    rewrite E. rewrite (IH (ln + 1) (seen || is_heading it)%bool).
    destruct (seen && is_bad it)%bool; cbn [negb app].
    - split; [intros [H _]; discriminate H | intros H; discriminate H].
    - split; [intros [_ H]; exact H | intros H; split; [reflexivity | exact H]].
  Qed.

  (** [clean_file]: exactly the files (in the documented format, read to the end) whose parse
      reports no error *)
  Theorem clean_file_no_errors f :
    wf_file NM f = true -> short_lines f ->
    (clean_file f <-> errs_of NM (events NM (render f)) = []).
  Proof.
    intros Hwf Hs. rewrite (parse_render_roundtrip NM f Hwf Hs).
    unfold expected_events, clean_file. rewrite errs_expect. cbn [is_some].
    rewrite (no_bad_under_bad_walk _ 0 false).
    split; [intros ->; reflexivity | intros H; apply map_eq_nil in H; exact H].
  Qed.

  Lemma no_bad_all l : forallb (fun it => negb (is_bad it)) l = true -> forall seen, no_bad_under seen l = true.
  Proof.
    induction l as [|it l IH]; intros H seen; [reflexivity|].
    cbn [forallb] in H. apply andb_true_iff in H as [Hit H].
    cbn [no_bad_under]. rewrite (IH H). apply negb_true_iff in Hit. rewrite Hit, andb_false_r. reflexivity.
  Qed.

  (** a file without any malformed line is clean *)
  Lemma no_bad_items_clean f : no_bad_items f -> clean_file f.
  Proof.
    unfold no_bad_items, clean_file. intros H. apply no_bad_all. rewrite forallb_map. exact H.
  Qed.

  (** no malformed line is left in the reduced file either *)
  Lemma keep_records_no_bad keep f : no_bad_items f -> no_bad_items (keep_records keep f).
  Proof.
    unfold no_bad_items, keep_records. cbn [f_items]. intros H.
    rewrite forallb_forall in *. intros ic Hin. apply H. exact (keep_items_incl _ _ _ _ Hin).
  Qed.
End Clean.

(** ** the period as the predicate *)

Section Period.
  Context (NM : Num) (toks : list ltoken) (bt et : option time).

  Lemma keep_event_in_period ev :
    @keep_event NM (in_period toks bt et) ev = keep_ev_strict NM toks bt et ev.
  Proof. destruct ev; reflexivity. Qed.

  Lemma keep_event_in_period_or_undated ev :
    @keep_event NM (in_period_or_undated toks bt et) ev = keep_ev NM toks bt et ev.
  Proof. destruct ev; reflexivity. Qed.

  Lemma filter_ext' {A} (p q : A -> bool) l : (forall x, p x = q x) -> filter p l = filter q l.
  Proof. intros H. induction l as [|x l IH]; [reflexivity|]. cbn [filter]. rewrite H, IH. reflexivity. Qed.

  (** "the same file with the other days deleted" parses into the events of the file restricted
      to the records whose heading is a date in the period *)
  Theorem delete_days_events f :
    wf_file NM f = true -> short_lines f -> clean_file f ->
    events NM (render (keep_records (in_period toks bt et) f))
    = filter (keep_ev_strict NM toks bt et) (events NM (render f)).
  Proof.
    intros Hwf Hs Hc. rewrite (delete_records_events NM _ f Hwf Hs Hc).
    apply filter_ext', keep_event_in_period.
  Qed.

  (** the variant that leaves records with an undated heading in place: the filter of
      [Props/C06.v period_is_filter] *)
  Theorem delete_days_events_or_undated f :
    wf_file NM f = true -> short_lines f -> clean_file f ->
    events NM (render (keep_records (in_period_or_undated toks bt et) f))
    = filter (keep_ev NM toks bt et) (events NM (render f)).
  Proof.
    intros Hwf Hs Hc. rewrite (delete_records_events NM _ f Hwf Hs Hc).
    apply filter_ext', keep_event_in_period_or_undated.
  Qed.

  (** when every heading is a date the two readings delete the same lines *)
  Lemma keep_records_dated f :
    headings_dated toks f ->
    keep_records (in_period toks bt et) f = keep_records (in_period_or_undated toks bt et) f.
  Proof.
    intros Hd. unfold keep_records. f_equal. apply keep_items_ext.
    intros n s crlf Hin. specialize (Hd n s crlf Hin). unfold in_period, in_period_or_undated.
    destruct (parse_date toks n); [reflexivity | congruence].
  Qed.

  (** [headings_dated] on the file is [headings_parse] on its events *)
  Lemma heading_names_In l n : In n (heading_names l) -> exists s, In (IHeading n s) l.
  Proof.
    induction l as [|it l IH]; intros H; [destruct H|].
    destruct it as [ws|t|n0 s0|pre n0 mid lx post|pre raw|pre t|pre n0 mid t post]; cbn [heading_names] in H;
      try (destruct (IH H) as [s Hs]; exists s; right; exact Hs).
    destruct H as [<-|H]; [exists s0; left; reflexivity|].
    destruct (IH H) as [s Hs]. exists s. right. exact Hs.
  Qed.

  Lemma headings_dated_parse f :
    wf_file NM f = true -> short_lines f -> headings_dated toks f ->
    headings_parse NM toks (events NM (render f)).
  Proof.
    intros Hwf Hs Hd n Hin.
    assert (Hn : In (header n) (map header (nodes_of NM (events NM (render f))))).
    { apply in_map. unfold nodes_of. apply in_flat_map. exists (ENode n). split; [exact Hin | left; reflexivity]. }
    rewrite (one_record_per_heading NM f Hwf Hs) in Hn.
    apply heading_names_In in Hn as [s Hs'].
    apply in_map_iff in Hs' as [[it crlf] [E Hin']]. cbn [fst] in E. subst it.
    exact (Hd _ _ _ Hin').
  Qed.
End Period.
