(** WP23, Part B (generic half).  The parser on a printed log, relative to an
    invariant [Q] of the amounts: the lemmas of Proofs/PrintParse.v that use the
    number law [FmtStable NM] are re-proved here under the restricted law
    [FSO : FmtStableOn NM Q] (Spec/PrintOnSpec.v) plus the hypothesis that the
    amounts being printed satisfy [Q].  The lemmas of PrintParse.v that do not
    use the number law are reused as they are. *)
From Coq Require Import Lia ZifyBool ZifyNat ZifyN.
From HP Require Import Base.Bytes Base.Utf8 Base.Num Model.Scanner Model.Parser Model.Elements Model.Dates
     Model.Writer Model.Reporters Spec.PrintSpec Spec.PrintOnSpec
     Proofs.PrintBytes Proofs.PrintUtf8 Proofs.PrintDates Proofs.PrintLines Proofs.PrintParse.
Open Scope N_scope.

Section PrintOnParse.
  Context (NM : Num) (Q : T NM -> Prop) (FSO : FmtStableOn NM Q).
  Notation T := (T NM).
  Notation lognode := (lognode NM).
  Notation f2 := (fmt_fixed NM 2).

  (** *** the number law on [Q] *)
  Lemma reread_spec_on v : Q v ->
    of_lexeme NM (f2 v) = Some (reread NM v) /\ Q (reread NM v) /\ f2 (reread NM v) = f2 v.
  Proof.
    intros Hq. destruct (fso_reread NM Q FSO v Hq) as [v' [H1 [H2 H3]]]. unfold reread. rewrite H1.
    split; [reflexivity|]. split; [exact H2|exact H3].
  Qed.

  (** the re-read entries satisfy [Q] again *)
  Lemma reread_elems_in (es : list (bytes * T)) :
    Forall (fun nv => Q (snd nv)) es -> Forall (fun nv => Q (snd nv)) (reread_elems NM es).
  Proof.
    intros HQ. unfold reread_elems. apply Forall_map. eapply Forall_impl; [|exact HQ].
    intros nv Hnv. cbn [snd]. apply (reread_spec_on (snd nv) Hnv).
  Qed.

  (** *** the parse loop on entry lines, a whole day, several days *)
  Lemma parse_loop_entries_on (es : list (bytes * T)) : forall rest ln n,
    Forall (fun nv => normal_name (fst nv) = true) es ->
    Forall (fun nv => Q (snd nv)) es ->
    parse_loop NM (map (entry_line NM) es ++ rest) ln (Some n)
    = parse_loop NM rest (ln + lengthN es)
        (Some (fold_left (fun n nv => add_elem NM n (fst nv) (snd nv)) (reread_elems NM es) n)).
  Proof.
    induction es as [|nv es IH]; intros rest ln n H HQ; [cbn; rewrite N.add_0_r; reflexivity|].
    inversion H as [|? ? Hnv Hes]; subst. inversion HQ as [|? ? Hqv Hqs]; subst.
    cbn [map app parse_loop]. unfold entry_line at 1.
    destruct (reread_spec_on (snd nv) Hqv) as [Hre _].
    rewrite (classify_entry NM _ (fst nv) (f2 (snd nv)) (reread NM (snd nv)) Hnv (fso_clean NM Q FSO _ Hqv) Hre).
    cbn [option_map fold_left reread_elems map fst snd].
    rewrite (IH rest (ln + 1) (add_elem NM n (fst nv) (reread NM (snd nv))) Hes Hqs). cbn [lengthN]. f_equal. lia.
  Qed.

  Lemma parse_loop_day_on c d rest ln cur :
    heading_layout (rc_date c) = true -> day_printable NM c d -> day_in NM Q d ->
    exists ln', parse_loop NM (day_lines NM c d ++ rest) ln cur
                = let '(evs, last) := parse_loop NM rest ln' (Some (reread_node NM c d)) in
                  (cur_events NM cur ++ evs, last).
  Proof.
    intros HL [Hfit [Hnames [Hnotes _]]] HQ.
    exists (ln + 1 + lengthN (notes_of NM d) + lengthN (ln_elems NM d) + 1).
    unfold day_lines. cbn [app parse_loop]. unfold heading_line at 1.
    rewrite (classify_heading NM _ (fdate c (ln_time NM d)) _ (format_date_heading _ _ HL Hfit)).
    rewrite <- !app_assoc. rewrite (parse_loop_notes NM _ _ _ _ Hnotes).
    rewrite (parse_loop_entries_on _ _ _ _ Hnames HQ).
    cbn [app parse_loop]. rewrite classify_empty.
    assert (En : fold_left (fun n nv => add_elem NM n (fst nv) (snd nv)) (reread_elems NM (ln_elems NM d))
                   (fold_left (add_meta NM) (notes_of NM d) (new_node NM (fdate c (ln_time NM d))))
                 = reread_node NM c d).
    { rewrite fold_add_elem, fold_add_meta. unfold reread_node, new_node, notes_of, norm_meta.
      cbn [header elems meta app]. f_equal. destruct (ln_meta NM d) as [[|mp l]|]; reflexivity. }
    rewrite En. destruct (parse_loop NM rest _ (Some (reread_node NM c d))) as [evs last].
    destruct cur; reflexivity.
  Qed.

  Lemma parse_loop_days_on c L : forall ln cur,
    heading_layout (rc_date c) = true -> Forall (day_printable NM c) L -> days_in NM Q L ->
    let r := parse_loop NM (flat_map (day_lines NM c) L) ln cur in
    fst r ++ cur_events NM (snd r) = cur_events NM cur ++ map (fun d => ENode (reread_node NM c d)) L.
  Proof.
    induction L as [|d L IH]; intros ln cur HL HF HQ.
    - cbn. rewrite app_nil_r. reflexivity.
    - inversion HF as [|? ? Hd HLs]; subst. inversion HQ as [|? ? Hqd Hqs]; subst. cbn [flat_map map].
      destruct (parse_loop_day_on c d (flat_map (day_lines NM c) L) ln cur HL Hd Hqd) as [ln' E].
      rewrite E. specialize (IH ln' (Some (reread_node NM c d)) HL HLs Hqs). cbv zeta in IH.
      destruct (parse_loop NM (flat_map (day_lines NM c) L) ln' (Some (reread_node NM c d))) as [evs last].
      cbn [fst snd] in *. rewrite <- app_assoc. rewrite IH. reflexivity.
  Qed.

  (** *** the scanner gives the printed lines back *)
  Lemma entry_line_scannable_on nv : normal_name (fst nv) = true -> Q (snd nv) ->
    memb c_lf (entry_line NM nv) = false /\ last_outside [c_cr] (entry_line NM nv) = true.
  Proof.
    intros Hn Hqv. destruct (normal_name_inv _ Hn) as [Hlf _].
    destruct (qty_clean_inv _ (fso_clean NM Q FSO (snd nv) Hqv)) as [Hq1 [_ Hq3]]. unfold entry_line. split.
    - rewrite !memb_app. rewrite Hlf. rewrite (none_in_memb_false _ _ c_lf Hq1) by (cbn; tauto). reflexivity.
    - apply last_outside_app. apply last_outside_app. apply last_outside_app. eapply last_outside_cr_of, Hq3.
  Qed.

  (** the entries of a day: good names and amounts in [Q], together *)
  Lemma names_and_in (es : list (bytes * T)) :
    Forall (fun nv => normal_name (fst nv) = true) es -> Forall (fun nv => Q (snd nv)) es ->
    Forall (fun nv => normal_name (fst nv) = true /\ Q (snd nv)) es.
  Proof.
    intros H1 H2. rewrite Forall_forall in *. intros nv Hnv. split; [apply (H1 nv Hnv)|apply (H2 nv Hnv)].
  Qed.

  Lemma day_lines_scannable_on c d :
    heading_layout (rc_date c) = true -> day_printable NM c d -> day_in NM Q d ->
    Forall (fun l => memb c_lf l = false) (day_lines NM c d)
    /\ Forall (fun l => l = [] \/ last_outside [c_cr] l = true) (day_lines NM c d).
  Proof.
    intros HL [Hfit [Hnames [Hnotes _]]] HQ.
    pose proof (names_and_in _ Hnames HQ) as Hboth.
    destruct (format_date_heading _ _ HL Hfit) as [Hb _].
    unfold day_lines. split.
    - constructor.
      + unfold heading_line. rewrite memb_app. unfold fdate. rewrite (heading_no_lf _ Hb). reflexivity.
      + apply Forall_app. split; [|apply Forall_app; split].
        * apply Forall_map. eapply Forall_impl; [|exact Hnotes]. intros mp H. apply note_line_scannable, H.
        * apply Forall_map. eapply Forall_impl; [|exact Hboth]. intros nv [H H']. apply entry_line_scannable_on; assumption.
        * constructor; [reflexivity|constructor].
    - constructor.
      + right. unfold heading_line. apply last_outside_app. reflexivity.
      + apply Forall_app. split; [|apply Forall_app; split].
        * apply Forall_map. eapply Forall_impl; [|exact Hnotes]. intros mp H. right. apply note_line_scannable, H.
        * apply Forall_map. eapply Forall_impl; [|exact Hboth]. intros nv [H H']. right.
          apply entry_line_scannable_on; assumption.
        * constructor; [left; reflexivity|constructor].
  Qed.

  (** a list of days: printable and amounts in [Q], together *)
  Lemma printable_and_in c (L : list lognode) :
    Forall (day_printable NM c) L -> days_in NM Q L ->
    Forall (fun d => day_printable NM c d /\ day_in NM Q d) L.
  Proof.
    intros H1 H2. unfold days_in in H2. rewrite Forall_forall in *. intros d Hd.
    split; [apply (H1 d Hd)|apply (H2 d Hd)].
  Qed.

  Lemma scan_print_output_on c L :
    heading_layout (rc_date c) = true -> Forall (day_printable NM c) L -> days_in NM Q L ->
    scan (print_output NM c L) NoFault = (flat_map (day_lines NM c) L, ScanEOF).
  Proof.
    intros HL HF HQ. pose proof (printable_and_in c L HF HQ) as Hboth.
    rewrite print_output_unlines. apply scan_unlines.
    - apply Forall_flat_map. eapply Forall_impl; [|exact Hboth]. intros d [Hd Hqd].
      apply (day_lines_scannable_on c d HL Hd Hqd).
    - apply Forall_flat_map. eapply Forall_impl; [|exact HF]. intros d Hd. apply Hd.
    - apply Forall_flat_map. eapply Forall_impl; [|exact Hboth]. intros d [Hd Hqd].
      apply (day_lines_scannable_on c d HL Hd Hqd).
  Qed.

  (** *** the events of a printed log *)
  Lemma events_print_output_on c L :
    heading_layout (rc_date c) = true -> Forall (day_printable NM c) L -> days_in NM Q L ->
    events NM (print_output NM c L) = map (fun d => ENode (reread_node NM c d)) L.
  Proof.
    intros HL HF HQ. unfold events. rewrite (scan_print_output_on c L HL HF HQ). cbn [fst]. unfold parse_lines.
    pose proof (parse_loop_days_on c L 0 None HL HF HQ) as H. cbv zeta in H.
    destruct (parse_loop NM (flat_map (day_lines NM c) L) 0 None) as [evs last]. exact H.
  Qed.
End PrintOnParse.
