(** WP25: glue shared by the command-level theorems of C02 / C07 (totals).
    - the days the walk hands to a reporter are exactly [day_node] of the period's records;
    - [run_db_log] on a healthy world, with the panic test only at the state the walk reaches;
    - chunk/byte bookkeeping. *)
From Coq Require Import Lia Permutation.
From HP Require Import Base.Bytes Base.Utf8 Base.Num Model.Scanner Model.Parser Model.Elements Model.Resolver
  Model.Dates Model.Tree Model.Writer Model.Reporters Model.Cli.
From HP Require Import Spec.RegisterSpec Spec.Agree2Spec Spec.AgreeSpec Spec.ProgramSpec.
From HP Require Import Proofs.AgreeMiscBase Proofs.AgreeMiscStats Proofs.AgreeMiscWalk Proofs.AgreeMiscProgram.

Section Base.
  Context (NM : Num).
  Notation T := (T NM).
  Notation db := (list (bytes * list (bytes * T))).
  Notation record := (record NM).

  (** the node the walk builds for a record *)
  Definition node_of_record (r : record) : lognode NM := day_node NM r.

  Lemma selected_days_records : forall toks bt et (ns : list (pnode NM)),
    selected_days NM toks bt et ns = map (day_node NM) (period_records NM toks bt et ns).
  Proof.
    intros toks bt et ns. unfold selected_days, period_records.
    induction ns as [|n r IH]; [reflexivity|].
    cbn [flat_map]. rewrite map_app. f_equal; [|exact IH].
    unfold in_period. destruct (parse_date toks (header n)) as [c|]; [|reflexivity].
    destruct (in_interval bt et (time_of_civil c)); reflexivity.
  Qed.

  (** the two walk vocabularies (Agree2Spec / AgreeSpec) are the same function *)
  Lemma walk_state_is_walk : forall (R : reporter NM) π (L : list (lognode NM)),
    walk_state NM R π L = walk NM R π L.
  Proof.
    intros R π L. unfold walk_state, walk. generalize (r_init NM R) as st. generalize O as i.
    induction L as [|ln r IH]; intros i st; [reflexivity|].
    cbn [Agree2Spec.walk_from AgreeSpec.walk_from]. apply IH.
  Qed.

  Lemma chunk_bytes_app : forall (l1 l2 : list chunk),
    Agree2Spec.chunk_bytes (l1 ++ l2) = Agree2Spec.chunk_bytes l1 ++ Agree2Spec.chunk_bytes l2.
  Proof. intros l1 l2. unfold Agree2Spec.chunk_bytes. rewrite map_app, concat_app. reflexivity. Qed.

  Lemma chunk_bytes_flat_map : forall {A} (f : A -> list chunk) (l : list A),
    Agree2Spec.chunk_bytes (flat_map f l) = concat (map (fun a => Agree2Spec.chunk_bytes (f a)) l).
  Proof.
    intros A f l. induction l as [|a r IH]; [reflexivity|].
    cbn [flat_map map concat]. rewrite chunk_bytes_app, IH. reflexivity.
  Qed.

  Lemma concat_map_combine_seq : forall {A B} (g : A -> list B) (l : list A) s,
    concat (map (fun il : nat * A => g (snd il)) (combine (seq s (length l)) l)) = concat (map g l).
  Proof.
    intros A B g l. induction l as [|a r IH]; intros s; [reflexivity|].
    cbn [length seq combine map concat snd]. f_equal. apply IH.
  Qed.

  Lemma map_combine_seq_ext : forall {A B} (f : nat * A -> B) (g : A -> B) (l : list A) s,
    (forall j a, f (j, a) = g a) -> map f (combine (seq s (length l)) l) = map g l.
  Proof.
    intros A B f g l. induction l as [|a r IH]; intros s H; [reflexivity|].
    cbn [length seq combine map]. rewrite H. f_equal. apply IH. exact H.
  Qed.

  Lemma flat_map_combine_seq_ext : forall {A B} (f : nat * A -> list B) (g : A -> list B) (l : list A) s,
    (forall j a, f (j, a) = g a) -> flat_map f (combine (seq s (length l)) l) = flat_map g l.
  Proof.
    intros A B f g l. induction l as [|a r IH]; intros s H; [reflexivity|].
    cbn [length seq combine flat_map]. rewrite H. f_equal. apply IH. exact H.
  Qed.

  (** *** [run_db_log] on a healthy world; the reporter need not be panic-free in every state, only
      in the one the walk reaches *)
  Theorem run_db_log_ok_at : forall (w : world) (op : options) (mk : db -> reporter NM) bt et toks odb d ldata,
    never_fails NM (mk d) ->
    w_sink w = None ->
    open_file w (op_db op) = Some odb -> resolved_db NM w op odb = inr d ->
    open_file w (op_log op) = Some (OData ldata NoFault) ->
    tokenize (op_fmt op) = Some toks ->
    snd (scan ldata NoFault) = ScanEOF -> no_parse_error NM (events NM ldata) ->
    all_dated NM toks (nodes_of NM (events NM ldata)) ->
    let L := selected_days NM toks bt et (nodes_of NM (events NM ldata)) in
    let rs := walk_state NM (mk d) (o_day (w_or w)) L in
    r_panic NM (mk d) rs = None ->
    run_db_log NM w op mk bt et
    = {| out_stdout := Agree2Spec.chunk_bytes (walk_chunks NM (mk d) (o_day (w_or w)) L)
                       ++ Agree2Spec.chunk_bytes (r_flush NM (mk d) (o_flush (w_or w)) rs);
         out_status := Ok |}.
  Proof.
    intros w op mk bt et toks odb d ldata HR Hs Hodb Hres Ho Ht Hfin Hne Hd L rs Hp.
    unfold run_db_log. cbn [open_all]. rewrite Hodb, Ho. cbn [option_map]. rewrite Hres, Ht.
    destruct (new_writer_ok w Hs) as [Hok Hc].
    destruct (walk_and_finish_ok NM (mk d) (o_day (w_or w)) (o_flush (w_or w)) toks bt et HR
                ldata (new_writer w) Hok Hfin Hne Hd) as [wr' [H1 [_ [_ Hg]]]].
    rewrite H1. fold L. fold rs. rewrite Hp. unfold finish, status_of. rewrite Hg, Hc. reflexivity.
  Qed.

  (** the walk of a reporter whose state never changes and whose chunks depend on the day alone *)
  Lemma never_fails_old : forall c (d : db), never_fails NM (rep_old NM c d).
  Proof. intros c d π st ln. reflexivity. Qed.
  Lemma never_fails_totals : forall (d : db), never_fails NM (rep_totals NM d).
  Proof. intros d π st ln. reflexivity. Qed.
  Lemma never_fails_single : forall c (d : db), never_fails NM (rep_single NM c d).
  Proof.
    intros c d π st ln. cbn [rep_single r_process].
    destruct (single_row NM d (rc_single_element c) ln) as [[[p n]|]|]; reflexivity.
  Qed.
  Lemma never_fails_balance_single : forall c (d : db), never_fails NM (rep_balance_single NM c d).
  Proof. intros c d π st ln. reflexivity. Qed.
End Base.
