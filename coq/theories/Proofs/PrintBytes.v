(** Byte-string facts used by the proofs of property C14: equality, the trim
    functions, [last_index_any], and the scanner on text made of LF-terminated
    lines. *)
From Coq Require Import Lia ZifyBool ZifyNat ZifyN.
From HP Require Import Base.Bytes Base.Utf8 Base.Num Model.Scanner Model.Parser Spec.PrintSpec.
Open Scope N_scope.

(** *** equality *)
Lemma beq_refl x : beq x x = true.
Proof. induction x as [|a x IH]; cbn; [reflexivity|]. rewrite N.eqb_refl, IH. reflexivity. Qed.

Lemma beq_true_iff x y : beq x y = true <-> x = y.
Proof.
  split.
  - revert y. induction x as [|a x IH]; intros [|c y] H; cbn in H; try discriminate; [reflexivity|].
    apply andb_true_iff in H. destruct H as [H1 H2]. apply N.eqb_eq in H1. subst c. f_equal. apply IH, H2.
  - intros ->. apply beq_refl.
Qed.

Lemma beq_false_iff x y : beq x y = false <-> x <> y.
Proof.
  split.
  - intros H E. apply beq_true_iff in E. congruence.
  - intros H. destruct (beq x y) eqn:E; [|reflexivity]. apply beq_true_iff in E. contradiction.
Qed.

(** *** membership *)
Lemma memb_In c set : memb c set = true <-> In c set.
Proof.
  unfold memb. rewrite existsb_exists. split.
  - intros [x [Hx E]]. apply N.eqb_eq in E. subst x. exact Hx.
  - intros H. exists c. split; [exact H|apply N.eqb_refl].
Qed.

Lemma memb_false_In c set : memb c set = false <-> ~ In c set.
Proof.
  split.
  - intros H HI. apply memb_In in HI. congruence.
  - intros H. destruct (memb c set) eqn:E; [|reflexivity]. apply memb_In in E. contradiction.
Qed.

Lemma memb_app c s1 s2 : memb c (s1 ++ s2) = memb c s1 || memb c s2.
Proof. unfold memb. apply existsb_app. Qed.

Lemma memb_cons c a s : memb c (a :: s) = (c =? a) || memb c s.
Proof. reflexivity. Qed.

Lemma memb_rev c s : memb c (rev s) = memb c s.
Proof.
  destruct (memb c s) eqn:E.
  - apply memb_In. apply memb_In in E. apply in_rev in E. exact E.
  - apply memb_false_In. apply memb_false_In in E. intros H. apply E. apply in_rev. exact H.
Qed.

(** every byte of [s] lies in [set] *)
Definition all_in (set s : bytes) : bool := forallb (fun c => memb c set) s.
(** no byte of [s] lies in [set] *)
Definition none_in (set s : bytes) : bool := forallb (fun c => negb (memb c set)) s.

Lemma all_in_app set a c : all_in set (a ++ c) = all_in set a && all_in set c.
Proof. apply forallb_app. Qed.
Lemma none_in_app set a c : none_in set (a ++ c) = none_in set a && none_in set c.
Proof. apply forallb_app. Qed.

Lemma forallb_rev {A} (f : A -> bool) l : forallb f (rev l) = forallb f l.
Proof.
  induction l as [|x l IH]; [reflexivity|]. cbn. rewrite forallb_app, IH. cbn.
  rewrite andb_true_r. apply andb_comm.
Qed.

Lemma all_in_rev set s : all_in set (rev s) = all_in set s.
Proof. apply forallb_rev. Qed.
Lemma none_in_rev set s : none_in set (rev s) = none_in set s.
Proof. apply forallb_rev. Qed.

Lemma none_in_memb set s c : none_in set s = true -> In c s -> memb c set = false.
Proof.
  intros H HI. unfold none_in in H. rewrite forallb_forall in H. apply H in HI.
  apply negb_true_iff in HI. exact HI.
Qed.

Lemma not_memb_none_in c s : memb c s = false -> none_in [c] s = true.
Proof.
  intros H. unfold none_in. apply forallb_forall. intros x Hx. apply negb_true_iff.
  cbn. rewrite orb_false_r. apply N.eqb_neq. intros ->. apply memb_false_In in H. contradiction.
Qed.

(** *** first / last byte tests *)
Lemma first_outside_cons set c s : first_outside set (c :: s) = negb (memb c set).
Proof. reflexivity. Qed.

Lemma first_outside_app set s t : first_outside set s = true -> first_outside set (s ++ t) = true.
Proof. destruct s as [|c s]; [discriminate|]. intros H. exact H. Qed.

Lemma first_outside_nonempty set s : first_outside set s = true -> s <> [].
Proof. destruct s; [discriminate|discriminate]. Qed.

Lemma last_outside_snoc set s c : last_outside set (s ++ [c]) = negb (memb c set).
Proof. unfold last_outside. rewrite rev_app_distr. reflexivity. Qed.

Lemma last_outside_app set s t : last_outside set t = true -> last_outside set (s ++ t) = true.
Proof. unfold last_outside. rewrite rev_app_distr. apply first_outside_app. Qed.

Lemma last_outside_nonempty set s : last_outside set s = true -> s <> [].
Proof.
  unfold last_outside. intros H E. subst s. discriminate.
Qed.

Lemma snoc_cases {A} (s : list A) : s = [] \/ exists s' c, s = s' ++ [c].
Proof.
  destruct (rev s) as [|c r] eqn:E.
  - left. apply (f_equal (@rev A)) in E. rewrite rev_involutive in E. exact E.
  - right. exists (rev r), c. apply (f_equal (@rev A)) in E. rewrite rev_involutive in E. exact E.
Qed.

Lemma last_outside_inv set s : last_outside set s = true -> exists s' c, s = s' ++ [c] /\ memb c set = false.
Proof.
  intros H. destruct (snoc_cases s) as [->|[s' [c ->]]]; [discriminate|].
  exists s', c. split; [reflexivity|]. rewrite last_outside_snoc in H. apply negb_true_iff in H. exact H.
Qed.

Lemma first_outside_inv set s : first_outside set s = true -> exists c s', s = c :: s' /\ memb c set = false.
Proof.
  destruct s as [|c s']; [discriminate|]. intros H. exists c, s'. split; [reflexivity|].
  apply negb_true_iff in H. exact H.
Qed.

Lemma first_outside_sub set1 set2 s :
  (forall c, memb c set2 = true -> memb c set1 = true) -> first_outside set1 s = true -> first_outside set2 s = true.
Proof.
  intros Hsub. destruct s as [|c s]; [discriminate|]. cbn. intros H. apply negb_true_iff in H.
  apply negb_true_iff. destruct (memb c set2) eqn:E; [|reflexivity]. apply Hsub in E. congruence.
Qed.

Lemma last_outside_sub set1 set2 s :
  (forall c, memb c set2 = true -> memb c set1 = true) -> last_outside set1 s = true -> last_outside set2 s = true.
Proof. intros Hsub. unfold last_outside. apply first_outside_sub. exact Hsub. Qed.

(** *** trimming *)
Lemma trim_left_all_in set pre s : all_in set pre = true -> trim_left set (pre ++ s) = trim_left set s.
Proof.
  induction pre as [|c pre IH]; intros H; [reflexivity|].
  cbn in H. apply andb_true_iff in H. destruct H as [H1 H2]. cbn. rewrite H1. apply IH, H2.
Qed.

Lemma trim_left_first_outside set s : first_outside set s = true -> trim_left set s = s.
Proof.
  destruct s as [|c s]; [discriminate|]. cbn. intros H. apply negb_true_iff in H. rewrite H. reflexivity.
Qed.

Lemma trim_left_nil set s : all_in set s = true -> trim_left set s = [].
Proof.
  intros H. rewrite <- (app_nil_r s). rewrite trim_left_all_in by exact H. reflexivity.
Qed.

(** the shape of [trim_left]: a prefix inside the set is removed, and what
    remains is empty or starts outside the set *)
Lemma trim_left_spec set s :
  exists pre, s = pre ++ trim_left set s /\ all_in set pre = true
              /\ (trim_left set s = [] \/ first_outside set (trim_left set s) = true).
Proof.
  induction s as [|c s IH].
  - exists []. split; [reflexivity|]. split; [reflexivity|]. left. reflexivity.
  - cbn [trim_left]. destruct (memb c set) eqn:E.
    + destruct IH as [pre [H1 [H2 H3]]]. exists (c :: pre). split; [cbn; f_equal; exact H1|].
      split; [unfold all_in in *; cbn [forallb]; rewrite E; exact H2|exact H3].
    + exists []. split; [reflexivity|]. split; [reflexivity|]. right. cbn. rewrite E. reflexivity.
Qed.

Lemma trim_right_all_in set s post : all_in set post = true -> trim_right set (s ++ post) = trim_right set s.
Proof.
  intros H. unfold trim_right. rewrite rev_app_distr. rewrite trim_left_all_in; [reflexivity|].
  rewrite all_in_rev. exact H.
Qed.

Lemma trim_right_last_outside set s : last_outside set s = true -> trim_right set s = s.
Proof.
  intros H. unfold trim_right. unfold last_outside in H. rewrite trim_left_first_outside by exact H.
  apply rev_involutive.
Qed.

Lemma trim_right_nil set s : all_in set s = true -> trim_right set s = [].
Proof.
  intros H. unfold trim_right. rewrite trim_left_nil; [reflexivity|]. rewrite all_in_rev. exact H.
Qed.

Lemma trim_right_spec set s :
  exists post, s = trim_right set s ++ post /\ all_in set post = true
               /\ (trim_right set s = [] \/ last_outside set (trim_right set s) = true).
Proof.
  unfold trim_right. destruct (trim_left_spec set (rev s)) as [pre [H1 [H2 H3]]].
  exists (rev pre). split.
  - rewrite <- rev_app_distr. rewrite <- H1. symmetry. apply rev_involutive.
  - split; [rewrite all_in_rev; exact H2|]. destruct H3 as [H3|H3].
    + left. rewrite H3. reflexivity.
    + right. unfold last_outside. rewrite rev_involutive. exact H3.
Qed.

(** [trim] of filler, a core with clean ends, filler *)
Lemma trim_core set pre core post :
  all_in set pre = true -> all_in set post = true ->
  first_outside set core = true -> last_outside set core = true ->
  trim set (pre ++ core ++ post) = core.
Proof.
  intros Hpre Hpost Hf Hl. unfold trim. rewrite trim_left_all_in by exact Hpre.
  rewrite trim_left_first_outside by (apply first_outside_app; exact Hf).
  rewrite trim_right_all_in by exact Hpost. apply trim_right_last_outside, Hl.
Qed.

Lemma trim_clean set core : first_outside set core = true -> last_outside set core = true -> trim set core = core.
Proof.
  intros Hf Hl. pose proof (trim_core set [] core [] eq_refl eq_refl Hf Hl) as H.
  cbn [app] in H. rewrite app_nil_r in H. exact H.
Qed.

Lemma trim_nil set s : all_in set s = true -> trim set s = [].
Proof. intros H. unfold trim. rewrite trim_left_nil by exact H. reflexivity. Qed.

(** if the string starts outside the set, [trim_right] keeps its first byte *)
Lemma trim_right_keeps_first set c s :
  memb c set = false -> exists s', trim_right set (c :: s) = c :: s'.
Proof.
  intros Hc. destruct (trim_right_spec set (c :: s)) as [post [H1 [H2 H3]]].
  destruct (trim_right set (c :: s)) as [|x s'] eqn:E.
  - cbn in H1. subst post. cbn in H2. rewrite Hc in H2. discriminate.
  - cbn in H1. injection H1 as H1a H1b. subst x. exists s'. reflexivity.
Qed.

(** the shape of [trim]: empty, or a contiguous part with clean ends *)
Lemma trim_spec set s :
  exists pre post, s = pre ++ trim set s ++ post /\ all_in set pre = true /\ all_in set post = true
    /\ (trim set s = [] \/ (first_outside set (trim set s) = true /\ last_outside set (trim set s) = true)).
Proof.
  unfold trim. destruct (trim_left_spec set s) as [pre [H1 [H2 H3]]].
  destruct (trim_right_spec set (trim_left set s)) as [post [H4 [H5 H6]]].
  exists pre, post. split; [rewrite <- H4; exact H1|]. split; [exact H2|]. split; [exact H5|].
  destruct H6 as [H6|H6]; [left; exact H6|]. right. split; [|exact H6].
  destruct H3 as [H3|H3].
  - rewrite H3 in H6. discriminate.
  - destruct (trim_left set s) as [|c r] eqn:E; [discriminate|].
    cbn in H3. apply negb_true_iff in H3. destruct (trim_right_keeps_first set c r H3) as [s' Hs'].
    rewrite Hs'. cbn. rewrite H3. reflexivity.
Qed.

Lemma trim_In set s c : In c (trim set s) -> In c s.
Proof.
  destruct (trim_spec set s) as [pre [post [H _]]]. intros HI. rewrite H.
  apply in_or_app. right. apply in_or_app. left. exact HI.
Qed.

(** *** [last_index_any] *)
Lemma last_index_any_none set s : none_in set s = true -> last_index_any set s = None.
Proof.
  induction s as [|x s IH]; [reflexivity|]. cbn. intros H. apply andb_true_iff in H. destruct H as [H1 H2].
  rewrite IH by exact H2. apply negb_true_iff in H1. rewrite H1. reflexivity.
Qed.

Lemma last_index_any_last set a c l :
  memb c set = true -> none_in set l = true -> last_index_any set (a ++ c :: l) = Some (length a).
Proof.
  intros Hc Hl. induction a as [|x a IH].
  - cbn. rewrite last_index_any_none by exact Hl. rewrite Hc. reflexivity.
  - cbn. rewrite IH. reflexivity.
Qed.

(** the index found is that of a byte of the set *)
Lemma last_index_any_some set s i :
  last_index_any set s = Some i -> exists a c l, s = a ++ c :: l /\ length a = i /\ memb c set = true.
Proof.
  revert i. induction s as [|x s IH]; intros i H; [discriminate|].
  cbn in H. destruct (last_index_any set s) as [j|] eqn:E.
  - injection H as <-. destruct (IH j eq_refl) as [a [c [l [H1 [H2 H3]]]]].
    exists (x :: a), c, l. split; [cbn; f_equal; exact H1|]. split; [cbn; f_equal; exact H2|exact H3].
  - destruct (memb x set) eqn:Ex; [|discriminate]. injection H as <-.
    exists [], x, s. split; [reflexivity|]. split; [reflexivity|exact Ex].
Qed.

Lemma firstn_app_exact {A} (a c : list A) : firstn (length a) (a ++ c) = a.
Proof. induction a as [|x a IH]; cbn; [destruct c; reflexivity|f_equal; exact IH]. Qed.
Lemma skipn_app_exact {A} (a c : list A) : skipn (length a) (a ++ c) = c.
Proof. induction a as [|x a IH]; cbn; [reflexivity|exact IH]. Qed.

(** *** lengths *)
Lemma lengthN_length {A} (l : list A) : lengthN l = N.of_nat (length l).
Proof. induction l as [|x l IH]; [reflexivity|]. cbn [lengthN length]. rewrite IH. lia. Qed.

(** *** the scanner on LF-terminated lines *)

(** text made of lines, each followed by a line feed *)
Definition unlines (ls : list bytes) : bytes := concat (map (fun l => l ++ [c_lf]) ls).

Lemma unlines_app l1 l2 : unlines (l1 ++ l2) = unlines l1 ++ unlines l2.
Proof. unfold unlines. rewrite map_app, concat_app. reflexivity. Qed.

Lemma raw_lines_line l : forall cur rest,
  memb c_lf l = false ->
  raw_lines cur (l ++ c_lf :: rest) = (rev cur ++ l, true) :: raw_lines [] rest.
Proof.
  induction l as [|c l IH]; intros cur rest H.
  - cbn. rewrite app_nil_r. reflexivity.
  - rewrite memb_cons in H. apply orb_false_iff in H. destruct H as [H1 H2].
    cbn [app raw_lines]. rewrite N.eqb_sym in H1. rewrite H1. rewrite IH by exact H2.
    cbn [rev]. rewrite <- app_assoc. reflexivity.
Qed.

Lemma raw_lines_unlines ls :
  Forall (fun l => memb c_lf l = false) ls -> raw_lines [] (unlines ls) = map (fun l => (l, true)) ls.
Proof.
  induction 1 as [|l ls Hl Hls IH]; [reflexivity|].
  unfold unlines. cbn [map concat]. rewrite <- app_assoc. cbn [app].
  rewrite raw_lines_line by exact Hl. cbn [rev app map]. f_equal. exact IH.
Qed.

Lemma drop_cr_id l : (l = [] \/ last_outside [c_cr] l = true) -> drop_cr l = l.
Proof.
  intros [->|H]; [reflexivity|]. unfold drop_cr. unfold last_outside in H.
  destruct (rev l) as [|c r]; [reflexivity|]. cbn in H. rewrite orb_false_r in H.
  apply negb_true_iff in H. rewrite H. reflexivity.
Qed.

Lemma take_lines_ok ls :
  Forall (fun l => lengthN l < max_token) ls ->
  Forall (fun l => l = [] \/ last_outside [c_cr] l = true) ls ->
  take_lines (map (fun l => (l, true)) ls) = (ls, false).
Proof.
  intros H1 H2. induction ls as [|l ls IH]; [reflexivity|].
  inversion H1 as [|? ? Hl1 Hls1]; subst. inversion H2 as [|? ? Hl2 Hls2]; subst.
  cbn [map take_lines]. destruct (N.leb_spec max_token (lengthN l)) as [Hle|_]; [lia|].
  rewrite IH by assumption. rewrite drop_cr_id by exact Hl2. reflexivity.
Qed.

Lemma scan_unlines ls :
  Forall (fun l => memb c_lf l = false) ls ->
  Forall (fun l => lengthN l < max_token) ls ->
  Forall (fun l => l = [] \/ last_outside [c_cr] l = true) ls ->
  scan (unlines ls) NoFault = (ls, ScanEOF).
Proof.
  intros H0 H1 H2. unfold scan. rewrite raw_lines_unlines by exact H0.
  rewrite take_lines_ok by assumption. reflexivity.
Qed.

(** every line the scanner delivers is free of line feeds, for any input *)
Lemma raw_lines_no_lf s : forall cur raw fl,
  ~ In c_lf cur -> In (raw, fl) (raw_lines cur s) -> ~ In c_lf raw.
Proof.
  induction s as [|c s IH]; intros cur raw fl Hcur HI.
  - cbn [raw_lines] in HI. destruct cur as [|x cur]; [destruct HI|].
    destruct HI as [HI|[]]. injection HI as <- _. intros H.
    change (rev cur ++ [x]) with (rev (x :: cur)) in H. rewrite <- in_rev in H. contradiction.
  - cbn [raw_lines] in HI. destruct (N.eqb_spec c c_lf) as [->|Hne].
    + destruct HI as [HI|HI].
      * injection HI as <- _. intros H. rewrite <- in_rev in H. contradiction.
      * apply (IH [] raw fl); [intros []|exact HI].
    + apply (IH (c :: cur) raw fl); [|exact HI]. intros [H|H]; [congruence|contradiction].
Qed.

Lemma drop_cr_In l c : In c (drop_cr l) -> In c l.
Proof.
  unfold drop_cr. destruct (rev l) as [|x r] eqn:E; [tauto|].
  destruct (x =? c_cr); [|tauto]. intros H. apply in_rev in H.
  apply in_rev. rewrite E. right. exact H.
Qed.

Lemma take_lines_In rl : forall l,
  In l (fst (take_lines rl)) -> exists raw fl, In (raw, fl) rl /\ l = drop_cr raw.
Proof.
  induction rl as [|[raw fl] rl IH]; intros l H; [destruct H|].
  cbn in H. destruct (max_token <=? lengthN raw); [destruct H|].
  destruct (take_lines rl) as [ls tl] eqn:E. cbn in H. destruct H as [H|H].
  - exists raw, fl. split; [left; reflexivity|symmetry; exact H].
  - destruct (IH l H) as [raw' [fl' [H1 H2]]]. exists raw', fl'. split; [right; exact H1|exact H2].
Qed.

Lemma scan_lines_no_lf data f l : In l (fst (scan data f)) -> ~ In c_lf l.
Proof.
  unfold scan. set (seen := match f with NoFault => data | FailAt k => firstn k data end).
  destruct (take_lines (raw_lines [] seen)) as [ls tl] eqn:E. cbn. intros H.
  assert (H' : In l (fst (take_lines (raw_lines [] seen)))) by (rewrite E; exact H).
  destruct (take_lines_In _ _ H') as [raw [fl [H1 H2]]]. subst l.
  intros HI. apply drop_cr_In in HI. revert HI. apply (raw_lines_no_lf seen [] raw fl); [intros []|exact H1].
Qed.
