(** WP22 / C13 at run level, part 3: whatever the files, flags, read faults and
    map orders, with a standard output that never fails the three CSV exports
    write a concatenation of [csv_record]s of 3-field rows -- also when the
    command fails half way -- so the RFC 4180 reader accepts the output. *)
From Coq Require Import Lia ZifyBool ZifyNat ZifyN.
From HP Require Import Base.Bytes Base.Utf8 Base.Num Model.Scanner Model.Parser Model.Elements Model.Resolver
  Model.Dates Model.Tree Model.Writer Model.Csv Model.Reporters Model.Cli
  Proofs.AgreeMiscBook
  Proofs.CsvCodec Proofs.CsvWalk Proofs.CsvRows.

Definition three_fields (rows : list (list bytes)) : Prop := Forall (fun r => length r = 3%nat) rows.

(** the writer has been given whole records of three fields only, and has not failed *)
Definition csv_wr (wr : bw) : Prop :=
  bw_ok wr /\ exists rows, three_fields rows /\ bw_content wr = concat (map csv_record rows).

Lemma csv_wr_chunks : forall wr rows, csv_wr wr -> three_fields rows ->
  exists wr', bw_chunks wr (map (fun r => (csv_record r, true)) rows) = (wr', false) /\ csv_wr wr'.
Proof.
  intros wr rows [K (rows0 & T0 & C0)] T1.
  destruct (bw_chunks_ok (map (fun r => (csv_record r, true)) rows) wr K) as (w1 & W1 & K1 & C1).
  exists w1. split; [exact W1|]. split; [exact K1|]. exists (rows0 ++ rows).
  split; [apply Forall_app; split; assumption|].
  rewrite C1, C0, map_fst_checked, map_app, concat_app. reflexivity.
Qed.

Section All.
  Context (NM : Num).
  Notation T := (T NM).

  Definition csv_out (o : outcome) : Prop :=
    exists rows, three_fields rows /\ out_stdout o = concat (map csv_record rows).

  Lemma csv_out_decodes : forall o, csv_out o ->
    exists rows, three_fields rows /\ out_stdout o = concat (map csv_record rows)
                 /\ csv_decode (out_stdout o) = Some rows.
  Proof.
    intros o (rows & T3 & E). exists rows. split; [exact T3|]. split; [exact E|].
    rewrite E. apply csv_decode_encode. intros r Hr. unfold three_fields in T3. rewrite Forall_forall in T3.
    specialize (T3 r Hr). intros ->. discriminate.
  Qed.

  Lemma csv_wr_new : forall w : world, w_sink w = None -> csv_wr (new_writer w).
  Proof.
    intros w Hs. destruct (new_writer_ok w Hs) as [K C]. split; [exact K|]. exists []. split; [constructor|exact C].
  Qed.

  Lemma finish_new : forall (w : world) st, csv_out (finish (new_writer w) st).
  Proof. intros w st. exists []. split; [constructor|reflexivity]. Qed.

  Lemma finish_flushed : forall wr st1 st2, csv_wr wr ->
    csv_out (let '(wr2, e2) := bw_flush wr in finish wr2 (if e2 then st1 else st2)).
  Proof.
    intros wr st1 st2 [K (rows & T3 & C)]. destruct (bw_flush_ok wr K) as (w2 & F2 & _ & _ & G2). rewrite F2.
    exists rows. split; [exact T3|]. unfold finish. cbn [out_stdout]. rewrite G2. exact C.
  Qed.

  Lemma log_day_three : forall ln : lognode NM, three_fields (csv_log_rows NM ln).
  Proof. intros ln. unfold csv_log_rows. apply Forall_forall. intros r H. apply in_map_iff in H. destruct H as (nv & <- & _). reflexivity. Qed.

  Lemma db_rows_three : forall h (els : elements NM), three_fields (csv_db_rows NM h els).
  Proof. intros h els. unfold csv_db_rows. apply Forall_forall. intros r H. apply in_map_iff in H. destruct H as (nv & <- & _). reflexivity. Qed.

  (** csv log *)
  Lemma walk_cb_csv_wr : forall pd toks bt et (s : Cli.walk_state NM (rep_csv_log NM)) ev,
    csv_wr (snd s) -> csv_wr (snd (fst (fst (walk_cb NM (rep_csv_log NM) pd toks bt et s ev)))).
  Proof.
    intros pd toks bt et [[rs i] wr] [n|e] H; cbn [walk_cb snd fst] in *; [|exact H].
    destruct (parse_date toks (header n)) as [c|]; [|exact H].
    destruct (in_interval bt et (time_of_civil c)); [|exact H].
    cbn [rep_csv_log r_process].
    match goal with |- context [csv_log_rows NM ?l] => set (ln := l) end.
    destruct (csv_wr_chunks wr (csv_log_rows NM ln) H (log_day_three ln)) as (w1 & W1 & H1).
    assert (W1' : bw_chunks wr (map (fun r => checked (csv_record r)) (csv_log_rows NM ln)) = (w1, false)) by exact W1.
    rewrite W1'. exact H1.
  Qed.

  Lemma run_log_csv_out : forall (w : world) (op : options), w_sink w = None ->
    csv_out (run_log NM w op (rep_csv_log NM)).
  Proof.
    intros w op Hs. unfold run_log. destruct (open_all w [op_log op]) as [[|olog [|? ?]]|]; try apply finish_new.
    destruct (tokenize (op_fmt op)) as [toks|]; [|apply finish_new].
    unfold walk_and_finish.
    pose proof (parse_opened_inv NM (walk_cb NM (rep_csv_log NM) (o_day (w_or w)) toks (op_begin op) (op_end op))
                  (fun s => csv_wr (snd s)) (walk_cb_csv_wr _ _ _ _) olog
                  (r_init NM (rep_csv_log NM), O, new_writer w) (csv_wr_new w Hs)) as H.
    destruct (parse_opened NM _ olog _) as [[[rs i1] wr1] werr]. cbn [fst snd] in H.
    cbn [rep_csv_log r_flush bw_chunks].
    destruct H as [K (rows & T3 & C)]. destruct (bw_flush_ok wr1 K) as (w2 & F2 & _ & _ & G2). rewrite F2.
    exists rows. split; [exact T3|]. unfold finish. cbn [out_stdout]. rewrite G2. exact C.
  Qed.

  (** csv database *)
  Lemma run_csv_db_csv_out : forall (w : world) (op : options), w_sink w = None ->
    csv_out (run_csv_db NM w op).
  Proof.
    intros w op Hs. unfold run_csv_db. destruct (open_all w [op_db op]) as [[|odb [|? ?]]|]; try apply finish_new.
    match goal with |- context [parse_opened NM ?cb odb (new_writer w)] =>
      pose proof (parse_opened_inv NM cb csv_wr) as H end.
    cbv beta in H.
    match type of H with ?A -> _ => assert (HA : A) end.
    { intros wr [n|e] Hwr; [|exact Hwr].
      destruct (csv_wr_chunks wr (csv_db_rows NM (header n) (elems n)) Hwr (db_rows_three _ _)) as (w1 & W1 & H1).
      rewrite W1. exact H1. }
    specialize (H HA odb (new_writer w) (csv_wr_new w Hs)).
    destruct (parse_opened NM _ odb (new_writer w)) as [wr1 perr]. cbn [fst] in H.
    destruct H as [K (rows & T3 & C)]. destruct (bw_flush_ok wr1 K) as (w2 & F2 & _ & _ & G2). rewrite F2.
    exists rows. split; [exact T3|]. unfold finish. cbn [out_stdout]. rewrite G2. exact C.
  Qed.

  (** csv database-resolved *)
  Lemma run_csv_db_resolved_csv_out : forall (w : world) (op : options), w_sink w = None ->
    csv_out (run_csv_db_resolved NM w op).
  Proof.
    intros w op Hs. unfold run_csv_db_resolved. destruct (open_all w [op_db op]) as [[|odb [|? ?]]|]; try apply finish_new.
    destruct (resolved_db NM w op odb) as [e|d]; [apply finish_new|].
    match goal with |- context [bw_chunks (new_writer w) (map _ ?r)] => set (rows := r) end.
    assert (T3 : three_fields rows).
    { unfold rows. apply Forall_forall. intros r H. apply in_flat_map in H. destruct H as (name & _ & H).
      destruct (lookup name d) as [els|]; [|destruct H].
      pose proof (db_rows_three name els) as D. unfold three_fields in D. rewrite Forall_forall in D. apply D, H. }
    destruct (csv_wr_chunks (new_writer w) rows (csv_wr_new w Hs) T3) as (w1 & W1 & H1). rewrite W1.
    apply (finish_flushed w1 (Failed EWrite) Ok H1).
  Qed.

  (** the three exports of the program, any world whose standard output never fails *)
  Theorem csv_exports_are_rfc4180 : forall (w : world) (i : invocation),
    w_sink w = None ->
    i_cmd i = CCsvLog \/ i_cmd i = CCsvDb \/ i_cmd i = CCsvDbResolved ->
    exists rows : list (list bytes),
      Forall (fun r => length r = 3%nat) rows
      /\ out_stdout (run NM w i) = concat (map csv_record rows)
      /\ csv_decode (out_stdout (run NM w i)) = Some rows.
  Proof.
    intros w i Hs Hcmd. apply csv_out_decodes. unfold run.
    destruct (load w i) as [e|op]; [exists []; split; [constructor|reflexivity]|].
    destruct Hcmd as [-> | [-> | ->]].
    - apply run_log_csv_out, Hs.
    - apply run_csv_db_csv_out, Hs.
    - apply run_csv_db_resolved_csv_out, Hs.
  Qed.
End All.
