(** The flag syntax of one level: the forms of a flag, explicit boolean values, repeated flags,
    unknown flags, [--]; and the frame that carries a statement about the flags of a command
    to the whole argument vector. *)
From Coq Require Import Lia ZifyBool ZifyNat ZifyN.
From HP Require Import Base.Bytes Model.Elements Model.Config Model.Cli Model.Argv.
From HP Require Import Proofs.ArgvBase.

(** * the written forms of a flag *)
(** [-name], [--name], [-name=value], [--name=value] *)
Definition flag_tok (two : bool) (n : bytes) (v : option bytes) : bytes :=
  (if two then [45; 45] else [45]) ++ n ++ match v with Some x => 61 :: x | None => [] end.

(** a name as the tables have them: not empty, no '=' in it, not starting with '-' *)
Definition good_name (n : bytes) : bool :=
  match n with [] => false | c :: r => negb (c =? 45) && negb (existsb (N.eqb 61) (c :: r)) end.

Lemma split_eq_app : forall r v, existsb (N.eqb 61) r = false ->
  split_eq (r ++ match v with Some x => 61 :: x | None => [] end) = (r, v).
Proof.
  induction r as [|c r IH]; intros v H.
  - destruct v as [x|]; reflexivity.
  - cbn [existsb] in H. apply orb_false_iff in H as [H1 H2]. cbn [app split_eq].
    rewrite N.eqb_sym in H1. rewrite H1. pose proof (IH v H2) as E. rewrite E. reflexivity.
Qed.

Lemma classify_flag_tok : forall two n v, good_name n = true -> classify (flag_tok two n v) = TFlag n v.
Proof.
  intros two [|c r] v G; [discriminate|]. unfold good_name in G. cbn [existsb] in G.
  apply andb_true_iff in G as [G1 G2]. apply negb_true_iff in G1. apply negb_true_iff in G2.
  apply orb_false_iff in G2 as [G2 G3]. rewrite N.eqb_sym in G2.
  assert (F : flag_name ((c :: r) ++ match v with Some x => 61 :: x | None => [] end) = TFlag (c :: r) v).
  { pose proof (split_eq_app r v G3) as E. change ((c :: r) ++ match v with Some x => 61 :: x | None => [] end) with (c :: (r ++ match v with Some x => 61 :: x | None => [] end)). unfold flag_name. rewrite G1, G2. cbn [orb]. unfold bytes in *. rewrite E. reflexivity. }
  destruct two; unfold flag_tok; cbn [app classify] in *; change (45 =? 45) with true; cbv iota.
  - rewrite <- F. reflexivity.
  - rewrite G1. exact F.
Qed.

(** * induction along [parse_flags] *)
Lemma pf_ind : forall tbl (P : list bytes -> fres -> Prop),
  P [] (FOk [] []) ->
  (forall s r, classify s = TNonFlag -> P (s :: r) (FOk [] (s :: r))) ->
  (forall s r, classify s = TTerm -> P (s :: r) (FOk [] r)) ->
  (forall s r, classify s = TBad -> P (s :: r) FUsage) ->
  (forall s r n v, classify s = TFlag n v -> find_flag tbl n = None -> P (s :: r) FUsage) ->
  (forall s r n v bv, classify s = TFlag n v -> find_flag tbl n = Some KBool ->
     match v with None => Some true | Some x => parse_bool x end = Some bv ->
     P r (parse_flags tbl r) -> P (s :: r) (cons_asg (n, VB bv) (parse_flags tbl r))) ->
  (forall s r n v, classify s = TFlag n v -> find_flag tbl n = Some KBool ->
     match v with None => Some true | Some x => parse_bool x end = None -> P (s :: r) FUsage) ->
  (forall s r n x k, classify s = TFlag n (Some x) -> find_flag tbl n = Some k -> k <> KBool ->
     P r (parse_flags tbl r) -> P (s :: r) (set_value k n x (parse_flags tbl r))) ->
  (forall s r n x k, classify s = TFlag n None -> find_flag tbl n = Some k -> k <> KBool ->
     P r (parse_flags tbl r) -> P (s :: x :: r) (set_value k n x (parse_flags tbl r))) ->
  (forall s n k, classify s = TFlag n None -> find_flag tbl n = Some k -> k <> KBool -> P [s] FUsage) ->
  forall args, P args (parse_flags tbl args).
Proof.
  intros tbl P H0 Hnon Hterm Hbad Hunk Hbool Hboolbad Hval Hnext Hmiss args.
  assert (G : forall n args, (length args <= n)%nat -> P args (parse_flags tbl args)).
  { induction n as [|n IH]; intros [|s r] L; try exact H0; cbn [length] in L; [lia|].
    cbn [parse_flags]. destruct (classify s) as [| | |nm v] eqn:C.
    - apply Hnon. exact C.
    - apply Hterm. exact C.
    - apply Hbad. exact C.
    - destruct (find_flag tbl nm) as [k|] eqn:F; [|eapply Hunk; eassumption].
      destruct k.
      + destruct (match v with None => Some true | Some x => parse_bool x end) as [bv|] eqn:B.
        * eapply Hbool; try eassumption. apply IH. lia.
        * eapply Hboolbad; eassumption.
      + destruct v as [x|].
        * apply (Hval s r nm x KStr C F); [discriminate|]. apply IH. lia.
        * destruct r as [|x r']; [apply (Hmiss s nm KStr C F); discriminate|].
          apply (Hnext s r' nm x KStr C F); [discriminate|]. apply IH. cbn [length] in L. lia.
      + destruct v as [x|].
        * apply (Hval s r nm x KInt C F); [discriminate|]. apply IH. lia.
        * destruct r as [|x r']; [apply (Hmiss s nm KInt C F); discriminate|].
          apply (Hnext s r' nm x KInt C F); [discriminate|]. apply IH. cbn [length] in L. lia. }
  apply (G (length args)). lia.
Qed.

(** * the flags in front of a word: what is read does not depend on what follows the word *)
Lemma cons_asg_ok_inv : forall e r a rest, cons_asg e r = FOk a rest -> exists a', r = FOk a' rest /\ a = e :: a'.
Proof. intros e [a0 r0| |] a rest H; cbn [cons_asg] in H; try discriminate. injection H as <- <-. eauto. Qed.

Lemma set_value_ok_inv : forall k n x r a rest, set_value k n x r = FOk a rest ->
  exists v a', r = FOk a' rest /\ a = (n, v) :: a' /\ set_value k n x r = cons_asg (n, v) r.
Proof.
  intros k n x r a rest H. destruct k; cbn [set_value] in *.
  - apply cons_asg_ok_inv in H as (a' & -> & ->). eauto.
  - apply cons_asg_ok_inv in H as (a' & -> & ->). eauto.
  - destruct (go_parse_int x) as [z| |]; try discriminate. apply cons_asg_ok_inv in H as (a' & -> & ->). eauto.
Qed.

Lemma pf_prefix : forall tbl g w a, parse_flags tbl (g ++ [w]) = FOk a [w] ->
  forall X, parse_flags tbl (g ++ w :: X) = FOk a (w :: X).
Proof.
  intros tbl g w a H X. revert g w a H.
  pose (P := fun (args : list bytes) (res : fres) => forall g w a, args = g ++ [w] -> res = FOk a [w] ->
                              parse_flags tbl (g ++ w :: X) = FOk a (w :: X)).
  assert (G : forall args, P args (parse_flags tbl args)).
  { apply (pf_ind tbl P); unfold P; clear P.
    - intros [|? ?] w a E; discriminate.
    - intros s r C g w a E R. inversion R; subst. destruct g as [|s' g]; cbn [app] in E.
      + cbn [app]. apply pf_nonflag. exact C.
      + injection E as _ E. destruct g; discriminate.
    - intros s r C g w a E R. inversion R; subst. destruct g as [|s' [|? g]]; cbn [app] in E.
      + injection E as _ E. discriminate.
      + injection E as ->. cbn [app]. apply pf_term. exact C.
      + injection E as _ E. destruct g; discriminate.
    - discriminate.
    - discriminate.
    - intros s r n v bv C F B IH g w a E R. apply cons_asg_ok_inv in R as (a' & R & ->).
      destruct g as [|s' g]; cbn [app] in E.
      + inversion E; subst. cbn [parse_flags] in R. inversion R.
      + inversion E; subst. cbn [app parse_flags]. rewrite C, F, B. rewrite (IH g w a' eq_refl R). reflexivity.
    - discriminate.
    - intros s r n x k C F K IH g w a E R. apply set_value_ok_inv in R as (v & a' & R & -> & SV).
      destruct g as [|s' g]; cbn [app] in E.
      + inversion E; subst. cbn [parse_flags] in R. inversion R.
      + inversion E; subst. cbn [app parse_flags]. rewrite C, F.
        assert (Q : set_value k n x (parse_flags tbl (g ++ w :: X)) = FOk ((n, v) :: a') (w :: X)).
        { rewrite (IH g w a' eq_refl R). rewrite R in SV. destruct k; cbn [set_value cons_asg] in *; try congruence.
          destruct (go_parse_int x); try discriminate. cbn [cons_asg] in *. congruence. }
        destruct k; [congruence|exact Q|exact Q].
    - intros s r n x k C F K IH g w a E R. apply set_value_ok_inv in R as (v & a' & R & -> & SV).
      destruct g as [|s' [|x' g]]; cbn [app] in E.
      + injection E as _ E. discriminate.
      + inversion E; subst. cbn [parse_flags] in R. inversion R.
      + injection E as Es Ex Er. subst s' x' r. cbn [app parse_flags]. rewrite C, F.
        assert (Q : set_value k n x (parse_flags tbl (g ++ w :: X)) = FOk ((n, v) :: a') (w :: X)).
        { rewrite (IH g w a' eq_refl R). rewrite R in SV. destruct k; cbn [set_value cons_asg] in *; try congruence.
          destruct (go_parse_int x); try discriminate. cbn [cons_asg] in *. congruence. }
        destruct k; [congruence|exact Q|exact Q].
    - discriminate. }
  intros g w a H. exact (G (g ++ [w]) g w a eq_refl H).
Qed.

(** * the tables *)
(** the other names of the flag(s) that [n] names *)
Definition aliases (tbl : list fspec) (n : bytes) : list bytes :=
  flat_map (fun f => if mem n (f_names f) then filter (fun m => negb (beq n m)) (f_names f) else []) tbl.

(** no flag lists a name twice *)
Definition once (tbl : list fspec) : bool :=
  forallb (fun f => forallb (fun n => Nat.leb (length (filter (beq n) (f_names f))) 1) (f_names f)) tbl.

Lemma once_root : once tbl_root = true. Proof. vm_compute. reflexivity. Qed.
Lemma once_help : once tbl_help = true. Proof. vm_compute. reflexivity. Qed.
Lemma once_leaf : forall c, once (tbl_leaf c) = true. Proof. intros c. destruct c; vm_compute; reflexivity. Qed.

(** a name an assignment uses was written in the vector *)
Lemma used_in_tokens : forall tbl m l a rest, parse_flags tbl l = FOk a rest -> used a m = true ->
  exists t v, In t l /\ classify t = TFlag m v.
Proof.
  intros tbl m l.
  pose (P := fun (l : list bytes) (res : fres) => forall a rest, res = FOk a rest -> used a m = true ->
               exists t v, In t l /\ classify t = TFlag m v).
  change (P l (parse_flags tbl l)). apply (pf_ind tbl P); unfold P; clear P l.
  - intros a rest E U. inversion E; subst. discriminate.
  - intros s r C a rest E U. inversion E; subst. discriminate.
  - intros s r C a rest E U. inversion E; subst. discriminate.
  - discriminate.
  - discriminate.
  - intros s r n v bv C F B IH a rest E U. apply cons_asg_ok_inv in E as (a' & E & ->).
    rewrite used_cons in U. cbn [fst] in U. apply orb_true_iff in U as [U|U].
    + apply beq_true_iff in U. subst. exists s, v. split; [left; reflexivity|exact C].
    + destruct (IH a' rest E U) as (t & v' & Ht & Ct). exists t, v'. split; [right; exact Ht|exact Ct].
  - discriminate.
  - intros s r n x k C F K IH a rest E U. apply set_value_ok_inv in E as (v & a' & E & -> & _).
    rewrite used_cons in U. cbn [fst] in U. apply orb_true_iff in U as [U|U].
    + apply beq_true_iff in U. subst. exists s, (Some x). split; [left; reflexivity|exact C].
    + destruct (IH a' rest E U) as (t & v' & Ht & Ct). exists t, v'. split; [right; exact Ht|exact Ct].
  - intros s r n x k C F K IH a rest E U. apply set_value_ok_inv in E as (v & a' & E & -> & _).
    rewrite used_cons in U. cbn [fst] in U. apply orb_true_iff in U as [U|U].
    + apply beq_true_iff in U. subst. exists s, None. split; [left; reflexivity|exact C].
    + destruct (IH a' rest E U) as (t & v' & Ht & Ct). exists t, v'. split; [right; right; exact Ht|exact Ct].
  - discriminate.
Qed.

(** the other names of the flag do not occur in [l] *)
Definition no_alias_in (tbl : list fspec) (n : bytes) (l : list bytes) : Prop :=
  forall m, In m (aliases tbl n) -> forall t v, In t l -> classify t <> TFlag m v.

Lemma no_alias_unused : forall tbl n l a rest, no_alias_in tbl n l -> parse_flags tbl l = FOk a rest ->
  forall m, In m (aliases tbl n) -> used a m = false.
Proof.
  intros tbl n l a rest H E m Hm. apply not_true_is_false. intros U.
  destruct (used_in_tokens tbl m l a rest E U) as (t & v & Ht & C). exact (H m Hm t v Ht C).
Qed.

Lemma in_aliases : forall tbl f n m, In f tbl -> mem n (f_names f) = true -> In m (f_names f) -> beq n m = false -> In m (aliases tbl n).
Proof.
  intros tbl f n m Hf Hn Hm E. unfold aliases. apply in_flat_map. exists f. split; [exact Hf|].
  rewrite Hn. apply filter_In. split; [exact Hm|]. rewrite E. reflexivity.
Qed.

Lemma existsb_ext_in : forall (A : Type) (f g : A -> bool) l, (forall x, In x l -> f x = g x) -> existsb f l = existsb g l.
Proof.
  intros A f g l H. induction l as [|x l IH]; [reflexivity|]. cbn [existsb].
  rewrite (H x (or_introl eq_refl)). rewrite IH; [reflexivity|]. intros y Hy. apply H. right. exact Hy.
Qed.

(** one more occurrence of a flag whose other names are not used changes no conflict *)
Lemma conflict_one : forall names n v a,
  forallb (fun k => Nat.leb (length (filter (beq k) names)) 1) names = true ->
  (forall m, In m names -> mem n names = true -> beq n m = false -> used a m = false) ->
  Nat.ltb 1 (length (filter (used ((n, v) :: a)) names)) = Nat.ltb 1 (length (filter (used a) names)).
Proof.
  intros names n v a O H. destruct (mem n names) eqn:M.
  - assert (L : forall g, (forall m, In m names -> g m = true -> beq n m = true) -> Nat.ltb 1 (length (filter g names)) = false).
    { intros g Hg. apply Nat.ltb_ge.
      assert (Q : (length (filter g names) <= length (filter (beq n) names))%nat).
      { clear O H M. induction names as [|x names IH]; cbn [filter]; [lia|].
        assert (IH' : (length (filter g names) <= length (filter (beq n) names))%nat)
          by (apply IH; intros m Hm; apply Hg; right; exact Hm).
        destruct (g x) eqn:Gx.
        - rewrite (Hg x (or_introl eq_refl) Gx). cbn [length]. lia.
        - destruct (beq n x); cbn [length]; lia. }
      rewrite forallb_forall in O. apply mem_true_iff in M. specialize (O n M). apply Nat.leb_le in O. lia. }
    rewrite (L (used ((n, v) :: a))), (L (used a)); [reflexivity| |].
    + intros m Hm U. destruct (beq n m) eqn:E; [reflexivity|]. rewrite (H m Hm eq_refl E) in U. discriminate.
    + intros m Hm U. rewrite used_cons in U. cbn [fst] in U. destruct (beq n m) eqn:E; [reflexivity|].
      cbn [orb] in U. rewrite (H m Hm eq_refl E) in U. discriminate.
  - f_equal. f_equal. apply filter_ext_in. intros m Hm. rewrite used_cons. cbn [fst].
    destruct (beq n m) eqn:E; [|reflexivity]. apply beq_true_iff in E. subst m. apply mem_true_iff in Hm. congruence.
Qed.

Lemma conflict_cons_alias : forall tbl n v a, once tbl = true ->
  (forall m, In m (aliases tbl n) -> used a m = false) ->
  conflict tbl ((n, v) :: a) = conflict tbl a.
Proof.
  intros tbl n v a O H. unfold conflict. apply existsb_ext_in. intros f Hf.
  apply conflict_one.
  - unfold once in O. rewrite forallb_forall in O. apply O. exact Hf.
  - intros m Hm M E. apply H. exact (in_aliases tbl f n m Hf M Hm E).
Qed.

(** * what the levels read of the flags before the command *)
Definition gsame (ga' ga : asg) : Prop :=
  (forall names, get_bool names ga' = get_bool names ga) /\ (forall names, get_str names ga' = get_str names ga)
  /\ (forall names, get_int names ga' = get_int names ga).

Lemma build_ga_ext : forall ga' ga e d c la arg, gsame ga' ga -> build ga' e d c la arg = build ga e d c la arg.
Proof. intros ga' ga e d c la arg (Hb & Hs & Hi). unfold build. rewrite !Hb, !Hs, !Hi. reflexivity. Qed.

Lemma leaf_level_ga_ext : forall ga' ga e d c args, gsame ga' ga -> leaf_level ga' e d c args = leaf_level ga e d c args.
Proof.
  intros ga' ga e d c args H. unfold leaf_level. destruct (parse_flags (tbl_leaf c) args) as [la rest| |]; try reflexivity.
  f_equal. unfold leaf_args. destruct rest as [|x r]; rewrite ?(build_ga_ext ga' ga) by exact H; reflexivity.
Qed.

Lemma group_level_ga_ext : forall ga' ga e d ch sub args, gsame ga' ga -> group_level ga' e d ch sub args = group_level ga e d ch sub args.
Proof.
  intros ga' ga e d ch sub args H. unfold group_level. destruct (parse_flags tbl_help args) as [a rest| |]; try reflexivity.
  f_equal. unfold group_args. destruct rest as [|x r]; [reflexivity|].
  destruct (sub x); [apply leaf_level_ga_ext; exact H|reflexivity].
Qed.

Lemma root_args_ga_ext : forall ga' ga e d rest, gsame ga' ga -> root_args ga' e d rest = root_args ga e d rest.
Proof.
  intros ga' ga e d rest H. unfold root_args. destruct rest as [|x r]; [reflexivity|].
  destruct (leaf_of_root x); [apply leaf_level_ga_ext; exact H|].
  rewrite !(group_level_ga_ext ga' ga) by exact H. reflexivity.
Qed.

Lemma gsame_cons_false : forall n a, gsame ((n, VB false) :: a) a.
Proof. intros n a. repeat split; intros names; [apply get_bool_cons_false|apply get_str_cons_bool|apply get_int_cons_bool]. Qed.

(** * [--flag=false] *)
Lemma build_la_cons_false : forall ga e d c n la arg,
  mem n n_no_color = false \/ get_bool n_no_color ga = false ->
  build ga e d c ((n, VB false) :: la) arg = build ga e d c la arg.
Proof.
  intros ga e d c n la arg H. unfold build. rewrite !get_bool_cons_false, !get_str_cons_bool.
  destruct H as [H|H]; [rewrite (get_cons_other n_no_color) by exact H|rewrite H; cbn [andb]]; reflexivity.
Qed.

Lemma leaf_explicit_false : forall ga e d c two n fv l,
  find_flag (tbl_leaf c) n = Some KBool -> good_name n = true -> parse_bool fv = Some false ->
  mem n n_no_color = false \/ get_bool n_no_color ga = false ->
  no_alias_in (tbl_leaf c) n l ->
  leaf_level ga e d c (flag_tok two n (Some fv) :: l) = leaf_level ga e d c l.
Proof.
  intros ga e d c two n fv l F G B NC NA. unfold leaf_level.
  rewrite (pf_bool_val _ _ n fv false) by (try assumption; apply classify_flag_tok; exact G).
  destruct (parse_flags (tbl_leaf c) l) as [la rest| |] eqn:E; cbn [cons_asg]; try reflexivity.
  unfold guard. rewrite conflict_cons_alias by (try apply once_leaf; exact (no_alias_unused _ _ _ _ _ NA E)).
  rewrite get_bool_cons_false. unfold leaf_args.
  destruct rest as [|x r]; rewrite ?build_la_cons_false by exact NC; reflexivity.
Qed.

Lemma root_explicit_false : forall e d two n fv argv,
  find_flag tbl_root n = Some KBool -> good_name n = true -> parse_bool fv = Some false ->
  no_alias_in tbl_root n argv ->
  root_level e d (flag_tok two n (Some fv) :: argv) = root_level e d argv.
Proof.
  intros e d two n fv argv F G B NA. unfold root_level.
  rewrite (pf_bool_val _ _ n fv false) by (try assumption; apply classify_flag_tok; exact G).
  destruct (parse_flags tbl_root argv) as [ga rest| |] eqn:E; cbn [cons_asg]; try reflexivity.
  unfold guard. rewrite conflict_cons_alias by (try apply once_root; exact (no_alias_unused _ _ _ _ _ NA E)).
  rewrite !get_bool_cons_false. rewrite (root_args_ga_ext _ ga) by apply gsame_cons_false. reflexivity.
Qed.

(** the one exception: a command-level [--no-color=false] after a global [--no-color] switches the colour on again *)
Example explicit_false_no_color_refuted :
  exists i j, parse_argv [b "--no-color"; b "reg"] [] = ArgvOk i /\
              parse_argv [b "--no-color"; b "reg"; b "--no-color=false"] [] = ArgvOk j /\
              i_g_no_color i = true /\ i_g_no_color j = false /\ i_l_no_color i = false /\ i_l_no_color j = false.
Proof. eexists. eexists. vm_compute. repeat split; reflexivity. Qed.

(** * [--flag=true] is [--flag] *)
Lemma pf_explicit_true : forall tbl two two' n tv l,
  find_flag tbl n = Some KBool -> good_name n = true -> parse_bool tv = Some true ->
  parse_flags tbl (flag_tok two n (Some tv) :: l) = parse_flags tbl (flag_tok two' n None :: l).
Proof.
  intros tbl two two' n tv l F G B.
  rewrite (pf_bool_val _ _ n tv true) by (try assumption; apply classify_flag_tok; exact G).
  rewrite (pf_bool _ _ n) by (try assumption; apply classify_flag_tok; exact G). reflexivity.
Qed.

(** * one name, four forms *)
Lemma pf_forms_value : forall tbl two two' n k v l,
  find_flag tbl n = Some k -> k <> KBool -> good_name n = true ->
  parse_flags tbl (flag_tok two n None :: v :: l) = parse_flags tbl (flag_tok two' n (Some v) :: l).
Proof.
  intros tbl two two' n k v l F K G. cbn [parse_flags].
  rewrite !classify_flag_tok by exact G. rewrite F. destruct k; [congruence|reflexivity|reflexivity].
Qed.

Lemma pf_forms_dashes : forall tbl two two' n v l, good_name n = true ->
  parse_flags tbl (flag_tok two n v :: l) = parse_flags tbl (flag_tok two' n v :: l).
Proof. intros tbl two two' n v l G. cbn [parse_flags]. rewrite !classify_flag_tok by exact G. reflexivity. Qed.

(** * an unknown flag, a boolean and the word after it, [--] *)
Lemma pf_unknown_flag : forall tbl two n v l, good_name n = true -> find_flag tbl n = None ->
  parse_flags tbl (flag_tok two n v :: l) = FUsage.
Proof. intros tbl two n v l G F. apply (pf_unknown _ _ n v); [apply classify_flag_tok; exact G|exact F]. Qed.

Lemma pf_boolean_no_argument : forall tbl two n x l, good_name n = true -> find_flag tbl n = Some KBool ->
  parse_flags tbl (flag_tok two n None :: x :: l) = cons_asg (n, VB true) (parse_flags tbl (x :: l)).
Proof. intros tbl two n x l G F. apply pf_bool; [apply classify_flag_tok; exact G|exact F]. Qed.

Lemma pf_value_takes_next : forall tbl two n k x l, good_name n = true -> find_flag tbl n = Some k -> k <> KBool ->
  parse_flags tbl (flag_tok two n None :: x :: l) = set_value k n x (parse_flags tbl l).
Proof.
  intros tbl two n k x l G F K. cbn [parse_flags]. rewrite classify_flag_tok by exact G. rewrite F.
  destruct k; [congruence|reflexivity|reflexivity].
Qed.

Lemma pf_double_dash : forall tbl l, parse_flags tbl (b "--" :: l) = FOk [] l.
Proof. intros tbl l. apply pf_term. vm_compute. reflexivity. Qed.

(** * a repeated flag: the last occurrence wins *)
Lemma get_none_unused : forall names a n, get names a = None -> mem n names = true -> used a n = false.
Proof.
  intros names a n. induction a as [|e a IH]; intros H M; [reflexivity|].
  rewrite get_cons in H. destruct (get names a) eqn:E; [discriminate|].
  rewrite used_cons. rewrite (IH eq_refl M). destruct (beq (fst e) n) eqn:B; [|reflexivity].
  apply beq_true_iff in B. rewrite B in H. rewrite M in H. discriminate.
Qed.

Lemma get_cons_used : forall names n v a, used a n = true -> get names ((n, v) :: a) = get names a.
Proof.
  intros names n v a U. rewrite get_cons. cbn [fst snd]. destruct (get names a) eqn:E; [reflexivity|].
  destruct (mem n names) eqn:M; [|reflexivity]. rewrite (get_none_unused names a n E M) in U. discriminate.
Qed.

Lemma used_cons_used : forall n v a m, used a n = true -> used ((n, v) :: a) m = used a m.
Proof.
  intros n v a m U. rewrite used_cons. cbn [fst]. destruct (beq n m) eqn:B; [|reflexivity].
  apply beq_true_iff in B. subst m. rewrite U. reflexivity.
Qed.

Lemma conflict_cons_used : forall tbl n v a, used a n = true -> conflict tbl ((n, v) :: a) = conflict tbl a.
Proof.
  intros tbl n v a U. unfold conflict. apply existsb_ext_in. intros f _. f_equal. f_equal.
  apply filter_ext. intros m. apply used_cons_used. exact U.
Qed.

Definition lsame (la' la : asg) : Prop := forall names, get names la' = get names la.

Lemma lsame_gsame : forall a' a, lsame a' a -> gsame a' a.
Proof. intros a' a H. unfold gsame, get_bool, get_str, get_int. repeat split; intros names; rewrite H; reflexivity. Qed.

Lemma build_la_ext : forall ga e d c la' la arg, lsame la' la -> build ga e d c la' arg = build ga e d c la arg.
Proof. intros ga e d c la' la arg H. unfold build, get_bool, get_str, get_int. rewrite !H. reflexivity. Qed.

Lemma leaf_last_wins : forall ga e d c occ n v l,
  (forall res, parse_flags (tbl_leaf c) l = res -> parse_flags (tbl_leaf c) (occ ++ l) = cons_asg (n, v) res) ->
  (forall la rest, parse_flags (tbl_leaf c) l = FOk la rest -> used la n = true) ->
  leaf_level ga e d c (occ ++ l) = leaf_level ga e d c l.
Proof.
  intros ga e d c occ n v l Hocc Hu. unfold leaf_level. rewrite (Hocc _ eq_refl).
  destruct (parse_flags (tbl_leaf c) l) as [la rest| |] eqn:E; cbn [cons_asg]; try reflexivity.
  specialize (Hu la rest eq_refl). unfold guard. rewrite conflict_cons_used by exact Hu.
  unfold get_bool at 1. rewrite get_cons_used by exact Hu. fold (get_bool n_help la).
  unfold leaf_args. destruct rest as [|x r];
    rewrite ?(build_la_ext ga e d c ((n, v) :: la) la) by (intros names; apply get_cons_used; exact Hu); reflexivity.
Qed.

Lemma root_last_wins : forall e d occ n v argv,
  (forall res, parse_flags tbl_root argv = res -> parse_flags tbl_root (occ ++ argv) = cons_asg (n, v) res) ->
  (forall ga rest, parse_flags tbl_root argv = FOk ga rest -> used ga n = true) ->
  root_level e d (occ ++ argv) = root_level e d argv.
Proof.
  intros e d occ n v argv Hocc Hu. unfold root_level. rewrite (Hocc _ eq_refl).
  destruct (parse_flags tbl_root argv) as [ga rest| |] eqn:E; cbn [cons_asg]; try reflexivity.
  specialize (Hu ga rest eq_refl). unfold guard. rewrite conflict_cons_used by exact Hu.
  assert (S : lsame ((n, v) :: ga) ga) by (intros names; apply get_cons_used; exact Hu).
  unfold get_bool at 1 2. rewrite !S. fold (get_bool n_help ga). fold (get_bool n_version ga).
  rewrite (root_args_ga_ext _ ga) by (apply lsame_gsame; exact S). reflexivity.
Qed.

(** * from a command's flags to the whole vector *)
Definition paths (c : leaf) : list (list bytes) :=
  match c with
  | FReg => [[b "register"]; [b "reg"]] | FBal => [[b "balance"]; [b "bal"]] | FLint => [[b "lint"]]
  | FElementTotal => [[b "report"; b "element-total"]] | FUnresolved => [[b "report"; b "unresolved"]]
  | FQuantity => [[b "report"; b "quantity"]] | FTotals => [[b "report"; b "totals"]]
  | FCsvLog => [[b "csv"; b "log"]] | FCsvDb => [[b "csv"; b "database"]] | FCsvDbResolved => [[b "csv"; b "database-resolved"]]
  | FStats => [[b "stats"]] | FSummary => [[b "summary"]] | FPrint => [[b "print"]]
  end.

Lemma paths_dispatch : forall ga e d c ws X, In ws (paths c) -> root_args ga e d (ws ++ X) = leaf_level ga e d c X.
Proof.
  intros ga e d c ws X H.
  destruct c; cbn [paths In] in H; repeat (destruct H as [H|H]; [subst ws|]); try contradiction; cbn [app]; unfold root_args.
  all: try (match goal with |- match leaf_of_root ?w with _ => _ end = _ =>
              let v := eval vm_compute in (leaf_of_root w) in change (leaf_of_root w) with v end; cbv iota; try reflexivity).
  all: match goal with |- (if beq ?w ?x then _ else _) = _ => let v := eval vm_compute in (beq w x) in change (beq w x) with v end; cbv iota.
  all: try match goal with |- (if beq ?w ?x then _ else _) = _ => let v := eval vm_compute in (beq w x) in change (beq w x) with v end; cbv iota.
  all: unfold group_level; rewrite pf_nonflag by (vm_compute; reflexivity); unfold guard;
       change (conflict tbl_help []) with false; change (get_bool n_help []) with false; cbv iota; unfold group_args.
  all: match goal with |- match ?s ?w with _ => _ end = _ => let v := eval vm_compute in (s w) in change (s w) with v end; reflexivity.
Qed.

Lemma paths_shape : forall c ws, In ws (paths c) -> exists w r, ws = w :: r /\ mem w children_root = true.
Proof.
  intros c ws H. destruct c; cbn [paths In] in H; repeat (destruct H as [H|H]; [subst ws|]); try contradiction;
    eexists; eexists; (split; [reflexivity|vm_compute; reflexivity]).
Qed.

(** [g] are flags of the root, read completely, and the command word follows *)
Definition framed (g ws : list bytes) (ga : asg) : Prop :=
  parse_flags tbl_root (g ++ [hd [] ws]) = FOk ga [hd [] ws].

Definition root_frame (ga : asg) (ws : list bytes) (e : env) (k : option Z -> argv_result) : argv_result :=
  match env_int e (b "HR_MAXDEPTH") with
  | Err => ArgvUsage | Unm => ArgvUnmodelled
  | Val d => guard tbl_root ga children_root ws (if get_bool n_version ga then ArgvHelp else k d)
  end.

Lemma parse_argv_frame : forall g ga c ws X e, In ws (paths c) -> framed g ws ga ->
  parse_argv (g ++ ws ++ X) e = root_frame ga ws e (fun d => leaf_level ga e d c X).
Proof.
  intros g ga c ws X e Hin Hf. destruct (paths_shape c ws Hin) as (w & r & -> & Hw).
  unfold framed in Hf. cbn [hd] in Hf. unfold parse_argv, root_frame.
  destruct (env_int e (b "HR_MAXDEPTH")) as [d| |]; try reflexivity.
  unfold root_level. cbn [app]. rewrite (pf_prefix _ _ _ _ Hf). unfold guard.
  change (w :: r ++ X) with ((w :: r) ++ X). rewrite (paths_dispatch ga e d c (w :: r) X Hin).
  unfold help_action. reflexivity.
Qed.
