(** WP25, part B (relations): "period totals equal the sum of the register's daily totals and of the
    single-element register rows; the single-element balance grand total equals the period total of
    that element" - between the NUMBERS the command outputs of ProgramTotals.v / ProgramRegister.v are
    rendered from ([totals_rows_of], [register_day_totals_of], [single_rows_of], [bal_single_total_of]). *)
From Coq Require Import Lia Permutation.
From HP Require Import Base.Bytes Base.Utf8 Base.Num Model.Scanner Model.Parser Model.Elements Model.Resolver
  Model.Dates Model.Tree Model.Writer Model.Reporters Model.Cli.
From HP Require Import Spec.RegisterSpec Spec.Agree2Spec Spec.AgreeSpec Spec.ProgramSpec.
From HP Require Import Proofs.RegisterSort Proofs.RegisterAssoc Proofs.Register Proofs.RegisterExtra.
From HP Require Import Proofs.AgreeTotals Proofs.AgreeTotalsAcc Proofs.AgreeTotalsMain.
From HP Require Import Proofs.ProgramBase Proofs.ProgramTotals.

Section Agree.
  Context (NM : Num).
  Notation T := (T NM).
  Notation db := (list (bytes * list (bytes * T))).
  Notation record := (record NM).

  (** any configuration with the totals switched on (only [rc_totals] is looked at) *)
  Definition totals_on : rconfig :=
    {| rc_color := false; rc_totals_only := false; rc_totals := true; rc_date := [];
       rc_single_element := []; rc_single_food := []; rc_collapse_last := false; rc_collapse := false;
       rc_group_food := false; rc_shorten := false; rc_old := false; rc_template := []; rc_csv := false |}.

  Lemma day_row_record : forall (d : db) x (r : record),
    day_row NM totals_on (fun l => l) d x (day_node NM r) = row_of NM x (day_totals NM d (rec_entries NM r)).
  Proof.
    intros d x [[t es] m]. unfold day_row, day_node, rec_entries. cbn [fst snd].
    rewrite (register_totals_spec NM totals_on (fun l => l) d t es m (id_oracle)). reflexivity.
  Qed.

  Lemma period_row_records : forall (d : db) πd x (recs : list record),
    period_row NM (fun l => l) πd d x (map (day_node NM) recs) = row_of NM x (totals_rows_of NM d recs).
  Proof.
    intros d πd x recs. unfold period_row, period_rows, totals_rows_of.
    rewrite walk_totals, contributions_records, (totals_of_acc_spec NM (fun l => l) _ id_oracle). reflexivity.
  Qed.

  Lemma occurs_in_period_records : forall (d : db) x (recs : list record),
    occurs_in_period NM d x (map (day_node NM) recs) = existsb (has_row NM x) (register_day_totals_of NM d recs).
  Proof.
    intros d x recs. unfold occurs_in_period, register_day_totals_of.
    induction recs as [|r rest IH]; [reflexivity|].
    cbn [map existsb]. rewrite IH, contributions_record. unfold day_totals. rewrite has_row_totals_of. reflexivity.
  Qed.

  (** law-free: the rows of [reg -s x] ARE the rows of [x] in the register's daily totals, day by day *)
  Theorem single_rows_are_register_rows : forall (d : db) (recs : list record) x,
    map (fun row => (sr_pos NM row, sr_neg NM row)) (single_rows_of NM d x recs)
    = flat_map (fun rows => match row_of NM x rows with Some pn => [pn] | None => [] end)
               (register_day_totals_of NM d recs).
  Proof.
    intros d recs x. unfold single_rows_of, register_day_totals_of.
    induction recs as [|r rest IH]; [reflexivity|].
    cbn [flat_map map]. rewrite map_app, IH. f_equal.
    destruct (row_of NM x (day_totals NM d (rec_entries NM r))) as [[p n]|]; reflexivity.
  Qed.

  Section Laws.
    Hypothesis AM : AddMonoid NM.

    (** *** report totals vs the register's daily totals *)
    Theorem totals_vs_register : forall (d : db) (recs : list record) x,
      row_of NM x (totals_rows_of NM d recs)
      = if existsb (has_row NM x) (register_day_totals_of NM d recs)
        then Some (sum NM (map (fun rows => fst_or_zero NM (row_of NM x rows)) (register_day_totals_of NM d recs)),
                   sum NM (map (fun rows => snd_or_zero NM (row_of NM x rows)) (register_day_totals_of NM d recs)))
        else None.
    Proof.
      intros d recs x.
      pose proof (totals_eq_sum_daily NM AM totals_on (fun l => l) (fun l => l) (fun _ l => l) d x
                    (map (day_node NM) recs) eq_refl id_oracle id_oracle) as H.
      rewrite period_row_records, occurs_in_period_records in H. rewrite H.
      destruct (existsb (has_row NM x) (register_day_totals_of NM d recs)); [|reflexivity].
      unfold register_day_totals_of. rewrite !map_map. f_equal. f_equal.
      - f_equal. apply map_ext. intro r. unfold day_pos. rewrite day_row_record. reflexivity.
      - f_equal. apply map_ext. intro r. unfold day_neg. rewrite day_row_record. reflexivity.
    Qed.

    (** *** report totals vs the rows of [reg -s x] *)
    Lemma single_rows_sums : forall (d : db) x (recs : list record),
      existsb (has_row NM x) (register_day_totals_of NM d recs)
      = match single_rows_of NM d x recs with [] => false | _ => true end
      /\ sum NM (map (fun rows => fst_or_zero NM (row_of NM x rows)) (register_day_totals_of NM d recs))
         = sum NM (map (sr_pos NM) (single_rows_of NM d x recs))
      /\ sum NM (map (fun rows => snd_or_zero NM (row_of NM x rows)) (register_day_totals_of NM d recs))
         = sum NM (map (sr_neg NM) (single_rows_of NM d x recs)).
    Proof.
      intros d x recs. unfold register_day_totals_of, single_rows_of.
      induction recs as [|r rest (IH1 & IH2 & IH3)]; [repeat split|].
      cbn [map existsb flat_map]. unfold has_row at 1.
      destruct (row_of NM x (day_totals NM d (rec_entries NM r))) as [[p n]|].
      - cbn [orb app map fst_or_zero snd_or_zero]. rewrite !(sum_cons NM AM), IH2, IH3. repeat split.
      - cbn [orb app fst_or_zero snd_or_zero]. rewrite !(sum_cons NM AM), !(am_0_l NM AM). repeat split; assumption.
    Qed.

    Theorem totals_vs_single : forall (d : db) (recs : list record) x,
      row_of NM x (totals_rows_of NM d recs)
      = match single_rows_of NM d x recs with
        | [] => None
        | rows => Some (sum NM (map (sr_pos NM) rows), sum NM (map (sr_neg NM) rows))
        end.
    Proof.
      intros d recs x. rewrite totals_vs_register.
      destruct (single_rows_sums d x recs) as (H1 & H2 & H3). rewrite H1, H2, H3.
      destruct (single_rows_of NM d x recs); reflexivity.
    Qed.

    (** *** the grand total of [bal -s x] vs the "sum" column of [report totals] *)
    Theorem bal_single_vs_totals : forall (d : db) (recs : list record) x,
      bal_single_total_of NM d x recs
      = match row_total_of NM x (totals_rows_of NM d recs) with
        | Some s => s
        | None => zero NM
        end.
    Proof.
      intros d recs x. unfold bal_single_total_of, totals_rows_of.
      set (cs := period_contributed NM d recs).
      rewrite row_total_of_totals_of, accumulate_spec.
      destruct (occurs_in NM x cs) eqn:E.
      - apply occurs_in_iff in E.
        rewrite (lookup_kmap_in (fun y => (pos_of NM cs y, neg_of NM cs y))) by (apply first_occurrences_in; exact E).
        cbn [option_map fst snd]. symmetry. apply totals_sum_column. exact AM.
      - assert (Hn : ~ In x (map fst cs)) by (intro H; apply occurs_in_iff in H; congruence).
        rewrite (lookup_kmap_notin (fun y => (pos_of NM cs y, neg_of NM cs y)))
          by (rewrite first_occurrences_in; exact Hn).
        cbn [option_map]. apply values_of_nil_iff in Hn. rewrite Hn. reflexivity.
    Qed.

    (** ... and that column is positive + negative of the same row *)
    Theorem bal_single_vs_totals_row : forall (d : db) (recs : list record) x,
      bal_single_total_of NM d x recs
      = match row_of NM x (totals_rows_of NM d recs) with
        | Some (p, n) => add NM p n
        | None => zero NM
        end.
    Proof.
      intros d recs x. rewrite bal_single_vs_totals. unfold totals_rows_of.
      rewrite row_total_of_totals_of, row_of_totals_of.
      destruct (lookup x (accumulate NM (period_contributed NM d recs))) as [[p n]|]; reflexivity.
    Qed.
  End Laws.

  (** law-free: every row of [report totals] is (name, positive, negative, positive + negative), names
      strictly increasing, one row per contributed element *)
  Theorem totals_rows_shape : forall (d : db) (recs : list record),
    let cs := period_contributed NM d recs in
    totals_rows_of NM d recs
    = map (fun x => (x, pos_of NM cs x, neg_of NM cs x, add NM (pos_of NM cs x) (neg_of NM cs x))) (sorted_names NM cs)
    /\ Sorted.StronglySorted (fun a c => bltb a c = true) (sorted_names NM cs)
    /\ (forall x, In x (sorted_names NM cs) <-> In x (map fst cs)).
  Proof.
    intros d recs cs. split; [reflexivity|]. split; [apply sorted_names_strict | apply sorted_names_in].
  Qed.
End Agree.
