(** WP05 / property C10, parser level.

    An input that cannot be read completely (the reader fails at some offset,
    or a raw line does not fit the 64 KiB token buffer) makes
    [parse_stream] return an error; conversely a [parse_stream] that returns
    no error has fed every event of the complete file to the callback. *)
From Coq Require Import Lia ZifyBool ZifyNat ZifyN.
From HP Require Import Base.Bytes Base.Utf8 Base.Num Model.Scanner Model.Parser.
Open Scope N_scope.

(** * The scanner *)

(** a line that does not fit the scanner's buffer *)
Definition has_long_line (data : bytes) : Prop := snd (scan data NoFault) = ScanTooLong.

(** the scan saw the whole file: no read error, no over-long line *)
Definition scan_complete (data : bytes) : Prop := snd (scan data NoFault) = ScanEOF.

Lemma lengthN_length : forall {A} (l : list A), lengthN l = N.of_nat (length l).
Proof.
  intros A l; induction l as [|x r IH]; cbn [lengthN length].
  - reflexivity.
  - rewrite IH. lia.
Qed.

Lemma take_lines_too_long : forall l,
  snd (take_lines l) = true <-> exists rb, In rb l /\ max_token <= lengthN (fst rb).
Proof.
  induction l as [|[raw t] r IH]; cbn [take_lines].
  - split; [discriminate | intros [rb [[] _]]].
  - destruct (N.leb_spec max_token (lengthN raw)) as [Hle|Hlt].
    + cbn [snd]. split; [intros _ | reflexivity].
      exists (raw, t). split; [left; reflexivity | exact Hle].
    + destruct (take_lines r) as [ls tl] eqn:Etl. cbn [snd] in *.
      rewrite IH. split.
      * intros [rb [Hin Hlen]]. exists rb. split; [right; exact Hin | exact Hlen].
      * intros [rb [[Heq|Hin] Hlen]].
        -- subst rb. cbn [fst] in Hlen. lia.
        -- exists rb. split; assumption.
Qed.

Lemma take_lines_false_or_true : forall l, snd (take_lines l) = false \/ snd (take_lines l) = true.
Proof. intros l; destruct (snd (take_lines l)); auto. Qed.

(** the possible ends of a scan *)
Lemma scan_fault_end : forall data k, snd (scan data (FailAt k)) <> ScanEOF.
Proof.
  intros data k. unfold scan.
  destruct (take_lines (raw_lines [] (firstn k data))) as [ls tl]. cbn [snd].
  destruct tl; discriminate.
Qed.

Lemma scan_nofault_end : forall data,
  snd (scan data NoFault) = ScanEOF \/ snd (scan data NoFault) = ScanTooLong.
Proof.
  intros data. unfold scan.
  destruct (take_lines (raw_lines [] data)) as [ls tl]. cbn [snd].
  destruct tl; auto.
Qed.

Lemma scan_nofault_not_readerr : forall data, snd (scan data NoFault) <> ScanReadErr.
Proof. intros data H. destruct (scan_nofault_end data) as [E|E]; congruence. Qed.

Lemma has_long_line_take_lines : forall data,
  has_long_line data <-> snd (take_lines (raw_lines [] data)) = true.
Proof.
  intros data. unfold has_long_line, scan.
  destruct (take_lines (raw_lines [] data)) as [ls tl]. cbn [snd].
  destruct tl; split; congruence.
Qed.

Lemma scan_complete_not_long : forall data, scan_complete data <-> ~ has_long_line data.
Proof.
  intros data. unfold scan_complete, has_long_line.
  destruct (scan_nofault_end data) as [E|E]; rewrite E; split; congruence.
Qed.

(** a failing reader behaves like end of file on the delivered prefix, except
    for how the scan ends *)
Lemma scan_fault_lines : forall data k, fst (scan data (FailAt k)) = fst (scan (firstn k data) NoFault).
Proof.
  intros data k. unfold scan.
  destruct (take_lines (raw_lines [] (firstn k data))) as [ls tl]. reflexivity.
Qed.

Lemma scan_fault_snd : forall data k,
  (has_long_line (firstn k data) /\ snd (scan data (FailAt k)) = ScanTooLong) \/
  (~ has_long_line (firstn k data) /\ snd (scan data (FailAt k)) = ScanReadErr).
Proof.
  intros data k. unfold has_long_line, scan.
  destruct (take_lines (raw_lines [] (firstn k data))) as [ls tl]. cbn [snd].
  destruct tl; [left | right]; split; congruence.
Qed.

(** ** Raw lines are the LF-separated pieces *)

(** [strings.Split]-pieces with the last one dropped when it is empty: exactly
    what [bufio.ScanLines] tokenises (before CR removal) *)
Fixpoint strip_last_empty (l : list bytes) : list bytes :=
  match l with
  | [] => []
  | x :: r =>
      match r with
      | [] => match x with [] => [] | _ => [x] end
      | _ => x :: strip_last_empty r
      end
  end.

Definition raw_pieces (data : bytes) : list bytes := strip_last_empty (split_on c_lf data).

Lemma split_on_nonempty : forall c s, split_on c s <> [].
Proof.
  intros c s; destruct s as [|x r]; cbn [split_on].
  - discriminate.
  - destruct (N.eqb x c); [discriminate|].
    destruct (split_on c r); discriminate.
Qed.

(** [split_on] with a (reversed) accumulator glued in front of the first piece *)
Definition split_acc (cur s : bytes) : list bytes :=
  match split_on c_lf s with
  | h :: t => (rev cur ++ h) :: t
  | [] => []
  end.

Lemma split_acc_nil : forall s, split_acc [] s = split_on c_lf s.
Proof.
  intros s. unfold split_acc. destruct (split_on c_lf s) as [|h t]; reflexivity.
Qed.

Lemma raw_lines_split_acc : forall s cur,
  map fst (raw_lines cur s) = strip_last_empty (split_acc cur s).
Proof.
  induction s as [|c r IH]; intros cur.
  - cbn [raw_lines]. unfold split_acc. cbn [split_on]. rewrite app_nil_r.
    destruct cur as [|x cur'].
    + reflexivity.
    + cbn [map fst strip_last_empty].
      destruct (rev (x :: cur')) as [|y l] eqn:E.
      * apply (f_equal (@length _)) in E. rewrite rev_length in E. discriminate.
      * reflexivity.
  - cbn [raw_lines]. unfold split_acc. cbn [split_on].
    destruct (N.eqb_spec c c_lf) as [Hc|Hc].
    + cbn [map fst]. rewrite IH, split_acc_nil, app_nil_r.
      cbn [strip_last_empty].
      destruct (split_on c_lf r) as [|h t] eqn:E.
      * exfalso. exact (split_on_nonempty _ _ E).
      * reflexivity.
    + rewrite IH. unfold split_acc.
      destruct (split_on c_lf r) as [|h t] eqn:E.
      * exfalso. exact (split_on_nonempty _ _ E).
      * cbn [rev]. rewrite <- app_assoc. reflexivity.
Qed.

(** the scanner's raw lines are the LF-separated pieces, a final empty piece dropped *)
Lemma raw_lines_pieces : forall data, map fst (raw_lines [] data) = raw_pieces data.
Proof. intros data. rewrite raw_lines_split_acc, split_acc_nil. reflexivity. Qed.

Lemma In_strip_last_empty : forall l p, In p (strip_last_empty l) -> In p l.
Proof.
  induction l as [|x r IH]; intros p Hin.
  - exact Hin.
  - cbn [strip_last_empty] in Hin. destruct r as [|y r'].
    + destruct x; [destruct Hin | exact Hin].
    + destruct Hin as [Heq|Hin]; [left; exact Heq | right; apply IH; exact Hin].
Qed.

Lemma In_strip_last_empty_inv : forall l p, In p l -> p <> [] -> In p (strip_last_empty l).
Proof.
  induction l as [|x r IH]; intros p Hin Hne.
  - exact Hin.
  - cbn [strip_last_empty]. destruct r as [|y r'].
    + destruct Hin as [Heq|[]]. subst x. destruct p; [congruence | left; reflexivity].
    + destruct Hin as [Heq|Hin]; [left; exact Heq | right; apply IH; assumption].
Qed.

(** [has_long_line] in terms of the raw pieces *)
Lemma has_long_line_raw_pieces : forall data,
  has_long_line data <-> exists p, In p (raw_pieces data) /\ max_token <= lengthN p.
Proof.
  intros data. rewrite has_long_line_take_lines, take_lines_too_long, <- raw_lines_pieces.
  split.
  - intros [rb [Hin Hlen]]. exists (fst rb). split; [apply in_map; exact Hin | exact Hlen].
  - intros [p [Hin Hlen]]. apply in_map_iff in Hin. destruct Hin as [rb [Heq Hin]].
    exists rb. subst p. split; assumption.
Qed.

(** ... and in terms of [strings.Split data "\n"] (an empty last piece has
    length 0, so whether it "counts" is immaterial) *)
Lemma has_long_line_split_on : forall data,
  has_long_line data <-> exists p, In p (split_on c_lf data) /\ max_token <= lengthN p.
Proof.
  intros data. rewrite has_long_line_raw_pieces. unfold raw_pieces. split.
  - intros [p [Hin Hlen]]. exists p. split; [apply In_strip_last_empty; exact Hin | exact Hlen].
  - intros [p [Hin Hlen]]. exists p. split; [|exact Hlen].
    apply In_strip_last_empty_inv; [exact Hin|].
    intros ->. cbn in Hlen. unfold max_token in Hlen. lia.
Qed.

(** ** The pieces of [split_on], characterised without reference to the model:
    [p] is a piece iff it is a maximal separator-free segment of the input *)
Definition maximal_piece (c : N) (s p : bytes) : Prop :=
  exists pre post,
    s = pre ++ p ++ post /\ ~ In c p /\
    (pre = [] \/ exists pre', pre = pre' ++ [c]) /\
    (post = [] \/ exists post', post = c :: post').

Lemma split_on_cons_shape : forall c s, exists h t, split_on c s = h :: t.
Proof.
  intros c s. destruct (split_on c s) as [|h t] eqn:E.
  - exfalso. exact (split_on_nonempty _ _ E).
  - eauto.
Qed.

(** the first piece: the longest separator-free prefix *)
Lemma split_on_head : forall c s h t, split_on c s = h :: t ->
  ~ In c h /\ ((t = [] /\ s = h) \/ exists rest, s = h ++ c :: rest /\ split_on c rest = t).
Proof.
  intros c s; induction s as [|x r IH]; intros h t E; cbn [split_on] in E.
  - injection E as <- <-. split; [intros []|]. left. split; reflexivity.
  - destruct (N.eqb_spec x c) as [Hx|Hx].
    + injection E as <- <-. split; [intros []|]. right. exists r. subst x. split; reflexivity.
    + destruct (split_on_cons_shape c r) as [h' [t' E']]. rewrite E' in E.
      injection E as <- <-. destruct (IH h' t' E') as [Hnin Hsh]. split.
      * intros [Heq|Hin]; [congruence | exact (Hnin Hin)].
      * destruct Hsh as [[Ht Hs]|[rest [Hs Ht]]].
        -- left. split; [exact Ht | rewrite Hs; reflexivity].
        -- right. exists rest. split; [rewrite Hs; reflexivity | exact Ht].
Qed.

Lemma In_split_on_maximal : forall c s p, In p (split_on c s) -> maximal_piece c s p.
Proof.
  intros c s. remember (length s) as n eqn:En. revert s En.
  induction n as [n IHn] using lt_wf_ind. intros s En p Hin.
  destruct (split_on_cons_shape c s) as [h [t E]].
  destruct (split_on_head c s h t E) as [Hnin Hsh].
  rewrite E in Hin. destruct Hin as [Heq|Hin].
  - subst p. destruct Hsh as [[Ht Hs]|[rest [Hs Ht]]].
    + exists [], []. rewrite app_nil_r. cbn [app]. repeat split; auto.
    + exists [], (c :: rest). cbn [app]. repeat split; eauto.
  - destruct Hsh as [[Ht Hs]|[rest [Hs Ht]]].
    + subst t. destruct Hin.
    + subst t.
      assert (Hlen : (length rest < n)%nat).
      { subst n. rewrite Hs, app_length. cbn [length]. lia. }
      destruct (IHn _ Hlen rest eq_refl p Hin) as [pre [post [Hs' [Hp [Hpre Hpost]]]]].
      exists (h ++ c :: pre), post. repeat split.
      * rewrite Hs, Hs', <- app_assoc. reflexivity.
      * exact Hp.
      * right. destruct Hpre as [->|[pre' ->]].
        -- exists h. reflexivity.
        -- exists (h ++ c :: pre'). rewrite <- app_assoc. reflexivity.
      * exact Hpost.
Qed.

Lemma split_on_app_sep : forall c h rest, ~ In c h ->
  split_on c (h ++ c :: rest) = h :: split_on c rest.
Proof.
  intros c h rest; induction h as [|x h IH]; intros Hnin; cbn [app split_on].
  - rewrite N.eqb_refl. reflexivity.
  - destruct (N.eqb_spec x c) as [Hx|Hx].
    + exfalso. apply Hnin. left. exact Hx.
    + rewrite IH; [reflexivity|]. intros Hin. apply Hnin. right. exact Hin.
Qed.

Lemma split_on_no_sep : forall c h, ~ In c h -> split_on c h = [h].
Proof.
  intros c h; induction h as [|x h IH]; intros Hnin; cbn [split_on].
  - reflexivity.
  - destruct (N.eqb_spec x c) as [Hx|Hx].
    + exfalso. apply Hnin. left. exact Hx.
    + rewrite IH; [reflexivity|]. intros Hin. apply Hnin. right. exact Hin.
Qed.

(** every piece of [pre' ++ [c]]-prefixed input reappears after the prefix *)
Lemma In_split_on_after_sep : forall c pre rest p,
  In p (split_on c rest) -> In p (split_on c (pre ++ c :: rest)).
Proof.
  intros c pre. remember (length pre) as n eqn:En. revert pre En.
  induction n as [n IHn] using lt_wf_ind. intros pre En rest p Hin.
  destruct (split_on_cons_shape c pre) as [h [t E]].
  destruct (split_on_head c pre h t E) as [Hnin Hsh].
  destruct Hsh as [[Ht Hs]|[rest' [Hs Ht]]].
  - subst pre. rewrite split_on_app_sep by exact Hnin. right. exact Hin.
  - rewrite Hs, <- app_assoc. cbn [app]. rewrite split_on_app_sep by exact Hnin. right.
    assert (Hlen : (length rest' < n)%nat).
    { subst n. rewrite Hs, app_length. cbn [length]. lia. }
    exact (IHn _ Hlen rest' eq_refl rest p Hin).
Qed.

Lemma maximal_In_split_on : forall c s p, maximal_piece c s p -> In p (split_on c s).
Proof.
  intros c s p [pre [post [Hs [Hp [Hpre Hpost]]]]].
  assert (Hmid : In p (split_on c (p ++ post))).
  { destruct Hpost as [->|[post' ->]].
    - rewrite app_nil_r, split_on_no_sep by exact Hp. left. reflexivity.
    - rewrite split_on_app_sep by exact Hp. left. reflexivity. }
  destruct Hpre as [->|[pre' ->]].
  - subst s. exact Hmid.
  - subst s. rewrite <- app_assoc. cbn [app]. apply In_split_on_after_sep. exact Hmid.
Qed.

Lemma In_split_on_iff : forall c s p, In p (split_on c s) <-> maximal_piece c s p.
Proof. intros c s p; split; [apply In_split_on_maximal | apply maximal_In_split_on]. Qed.

(** [has_long_line] stated on the input alone: some maximal LF-free segment
    (CR included) has 65536 bytes or more *)
Lemma has_long_line_iff : forall data,
  has_long_line data <->
  exists p, maximal_piece c_lf data p /\ 65536 <= N.of_nat (length p).
Proof.
  intros data. rewrite has_long_line_split_on. split.
  - intros [p [Hin Hlen]]. exists p. split; [apply In_split_on_iff; exact Hin|].
    rewrite lengthN_length in Hlen. exact Hlen.
  - intros [p [Hmax Hlen]]. exists p. split; [apply In_split_on_iff; exact Hmax|].
    rewrite lengthN_length. exact Hlen.
Qed.

(** * The callback protocol *)

Section ParserLevel.
  Context (NM : Num).
  Context {S E : Type} (cb : S -> event NM -> S * bool * option E).

  (** the callback never sets the stop flag without returning an error *)
  Definition stops_only_with_error : Prop :=
    forall s ev s' e, cb s ev = (s', true, e) -> e <> None.

  (** the state after the callback has seen [evs], stop flags ignored *)
  Definition feed (evs : list (event NM)) (s : S) : S :=
    fold_left (fun st ev => fst (fst (cb st ev))) evs s.

  Lemma drive_loop_stopped : stops_only_with_error ->
    forall evs s s' e, drive_loop NM cb evs s = (s', Some e) -> e <> None.
  Proof.
    intros Hcb evs; induction evs as [|ev r IH]; intros s s' e H; cbn [drive_loop] in H.
    - discriminate.
    - destruct (cb s ev) as [[s1 stop] e1] eqn:Ecb. destruct stop.
      + injection H as <- <-. exact (Hcb _ _ _ _ Ecb).
      + exact (IH _ _ _ H).
  Qed.

  Lemma drive_loop_not_stopped :
    forall evs s s', drive_loop NM cb evs s = (s', None) -> s' = feed evs s.
  Proof.
    induction evs as [|ev r IH]; intros s s' H; cbn [drive_loop] in H.
    - injection H as <-. reflexivity.
    - unfold feed. cbn [fold_left]. destruct (cb s ev) as [[s1 stop] e1] eqn:Ecb. destruct stop.
      + discriminate.
      + cbn [fst]. exact (IH _ _ H).
  Qed.

  (** a scan that did not end at EOF is an error of the parse *)
  Lemma drive_not_eof : stops_only_with_error ->
    forall evs last fin s, fin <> ScanEOF -> snd (drive NM cb evs last fin s) <> None.
  Proof.
    intros Hcb evs last fin s Hfin. unfold drive.
    destruct (drive_loop NM cb evs s) as [s' [e|]] eqn:Edl.
    - cbn [snd]. pose proof (drive_loop_stopped Hcb _ _ _ _ Edl) as Hne.
      destruct e; [discriminate | congruence].
    - destruct fin; [congruence | discriminate | discriminate].
  Qed.

  (** a successful drive ended at EOF and fed everything, the last record included *)
  Lemma drive_success : stops_only_with_error ->
    forall evs last fin s, snd (drive NM cb evs last fin s) = None ->
    fin = ScanEOF /\
    fst (drive NM cb evs last fin s) =
      feed (evs ++ match last with Some n => [ENode n] | None => [] end) s.
  Proof.
    intros Hcb evs last fin s Hnone.
    destruct fin.
    2,3: exfalso; revert Hnone; apply drive_not_eof; [exact Hcb | discriminate].
    split; [reflexivity|].
    unfold drive in *.
    destruct (drive_loop NM cb evs s) as [s' [e|]] eqn:Edl.
    - exfalso. cbn [snd] in Hnone. pose proof (drive_loop_stopped Hcb _ _ _ _ Edl) as Hne.
      destruct e; [discriminate | congruence].
    - apply drive_loop_not_stopped in Edl. subst s'. unfold feed. rewrite fold_left_app.
      destruct last as [n|].
      + cbn [fold_left]. destruct (cb _ (ENode n)) as [[s'' stop] e]. reflexivity.
      + reflexivity.
  Qed.

  (** ** The three parser-level theorems *)

  Theorem read_fault_is_error : stops_only_with_error ->
    forall data k s, snd (parse_stream NM cb data (FailAt k) s) <> None.
  Proof.
    intros Hcb data k s. unfold parse_stream.
    pose proof (scan_fault_end data k) as Hend.
    destruct (scan data (FailAt k)) as [lines fin]. cbn [snd] in Hend.
    destruct (parse_lines NM lines) as [evs last].
    apply drive_not_eof; assumption.
  Qed.

  Theorem long_line_is_error : stops_only_with_error ->
    forall data s, has_long_line data -> snd (parse_stream NM cb data NoFault s) <> None.
  Proof.
    intros Hcb data s Hlong. unfold parse_stream, has_long_line in *.
    destruct (scan data NoFault) as [lines fin]. cbn [snd] in Hlong. subst fin.
    destruct (parse_lines NM lines) as [evs last].
    apply drive_not_eof; [exact Hcb | discriminate].
  Qed.

  Theorem success_implies_whole_file :
    forall data fault s,
    snd (parse_stream NM cb data fault s) = None -> stops_only_with_error ->
    fault = NoFault /\ snd (scan data NoFault) = ScanEOF /\
    fst (parse_stream NM cb data fault s) =
      fold_left (fun st ev => fst (fst (cb st ev))) (events NM data) s.
  Proof.
    intros data fault s Hnone Hcb.
    destruct fault as [|k].
    2: { exfalso. revert Hnone. apply read_fault_is_error. exact Hcb. }
    split; [reflexivity|].
    unfold parse_stream, events in *.
    destruct (scan data NoFault) as [lines fin]. cbn [fst snd].
    destruct (parse_lines NM lines) as [evs last].
    destruct (drive_success Hcb _ _ _ _ Hnone) as [Hfin Hst].
    split; [exact Hfin | exact Hst].
  Qed.

  (** the error is the scanner's own whenever the callback did not stop first *)
  Lemma parse_stream_incomplete_error : stops_only_with_error ->
    forall data fault s, snd (scan data fault) <> ScanEOF ->
    (exists e, snd (parse_stream NM cb data fault s) = Some (inl e)) \/
    snd (parse_stream NM cb data fault s) = Some (inr (snd (scan data fault))).
  Proof.
    intros Hcb data fault s Hend. unfold parse_stream.
    destruct (scan data fault) as [lines fin]. cbn [snd] in *.
    destruct (parse_lines NM lines) as [evs last]. unfold drive.
    destruct (drive_loop NM cb evs s) as [s' [e|]] eqn:Edl.
    - left. pose proof (drive_loop_stopped Hcb _ _ _ _ Edl) as Hne.
      destruct e as [e|]; [exists e; reflexivity | congruence].
    - right. destruct fin; [congruence | reflexivity | reflexivity].
  Qed.
  (** which error: the callback's own (it stopped at some event of the part
      that was read), else the scanner's *)
  Lemma drive_loop_stopped_witness :
    forall evs s s' e, drive_loop NM cb evs s = (s', Some e) ->
    exists s1 ev, In ev evs /\ cb s1 ev = (s', true, e).
  Proof.
    induction evs as [|ev r IH]; intros s s' e H; cbn [drive_loop] in H.
    - discriminate.
    - destruct (cb s ev) as [[s1 stop] e1] eqn:Ecb. destruct stop.
      + injection H as <- <-. exists s, ev. split; [left; reflexivity | exact Ecb].
      + destruct (IH _ _ _ H) as [s2 [ev' [Hin Hcb]]]. exists s2, ev'. split; [right; exact Hin | exact Hcb].
  Qed.

  Lemma parse_stream_error_cases : stops_only_with_error ->
    forall data fault s, snd (scan data fault) <> ScanEOF ->
    let evs := fst (parse_lines NM (fst (scan data fault))) in
    (exists s1 s2 ev e, In ev evs /\ cb s1 ev = (s2, true, Some e) /\
                        snd (parse_stream NM cb data fault s) = Some (inl e)) \/
    (snd (drive_loop NM cb evs s) = None /\
     snd (parse_stream NM cb data fault s) = Some (inr (snd (scan data fault)))).
  Proof.
    intros Hcb data fault s Hend. unfold parse_stream.
    destruct (scan data fault) as [lines fin]. cbn [fst snd] in *.
    destruct (parse_lines NM lines) as [evs last]. cbn [fst]. unfold drive.
    destruct (drive_loop NM cb evs s) as [s' [e|]] eqn:Edl.
    - left. pose proof (drive_loop_stopped Hcb _ _ _ _ Edl) as Hne.
      destruct (drive_loop_stopped_witness _ _ _ _ Edl) as [s1 [ev [Hin Hev]]].
      destruct e as [e|]; [|congruence].
      exists s1, s', ev, e. repeat split; assumption.
    - right. split; [reflexivity|]. destruct fin; [congruence | reflexivity | reflexivity].
  Qed.
End ParserLevel.

Arguments stops_only_with_error {NM S E} cb.
Arguments feed {NM S E} cb evs s.
