(** WP24: the boolean equality on template syntax trees decides Leibniz equality
    ([tmpl_eqb_sound] is what turns the per-run boolean of Gen/Templates.v into
    the hypothesis [parse_template src = Some ast] of [template_tie]). *)
From Coq Require Import Lia.
From HP Require Import Base.Bytes Model.Template.

Lemma beq_true_iff (x y : bytes) : beq x y = true <-> x = y.
Proof.
  revert y. induction x as [|a x IH]; intros [|c y]; cbn [beq]; split; intros H; try reflexivity; try discriminate.
  - apply andb_true_iff in H. destruct H as [H1 H2]. apply N.eqb_eq in H1. apply IH in H2. subst. reflexivity.
  - injection H as -> ->. apply andb_true_iff. split; [apply N.eqb_refl | apply IH; reflexivity].
Qed.

Lemma beq_refl (x : bytes) : beq x x = true.
Proof. apply beq_true_iff. reflexivity. Qed.

Lemma list_eqb_sound {A : Type} (eqb : A -> A -> bool) (l : list A) :
  Forall (fun a => forall c, eqb a c = true -> a = c) l ->
  forall l', list_eqb eqb l l' = true -> l = l'.
Proof.
  intros HF. induction HF as [|a r Ha HF IH]; intros [|c l'] H; cbn [list_eqb] in H; try reflexivity; try discriminate.
  apply andb_true_iff in H. destruct H as [H1 H2]. rewrite (Ha c H1), (IH l' H2). reflexivity.
Qed.

Lemma list_eqb_refl {A : Type} (eqb : A -> A -> bool) (l : list A) :
  Forall (fun a => eqb a a = true) l -> list_eqb eqb l l = true.
Proof.
  intros HF. induction HF as [|a r Ha HF IH]; cbn [list_eqb]; [reflexivity|]. rewrite Ha, IH. reflexivity.
Qed.

Lemma chain_eqb_sound (x y : list bytes) : list_eqb beq x y = true -> x = y.
Proof.
  apply list_eqb_sound. apply Forall_forall. intros a _ c H. apply beq_true_iff. exact H.
Qed.

Lemma chain_eqb_refl (x : list bytes) : list_eqb beq x x = true.
Proof. apply list_eqb_refl. apply Forall_forall. intros a _. apply beq_refl. Qed.

(** induction principles that reach through the nested lists *)
Section TexprInd.
  Context (P : texpr -> Prop).
  Context (Hfield : forall ch, P (EField ch)) (Hvar : forall v ch, P (EVar v ch))
          (Hint : forall z, P (EInt z)) (Hstr : forall s, P (EStr s))
          (Hcall : forall f args, Forall P args -> P (ECall f args)).
  Fixpoint texpr_ind_nested (e : texpr) : P e :=
    match e with
    | EField ch => Hfield ch
    | EVar v ch => Hvar v ch
    | EInt z => Hint z
    | EStr s => Hstr s
    | ECall f args =>
        Hcall f args ((fix go (l : list texpr) : Forall P l :=
                         match l with
                         | [] => Forall_nil P
                         | x :: r => Forall_cons x (texpr_ind_nested x) (go r)
                         end) args)
    end.
End TexprInd.

Section TnodeInd.
  Context (P : tnode -> Prop).
  Context (Htext : forall s, P (TText s)) (Hact : forall e, P (TAction e))
          (Hif : forall e body, Forall P body -> P (TIf e body))
          (Hrange : forall v e body, Forall P body -> P (TRange v e body)).
  Fixpoint tnode_ind_nested (n : tnode) : P n :=
    let go := fix go (l : list tnode) : Forall P l :=
                match l with
                | [] => Forall_nil P
                | x :: r => Forall_cons x (tnode_ind_nested x) (go r)
                end in
    match n with
    | TText s => Htext s
    | TAction e => Hact e
    | TIf e body => Hif e body (go body)
    | TRange v e body => Hrange v e body (go body)
    end.
End TnodeInd.

Lemma texpr_eqb_sound (x : texpr) : forall y, texpr_eqb x y = true -> x = y.
Proof.
  induction x as [ch|v ch|z|s|f args IH] using texpr_ind_nested; intros [ch'|v' ch'|z'|s'|f' args'] H;
    cbn [texpr_eqb] in H; try discriminate.
  - f_equal. apply chain_eqb_sound. exact H.
  - apply andb_true_iff in H. destruct H as [H1 H2]. apply beq_true_iff in H1. apply chain_eqb_sound in H2.
    subst. reflexivity.
  - apply Z.eqb_eq in H. subst. reflexivity.
  - apply beq_true_iff in H. subst. reflexivity.
  - apply andb_true_iff in H. destruct H as [H1 H2]. apply beq_true_iff in H1.
    apply (list_eqb_sound texpr_eqb args IH) in H2. subst. reflexivity.
Qed.

Lemma texpr_eqb_refl (x : texpr) : texpr_eqb x x = true.
Proof.
  induction x as [ch|v ch|z|s|f args IH] using texpr_ind_nested; cbn [texpr_eqb].
  - apply chain_eqb_refl.
  - rewrite beq_refl, chain_eqb_refl. reflexivity.
  - apply Z.eqb_refl.
  - apply beq_refl.
  - rewrite beq_refl. apply (list_eqb_refl texpr_eqb args IH).
Qed.

Lemma ovar_eqb_sound (x y : option bytes) : ovar_eqb x y = true -> x = y.
Proof.
  destruct x as [a|], y as [c|]; cbn [ovar_eqb]; intros H; try discriminate; try reflexivity.
  apply beq_true_iff in H. subst. reflexivity.
Qed.

Lemma ovar_eqb_refl (x : option bytes) : ovar_eqb x x = true.
Proof. destruct x as [a|]; cbn [ovar_eqb]; [apply beq_refl | reflexivity]. Qed.

Lemma tnode_eqb_sound (x : tnode) : forall y, tnode_eqb x y = true -> x = y.
Proof.
  induction x as [s|e|e body IH|v e body IH] using tnode_ind_nested; intros [s'|e'|e' body'|v' e' body'] H;
    cbn [tnode_eqb] in H; try discriminate.
  - apply beq_true_iff in H. subst. reflexivity.
  - apply texpr_eqb_sound in H. subst. reflexivity.
  - apply andb_true_iff in H. destruct H as [H1 H2]. apply texpr_eqb_sound in H1.
    apply (list_eqb_sound tnode_eqb body IH) in H2. subst. reflexivity.
  - apply andb_true_iff in H. destruct H as [H12 H3]. apply andb_true_iff in H12. destruct H12 as [H1 H2].
    apply ovar_eqb_sound in H1. apply texpr_eqb_sound in H2.
    apply (list_eqb_sound tnode_eqb body IH) in H3. subst. reflexivity.
Qed.

Lemma tnode_eqb_refl (x : tnode) : tnode_eqb x x = true.
Proof.
  induction x as [s|e|e body IH|v e body IH] using tnode_ind_nested; cbn [tnode_eqb].
  - apply beq_refl.
  - apply texpr_eqb_refl.
  - rewrite texpr_eqb_refl. apply (list_eqb_refl tnode_eqb body IH).
  - rewrite ovar_eqb_refl, texpr_eqb_refl. apply (list_eqb_refl tnode_eqb body IH).
Qed.

Theorem tmpl_eqb_sound (x y : option (list tnode)) : tmpl_eqb x y = true -> x = y.
Proof.
  destruct x as [a|], y as [c|]; cbn [tmpl_eqb]; intros H; try discriminate; try reflexivity.
  f_equal. revert H. apply list_eqb_sound. apply Forall_forall. intros n _. apply tnode_eqb_sound.
Qed.

Theorem tmpl_eqb_complete (x y : option (list tnode)) : x = y -> tmpl_eqb x y = true.
Proof.
  intros <-. destruct x as [a|]; cbn [tmpl_eqb]; [|reflexivity].
  apply list_eqb_refl. apply Forall_forall. intros n _. apply tnode_eqb_refl.
Qed.

Theorem tmpl_eqb_iff (x y : option (list tnode)) : tmpl_eqb x y = true <-> x = y.
Proof. split; [apply tmpl_eqb_sound | apply tmpl_eqb_complete]. Qed.

(** a failed comparison means different trees *)
Corollary tmpl_eqb_false (x y : option (list tnode)) : tmpl_eqb x y = false -> x <> y.
Proof. intros H E. apply tmpl_eqb_complete in E. rewrite E in H. discriminate. Qed.
