(** WP12: the buffered writer in front of a sink that never fails.
    Invariant [good w]: no sticky error and [s_limit = None]; the bytes written
    so far are [out w = s_got (bw_sink w) ++ bw_buf w]. *)
From Coq Require Import Lia.
From HP Require Import Base.Bytes Model.Writer.

Definition good (w : bw) : Prop := bw_err w = false /\ s_limit (bw_sink w) = None.

Definition out (w : bw) : bytes := s_got (bw_sink w) ++ bw_buf w.

Definition chunk_bytes (cs : list chunk) : bytes := concat (map fst cs).

Lemma chunk_bytes_app : forall a c, chunk_bytes (a ++ c) = chunk_bytes a ++ chunk_bytes c.
Proof. intros a c. unfold chunk_bytes. rewrite map_app, concat_app. reflexivity. Qed.

Lemma sink_write_nofail : forall s p, s_limit s = None ->
  sink_write s p = ({| s_limit := None; s_got := s_got s ++ p |}, false).
Proof. intros s p H. unfold sink_write. rewrite H. reflexivity. Qed.

Lemma good_new : forall got, good (bw_new {| s_limit := None; s_got := got |}).
Proof. intros got. split; reflexivity. Qed.

Lemma bw_flush_good : forall w, good w ->
  good (fst (bw_flush w)) /\ snd (bw_flush w) = false
  /\ s_got (bw_sink (fst (bw_flush w))) = out w /\ bw_buf (fst (bw_flush w)) = [].
Proof.
  intros [buf err snk] [He Hl]. cbn in He, Hl. subst err.
  unfold bw_flush, out. cbn [bw_err bw_buf bw_sink].
  destruct buf as [|c buf].
  - cbn. rewrite app_nil_r. repeat split; assumption.
  - rewrite (sink_write_nofail snk (c :: buf) Hl). cbn. repeat split.
Qed.

Lemma bw_direct_good : forall w p, good w -> bw_buf w = [] ->
  good (fst (bw_direct w p)) /\ snd (bw_direct w p) = false /\ out (fst (bw_direct w p)) = out w ++ p.
Proof.
  intros [buf err snk] p [He Hl] Hb. cbn in He, Hl, Hb. subst err buf.
  unfold bw_direct, out. cbn [bw_err bw_buf bw_sink].
  rewrite (sink_write_nofail snk p Hl). cbn. rewrite !app_nil_r. repeat split.
Qed.

Lemma bw_write_good : forall w p, good w ->
  good (fst (bw_write w p)) /\ snd (bw_write w p) = false /\ out (fst (bw_write w p)) = out w ++ p.
Proof.
  intros w p Hg. pose proof Hg as [He Hl].
  unfold bw_write. rewrite He.
  destruct (Nat.leb (length p) (buf_size - length (bw_buf w))) eqn:Hfit.
  - cbn. unfold good, out. cbn. rewrite app_assoc. repeat split; assumption.
  - destruct (bw_buf w) as [|c buf] eqn:Hb.
    + apply bw_direct_good; assumption.
    + set (avail := buf_size - length (c :: buf)).
      set (w0 := {| bw_buf := (c :: buf) ++ firstn avail p; bw_err := false; bw_sink := bw_sink w |}).
      assert (Hg0 : good w0) by (split; [reflexivity | exact Hl]).
      destruct (bw_flush_good w0 Hg0) as (Hg1 & He1 & Hgot1 & Hbuf1).
      destruct (bw_flush w0) as [w1 e1] eqn:Hfl. cbn [fst snd] in Hg1, He1, Hgot1, Hbuf1. subst e1.
      assert (Hout1 : s_got (bw_sink w1) = out w ++ firstn avail p).
      { rewrite Hgot1. unfold out, w0. cbn [bw_buf bw_sink]. rewrite Hb. rewrite app_assoc. reflexivity. }
      destruct (Nat.leb (length (skipn avail p)) buf_size) eqn:Hsmall.
      * cbn [fst snd]. unfold good, out. cbn [bw_err bw_buf bw_sink].
        split; [split; [reflexivity | apply Hg1] |]. split; [reflexivity |].
        rewrite Hout1, <- app_assoc, firstn_skipn. reflexivity.
      * destruct (bw_direct_good w1 (skipn avail p) Hg1 Hbuf1) as (Hg2 & He2 & Hout2).
        split; [exact Hg2 |]. split; [exact He2 |].
        rewrite Hout2. unfold out at 1. rewrite Hbuf1, app_nil_r, Hout1, <- app_assoc, firstn_skipn. reflexivity.
Qed.

Lemma bw_chunks_good : forall cs w, good w ->
  good (fst (bw_chunks w cs)) /\ snd (bw_chunks w cs) = false
  /\ out (fst (bw_chunks w cs)) = out w ++ chunk_bytes cs.
Proof.
  induction cs as [|[p chk] r IH]; intros w Hg.
  - cbn. rewrite app_nil_r. split; [exact Hg | split; reflexivity].
  - cbn [bw_chunks].
    destruct (bw_write_good w p Hg) as (Hg1 & He1 & Ho1).
    destruct (bw_write w p) as [w1 e1]. cbn [fst snd] in Hg1, He1, Ho1. subst e1. cbn [andb].
    destruct (IH w1 Hg1) as (Hg2 & He2 & Ho2).
    split; [exact Hg2 |]. split; [exact He2 |].
    rewrite Ho2, Ho1. unfold chunk_bytes. cbn [map fst concat]. rewrite app_assoc. reflexivity.
Qed.

(** the Writer fact of the brief: with a sink that never fails, after
    [bw_chunks] of any chunk list and a final [bw_flush], the sink holds the old
    content, the buffered bytes and the bytes of the chunks, and no error is
    reported *)
Theorem nofail_chunks_flush : forall w cs, bw_err w = false -> s_limit (bw_sink w) = None ->
  let '(w1, e1) := bw_chunks w cs in
  let '(w2, e2) := bw_flush w1 in
  e1 = false /\ e2 = false
  /\ s_got (bw_sink w2) = s_got (bw_sink w) ++ bw_buf w ++ concat (map fst cs)
  /\ bw_err w2 = false.
Proof.
  intros w cs He Hl.
  destruct (bw_chunks_good cs w (conj He Hl)) as (Hg1 & He1 & Ho1).
  destruct (bw_chunks w cs) as [w1 e1]. cbn [fst snd] in Hg1, He1, Ho1.
  destruct (bw_flush_good w1 Hg1) as (Hg2 & He2 & Hgot2 & _).
  destruct (bw_flush w1) as [w2 e2]. cbn [fst snd] in Hg2, He2, Hgot2.
  split; [exact He1 |]. split; [exact He2 |]. split.
  - rewrite Hgot2, Ho1. unfold out, chunk_bytes. rewrite app_assoc. reflexivity.
  - apply Hg2.
Qed.
