(** WP27: the buffer-level model of [bufio.Scanner] ([Model/ScannerBuf.v]) computes,
    for EVERY list of read results, the result that the whole-input abstraction
    ([Model/Scanner.scan]'s [take_lines (raw_lines [] _)]) assigns to the bytes
    that the reader delivers before it stops.  Chunk boundaries, the buffer
    capacity steps 0 / 4096 / ... / 65536, the shifting of the buffer and empty
    reads never show.  The corollaries about [chunks_of] are in
    [ScannerBufChunks.v]. *)
From Coq Require Import List NArith Bool Lia ZifyBool ZifyNat ZifyN.
From HP Require Import Base.Bytes Model.Scanner Model.ScannerBuf.
Import ListNotations.
Open Scope N_scope.

(** * What a list of read results delivers

    [stream_of k rd]: the bytes the scanner can ever obtain from [rd], how the
    reading side ends, and whether the last bytes come together with that ending
    in one [Read] call, when the inner read loop has already seen [k]
    consecutive empty reads.  The ending is end of file, the reader's error, or
    [io.ErrNoProgress] at the 101st consecutive empty read.  Nothing behind the
    first error is ever read. *)
Fixpoint stream_of (k : N) (rd : list read_result) : bytes * chunk_end * bool :=
  match rd with
  | [] => ([], CEnd ScanEOF, false)
  | RErr :: _ => ([], CEnd ScanReadErr, false)
  | RChunk [] :: r =>
      if max_consecutive_empty_reads <? k + 1 then ([], CNoProgress, false) else stream_of (k + 1) r
  | RChunk bs :: r => let '(d, e, g) := stream_of 0 r in (bs ++ d, e, g)
  | RLast bs failing :: _ => (bs, CEnd (if failing then ScanReadErr else ScanEOF), negb (is_nil bs))
  end.

Definition stream_data (rd : list read_result) : bytes := fst (fst (stream_of 0 rd)).
Definition stream_end (rd : list read_result) : chunk_end := snd (fst (stream_of 0 rd)).
(** the last bytes (at least one) arrive together with the error / [io.EOF] *)
Definition stream_glued (rd : list read_result) : bool := snd (stream_of 0 rd).

(** the whole-input abstraction applied to the delivered bytes [seen], with the
    reading side ending in [e] *)
Definition spec_result (seen : bytes) (e : chunk_end) : list bytes * chunk_end :=
  let '(ls, too_long) := take_lines (raw_lines [] seen) in
  (ls, if too_long then CEnd ScanTooLong else e).

(** the same with ONE exception when [glued]: a final unterminated raw line of
    exactly 65536 bytes is a line, not "too long" (it fills the buffer exactly
    at the moment the error arrives, and the scanner asks the split function
    once more with [atEOF = true] before it would look at the capacity) *)
Fixpoint take_lines_x (glued : bool) (l : list (bytes * bool)) : list bytes * bool :=
  match l with
  | [] => ([], false)
  | (raw, terminated) :: r =>
      if (max_token <=? lengthN raw) && negb (glued && negb terminated && (lengthN raw =? max_token))
      then ([], true)
      else let '(ls, tl) := take_lines_x glued r in (drop_cr raw :: ls, tl)
  end.

Definition spec_result_x (glued : bool) (seen : bytes) (e : chunk_end) : list bytes * chunk_end :=
  let '(ls, too_long) := take_lines_x glued (raw_lines [] seen) in
  (ls, if too_long then CEnd ScanTooLong else e).

(** * Lists, lengths, [index_byte] *)

Lemma lengthN_length {A} (l : list A) : lengthN l = N.of_nat (length l).
Proof.
  induction l as [|x l IH]; [reflexivity|].
  cbn [lengthN length]. rewrite IH. lia.
Qed.

Lemma index_byte_none c s : index_byte c s = None <-> ~ In c s.
Proof.
  induction s as [|x r IH]; cbn [index_byte In].
  - split; [intros _ []|reflexivity].
  - destruct (N.eqb_spec x c) as [E|E].
    + split; [discriminate|]. intros H. exfalso. apply H. now left.
    + destruct (index_byte c r) as [i|]; cbn [option_map].
      * split; [discriminate|]. intros H. exfalso.
        assert (HN : ~ In c r) by (intros HI; apply H; now right).
        apply IH in HN. discriminate.
      * split; [|reflexivity]. intros _ [H|H]; [now apply E|].
        now apply (proj1 IH).
Qed.

Lemma index_byte_some c s i :
  index_byte c s = Some i ->
  s = firstn i s ++ c :: skipn (S i) s /\ ~ In c (firstn i s) /\ (i < length s)%nat.
Proof.
  revert i. induction s as [|x r IH]; intros i H; cbn [index_byte] in H; [discriminate|].
  destruct (N.eqb_spec x c) as [E|E].
  - injection H as <-. subst x. cbn. repeat split; [tauto|lia].
  - destruct (index_byte c r) as [j|] eqn:EJ; cbn [option_map] in H; [|discriminate].
    injection H as <-. destruct (IH j eq_refl) as (H1 & H2 & H3).
    cbn [firstn skipn app In length]. repeat split.
    + cbn [skipn] in H1. now rewrite <- H1.
    + intros [HI|HI]; [now apply E|now apply H2].
    + lia.
Qed.

Lemma index_byte_split c s i :
  index_byte c s = Some i ->
  exists l r, s = l ++ c :: r /\ ~ In c l /\ firstn i s = l /\ skipn (S i) s = r /\ length l = i.
Proof.
  intros H. destruct (index_byte_some _ _ _ H) as (H1 & H2 & H3).
  exists (firstn i s), (skipn (S i) s). repeat split; try assumption.
  apply firstn_length_le. lia.
Qed.

(** * The whole-input abstraction, one raw line at a time *)

Lemma raw_lines_nolf cur p r :
  ~ In c_lf p -> raw_lines cur (p ++ r) = raw_lines (rev p ++ cur) r.
Proof.
  revert cur. induction p as [|x p IH]; intros cur H; [reflexivity|].
  cbn [app raw_lines rev]. destruct (N.eqb_spec x c_lf) as [E|E].
  - exfalso. apply H. left. exact E.
  - rewrite IH by (intros HI; apply H; now right). now rewrite <- app_assoc.
Qed.

Lemma raw_lines_lf cur r : raw_lines cur (c_lf :: r) = (rev cur, true) :: raw_lines [] r.
Proof. reflexivity. Qed.

Lemma raw_lines_line l r :
  ~ In c_lf l -> raw_lines [] (l ++ c_lf :: r) = (l, true) :: raw_lines [] r.
Proof.
  intros H. rewrite raw_lines_nolf by exact H. rewrite raw_lines_lf.
  now rewrite app_nil_r, rev_involutive.
Qed.

Lemma raw_lines_last l :
  ~ In c_lf l -> l <> [] -> raw_lines [] l = [(l, false)].
Proof.
  intros H HN. rewrite <- (app_nil_r l) at 1. rewrite raw_lines_nolf by exact H.
  rewrite app_nil_r. cbn [raw_lines].
  destruct (rev l) as [|y t] eqn:ER.
  - exfalso. apply HN. apply (f_equal (@rev N)) in ER. now rewrite rev_involutive in ER.
  - now rewrite <- ER, rev_involutive.
Qed.

(** a non-empty accumulator is a prefix of the first raw line; an unterminated
    first raw line is everything *)
Lemma raw_lines_head cur r :
  cur <> [] -> exists x t rest, raw_lines cur r = (rev cur ++ x, t) :: rest /\ (t = false -> x = r).
Proof.
  revert cur. induction r as [|c r IH]; intros cur HN.
  - destruct cur as [|y cur]; [contradiction|]. cbn [raw_lines].
    exists [], false, []. now rewrite app_nil_r.
  - cbn [raw_lines]. destruct (c =? c_lf).
    + exists [], true, (raw_lines [] r). rewrite app_nil_r. split; [reflexivity|discriminate].
    + destruct (IH (c :: cur)) as (x & t & rest & E & HT); [discriminate|].
      exists (c :: x), t, rest. rewrite E. cbn [rev]. rewrite <- app_assoc. split; [reflexivity|].
      intros Ht. now rewrite (HT Ht).
Qed.

Lemma take_lines_x_false l : take_lines_x false l = take_lines l.
Proof.
  induction l as [|[raw t] l IH]; [reflexivity|]. cbn [take_lines_x take_lines andb negb].
  rewrite andb_true_r, IH. reflexivity.
Qed.

Lemma spec_result_x_false seen e : spec_result_x false seen e = spec_result seen e.
Proof. unfold spec_result_x, spec_result. now rewrite take_lines_x_false. Qed.

Lemma spec_result_nil g e : spec_result_x g [] e = ([], e).
Proof. reflexivity. Qed.

Lemma spec_result_line g l r e :
  ~ In c_lf l -> lengthN l < max_token ->
  spec_result_x g (l ++ c_lf :: r) e = (drop_cr l :: fst (spec_result_x g r e), snd (spec_result_x g r e)).
Proof.
  intros H HL. unfold spec_result_x. rewrite raw_lines_line by exact H.
  cbn [take_lines_x]. destruct (N.leb_spec max_token (lengthN l)) as [HC|HC]; [lia|].
  cbn [andb]. now destruct (take_lines_x g (raw_lines [] r)) as [ls tl].
Qed.

Lemma spec_result_last g l e :
  ~ In c_lf l -> l <> [] -> lengthN l < max_token \/ (g = true /\ lengthN l = max_token) ->
  spec_result_x g l e = ([drop_cr l], e).
Proof.
  intros H HN HL. unfold spec_result_x. rewrite raw_lines_last by assumption.
  cbn [take_lines_x]. destruct HL as [HL|[-> HL]].
  - now destruct (N.leb_spec max_token (lengthN l)) as [HC|HC]; [lia|].
  - rewrite HL, N.eqb_refl, N.leb_refl. reflexivity.
Qed.

Lemma spec_result_too_long g p r e :
  ~ In c_lf p -> max_token <= lengthN p -> g = false \/ r <> [] \/ max_token < lengthN p ->
  spec_result_x g (p ++ r) e = ([], CEnd ScanTooLong).
Proof.
  intros H HL HG. unfold spec_result_x. rewrite raw_lines_nolf by exact H. rewrite app_nil_r.
  assert (HN : rev p <> []).
  { intros E. apply (f_equal (@length N)) in E. rewrite rev_length in E.
    rewrite lengthN_length in HL. cbn in E. rewrite E in HL. cbv in HL. now apply HL. }
  destruct (raw_lines_head (rev p) r HN) as (x & t & rest & E & HT). rewrite E.
  rewrite rev_involutive. cbn [take_lines_x].
  assert (HLx : max_token <= lengthN (p ++ x)).
  { rewrite lengthN_length, app_length. rewrite lengthN_length in HL. lia. }
  destruct (N.leb_spec max_token (lengthN (p ++ x))) as [HC|HC]; [|lia]. cbn [andb].
  destruct g; [|reflexivity]. destruct t; [reflexivity|]. cbn [andb negb].
  specialize (HT eq_refl). subst x.
  destruct (N.eqb_spec (lengthN (p ++ r)) max_token) as [EQ|NE]; [|reflexivity].
  exfalso. rewrite lengthN_length, app_length in EQ. rewrite lengthN_length in HL.
  destruct HG as [HG|[HG|HG]]; [discriminate| |rewrite lengthN_length in HG; lia].
  destruct r; [contradiction|]. cbn [length] in EQ. lia.
Qed.

(** * One turn of the loop, case by case *)

Lemma scan_loop_token fuel cap start pend err rd i :
  index_byte c_lf pend = Some i ->
  scan_loop (S fuel) cap start pend err rd =
  match scan_loop fuel cap (start + N.of_nat (S i)) (skipn (S i) pend) err rd with
  | Some (ls, e) => Some (drop_cr (firstn i pend) :: ls, e)
  | None => None
  end.
Proof.
  intros H. cbn [scan_loop]. unfold scan_lines. rewrite H.
  destruct pend as [|x pend]; [discriminate|]. cbn [is_nil negb orb andb].
  now rewrite andb_false_r.
Qed.

Lemma scan_loop_drained fuel cap start e rd :
  scan_loop (S fuel) cap start [] (Some e) rd = Some ([], end_of_err e).
Proof. reflexivity. Qed.

Lemma scan_loop_final fuel cap start pend e rd :
  index_byte c_lf pend = None -> pend <> [] ->
  scan_loop (S fuel) cap start pend (Some e) rd =
  match scan_loop fuel cap (start + N.of_nat (length pend)) (skipn (length pend) pend) (Some e) rd with
  | Some (ls, e') => Some (drop_cr pend :: ls, e')
  | None => None
  end.
Proof.
  intros H HN. cbn [scan_loop]. unfold scan_lines. rewrite H.
  destruct pend as [|x pend]; [contradiction|]. now cbn [is_nil negb orb andb].
Qed.

Lemma scan_loop_read fuel cap start pend rd :
  index_byte c_lf pend = None ->
  scan_loop (S fuel) cap start pend None rd =
  match grow cap (shift cap start (lengthN pend)) (lengthN pend) with
  | None => Some ([], CEnd ScanTooLong)
  | Some (cap2, start2) =>
      let '(got, rd', err') := read_loop (N.to_nat (cap2 - (start2 + lengthN pend))) 0 rd in
      scan_loop fuel cap2 start2 (pend ++ got) err' rd'
  end.
Proof.
  intros H. cbn [scan_loop]. unfold scan_lines. rewrite H.
  destruct pend as [|x pend]; cbn [is_nil negb orb andb]; reflexivity.
Qed.

(** * The capacity rule *)

Lemma shift_grow cap start n :
  start + n <= cap -> cap <= max_token ->
  match grow cap (shift cap start n) n with
  | None => max_token <= n
  | Some (cap2, start2) => start2 + n < cap2 /\ cap2 <= max_token
  end.
Proof.
  intros H1 H2. unfold grow, shift.
  change (max_int / 2) with 4611686018427387903. unfold max_token in *.
  unfold start_buf_size.
  destruct ((0 <? start) && ((start + n =? cap) || (cap / 2 <? start))) eqn:ES.
  - destruct (0 + n =? cap) eqn:E1.
    + destruct ((65536 <=? cap) || (4611686018427387903 <? cap)) eqn:E2; [lia|].
      destruct (cap * 2 =? 0) eqn:E3; lia.
    + lia.
  - destruct (start + n =? cap) eqn:E1.
    + destruct ((65536 <=? cap) || (4611686018427387903 <? cap)) eqn:E2; [lia|].
      destruct (cap * 2 =? 0) eqn:E3; lia.
    + lia.
Qed.

(** * The inner read loop *)

Lemma stream_of_chunk k c bs rd :
  stream_of k (RChunk (c :: bs) :: rd) =
  ((c :: bs) ++ stream_data rd, stream_end rd, stream_glued rd).
Proof.
  unfold stream_data, stream_end, stream_glued. cbn [stream_of].
  now destruct (stream_of 0 rd) as [[d e] g].
Qed.

Lemma read_loop_spec free :
  (1 <= free)%nat ->
  forall rd k got rd' err',
  read_loop free k rd = (got, rd', err') ->
  (length got <= free)%nat /\
  match err' with
  | Some e => stream_of k rd = (got, end_of_err e, negb (is_nil got)) /\ (length got <= total_bytes rd)%nat
  | None =>
      got <> [] /\
      stream_of k rd = (got ++ stream_data rd', stream_end rd', stream_glued rd') /\
      (length got + 2 * total_bytes rd' + length rd' + 1 <= 2 * total_bytes rd + length rd)%nat
  end.
Proof.
  intros HF. induction rd as [|x rd IH]; intros k got rd' err' H.
  - cbn [read_loop] in H. injection H as <- <- <-. cbn. repeat split; lia.
  - destruct x as [bs| |bs failing].
    + destruct bs as [|c bs].
      * cbn [read_loop stream_of] in *.
        destruct (max_consecutive_empty_reads <? k + 1).
        -- injection H as <- <- <-. cbn. repeat split; lia.
        -- specialize (IH _ _ _ _ H). destruct IH as [I0 IH]. split; [exact I0|].
           destruct err' as [e|]; [destruct IH as [I1 I2]; split; [exact I1|cbn [total_bytes length]; lia]|].
           destruct IH as (I1 & I2 & I3). repeat split; try assumption.
           cbn [total_bytes length]. lia.
      * cbn [read_loop] in H. injection H as <- <- <-.
        destruct free as [|free]; [lia|].
        rewrite stream_of_chunk. set (l := c :: bs).
        assert (HL : (length (firstn (S free) l) + length (skipn (S free) l) = length l)%nat).
        { rewrite <- (firstn_skipn (S free) l) at 3. now rewrite app_length. }
        split; [apply firstn_le_length|].
        split; [unfold l; cbn [firstn]; discriminate|].
        destruct (skipn (S free) l) as [|y more] eqn:EM.
        -- assert (HFS : firstn (S free) l = l).
           { pose proof (firstn_skipn (S free) l) as HX. now rewrite EM, app_nil_r in HX. }
           rewrite HFS. split; [reflexivity|]. cbn [total_bytes length] in *. lia.
        -- split.
           ++ unfold stream_data, stream_end, stream_glued. rewrite stream_of_chunk. cbn [fst snd].
              rewrite app_assoc, <- EM, firstn_skipn. reflexivity.
           ++ assert (1 <= length (firstn (S free) l))%nat by (unfold l; cbn [firstn length]; lia).
              cbn [total_bytes length] in *. lia.
    + cbn [read_loop stream_of] in *. injection H as <- <- <-. cbn. repeat split; lia.
    + cbn [read_loop] in H. destruct (Nat.leb_spec (length bs) free) as [HB|HB].
      * injection H as <- <- <-. split; [exact HB|]. cbn [stream_of total_bytes].
        split; [now destruct failing|lia].
      * injection H as <- <- <-. split; [apply firstn_le_length|].
        assert (HL : (length (firstn free bs) + length (skipn free bs) = length bs)%nat).
        { rewrite <- (firstn_skipn free bs) at 3. now rewrite app_length. }
        assert (HFL : length (firstn free bs) = free) by (apply firstn_length_le; lia).
        split; [intros E; rewrite E in HFL; cbn in HFL; lia|].
        split.
        -- unfold stream_data, stream_end, stream_glued. cbn [stream_of fst snd].
           rewrite firstn_skipn.
           destruct bs as [|c bs]; [cbn in HB; lia|].
           destruct (skipn free (c :: bs)) as [|y more] eqn:EM; [cbn [length] in *; lia|reflexivity].
        -- cbn [total_bytes length]. lia.
Qed.

Lemma stream_glued_data k rd : snd (stream_of k rd) = true -> fst (fst (stream_of k rd)) <> [].
Proof.
  revert k. induction rd as [|x rd IH]; intros k H; [discriminate H|].
  destruct x as [bs| |bs failing].
  - destruct bs as [|c bs].
    + cbn [stream_of] in *. destruct (max_consecutive_empty_reads <? k + 1); [discriminate H|].
      now apply IH.
    + rewrite stream_of_chunk. discriminate.
  - discriminate H.
  - cbn [stream_of fst snd] in *. now destruct bs.
Qed.

(** * After the reader has stopped: the buffer is drained with [atEOF = true] *)

Lemma scan_loop_drain g e rd fuel :
  forall cap start pend,
  lengthN pend < max_token \/ (g = true /\ lengthN pend <= max_token) ->
  (length pend + 1 <= fuel)%nat ->
  scan_loop fuel cap start pend (Some e) rd = Some (spec_result_x g pend (end_of_err e)).
Proof.
  induction fuel as [|fuel IH]; intros cap start pend HL HF; [lia|].
  destruct (index_byte c_lf pend) as [i|] eqn:EI.
  - rewrite (scan_loop_token _ _ _ _ _ _ _ EI).
    destruct (index_byte_split _ _ _ EI) as (l & r & H1 & H2 & -> & -> & H3).
    subst pend. rewrite lengthN_length, app_length in HL. rewrite app_length in HF.
    cbn [length] in HL, HF. unfold max_token in *.
    rewrite IH.
    + rewrite spec_result_line; [|exact H2|].
      * now destruct (spec_result_x g r (end_of_err e)).
      * rewrite lengthN_length. unfold max_token. lia.
    + rewrite lengthN_length. unfold max_token. lia.
    + lia.
  - destruct pend as [|x pend].
    + now rewrite scan_loop_drained.
    + rewrite scan_loop_final by (assumption || discriminate).
      rewrite skipn_all. destruct fuel as [|fuel]; [cbn [length] in HF; lia|].
      rewrite scan_loop_drained.
      rewrite spec_result_last; [reflexivity| |discriminate|].
      * now apply index_byte_none.
      * destruct HL as [HL|[-> HL]]; [now left|]. apply N.le_lteq in HL. destruct HL; [now left|now right].
Qed.

(** * The main invariant

    From any reachable state of the scanner that has not seen a reader error
    yet, the rest of the scan delivers exactly what the whole-input abstraction
    says about "the unconsumed bytes of the buffer followed by what the reader
    still delivers". *)
Lemma scan_loop_spec fuel :
  forall cap start pend rd,
  start + lengthN pend <= cap -> cap <= max_token ->
  (length pend + 2 * total_bytes rd + length rd + 2 <= fuel)%nat ->
  scan_loop fuel cap start pend None rd =
  Some (spec_result_x (stream_glued rd) (pend ++ stream_data rd) (stream_end rd)).
Proof.
  induction fuel as [|fuel IH]; intros cap start pend rd HI HC HF; [lia|].
  destruct (index_byte c_lf pend) as [i|] eqn:EI.
  - (* a complete line is buffered: deliver it *)
    rewrite (scan_loop_token _ _ _ _ _ _ _ EI).
    destruct (index_byte_split _ _ _ EI) as (l & r & H1 & H2 & -> & -> & H3).
    subst pend. rewrite lengthN_length, app_length in HI. rewrite app_length in HF.
    cbn [length] in HI, HF.
    rewrite IH.
    + rewrite <- app_assoc. cbn [app].
      rewrite spec_result_line; [|exact H2|].
      * now destruct (spec_result_x (stream_glued rd) (r ++ stream_data rd) (stream_end rd)).
      * rewrite lengthN_length. unfold max_token in *. lia.
    + rewrite lengthN_length. lia.
    + exact HC.
    + lia.
  - (* no line yet: shift, grow or give up, read *)
    rewrite scan_loop_read by exact EI.
    pose proof (shift_grow cap start (lengthN pend) HI HC) as HG.
    destruct (grow cap (shift cap start (lengthN pend)) (lengthN pend)) as [[cap2 start2]|].
    + destruct HG as [HG1 HG2].
      destruct (read_loop (N.to_nat (cap2 - (start2 + lengthN pend))) 0 rd)
        as [[got rd'] err'] eqn:ER.
      apply read_loop_spec in ER; [|lia]. destruct ER as [R0 ER].
      destruct err' as [e|].
      * destruct ER as [ER RB]. unfold stream_glued, stream_data, stream_end. rewrite ER. cbn [fst snd].
        apply scan_loop_drain; [|rewrite app_length; lia].
        rewrite lengthN_length, app_length. rewrite lengthN_length in HG1, R0. unfold max_token in *.
        destruct got as [|c got]; [left; cbn [length]; lia|right]. split; [reflexivity|lia].
      * destruct ER as (R1 & R3 & R5).
        rewrite IH.
        -- unfold stream_glued at 2. unfold stream_data at 2. unfold stream_end at 2. rewrite R3.
           cbn [fst snd]. now rewrite app_assoc.
        -- rewrite lengthN_length, app_length in *. lia.
        -- exact HG2.
        -- rewrite app_length. lia.
    + rewrite spec_result_too_long; [reflexivity| |exact HG|].
      * now apply index_byte_none.
      * destruct (stream_glued rd) eqn:EG; [|now left]. right. left.
        now apply stream_glued_data.
Qed.

(** * The theorem: for every list of read results *)

Theorem scan_loop_enough_fuel rd :
  scan_loop (fuel_of rd) 0 0 [] None rd =
  Some (spec_result_x (stream_glued rd) (stream_data rd) (stream_end rd)).
Proof.
  rewrite scan_loop_spec; [reflexivity|cbn; lia|cbv; discriminate|].
  unfold fuel_of. cbn [length]. lia.
Qed.

Theorem scan_chunks_full_spec_x rd :
  scan_chunks_full rd = spec_result_x (stream_glued rd) (stream_data rd) (stream_end rd).
Proof. unfold scan_chunks_full. now rewrite scan_loop_enough_fuel. Qed.

(** the reader never returns data together with its error (true of [os.File]
    and of every list without [RLast]): the whole-input abstraction, no exception *)
Theorem scan_chunks_full_spec rd :
  stream_glued rd = false ->
  scan_chunks_full rd = spec_result (stream_data rd) (stream_end rd).
Proof. intros H. now rewrite scan_chunks_full_spec_x, H, spec_result_x_false. Qed.

Definition is_rlast (r : read_result) : bool := match r with RLast _ _ => true | _ => false end.

Lemma no_rlast_not_glued rd : forallb (fun r => negb (is_rlast r)) rd = true -> forall k, snd (stream_of k rd) = false.
Proof.
  induction rd as [|x rd IH]; intros H k; [reflexivity|].
  cbn [forallb] in H. apply andb_true_iff in H. destruct H as [Hx H].
  destruct x as [bs| |bs failing]; [|reflexivity|discriminate Hx].
  destruct bs as [|c bs].
  - cbn [stream_of]. destruct (max_consecutive_empty_reads <? k + 1); [reflexivity|]. now apply IH.
  - rewrite stream_of_chunk. cbn [snd]. now apply IH.
Qed.

(** in particular for every list made of [RChunk] and [RErr] only *)
Theorem scan_chunks_full_spec_plain rd :
  forallb (fun r => negb (is_rlast r)) rd = true ->
  scan_chunks_full rd = spec_result (stream_data rd) (stream_end rd).
Proof. intros H. apply scan_chunks_full_spec. now apply no_rlast_not_glued. Qed.
