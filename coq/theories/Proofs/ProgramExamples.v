(** WP25: non-vacuity.  One concrete world ([ZNum], computed with [vm_compute]): a log of four days
    (the last one outside the period [--end 2021/03/05]) with a repeated food (soup 2 + soup 1), recipe
    foods (soup, bread, the nested recipe menu, the empty recipe air), an unknown food (mystery), and an
    element with contributions of both signs (salt: +5 logged directly, -2 per soup); all map-order
    oracles are [rev] (not the identity).  The world meets every "healthy" hypothesis of the
    command-level theorems, each theorem is instantiated on it, and the bytes it states are the
    literal expected text. *)
From Coq Require Import Permutation.
From HP Require Import Base.Bytes Base.Utf8 Base.Num Model.Scanner Model.Parser Model.Elements Model.Resolver
  Model.Dates Model.Tree Model.Writer Model.Reporters Model.Cli.
From HP Require Import Spec.RegisterSpec Spec.Agree2Spec Spec.AgreeSpec Spec.ProgramSpec.
From HP Require Import Proofs.AgreeMiscStats Proofs.AgreeTotalsExamples
  Proofs.ProgramBase Proofs.ProgramRegister Proofs.ProgramTotals Proofs.ProgramAgree.

Definition x_nl : bytes := [c_lf].
Definition x_log : bytes :=
  b "2021/03/01" ++ x_nl ++ b "  soup 2" ++ x_nl ++ b "  bread 1" ++ x_nl ++ b "  soup 1" ++ x_nl ++ b "  mystery 4" ++ x_nl ++
  b "2021/03/02" ++ x_nl ++ b "  salt 5" ++ x_nl ++ b "  menu 1" ++ x_nl ++
  b "2021/03/03" ++ x_nl ++ b "  air 1" ++ x_nl ++
  b "2021/03/09" ++ x_nl ++ b "  bread 7" ++ x_nl.
Definition x_book : bytes :=
  b "soup" ++ x_nl ++ b "  kcal 50" ++ x_nl ++ b "  salt -2" ++ x_nl ++
  b "bread" ++ x_nl ++ b "  kcal 30" ++ x_nl ++
  b "menu" ++ x_nl ++ b "  soup 1" ++ x_nl ++ b "  bread 2" ++ x_nl ++
  b "air" ++ x_nl.
Definition x_world : world :=
  {| w_fs := [(b "log.yaml", FFile x_log); (b "food.yaml", FFile x_book)];
     w_default_config := b "/root/.hranoprovod/config"; w_tz := 0%Z; w_clock := time_of_civil (2021, 3, 10)%Z;
     w_or := {| o_resolve := fun l => rev l; o_day := fun _ l => rev l; o_flush := fun l => rev l |};
     w_sink := None; w_read_fault := [] |}.
(** [x_inv cmd x old tpl nt to csv]: sub-command, [-s x], [--use-old-reg-reporter], template name,
    [--no-totals], [--totals-only], [--csv]; always [--today 2021/03/10 --end 2021/03/05 --no-color] *)
Definition x_inv (cmd : command) (x : bytes) (old : bool) (tpl : option bytes) (nt to csv : bool) : invocation :=
  {| i_f_db := None; i_e_db := None; i_f_log := None; i_e_log := None; i_f_fmt := None; i_e_fmt := None;
     i_f_depth := None; i_e_depth := None; i_f_today := Some (b "2021/03/10"); i_f_config := None; i_e_config := None;
     i_no_database := false; i_g_begin := None; i_g_end := Some (b "2021/03/05"); i_l_begin := None; i_l_end := None;
     i_g_no_color := true; i_l_no_color := false; i_single_food := []; i_single_element := x;
     i_group_food := false; i_csv := csv; i_no_totals := nt; i_totals_only := to;
     i_shorten := false; i_old := old; i_template := tpl; i_collapse := false; i_collapse_last := false;
     i_desc := false; i_silent := false; i_cmd := cmd |}.

(** the resolved book (the nested recipe menu = soup + 2 bread is flattened) *)
Definition x_d : list (bytes * list (bytes * Z)) :=
  [(b "soup", [(b "kcal", 50%Z); (b "salt", (-2)%Z)]);
   (b "bread", [(b "kcal", 30%Z)]);
   (b "menu", [(b "kcal", 110%Z); (b "salt", (-2)%Z)]);
   (b "air", [])].

(** the records of the period: RAW entries (soup twice on the first day), three of the four days *)
Definition x_recs : list (record ZNum) :=
  [ (time_of_civil (2021, 3, 1)%Z, [(b "soup", 2%Z); (b "bread", 1%Z); (b "soup", 1%Z); (b "mystery", 4%Z)], None);
    (time_of_civil (2021, 3, 2)%Z, [(b "salt", 5%Z); (b "menu", 1%Z)], None);
    (time_of_civil (2021, 3, 3)%Z, [(b "air", 1%Z)], None) ].

Lemma x_no_error_log : no_parse_error ZNum (events ZNum x_log).
Proof. apply no_err_b_sound. vm_compute. reflexivity. Qed.

Lemma x_rev_oracle : oracle (fun l : list bytes => rev l).
Proof. intro l. apply Permutation_sym, Permutation_rev. Qed.

(** every healthy hypothesis holds, whatever the sub-command and the presentation switches *)
Example x_healthy : forall cmd x old tpl nt to csv, exists op odb,
  load x_world (x_inv cmd x old tpl nt to csv) = inr op
  /\ w_sink x_world = None
  /\ open_file x_world (op_db op) = Some odb
  /\ resolved_db ZNum x_world op odb = inr x_d
  /\ open_file x_world (op_log op) = Some (OData x_log NoFault)
  /\ snd (scan x_log NoFault) = ScanEOF
  /\ no_parse_error ZNum (events ZNum x_log)
  /\ all_dated ZNum (rc_date (op_rc op)) (log_records ZNum x_log)
  /\ (forall j : nat, oracle (o_day (w_or x_world) j))
  /\ oracle (o_flush (w_or x_world))
  /\ command_records ZNum op x_log = x_recs.
Proof.
  intros cmd x old tpl nt to csv. eexists. eexists.
  split; [vm_compute; reflexivity|].
  split; [reflexivity|]. split; [vm_compute; reflexivity|]. split; [vm_compute; reflexivity|].
  split; [vm_compute; reflexivity|]. split; [vm_compute; reflexivity|].
  split; [exact x_no_error_log|].
  split; [vm_compute; repeat constructor; discriminate|].
  split; [intro j; exact x_rev_oracle|]. split; [exact x_rev_oracle|].
  vm_compute. reflexivity.
Qed.

(** * the expected texts, literally (TAB characters inside the register's lines) *)
Definition x_text_reg_default : bytes :=
  b "2021/03/01
	soup                        :         3
		                kcal        150
		                salt         -6
	bread                       :         1
		                kcal         30
	mystery                     :         4
		             mystery          4
	-- TOTAL  ----------------------------------------------------
		                kcal        180          0 =       180
		             mystery          4          0 =         4
		                salt          0         -6 =        -6
2021/03/02
	salt                        :         5
		                salt          5
	menu                        :         1
		                kcal        110
		                salt         -2
	-- TOTAL  ----------------------------------------------------
		                kcal        110          0 =       110
		                salt          5         -2 =         3
2021/03/03
	air                         :         1
	-- TOTAL  ----------------------------------------------------
".

Definition x_text_reg_left : bytes :=
  b "2021/03/01
           3  soup
         150    kcal
          -6    salt
           1  bread
          30    kcal
           4  mystery
           4    mystery
------------------------------------------------------- TOTAL --
         180          0 =        180  kcal
           4          0 =          4  mystery
           0         -6 =         -6  salt
2021/03/02
           5  salt
           5    salt
           1  menu
         110    kcal
          -2    salt
------------------------------------------------------- TOTAL --
         110          0 =        110  kcal
           5         -2 =          3  salt
2021/03/03
           1  air
------------------------------------------------------- TOTAL --
".

Definition x_text_reg_old : bytes :=
  b "2021/03/01
	soup                        :         3
		                kcal        150
		                salt         -6
	bread                       :         1
		                kcal         30
	mystery                     :         4
		             mystery          4
	-- TOTAL  ----------------------------------------------------
		                kcal        180          0 =       180
		             mystery          4          0 =         4
		                salt          0         -6 =        -6
2021/03/02
	salt                        :         5
		                salt          5
	menu                        :         1
		                kcal        110
		                salt         -2
	-- TOTAL  ----------------------------------------------------
		                kcal        110          0 =       110
		                salt          5         -2 =         3
2021/03/03
	air                         :         1
".

Definition x_text_reg_no_totals : bytes :=
  b "2021/03/01
	soup                        :         3
		                kcal        150
		                salt         -6
	bread                       :         1
		                kcal         30
	mystery                     :         4
		             mystery          4
2021/03/02
	salt                        :         5
		                salt          5
	menu                        :         1
		                kcal        110
		                salt         -2
2021/03/03
	air                         :         1
".

Definition x_text_reg_totals_only : bytes :=
  b "2021/03/01
	-- TOTAL  ----------------------------------------------------
		                kcal        180          0 =       180
		             mystery          4          0 =         4
		                salt          0         -6 =        -6
2021/03/02
	-- TOTAL  ----------------------------------------------------
		                kcal        110          0 =       110
		                salt          5         -2 =         3
2021/03/03
	-- TOTAL  ----------------------------------------------------
".

Definition x_text_totals : bytes :=
  b "    positive      negative           sum  element
         290             0           290  kcal
           4             0             4  mystery
           5            -8            -3  salt
".

Definition x_text_single : bytes :=
  b "2021/03/01                 salt          0          6 =        -6
2021/03/02                 salt          5          2 =         3
".

Definition x_text_single_csv : bytes :=
  b "2021/03/01;""salt"";0;6;-6
2021/03/02;""salt"";5;2;3
".

Definition x_text_bal : bytes :=
  b "        -2 | menu
         5 | salt
        -6 | soup
-----------|
        -3 | salt
".


(** * the commands print these texts (computed on the model) *)
Example x_outputs :
  run ZNum x_world (x_inv CReg [] false None false false false) = {| out_stdout := x_text_reg_default; out_status := Ok |}
  /\ run ZNum x_world (x_inv CReg [] false (Some (b "left-aligned")) false false false)
     = {| out_stdout := x_text_reg_left; out_status := Ok |}
  /\ run ZNum x_world (x_inv CReg [] true None false false false) = {| out_stdout := x_text_reg_old; out_status := Ok |}
  /\ run ZNum x_world (x_inv CReg [] false None true false false) = {| out_stdout := x_text_reg_no_totals; out_status := Ok |}
  /\ run ZNum x_world (x_inv CReg [] false None false true false) = {| out_stdout := x_text_reg_totals_only; out_status := Ok |}
  /\ run ZNum x_world (x_inv CTotals [] false None false false false) = {| out_stdout := x_text_totals; out_status := Ok |}
  /\ run ZNum x_world (x_inv CReg (b "salt") false None false false false) = {| out_stdout := x_text_single; out_status := Ok |}
  /\ run ZNum x_world (x_inv CReg (b "salt") false None false false true) = {| out_stdout := x_text_single_csv; out_status := Ok |}
  /\ run ZNum x_world (x_inv CBal (b "salt") false None false false false) = {| out_stdout := x_text_bal; out_status := Ok |}.
Proof. vm_compute. repeat split; reflexivity. Qed.

(** * the theorems, instantiated on this world, state exactly these texts *)

(** A.default *)
Example x_register_program_default : exists op,
  load x_world (x_inv CReg [] false None false false false) = inr op
  /\ run ZNum x_world (x_inv CReg [] false None false false false)
     = {| out_stdout := concat (map (fun r => render_default ZNum (op_rc op)
                                               (day_item ZNum (op_rc op) x_d (rec_time ZNum r) (rec_entries ZNum r))) x_recs);
          out_status := Ok |}
  /\ concat (map (fun r => render_default ZNum (op_rc op)
                             (day_item ZNum (op_rc op) x_d (rec_time ZNum r) (rec_entries ZNum r))) x_recs)
     = x_text_reg_default.
Proof.
  destruct (x_healthy CReg [] false None false false false)
    as (op & odb & Hload & Hsink & Hodb & Hres & Hlog & Hfin & Hne & Hd & Hday & Hfl & Hrecs).
  exists op. split; [exact Hload|]. split.
  - rewrite <- Hrecs.
    apply (register_program_default ZNum x_world _ op odb x_d x_log Hload Hsink Hodb Hres Hlog Hfin Hne Hd Hday);
      try reflexivity. discriminate.
  - vm_compute in Hload. injection Hload as <-. vm_compute. reflexivity.
Qed.

(** the reference rows / totals of the first day: the repeated food once with 2 + 1, the recipe's
    elements times the quantity, the unknown food as itself; totals sorted by name, salt negative *)
Example x_day1_spec :
  day_rows ZNum x_d (rec_entries ZNum (nth 0 x_recs (zero_time, [], None)))
  = [ (b "soup", 3%Z, [(b "kcal", 150%Z); (b "salt", (-6)%Z)]);
      (b "bread", 1%Z, [(b "kcal", 30%Z)]);
      (b "mystery", 4%Z, [(b "mystery", 4%Z)]) ]
  /\ register_day_totals_of ZNum x_d x_recs
     = [ [ (b "kcal", 180%Z, 0%Z, 180%Z); (b "mystery", 4%Z, 0%Z, 4%Z); (b "salt", 0%Z, (-6)%Z, (-6)%Z) ];
         [ (b "kcal", 110%Z, 0%Z, 110%Z); (b "salt", 5%Z, (-2)%Z, 3%Z) ];
         [] ].
Proof. vm_compute. split; reflexivity. Qed.

(** A.left, A.old, A.flags *)
Example x_register_program_left : exists op,
  load x_world (x_inv CReg [] false (Some (b "left-aligned")) false false false) = inr op
  /\ run ZNum x_world (x_inv CReg [] false (Some (b "left-aligned")) false false false)
     = {| out_stdout := concat (map (fun r => render_left ZNum (op_rc op)
                                               (day_item ZNum (op_rc op) x_d (rec_time ZNum r) (rec_entries ZNum r))) x_recs);
          out_status := Ok |}
  /\ concat (map (fun r => render_left ZNum (op_rc op)
                             (day_item ZNum (op_rc op) x_d (rec_time ZNum r) (rec_entries ZNum r))) x_recs)
     = x_text_reg_left.
Proof.
  destruct (x_healthy CReg [] false (Some (b "left-aligned")) false false false)
    as (op & odb & Hload & Hsink & Hodb & Hres & Hlog & Hfin & Hne & Hd & Hday & Hfl & Hrecs).
  exists op. split; [exact Hload|]. split.
  - rewrite <- Hrecs.
    apply (register_program_left ZNum x_world _ op odb x_d x_log Hload Hsink Hodb Hres Hlog Hfin Hne Hd Hday);
      reflexivity.
  - vm_compute in Hload. injection Hload as <-. vm_compute. reflexivity.
Qed.

Example x_register_program_old : exists op,
  load x_world (x_inv CReg [] true None false false false) = inr op
  /\ run ZNum x_world (x_inv CReg [] true None false false false)
     = {| out_stdout := concat (map (fun r => chunks_text (old_day_chunks ZNum (op_rc op) x_d (rec_time ZNum r) (rec_entries ZNum r)))
                                    x_recs);
          out_status := Ok |}
  /\ concat (map (fun r => chunks_text (old_day_chunks ZNum (op_rc op) x_d (rec_time ZNum r) (rec_entries ZNum r))) x_recs)
     = x_text_reg_old.
Proof.
  destruct (x_healthy CReg [] true None false false false)
    as (op & odb & Hload & Hsink & Hodb & Hres & Hlog & Hfin & Hne & Hd & Hday & Hfl & Hrecs).
  exists op. split; [exact Hload|]. split.
  - rewrite <- Hrecs.
    apply (register_program_old ZNum x_world _ op odb x_d x_log Hload Hsink Hodb Hres Hlog Hfin Hne Hd Hday);
      reflexivity.
  - vm_compute in Hload. injection Hload as <-. vm_compute. reflexivity.
Qed.

(** the old reporter leaves out the TOTAL header of the day without contributions (2021/03/03) *)
Example x_old_differs : x_text_reg_old <> x_text_reg_default
  /\ x_text_reg_default = x_text_reg_old ++ total_header_default ++ [c_lf].
Proof. split; [vm_compute; discriminate | vm_compute; reflexivity]. Qed.

(** B: report totals, reg -s salt, reg -s salt --csv, bal -s salt *)
Example x_totals_program :
  run ZNum x_world (x_inv CTotals [] false None false false false)
  = {| out_stdout := totals_text ZNum (totals_rows_of ZNum x_d x_recs); out_status := Ok |}
  /\ totals_rows_of ZNum x_d x_recs
     = [ (b "kcal", 290%Z, 0%Z, 290%Z); (b "mystery", 4%Z, 0%Z, 4%Z); (b "salt", 5%Z, (-8)%Z, (-3)%Z) ]
  /\ totals_text ZNum (totals_rows_of ZNum x_d x_recs) = x_text_totals.
Proof.
  destruct (x_healthy CTotals [] false None false false false)
    as (op & odb & Hload & Hsink & Hodb & Hres & Hlog & Hfin & Hne & Hd & Hday & Hfl & Hrecs).
  split; [|split; vm_compute; reflexivity].
  rewrite <- Hrecs.
  apply (totals_program ZNum x_world _ op odb x_d x_log Hload Hsink Hodb Hres Hlog Hfin Hne Hd); [reflexivity | exact Hfl].
Qed.

Example x_reg_single_program : forall csv, exists op,
  load x_world (x_inv CReg (b "salt") false None false false csv) = inr op
  /\ run ZNum x_world (x_inv CReg (b "salt") false None false false csv)
     = {| out_stdout := concat (map (single_row_text ZNum csv (rc_date (op_rc op)) (b "salt"))
                                    (single_rows_of ZNum x_d (b "salt") x_recs));
          out_status := Ok |}
  /\ single_rows_of ZNum x_d (b "salt") x_recs
     = [ (time_of_civil (2021, 3, 1)%Z, 0%Z, (-6)%Z); (time_of_civil (2021, 3, 2)%Z, 5%Z, (-2)%Z) ]
  /\ concat (map (single_row_text ZNum csv (rc_date (op_rc op)) (b "salt")) (single_rows_of ZNum x_d (b "salt") x_recs))
     = if csv then x_text_single_csv else x_text_single.
Proof.
  intro csv.
  destruct (x_healthy CReg (b "salt") false None false false csv)
    as (op & odb & Hload & Hsink & Hodb & Hres & Hlog & Hfin & Hne & Hd & Hday & Hfl & Hrecs).
  exists op. split; [exact Hload|]. split; [|split].
  - rewrite <- Hrecs.
    apply (reg_single_program ZNum x_world _ op odb x_d x_log Hload Hsink Hodb Hres Hlog Hfin Hne Hd);
      try reflexivity. discriminate.
  - vm_compute. reflexivity.
  - vm_compute in Hload. injection Hload as <-. destruct csv; vm_compute; reflexivity.
Qed.

Example x_bal_single_program :
  run ZNum x_world (x_inv CBal (b "salt") false None false false false)
  = {| out_stdout := concat (map (render_row ZNum)
                                 (balance_rows ZNum (fun l => rev l) false false (bal_single_tree ZNum x_d (b "salt") x_recs)))
                     ++ bal_single_footer_text ZNum (b "salt") (bal_single_total_of ZNum x_d (b "salt") x_recs);
       out_status := Ok |}
  /\ bal_single_total_of ZNum x_d (b "salt") x_recs = (-3)%Z
  /\ concat (map (render_row ZNum)
                 (balance_rows ZNum (fun l => rev l) false false (bal_single_tree ZNum x_d (b "salt") x_recs)))
     ++ bal_single_footer_text ZNum (b "salt") (bal_single_total_of ZNum x_d (b "salt") x_recs)
     = x_text_bal.
Proof.
  destruct (x_healthy CBal (b "salt") false None false false false)
    as (op & odb & Hload & Hsink & Hodb & Hres & Hlog & Hfin & Hne & Hd & Hday & Hfl & Hrecs).
  split; [|split; vm_compute; reflexivity].
  rewrite <- Hrecs.
  apply (bal_single_program ZNum x_world _ op odb x_d x_log Hload Hsink Hodb Hres Hlog Hfin Hne Hd);
    try reflexivity. discriminate.
Qed.

(** the relations, on the numbers above: 5 = 0 + 5 + 0, -8 = -6 + -2 + 0 (register days, the day without
    salt counts zero); = the two rows of [reg -s salt]; grand total -3 = the sum column of the salt row *)
Example x_totals_vs_register :
  row_of ZNum (b "salt") (totals_rows_of ZNum x_d x_recs) = Some (5%Z, (-8)%Z)
  /\ map (fun rows => row_of ZNum (b "salt") rows) (register_day_totals_of ZNum x_d x_recs)
     = [Some (0%Z, (-6)%Z); Some (5%Z, (-2)%Z); None]
  /\ row_of ZNum (b "salt") (totals_rows_of ZNum x_d x_recs)
     = Some (sum ZNum (map (fun rows => fst_or_zero ZNum (row_of ZNum (b "salt") rows)) (register_day_totals_of ZNum x_d x_recs)),
             sum ZNum (map (fun rows => snd_or_zero ZNum (row_of ZNum (b "salt") rows)) (register_day_totals_of ZNum x_d x_recs))).
Proof.
  split; [vm_compute; reflexivity|]. split; [vm_compute; reflexivity|].
  rewrite (totals_vs_register ZNum ZNum_AddMonoid x_d x_recs (b "salt")). vm_compute. reflexivity.
Qed.

Example x_totals_vs_single :
  row_of ZNum (b "salt") (totals_rows_of ZNum x_d x_recs)
  = Some (sum ZNum (map (sr_pos ZNum) (single_rows_of ZNum x_d (b "salt") x_recs)),
          sum ZNum (map (sr_neg ZNum) (single_rows_of ZNum x_d (b "salt") x_recs))).
Proof. rewrite (totals_vs_single ZNum ZNum_AddMonoid x_d x_recs (b "salt")). vm_compute. reflexivity. Qed.

Example x_bal_single_vs_totals :
  row_total_of ZNum (b "salt") (totals_rows_of ZNum x_d x_recs) = Some (-3)%Z
  /\ bal_single_total_of ZNum x_d (b "salt") x_recs = (-3)%Z.
Proof.
  split; [vm_compute; reflexivity|].
  rewrite (bal_single_vs_totals ZNum ZNum_AddMonoid x_d x_recs (b "salt")). vm_compute. reflexivity.
Qed.

(** * a log in the documented format with YAML dashes, quotes, CRLF, a comment, a note, no final
    newline ([ParserExamples.ex_file]): [register_program_default_documented] applies *)
From HP Require Import Model.Syntax Proofs.ParserScan Proofs.ParserCorollaries Proofs.ParserExamples Proofs.ProgramDocumented.

Definition y_book : bytes := b "apple pie" ++ x_nl ++ b "  kcal 3" ++ x_nl ++ b "  fat 1" ++ x_nl.
Definition y_world : world :=
  {| w_fs := [(b "log.yaml", FFile (render ex_file)); (b "food.yaml", FFile y_book)];
     w_default_config := b "/root/.hranoprovod/config"; w_tz := 0%Z; w_clock := time_of_civil (2021, 3, 10)%Z;
     w_or := {| o_resolve := fun l => rev l; o_day := fun _ l => rev l; o_flush := fun l => rev l |};
     w_sink := None; w_read_fault := [] |}.
Definition y_text : bytes :=
  b "2021/01/24
	apple pie                   :       150
		                 fat        150
		                kcal        450
	milk                        :        -2
		                milk         -2
	-- TOTAL  ----------------------------------------------------
		                 fat        150          0 =       150
		                kcal        450          0 =       450
		                milk          0         -2 =        -2
2021/01/25
	bread                       :         3
		               bread          3
	-- TOTAL  ----------------------------------------------------
		               bread          3          0 =         3
".

Example y_no_bad : no_bad_items ex_file.
Proof. vm_compute. reflexivity. Qed.

Example y_register_documented :
  run ZNum y_world (x_inv CReg [] false None false false false) = {| out_stdout := y_text; out_status := Ok |}.
Proof.
  assert (H : exists op odb d,
             load y_world (x_inv CReg [] false None false false false) = inr op
             /\ open_file y_world (op_db op) = Some odb /\ resolved_db ZNum y_world op odb = inr d
             /\ open_file y_world (op_log op) = Some (OData (render ex_file) NoFault)
             /\ all_dated ZNum (rc_date (op_rc op)) (Agree2Spec.nodes_of ZNum (expected_events ZNum ex_file))
             /\ concat (map (fun r => render_default ZNum (op_rc op)
                                        (day_item ZNum (op_rc op) d (rec_time ZNum r) (rec_entries ZNum r)))
                            (period_records ZNum (rc_date (op_rc op)) (op_begin op) (op_end op)
                                            (Agree2Spec.nodes_of ZNum (expected_events ZNum ex_file))))
                = y_text).
  { eexists. eexists. eexists.
    split; [vm_compute; reflexivity|]. split; [vm_compute; reflexivity|]. split; [vm_compute; reflexivity|].
    split; [vm_compute; reflexivity|]. split; [vm_compute; repeat constructor; discriminate|].
    vm_compute. reflexivity. }
  destruct H as (op & odb & d & Hload & Hodb & Hres & Hlog & Hd & Htxt).
  rewrite (register_program_default_documented ZNum y_world _ op odb d ex_file Hload eq_refl Hodb Hres Hlog
             ex_wf ex_short y_no_bad Hd (fun _ => x_rev_oracle) eq_refl eq_refl eq_refl eq_refl).
  - cbv zeta. rewrite Htxt. reflexivity.
  - discriminate.
Qed.

(** * a malformed line in the log (line 5, "salt five"): the day before it is printed, nothing after,
    and the command fails with that line's message ([register_program_parse_error]) *)
From HP Require Import Proofs.MalformedBase Proofs.MalformedLog Proofs.ProgramFailure.

Definition z_log : bytes :=
  b "2021/03/01" ++ x_nl ++ b "  soup 2" ++ x_nl ++ b "  bread 1" ++ x_nl ++
  b "2021/03/02" ++ x_nl ++ b "  salt five" ++ x_nl ++ b "  menu 1" ++ x_nl ++
  b "2021/03/03" ++ x_nl ++ b "  air 1" ++ x_nl.
Definition z_world : world :=
  {| w_fs := [(b "log.yaml", FFile z_log); (b "food.yaml", FFile x_book)];
     w_default_config := b "/root/.hranoprovod/config"; w_tz := 0%Z; w_clock := time_of_civil (2021, 3, 10)%Z;
     w_or := {| o_resolve := fun l => rev l; o_day := fun _ l => rev l; o_flush := fun l => rev l |};
     w_sink := None; w_read_fault := [] |}.
Definition z_text : bytes :=
  b "2021/03/01
	soup                        :         2
		                kcal        100
		                salt         -4
	bread                       :         1
		                kcal         30
	-- TOTAL  ----------------------------------------------------
		                kcal        130          0 =       130
		                salt          0         -4 =        -4
".
Definition z_first : pnode ZNum :=
  @Build_pnode ZNum (b "2021/03/01") [(b "soup", 2%Z); (b "bread", 1%Z)] None.
Definition z_err : perr := Conversion (b "five") 5%N (b "  salt five").

Example z_register_parse_error :
  run ZNum z_world (x_inv CReg [] false None false false false)
  = {| out_stdout := z_text;
       out_status := Failed (EParse (b "error converting ""five"" to float on line 5 ""  salt five"".")) |}.
Proof.
  assert (H : exists op odb,
             load z_world (x_inv CReg [] false None false false false) = inr op
             /\ open_file z_world (op_db op) = Some odb /\ resolved_db ZNum z_world op odb = inr x_d
             /\ open_file z_world (op_log op) = Some (OData z_log NoFault)
             /\ Forall (dated ZNum (rc_date (op_rc op))) (MalformedBase.nodes_of ZNum [ENode z_first])
             /\ register_text ZNum (op_rc op) x_d
                  (period_records ZNum (rc_date (op_rc op)) (op_begin op) (op_end op) (Agree2Spec.nodes_of ZNum [ENode z_first]))
                = z_text).
  { eexists. eexists.
    split; [vm_compute; reflexivity|]. split; [vm_compute; reflexivity|]. split; [vm_compute; reflexivity|].
    split; [vm_compute; reflexivity|]. split; [vm_compute; repeat constructor; discriminate|].
    vm_compute. reflexivity. }
  destruct H as (op & odb & Hload & Hodb & Hres & Hlog & Hd & Htxt).
  assert (Hev : events ZNum z_log = [ENode z_first] ++ EErr z_err :: skipn 2 (events ZNum z_log))
    by (vm_compute; reflexivity).
  rewrite (register_program_parse_error ZNum z_world _ op odb x_d z_log Hload eq_refl Hodb Hres Hlog
             (fun _ => x_rev_oracle) eq_refl eq_refl eq_refl eq_refl [ENode z_first] z_err _ Hev eq_refl Hd).
  rewrite Htxt. reflexivity.
Qed.
