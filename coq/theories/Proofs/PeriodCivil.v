(** C06, supporting: the day number is strictly increasing on valid civil dates (every year,
    not only 0..9999), hence injective; [parse_date] yields valid civil dates.  This makes
    "the calendar day" and "the instant of its UTC midnight" interchangeable. *)
From Coq Require Import Lia ZifyBool.
From HP Require Import Base.Bytes Base.Num Model.Dates Spec.PeriodSpec.
Open Scope Z_scope.

(** days before year [y+1] counted from a fixed origin: 365 per year plus the Gregorian leap days *)
Definition G (y : Z) : Z := 365 * y + y / 4 - y / 100 + y / 400.

Lemma era_form : forall y,
  (y / 400) * 146097 + ((y - y / 400 * 400) * 365 + (y - y / 400 * 400) / 4 - (y - y / 400 * 400) / 100) = G y.
Proof. intros y. unfold G. Z.div_mod_to_equations. lia. Qed.

Lemma G_step : forall y, G y = G (y - 1) + 365 + (if is_leap y then 1 else 0).
Proof.
  intros y. unfold G, is_leap.
  destruct (Z.eqb_spec (y mod 4) 0) as [H4|H4]; destruct (Z.eqb_spec (y mod 100) 0) as [H100|H100];
  destruct (Z.eqb_spec (y mod 400) 0) as [H400|H400]; cbn [andb orb negb];
  Z.div_mod_to_equations; lia.
Qed.

Lemma G_mono : forall a c, a <= c -> G a <= G c.
Proof. intros a c H. unfold G. Z.div_mod_to_equations. lia. Qed.

Definition tbl (m : Z) : Z := (153 * ((m + 9) mod 12) + 2) / 5.
Definition cum (L : bool) (m : Z) : Z :=
  if m <=? 2 then tbl m else 365 + (if L then 1 else 0) + tbl m.

Lemma dfc_alt : forall y m d, days_from_civil y m d = G (y - 1) + cum (is_leap y) m + d - 719469.
Proof.
  intros y m d. unfold days_from_civil, cum, tbl. cbv zeta.
  destruct (m <=? 2).
  - pose proof (era_form (y - 1)) as He. lia.
  - pose proof (era_form y) as He. pose proof (G_step y) as Hs. lia.
Qed.

Ltac month_cases m :=
  let Hc := fresh "Hc" in
  assert (Hc : m = 1 \/ m = 2 \/ m = 3 \/ m = 4 \/ m = 5 \/ m = 6 \/ m = 7 \/ m = 8 \/ m = 9 \/ m = 10 \/ m = 11 \/ m = 12) by lia;
  destruct Hc as [Hc|[Hc|[Hc|[Hc|[Hc|[Hc|[Hc|[Hc|[Hc|[Hc|[Hc|Hc]]]]]]]]]]]; subst m.

Definition cum_tab (L : bool) (m : Z) : Z :=
  let l := if L then 1 else 0 in
  match m with
  | 1 => 306 | 2 => 337 | 3 => 365 + l | 4 => 396 + l | 5 => 426 + l | 6 => 457 + l | 7 => 487 + l
  | 8 => 518 + l | 9 => 549 + l | 10 => 579 + l | 11 => 610 + l | 12 => 640 + l | _ => 0
  end.
Definition dim_tab (L : bool) (m : Z) : Z :=
  match m with 2 => if L then 29 else 28 | 4 | 6 | 9 | 11 => 30 | _ => 31 end.

Lemma cum_table : forall L m, 1 <= m <= 12 -> cum L m = cum_tab L m.
Proof. intros L m Hm. month_cases m; destruct L; reflexivity. Qed.

Lemma days_in_table : forall y m, 1 <= m <= 12 -> days_in y m = dim_tab (is_leap y) m.
Proof. intros y m Hm. month_cases m; reflexivity. Qed.

Definition valid_md (c : Z * Z * Z) : Prop := let '(y, m, d) := c in 1 <= m <= 12 /\ 1 <= d <= days_in y m.

Theorem day_number_strict_mono : forall c1 c2, valid_md c1 -> valid_md c2 -> civil_lt c1 c2 -> day_number c1 < day_number c2.
Proof.
  intros [[y1 m1] d1] [[y2 m2] d2] [Hm1 Hd1] [Hm2 Hd2] Hlt.
  unfold day_number. rewrite !dfc_alt.
  rewrite days_in_table in Hd1, Hd2 by assumption. rewrite !cum_table by assumption.
  unfold civil_lt in Hlt.
  destruct Hlt as [Hy|[Hy [Hm|[Hm Hd]]]].
  - pose proof (G_mono y1 (y2 - 1) ltac:(lia)) as Hg. pose proof (G_step y1) as Hs.
    remember (is_leap y1) as L1. remember (is_leap y2) as L2.
    assert (B1 : cum_tab L1 m1 + d1 <= 671 + (if L1 then 1 else 0)).
    { clear - Hm1 Hd1. month_cases m1; unfold cum_tab, dim_tab in *; cbv beta iota zeta in *; destruct L1; lia. }
    assert (B2 : 307 <= cum_tab L2 m2 + d2).
    { clear - Hm2 Hd2. month_cases m2; unfold cum_tab, dim_tab in *; cbv beta iota zeta in *; destruct L2; lia. }
    lia.
  - subst y2. remember (is_leap y1) as L.
    assert (B : cum_tab L m1 + d1 < cum_tab L m2 + d2).
    { clear - Hm1 Hm2 Hd1 Hd2 Hm.
      month_cases m1; month_cases m2; try lia; unfold cum_tab, dim_tab in *; cbv beta iota zeta in *; destruct L; lia. }
    lia.
  - subst y2 m2. lia.
Qed.

Lemma valid_civil_md : forall c, valid_civil c -> valid_md c.
Proof. intros [[y m] d] [Hy [Hm Hd]]. split; assumption. Qed.

Lemma civil_trichotomy : forall c1 c2 : Z * Z * Z, c1 = c2 \/ civil_lt c1 c2 \/ civil_lt c2 c1.
Proof.
  intros [[y1 m1] d1] [[y2 m2] d2]. unfold civil_lt.
  destruct (Z.lt_trichotomy y1 y2) as [Hy|[Hy|Hy]]; [right; left; lia| |right; right; lia].
  destruct (Z.lt_trichotomy m1 m2) as [Hm|[Hm|Hm]]; [right; left; lia| |right; right; lia].
  destruct (Z.lt_trichotomy d1 d2) as [Hd|[Hd|Hd]]; [right; left; lia| |right; right; lia].
  left. subst. reflexivity.
Qed.

(** two valid dates (month 1..12, day 1..length of the month; ANY year) with the same day number are equal *)
Theorem day_number_injective_md : forall c1 c2, valid_md c1 -> valid_md c2 -> day_number c1 = day_number c2 -> c1 = c2.
Proof.
  intros c1 c2 H1 H2 He.
  destruct (civil_trichotomy c1 c2) as [E|[Hl|Hl]]; [exact E| |].
  - pose proof (day_number_strict_mono c1 c2 H1 H2 Hl). lia.
  - pose proof (day_number_strict_mono c2 c1 H2 H1 Hl). lia.
Qed.

Theorem days_from_civil_injective : forall c1 c2, valid_civil c1 -> valid_civil c2 ->
  day_number c1 = day_number c2 -> c1 = c2.
Proof. intros c1 c2 H1 H2. apply day_number_injective_md; apply valid_civil_md; assumption. Qed.

Corollary day_number_mono_iff : forall c1 c2, valid_md c1 -> valid_md c2 ->
  (day_number c1 < day_number c2 <-> civil_lt c1 c2).
Proof.
  intros c1 c2 H1 H2. split; [|apply day_number_strict_mono; assumption].
  intros Hlt. destruct (civil_trichotomy c1 c2) as [E|[Hl|Hl]]; [subst; lia|exact Hl|].
  pose proof (day_number_strict_mono c2 c1 H2 H1 Hl). lia.
Qed.

(** instants of UTC midnights: equal iff the dates are *)
Corollary midnight_injective : forall c1 c2, valid_civil c1 -> valid_civil c2 ->
  (inst (time_of_civil c1) = inst (time_of_civil c2) <-> c1 = c2).
Proof.
  intros c1 c2 H1 H2. split; [|intros; subst; reflexivity].
  intros Hi. apply days_from_civil_injective; try assumption.
  destruct c1 as [[y1 m1] d1], c2 as [[y2 m2] d2]. cbn [time_of_civil inst] in Hi. unfold day_number.
  unfold ns_per_day in Hi. lia.
Qed.

(** *** [parse_date] yields valid civil dates *)
Lemma digit_val_bound : forall c d, digit_val c = Some d -> 0 <= d <= 9.
Proof.
  intros c d H. unfold digit_val, is_digit in H.
  destruct (48 <=? c)%N eqn:E1; destruct (c <=? 57)%N eqn:E2; cbn [andb] in H; try discriminate.
  inversion H. apply N.leb_le in E1. apply N.leb_le in E2. lia.
Qed.

Lemma take_digits_bound : forall n s acc v s', 0 <= acc -> take_digits n s acc = Some (v, s') ->
  acc * 10 ^ Z.of_nat n <= v < (acc + 1) * 10 ^ Z.of_nat n.
Proof.
  induction n as [|k IH]; intros s acc v s' Hacc H.
  - cbn in H. inversion H; subst. cbn [Z.of_nat]. rewrite Z.pow_0_r. lia.
  - cbn [take_digits] in H. destruct s as [|c r]; [discriminate|].
    destruct (digit_val c) as [dg|] eqn:Ed; [|discriminate].
    apply digit_val_bound in Ed. apply IH in H; [|lia].
    rewrite Nat2Z.inj_succ, Z.pow_succ_r by lia.
    assert (HP : 0 < 10 ^ Z.of_nat k) by (apply Z.pow_pos_nonneg; lia).
    remember (10 ^ Z.of_nat k) as P. nia.
Qed.

(** a space of the layout is Go's [time.skip] (a run of spaces, the space literals after it consumed
    with it): a successful parse under [Lit 32 :: r] is a successful parse under [r] of some text *)
Lemma parse_tokens_space_step : forall r s y m d res,
  parse_tokens (Lit 32%N :: r) s y m d = Some res -> exists s', parse_tokens r s' y m d = Some res.
Proof.
  intros r s y m d res H.
  assert (Hr : drop_space_lits r = r \/ exists r', r = Lit 32%N :: r').
  { destruct r as [|[| | | | | | | |c] r']; try (left; reflexivity).
    destruct (N.eqb_spec c 32) as [->|Hc]; [right; eexists; reflexivity|left].
    destruct c as [|p]; [reflexivity|]. do 6 (try (destruct p as [p|p|]; try reflexivity)).
    exfalso; apply Hc; reflexivity. }
  cbn [parse_tokens] in H. change (32 =? 32)%N with true in H. cbv iota in H.
  destruct Hr as [E|[r' ->]].
  - rewrite E in H. destruct s as [|c s0]; [exists []; exact H|].
    destruct (c =? 32)%N; [|discriminate]. eexists; exact H.
  - exists s. cbn [parse_tokens]. change (32 =? 32)%N with true. cbv iota. exact H.
Qed.

(** the month a name table yields is one of its positions *)
Lemma lookup_name_range : forall tab i s v r, lookup_name tab i s = Some (v, r) -> i <= v < i + Z.of_nat (length tab).
Proof.
  induction tab as [|name tab IH]; intros i s v r H; [discriminate|]. cbn [lookup_name] in H.
  destruct (match_prefix name s) as [r0|].
  - inversion H; subst. cbn [length]. lia.
  - apply IH in H. cbn [length]. lia.
Qed.

Lemma parse_tokens_valid : forall toks s y m d y' m' d',
  0 <= y <= 9999 -> 1 <= m <= 12 ->
  parse_tokens toks s y m d = Some (y', m', d') -> 0 <= y' <= 9999 /\ 1 <= m' <= 12.
Proof.
  induction toks as [|t toks IH]; intros s y m d y' m' d' Hy Hm H.
  - cbn in H. destruct s; [|discriminate]. inversion H; subst. split; assumption.
  - destruct t as [| | | | | | | |c]; cbn [parse_tokens] in H.
    + destruct (take_digits 4 s 0) as [[v s1]|] eqn:E; [|discriminate].
      apply take_digits_bound in E; [|lia]. change (10 ^ Z.of_nat 4) with 10000 in E.
      eapply IH; [| |exact H]; lia.
    + destruct (take_digits 2 s 0) as [[v s1]|] eqn:E; [|discriminate].
      destruct (Z.leb_spec 1 v) as [H1|H1]; destruct (Z.leb_spec v 12) as [H2|H2]; cbn [andb] in H; try discriminate.
      eapply IH; [| |exact H]; lia.
    + destruct (take_digits 2 s 0) as [[v s1]|] eqn:E; [|discriminate].
      eapply IH; [| |exact H]; lia.
    + destruct (get_num s) as [[v s1]|] eqn:E; [|discriminate].
      eapply IH; [| |exact H]; lia.
    + destruct (get_num (drop_one_space s)) as [[v s1]|] eqn:E; [|discriminate].
      eapply IH; [| |exact H]; lia.
    + destruct (get_num s) as [[v s1]|] eqn:E; [|discriminate].
      destruct (Z.leb_spec 1 v) as [H1|H1]; destruct (Z.leb_spec v 12) as [H2|H2]; cbn [andb] in H; try discriminate.
      eapply IH; [| |exact H]; lia.
    + destruct (lookup_name short_months 1 s) as [[v s1]|] eqn:E; [|discriminate].
      apply lookup_name_range in E. cbn [length short_months] in E.
      eapply IH; [| |exact H]; lia.
    + destruct (lookup_name long_months 1 s) as [[v s1]|] eqn:E; [|discriminate].
      apply lookup_name_range in E. cbn [length long_months] in E.
      eapply IH; [| |exact H]; lia.
    + revert H. destruct (N.eqb_spec c 32) as [->|Hc]; intros H.
      * apply parse_tokens_space_step in H. destruct H as [s1 H]. eapply IH; [| |exact H]; lia.
      * destruct s as [|c' s1]; [discriminate|]. destruct (c =? c')%N; [|discriminate].
        eapply IH; [| |exact H]; lia.
Qed.

Theorem parse_date_valid : forall toks s c, parse_date toks s = Some c -> valid_civil c.
Proof.
  intros toks s c H. unfold parse_date in H.
  destruct (parse_tokens toks s 0 1 1) as [[[y m] d]|] eqn:E; [|discriminate].
  apply parse_tokens_valid in E; [|lia|lia].
  destruct (Z.leb_spec 1 d) as [H1|H1]; destruct (Z.leb_spec d (days_in y m)) as [H2|H2]; cbn [andb] in H; try discriminate.
  inversion H; subst. unfold valid_civil. lia.
Qed.

(** headings of two records denote the same instant iff they are the same calendar date *)
Corollary parsed_dates_same_instant : forall toks s1 s2 c1 c2,
  parse_date toks s1 = Some c1 -> parse_date toks s2 = Some c2 ->
  (inst (time_of_civil c1) = inst (time_of_civil c2) <-> c1 = c2).
Proof. intros toks s1 s2 c1 c2 H1 H2. apply midnight_injective; eapply parse_date_valid; eassumption. Qed.

Example day_number_epoch : day_number (1970, 1, 1) = 0. Proof. reflexivity. Qed.
Example day_number_leap : day_number (2000, 3, 1) - day_number (2000, 2, 28) = 2. Proof. reflexivity. Qed.
Example parse_valid_ex : parse_date [Y4; Lit 47%N; M2; Lit 47%N; D2] (b "2024/02/29") = Some (2024, 2, 29).
Proof. vm_compute. reflexivity. Qed.
Example parse_invalid_ex : parse_date [Y4; Lit 47%N; M2; Lit 47%N; D2] (b "2023/02/29") = None.
Proof. vm_compute. reflexivity. Qed.
