(** WP24: the evaluation of the three template syntax trees over the value of a
    report item is exactly the model's three renderers, for every [Num], every
    configuration and every report item. *)
From Coq Require Import Lia.
From HP Require Import Base.Bytes Base.Utf8 Base.Num Model.Elements Model.Dates Model.Reporters Model.Template.

(** * generic facts about the evaluator *)

Lemma omap_concat_map_flat {A B : Type} (h : A -> B) (f : B -> option bytes) (g : A -> bytes) (l : list A) :
  (forall x, f (h x) = Some (g x)) -> omap_concat f (map h l) = Some (flat_map g l).
Proof.
  intros H. induction l as [|x r IH]; [reflexivity|].
  cbn [map omap_concat flat_map]. rewrite H, IH. reflexivity.
Qed.

Lemma omap_concat_flat {A : Type} (f : A -> option bytes) (g : A -> bytes) (l : list A) :
  (forall x, f x = Some (g x)) -> omap_concat f l = Some (flat_map g l).
Proof.
  intros H. rewrite <- (map_id l) at 1. apply omap_concat_map_flat. exact H.
Qed.

Lemma omap_concat_app {A : Type} (f : A -> option bytes) (l1 l2 : list A) :
  omap_concat f (l1 ++ l2)
  = match omap_concat f l1, omap_concat f l2 with
    | Some x, Some y => Some (x ++ y)
    | _, _ => None
    end.
Proof.
  induction l1 as [|a r IH]; cbn [app omap_concat].
  - destruct (omap_concat f l2); reflexivity.
  - destruct (f a) as [y|]; [|reflexivity]. rewrite IH.
    destruct (omap_concat f r) as [x|]; [|reflexivity].
    destruct (omap_concat f l2) as [z|]; [|reflexivity].
    rewrite app_assoc. reflexivity.
Qed.

Section ExecFacts.
  Context {NM : Num} (fe : fenv NM).
  Notation tvalue := (tvalue NM).

  Lemma exec_list_nil (vars : list (bytes * tvalue)) (dot : tvalue) : exec_list fe vars dot [] = Some [].
  Proof. reflexivity. Qed.

  Lemma exec_list_cons (vars : list (bytes * tvalue)) (dot : tvalue) (n : tnode) (ns : list tnode) (a bs : bytes) :
    exec_node fe vars dot n = Some a -> exec_list fe vars dot ns = Some bs ->
    exec_list fe vars dot (n :: ns) = Some (a ++ bs).
  Proof.
    unfold exec_list. intros Ha Hb. cbn [omap_concat]. rewrite Ha, Hb. reflexivity.
  Qed.

  Lemma exec_text (vars : list (bytes * tvalue)) (dot : tvalue) (s : bytes) :
    exec_node fe vars dot (TText s) = Some s.
  Proof. reflexivity. Qed.

  Lemma exec_action (vars : list (bytes * tvalue)) (dot : tvalue) (e : texpr) (s : bytes) :
    eval fe vars dot e = Some (VStr s) -> exec_node fe vars dot (TAction e) = Some s.
  Proof. intros H. cbn [exec_node]. rewrite H. reflexivity. Qed.

  Lemma exec_if_true (vars : list (bytes * tvalue)) (dot : tvalue) (e : texpr) (body : list tnode) :
    obind (eval fe vars dot e) truth = Some true ->
    exec_node fe vars dot (TIf e body) = exec_list fe vars dot body.
  Proof. intros H. cbn [exec_node]. rewrite H. reflexivity. Qed.

  Lemma exec_if_false (vars : list (bytes * tvalue)) (dot : tvalue) (e : texpr) (body : list tnode) :
    obind (eval fe vars dot e) truth = Some false ->
    exec_node fe vars dot (TIf e body) = Some [].
  Proof. intros H. cbn [exec_node]. rewrite H. reflexivity. Qed.

  (** one lemma for every [range]: over the image of a list, the output is the
      concatenation of the bodies' outputs *)
  Lemma exec_range_list {A : Type} (vars : list (bytes * tvalue)) (dot : tvalue) (v : option bytes) (e : texpr)
        (body : list tnode) (h : A -> tvalue) (g : A -> bytes) (l : list A) :
    obind (eval fe vars dot e) range_items = Some (map h l) ->
    (forall x, exec_list fe (bind_var v (h x) vars) (h x) body = Some (g x)) ->
    exec_node fe vars dot (TRange v e body) = Some (flat_map g l).
  Proof.
    intros He Hb. cbn [exec_node]. rewrite He.
    apply omap_concat_map_flat. exact Hb.
  Qed.
End ExecFacts.

(** * the rows of the renderers, named *)

Section Rows.
  Context (NM : Num) (c : rconfig).
  Notation T := (T NM).

  Definition ing_row_default (i : bytes * T) : bytes :=
    [c_lf; c_tab; c_tab] ++ pad_left 20 (shorten (rc_shorten c) (fst i) 20) ++ b " "
    ++ format_value NM (rc_color c) (snd i).
  Definition el_row_default (e : bytes * T * elements NM) : bytes :=
    let '(name, v, ings) := e in
    [c_lf; c_tab] ++ pad_right 27 (shorten (rc_shorten c) name 27) ++ b " :" ++ format_value NM (rc_color c) v
    ++ flat_map ing_row_default ings.
  Definition tot_row_default (t : total_row NM) : bytes :=
    let '(name, p, n, s) := t in
    [c_lf; c_tab; c_tab] ++ pad_left 20 (shorten (rc_shorten c) name 20) ++ b " "
    ++ format_value NM (rc_color c) p ++ b " " ++ format_value NM (rc_color c) n ++ b " ="
    ++ format_value NM (rc_color c) s.

  Lemma render_default_rows (it : report_item NM) :
    render_default NM c it
    = fdate c (ri_time NM it)
      ++ flat_map el_row_default (ri_elements NM it)
      ++ match ri_totals NM it with
         | None => []
         | Some ts => [c_lf] ++ total_header_default ++ flat_map tot_row_default ts
         end
      ++ [c_lf].
  Proof. reflexivity. Qed.

  Definition ing_row_left (i : bytes * T) : bytes :=
    [c_lf] ++ b "  " ++ format_value NM (rc_color c) (snd i) ++ b "    " ++ fst i.
  Definition el_row_left (e : bytes * T * elements NM) : bytes :=
    let '(name, v, ings) := e in
    [c_lf] ++ b "  " ++ format_value NM (rc_color c) v ++ b "  " ++ name
    ++ flat_map ing_row_left ings.
  Definition tot_row_left (t : total_row NM) : bytes :=
    let '(name, p, n, s) := t in
    [c_lf] ++ b "  " ++ format_value NM (rc_color c) p ++ b " " ++ format_value NM (rc_color c) n
    ++ b " = " ++ format_value NM (rc_color c) s ++ b "  " ++ name.

  Lemma render_left_rows (it : report_item NM) :
    render_left NM c it
    = fdate c (ri_time NM it)
      ++ flat_map el_row_left (ri_elements NM it)
      ++ match ri_totals NM it with
         | None => []
         | Some ts => [c_lf] ++ total_header_left ++ flat_map tot_row_left ts
         end
      ++ [c_lf].
  Proof. reflexivity. Qed.

  Definition tot_row_summary (t : total_row NM) : bytes :=
    let '(name, p, n, s) := t in [c_lf] ++ format_value NM (rc_color c) p ++ b " : " ++ name.
  Definition el_row_summary (e : bytes * T * elements NM) : bytes :=
    let '(name, v, ings) := e in [c_lf] ++ format_value NM (rc_color c) v ++ b " : " ++ name.

  Lemma render_summary_rows (it : report_item NM) :
    render_summary NM c it
    = fdate c (ri_time NM it) ++ b " :"
      ++ match ri_totals NM it with
         | None => []
         | Some ts => flat_map tot_row_summary ts
         end
      ++ [c_lf] ++ b "------------"
      ++ flat_map el_row_summary (ri_elements NM it)
      ++ [c_lf].
  Proof. reflexivity. Qed.
End Rows.

(** * the three templates *)

(** evaluate the closed part of a goal, keeping the renderers' vocabulary *)
Ltac tcompute := lazy -[format_value pad_left pad_right shorten fdate app flat_map map
                         ing_row_default el_row_default tot_row_default
                         ing_row_left el_row_left tot_row_left tot_row_summary el_row_summary].
Ltac tclose := cbn [app]; rewrite ?app_nil_r, <- ?app_assoc; cbn [app]; reflexivity.

(** the named parts of the trees (convertible with the sub-terms of [default_ast] ...) *)
Definition default_ing_body : list tnode :=
  [ TText [c_lf];
    TAction (ECall (b "printf")
               [ EStr (c_tab :: c_tab :: b "%20s %s");
                 ECall (b "shorten") [EVar (b "ing") [b "Name"]; EInt 20];
                 ECall (b "formatValue") [EVar (b "ing") [b "Value"]] ]) ].
Definition default_el_body : list tnode :=
  [ TText [c_lf];
    TAction (ECall (b "printf")
               [ EStr (c_tab :: b "%-27s :%s");
                 ECall (b "shorten") [EVar (b "el") [b "Name"]; EInt 27];
                 ECall (b "formatValue") [EVar (b "el") [b "Value"]] ]);
    TRange (Some (b "ing")) (EVar (b "el") [b "Ingredients"]) default_ing_body ].
Definition default_tot_body : list tnode :=
  [ TText [c_lf];
    TAction (ECall (b "printf")
               [ EStr (c_tab :: c_tab :: b "%20s %s %s =%s");
                 ECall (b "shorten") [EVar (b "total") [b "Name"]; EInt 20];
                 ECall (b "formatValue") [EVar (b "total") [b "Positive"]];
                 ECall (b "formatValue") [EVar (b "total") [b "Negative"]];
                 ECall (b "formatValue") [EVar (b "total") [b "Sum"]] ]) ].
Definition default_header : bytes := c_lf :: c_tab :: b "-- TOTAL  ----------------------------------------------------".

Lemma default_ast_parts :
  default_ast
  = [ TAction (ECall (b "formatDate") [EField [b "Time"]]);
      TIf (EField [b "Elements"]) [ TRange (Some (b "el")) (EField [b "Elements"]) default_el_body ];
      TIf (EField [b "Totals"]) [ TText default_header; TRange (Some (b "total")) (EField [b "Totals"]) default_tot_body ];
      TText [c_lf] ].
Proof. reflexivity. Qed.

Lemma default_header_eq : default_header = [c_lf] ++ total_header_default.
Proof. vm_compute. reflexivity. Qed.

Definition left_ing_body : list tnode :=
  [ TText [c_lf];
    TAction (ECall (b "printf")
               [ EStr (b "  %s    %s");
                 ECall (b "formatValue") [EVar (b "ing") [b "Value"]];
                 EVar (b "ing") [b "Name"] ]) ].
Definition left_el_body : list tnode :=
  [ TText [c_lf];
    TAction (ECall (b "printf")
               [ EStr (b "  %s  %s");
                 ECall (b "formatValue") [EVar (b "el") [b "Value"]];
                 EVar (b "el") [b "Name"] ]);
    TRange (Some (b "ing")) (EVar (b "el") [b "Ingredients"]) left_ing_body ].
Definition left_tot_body : list tnode :=
  [ TText [c_lf];
    TAction (ECall (b "printf")
               [ EStr (b "  %s %s = %s  %s");
                 ECall (b "formatValue") [EVar (b "total") [b "Positive"]];
                 ECall (b "formatValue") [EVar (b "total") [b "Negative"]];
                 ECall (b "formatValue") [EVar (b "total") [b "Sum"]];
                 EVar (b "total") [b "Name"] ]) ].
Definition left_header : bytes := c_lf :: b "------------------------------------------------------- TOTAL --".

Lemma left_ast_parts :
  left_ast
  = [ TAction (ECall (b "formatDate") [EField [b "Time"]]);
      TIf (EField [b "Elements"]) [ TRange (Some (b "el")) (EField [b "Elements"]) left_el_body ];
      TIf (EField [b "Totals"]) [ TText left_header; TRange (Some (b "total")) (EField [b "Totals"]) left_tot_body ];
      TText [c_lf] ].
Proof. reflexivity. Qed.

Lemma left_header_eq : left_header = [c_lf] ++ total_header_left.
Proof. vm_compute. reflexivity. Qed.

Definition summary_tot_body : list tnode :=
  [ TText [c_lf];
    TAction (ECall (b "formatValue") [EVar (b "total") [b "Positive"]]);
    TText (b " : ");
    TAction (EVar (b "total") [b "Name"]) ].
Definition summary_el_body : list tnode :=
  [ TText [c_lf];
    TAction (ECall (b "formatValue") [EVar (b "el") [b "Value"]]);
    TText (b " : ");
    TAction (EVar (b "el") [b "Name"]) ].

Lemma summary_ast_parts :
  summary_ast
  = [ TAction (ECall (b "formatDate") [EField [b "Time"]]);
      TText (b " :");
      TIf (EField [b "Totals"]) [ TRange (Some (b "total")) (EField [b "Totals"]) summary_tot_body ];
      TText (c_lf :: b "------------");
      TIf (EField [b "Elements"]) [ TRange (Some (b "el")) (EField [b "Elements"]) summary_el_body ];
      TText [c_lf] ].
Proof. reflexivity. Qed.

Section Templates.
  Context (NM : Num) (c : rconfig).
  Notation T := (T NM).
  Notation tvalue := (tvalue NM).
  Notation fe := (template_funcs NM c).

  (** ** default *)

  Lemma default_ing_row (vars : list (bytes * tvalue)) (i : bytes * T) :
    exec_list fe ((b "ing", ing_value NM i) :: vars) (ing_value NM i) default_ing_body
    = Some (ing_row_default NM c i).
  Proof. unfold ing_row_default. tcompute. tclose. Qed.

  Lemma default_el_row (vars : list (bytes * tvalue)) (e : bytes * T * elements NM) :
    exec_list fe ((b "el", elem_value NM e) :: vars) (elem_value NM e) default_el_body
    = Some (el_row_default NM c e).
  Proof.
    destruct e as [[name v] ings]. unfold default_el_body.
    erewrite exec_list_cons; [| apply exec_text |].
    2:{ eapply exec_list_cons.
        - apply exec_action with (s := [c_tab] ++ pad_right 27 (shorten (rc_shorten c) name 27) ++ b " :"
                                          ++ format_value NM (rc_color c) v).
          tcompute. tclose.
        - eapply exec_list_cons; [| apply exec_list_nil].
          apply exec_range_list with (h := ing_value NM) (g := ing_row_default NM c) (l := ings).
          + reflexivity.
          + intros i. apply default_ing_row. }
    f_equal. unfold el_row_default. tclose.
  Qed.

  Lemma default_tot_row (vars : list (bytes * tvalue)) (t : total_row NM) :
    exec_list fe ((b "total", total_value NM t) :: vars) (total_value NM t) default_tot_body
    = Some (tot_row_default NM c t).
  Proof. destruct t as [[[name p] n] s]. unfold tot_row_default. tcompute. tclose. Qed.

  Lemma default_funcs_ok : forallb (node_funcs_ok fe) default_ast = true.
  Proof. vm_compute. reflexivity. Qed.
  Lemma left_funcs_ok : forallb (node_funcs_ok fe) left_ast = true.
  Proof. vm_compute. reflexivity. Qed.
  Lemma summary_funcs_ok : forallb (node_funcs_ok fe) summary_ast = true.
  Proof. vm_compute. reflexivity. Qed.

  Theorem exec_default (it : report_item NM) :
    exec_template fe default_ast (item_value NM it) = Some (render_default NM c it).
  Proof.
    unfold exec_template. rewrite default_funcs_ok.
    rewrite render_default_rows, default_ast_parts. destruct it as [t els tots]. cbn [ri_time ri_elements ri_totals].
    erewrite exec_list_cons; [| apply exec_action with (s := fdate c t); reflexivity |].
    2:{ eapply exec_list_cons.
        - rewrite exec_if_true by reflexivity.
          eapply exec_list_cons; [| apply exec_list_nil].
          apply exec_range_list with (h := elem_value NM) (g := el_row_default NM c) (l := els).
          + reflexivity.
          + intros e. apply default_el_row.
        - eapply exec_list_cons; [| eapply exec_list_cons; [apply exec_text | apply exec_list_nil]].
          instantiate (1 := match tots with
                            | None => []
                            | Some ts => [c_lf] ++ total_header_default ++ flat_map (tot_row_default NM c) ts
                            end).
          destruct tots as [ts|].
          + rewrite exec_if_true by reflexivity.
            erewrite exec_list_cons; [| apply exec_text |].
            2:{ eapply exec_list_cons; [| apply exec_list_nil].
                apply exec_range_list with (h := total_value NM) (g := tot_row_default NM c) (l := ts).
                - reflexivity.
                - intros x. apply default_tot_row. }
            rewrite default_header_eq. f_equal. rewrite ?app_nil_r, <- ?app_assoc. reflexivity.
          + apply exec_if_false. reflexivity. }
    f_equal. rewrite ?app_nil_r, <- ?app_assoc. reflexivity.
  Qed.

  (** ** left-aligned *)

  Lemma left_ing_row (vars : list (bytes * tvalue)) (i : bytes * T) :
    exec_list fe ((b "ing", ing_value NM i) :: vars) (ing_value NM i) left_ing_body
    = Some (ing_row_left NM c i).
  Proof. unfold ing_row_left. tcompute. tclose. Qed.

  Lemma left_el_row (vars : list (bytes * tvalue)) (e : bytes * T * elements NM) :
    exec_list fe ((b "el", elem_value NM e) :: vars) (elem_value NM e) left_el_body
    = Some (el_row_left NM c e).
  Proof.
    destruct e as [[name v] ings]. unfold left_el_body.
    erewrite exec_list_cons; [| apply exec_text |].
    2:{ eapply exec_list_cons.
        - apply exec_action with (s := b "  " ++ format_value NM (rc_color c) v ++ b "  " ++ name).
          tcompute. tclose.
        - eapply exec_list_cons; [| apply exec_list_nil].
          apply exec_range_list with (h := ing_value NM) (g := ing_row_left NM c) (l := ings).
          + reflexivity.
          + intros i. apply left_ing_row. }
    f_equal. unfold el_row_left. tclose.
  Qed.

  Lemma left_tot_row (vars : list (bytes * tvalue)) (t : total_row NM) :
    exec_list fe ((b "total", total_value NM t) :: vars) (total_value NM t) left_tot_body
    = Some (tot_row_left NM c t).
  Proof. destruct t as [[[name p] n] s]. unfold tot_row_left. tcompute. tclose. Qed.

  Theorem exec_left (it : report_item NM) :
    exec_template fe left_ast (item_value NM it) = Some (render_left NM c it).
  Proof.
    unfold exec_template. rewrite left_funcs_ok.
    rewrite render_left_rows, left_ast_parts. destruct it as [t els tots]. cbn [ri_time ri_elements ri_totals].
    erewrite exec_list_cons; [| apply exec_action with (s := fdate c t); reflexivity |].
    2:{ eapply exec_list_cons.
        - rewrite exec_if_true by reflexivity.
          eapply exec_list_cons; [| apply exec_list_nil].
          apply exec_range_list with (h := elem_value NM) (g := el_row_left NM c) (l := els).
          + reflexivity.
          + intros e. apply left_el_row.
        - eapply exec_list_cons; [| eapply exec_list_cons; [apply exec_text | apply exec_list_nil]].
          instantiate (1 := match tots with
                            | None => []
                            | Some ts => [c_lf] ++ total_header_left ++ flat_map (tot_row_left NM c) ts
                            end).
          destruct tots as [ts|].
          + rewrite exec_if_true by reflexivity.
            erewrite exec_list_cons; [| apply exec_text |].
            2:{ eapply exec_list_cons; [| apply exec_list_nil].
                apply exec_range_list with (h := total_value NM) (g := tot_row_left NM c) (l := ts).
                - reflexivity.
                - intros x. apply left_tot_row. }
            rewrite left_header_eq. f_equal. rewrite ?app_nil_r, <- ?app_assoc. reflexivity.
          + apply exec_if_false. reflexivity. }
    f_equal. rewrite ?app_nil_r, <- ?app_assoc. reflexivity.
  Qed.

  (** ** summary *)

  Lemma summary_tot_row (vars : list (bytes * tvalue)) (t : total_row NM) :
    exec_list fe ((b "total", total_value NM t) :: vars) (total_value NM t) summary_tot_body
    = Some (tot_row_summary NM c t).
  Proof. destruct t as [[[name p] n] s]. unfold tot_row_summary. tcompute. tclose. Qed.

  Lemma summary_el_row (vars : list (bytes * tvalue)) (e : bytes * T * elements NM) :
    exec_list fe ((b "el", elem_value NM e) :: vars) (elem_value NM e) summary_el_body
    = Some (el_row_summary NM c e).
  Proof. destruct e as [[name v] ings]. unfold el_row_summary. tcompute. tclose. Qed.

  Theorem exec_summary (it : report_item NM) :
    exec_template fe summary_ast (item_value NM it) = Some (render_summary NM c it).
  Proof.
    unfold exec_template. rewrite summary_funcs_ok.
    rewrite render_summary_rows, summary_ast_parts. destruct it as [t els tots]. cbn [ri_time ri_elements ri_totals].
    erewrite exec_list_cons; [| apply exec_action with (s := fdate c t); reflexivity |].
    2:{ eapply exec_list_cons; [apply exec_text |].
        eapply exec_list_cons.
        - instantiate (1 := match tots with
                            | None => []
                            | Some ts => flat_map (tot_row_summary NM c) ts
                            end).
          destruct tots as [ts|].
          + rewrite exec_if_true by reflexivity.
            erewrite exec_list_cons; [| | apply exec_list_nil].
            2:{ apply exec_range_list with (h := total_value NM) (g := tot_row_summary NM c) (l := ts).
                - reflexivity.
                - intros x. apply summary_tot_row. }
            rewrite app_nil_r. reflexivity.
          + apply exec_if_false. reflexivity.
        - eapply exec_list_cons; [apply exec_text |].
          eapply exec_list_cons; [| eapply exec_list_cons; [apply exec_text | apply exec_list_nil]].
          rewrite exec_if_true by reflexivity.
          eapply exec_list_cons; [| apply exec_list_nil].
          apply exec_range_list with (h := elem_value NM) (g := el_row_summary NM c) (l := els).
          + reflexivity.
          + intros e. apply summary_el_row. }
    f_equal. rewrite ?app_nil_r, <- ?app_assoc. reflexivity.
  Qed.

  (** ** the shape the per-run check uses: a text that parses to the tree is rendered as the model renders *)

  Theorem template_tie (it : report_item NM) (src : bytes) :
    parse_template src = Some default_ast ->
    option_bind (parse_template src) (fun a => exec_template fe a (item_value NM it)) = Some (render_default NM c it).
  Proof. intros H. rewrite H. apply exec_default. Qed.

  Theorem template_tie_left (it : report_item NM) (src : bytes) :
    parse_template src = Some left_ast ->
    option_bind (parse_template src) (fun a => exec_template fe a (item_value NM it)) = Some (render_left NM c it).
  Proof. intros H. rewrite H. apply exec_left. Qed.

  Theorem template_tie_summary (it : report_item NM) (src : bytes) :
    parse_template src = Some summary_ast ->
    option_bind (parse_template src) (fun a => exec_template fe a (item_value NM it)) = Some (render_summary NM c it).
  Proof. intros H. rewrite H. apply exec_summary. Qed.
  (** ** the reporters: what [regReporterTemplate] / [SummaryReporterTemplate] write for a day is the
      evaluation of the template text over the value of [GetReportItem] *)

  Theorem rep_template_text (d : list (bytes * elements NM)) (perm : list bytes -> list bytes) (ln : lognode NM) (src : bytes) :
    parse_template src = Some (if beq (rc_template c) (b "left-aligned") then left_ast else default_ast) ->
    exists out,
      option_bind (parse_template src)
                  (fun a => exec_template fe a (item_value NM (get_report_item NM c perm d ln))) = Some out
      /\ r_process NM (rep_template NM c d) perm tt ln = (tt, [checked out], None).
  Proof.
    intros H. rewrite H. cbn [option_bind obind r_process rep_template].
    destruct (beq (rc_template c) (b "left-aligned")).
    - exists (render_left NM c (get_report_item NM c perm d ln)). split; [apply exec_left | reflexivity].
    - exists (render_default NM c (get_report_item NM c perm d ln)). split; [apply exec_default | reflexivity].
  Qed.

  Theorem rep_summary_text (d : list (bytes * elements NM)) (perm : list bytes -> list bytes) (ln : lognode NM) (src : bytes) :
    parse_template src = Some summary_ast ->
    exists out,
      option_bind (parse_template src)
                  (fun a => exec_template fe a (item_value NM (get_report_item NM c perm d ln))) = Some out
      /\ r_process NM (rep_summary NM c d) perm tt ln = (tt, [checked out], None).
  Proof.
    intros H. rewrite H. cbn [option_bind obind r_process rep_summary].
    exists (render_summary NM c (get_report_item NM c perm d ln)). split; [apply exec_summary | reflexivity].
  Qed.
End Templates.

(** * the pinned source texts parse to the three trees (finite: by computation) *)

Theorem parse_default : parse_template default_src = Some default_ast.
Proof. vm_compute. reflexivity. Qed.
Theorem parse_left : parse_template left_src = Some left_ast.
Proof. vm_compute. reflexivity. Qed.
Theorem parse_summary : parse_template summary_src = Some summary_ast.
Proof. vm_compute. reflexivity. Qed.
