(** What the parser delivers for ANY input: entry names are in the normal
    form, headers are trimmed and non-empty; merging the entries of a day gives
    pairwise distinct names and keeps the normal form; and a layout under which
    some heading parses as a date is a heading layout. *)
From Coq Require Import Lia ZifyBool ZifyNat ZifyN.
From HP Require Import Base.Bytes Base.Utf8 Base.Num Model.Scanner Model.Parser Model.Elements Model.Dates
     Model.Writer Model.Reporters Spec.PrintSpec
     Proofs.PrintBytes Proofs.PrintUtf8 Proofs.PrintDates Proofs.PrintLines.
Open Scope N_scope.

Section PrintNormal.
  Context (NM : Num).
  Notation T := (T NM).

  (** a header as the parser delivers it *)
  Definition header_ok (h : bytes) : Prop :=
    first_outside trim_text h = true /\ last_outside trim_text h = true.

  Definition node_ok (n : pnode NM) : Prop :=
    header_ok (header n) /\ Forall (fun nv => normal_name (fst nv) = true) (elems n).

  Lemma trim_cons_ok set s t0 t : trim set s = t0 :: t ->
    first_outside set (t0 :: t) = true /\ last_outside set (t0 :: t) = true.
  Proof.
    intros E. destruct (trim_spec set s) as [pre [post [_ [_ [_ H]]]]]. rewrite E in H.
    destruct H as [H|H]; [discriminate|exact H].
  Qed.

  (** *** classification, inverted *)
  Lemma classify_heading_inv ln line r h : classify NM ln line r = LHeading NM h -> header_ok h.
  Proof.
    unfold classify. destruct (trim trim_text line) as [|t0 t] eqn:Et; [discriminate|].
    destruct line as [|l0 l]; [discriminate|].
    destruct (l0 =? comment_char); [discriminate|].
    destruct (negb ((l0 =? c_space) || (l0 =? c_tab) || (l0 =? c_dash))).
    - intros H. injection H as <-. apply (trim_cons_ok _ _ _ _ Et).
    - destruct (negb r); [discriminate|]. destruct (t0 =? comment_char); [discriminate|].
      destruct (last_index_any blanks (t0 :: t)); [|discriminate]. cbv zeta.
      destruct (of_lexeme NM _); discriminate.
  Qed.

  Lemma blanks_sub c : memb c blanks = true -> memb c trim_text = true.
  Proof.
    unfold blanks, trim_text. rewrite !memb_cons. cbn [memb existsb]. intros H.
    repeat (apply orb_true_iff in H; destruct H as [H|H]; [rewrite H; rewrite ?orb_true_r; reflexivity|]).
    discriminate.
  Qed.

  Lemma classify_entry_inv ln line r name v :
    ~ In c_lf line -> classify NM ln line r = LEntry NM name v -> normal_name name = true.
  Proof.
    intros Hlf. unfold classify. destruct (trim trim_text line) as [|t0 t] eqn:Et; [discriminate|].
    destruct line as [|l0 l]; [discriminate|].
    destruct (l0 =? comment_char); [discriminate|].
    destruct (negb ((l0 =? c_space) || (l0 =? c_tab) || (l0 =? c_dash))); [discriminate|].
    destruct (negb r); [discriminate|]. destruct (t0 =? comment_char) eqn:Eh; [discriminate|].
    destruct (last_index_any blanks (t0 :: t)) as [sep|] eqn:Es; [|discriminate]. cbv zeta.
    destruct (of_lexeme NM _) as [v'|]; [|discriminate]. intros H. injection H as <- _.
    destruct (trim_cons_ok _ _ _ _ Et) as [Hf _]. cbn [first_outside] in Hf. apply negb_true_iff in Hf.
    destruct (last_index_any_some _ _ _ Es) as [a [c [l' [E1 [E2 E3]]]]].
    destruct a as [|a0 a'].
    - cbn in E1. injection E1 as <- _. apply blanks_sub in E3. congruence.
    - cbn [app] in E1. injection E1 as <- Et'. rewrite <- E2.
      assert (Ef : firstn (length (t0 :: a')) (t0 :: t) = t0 :: a').
      { rewrite Et'. apply (firstn_app_exact (t0 :: a') (c :: l')). }
      rewrite Ef. unfold normal_name.
      assert (Hin : forall x, In x (trim trim_text (t0 :: a')) -> In x (l0 :: l)).
      { intros x Hx. apply trim_In in Hx. apply (trim_In trim_text). rewrite Et. rewrite Et'.
        change (t0 :: a' ++ c :: l') with ((t0 :: a') ++ c :: l'). apply in_or_app. left. exact Hx. }
      assert (Hnolf : memb c_lf (trim trim_text (t0 :: a')) = false).
      { apply memb_false_In. intros HI. apply Hlf, Hin, HI. }
      rewrite Hnolf. cbn [negb andb].
      unfold trim. rewrite (trim_left_first_outside trim_text (t0 :: a')) by (cbn [first_outside]; rewrite Hf; reflexivity).
      destruct (trim_right_keeps_first trim_text t0 a' Hf) as [s' Es'].
      destruct (trim_right_spec trim_text (t0 :: a')) as [post [_ [_ Hl]]].
      rewrite Es' in *. destruct Hl as [Hl|Hl]; [discriminate|]. rewrite Hl.
      cbn [first_outside]. rewrite memb_cons. unfold comment_char in Eh. rewrite Eh, Hf. reflexivity.
  Qed.

  (** *** the parse loop keeps the invariant *)
  Lemma parse_loop_ok lines : forall ln cur,
    (forall l, In l lines -> ~ In c_lf l) ->
    (forall n, cur = Some n -> node_ok n) ->
    (forall n, In (ENode n) (fst (parse_loop NM lines ln cur)) -> node_ok n)
    /\ (forall n, snd (parse_loop NM lines ln cur) = Some n -> node_ok n).
  Proof.
    induction lines as [|line rest IH]; intros ln cur Hlf Hcur.
    - cbn. split; [intros n []|exact Hcur].
    - assert (Hrest : forall l, In l rest -> ~ In c_lf l) by (intros l Hl; apply Hlf; right; exact Hl).
      cbn [parse_loop].
      destruct (classify NM (ln + 1) line match cur with Some _ => true | None => false end)
        as [|h|mp|name v|e] eqn:Ec.
      + apply IH; assumption.
      + assert (Hn : forall n, Some (new_node NM h) = Some n -> node_ok n).
        { intros n E. injection E as <-. split; [|constructor]. apply (classify_heading_inv _ _ _ _ Ec). }
        destruct (IH (ln + 1) (Some (new_node NM h)) Hrest Hn) as [H1 H2].
        destruct (parse_loop NM rest (ln + 1) (Some (new_node NM h))) as [evs last]. cbn [fst snd] in *.
        split; [|exact H2]. destruct cur as [n0|]; [|exact H1].
        intros n [E|HI]; [injection E as <-; apply Hcur; reflexivity|apply H1, HI].
      + apply IH; [exact Hrest|]. intros n E. destruct cur as [n0|]; [|discriminate]. injection E as <-.
        destruct (Hcur n0 eq_refl) as [Hh He]. split; assumption.
      + apply IH; [exact Hrest|]. intros n E. destruct cur as [n0|]; [|discriminate]. injection E as <-.
        destruct (Hcur n0 eq_refl) as [Hh He]. split; [exact Hh|]. cbn [elems add_elem]. apply Forall_app. split; [exact He|].
        constructor; [|constructor]. cbn [fst]. eapply classify_entry_inv; [|exact Ec]. apply Hlf. left. reflexivity.
      + destruct (IH (ln + 1) cur Hrest Hcur) as [H1 H2].
        destruct (parse_loop NM rest (ln + 1) cur) as [evs last]. cbn [fst snd] in *.
        split; [|exact H2]. intros n [E|HI]; [discriminate|apply H1, HI].
  Qed.

  Lemma events_node_ok data n : In (ENode n) (events NM data) -> node_ok n.
  Proof.
    unfold events, parse_lines.
    destruct (parse_loop_ok (fst (scan data NoFault)) 0 None) as [H1 H2].
    - intros l Hl. apply (scan_lines_no_lf _ _ _ Hl).
    - intros n0 E. discriminate.
    - destruct (parse_loop NM (fst (scan data NoFault)) 0 None) as [evs last]. cbn [fst snd] in *.
      intros HI. apply in_app_or in HI. destruct HI as [HI|HI]; [apply H1, HI|].
      destruct last as [n0|]; [|destruct HI]. destruct HI as [E|[]]. injection E as <-. apply H2. reflexivity.
  Qed.

  (** every entry name in a record of any parsed file is in the normal form *)
  Theorem parsed_names_normal data n name v :
    In (ENode n) (events NM data) -> In (name, v) (elems n) -> normal_name name = true.
  Proof.
    intros Hn Hnv. destruct (events_node_ok data n Hn) as [_ He].
    rewrite Forall_forall in He. apply (He (name, v) Hnv).
  Qed.

  (** *** merging *)
  Lemma add_to_names name v el :
    map fst (add_to NM name v el) = if existsb (beq name) (map fst el) then map fst el else map fst el ++ [name].
  Proof.
    induction el as [|[n x] el IH]; [reflexivity|]. cbn [add_to map fst existsb].
    destruct (beq n name) eqn:E.
    - apply beq_true_iff in E. subst n. rewrite beq_refl. reflexivity.
    - assert (E' : beq name n = false). { apply beq_false_iff. apply beq_false_iff in E. congruence. }
      rewrite E'. cbn [orb map fst]. rewrite IH. destruct (existsb (beq name) (map fst el)); reflexivity.
  Qed.

  Lemma existsb_beq_In name l : existsb (beq name) l = true <-> In name l.
  Proof.
    rewrite existsb_exists. split.
    - intros [x [Hx E]]. apply beq_true_iff in E. subst x. exact Hx.
    - intros H. exists name. split; [exact H|apply beq_refl].
  Qed.

  Lemma NoDup_snoc {A} (l : list A) x : NoDup l -> ~ In x l -> NoDup (l ++ [x]).
  Proof.
    induction 1 as [|y l Hy Hl IH]; intros Hx; [cbn; constructor; [intros []|constructor]|].
    cbn [app]. constructor.
    - intros HI. apply in_app_or in HI. destruct HI as [HI|[<-|[]]]; [contradiction|]. apply Hx. left. reflexivity.
    - apply IH. intros HI. apply Hx. right. exact HI.
  Qed.

  Lemma merge_fold_names (el : list (bytes * T)) : forall acc,
    NoDup (map fst acc) ->
    NoDup (map fst (fold_left (fun acc nv => add_to NM (fst nv) (snd nv) acc) el acc))
    /\ (forall x, In x (map fst (fold_left (fun acc nv => add_to NM (fst nv) (snd nv) acc) el acc)) ->
                  In x (map fst acc) \/ In x (map fst el)).
  Proof.
    induction el as [|[n v] el IH]; intros acc Hacc; [cbn; split; [exact Hacc|auto]|].
    cbn [fold_left fst snd].
    assert (Hnd : NoDup (map fst (add_to NM n v acc))).
    { rewrite add_to_names. destruct (existsb (beq n) (map fst acc)) eqn:E; [exact Hacc|].
      apply NoDup_snoc; [exact Hacc|]. intros HI. apply existsb_beq_In in HI. congruence. }
    destruct (IH _ Hnd) as [H1 H2]. split; [exact H1|]. intros x Hx. destruct (H2 x Hx) as [H|H].
    - rewrite add_to_names in H. destruct (existsb (beq n) (map fst acc)); [left; exact H|].
      apply in_app_or in H. destruct H as [H|[<-|[]]]; [left; exact H|right; left; reflexivity].
    - right. right. exact H.
  Qed.

  (** merged entries have pairwise distinct names, all taken from the input *)
  Lemma merge_elements_names (el : list (bytes * T)) :
    NoDup (map fst (merge_elements NM el))
    /\ (forall x, In x (map fst (merge_elements NM el)) -> In x (map fst el)).
  Proof.
    unfold merge_elements. destruct (merge_fold_names el [] (NoDup_nil _)) as [H1 H2].
    split; [exact H1|]. intros x Hx. destruct (H2 x Hx) as [[]|H]. exact H.
  Qed.

  Lemma add_to_fresh name v (el : list (bytes * T)) :
    ~ In name (map fst el) -> add_to NM name v el = el ++ [(name, v)].
  Proof.
    induction el as [|[n x] el IH]; intros H; [reflexivity|]. cbn [add_to app].
    destruct (beq n name) eqn:E.
    - apply beq_true_iff in E. subst n. exfalso. apply H. left. reflexivity.
    - f_equal. apply IH. intros HI. apply H. right. exact HI.
  Qed.

  Lemma merge_fold_nodup (el : list (bytes * T)) : forall acc,
    NoDup (map fst (acc ++ el)) ->
    fold_left (fun acc nv => add_to NM (fst nv) (snd nv) acc) el acc = acc ++ el.
  Proof.
    induction el as [|[n v] el IH]; intros acc H; [cbn; rewrite app_nil_r; reflexivity|].
    cbn [fold_left fst snd]. rewrite add_to_fresh.
    - rewrite IH; [rewrite <- app_assoc; reflexivity|]. rewrite <- app_assoc. exact H.
    - rewrite map_app in H. cbn [map fst] in H. apply NoDup_remove_2 in H. intros HI. apply H.
      apply in_or_app. left. exact HI.
  Qed.

  (** merging is the identity on pairwise distinct names *)
  Lemma merge_elements_nodup (el : list (bytes * T)) :
    NoDup (map fst el) -> merge_elements NM el = el.
  Proof. intros H. unfold merge_elements. apply (merge_fold_nodup el []). exact H. Qed.

  (** *** a layout under which a parsed header is a date is a heading layout, up to the spaces at
      its end (a space of the layout matches the empty run at the end of the header) *)
  Lemma parse_tokens_only_spaces sp : Forall (fun t => t = Lit 32) sp ->
    forall s y0 m0 d0 r, parse_tokens sp s y0 m0 d0 = Some r -> Forall (fun c => c = 32) s.
  Proof.
    induction 1 as [|t sp -> _ IH]; intros s y0 m0 d0 r H.
    - cbn in H. destruct s; [constructor|discriminate].
    - apply parse_tokens_space_step in H. destruct H as [pre [s' [-> [Hpre H]]]].
      apply Forall_app. split; [exact Hpre|]. apply (IH _ _ _ _ _ H).
  Qed.

  (** the text read under a layout whose last token before its final spaces is the literal [c]
      (not a space) ends with [c] and spaces *)
  Lemma parse_tokens_last l : forall c sp s y0 m0 d0 r,
    c <> 32 -> Forall (fun t => t = Lit 32) sp ->
    parse_tokens (l ++ Lit c :: sp) s y0 m0 d0 = Some r ->
    exists s' post, s = s' ++ c :: post /\ Forall (fun x => x = 32) post.
  Proof.
    induction l as [|t l IH]; intros c sp s y0 m0 d0 r Hc Hsp H.
    - cbn [app] in H. rewrite parse_tokens_lit in H by exact Hc.
      destruct s as [|c' s']; [discriminate|]. destruct (N.eqb_spec c c') as [<-|]; [|discriminate].
      exists [], s'. split; [reflexivity|]. apply (parse_tokens_only_spaces sp Hsp _ _ _ _ _ H).
    - cbn [app parse_tokens] in H.
      assert (Htd : forall n s v s', take_digits n s 0%Z = Some (v, s') -> exists p, s = p ++ s').
      { clear. intros n. generalize 0%Z. induction n as [|n IHn]; intros acc s v s' H.
        - cbn in H. injection H as _ <-. exists []. reflexivity.
        - cbn in H. destruct s as [|x s]; [discriminate|]. destruct (digit_val x); [|discriminate].
          destruct (IHn _ _ _ _ H) as [p Hp]. exists (x :: p). cbn. f_equal. exact Hp. }
      assert (Hgn : forall s v s', get_num s = Some (v, s') -> exists p, s = p ++ s').
      { clear. intros s v s' H. destruct (get_num_prefix _ _ _ H) as [p [-> _]]. exists p. reflexivity. }
      assert (Hds : forall s, exists p, s = p ++ drop_one_space s).
      { clear. intros [|x s]; [exists []; reflexivity|]. rewrite drop_one_space_cons.
        destruct (x =? 32); [exists [x]|exists []]; reflexivity. }
      assert (Hlk : forall tab s v s', lookup_name tab 1 s = Some (v, s') -> exists p, s = p ++ s').
      { clear. intros tab s v s' H. apply lookup_name_split in H. destruct H as [_ [p [-> _]]]. exists p. reflexivity. }
      destruct t as [| | | | | | | |c0].
      + destruct (take_digits 4 s 0) as [[v s']|] eqn:E; [|discriminate].
        destruct (Htd _ _ _ _ E) as [p ->]. destruct (IH _ _ _ _ _ _ _ Hc Hsp H) as [s'' [post [-> Hpost]]].
        exists (p ++ s''), post. split; [rewrite <- app_assoc; reflexivity|exact Hpost].
      + destruct (take_digits 2 s 0) as [[v s']|] eqn:E; [|discriminate].
        destruct (_ && _)%bool; [|discriminate].
        destruct (Htd _ _ _ _ E) as [p ->]. destruct (IH _ _ _ _ _ _ _ Hc Hsp H) as [s'' [post [-> Hpost]]].
        exists (p ++ s''), post. split; [rewrite <- app_assoc; reflexivity|exact Hpost].
      + destruct (take_digits 2 s 0) as [[v s']|] eqn:E; [|discriminate].
        destruct (Htd _ _ _ _ E) as [p ->]. destruct (IH _ _ _ _ _ _ _ Hc Hsp H) as [s'' [post [-> Hpost]]].
        exists (p ++ s''), post. split; [rewrite <- app_assoc; reflexivity|exact Hpost].
      + destruct (get_num s) as [[v s']|] eqn:E; [|discriminate].
        destruct (Hgn _ _ _ E) as [p ->]. destruct (IH _ _ _ _ _ _ _ Hc Hsp H) as [s'' [post [-> Hpost]]].
        exists (p ++ s''), post. split; [rewrite <- app_assoc; reflexivity|exact Hpost].
      + destruct (get_num (drop_one_space s)) as [[v s']|] eqn:E; [|discriminate].
        destruct (Hds s) as [p0 E0]. destruct (Hgn _ _ _ E) as [p E1].
        destruct (IH _ _ _ _ _ _ _ Hc Hsp H) as [s'' [post [-> Hpost]]].
        exists (p0 ++ p ++ s''), post. split; [|exact Hpost].
        rewrite E0, E1. rewrite <- !app_assoc. reflexivity.
      + destruct (get_num s) as [[v s']|] eqn:E; [|discriminate].
        destruct (_ && _)%bool; [|discriminate].
        destruct (Hgn _ _ _ E) as [p ->]. destruct (IH _ _ _ _ _ _ _ Hc Hsp H) as [s'' [post [-> Hpost]]].
        exists (p ++ s''), post. split; [rewrite <- app_assoc; reflexivity|exact Hpost].
      + destruct (lookup_name short_months 1 s) as [[v s']|] eqn:E; [|discriminate].
        destruct (Hlk _ _ _ _ E) as [p ->]. destruct (IH _ _ _ _ _ _ _ Hc Hsp H) as [s'' [post [-> Hpost]]].
        exists (p ++ s''), post. split; [rewrite <- app_assoc; reflexivity|exact Hpost].
      + destruct (lookup_name long_months 1 s) as [[v s']|] eqn:E; [|discriminate].
        destruct (Hlk _ _ _ _ E) as [p ->]. destruct (IH _ _ _ _ _ _ _ Hc Hsp H) as [s'' [post [-> Hpost]]].
        exists (p ++ s''), post. split; [rewrite <- app_assoc; reflexivity|exact Hpost].
      + revert H. destruct (N.eqb_spec c0 32) as [->|Hc0]; intros H.
        * apply (parse_tokens_space_step (l ++ Lit c :: sp) s y0 m0 d0 r) in H.
          destruct H as [pre [s1 [-> [_ H]]]].
          destruct (IH _ _ _ _ _ _ _ Hc Hsp H) as [s'' [post [-> Hpost]]].
          exists (pre ++ s''), post. split; [rewrite <- app_assoc; reflexivity|exact Hpost].
        * destruct s as [|c' s']; [discriminate|]. destruct (c0 =? c'); [|discriminate].
          destruct (IH _ _ _ _ _ _ _ Hc Hsp H) as [s'' [post [-> Hpost]]].
          exists (c' :: s''), post. split; [reflexivity|exact Hpost].
  Qed.

  (** a layout under which a parsed header is a date has, up to the spaces at its end, tokens at its two
      ends that the parser's trimming does not touch; it is a heading layout when in addition what it
      writes is read back ([stable_layout]) *)
  Lemma readable_heading_edges toks h cv :
    forallb safe_tok toks = true -> header_ok h -> parse_date toks h = Some cv ->
    forallb safe_tok (layout_core toks) = true
    /\ match layout_core toks with t :: _ => edge_tok t | [] => false end = true
    /\ match rev (layout_core toks) with t :: _ => edge_tok t | [] => false end = true.
  Proof.
    intros Hsafe [Hf Hl]. unfold parse_date.
    destruct (parse_tokens toks h 0 1 1) as [r|] eqn:E; [|discriminate]. intros _.
    destruct (layout_core_split toks) as [sp [Et Hsp]].
    pose proof (layout_core_last toks) as Hlast.
    set (core := layout_core toks) in *. clearbody core. subst toks.
    rewrite forallb_app in Hsafe. apply andb_true_iff in Hsafe. destruct Hsafe as [Hcs _].
    split; [exact Hcs|].
    destruct (first_outside_inv _ _ Hf) as [h0 [h' [Eh Hh0]]].
    assert (Hne : core <> []).
    { intros ->. cbn [app] in E. apply (parse_tokens_only_spaces sp Hsp) in E. subst h.
      inversion E; subst. vm_compute in Hh0. discriminate. }
    split.
    - destruct core as [|t core']; [congruence|]. destruct t as [| | | | | | | |c]; try reflexivity.
      cbn [edge_tok]. subst h. cbn [app] in E. destruct (N.eqb_spec c 32) as [->|Hc].
      + rewrite parse_tokens_space_eq in E.
        destruct (N.eqb_spec h0 32) as [->|]; [vm_compute in Hh0; discriminate|discriminate].
      + rewrite parse_tokens_lit in E by exact Hc. destruct (N.eqb_spec c h0) as [->|]; [|discriminate].
        rewrite Hh0. reflexivity.
    - destruct (snoc_cases core) as [->|[l [t ->]]]; [congruence|].
      rewrite rev_app_distr. cbn [rev app]. destruct t as [| | | | | | | |c]; try reflexivity. cbn [edge_tok].
      pose proof (Hlast l c eq_refl) as Hc.
      rewrite <- app_assoc in E. cbn [app] in E.
      destruct (parse_tokens_last _ _ _ _ _ _ _ _ Hc Hsp E) as [s' [post [Es Hpost]]].
      destruct (snoc_cases post) as [->|[p [x ->]]].
      + rewrite Es in Hl. rewrite last_outside_snoc in Hl. exact Hl.
      + exfalso. rewrite Es in Hl. apply Forall_app in Hpost. destruct Hpost as [_ Hx].
        inversion Hx; subst.
        replace (s' ++ c :: p ++ [32]) with ((s' ++ c :: p) ++ [32]) in Hl by (rewrite <- app_assoc; reflexivity).
        rewrite last_outside_snoc in Hl. vm_compute in Hl. discriminate.
  Qed.

  Lemma readable_heading_layout toks h cv :
    forallb safe_tok toks = true -> stable_layout toks = true -> header_ok h -> parse_date toks h = Some cv ->
    heading_layout (layout_core toks) = true.
  Proof.
    intros Hsafe Hst Hh Hp. destruct (readable_heading_edges toks h cv Hsafe Hh Hp) as [H1 [H2 H3]].
    unfold heading_layout. rewrite H1, H2, H3, (stable_layout_core _ Hst). reflexivity.
  Qed.
End PrintNormal.

(** the final spaces matter: a heading read under a layout that is not a heading layout itself
    (the space at the end of the layout matches the empty run at the end of the heading) *)
Example readable_layout_trailing_space :
  let toks := [Y4; Lit 47; M2; Lit 47; D2; Lit 32] in
  tokenize (b "2006/01/02 ") = Some toks
  /\ forallb safe_tok toks = true /\ header_ok (b "2021/01/01")
  /\ parse_date toks (b "2021/01/01") = Some (2021, 1, 1)%Z
  /\ heading_layout toks = false /\ heading_layout (layout_core toks) = true.
Proof. vm_compute. repeat split. Qed.
