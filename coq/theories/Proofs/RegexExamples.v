(** Non-vacuity examples for the regular expressions of [reg -f] at the
    exact-integer instance [ZNum] (history of Proofs/ComposeExamples.v). *)
From HP Require Import Base.Bytes Base.Utf8 Base.Num Model.Scanner Model.Parser Model.Elements Model.Dates
  Model.Tree Model.Writer Model.Regex Model.Reporters Model.Cli Spec.ComposeSpec Spec.RegexSpec
  Proofs.ComposeExamples Proofs.RegexSem Proofs.RegexPlain Proofs.RegexReporter.

Definition with_pattern (p : string) : rconfig :=
  {| rc_color := false; rc_totals_only := false; rc_totals := true; rc_date := toks;
     rc_single_element := []; rc_single_food := b p; rc_collapse_last := false; rc_collapse := false;
     rc_group_food := false; rc_shorten := false; rc_old := false; rc_template := b "default"; rc_csv := false |}.

(** an anchored alternation with a class, a repetition and an escape *)
Definition c_re : rconfig := with_pattern "^[ab]p{2}.*e$|\bo[a-z]+$|wat\w{2}".

Example ex_re_compiles :
  pattern_ok (rc_single_food c_re) = true
  /\ plain_pattern (rc_single_food c_re) = false
  /\ (match parse_regex (rc_single_food c_re) with ReOk r => anchor_free r | _ => true end) = false.
Proof. vm_compute. repeat split. Qed.

(** the hypothesis of the composition theorem holds and the parts are not trivial:
    apple (both days and the repeated date), water, fat/oil ([\b] after the slash); bread is left out *)
Example ex_re_concat :
  snd (report ZNum (rep_single_food ZNum c_re) pd idp toks None None evs1) = None
  /\ fst (report ZNum (rep_single_food ZNum c_re) pd idp toks None None (evs1 ++ evs2))
     = fst (report ZNum (rep_single_food ZNum c_re) pd idp toks None None evs1)
       ++ fst (report ZNum (rep_single_food ZNum c_re) (fun i => pd (2 + i)) idp toks None None evs2)
  /\ fst (report ZNum (rep_single_food ZNum c_re) pd idp toks None None evs1)
     = b ("2021/01/01" ++ String (ascii_of_nat 9) "apple" ++ String (ascii_of_nat 9) "2" ++ lf ++
          "2021/01/02" ++ String (ascii_of_nat 9) "apple" ++ String (ascii_of_nat 9) "1" ++ lf ++
          "2021/01/02" ++ String (ascii_of_nat 9) "water" ++ String (ascii_of_nat 9) "3" ++ lf)%string
  /\ fst (report ZNum (rep_single_food ZNum c_re) pd idp toks None None evs2)
     = b ("2021/01/01" ++ String (ascii_of_nat 9) "apple" ++ String (ascii_of_nat 9) "3" ++ lf ++
          "2021/01/01" ++ String (ascii_of_nat 9) "fat/oil" ++ String (ascii_of_nat 9) "4" ++ lf)%string.
Proof. vm_compute. repeat split. Qed.

(** the same through the theorems *)
Example ex_re_concat_thm :
  fst (report ZNum (rep_single_food ZNum c_re) pd idp toks None None (evs1 ++ evs2))
  = fst (report ZNum (rep_single_food ZNum c_re) pd idp toks None None evs1)
    ++ fst (report ZNum (rep_single_food ZNum c_re) (fun i => pd (selected_days ZNum toks None None evs1 + i)) idp toks None None evs2).
Proof.
  apply (single_food_reports_concat ZNum c_re).
  - vm_compute. discriminate.
  - vm_compute. reflexivity.
Qed.

(** an invalid pattern (missing closing parenthesis): both the whole history and its
    first part fail with the regexp error before anything is printed *)
Definition c_bad : rconfig := with_pattern "app(le".

Example ex_invalid :
  parse_regex (rc_single_food c_bad) = ReError
  /\ report ZNum (rep_single_food ZNum c_bad) pd idp toks None None (evs1 ++ evs2) = ([], Some ERegexp)
  /\ report ZNum (rep_single_food ZNum c_bad) pd idp toks None None evs1 = ([], Some ERegexp)
  /\ invalid_pattern_error ZNum toks None None (evs1 ++ evs2) = Some ERegexp
  /\ report ZNum (rep_single_food ZNum c_bad) pd idp toks None None [] = ([], None).
Proof. vm_compute. repeat split. Qed.

(** declined: a Unicode class *)
Example ex_declined :
  parse_regex (b "\pL+") = ReUnmodelled
  /\ snd (report ZNum (rep_single_food ZNum (with_pattern "\pL+")) pd idp toks None None evs1)
     = Some (EUnmodelled (b "regexp")).
Proof. vm_compute. split; reflexivity. Qed.

(** the semantics: [a.c] finds the substring "abc" of "xabcx" between two x *)
Example ex_matches :
  name_matches (RCat (RLit 97%N) (RCat RAny (RLit 99%N))) (b "xabcx")
  /\ re_search (RCat (RLit 97%N) (RCat RAny (RLit 99%N))) (b "xabcx") = true.
Proof.
  split; [|reflexivity].
  exists [120%N], [97%N; 98%N; 99%N], [120%N]. split; [reflexivity|].
  change [97%N; 98%N; 99%N] with ([97%N] ++ [98%N; 99%N]). apply MCat; [constructor|].
  change [98%N; 99%N] with ([98%N] ++ [99%N]). apply MCat; constructor. discriminate.
Qed.

(** the fast path: a non-ASCII plain pattern; the general path parses the same literal
    and finds the same names (also in a name with an invalid byte) *)
Example ex_plain_literal :
  let p := [99; 97; 102; 195; 169]%N in          (* "café" *)
  plain_pattern p = true /\ valid_utf8_no_fffd p = true
  /\ parse_regex p = ReOk (lit_string [99; 97; 102; 233]%N)
  /\ re_search (lit_string [99; 97; 102; 233]%N) ([255; 99; 97; 102; 195; 169; 33]%N) = true
  /\ contains p ([255; 99; 97; 102; 195; 169; 33]%N) = true
  /\ re_search (lit_string [99; 97; 102; 233]%N) ([99; 97; 102; 195]%N) = false.
Proof. vm_compute. repeat split. Qed.

(** case folding: (?i)k finds the Kelvin sign, \w under (?i) too *)
Example ex_fold :
  (match parse_regex (b "(?i)k") with ReOk r => re_search r [226; 132; 170]%N | _ => false end) = true
  /\ (match parse_regex (b "k") with ReOk r => re_search r [226; 132; 170]%N | _ => true end) = false.
Proof. vm_compute. split; reflexivity. Qed.
