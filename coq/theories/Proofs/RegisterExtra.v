(** WP06 (C02) – beyond the core:
    - with the additive laws, the columns are plain sums and  pos + neg = sum of
      all contributions (the "sum" column);
    - the link to the walk of Cli.v ([walk_cb] hands the reporter [day_node]);
    - byte-level agreement of the old reporter and the default template. *)
From Coq Require Import Lia Permutation Sorted.
From HP Require Import Base.Bytes Base.Utf8 Base.Num Model.Elements Model.Dates Model.Tree Model.Writer Model.Reporters.
From HP Require Import Model.Parser Model.Cli.
From HP Require Import Spec.RegisterSpec Proofs.RegisterSort Proofs.RegisterAssoc Proofs.Register.

Section Laws.
  Context (NM : Num).
  Notation T := (T NM).

  (** ** with [zero + x = x] the first-assign-then-add folds are folds from [zero] *)
  Lemma sum1_from_zero : (forall x : T, add NM (zero NM) x = x) ->
    forall l, sum1 NM l = fold_left (add NM) l (zero NM).
  Proof. intros H0 [|a r]; [reflexivity|]. cbn [sum1 fold_left]. rewrite H0. reflexivity. Qed.

  Lemma qty_of_from_zero : (forall x : T, add NM (zero NM) x = x) ->
    forall es f, qty_of NM es f = fold_left (add NM) (values_of NM es f) (zero NM).
  Proof. intros H0 es f. apply sum1_from_zero, H0. Qed.

  Lemma pos_of_from_zero : (forall x : T, add NM (zero NM) x = x) ->
    forall cs x, pos_of NM cs x
                 = fold_left (add NM) (filter (fun w => negb (is_neg NM w)) (values_of NM cs x)) (zero NM).
  Proof.
    intros H0 cs x. unfold pos_of. destruct (values_of NM cs x) as [|a r]; [reflexivity|].
    cbn [filter]. destruct (is_neg NM a); cbn [negb fold_left]; [reflexivity | rewrite H0; reflexivity].
  Qed.

  Lemma neg_of_from_zero : (forall x : T, add NM (zero NM) x = x) ->
    forall cs x, neg_of NM cs x = fold_left (add NM) (filter (is_neg NM) (values_of NM cs x)) (zero NM).
  Proof.
    intros H0 cs x. unfold neg_of. destruct (values_of NM cs x) as [|a r]; [reflexivity|].
    cbn [filter]. destruct (is_neg NM a); cbn [fold_left]; [rewrite H0; reflexivity | reflexivity].
  Qed.

  (** ** pos + neg = the sum of all contributions *)
  Lemma fold_split : AddMonoid NM -> forall l (a c : T),
    add NM (fold_left (add NM) (filter (fun w => negb (is_neg NM w)) l) a)
           (fold_left (add NM) (filter (is_neg NM) l) c)
    = fold_left (add NM) l (add NM a c).
  Proof.
    intros [Hc Ha H0] l. induction l as [|h r IH]; intros a c; [reflexivity|].
    cbn [filter fold_left]. destruct (is_neg NM h); cbn [negb fold_left]; rewrite IH; f_equal.
    - apply Ha.
    - rewrite <- !Ha. f_equal. apply Hc.
  Qed.

  Theorem totals_sum_column : AddMonoid NM -> forall cs x,
    add NM (pos_of NM cs x) (neg_of NM cs x) = fold_left (add NM) (values_of NM cs x) (zero NM).
  Proof.
    intros HM cs x. unfold pos_of, neg_of. destruct (values_of NM cs x) as [|a r].
    - cbn [fold_left]. apply (am_0_l NM HM).
    - rewrite (fold_split HM). cbn [fold_left]. f_equal.
      destruct (is_neg NM a); [reflexivity|]. apply (am_comm NM HM).
  Qed.

  (** every row of a day's totals: third figure = plain sum of the contributions of its name *)
  Corollary day_totals_sum : AddMonoid NM -> forall d es r, In r (day_totals NM d es) ->
    snd r = fold_left (add NM) (values_of NM (contributed NM d es) (total_name NM r)) (zero NM).
  Proof.
    intros HM d es r Hr. destruct (totals_rows NM d es r Hr) as [E _]. cbv zeta in E.
    rewrite E at 1. cbn [snd]. apply totals_sum_column, HM.
  Qed.
End Laws.

(** * the walk hands the reporters exactly [day_node] *)
Section Walk.
  Context (NM : Num).
  Notation T := (T NM).

  Lemma walk_cb_day : forall (R : reporter NM) perm_day toks bt et rs i wr (n : pnode NM) cv,
    parse_date toks (header n) = Some cv ->
    in_interval bt et (time_of_civil cv) = true ->
    walk_cb NM R perm_day toks bt et (rs, i, wr) (ENode n)
    = let '(rs', chunks, perr) :=
          r_process NM R (perm_day i) rs (day_node NM (time_of_civil cv, elems n, meta n)) in
      let '(wr', werr) := bw_chunks wr chunks in
      let e := if werr then Some EWrite else perr in
      ((rs', S i, wr'), match e with Some _ => true | None => false end, e).
  Proof.
    intros R perm_day toks bt et rs i wr n cv Hd Hi. cbn [walk_cb]. rewrite Hd, Hi. reflexivity.
  Qed.

  Lemma walk_cb_skipped : forall (R : reporter NM) perm_day toks bt et st (n : pnode NM) cv,
    parse_date toks (header n) = Some cv ->
    in_interval bt et (time_of_civil cv) = false ->
    walk_cb NM R perm_day toks bt et st (ENode n) = (st, false, None).
  Proof.
    intros R perm_day toks bt et [[rs i] wr] n cv Hd Hi. cbn [walk_cb]. rewrite Hd, Hi. reflexivity.
  Qed.

  (** a selected day under the template reporter: one checked write of the day's chunk *)
  Theorem walk_cb_template : forall c d perm_day toks bt et rs i wr (n : pnode NM) cv,
    oracle (perm_day i) ->
    parse_date toks (header n) = Some cv ->
    in_interval bt et (time_of_civil cv) = true ->
    walk_cb NM (rep_template NM c d) perm_day toks bt et (rs, i, wr) (ENode n)
    = let '(wr', werr) := bw_chunks wr [template_day_chunk NM c d (time_of_civil cv) (elems n)] in
      ((tt, S i, wr'), werr, if werr then Some EWrite else None).
  Proof.
    intros c d perm_day toks bt et rs i wr n cv Hp Hd Hi.
    rewrite (walk_cb_day _ _ _ _ _ _ _ _ _ _ Hd Hi). unfold day_node. cbn [fst snd].
    rewrite (template_process_spec NM c d (perm_day i) rs _ _ _ Hp).
    destruct (bw_chunks wr _) as [wr' werr]. destruct werr; reflexivity.
  Qed.

  Theorem walk_cb_old : forall c d perm_day toks bt et rs i wr (n : pnode NM) cv,
    oracle (perm_day i) ->
    parse_date toks (header n) = Some cv ->
    in_interval bt et (time_of_civil cv) = true ->
    walk_cb NM (rep_old NM c d) perm_day toks bt et (rs, i, wr) (ENode n)
    = let '(wr', werr) := bw_chunks wr (old_day_chunks NM c d (time_of_civil cv) (elems n)) in
      ((tt, S i, wr'), werr, if werr then Some EWrite else None).
  Proof.
    intros c d perm_day toks bt et rs i wr n cv Hp Hd Hi.
    rewrite (walk_cb_day _ _ _ _ _ _ _ _ _ _ Hd Hi). unfold day_node. cbn [fst snd].
    rewrite (old_process_spec NM c d (perm_day i) rs _ _ _ Hp).
    destruct (bw_chunks wr _) as [wr' werr]. destruct werr; reflexivity.
  Qed.
End Walk.

(** * the old reporter writes, byte for byte, what the default template writes
    (long names not shortened; and, when totals are on, at least one contribution
    that day – otherwise the template prints a TOTAL header and the old reporter
    does not) *)
Section BytesAgree.
  Context (NM : Num).
  Notation T := (T NM).

  Definition chunk_bytes (chs : list chunk) : bytes := flat_map (fun ch => fst ch) chs.

  Definition lf_after (x : bytes) : bytes := x ++ [c_lf].
  Definition lf_before (x : bytes) : bytes := c_lf :: x.

  Lemma shift_lf : forall B : list bytes, c_lf :: flat_map lf_after B = flat_map lf_before B ++ [c_lf].
  Proof.
    induction B as [|x r IH]; [reflexivity|]. cbn [flat_map]. unfold lf_after at 1, lf_before at 1.
    cbn [app]. f_equal. rewrite <- !app_assoc. f_equal. cbn [app]. exact IH.
  Qed.

  Context (c : rconfig).

  Definition food_body (f : bytes) (q : T) : bytes :=
    [c_tab] ++ pad_right 27 f ++ b " :" ++ format_value NM (rc_color c) q.
  Definition ing_body (i : bytes * T) : bytes :=
    [c_tab; c_tab] ++ pad_left 20 (fst i) ++ b " " ++ format_value NM (rc_color c) (snd i).
  Definition row_bodies (row : bytes * T * list (bytes * T)) : list bytes :=
    food_body (fst (fst row)) (snd (fst row)) :: map ing_body (snd row).
  Definition tot_body (t : bytes * T * T * T) : bytes :=
    let '(name, p, n, s) := t in
    [c_tab; c_tab] ++ pad_left 20 name ++ b " " ++ format_value NM (rc_color c) p ++ b " "
    ++ format_value NM (rc_color c) n ++ b " =" ++ format_value NM (rc_color c) s.

  Lemma chunk_bytes_cons : forall x l, chunk_bytes (x :: l) = fst x ++ chunk_bytes l.
  Proof. reflexivity. Qed.

  Lemma chunk_bytes_app : forall l1 l2, chunk_bytes (l1 ++ l2) = chunk_bytes l1 ++ chunk_bytes l2.
  Proof. intros. apply flat_map_app. Qed.

  Lemma old_ings_bytes : forall ings,
    chunk_bytes (map (old_ingredient_chunk NM c) ings) = flat_map lf_after (map ing_body ings).
  Proof.
    induction ings as [|i r IH]; [reflexivity|].
    cbn [map]. rewrite chunk_bytes_cons, IH. cbn [flat_map]. f_equal.
    unfold old_ingredient_chunk, unchecked, lf_after, ing_body. cbn [fst]. rewrite <- !app_assoc. reflexivity.
  Qed.

  Lemma old_rows_bytes : forall rows,
    chunk_bytes (flat_map (old_row_chunks NM c) rows) = flat_map lf_after (flat_map row_bodies rows).
  Proof.
    induction rows as [|[[f q] ings] r IH]; [reflexivity|].
    cbn [flat_map]. rewrite chunk_bytes_app, flat_map_app, IH. f_equal.
    unfold old_row_chunks, row_bodies. cbn [fst snd].
    rewrite chunk_bytes_cons. cbn [flat_map].
    rewrite old_ings_bytes. f_equal.
    unfold old_food_chunk, unchecked, lf_after, food_body. cbn [fst]. rewrite <- !app_assoc. reflexivity.
  Qed.

  Lemma old_tots_bytes : forall ts,
    chunk_bytes (map (old_total_chunk NM c) ts) = flat_map lf_after (map tot_body ts).
  Proof.
    induction ts as [|[[[name p] n] s] r IH]; [reflexivity|].
    cbn [map]. rewrite chunk_bytes_cons, IH. cbn [flat_map]. f_equal.
    unfold old_total_chunk, unchecked, lf_after, tot_body. cbn [fst]. rewrite <- !app_assoc. reflexivity.
  Qed.

  Hypothesis no_shorten : rc_shorten c = false.

  Lemma new_ings_bytes : forall ings : list (bytes * T),
    flat_map (fun i => [c_lf; c_tab; c_tab] ++ pad_left 20 (shorten (rc_shorten c) (fst i) 20) ++ b " "
                       ++ format_value NM (rc_color c) (snd i)) ings
    = flat_map lf_before (map ing_body ings).
  Proof.
    rewrite no_shorten. induction ings as [|i r IH]; [reflexivity|].
    cbn [map flat_map]. rewrite IH. reflexivity.
  Qed.

  Lemma new_rows_bytes : forall rows : list (bytes * T * list (bytes * T)),
    flat_map (fun e =>
         let '(name, v, ings) := e in
         [c_lf; c_tab] ++ pad_right 27 (shorten (rc_shorten c) name 27) ++ b " :" ++ format_value NM (rc_color c) v
         ++ flat_map (fun i => [c_lf; c_tab; c_tab] ++ pad_left 20 (shorten (rc_shorten c) (fst i) 20) ++ b " "
                               ++ format_value NM (rc_color c) (snd i)) ings) rows
    = flat_map lf_before (flat_map row_bodies rows).
  Proof.
    induction rows as [|[[f q] ings] r IH]; [reflexivity|].
    cbn [flat_map]. rewrite IH, flat_map_app. f_equal.
    rewrite new_ings_bytes. unfold row_bodies. cbn [fst snd flat_map].
    rewrite no_shorten. unfold lf_before at 2, food_body, shorten. cbn [app]. rewrite <- !app_assoc. reflexivity.
  Qed.

  Lemma new_tots_bytes : forall ts : list (bytes * T * T * T),
    flat_map (fun t =>
                let '(name, p, n, s) := t in
                [c_lf; c_tab; c_tab] ++ pad_left 20 (shorten (rc_shorten c) name 20) ++ b " "
                ++ format_value NM (rc_color c) p ++ b " " ++ format_value NM (rc_color c) n ++ b " ="
                ++ format_value NM (rc_color c) s) ts
    = flat_map lf_before (map tot_body ts).
  Proof.
    rewrite no_shorten. induction ts as [|[[[name p] n] s] r IH]; [reflexivity|].
    cbn [map flat_map]. rewrite IH. reflexivity.
  Qed.

  (** all the lines of a day, without their line ends *)
  Definition day_lines (it : report_item NM) : list bytes :=
    flat_map row_bodies (ri_elements NM it)
    ++ match ri_totals NM it with
       | None => []
       | Some ts => total_header_default :: map tot_body ts
       end.

  Lemma render_default_lines : forall it,
    render_default NM c it = fdate c (ri_time NM it) ++ flat_map lf_before (day_lines it) ++ [c_lf].
  Proof.
    intro it. unfold render_default, day_lines. rewrite new_rows_bytes. f_equal.
    rewrite flat_map_app, <- !app_assoc. f_equal. f_equal.
    destruct (ri_totals NM it) as [ts|]; [|reflexivity].
    rewrite new_tots_bytes. reflexivity.
  Qed.

  Theorem old_bytes_eq_default : forall d t es,
    (rc_totals c = true -> day_totals NM d es <> []) ->
    chunk_bytes (old_day_chunks NM c d t es) = render_default NM c (day_item NM c d t es).
  Proof.
    intros d t es Hne. rewrite render_default_lines. cbn [day_item ri_time].
    rewrite <- shift_lf. unfold old_day_chunks.
    rewrite chunk_bytes_cons. cbn [unchecked fst].
    rewrite <- app_assoc. f_equal. cbn [app]. f_equal.
    rewrite chunk_bytes_app. unfold day_lines. cbn [day_item ri_elements ri_totals].
    rewrite flat_map_app. f_equal.
    - destruct (rc_totals_only c); [reflexivity | apply old_rows_bytes].
    - destruct (rc_totals c); [|reflexivity].
      destruct (day_totals NM d es) as [|row rows]; [exfalso; apply Hne; reflexivity|].
      rewrite chunk_bytes_cons.
      rewrite old_tots_bytes. reflexivity.
  Qed.

  (** the one layout difference, exactly: a day without any contribution, totals on *)
  Theorem old_bytes_no_contribution : forall d t es,
    rc_totals c = true -> day_totals NM d es = [] ->
    render_default NM c (day_item NM c d t es)
    = chunk_bytes (old_day_chunks NM c d t es) ++ total_header_default ++ [c_lf].
  Proof.
    intros d t es Ht He. rewrite render_default_lines. cbn [day_item ri_time].
    unfold old_day_chunks, day_lines. cbn [day_item ri_elements ri_totals]. rewrite Ht, He.
    rewrite chunk_bytes_cons. cbn [unchecked fst map]. rewrite app_nil_r.
    rewrite <- !app_assoc. f_equal. rewrite flat_map_app. cbn [flat_map]. rewrite app_nil_r.
    unfold lf_before at 2.
    transitivity ((c_lf :: flat_map lf_after
                     (flat_map row_bodies (if rc_totals_only c then [] else day_rows NM d es)))
                  ++ total_header_default ++ [c_lf]).
    - rewrite shift_lf, <- !app_assoc. reflexivity.
    - cbn [app]. f_equal. f_equal.
      destruct (rc_totals_only c); [reflexivity | symmetry; apply old_rows_bytes].
  Qed.
End BytesAgree.
