(** WP08: the leaves of the balance tree; pre-order over sorted siblings is
    the lexicographic order of paths. *)
From HP Require Import Base.Bytes Base.Num Model.Elements Model.Tree Model.Reporters.
From HP Require Import Spec.TreeShared Spec.TreeSpec Proofs.TreeBytes Proofs.TreeBuild Proofs.TreeChain Proofs.TreeOrder.
From Coq Require Import Lia Sorted Permutation.

Section TreeLeaves.
  Context (NM : Num).
  Notation T := (T NM).
  Notation tree := (tree NM).
  Notation t_name := (t_name NM).
  Notation t_total := (t_total NM).
  Notation t_children := (t_children NM).
  Notation find_child := (find_child NM).
  Notation node_at := (node_at NM).
  Notation order_tree := (order_tree NM).
  Notation tpaths := (tpaths NM).
  Notation fpaths := (fpaths NM).
  Notation forest_add := (forest_add NM).
  Notation wf_forest := (wf_forest NM).
  Notation entries := (list (bytes * T)).

  Fixpoint tleaves (t : tree) : list (list bytes * T) :=
    match t with
    | Node n x ch =>
        match ch with
        | [] => [([n], x)]
        | _ :: _ => map (fun px => (n :: fst px, snd px)) (flat_map tleaves ch)
        end
    end.
  Definition fleaves (ch : list tree) : list (list bytes * T) := flat_map tleaves ch.

  Lemma tleaves_node : forall t,
    tleaves t = match t_children t with
                | [] => [([t_name t], t_total t)]
                | _ :: _ => map (fun px => (t_name t :: fst px, snd px)) (fleaves (t_children t))
                end.
  Proof. intros [n x ch]. reflexivity. Qed.

  Lemma leaves_below_fleaves : forall t prefix,
    leaves_below NM prefix t = map (fun px => (prefix ++ fst px, snd px)) (fleaves (t_children t)).
  Proof.
    induction t as [n x ch IH] using (tree_ind' NM). intro prefix.
    cbn [leaves_below Tree.t_children]. unfold fleaves. rewrite map_flat_map.
    apply flat_map_ext_in. intros c Hc. rewrite Forall_forall in IH. rewrite (IH c Hc).
    rewrite (tleaves_node c). destruct (t_children c) as [|c1 r]; [reflexivity|].
    rewrite map_map. apply map_ext. intros [p y]. cbn [fst snd]. rewrite <- app_assoc. reflexivity.
  Qed.

  Lemma tree_leaves_fleaves : forall t, tree_leaves NM t = fleaves (t_children t).
  Proof.
    intro t. unfold tree_leaves. rewrite leaves_below_fleaves.
    rewrite <- (map_id (fleaves (t_children t))) at 2. apply map_ext. intros [p x]. reflexivity.
  Qed.

  (** * leaves are the nodes without children *)
  Lemma in_tleaves : forall t p x,
    In (p, x) (tleaves t) <->
    (t_children t = [] /\ p = [t_name t] /\ x = t_total t) \/
    (t_children t <> [] /\ exists p', p = t_name t :: p' /\ In (p', x) (fleaves (t_children t))).
  Proof.
    intros t p x. rewrite tleaves_node. destruct (t_children t) as [|c r].
    - split.
      + intros [E|[]]. inversion E; subst. left. repeat split.
      + intros [[_ [E1 E2]]|[Hne _]]; [subst; left; reflexivity|congruence].
    - split.
      + intro H. apply in_map_iff in H. destruct H as [[p' x'] [E H]]. cbn [fst snd] in E. inversion E; subst.
        right. split; [discriminate|]. exists p'. split; [reflexivity|exact H].
      + intros [[E _]|[_ [p' [E H]]]]; [discriminate|]. subst p. apply in_map_iff. exists (p', x). split; [reflexivity|exact H].
  Qed.

  Lemma fleaves_nonnil : forall ch p x, In (p, x) (fleaves ch) -> p <> [].
  Proof.
    intros ch p x H. apply in_flat_map in H. destruct H as [c [_ H]]. apply in_tleaves in H.
    destruct H as [[_ [E _]]|[_ [p' [E _]]]]; subst; discriminate.
  Qed.

  Lemma in_fleaves_node_at : forall p ch x,
    wf_forest ch ->
    (In (p, x) (fleaves ch) <-> exists t, node_at p ch = Some t /\ t_children t = [] /\ t_total t = x).
  Proof.
    induction p as [|a p IH]; intros ch x Hwf.
    - split.
      + intro H. apply fleaves_nonnil in H. congruence.
      + intros [t [H _]]. discriminate.
    - destruct Hwf as [Hnd Hall]. rewrite node_at_cons. split.
      + intro H. apply in_flat_map in H. destruct H as [c [Hc H]]. apply in_tleaves in H.
        destruct H as [[Ech [E1 E2]]|[Hne [p' [E H]]]].
        * inversion E1; subst. rewrite (find_child_nodup NM _ _ Hnd Hc). exists c. repeat split. exact Ech.
        * inversion E; subst. rewrite (find_child_nodup NM _ _ Hnd Hc).
          pose proof (fleaves_nonnil _ _ _ H) as Hne'. destruct p' as [|a' p']; [congruence|].
          cbn [nonnil]. apply IH; [|exact H]. apply wf_forest_children.
          rewrite Forall_forall in Hall. apply Hall. exact Hc.
      + intros [t [H [Ech Ex]]]. destruct (find_child a ch) as [c|] eqn:Ef; [|discriminate].
        apply find_child_some in Ef. destruct Ef as [Hc En]. apply in_flat_map. exists c. split; [exact Hc|].
        apply in_tleaves. destruct p as [|a' p]; cbn [nonnil] in H.
        * inversion H; subst. left. repeat split. exact Ech.
        * right. split.
          -- intro E. rewrite E in H. discriminate.
          -- exists (a' :: p). split; [rewrite En; reflexivity|].
             apply IH; [|exists t; repeat split; assumption]. apply wf_forest_children.
             rewrite Forall_forall in Hall. apply Hall. exact Hc.
  Qed.

  (** the leaves of the built tree: the paths that no logged path extends *)
  Theorem built_leaves_spec : forall es p x,
    let t := tree_add_all NM (empty_root NM) es in
    In (p, x) (tree_leaves NM t) <->
    In (p, x) (tree_paths NM t) /\
    (forall f q, In (f, q) es -> is_prefix_path p (segs f) = true -> segs f = p).
  Proof.
    intros es p x t. subst t. rewrite empty_root_built, tree_leaves_fleaves, tree_paths_fpaths.
    cbn [Tree.t_children].
    rewrite (in_fleaves_node_at _ _ _ (wf_forest_built NM es)), (in_fpaths_node_at NM _ _ _ (wf_forest_built NM es)).
    split.
    - intros [t [Ht [Ech Ex]]]. split; [exists t; split; assumption|].
      intros f q Hin Hp. apply is_prefix_path_iff in Hp. destruct Hp as [r Er]. destruct r as [|c r].
      + rewrite Er. apply app_nil_r.
      + exfalso. assert (Hne : p <> []) by (intro E; subst; discriminate).
        assert (Hs : exists t', node_at (p ++ [c]) (forest_add [] es) = Some t').
        { apply node_at_forest_some. split; [destruct p; discriminate|]. exists f, q. split; [exact Hin|].
          apply is_prefix_path_snoc. exists r. exact Er. }
        destruct Hs as [t' Ht']. rewrite node_at_snoc in Ht' by exact Hne. rewrite Ht, Ech in Ht'. discriminate.
    - intros [[t [Ht Ex]] Hmax]. exists t. split; [exact Ht|]. split; [|exact Ex].
      destruct (t_children t) as [|c0 r] eqn:Ech; [reflexivity|]. exfalso.
      assert (Hne : p <> []) by (intro E; subst; discriminate).
      assert (Hs : exists t', node_at (p ++ [t_name c0]) (forest_add [] es) = Some t').
      { exists c0. rewrite node_at_snoc by exact Hne. rewrite Ht, Ech. cbn [Tree.find_child]. rewrite beq_refl. reflexivity. }
      apply node_at_forest_some in Hs. destruct Hs as [_ [f [q [Hin Hp]]]].
      pose proof Hp as Hp'. apply is_prefix_path_snoc in Hp'. destruct Hp' as [r' Er'].
      assert (Hpp : is_prefix_path p (segs f) = true) by (eapply is_prefix_path_trans; [apply is_prefix_path_app|exact Hp]).
      pose proof (Hmax f q Hin Hpp) as E. rewrite Er' in E. symmetry in E. exact (app_cons_not_self _ _ _ E).
  Qed.

  (** under prefix-freeness the leaves are exactly the logged names, each with
      the first-assign-then-add sum of its own quantities *)
  Theorem built_leaves_prefix_free : forall es p x,
    prefix_free NM es ->
    (In (p, x) (tree_leaves NM (tree_add_all NM (empty_root NM) es)) <->
     (exists f q, In (f, q) es /\ segs f = p) /\ x = sum_first NM (map snd (exactly_at NM es p))).
  Proof.
    intros es p x Hpf. rewrite built_leaves_spec. split.
    - intros [Hin Hmax]. pose proof (tree_total_spec NM es p x Hin) as Ex.
      assert (Hp : In p (map fst (tree_paths NM (tree_add_all NM (empty_root NM) es)))) by (apply in_map_iff; exists (p, x); split; [reflexivity|exact Hin]).
      apply (proj2 (tree_paths_once NM es)) in Hp. destruct Hp as [Hne [f [q [Hf Hpf']]]]. split.
      + exists f, q. split; [exact Hf|]. eapply Hmax; eassumption.
      + rewrite Ex. unfold total_at, matching, exactly_at. f_equal. f_equal. apply filter_ext_in.
        intros [g q'] Hg. cbn [fst]. destruct (is_prefix_path p (segs g)) eqn:E.
        * symmetry. apply path_eqb_true_iff. eapply Hmax; eassumption.
        * destruct (path_eqb_spec (segs g) p) as [E'|E']; [|reflexivity]. rewrite E', is_prefix_path_refl in E. discriminate.
    - intros [[f [q [Hf Ef]]] Ex].
      assert (Hmax : forall g q', In (g, q') es -> is_prefix_path p (segs g) = true -> segs g = p).
      { intros g q' Hg Hp. rewrite <- Ef in Hp. rewrite <- Ef. symmetry. eapply Hpf; eassumption. }
      split; [|exact Hmax].
      assert (Hne : p <> []) by (rewrite <- Ef; apply segs_not_nil).
      assert (Hp : is_prefix_path p (segs f) = true) by (rewrite Ef; apply is_prefix_path_refl).
      pose proof (tree_total_complete NM es p f q Hne Hf Hp) as Hin.
      assert (E : x = total_at NM es p); [|rewrite E; exact Hin].
      rewrite Ex. unfold total_at, matching, exactly_at. f_equal. f_equal. apply filter_ext_in.
      intros [g q'] Hg. cbn [fst]. destruct (is_prefix_path p (segs g)) eqn:E.
      + apply path_eqb_true_iff. eapply Hmax; eassumption.
      + destruct (path_eqb_spec (segs g) p) as [E'|E']; [|reflexivity]. rewrite E', is_prefix_path_refl in E. discriminate.
  Qed.

  (** * ordering keeps the leaves *)
  Lemma order_tree_tleaves : forall pi t, is_perm pi -> wf_tree NM t ->
    Permutation (tleaves (order_tree pi t)) (tleaves t).
  Proof.
    intros pi t Hpi. induction t as [n x ch IH] using (tree_ind' NM). intro Hwf.
    pose proof Hwf as Hwf'. apply wf_tree_unfold in Hwf'. destruct Hwf' as [Hnd Hall].
    pose proof (order_children_perm NM pi (Node n x ch) Hpi Hnd) as HP. cbn [Tree.t_children] in HP.
    rewrite (tleaves_node (order_tree pi (Node n x ch))), (tleaves_node (Node n x ch)).
    rewrite order_tree_name, order_tree_total. cbn [Tree.t_name Tree.t_total Tree.t_children].
    destruct ch as [|c r].
    - apply Permutation_sym in HP. apply Permutation_nil in HP. rewrite HP. apply Permutation_refl.
    - destruct (t_children (order_tree pi (Node n x (c :: r)))) as [|c' r'] eqn:Eoc.
      + apply Permutation_nil in HP. discriminate.
      + apply Permutation_map. unfold fleaves.
        eapply Permutation_trans; [apply Permutation_flat_map; exact HP|].
        rewrite flat_map_concat_map, map_map, <- flat_map_concat_map.
        apply Permutation_flat_map_pointwise. rewrite Forall_forall in *. intros c0 Hc0.
        apply IH; [exact Hc0|apply Hall; exact Hc0].
  Qed.

  Theorem order_tree_leaves_perm : forall pi t, is_perm pi -> wf_tree NM t ->
    Permutation (tree_leaves NM (order_tree pi t)) (tree_leaves NM t).
  Proof.
    intros pi t Hpi Hwf. rewrite !tree_leaves_fleaves. unfold fleaves.
    pose proof Hwf as Hwf'. apply wf_forest_children in Hwf'. destruct Hwf' as [Hnd Hall].
    eapply Permutation_trans; [apply Permutation_flat_map; apply order_children_perm; assumption|].
    rewrite flat_map_concat_map, map_map, <- flat_map_concat_map.
    apply Permutation_flat_map_pointwise. rewrite Forall_forall in *. intros c Hc.
    apply order_tree_tleaves; [exact Hpi|apply Hall; exact Hc].
  Qed.

  (** * pre-order of a sorted tree is lexicographic order *)
  Definition path_lt (p q : list bytes) : Prop := path_ltb p q = true.
  Definition row_lt (r1 r2 : list bytes * T) : Prop := path_lt (fst r1) (fst r2).

  Lemma path_ltb_cons_same : forall n p q, path_ltb (n :: p) (n :: q) = path_ltb p q.
  Proof. intros n p q. cbn [path_ltb]. rewrite bltb_irrefl. reflexivity. Qed.

  Lemma path_ltb_cons_lt : forall a c p q, bltb a c = true -> path_ltb (a :: p) (c :: q) = true.
  Proof. intros a c p q H. cbn [path_ltb]. rewrite H. reflexivity. Qed.

  Lemma StronglySorted_app_intro : forall {A} (R : A -> A -> Prop) l1 l2,
    StronglySorted R l1 -> StronglySorted R l2 -> (forall x y, In x l1 -> In y l2 -> R x y) ->
    StronglySorted R (l1 ++ l2).
  Proof.
    intros A R l1 l2 H1 H2 H. induction H1 as [|a l Hl IH Ha]; [exact H2|].
    cbn [app]. constructor.
    - apply IH. intros x y Hx Hy. apply H; [right; exact Hx|exact Hy].
    - apply Forall_app. split; [exact Ha|]. apply Forall_forall. intros y Hy. apply H; [left; reflexivity|exact Hy].
  Qed.

  Lemma StronglySorted_flat_map : forall {A B} (R' : A -> A -> Prop) (R : B -> B -> Prop) (f : A -> list B) l,
    StronglySorted R' l ->
    (forall a, In a l -> StronglySorted R (f a)) ->
    (forall a c x y, R' a c -> In x (f a) -> In y (f c) -> R x y) ->
    StronglySorted R (flat_map f l).
  Proof.
    intros A B R' R f l Hl Hf Hc. induction Hl as [|a l Hl IH Ha]; [constructor|].
    cbn [flat_map]. apply StronglySorted_app_intro.
    - apply Hf. left. reflexivity.
    - apply IH. intros a' Ha'. apply Hf. right. exact Ha'.
    - intros x y Hx Hy. apply in_flat_map in Hy. destruct Hy as [c [Hcl Hy]].
      rewrite Forall_forall in Ha. eapply Hc; [apply Ha; exact Hcl|exact Hx|exact Hy].
  Qed.

  Lemma StronglySorted_map_cons : forall n (l : list (list bytes * T)),
    StronglySorted row_lt l -> StronglySorted row_lt (map (fun px => (n :: fst px, snd px)) l).
  Proof.
    intros n l H. induction H as [|a l Hl IH Ha]; [constructor|]. cbn [map]. constructor; [exact IH|].
    rewrite Forall_forall in *. intros y Hy. apply in_map_iff in Hy. destruct Hy as [y0 [E Hy0]]. subst y.
    unfold row_lt, path_lt. cbn [fst]. rewrite path_ltb_cons_same. apply Ha. exact Hy0.
  Qed.

  Lemma tleaves_head : forall t r, In r (tleaves t) -> exists p', fst r = t_name t :: p'.
  Proof.
    intros t [p x] H. apply in_tleaves in H.
    destruct H as [[_ [E _]]|[_ [p' [E _]]]]; subst; eexists; reflexivity.
  Qed.

  Lemma tpaths_head_row : forall t r, In r (tpaths t) -> exists p', fst r = t_name t :: p'.
  Proof.
    intros t [p x] H. apply (tpaths_head NM t p). apply in_map_iff. exists (p, x). split; [reflexivity|exact H].
  Qed.

  Lemma sorted_forest_rows : forall (f : tree -> list (list bytes * T)) ch,
    (forall t r, In r (f t) -> exists p', fst r = t_name t :: p') ->
    StronglySorted (fun a c => bltb (t_name a) (t_name c) = true) ch ->
    (forall c, In c ch -> StronglySorted row_lt (f c)) ->
    StronglySorted row_lt (flat_map f ch).
  Proof.
    intros f ch Hhead Hs Hf. eapply StronglySorted_flat_map; [exact Hs|exact Hf|].
    intros a c x y Hac Hx Hy. apply Hhead in Hx. apply Hhead in Hy.
    destruct Hx as [px Ex], Hy as [py Ey]. unfold row_lt, path_lt. rewrite Ex, Ey.
    apply path_ltb_cons_lt. exact Hac.
  Qed.

  Lemma sorted_tleaves : forall t, sorted_tree NM t -> StronglySorted row_lt (tleaves t).
  Proof.
    induction t as [n x ch IH] using (tree_ind' NM). intro Hs. apply sorted_tree_unfold in Hs.
    destruct Hs as [Hs Hall]. rewrite tleaves_node. cbn [Tree.t_children Tree.t_name Tree.t_total].
    destruct ch as [|c r]; [constructor; constructor|].
    apply StronglySorted_map_cons. apply sorted_forest_rows; [exact tleaves_head|exact Hs|].
    rewrite Forall_forall in *. intros c0 Hc0. apply IH; [exact Hc0|apply Hall; exact Hc0].
  Qed.

  Lemma sorted_tpaths : forall t, sorted_tree NM t -> StronglySorted row_lt (tpaths t).
  Proof.
    induction t as [n x ch IH] using (tree_ind' NM). intro Hs. apply sorted_tree_unfold in Hs.
    destruct Hs as [Hs Hall]. rewrite tpaths_node. cbn [Tree.t_children Tree.t_name Tree.t_total].
    constructor.
    - apply StronglySorted_map_cons. apply sorted_forest_rows; [exact tpaths_head_row|exact Hs|].
      rewrite Forall_forall in *. intros c0 Hc0. apply IH; [exact Hc0|apply Hall; exact Hc0].
    - apply Forall_forall. intros [p y] Hy. apply in_map_iff in Hy. destruct Hy as [[p0 y0] [E Hy0]].
      cbn [fst snd] in E. inversion E; subst. apply fpaths_nonnil in Hy0.
      unfold row_lt, path_lt. cbn [fst]. rewrite path_ltb_cons_same. destruct p0; [congruence|reflexivity].
  Qed.

  Lemma sorted_tree_children : forall t, sorted_tree NM t ->
    StronglySorted (fun a c => bltb (t_name a) (t_name c) = true) (t_children t) /\
    Forall (sorted_tree NM) (t_children t).
  Proof. intros [n x ch]. apply sorted_tree_unfold. Qed.

  Theorem sorted_tree_leaves_sorted : forall t, sorted_tree NM t ->
    StronglySorted path_lt (map fst (tree_leaves NM t)).
  Proof.
    intros t Hs. apply sorted_tree_children in Hs. destruct Hs as [Hs Hall].
    rewrite tree_leaves_fleaves. unfold fleaves.
    assert (H : StronglySorted row_lt (flat_map tleaves (t_children t))).
    { apply sorted_forest_rows; [exact tleaves_head|exact Hs|]. rewrite Forall_forall in Hall.
      intros c Hc. apply sorted_tleaves. apply Hall. exact Hc. }
    induction H as [|a l Hl IH Ha]; [constructor|]. cbn [map]. constructor; [exact IH|].
    rewrite Forall_forall in *. intros p Hp. apply in_map_iff in Hp. destruct Hp as [r [E Hr]]. subst p.
    apply Ha. exact Hr.
  Qed.

  Theorem sorted_tree_paths_sorted : forall t, sorted_tree NM t ->
    StronglySorted path_lt (map fst (tree_paths NM t)).
  Proof.
    intros t Hs. apply sorted_tree_children in Hs. destruct Hs as [Hs Hall].
    rewrite tree_paths_fpaths. unfold TreeBuild.fpaths.
    assert (H : StronglySorted row_lt (flat_map tpaths (t_children t))).
    { apply sorted_forest_rows; [exact tpaths_head_row|exact Hs|]. rewrite Forall_forall in Hall.
      intros c Hc. apply sorted_tpaths. apply Hall. exact Hc. }
    induction H as [|a l Hl IH Ha]; [constructor|]. cbn [map]. constructor; [exact IH|].
    rewrite Forall_forall in *. intros p Hp. apply in_map_iff in Hp. destruct Hp as [r [E Hr]]. subst p.
    apply Ha. exact Hr.
  Qed.
End TreeLeaves.
