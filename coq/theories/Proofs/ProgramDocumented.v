(** WP25: the records of the log read off the SYNTAX of the file (an independent reader): for a log
    in the documented format ([Model/Syntax.v]: [render f] for a well-formed abstract file [f] with
    lines below the scanner's limit and no malformed item) the "healthy" hypotheses on the bytes hold
    and the records the parser reports are those of [expected_events f] (one per heading, with the
    entry lines up to the next heading, in order - property C04). *)
From Coq Require Import Lia Permutation.
From HP Require Import Base.Bytes Base.Utf8 Base.Num Model.Scanner Model.Parser Model.Syntax Model.Elements Model.Resolver
  Model.Dates Model.Tree Model.Writer Model.Reporters Model.Cli.
From HP Require Import Spec.RegisterSpec Spec.Agree2Spec Spec.ProgramSpec.
From HP Require Import Proofs.ParserScan Proofs.ParserRoundtrip Proofs.ParserCorollaries Proofs.ProgramRegister
  Proofs.ProgramTotals.

Section Documented.
  Context (NM : Num).
  Notation T := (T NM).
  Notation db := (list (bytes * list (bytes * T))).

  Lemma expect_no_error : forall (items : list item) ln cur,
    forallb (fun it => negb (is_bad it)) items = true ->
    forall e, ~ In (EErr e) (expect NM items ln cur).
  Proof.
    induction items as [|it r IH]; intros ln cur Hb e.
    - cbn [expect]. destruct cur; [intros [K|[]]; discriminate | intros []].
    - cbn [forallb] in Hb. apply andb_true_iff in Hb. destruct Hb as [Hit Hr].
      destruct it; cbn [expect is_bad negb] in *; try discriminate; try (apply IH; exact Hr).
      intro K. apply in_app_or in K. destruct K as [K|K].
      + destruct cur; [destruct K as [K|[]]; discriminate | destruct K].
      + revert K. apply IH. exact Hr.
  Qed.

  (** a log in the documented format is healthy, and its records are those of its syntax tree *)
  Theorem documented_log_healthy : forall f : file,
    wf_file NM f = true -> short_lines f -> no_bad_items f ->
    snd (scan (render f) NoFault) = ScanEOF
    /\ no_parse_error NM (events NM (render f))
    /\ log_records NM (render f) = Agree2Spec.nodes_of NM (expected_events NM f).
  Proof.
    intros f Hwf Hs Hb. split; [apply (short_lines_exact NM f Hwf); exact Hs|].
    unfold log_records. rewrite (parse_render_roundtrip NM f Hwf Hs). split; [|reflexivity].
    unfold no_parse_error, expected_events. apply expect_no_error.
    unfold no_bad_items in Hb. rewrite forallb_map. exact Hb.
  Qed.

  (** A.default for a log in the documented format *)
  Theorem register_program_default_documented :
    forall (w : world) (i : invocation) (op : options) (odb : opened) (d : db) (f : file),
      load w i = inr op -> w_sink w = None ->
      open_file w (op_db op) = Some odb -> resolved_db NM w op odb = inr d ->
      open_file w (op_log op) = Some (OData (render f) NoFault) ->
      wf_file NM f = true -> short_lines f -> no_bad_items f ->
      all_dated NM (rc_date (op_rc op)) (Agree2Spec.nodes_of NM (expected_events NM f)) ->
      (forall j : nat, oracle (o_day (w_or w) j)) ->
      i_cmd i = CReg -> i_single_element i = [] -> i_single_food i = [] -> i_old i = false ->
      i_template i <> Some (b "left-aligned") ->
      let c := op_rc op in
      let recs := period_records NM (rc_date c) (op_begin op) (op_end op) (Agree2Spec.nodes_of NM (expected_events NM f)) in
      run NM w i
      = {| out_stdout := concat (map (fun r => render_default NM c (day_item NM c d (rec_time NM r) (rec_entries NM r))) recs);
           out_status := Ok |}.
  Proof.
    intros w i op odb d f Hload Hsink Hodb Hres Hlog Hwf Hs Hb Hd Hday Hcmd Hse Hsf Hold Ht c recs.
    destruct (documented_log_healthy f Hwf Hs Hb) as (Hfin & Hne & Hrec).
    assert (Hd' : all_dated NM (rc_date (op_rc op)) (log_records NM (render f))) by (rewrite Hrec; exact Hd).
    rewrite (register_program_default NM w i op odb d (render f) Hload Hsink Hodb Hres Hlog Hfin Hne Hd' Hday
               Hcmd Hse Hsf Hold Ht).
    unfold command_records. rewrite Hrec. reflexivity.
  Qed.
End Documented.
