(** WP14 / C13: "amounts have fixed precision within half a unit of the last
    digit of the true value" -- fmt's [%.Nf] on binary64 ([format_fixed]). *)
From Coq Require Import Lia ZifyBool ZifyNat ZifyN.
From Coq Require Import Floats.SpecFloat.
From HP Require Import Base.Bytes Base.Num Base.GoFloat Model.Reporters.
From HP Require Import Proofs.CsvNumerals.

(** * rounding: [round_half_even_div] is round-to-nearest, ties to even *)
Section Rounding.
Open Scope Z_scope.

Lemma round_half_even_div_spec : forall num den, 0 < den ->
  let q := round_half_even_div num den in
  2 * Z.abs (q * den - num) <= den
  /\ (2 * Z.abs (q * den - num) = den -> Z.even q = true)
  /\ (0 <= num -> 0 <= q).
Proof.
  intros num den Hden. unfold round_half_even_div.
  pose proof (Z.div_mod num den ltac:(lia)) as DM.
  pose proof (Z.mod_pos_bound num den Hden) as MB.
  assert (QP : 0 <= num -> 0 <= num / den) by (intros Hn; apply Z.div_pos; lia).
  set (q0 := num / den) in *. set (r := num mod den) in *. clearbody q0 r.
  assert (E : q0 * den - num = - r) by lia.
  assert (E1 : (q0 + 1) * den - num = den - r) by lia.
  destruct (Z.compare_spec (2 * r) den) as [C|C|C]; cbv zeta.
  - destruct (Z.even q0) eqn:EV.
    + rewrite E. repeat split; [lia|intros _; exact EV|exact QP].
    + rewrite E1. repeat split; [lia| |lia].
      intros _. replace (q0 + 1) with (Z.succ q0) by lia. rewrite Z.even_succ.
      rewrite <- Z.negb_even, EV. reflexivity.
  - rewrite E. repeat split; [lia|lia|exact QP].
  - rewrite E1. repeat split; [lia|lia|lia].
Qed.
End Rounding.

(** * a reader for the printed text *)
Section Reader.
Open Scope N_scope.

Fixpoint span_digits (s : bytes) : bytes * bytes :=
  match s with
  | c :: r => if is_digit c then let '(a, rest) := span_digits r in (c :: a, rest) else ([], s)
  | [] => ([], [])
  end.

(** [Some (neg, n, p)]: the text is an optional '-', one or more digits, and
    either nothing more ([p = 0]) or a point and [p >= 1] digits; [n] is the
    number all the digits spell, i.e. the text denotes (-1)^neg * n / 10^p *)
Definition read_fixed_full (s : bytes) : option (bool * Z * nat) :=
  let '(neg, r) := match s with
                   | c :: r => if c =? 45 then (true, r) else (false, s)
                   | [] => (false, [])
                   end in
  let '(ip, rest) := span_digits r in
  match ip with
  | [] => None
  | _ :: _ =>
      match rest with
      | [] => option_map (fun v => (neg, Z.of_N v, O)) (digits_val ip 0)
      | c :: fp =>
          if (c =? 46) && forallb is_digit fp && negb (Nat.eqb (length fp) 0)
          then option_map (fun v => (neg, Z.of_N v, length fp)) (digits_val (ip ++ fp) 0)
          else None
      end
  end.

(** the reader named in the work package: sign and scaled integer *)
Definition read_fixed (s : bytes) : option (bool * Z) :=
  option_map (fun x => (fst (fst x), snd (fst x))) (read_fixed_full s).

Lemma span_digits_app : forall a rest, forallb is_digit a = true ->
  match rest with [] => True | c :: _ => is_digit c = false end ->
  span_digits (a ++ rest) = (a, rest).
Proof.
  induction a as [|c a IH]; intros rest Ha Hr.
  - cbn [app]. destruct rest as [|c r]; [reflexivity|]. cbn [span_digits]. rewrite Hr. reflexivity.
  - cbn [forallb] in Ha. apply andb_true_iff in Ha. destruct Ha as [Hc Ha].
    cbn [app span_digits]. rewrite Hc. rewrite IH by assumption. reflexivity.
Qed.

Lemma pad_zeros_length : forall k s, length (pad_zeros_aux k s) = (k + length s)%nat.
Proof. induction k as [|k IH]; intros s; cbn [pad_zeros_aux length]; [reflexivity|]. rewrite IH. lia. Qed.

Lemma pad_zeros_digits : forall k s, forallb is_digit s = true -> forallb is_digit (pad_zeros_aux k s) = true.
Proof. induction k as [|k IH]; intros s H; cbn [pad_zeros_aux forallb]; [exact H|]. rewrite IH by exact H. reflexivity. Qed.

Lemma pad_zeros_value : forall k s, digits_val (pad_zeros_aux k s) 0 = digits_val s 0.
Proof. induction k as [|k IH]; intros s; cbn [pad_zeros_aux]; [reflexivity|]. cbn [digits_val]. apply IH. Qed.
End Reader.

Theorem read_fixed_of_scaled : forall (s : bool) (p : nat) (n : Z), (0 <= n)%Z ->
  read_fixed_full (fixed_of_scaled s p n) = Some (s, n, p).
Proof.
  intros s p n Hn. unfold fixed_of_scaled.
  set (dn := dec_of_N (Z.to_N n)).
  set (ds := pad_zeros_aux (S p - length dn) dn).
  assert (Dd : forallb is_digit ds = true) by (apply pad_zeros_digits, dec_of_N_digits).
  assert (Dv : digits_val ds 0 = Some (Z.to_N n)).
  { unfold ds. rewrite pad_zeros_value. apply dec_of_N_value. }
  assert (Dl : (S p <= length ds)%nat).
  { unfold ds. rewrite pad_zeros_length. lia. }
  set (ip := firstn (length ds - p) ds). set (fp := skipn (length ds - p) ds).
  assert (Eds : ip ++ fp = ds) by apply firstn_skipn.
  assert (Lfp : length fp = p) by (unfold fp; rewrite skipn_length; lia).
  assert (Lip : (1 <= length ip)%nat) by (unfold ip; rewrite firstn_length; lia).
  assert (Dip : forallb is_digit ip = true /\ forallb is_digit fp = true).
  { rewrite <- Eds in Dd. rewrite forallb_app in Dd. apply andb_true_iff in Dd. exact Dd. }
  destruct Dip as [Dip Dfp].
  clearbody ip fp. clearbody ds. clear dn.
  destruct ip as [|i0 ip']; [cbn [length] in Lip; lia|].
  assert (Hi0 : (i0 =? 45)%N = false).
  { cbn [forallb] in Dip. apply andb_true_iff in Dip. destruct Dip as [Dip _]. unfold is_digit in Dip. lia. }
  set (tail := match p with O => [] | S _ => 46%N :: fp end).
  assert (Main : forall neg : bool,
    (let '(ip0, rest) := span_digits ((i0 :: ip') ++ tail) in
     match ip0 with
     | [] => None
     | _ :: _ =>
        match rest with
        | [] => option_map (fun v => (neg, Z.of_N v, O)) (digits_val ip0 0%N)
        | c :: fp0 =>
            if ((c =? 46)%N && forallb is_digit fp0 && negb (Nat.eqb (length fp0) 0))%bool
            then option_map (fun v => (neg, Z.of_N v, length fp0)) (digits_val (ip0 ++ fp0) 0%N)
            else None
        end
     end) = Some (neg, n, p)).
  { intros neg. unfold tail. destruct p as [|p'].
    - rewrite span_digits_app by (exact Dip || exact I).
      destruct fp as [|? ?]; [|discriminate Lfp]. rewrite app_nil_r in Eds. rewrite Eds, Dv.
      cbn [option_map]. rewrite Z2N.id by exact Hn. reflexivity.
    - rewrite span_digits_app by (exact Dip || reflexivity).
      rewrite N.eqb_refl, Dfp, Lfp. cbn [andb negb Nat.eqb]. rewrite Eds, Dv.
      cbn [option_map]. rewrite Z2N.id by exact Hn. reflexivity. }
  unfold read_fixed_full. destruct s.
  - cbn [app]. rewrite N.eqb_refl. apply Main.
  - cbn [app]. rewrite Hi0. apply (Main false).
Qed.

Corollary read_fixed_inverts : forall (s : bool) (p : nat) (n : Z), (0 <= n)%Z ->
  read_fixed (fixed_of_scaled s p n) = Some (s, n).
Proof. intros s p n Hn. unfold read_fixed. rewrite read_fixed_of_scaled by exact Hn. reflexivity. Qed.

(** * the theorem *)
Section Fixed.
Open Scope Z_scope.

(** the scaled integer [format_fixed p] prints for a finite non-zero binary64 *)
Definition printed_scaled (p : nat) (m : positive) (e : Z) : Z :=
  if 0 <=? e then Zpos m * 2 ^ e * 10 ^ Z.of_nat p
  else round_half_even_div (Zpos m * 10 ^ Z.of_nat p) (2 ^ (- e)).

(** For x = (-1)^s * m * 2^e: [format_fixed p x] is the numeral (sign, digits, point [p]
    digits from the right) of an integer [n] -- it reads back as exactly [(s, n, p)], i.e. as
    the number (-1)^s * n / 10^p -- and [n] is within 1/2 of m * 2^e * 10^p (stated after
    multiplying through by 2^(-e) when e < 0, so that everything is an integer); ties go to
    the even [n].  Hence | printed - true | <= 1/2 unit of the last printed digit. *)
Theorem fixed_within_half_unit : forall (p : nat) (s : bool) (m : positive) (e : Z),
  exists n : Z,
    format_fixed p (S754_finite s m e) = fixed_of_scaled s p n
    /\ read_fixed_full (format_fixed p (S754_finite s m e)) = Some (s, n, p)
    /\ 0 <= n
    /\ (0 <= e -> n = Zpos m * 2 ^ e * 10 ^ Z.of_nat p)
    /\ (e < 0 -> 2 * Z.abs (n * 2 ^ (- e) - Zpos m * 10 ^ Z.of_nat p) <= 2 ^ (- e))
    /\ (e < 0 -> 2 * Z.abs (n * 2 ^ (- e) - Zpos m * 10 ^ Z.of_nat p) = 2 ^ (- e) -> Z.even n = true).
Proof.
  intros p s m e. exists (printed_scaled p m e).
  assert (F : format_fixed p (S754_finite s m e) = fixed_of_scaled s p (printed_scaled p m e)) by reflexivity.
  assert (P10 : 0 < 10 ^ Z.of_nat p) by (apply Z.pow_pos_nonneg; lia).
  assert (N0 : 0 <= printed_scaled p m e).
  { unfold printed_scaled. destruct (Z.leb_spec 0 e) as [L|L].
    - assert (0 < 2 ^ e) by (apply Z.pow_pos_nonneg; lia). nia.
    - assert (D : 0 < 2 ^ (- e)) by (apply Z.pow_pos_nonneg; lia).
      apply (round_half_even_div_spec _ _ D). nia. }
  split; [exact F|]. split; [rewrite F; apply read_fixed_of_scaled; exact N0|]. split; [exact N0|].
  unfold printed_scaled. destruct (Z.leb_spec 0 e) as [L|L].
  - split; [reflexivity|]. split; intros; lia.
  - assert (D : 0 < 2 ^ (- e)) by (apply Z.pow_pos_nonneg; lia).
    destruct (round_half_even_div_spec (Zpos m * 10 ^ Z.of_nat p) _ D) as (R1 & R2 & _).
    split; [intros; lia|]. split; intros _; assumption.
Qed.

(** zeros (of either sign) are printed exactly *)
Lemma fixed_zero_exact : forall p s,
  format_fixed p (S754_zero s) = fixed_of_scaled s p 0
  /\ read_fixed_full (format_fixed p (S754_zero s)) = Some (s, 0, p).
Proof. intros p s. split; [reflexivity|]. apply (read_fixed_of_scaled s p 0). lia. Qed.

(** what the CSV exports call on the binary64 instance *)
Lemma f3_B64 : forall v : f64, f3 B64 v = format_fixed 3 v.
Proof. reflexivity. Qed.
Lemma f2_B64 : forall v : f64, f2 B64 v = format_fixed 2 v.
Proof. reflexivity. Qed.

(** non-vacuity: 2.675 is not representable; the nearest binary64 is just below the tie
    2.675, so [%.2f] prints 2.67 (and not the 2.68 that decimal half-up rounding gives) *)
Definition x2675 : f64 := S754_finite false 6023564501608038 (-51).

Example parse_2675 : parse_float (b "2.675") = Some x2675.
Proof. vm_compute. reflexivity. Qed.

Example format_2675 : format_fixed 2 x2675 = b "2.67".
Proof. vm_compute. reflexivity. Qed.

Example read_2675 : read_fixed_full (format_fixed 2 x2675) = Some (false, 267, 2%nat).
Proof. vm_compute. reflexivity. Qed.

(** the instance of the bound: | 267 * 2^51 - m * 100 | is 0.4999...e15 < 2^50 *)
Example bound_2675 : 2 * Z.abs (267 * 2 ^ 51 - 6023564501608038 * 10 ^ 2) <= 2 ^ 51
                     /\ 2 * Z.abs (268 * 2 ^ 51 - 6023564501608038 * 10 ^ 2) > 2 ^ 51.
Proof. vm_compute. split; [discriminate|reflexivity]. Qed.

(** ties: 2.5 and 3.5 are exact; [%.0f] gives 2 and 4 (half to even) *)
Example format_ties : option_map (format_fixed 0) (parse_float (b "2.5")) = Some (b "2")
                      /\ option_map (format_fixed 0) (parse_float (b "3.5")) = Some (b "4").
Proof. vm_compute. split; reflexivity. Qed.

Example format_neg_small : option_map (format_fixed 3) (parse_float (b "-0.0004")) = Some (b "-0.000").
Proof. vm_compute. reflexivity. Qed.
End Fixed.
