(** C15, descending order: the order law [LtWeakOrder] holds of binary64 on the
    values that are not NaN, so the sortedness and stability theorems apply to
    the instance the program runs at. *)
From Coq Require Import Lia ZifyBool ZArith.
From Coq Require Import Floats.SpecFloat.
From HP Require Import Base.Bytes Base.Num Base.GoFloat Model.Elements Model.Reporters Spec.PresentationSpec.

(** a key whose lexicographic order is the order of non-NaN values (as [SFcompare] sees them) *)
Definition fkey (x : f64) : Z * Z * Z :=
  match x with
  | S754_nan => (0, 0, 0)%Z
  | S754_infinity true => (-2, 0, 0)%Z
  | S754_infinity false => (2, 0, 0)%Z
  | S754_zero _ => (0, 0, 0)%Z
  | S754_finite true m e => (-1, - e, - Zpos m)%Z
  | S754_finite false m e => (1, e, Zpos m)%Z
  end.

Definition lex_ltb (a c : Z * Z * Z) : bool :=
  let '(a1, a2, a3) := a in
  let '(c1, c2, c3) := c in
  ((a1 <? c1) || ((a1 =? c1) && ((a2 <? c2) || ((a2 =? c2) && (a3 <? c3)))))%Z.

Lemma f_ltb_key : forall x y : f64, f_is_nan x = false -> f_is_nan y = false ->
  f_ltb x y = lex_ltb (fkey x) (fkey y).
Proof.
  intros x y Hx Hy. unfold f_ltb, SFltb.
  destruct x as [sx|sx| |sx mx ex]; try discriminate Hx;
  destruct y as [sy|sy| |sy my ey]; try discriminate Hy;
  cbn [SFcompare fkey lex_ltb];
  try (destruct sx; try destruct sy; reflexivity);
  try (destruct sy; reflexivity).
  destruct sx, sy; cbn [fkey lex_ltb]; try reflexivity.
  - destruct (Z.compare_spec ex ey) as [E|E|E].
    + subst ey. change (Pos.compare_cont Eq mx my) with (Pos.compare mx my).
      destruct (Pos.compare_spec mx my) as [M|M|M]; cbn [CompOpp]; lia.
    + lia.
    + lia.
  - destruct (Z.compare_spec ex ey) as [E|E|E].
    + subst ey. change (Pos.compare_cont Eq mx my) with (Pos.compare mx my).
      destruct (Pos.compare_spec mx my) as [M|M|M]; lia.
    + lia.
    + lia.
Qed.

Definition not_nan (x : T B64) : Prop := is_nan B64 x = false.

Theorem B64_weak_order : LtWeakOrder B64 not_nan.
Proof.
  constructor; unfold not_nan; cbn [ltb is_nan B64 T].
  - intros x Hx. rewrite (f_ltb_key x x Hx Hx).
    destruct (fkey x) as [[a1 a2] a3]. cbn [lex_ltb]. lia.
  - intros x y z Hx Hy Hz. rewrite (f_ltb_key x y Hx Hy), (f_ltb_key y z Hy Hz), (f_ltb_key x z Hx Hz).
    destruct (fkey x) as [[a1 a2] a3], (fkey y) as [[b1 b2] b3], (fkey z) as [[c1 c2] c3].
    cbn [lex_ltb]. lia.
  - intros x y z Hx Hy Hz.
    rewrite (f_ltb_key x y Hx Hy), (f_ltb_key y x Hy Hx), (f_ltb_key y z Hy Hz), (f_ltb_key z y Hz Hy),
      (f_ltb_key x z Hx Hz).
    destruct (fkey x) as [[a1 a2] a3], (fkey y) as [[b1 b2] b3], (fkey z) as [[c1 c2] c3].
    cbn [lex_ltb]. lia.
Qed.

(** the law fails as soon as a NaN is among the values: NaN is incomparable with
    everything, so "incomparability is transitive" would make 1 and 2 incomparable *)
Example B64_nan_breaks_order :
  let one := f_of_Z 1 in let two := f_of_Z 2 in
  f_ltb one S754_nan = false /\ f_ltb S754_nan one = false
  /\ f_ltb S754_nan two = false /\ f_ltb two S754_nan = false
  /\ f_ltb one two = true.
Proof. vm_compute. repeat split. Qed.

(** and with a NaN among the rows the output of the sort is NOT ascending: the
    non-NaN hypothesis of [sort_by_value_sorted] cannot be dropped.  (The rows are
    still a permutation of the input: [sort_by_value_perm] needs no law.) *)
Definition exn_rows : elements B64 := [(b "a", f_of_Z 2); (b "b", S754_nan); (b "c", f_of_Z 1)].

Example sort_nan_unsorted :
  sort_by_value B64 false exn_rows = exn_rows
  /\ ~ sorted_by_value B64 false (sort_by_value B64 false exn_rows).
Proof.
  split; [vm_compute; reflexivity|].
  intros H. specialize (H 0%nat 2%nat (b "a", f_of_Z 2) (b "c", f_of_Z 1)).
  assert (E : value_less B64 false (b "c", f_of_Z 1) (b "a", f_of_Z 2) = true) by (vm_compute; reflexivity).
  rewrite H in E; [discriminate E|auto|vm_compute; reflexivity|vm_compute; reflexivity].
Qed.
