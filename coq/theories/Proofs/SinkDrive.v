(** WP17 / C17 — two runs of the parser's callback protocol, side by side.

    [cb1] is the callback of the run against the failing sink, [cb2] the same
    callback against the sink that never fails.  [Rel] relates the two states
    while nothing has been lost.  When the limited side fails the two runs
    fall out of step (the limited one may stop the walk while the other goes
    on), so the invariant for that phase, [Bad], is required to be preserved
    by a step of either side alone.  [Fail s1] is a sticky marker in the
    limited state (the [bufio] error flag); a callback that has no such marker
    (lint writes straight to the sink) must stop with an error instead. *)
From Coq Require Import List.
From HP Require Import Base.Bytes Base.Num Model.Scanner Model.Parser Model.Elements Model.Resolver
  Model.Dates Model.Tree Model.Writer Model.Reporters Model.Cli.

Section Drive2.
  Context (NM : Num) {S1 S2 E : Type}.
  Context (cb1 : S1 -> event NM -> S1 * bool * option E) (cb2 : S2 -> event NM -> S2 * bool * option E).
  Context (Rel Bad : S1 -> S2 -> Prop) (Fail : S1 -> Prop).

  Hypothesis HB1 : forall s1 s2 ev, Bad s1 s2 -> Bad (fst (fst (cb1 s1 ev))) s2.
  Hypothesis HB2 : forall s1 s2 ev, Bad s1 s2 -> Bad s1 (fst (fst (cb2 s2 ev))).
  Hypothesis HF : forall s1 ev, Fail s1 -> Fail (fst (fst (cb1 s1 ev))).
  Hypothesis Hstep : forall s1 s2 ev, Rel s1 s2 ->
    (Rel (fst (fst (cb1 s1 ev))) (fst (fst (cb2 s2 ev)))
     /\ snd (fst (cb1 s1 ev)) = snd (fst (cb2 s2 ev)) /\ snd (cb1 s1 ev) = snd (cb2 s2 ev))
    \/ (Bad (fst (fst (cb1 s1 ev))) (fst (fst (cb2 s2 ev)))
        /\ (Fail (fst (fst (cb1 s1 ev))) \/ (snd (fst (cb1 s1 ev)) = true /\ snd (cb1 s1 ev) <> None))).

  Lemma drive_loop_bad1 : forall evs s1 s2, Bad s1 s2 -> Bad (fst (drive_loop NM cb1 evs s1)) s2.
  Proof.
    induction evs as [|ev r IH]; intros s1 s2 H; cbn [drive_loop]; [exact H|].
    pose proof (HB1 s1 s2 ev H) as H'. destruct (cb1 s1 ev) as [[s1' st] e]. cbn [fst] in H'.
    destruct st; [exact H'|]. now apply IH.
  Qed.

  Lemma drive_loop_bad2 : forall evs s1 s2, Bad s1 s2 -> Bad s1 (fst (drive_loop NM cb2 evs s2)).
  Proof.
    induction evs as [|ev r IH]; intros s1 s2 H; cbn [drive_loop]; [exact H|].
    pose proof (HB2 s1 s2 ev H) as H'. destruct (cb2 s2 ev) as [[s2' st] e]. cbn [fst] in H'.
    destruct st; [exact H'|]. now apply IH.
  Qed.

  Lemma drive_loop_fail : forall evs s1, Fail s1 -> Fail (fst (drive_loop NM cb1 evs s1)).
  Proof.
    induction evs as [|ev r IH]; intros s1 H; cbn [drive_loop]; [exact H|].
    pose proof (HF s1 ev H) as H'. destruct (cb1 s1 ev) as [[s1' st] e]. cbn [fst] in H'.
    destruct st; [exact H'|]. now apply IH.
  Qed.

  Lemma drive_loop_sim : forall evs s1 s2, Rel s1 s2 ->
    (Rel (fst (drive_loop NM cb1 evs s1)) (fst (drive_loop NM cb2 evs s2))
     /\ snd (drive_loop NM cb1 evs s1) = snd (drive_loop NM cb2 evs s2))
    \/ (Bad (fst (drive_loop NM cb1 evs s1)) (fst (drive_loop NM cb2 evs s2))
        /\ (Fail (fst (drive_loop NM cb1 evs s1)) \/ exists e, snd (drive_loop NM cb1 evs s1) = Some (Some e))).
  Proof.
    induction evs as [|ev r IH]; intros s1 s2 H; cbn [drive_loop]; [left; split; [exact H|reflexivity]|].
    destruct (Hstep s1 s2 ev H) as [(HR & Est & Ee)|(HBad & HFs)].
    - destruct (cb1 s1 ev) as [[s1' st1] e1]. destruct (cb2 s2 ev) as [[s2' st2] e2].
      cbn [fst snd] in *. subst st2 e2. destruct st1; [left; split; [exact HR|reflexivity]|]. now apply IH.
    - right.
      pose proof (drive_loop_bad1 r) as L1. pose proof (drive_loop_bad2 r) as L2.
      pose proof (drive_loop_fail r) as LF.
      destruct (cb1 s1 ev) as [[s1' st1] e1]. destruct (cb2 s2 ev) as [[s2' st2] e2].
      cbn [fst snd] in *.
      assert (HB' : Bad (fst (if st1 then (s1', Some e1) else drive_loop NM cb1 r s1'))
                        (fst (if st2 then (s2', Some e2) else drive_loop NM cb2 r s2'))).
      { destruct st1, st2; cbn [fst]; auto. }
      split; [exact HB'|].
      destruct HFs as [Hf|[-> Hne]].
      + left. destruct st1; cbn [fst]; auto.
      + right. cbn [snd]. destruct e1 as [e|]; [eauto|congruence].
  Qed.

  Theorem drive_sim : forall evs last fin s1 s2, Rel s1 s2 ->
    (Rel (fst (drive NM cb1 evs last fin s1)) (fst (drive NM cb2 evs last fin s2))
     /\ snd (drive NM cb1 evs last fin s1) = snd (drive NM cb2 evs last fin s2))
    \/ (Bad (fst (drive NM cb1 evs last fin s1)) (fst (drive NM cb2 evs last fin s2))
        /\ (Fail (fst (drive NM cb1 evs last fin s1)) \/ snd (drive NM cb1 evs last fin s1) <> None)).
  Proof.
    intros evs last fin s1 s2 H. unfold drive.
    destruct (drive_loop_sim evs s1 s2 H) as [(HR & Er)|(HBad & HFs)].
    - destruct (drive_loop NM cb1 evs s1) as [f1 r1]. destruct (drive_loop NM cb2 evs s2) as [f2 r2].
      cbn [fst snd] in *. subst r2. destruct r1 as [e|]; [left; split; [exact HR|reflexivity]|].
      destruct fin; try (left; split; [exact HR|reflexivity]).
      destruct last as [n|]; [|left; split; [exact HR|reflexivity]].
      destruct (Hstep f1 f2 (ENode n) HR) as [(HR' & Est & Ee)|(HBad & HFs)].
      + destruct (cb1 f1 (ENode n)) as [[s1' st1] e1]. destruct (cb2 f2 (ENode n)) as [[s2' st2] e2].
        cbn [fst snd] in *. subst e2. left. split; [exact HR'|reflexivity].
      + destruct (cb1 f1 (ENode n)) as [[s1' st1] e1]. destruct (cb2 f2 (ENode n)) as [[s2' st2] e2].
        cbn [fst snd] in *. right. split; [exact HBad|].
        destruct HFs as [Hf|[_ Hne]]; [left; exact Hf|right].
        destruct e1; [discriminate|congruence].
    - right.
      destruct (drive_loop NM cb1 evs s1) as [f1 r1]. destruct (drive_loop NM cb2 evs s2) as [f2 r2].
      cbn [fst snd] in *.
      (* the unlimited side may take one more step; so may the limited side *)
      set (u := match r2 with
                | Some e => (f2, option_map (@inl E scan_end) e)
                | None => match fin with
                          | ScanEOF => match last with
                                       | Some n => let '(s'', _, e) := cb2 f2 (ENode n) in (s'', option_map inl e)
                                       | None => (f2, None)
                                       end
                          | _ => (f2, Some (inr fin))
                          end
                end).
      assert (HBu : Bad f1 (fst u)).
      { unfold u. destruct r2; [exact HBad|]. destruct fin; try exact HBad.
        destruct last as [n|]; [|exact HBad].
        pose proof (HB2 f1 f2 (ENode n) HBad) as H'.
        destruct (cb2 f2 (ENode n)) as [[s2' st2] e2]. exact H'. }
      clearbody u.
      destruct r1 as [e|].
      + cbn [fst snd]. split; [exact HBu|].
        destruct HFs as [Hf|[e' He']]; [left; exact Hf|right].
        injection He' as ->. discriminate.
      + destruct HFs as [Hf|[e' He']]; [|discriminate].
        destruct fin; try (cbn [fst snd]; split; [exact HBu|left; exact Hf]).
        destruct last as [n|]; [|cbn [fst snd]; split; [exact HBu|left; exact Hf]].
        pose proof (HB1 f1 (fst u) (ENode n) HBu) as H1. pose proof (HF f1 (ENode n) Hf) as H2.
        destruct (cb1 f1 (ENode n)) as [[s1' st1] e1]. cbn [fst snd] in *. split; [exact H1|left; exact H2].
  Qed.

  Theorem parse_stream_sim : forall data f s1 s2, Rel s1 s2 ->
    (Rel (fst (parse_stream NM cb1 data f s1)) (fst (parse_stream NM cb2 data f s2))
     /\ snd (parse_stream NM cb1 data f s1) = snd (parse_stream NM cb2 data f s2))
    \/ (Bad (fst (parse_stream NM cb1 data f s1)) (fst (parse_stream NM cb2 data f s2))
        /\ (Fail (fst (parse_stream NM cb1 data f s1)) \/ snd (parse_stream NM cb1 data f s1) <> None)).
  Proof.
    intros data f s1 s2 H. unfold parse_stream.
    destruct (scan data f) as [lines fin]. destruct (parse_lines NM lines) as [evs last].
    now apply drive_sim.
  Qed.
End Drive2.

(** the same for [parse_opened] (callback errors are [cerr]) *)
Section Opened2.
  Context (NM : Num) {S1 S2 : Type}.
  Context (cb1 : S1 -> event NM -> S1 * bool * option cerr) (cb2 : S2 -> event NM -> S2 * bool * option cerr).
  Context (Rel Bad : S1 -> S2 -> Prop) (Fail : S1 -> Prop).

  Hypothesis HB1 : forall s1 s2 ev, Bad s1 s2 -> Bad (fst (fst (cb1 s1 ev))) s2.
  Hypothesis HB2 : forall s1 s2 ev, Bad s1 s2 -> Bad s1 (fst (fst (cb2 s2 ev))).
  Hypothesis HF : forall s1 ev, Fail s1 -> Fail (fst (fst (cb1 s1 ev))).
  Hypothesis Hstep : forall s1 s2 ev, Rel s1 s2 ->
    (Rel (fst (fst (cb1 s1 ev))) (fst (fst (cb2 s2 ev)))
     /\ snd (fst (cb1 s1 ev)) = snd (fst (cb2 s2 ev)) /\ snd (cb1 s1 ev) = snd (cb2 s2 ev))
    \/ (Bad (fst (fst (cb1 s1 ev))) (fst (fst (cb2 s2 ev)))
        /\ (Fail (fst (fst (cb1 s1 ev))) \/ (snd (fst (cb1 s1 ev)) = true /\ snd (cb1 s1 ev) <> None))).

  Theorem parse_opened_sim : forall o s1 s2, Rel s1 s2 ->
    (Rel (fst (parse_opened NM cb1 o s1)) (fst (parse_opened NM cb2 o s2))
     /\ snd (parse_opened NM cb1 o s1) = snd (parse_opened NM cb2 o s2))
    \/ (Bad (fst (parse_opened NM cb1 o s1)) (fst (parse_opened NM cb2 o s2))
        /\ (Fail (fst (parse_opened NM cb1 o s1)) \/ snd (parse_opened NM cb1 o s1) <> None)).
  Proof.
    intros o s1 s2 H. unfold parse_opened.
    set (d := match o with OData d _ => d | _ => [] end).
    set (f := match o with OData _ f => f | ODir => FailAt 0 end).
    assert (E1 : match o with
                 | OData d f => parse_stream NM cb1 d f s1
                 | ODir => parse_stream NM cb1 [] (FailAt 0) s1
                 end = parse_stream NM cb1 d f s1) by (destruct o; reflexivity).
    assert (E2 : match o with
                 | OData d f => parse_stream NM cb2 d f s2
                 | ODir => parse_stream NM cb2 [] (FailAt 0) s2
                 end = parse_stream NM cb2 d f s2) by (destruct o; reflexivity).
    rewrite E1, E2. clear E1 E2.
    destruct (parse_stream_sim NM cb1 cb2 Rel Bad Fail HB1 HB2 HF Hstep d f s1 s2 H) as [(HR & Er)|(HBad & HFs)];
      destruct (parse_stream NM cb1 d f s1) as [f1 r1]; destruct (parse_stream NM cb2 d f s2) as [f2 r2];
      cbn [fst snd] in *.
    - subst r2. left. split; [exact HR|reflexivity].
    - right. split; [exact HBad|]. destruct HFs as [Hf|Hne]; [left; exact Hf|right].
      destruct r1 as [[e|se]|]; [discriminate| |congruence]. destruct se; discriminate.
  Qed.
End Opened2.
