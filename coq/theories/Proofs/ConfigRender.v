(** WP28, part 3: the text the test harness writes for five values is read back as exactly these
    values: [parse_config (render_config e) = CfgOk (fields_of_cfg e)] under [cfg_plain e]. *)
From Coq Require Import Lia ZifyBool ZifyN.
From HP Require Import Base.Bytes Model.Dates Model.Reporters Model.Config Model.Cli Spec.ConfigSpec.
From HP Require Import Proofs.ConfigLine Proofs.ConfigRun.
From HP Require Proofs.CsvNumerals.
Open Scope N_scope.

Ltac dm := Z.div_mod_to_equations; lia.

(** * digit characters *)
Definition dch (x : Z) : N := Z.to_N (48 + x).
Definition digit (x : Z) : Prop := (0 <= x <= 9)%Z.

Lemma dch_is_digit : forall x, digit x -> is_digit (dch x) = true.
Proof. intros x H. unfold digit in H. unfold is_digit, dch. lia. Qed.

Lemma dch_dig : forall x, digit x -> dig (dch x) = x.
Proof. intros x H. unfold digit in H. unfold dig, dch. lia. Qed.

Lemma dch_rfc : forall x, digit x -> rfc_char (dch x) = true.
Proof. intros x H. unfold rfc_char. rewrite (dch_is_digit x H). reflexivity. Qed.

Lemma d2_dch : forall v, d2 v = [dch (v / 10); dch (v mod 10)].
Proof. reflexivity. Qed.

Lemma d2_digits : forall v, (0 <= v < 100)%Z -> digit (v / 10) /\ digit (v mod 10).
Proof. intros v H. unfold digit. split; dm. Qed.

Lemma d2_val : forall v, (v / 10 * 10 + v mod 10 = v)%Z.
Proof. intros v. dm. Qed.

Lemma d4_val : forall v, (v / 100 * 100 + v mod 100 = v)%Z.
Proof. intros v. dm. Qed.

(** * characters that can stand anywhere in a value *)
Definition solid_char (c : N) : bool := (33 <=? c) && (c <=? 126) && plain_char c.

Lemma solid_digit : forall c, is_digit c = true -> solid_char c = true.
Proof. intros c H. unfold is_digit in H. unfold solid_char, plain_char. lia. Qed.

Lemma not_blank_first_solid : forall v, forallb solid_char v = true -> not_blank_first v = true.
Proof.
  intros [|c v] H; [reflexivity|]. cbn [forallb] in H. apply andb_true_iff in H as [H _].
  cbn [not_blank_first]. rewrite memb_cblanks. unfold solid_char in H. lia.
Qed.

Lemma forallb_rev : forall (P : N -> bool) l, forallb P (rev l) = forallb P l.
Proof.
  intros P. induction l as [|c l IH]; [reflexivity|]. cbn [rev]. rewrite forallb_app, IH. cbn [forallb].
  rewrite andb_true_r. apply andb_comm.
Qed.

Lemma is_value_solid : forall v, forallb solid_char v = true -> is_value v = true.
Proof.
  intros v H. unfold is_value, plain_value.
  rewrite (utf8_ok_ascii v)
    by (revert H; apply forallb_imp; intros c Hc; unfold solid_char in Hc; unfold ascii_char; lia).
  rewrite (forallb_imp solid_char plain_char v) by (try exact H; intros c Hc; unfold solid_char in Hc; lia).
  rewrite (not_blank_first_solid v H).
  rewrite (not_blank_first_solid (rev v)) by (rewrite forallb_rev; exact H). reflexivity.
Qed.

Lemma lf_free_plain : forall v, forallb plain_char v = true -> lf_free v = true.
Proof.
  induction v as [|c v IH]; [reflexivity|]. cbn [forallb]. intros H. apply andb_true_iff in H as [H1 H2].
  rewrite lf_free_cons, (IH H2). unfold plain_char in H1. unfold c_lf. lia.
Qed.

Lemma lf_free_value : forall v, is_value v = true -> lf_free v = true.
Proof.
  intros v H. unfold is_value, plain_value in H.
  apply andb_true_iff in H as [H _]. apply andb_true_iff in H as [H _]. apply andb_true_iff in H as [_ H].
  apply lf_free_plain. exact H.
Qed.

(** * [Now]: RFC 3339 *)
Lemma parse_rfc3339_digits : forall a1 a2 a3 a4 b1 b2 e1 e2 h1 h2 i1 i2 s1 s2 z,
  digit a1 -> digit a2 -> digit a3 -> digit a4 -> digit b1 -> digit b2 -> digit e1 -> digit e2 ->
  digit h1 -> digit h2 -> digit i1 -> digit i2 -> digit s1 -> digit s2 ->
  forallb rfc_char z = true ->
  parse_rfc3339 (dch a1 :: dch a2 :: dch a3 :: dch a4 :: 45 :: dch b1 :: dch b2 :: 45 :: dch e1 :: dch e2 :: 84
                 :: dch h1 :: dch h2 :: 58 :: dch i1 :: dch i2 :: 58 :: dch s1 :: dch s2 :: z)
  = match parse_zone z with
    | None => Unm
    | Some zo =>
        let y := ((a1 * 10 + a2) * 100 + (a3 * 10 + a4))%Z in
        let m := (b1 * 10 + b2)%Z in let d := (e1 * 10 + e2)%Z in
        let h := (h1 * 10 + h2)%Z in let mi := (i1 * 10 + i2)%Z in let s := (s1 * 10 + s2)%Z in
        if ((1 <=? m) && (m <=? 12) && (1 <=? d) && (d <=? days_in y m) && (h <=? 23) && (mi <=? 59) && (s <=? 59))%Z
        then match zo with Some o => Val (mk_time y m d (h * 3600 + mi * 60 + s)%Z o) | None => Unm end
        else Err
    end.
Proof.
  intros a1 a2 a3 a4 b1 b2 e1 e2 h1 h2 i1 i2 s1 s2 z A1 A2 A3 A4 B1 B2 E1 E2 H1 H2 I1 I2 S1 S2 Hz.
  unfold parse_rfc3339. cbv beta iota.
  cbn [forallb]. rewrite !dch_rfc by assumption. rewrite Hz.
  change (rfc_char 45) with true. change (rfc_char 84) with true. change (rfc_char 58) with true.
  rewrite !dch_is_digit by assumption. rewrite !N.eqb_refl. cbn [andb negb].
  unfold num2. rewrite !dch_dig by assumption. reflexivity.
Qed.

Definition time_range (y m d h mi s : Z) : bool :=
  ((1 <=? m) && (m <=? 12) && (1 <=? d) && (d <=? days_in y m) && (h <=? 23) && (mi <=? 59) && (s <=? 59))%Z.

Lemma parse_rfc3339_rendered : forall y m d h mi s z,
  (0 <= y <= 9999)%Z -> (0 <= m < 100)%Z -> (0 <= d < 100)%Z -> (0 <= h < 100)%Z -> (0 <= mi < 100)%Z -> (0 <= s < 100)%Z ->
  forallb rfc_char z = true ->
  parse_rfc3339 (d4 y ++ [45] ++ d2 m ++ [45] ++ d2 d ++ [84] ++ d2 h ++ [58] ++ d2 mi ++ [58] ++ d2 s ++ z)
  = match parse_zone z with
    | None => Unm
    | Some zo =>
        if time_range y m d h mi s
        then match zo with Some o => Val (mk_time y m d (h * 3600 + mi * 60 + s)%Z o) | None => Unm end
        else Err
    end.
Proof.
  intros y m d h mi s z Hy Hm Hd Hh Hmi Hs Hz.
  unfold d4. rewrite !d2_dch. cbn [app].
  assert (Hy1 : (0 <= y / 100 < 100)%Z) by dm. assert (Hy2 : (0 <= y mod 100 < 100)%Z) by dm.
  rewrite parse_rfc3339_digits;
    try (apply d2_digits; assumption); try exact Hz.
  destruct (parse_zone z) as [zo|]; [|reflexivity]. cbv zeta.
  rewrite !d2_val, d4_val. reflexivity.
Qed.

Lemma parse_zone_Z : parse_zone [90] = Some (Some 0%Z).
Proof. reflexivity. Qed.

Lemma parse_zone_rendered : forall sg hr mm,
  sg = 43 \/ sg = 45 -> (0 <= hr < 100)%Z -> (0 <= mm < 100)%Z ->
  parse_zone ([sg] ++ d2 hr ++ [58] ++ d2 mm)
  = if ((hr <=? 23) && (mm <=? 59))%Z
    then Some (Some (if sg =? 45 then (- (hr * 3600 + mm * 60))%Z else (hr * 3600 + mm * 60)%Z))
    else Some None.
Proof.
  intros sg hr mm Hsg Hh Hm. rewrite !d2_dch. cbn [app]. unfold parse_zone.
  assert (E : (sg =? 43) || (sg =? 45) = true) by lia. rewrite E, N.eqb_refl.
  destruct (d2_digits hr Hh) as [D1 D2]. destruct (d2_digits mm Hm) as [D3 D4].
  cbn [forallb]. rewrite !dch_is_digit by assumption. cbn [andb].
  unfold num2. rewrite !dch_dig by assumption. rewrite !d2_val. reflexivity.
Qed.

Lemma solid_d2 : forall v, (0 <= v < 100)%Z -> forallb solid_char (d2 v) = true.
Proof.
  intros v H. destruct (d2_digits v H) as [D1 D2]. rewrite d2_dch. cbn [forallb].
  rewrite (solid_digit _ (dch_is_digit _ D1)), (solid_digit _ (dch_is_digit _ D2)). reflexivity.
Qed.

Lemma rfc_d2 : forall v, (0 <= v < 100)%Z -> forallb rfc_char (d2 v) = true.
Proof.
  intros v H. destruct (d2_digits v H) as [D1 D2]. rewrite d2_dch. cbn [forallb].
  rewrite (dch_rfc _ D1), (dch_rfc _ D2). reflexivity.
Qed.

(** the facts [plain_time] packs *)
Lemma plain_time_facts : forall t, plain_time t = true ->
  let '(y, m, d) := civ t in
  let s := sod_of t in
  (0 <= y <= 9999)%Z /\ (1 <= m <= 12)%Z /\ (1 <= d <= days_in y m)%Z /\ (0 <= s < 86400)%Z /\
  inst t = (days_from_civil y m d * ns_per_day + s * ns_per_sec - off t * ns_per_sec)%Z /\
  (Z.abs (off t) < 86400)%Z /\ (off t mod 60 = 0)%Z.
Proof.
  intros t H. unfold plain_time in H. destruct (civ t) as [[y m] d].
  repeat (apply andb_true_iff in H; destruct H as [H ?]). lia.
Qed.

Lemma days_in_bound : forall y m, (days_in y m <= 31)%Z.
Proof. intros y m. unfold days_in. repeat match goal with |- context [if ?c then _ else _] => destruct c end; lia. Qed.

Lemma render_zone_facts : forall o, (Z.abs o < 86400)%Z -> (o mod 60 = 0)%Z ->
  forallb solid_char (render_zone o) = true /\ forallb rfc_char (render_zone o) = true /\
  parse_zone (render_zone o) = Some (Some o).
Proof.
  intros o Ha Hm. unfold render_zone. destruct (o =? 0)%Z eqn:E0.
  - assert (o = 0%Z) by lia. subst o. repeat split; reflexivity.
  - assert (Hh : (0 <= Z.abs o / 3600 < 100)%Z) by dm.
    assert (Hmm : (0 <= Z.abs o mod 3600 / 60 < 100)%Z) by dm.
    set (sg := if (0 <=? o)%Z then [43] else [45]).
    assert (Hsg : exists c, sg = [c] /\ (c = 43 \/ c = 45) /\ ((c =? 45) = negb (0 <=? o)%Z)).
    { unfold sg. destruct (0 <=? o)%Z; [exists 43|exists 45]; repeat split; auto. }
    destruct Hsg as (c & -> & Hc & Hc45).
    split; [|split].
    + rewrite !forallb_app, (solid_d2 _ Hh), (solid_d2 _ Hmm). destruct Hc as [-> | ->]; reflexivity.
    + rewrite !forallb_app, (rfc_d2 _ Hh), (rfc_d2 _ Hmm). destruct Hc as [-> | ->]; reflexivity.
    + rewrite (parse_zone_rendered c _ _ Hc Hh Hmm).
      assert (R : ((Z.abs o / 3600 <=? 23) && (Z.abs o mod 3600 / 60 <=? 59))%Z = true) by dm.
      rewrite R, Hc45. f_equal. f_equal. destruct (0 <=? o)%Z eqn:Es; cbn [negb]; dm.
Qed.

Theorem parse_render_time : forall t, plain_time t = true ->
  parse_rfc3339 (render_time t) = Val t /\ forallb solid_char (render_time t) = true.
Proof.
  intros t H. pose proof (plain_time_facts t H) as F. unfold render_time.
  destruct t as [i o [[y m] d]]. cbn [civ off inst] in *.
  set (s := sod_of {| inst := i; off := o; civ := (y, m, d) |}) in *.
  destruct F as (Hy & Hm & Hd & Hs & Hi & Ho & Hom).
  pose proof (days_in_bound y m) as Hdb.
  destruct (render_zone_facts o Ho Hom) as (Z1 & Z2 & Z3).
  assert (R1 : (0 <= s / 3600 < 100)%Z) by dm.
  assert (R2 : (0 <= s mod 3600 / 60 < 100)%Z) by dm.
  assert (R3 : (0 <= s mod 60 < 100)%Z) by dm.
  assert (Y1 : (0 <= y / 100 < 100)%Z) by dm. assert (Y2 : (0 <= y mod 100 < 100)%Z) by dm.
  split.
  - rewrite parse_rfc3339_rendered; try lia; try assumption.
    rewrite Z3.
    assert (R : time_range y m d (s / 3600) (s mod 3600 / 60) (s mod 60) = true).
    { unfold time_range. assert ((s / 3600 <= 23)%Z /\ (s mod 3600 / 60 <= 59)%Z /\ (s mod 60 <= 59)%Z) by dm. lia. }
    rewrite R. f_equal. unfold mk_time. f_equal.
    rewrite Hi. assert ((s / 3600 * 3600 + s mod 3600 / 60 * 60 + s mod 60 = s)%Z) by dm. lia.
  - unfold d4. rewrite !forallb_app.
    rewrite (solid_d2 _ Y1), (solid_d2 _ Y2), (solid_d2 m), (solid_d2 d), (solid_d2 _ R1), (solid_d2 _ R2), (solid_d2 _ R3), Z1
      by lia. reflexivity.
Qed.

(** * [MaxDepth]: the decimal numeral *)
Lemma dec_val_app : forall s c, dec_val (s ++ [c]) = (dec_val s * 10 + dig c)%Z.
Proof. intros s c. unfold dec_val. rewrite fold_left_app. reflexivity. Qed.

Lemma dec_val_dec_of_N : forall n, dec_val (dec_of_N n) = Z.of_N n.
Proof.
  apply CsvNumerals.dec_ind.
  - intros n H. rewrite CsvNumerals.dec_of_N_small by exact H. unfold dec_val, dig. cbn [fold_left]. lia.
  - intros n H IH. rewrite CsvNumerals.dec_of_N_step by exact H. rewrite dec_val_app, IH. unfold dig.
    pose proof (N.div_mod n 10). lia.
Qed.

Lemma parse_int_dec_of_Z : forall z, (min_int64 <= z <= max_int64)%Z -> parse_int (dec_of_Z z) = Val z.
Proof.
  intros z Hz. assert (Hr : ((min_int64 <=? z) && (z <=? max_int64))%Z = true) by lia.
  destruct z as [|p|p].
  - reflexivity.
  - unfold dec_of_Z. pose proof (CsvNumerals.dec_of_N_digits (N.pos p)) as Hd.
    pose proof (dec_val_dec_of_N (N.pos p)) as Hv.
    destruct (dec_of_N (N.pos p)) as [|c r] eqn:E.
    { destruct (CsvNumerals.dec_of_N_head (N.pos p)) as (c & r & E' & _). congruence. }
    unfold parse_int. cbn [forallb] in Hd. apply andb_true_iff in Hd as [Hc Hr'].
    assert (E45 : c =? 45 = false) by (unfold is_digit in Hc; lia).
    assert (E43 : c =? 43 = false) by (unfold is_digit in Hc; lia).
    rewrite E45, E43. cbn [forallb]. rewrite Hc, Hr'. cbn [andb]. rewrite Hv.
    change (Z.of_N (N.pos p)) with (Z.pos p). rewrite Hr. reflexivity.
  - unfold dec_of_Z. pose proof (CsvNumerals.dec_of_N_digits (N.pos p)) as Hd.
    pose proof (dec_val_dec_of_N (N.pos p)) as Hv.
    destruct (dec_of_N (N.pos p)) as [|c r] eqn:E.
    { destruct (CsvNumerals.dec_of_N_head (N.pos p)) as (c & r & E' & _). congruence. }
    unfold parse_int. change (c_dash =? 45) with true. cbv iota. rewrite Hd, Hv.
    change (- Z.of_N (N.pos p))%Z with (Z.neg p). rewrite Hr. reflexivity.
Qed.

Lemma solid_dec_of_Z : forall z, forallb solid_char (dec_of_Z z) = true.
Proof.
  assert (HN : forall n, forallb solid_char (dec_of_N n) = true).
  { intros n. apply (forallb_imp is_digit); [exact solid_digit|apply CsvNumerals.dec_of_N_digits]. }
  intros [|p|p]; [reflexivity|apply HN|]. unfold dec_of_Z. cbn [forallb]. rewrite HN. reflexivity.
Qed.

(** * one rendered line *)
Lemma cfg_step_kv : forall s f n v, is_ident n = true -> is_value v = true ->
  cfg_step s f (n ++ 61 :: v) = tri_map (fun f' => (s, f')) (set_var s n (Some v) f).
Proof.
  intros s f n v Hn Hv.
  assert (E : n ++ 61 :: v = [] ++ n ++ [] ++ [61] ++ [] ++ v ++ [] ++ []).
  { cbn [app]. rewrite app_nil_r. reflexivity. }
  unfold cfg_step. rewrite E.
  rewrite utf8_ok_var_spelled by (try assumption; reflexivity).
  rewrite classify_line_var_spelled by (try assumption; reflexivity). reflexivity.
Qed.

Lemma seg_string : forall key n setter f o,
  key = n ++ [61] -> is_ident n = true ->
  (forall v, set_var SGlobal n (Some v) f = Val (setter f v)) ->
  plain_opt plain_value o = true ->
  run_state (opt_line key o) SGlobal f = Val (SGlobal, match o with Some v => setter f v | None => f end).
Proof.
  intros key n setter f o -> Hn Hset Ho. destruct o as [v|]; [|reflexivity].
  cbn [opt_line run_state]. rewrite <- app_assoc. cbn [app].
  rewrite (cfg_step_kv SGlobal f n v Hn Ho), Hset. reflexivity.
Qed.

Lemma seg_now : forall f o, plain_opt plain_time o = true ->
  run_state (opt_line (b "Now=") (option_map render_time o)) SGlobal f
  = Val (SGlobal, match o with Some t => set_now f t | None => f end).
Proof.
  intros f o Ho. destruct o as [t|]; [|reflexivity]. cbn [plain_opt] in Ho.
  destruct (parse_render_time t Ho) as [Hp Hs].
  cbn [option_map opt_line run_state].
  change (b "Now=" ++ render_time t) with (b "Now" ++ 61 :: render_time t).
  rewrite (cfg_step_kv SGlobal f (b "Now") (render_time t) eq_refl (is_value_solid _ Hs)).
  change (set_var SGlobal (b "Now") (Some (render_time t)) f) with (tri_map (set_now f) (parse_rfc3339 (render_time t))).
  rewrite Hp. reflexivity.
Qed.

Lemma seg_depth : forall f o, plain_opt (fun z => (min_int64 <=? z) && (z <=? max_int64))%Z o = true ->
  run_state (opt_line (b "MaxDepth=") (option_map dec_of_Z o)) SResolver f
  = Val (SResolver, match o with Some z => set_depth f z | None => f end).
Proof.
  intros f o Ho. destruct o as [z|]; [|reflexivity]. cbn [plain_opt] in Ho.
  cbn [option_map opt_line run_state].
  change (b "MaxDepth=" ++ dec_of_Z z) with (b "MaxDepth" ++ 61 :: dec_of_Z z).
  rewrite (cfg_step_kv SResolver f (b "MaxDepth") (dec_of_Z z) eq_refl (is_value_solid _ (solid_dec_of_Z z))).
  change (set_var SResolver (b "MaxDepth") (Some (dec_of_Z z)) f) with (tri_map (set_depth f) (parse_int (dec_of_Z z))).
  rewrite parse_int_dec_of_Z by lia. reflexivity.
Qed.

(** * the whole text *)
Lemma lf_free_opt_line : forall key o, lf_free key = true -> plain_opt (fun v => lf_free v) o = true ->
  Forall (fun l => lf_free l = true) (opt_line key o).
Proof.
  intros key o Hk Ho. destruct o as [v|]; [|constructor]. constructor; [|constructor].
  cbn [plain_opt] in Ho. unfold lf_free in *. unfold memb in *. rewrite existsb_app. rewrite negb_orb, Hk, Ho. reflexivity.
Qed.

Lemma plain_opt_imp : forall A (P Q : A -> bool) o, (forall x, P x = true -> Q x = true) ->
  plain_opt P o = true -> plain_opt Q o = true.
Proof. intros A P Q [x|] H Hp; [apply H; exact Hp|reflexivity]. Qed.

Lemma config_lines_lf_free : forall e, cfg_plain e = true -> Forall (fun l => lf_free l = true) (config_lines e).
Proof.
  intros e H. unfold cfg_plain in H.
  apply andb_true_iff in H as [H Hn]. apply andb_true_iff in H as [H Hd]. apply andb_true_iff in H as [H Hf].
  apply andb_true_iff in H as [Hdb Hl].
  unfold config_lines. repeat (apply Forall_app; split).
  - constructor; [reflexivity|constructor].
  - apply lf_free_opt_line; [reflexivity|]. destruct (ce_now e) as [t|]; [|reflexivity]. cbn [option_map plain_opt] in *.
    apply lf_free_value. apply is_value_solid. apply (parse_render_time t Hn).
  - apply lf_free_opt_line; [reflexivity|]. revert Hdb. apply plain_opt_imp. exact lf_free_value.
  - apply lf_free_opt_line; [reflexivity|]. revert Hl. apply plain_opt_imp. exact lf_free_value.
  - apply lf_free_opt_line; [reflexivity|]. revert Hf. apply plain_opt_imp. exact lf_free_value.
  - constructor; [reflexivity|constructor].
  - apply lf_free_opt_line; [reflexivity|]. destruct (ce_depth e) as [z|]; [|reflexivity]. cbn [option_map plain_opt].
    apply lf_free_value. apply is_value_solid. apply solid_dec_of_Z.
Qed.

Theorem parse_render_config : forall e, cfg_plain e = true ->
  parse_config (render_config e) = CfgOk (fields_of_cfg e).
Proof.
  intros e H. pose proof (config_lines_lf_free e H) as HF.
  unfold parse_config, render_config. rewrite (split_on_terminated _ HF). rewrite run_lines_state.
  unfold cfg_plain in H.
  apply andb_true_iff in H as [H Hn]. apply andb_true_iff in H as [H Hd]. apply andb_true_iff in H as [H Hf].
  apply andb_true_iff in H as [Hdb Hl].
  unfold config_lines. rewrite !run_state_app.
  change (run_state [b "[Global]"] SNone no_fields) with (Val (SGlobal, no_fields)). cbv iota.
  rewrite run_state_app, (seg_now _ _ Hn). cbv iota.
  rewrite run_state_app,
    (seg_string (b "DbFileName=") (b "DbFileName") set_db _ _ eq_refl eq_refl (fun v => eq_refl) Hdb). cbv iota.
  rewrite run_state_app,
    (seg_string (b "LogFileName=") (b "LogFileName") set_log _ _ eq_refl eq_refl (fun v => eq_refl) Hl). cbv iota.
  rewrite run_state_app,
    (seg_string (b "DateFormat=") (b "DateFormat") set_fmt _ _ eq_refl eq_refl (fun v => eq_refl) Hf). cbv iota.
  rewrite run_state_app.
  match goal with |- context [run_state [b "[Resolver]"] SGlobal ?f] =>
    change (run_state [b "[Resolver]"] SGlobal f) with (Val (SResolver, f)) end.
  cbv iota. rewrite (seg_depth _ _ Hd).
  cbn [run_state].
  match goal with |- context [cfg_step SResolver ?f []] => change (cfg_step SResolver f []) with (Val (SResolver, f)) end.
  cbn [result_of]. f_equal.
  destruct e as [odb olog ofmt odepth onow]. cbn [ce_db ce_log ce_fmt ce_depth ce_now fields_of_cfg].
  destruct onow, odb, olog, ofmt, odepth; reflexivity.
Qed.

(** the rendering, read as the entries of the model's file system *)
Lemma cfg_of_fields_of_cfg : forall e, cfg_of_fields (fields_of_cfg e) = e.
Proof. intros [? ? ? ? ?]. reflexivity. Qed.

Theorem read_config_render : forall e, cfg_plain e = true -> read_config (render_config e) = inr e.
Proof. intros e H. unfold read_config. rewrite (parse_render_config e H), cfg_of_fields_of_cfg. reflexivity. Qed.
