(** WP16 / property C08: no input makes a command crash.

    In the model every Go operation that can panic is explicit; the only one
    is the map lookup of the single-element register ([rep_single]: [Some None]
    from [single_row] becomes [Panicked]).  This file proves that it never
    happens, for all worlds and all invocations, and the consequences.

    TERMINATION.  [run] is a Coq function, hence total.  Every loop of the
    program is a structural recursion in the model:
      - the scanner / parser: [raw_lines], [take_lines], [parse_loop],
        [drive_loop] recurse on the list of bytes / lines / events;
      - the walk over the log is [drive_loop] with the callback [walk_cb];
      - reporters fold over the elements of a day ([fold_left], [flat_map], [map]);
      - sorting is insertion sort on lists ([isort], [go_insert]);
      - the output path: [bw_chunks] recurses on the list of chunks, [bw_write]
        unrolls bufio's loop (at most two iterations);
      - the balance tree: recursion on path segments and on the tree;
      - the ONLY data-dependent recursion is [resolve_node], structural on its
        fuel [maxDepth - level]: see [resolve_node_fuel_0] and
        [resolve_node_step] below. *)
From Coq Require Import Lia ZifyBool Permutation.
From HP Require Import Base.Bytes Base.Utf8 Base.Num Model.Scanner Model.Parser Model.Elements Model.Resolver
  Model.Dates Model.Tree Model.Writer Model.Reporters Model.Cli.
From HP Require Import Spec.ResolverSpec Proofs.Settings.

(** * Byte-string equality *)
Lemma beq_refl : forall x, beq x x = true.
Proof. induction x as [|a x IH]; [reflexivity|]. cbn [beq]. rewrite N.eqb_refl, IH. reflexivity. Qed.

Lemma beq_true_iff : forall x y, beq x y = true <-> x = y.
Proof.
  induction x as [|a x IH]; intros [|c y]; cbn [beq]; split; intros H; try reflexivity; try discriminate.
  - apply andb_prop in H. destruct H as (H1 & H2). apply N.eqb_eq in H1. apply IH in H2. subst. reflexivity.
  - inversion H; subst. rewrite N.eqb_refl. cbn [andb]. apply IH. reflexivity.
Qed.

Section NoCrash.
  Context (NM : Num).
  Notation elements := (elements NM).
  Notation db := (list (bytes * elements)).

  (** * The key lemma: the lookup in the single-element register always succeeds *)

  (** an accumulator that has only ever seen the name [x] *)
  Definition only (x : bytes) (acc : accumulator NM) : Prop := acc = [] \/ exists pn, acc = [(x, pn)].

  Lemma acc_add_only : forall x v acc, only x acc -> exists pn, acc_add NM x v acc = [(x, pn)].
  Proof.
    intros x v acc [->|(pn & ->)]; unfold acc_add; cbn [lookup].
    - eexists. reflexivity.
    - rewrite beq_refl. destruct pn as [p n]. cbn [set]. rewrite beq_refl. eexists. reflexivity.
  Qed.

  Lemma fold_acc_add_only : forall x cs,
    Forall (fun nv => fst nv = x) cs ->
    forall acc, only x acc ->
    only x (fold_left (fun acc nv => acc_add NM (fst nv) (snd nv) acc) cs acc).
  Proof.
    intros x cs H. induction H as [|nv cs Hnv _ IH]; intros acc Hacc; cbn [fold_left]; [assumption|].
    apply IH. right. rewrite Hnv. apply acc_add_only. assumption.
  Qed.

  (** every contribution the single-element register feeds to the day's accumulator is named [x] *)
  Lemma single_contributions_names : forall (d : db) x ln,
    Forall (fun nv => fst nv = x) (single_contributions NM d x ln).
  Proof.
    intros d x ln. unfold single_contributions. apply Forall_flat_map. apply Forall_forall.
    intros [name v] _. destruct (lookup name d) as [els|].
    - apply Forall_flat_map. apply Forall_forall. intros r _.
      destruct (beq (fst r) x) eqn:E; [|constructor].
      constructor; [|constructor]. cbn [fst]. apply beq_true_iff. exact E.
    - destruct (beq name x) eqn:E; [|constructor].
      constructor; [|constructor]. cbn [fst]. apply beq_true_iff. exact E.
  Qed.

  Theorem single_row_never_index_panics : forall (d : db) x ln, single_row NM d x ln <> Some None.
  Proof.
    intros d x ln. unfold single_row, accumulate.
    pose proof (fold_acc_add_only x _ (single_contributions_names d x ln) [] (or_introl eq_refl)) as H.
    destruct H as [->|(pn & ->)]; [discriminate|].
    cbn [lookup]. rewrite beq_refl. discriminate.
  Qed.

  (** * Reporters never record a panic *)

  (** a reporter is safe when an invariant of its state, true initially and
      kept by [r_process], excludes a recorded panic *)
  Definition reporter_safe (R : reporter NM) : Prop :=
    exists Inv : RS NM R -> Prop,
      Inv (r_init NM R) /\
      (forall perm rs ln, Inv rs -> Inv (fst (fst (r_process NM R perm rs ln)))) /\
      (forall rs, Inv rs -> r_panic NM R rs = None).

  Ltac trivially_safe := exists (fun _ => True); split; [exact I|]; split; [intros; exact I|intros; reflexivity].

  Lemma rep_template_safe : forall c d, reporter_safe (rep_template NM c d).  Proof. intros; trivially_safe. Qed.
  Lemma rep_summary_safe : forall c d, reporter_safe (rep_summary NM c d).    Proof. intros; trivially_safe. Qed.
  Lemma rep_old_safe : forall c d, reporter_safe (rep_old NM c d).            Proof. intros; trivially_safe. Qed.
  Lemma rep_byfood_safe : forall c d, reporter_safe (rep_byfood NM c d).      Proof. intros; trivially_safe. Qed.
  Lemma rep_single_food_safe : forall c, reporter_safe (rep_single_food NM c). Proof. intros; trivially_safe. Qed.
  Lemma rep_balance_safe : forall c, reporter_safe (rep_balance NM c).        Proof. intros; trivially_safe. Qed.
  Lemma rep_balance_single_safe : forall c d, reporter_safe (rep_balance_single NM c d). Proof. intros; trivially_safe. Qed.
  Lemma rep_totals_safe : forall d, reporter_safe (rep_totals NM d).          Proof. intros; trivially_safe. Qed.
  Lemma rep_quantity_safe : forall desc, reporter_safe (rep_quantity NM desc). Proof. intros; trivially_safe. Qed.
  Lemma rep_unresolved_safe : forall d, reporter_safe (rep_unresolved NM d).  Proof. intros; trivially_safe. Qed.
  Lemma rep_csv_log_safe : reporter_safe (rep_csv_log NM).                    Proof. trivially_safe. Qed.
  Lemma rep_print_safe : forall c, reporter_safe (rep_print NM c).            Proof. intros; trivially_safe. Qed.

  (** the one reporter with a partial operation: its state stays [None] *)
  Lemma rep_single_safe : forall c d, reporter_safe (rep_single NM c d).
  Proof.
    intros c d. exists (fun st => st = None). split; [reflexivity|]. split.
    - intros perm rs ln ->. cbn [r_process rep_single].
      pose proof (single_row_never_index_panics d (rc_single_element c) ln) as Hne.
      destruct (single_row NM d (rc_single_element c) ln) as [[[p n]|]|]; try reflexivity.
      exfalso. apply Hne. reflexivity.
    - intros rs ->. reflexivity.
  Qed.

  Lemma reg_reporter_safe : forall c d, reporter_safe (reg_reporter NM c d).
  Proof.
    intros c d. unfold reg_reporter. destruct (rc_single_element c) as [|x0 xr].
    - destruct (rc_single_food c) as [|f0 fr]; [|apply rep_single_food_safe].
      destruct (rc_old c); [apply rep_old_safe|apply rep_template_safe].
    - destruct (rc_group_food c); [apply rep_byfood_safe|apply rep_single_safe].
  Qed.

  Lemma bal_reporter_safe : forall c d, reporter_safe (bal_reporter NM c d).
  Proof.
    intros c d. unfold bal_reporter. destruct (rc_single_element c) as [|x0 xr];
      [apply rep_balance_safe|apply rep_balance_single_safe].
  Qed.

  (** * Invariants survive the parser's callback protocol *)
  Section ParseInv.
    Context {S E : Type} (cb : S -> event NM -> S * bool * option E) (P : S -> Prop).
    Hypothesis Hcb : forall s ev, P s -> P (fst (fst (cb s ev))).

    Lemma drive_loop_inv : forall evs s, P s -> P (fst (drive_loop NM cb evs s)).
    Proof.
      induction evs as [|ev evs IH]; intros s Hs; cbn [drive_loop]; [exact Hs|].
      pose proof (Hcb s ev Hs) as H1. destruct (cb s ev) as [[s' stop] e]. cbn [fst] in H1.
      destruct stop; [exact H1|]. apply IH. exact H1.
    Qed.

    Lemma drive_inv : forall evs last fin s, P s -> P (fst (drive NM cb evs last fin s)).
    Proof.
      intros evs last fin s Hs. unfold drive.
      pose proof (drive_loop_inv evs s Hs) as H1. destruct (drive_loop NM cb evs s) as [s' [e|]]; cbn [fst] in H1.
      - exact H1.
      - destruct fin; try exact H1. destruct last as [n|]; [|exact H1].
        pose proof (Hcb s' (ENode n) H1) as H2. destruct (cb s' (ENode n)) as [[s'' stop] e]. exact H2.
    Qed.

    Lemma parse_stream_inv : forall data f s, P s -> P (fst (parse_stream NM cb data f s)).
    Proof.
      intros data f s Hs. unfold parse_stream. destruct (scan data f) as [lines fin].
      destruct (parse_lines NM lines) as [evs last]. apply drive_inv. exact Hs.
    Qed.
  End ParseInv.

  Lemma parse_opened_inv : forall S (cb : S -> event NM -> S * bool * option cerr) (P : S -> Prop),
    (forall s ev, P s -> P (fst (fst (cb s ev)))) ->
    forall o s, P s -> P (fst (parse_opened NM cb o s)).
  Proof.
    intros S cb P Hcb o s Hs. unfold parse_opened.
    destruct o as [data f|].
    - pose proof (parse_stream_inv cb P Hcb data f s Hs) as H.
      destruct (parse_stream NM cb data f s) as [s' r]. exact H.
    - pose proof (parse_stream_inv cb P Hcb [] (FailAt 0) s Hs) as H.
      destruct (parse_stream NM cb [] (FailAt 0) s) as [s' r]. exact H.
  Qed.

  (** * The walk keeps the reporter's invariant *)
  Lemma walk_cb_inv : forall (R : reporter NM) (Inv : RS NM R -> Prop) pd toks bt et,
    (forall perm rs ln, Inv rs -> Inv (fst (fst (r_process NM R perm rs ln)))) ->
    forall st ev, Inv (fst (fst st)) -> Inv (fst (fst (fst (fst (walk_cb NM R pd toks bt et st ev))))).
  Proof.
    intros R Inv pd toks bt et Hp [[rs k] wr] ev Hs. cbn [fst] in Hs. unfold walk_cb.
    destruct ev as [n|e]; [|exact Hs].
    destruct (parse_date toks (header n)) as [c|]; [|exact Hs].
    destruct (in_interval bt et (time_of_civil c)); [|exact Hs].
    match goal with |- context [r_process NM R ?perm rs ?ln] =>
      pose proof (Hp perm rs ln Hs) as H1; destruct (r_process NM R perm rs ln) as [[rs' chunks] perr] end.
    cbn [fst] in H1.
    destruct (bw_chunks wr chunks) as [wr' werr]. exact H1.
  Qed.

  Lemma walk_and_finish_inv : forall (R : reporter NM) (Inv : RS NM R -> Prop) pd pf toks bt et o wr,
    Inv (r_init NM R) ->
    (forall perm rs ln, Inv rs -> Inv (fst (fst (r_process NM R perm rs ln)))) ->
    Inv (snd (walk_and_finish NM R pd pf toks bt et o wr)).
  Proof.
    intros R Inv pd pf toks bt et o wr Hi Hp. unfold walk_and_finish.
    pose proof (parse_opened_inv _ (walk_cb NM R pd toks bt et) (fun st => Inv (fst (fst st)))
                  (walk_cb_inv R Inv pd toks bt et Hp) o (r_init NM R, O, wr) Hi) as H.
    destruct (parse_opened NM (walk_cb NM R pd toks bt et) o (r_init NM R, O, wr)) as [[[rs k] wr1] werr].
    cbn [fst] in H.
    destruct (bw_chunks wr1 (r_flush NM R pf rs)) as [wr2 e2].
    destruct (if e2 then (wr2, true) else bw_flush wr2) as [wr3 ferr]. exact H.
  Qed.

  (** * No command ends in [Panicked] *)

  Definition not_panicked (o : outcome) : Prop :=
    match out_status o with Panicked _ => False | _ => True end.

  Lemma not_panicked_iff : forall o, not_panicked o <-> forall site, out_status o <> Panicked site.
  Proof.
    intros o. unfold not_panicked. destruct (out_status o) as [|e|s]; split; intros H; try exact I; try discriminate.
    - destruct H.
    - apply (H s). reflexivity.
  Qed.

  (** take apart every [match] of the goal whose scrutinee is not under a binder *)
  Ltac break :=
    repeat match goal with
           | |- context [match ?x with _ => _ end] => destruct x eqn:?
           end.

  Lemma run_db_log_not_panicked : forall w op mk bt et,
    (forall d, reporter_safe (mk d)) -> not_panicked (run_db_log NM w op mk bt et).
  Proof.
    intros w op mk bt et Hsafe. unfold run_db_log.
    destruct (open_all w [op_db op; op_log op]) as [[|odb [|olog [|o3 r]]]|]; try exact I.
    destruct (resolved_db NM w op odb) as [e|d]; [exact I|].
    destruct (tokenize (op_fmt op)) as [toks|]; [|exact I].
    destruct (Hsafe d) as (Inv & Hi & Hp & Hn).
    pose proof (walk_and_finish_inv (mk d) Inv (o_day (w_or w)) (o_flush (w_or w)) toks bt et olog (new_writer w) Hi Hp) as H.
    destruct (walk_and_finish NM (mk d) (o_day (w_or w)) (o_flush (w_or w)) toks bt et olog (new_writer w))
      as [[wr' e] rs].
    cbn [snd] in H. rewrite (Hn rs H). destruct e as [e|]; exact I.
  Qed.

  Lemma run_log_not_panicked : forall w op R, not_panicked (run_log NM w op R).
  Proof.
    intros w op R. unfold run_log.
    destruct (open_all w [op_log op]) as [[|olog [|o2 r]]|]; try exact I.
    destruct (tokenize (op_fmt op)) as [toks|]; [|exact I].
    destruct (walk_and_finish NM R (o_day (w_or w)) (o_flush (w_or w)) toks (op_begin op) (op_end op) olog (new_writer w))
      as [[wr' e] rs].
    destruct e as [e|]; exact I.
  Qed.

  Lemma run_element_total_not_panicked : forall w op x desc, not_panicked (run_element_total NM w op x desc).
  Proof. intros w op x desc. unfold run_element_total. break; exact I. Qed.

  Lemma run_csv_db_not_panicked : forall w op, not_panicked (run_csv_db NM w op).
  Proof. intros w op. unfold run_csv_db. break; exact I. Qed.

  Lemma run_csv_db_resolved_not_panicked : forall w op, not_panicked (run_csv_db_resolved NM w op).
  Proof. intros w op. unfold run_csv_db_resolved. break; exact I. Qed.

  Lemma run_lint_not_panicked : forall w file silent, not_panicked (run_lint NM w file silent).
  Proof. intros w file silent. unfold run_lint. break; exact I. Qed.

  Lemma run_stats_not_panicked : forall w op, not_panicked (run_stats NM w op).
  Proof. intros w op. unfold run_stats. break; exact I. Qed.

  Lemma run_not_panicked : forall w i, not_panicked (run NM w i).
  Proof.
    intros w i. unfold run. destruct (load w i) as [e|op]; [exact I|].
    destruct (i_cmd i) as [| |file|arg| | | | | | | |arg| ].
    - apply run_db_log_not_panicked. apply reg_reporter_safe.
    - apply run_db_log_not_panicked. apply bal_reporter_safe.
    - apply run_lint_not_panicked.
    - apply run_element_total_not_panicked.
    - apply run_db_log_not_panicked. apply rep_unresolved_safe.
    - apply run_log_not_panicked.
    - apply run_db_log_not_panicked. apply rep_totals_safe.
    - apply run_log_not_panicked.
    - apply run_csv_db_not_panicked.
    - apply run_csv_db_resolved_not_panicked.
    - apply run_stats_not_panicked.
    - destruct (time_from_string w (op_now op) (rc_date (op_rc op)) arg) as [e|t]; [exact I|].
      apply run_db_log_not_panicked. apply rep_summary_safe.
    - apply run_log_not_panicked.
  Qed.

  (** for ALL worlds (arbitrary bytes in every file, directories, missing
      files, read faults, a failing sink, arbitrary map orders -- the oracles
      need not even be permutations) and all invocations *)
  Theorem run_never_panics : forall w i site, out_status (run NM w i) <> Panicked site.
  Proof. intros w i. apply not_panicked_iff. apply run_not_panicked. Qed.

  Theorem outcome_is_report_or_error : forall w i,
    out_status (run NM w i) = Ok \/ exists e, out_status (run NM w i) = Failed e.
  Proof.
    intros w i. pose proof (run_never_panics w i) as H.
    destruct (out_status (run NM w i)) as [|e|s]; [left; reflexivity|right; exists e; reflexivity|].
    exfalso. apply (H s). reflexivity.
  Qed.

  (** * Bounded recursion of the resolver *)

  (** no fuel, no call: at level [maxDepth] the resolver gives up at once *)
  Lemma resolve_node_fuel_0 : forall st r, resolve_node NM 0 st r = None.
  Proof. reflexivity. Qed.

  (** with fuel [S f] every nested call is made with fuel [f]: the nesting of
      calls below a call with fuel [n] is at most [n] deep *)
  Lemma resolve_node_step : forall f st name,
    resolve_node NM (S f) st name =
    match lookup name (fst st) with
    | None => Some (O, st)
    | Some els =>
        match lookup name (snd st) with
        | Some InProgress => None
        | Some (Done h) => if Nat.leb (S f) h then None else Some (h, st)
        | None =>
            match ingredients_loop NM (resolve_node NM f) els (fst st, set name InProgress (snd st)) [] O with
            | None => None
            | Some (height, (d, m), nel) =>
                Some (height, (set name (sort_elements NM nel) d, set name (Done height) m))
            end
        end
    end.
  Proof. reflexivity. Qed.

  (** an instrumented copy that also returns the deepest nesting level it
      reached (0 = the call itself returned without recursing) ... *)
  Section Instrumented.
    Context (rec : Resolver.db NM * memo -> bytes -> option (nat * (Resolver.db NM * memo)) * nat).
    Fixpoint ingredients_loop_d (els : elements) (st : Resolver.db NM * memo) (nel : elements) (height : nat) (depth : nat)
      : option (nat * (Resolver.db NM * memo) * elements) * nat :=
      match els with
      | [] => (Some (height, st, nel), depth)
      | (e, v) :: rest =>
          match rec st e with
          | (None, k) => (None, Nat.max depth (S k))
          | (Some (h, st'), k) =>
              ingredients_loop_d rest st'
                (match lookup e (fst st') with
                 | Some found => sum_merge NM nel found v
                 | None => sum_merge NM nel [(e, v)] (one NM)
                 end) (Nat.max height (S h)) (Nat.max depth (S k))
          end
      end.
  End Instrumented.

  Fixpoint resolve_node_d (fuel : nat) (st : Resolver.db NM * memo) (name : bytes) : option (nat * (Resolver.db NM * memo)) * nat :=
    match fuel with
    | O => (None, O)
    | S f =>
        match lookup name (fst st) with
        | None => (Some (O, st), O)
        | Some els =>
            match lookup name (snd st) with
            | Some InProgress => (None, O)
            | Some (Done h) => (if Nat.leb fuel h then None else Some (h, st), O)
            | None =>
                match ingredients_loop_d (resolve_node_d f) els (fst st, set name InProgress (snd st)) [] O O with
                | (None, k) => (None, k)
                | (Some (height, (d, m), nel), k) =>
                    (Some (height, (set name (sort_elements NM nel) d, set name (Done height) m)), k)
                end
            end
        end
    end.

  (** ... computes the same result ... *)
  Lemma ingredients_loop_d_fst : forall rec recd,
    (forall st e, fst (recd st e) = rec st e) ->
    forall els st nel height depth,
      fst (ingredients_loop_d recd els st nel height depth) = ingredients_loop NM rec els st nel height.
  Proof.
    intros rec recd Hrec. induction els as [|[e v] rest IH]; intros st nel height depth; cbn [ingredients_loop_d ingredients_loop].
    - reflexivity.
    - rewrite <- (Hrec st e). destruct (recd st e) as [[[h st']|] k]; cbn [fst]; [apply IH|reflexivity].
  Qed.

  Lemma resolve_node_d_fst : forall fuel st name, fst (resolve_node_d fuel st name) = resolve_node NM fuel st name.
  Proof.
    induction fuel as [|f IH]; intros st name; [reflexivity|]. cbn [resolve_node_d resolve_node].
    destruct (lookup name (fst st)) as [els|]; [|reflexivity].
    destruct (lookup name (snd st)) as [[|h]|]; try reflexivity.
    rewrite <- (ingredients_loop_d_fst (resolve_node NM f) (resolve_node_d f) IH els _ [] O O).
    destruct (ingredients_loop_d (resolve_node_d f) els (fst st, set name InProgress (snd st)) [] O O)
      as [[[[height [d m]] nel]|] k]; reflexivity.
  Qed.

  (** ... and never nests deeper than its fuel allows *)
  Lemma ingredients_loop_d_depth : forall recd bound,
    (forall st e, snd (recd st e) < bound)%nat ->
    forall els st nel height depth,
      (depth <= bound)%nat -> (snd (ingredients_loop_d recd els st nel height depth) <= bound)%nat.
  Proof.
    intros recd bound Hrec. induction els as [|[e v] rest IH]; intros st nel height depth Hd; cbn [ingredients_loop_d].
    - exact Hd.
    - pose proof (Hrec st e) as Hk. destruct (recd st e) as [[[h st']|] k]; cbn [snd] in *.
      + apply IH. lia.
      + lia.
  Qed.

  Theorem resolve_node_depth_bounded : forall fuel st name, (snd (resolve_node_d fuel st name) < S fuel)%nat.
  Proof.
    induction fuel as [|f IH]; intros st name; [cbn; lia|]. cbn [resolve_node_d].
    destruct (lookup name (fst st)) as [els|]; [|cbn [snd]; lia].
    destruct (lookup name (snd st)) as [[|h]|]; try (cbn [snd]; lia).
    pose proof (ingredients_loop_d_depth (resolve_node_d f) (S f) IH els (fst st, set name InProgress (snd st)) [] O O
                  ltac:(lia)) as H.
    destruct (ingredients_loop_d (resolve_node_d f) els (fst st, set name InProgress (snd st)) [] O O)
      as [[[[height [d m]] nel]|] k]; cbn [snd] in *; lia.
  Qed.

  (** * A depth limit of zero or less: an error, not a loop *)

  Lemma to_nat_nonpos : forall z, (z <= 0)%Z -> Z.to_nat z = O.
  Proof. intros z H. destruct z as [|p|p]; try reflexivity. lia. Qed.

  Lemma resolve_zero_depth : forall perm (d : db), perm (keys d) <> [] -> resolve NM 0 perm d = None.
  Proof.
    intros perm d H. unfold resolve. destruct (perm (keys d)) as [|n rest]; [congruence|]. reflexivity.
  Qed.

  Lemma oracle_nonempty : forall perm (d : db), order_oracle perm -> d <> [] -> perm (keys d) <> [].
  Proof.
    intros perm d Ho Hd Hnil. specialize (Ho (keys d)). rewrite Hnil in Ho.
    apply Permutation_nil in Ho. destruct d as [|kv r]; [congruence|discriminate].
  Qed.

  (** whatever opens as the book: if it parses to a non-empty book, resolution stops with EMaxDepth *)
  Lemma resolved_db_maxdepth : forall w op o d,
    (op_depth op <= 0)%Z -> load_db NM o = (d, None) -> d <> [] -> order_oracle (o_resolve (w_or w)) ->
    resolved_db NM w op o = inl EMaxDepth.
  Proof.
    intros w op o d Hz Hl Hd Ho. unfold resolved_db. rewrite Hl, (to_nat_nonpos _ Hz).
    rewrite resolve_zero_depth; [reflexivity|]. apply oracle_nonempty; assumption.
  Qed.

  (** the commands that resolve the recipe book *)
  Definition resolving_cmd (c : command) : bool :=
    match c with
    | CReg | CBal | CUnresolved | CTotals | CSummary _ | CElementTotal _ | CCsvDbResolved => true
    | _ => false
    end.

  (** the commands among them that also open the log *)
  Definition needs_log (c : command) : bool :=
    match c with CReg | CBal | CUnresolved | CTotals | CSummary _ => true | _ => false end.

  Lemma open_all_1 : forall w p o, open_file w p = Some o -> open_all w [p] = Some [o].
  Proof. intros w p o H. cbn [open_all]. rewrite H. reflexivity. Qed.

  Lemma open_all_2 : forall w p q o o', open_file w p = Some o -> open_file w q = Some o' -> open_all w [p; q] = Some [o; o'].
  Proof. intros w p q o o' H H'. cbn [open_all]. rewrite H, H'. reflexivity. Qed.

  Lemma run_db_log_maxdepth : forall w op mk bt et odb d,
    (op_depth op <= 0)%Z -> open_file w (op_db op) = Some odb -> load_db NM odb = (d, None) -> d <> [] ->
    order_oracle (o_resolve (w_or w)) ->
    run_db_log NM w op mk bt et =
    {| out_stdout := []; out_status := Failed (if open_file w (op_log op) then EMaxDepth else EOpen) |}.
  Proof.
    intros w op mk bt et odb d Hz Hdb Hl Hd Ho. unfold run_db_log.
    destruct (open_file w (op_log op)) as [olog|] eqn:Elog.
    - rewrite (open_all_2 _ _ _ _ _ Hdb Elog), (resolved_db_maxdepth w op odb d Hz Hl Hd Ho). reflexivity.
    - cbn [open_all]. rewrite Hdb, Elog. reflexivity.
  Qed.

  (** [--maxdepth 0] or a negative depth: every command that resolves a
      non-empty recipe book stops with "maximum resolution depth reached"
      before it writes anything *)
  Theorem negative_or_zero_maxdepth : forall w i op odb d,
    load w i = inr op -> (op_depth op <= 0)%Z ->
    resolving_cmd (i_cmd i) = true ->
    (* the recipe book opens, parses, and is not empty; map iteration delivers the keys of the map *)
    open_file w (op_db op) = Some odb -> load_db NM odb = (d, None) -> d <> [] ->
    order_oracle (o_resolve (w_or w)) ->
    (* what the command checks before it resolves is in order: the log opens,
       the argument of summary is a date, element-total has an element name *)
    (needs_log (i_cmd i) = true -> open_file w (op_log op) <> None) ->
    (forall arg, i_cmd i = CSummary arg ->
                 exists t, time_from_string w (op_now op) (rc_date (op_rc op)) arg = inr t) ->
    i_cmd i <> CElementTotal [] ->
    run NM w i = {| out_stdout := []; out_status := Failed EMaxDepth |}.
  Proof.
    intros w i op odb d Hload Hz Hcmd Hdb Hl Hd Ho Hlog Hsum Hel. unfold run. rewrite Hload.
    assert (Hdl : forall mk bt et, needs_log (i_cmd i) = true ->
              run_db_log NM w op mk bt et = {| out_stdout := []; out_status := Failed EMaxDepth |}).
    { intros mk bt et Hn. rewrite (run_db_log_maxdepth w op mk bt et odb d Hz Hdb Hl Hd Ho).
      specialize (Hlog Hn). destruct (open_file w (op_log op)); [reflexivity|congruence]. }
    destruct (i_cmd i) as [| |file|x| | | | | | | |arg| ] eqn:Ec; try discriminate Hcmd;
      try (apply Hdl; reflexivity).
    - (* element-total *)
      unfold run_element_total. destruct x as [|x0 xr]; [congruence|].
      rewrite (open_all_1 _ _ _ Hdb), (resolved_db_maxdepth w op odb d Hz Hl Hd Ho). reflexivity.
    - (* csv database-resolved *)
      unfold run_csv_db_resolved.
      rewrite (open_all_1 _ _ _ Hdb), (resolved_db_maxdepth w op odb d Hz Hl Hd Ho). reflexivity.
    - (* summary *)
      destruct (Hsum arg eq_refl) as (t & Ht). rewrite Ht. apply Hdl. reflexivity.
  Qed.

  (** without the side conditions: such a command never succeeds and never writes a byte *)
  Theorem negative_or_zero_maxdepth_never_ok : forall w i op odb d,
    load w i = inr op -> (op_depth op <= 0)%Z ->
    resolving_cmd (i_cmd i) = true ->
    open_file w (op_db op) = Some odb -> load_db NM odb = (d, None) -> d <> [] ->
    order_oracle (o_resolve (w_or w)) ->
    exists e, run NM w i = {| out_stdout := []; out_status := Failed e |}.
  Proof.
    intros w i op odb d Hload Hz Hcmd Hdb Hl Hd Ho. unfold run. rewrite Hload.
    destruct (i_cmd i) as [| |file|x| | | | | | | |arg| ] eqn:Ec; try discriminate Hcmd;
      try (rewrite (run_db_log_maxdepth w op _ _ _ odb d Hz Hdb Hl Hd Ho); eexists; reflexivity).
    - unfold run_element_total. destruct x as [|x0 xr]; [eexists; reflexivity|].
      rewrite (open_all_1 _ _ _ Hdb), (resolved_db_maxdepth w op odb d Hz Hl Hd Ho). eexists; reflexivity.
    - unfold run_csv_db_resolved.
      rewrite (open_all_1 _ _ _ Hdb), (resolved_db_maxdepth w op odb d Hz Hl Hd Ho). eexists; reflexivity.
    - destruct (time_from_string w (op_now op) (rc_date (op_rc op)) arg) as [e|t]; [eexists; reflexivity|].
      rewrite (run_db_log_maxdepth w op _ _ _ odb d Hz Hdb Hl Hd Ho). eexists; reflexivity.
  Qed.
End NoCrash.

(** * Where a non-positive depth comes from *)

(** the effective depth limit (C16): flag, else HR_MAXDEPTH, else the file's non-zero MaxDepth, else 10 *)
Lemma effective_depth : forall w i op,
  load w i = inr op ->
  exists cfg, load_config w i = inr cfg /\
    op_depth op = or_default (first_some [i_f_depth i; i_e_depth i; nonzero (ce_depth cfg)]) default_depth.
Proof.
  intros w i op H. destruct (load_inr_inv w i op H) as (cfg & toks & Hc & _).
  exists cfg. split; [exact Hc|]. apply (settings_precedence_depth w i op cfg H Hc).
Qed.

(** [--maxdepth z] with [z <= 0] (or HR_MAXDEPTH, or a negative MaxDepth in
    the file when neither is given) reaches the resolver as it is: only 0 IN THE
    FILE is replaced by the default *)
Lemma nonpositive_depth_sources : forall w i op z,
  load w i = inr op -> (z <= 0)%Z ->
  i_f_depth i = Some z \/
  (i_f_depth i = None /\ i_e_depth i = Some z) \/
  (i_f_depth i = None /\ i_e_depth i = None /\ (z < 0)%Z /\
   forall cfg, load_config w i = inr cfg -> ce_depth cfg = Some z) ->
  (op_depth op <= 0)%Z.
Proof.
  intros w i op z Hl Hz Hsrc. destruct (effective_depth w i op Hl) as (cfg & Hc & ->).
  destruct Hsrc as [Hf|[(Hf & He)|(Hf & He & Hneg & Hcfg)]].
  - rewrite Hf. exact Hz.
  - rewrite Hf, He. exact Hz.
  - rewrite Hf, He, (Hcfg cfg Hc). cbn. destruct (z =? 0)%Z eqn:E; [lia|]. cbn. exact Hz.
Qed.
