(** WP08: the tree that [tree_add_all] builds: well-formedness, which paths it
    has, what total every path carries. *)
From HP Require Import Base.Bytes Base.Num Model.Elements Model.Tree Model.Reporters.
From HP Require Import Spec.TreeShared Spec.TreeSpec Proofs.TreeBytes.
From Coq Require Import Lia Sorted Permutation.

Section TreeBuild.
  Context (NM : Num).
  Notation T := (T NM).
  Notation tree := (tree NM).
  Notation t_name := (t_name NM).
  Notation t_total := (t_total NM).
  Notation t_children := (t_children NM).
  Notation add_deep := (add_deep NM).
  Notation find_child := (find_child NM).
  Notation node_at := (node_at NM).
  Notation entries := (list (bytes * T)).

  (** * induction on trees *)
  Lemma tree_ind' (P : tree -> Prop) :
    (forall n x ch, Forall P ch -> P (Node n x ch)) -> forall t, P t.
  Proof.
    intros H. fix IH 1. intros [n x ch]. apply H.
    induction ch as [|c r IHr]; constructor; [apply IH|exact IHr].
  Qed.

  Lemma all_Forall (P : tree -> Prop) (ch : list tree) :
    (fix all (l : list tree) : Prop := match l with [] => True | c :: r => P c /\ all r end) ch <-> Forall P ch.
  Proof.
    induction ch as [|c r IH]; split; intro H.
    - constructor.
    - exact I.
    - destruct H as [H1 H2]. constructor; [exact H1|apply IH; exact H2].
    - inversion H as [|c' r' H1 H2]; subst. split; [exact H1|apply IH; exact H2].
  Qed.

  Lemma wf_tree_unfold : forall n x ch,
    wf_tree NM (Node n x ch) <-> NoDup (map t_name ch) /\ Forall (wf_tree NM) ch.
  Proof. intros n x ch. cbn [wf_tree]. rewrite all_Forall. reflexivity. Qed.

  Lemma slash_free_unfold : forall n x ch,
    slash_free NM (Node n x ch) <-> ~ In c_slash n /\ Forall (slash_free NM) ch.
  Proof. intros n x ch. cbn [slash_free]. rewrite all_Forall. reflexivity. Qed.

  Lemma chain_const_unfold : forall n x ch,
    chain_const NM (Node n x ch) <->
    (match ch with [only] => x = t_total only | _ => True end) /\ Forall (chain_const NM) ch.
  Proof. intros n x ch. cbn [chain_const]. rewrite all_Forall. reflexivity. Qed.

  Lemma sorted_tree_unfold : forall n x ch,
    sorted_tree NM (Node n x ch) <->
    StronglySorted (fun a c => bltb (t_name a) (t_name c) = true) ch /\ Forall (sorted_tree NM) ch.
  Proof. intros n x ch. cbn [sorted_tree]. rewrite all_Forall. reflexivity. Qed.

  (** a forest (the children of some node) is well formed *)
  Definition wf_forest (ch : list tree) : Prop := NoDup (map t_name ch) /\ Forall (wf_tree NM) ch.

  (** * [add_deep] one level at a time *)
  Fixpoint upd_child (n : bytes) (v : T) (rest : list bytes) (l : list tree) : list tree :=
    match l with
    | [] => [Node n v (add_deep rest v [])]
    | Node n' t c :: r =>
        if beq n n' then Node n' (add NM t v) (add_deep rest v c) :: r
        else Node n' t c :: upd_child n v rest r
    end.

  Lemma add_deep_cons : forall n rest v ch, add_deep (n :: rest) v ch = upd_child n v rest ch.
  Proof.
    intros n rest v ch. induction ch as [|[n' t c] r IH]; [reflexivity|].
    cbn [Tree.add_deep upd_child]. destruct (beq n n'); [reflexivity|]. f_equal. exact IH.
  Qed.

  Lemma upd_child_names_in : forall n v rest l k,
    In k (map t_name (upd_child n v rest l)) -> In k (map t_name l) \/ k = n.
  Proof.
    intros n v rest l k. induction l as [|[n' t c] r IH]; cbn [upd_child map Tree.t_name In].
    - intros [E|[]]. right. symmetry. exact E.
    - destruct (beq n n'); cbn [map Tree.t_name In]; [tauto|].
      intros [E|H]; [left; left; exact E|]. apply IH in H. tauto.
  Qed.

  Lemma wf_add_deep : forall names v ch, wf_forest ch -> wf_forest (add_deep names v ch).
  Proof.
    induction names as [|n rest IH]; intros v ch Hwf; [exact Hwf|].
    rewrite add_deep_cons. induction ch as [|[n' t c] r IHr]; cbn [upd_child].
    - split.
      + cbn. constructor; [intros []|constructor].
      + constructor; [|constructor]. apply wf_tree_unfold. apply IH. split; constructor.
    - destruct Hwf as [Hnd Hall]. cbn [map Tree.t_name] in Hnd.
      inversion Hnd as [|k l Hnin Hnd']; subst. inversion Hall as [|k l Hc Hall']; subst.
      destruct (beq_spec n n') as [E|E].
      + split; [exact Hnd|]. constructor; [|exact Hall'].
        apply wf_tree_unfold. apply IH. apply wf_tree_unfold in Hc. exact Hc.
      + destruct (IHr (conj Hnd' Hall')) as [Hnd2 Hall2]. split.
        * cbn [map Tree.t_name]. constructor; [|exact Hnd2].
          intro Hin. apply upd_child_names_in in Hin. destruct Hin as [Hin|Hin]; [contradiction|congruence].
        * constructor; assumption.
  Qed.

  (** * the forest after a list of entries *)
  Definition forest_add (ch : list tree) (es : entries) : list tree :=
    fold_left (fun ch nv => add_deep (segs (fst nv)) (snd nv) ch) es ch.

  Lemma tree_add_all_forest : forall es n x ch,
    tree_add_all NM (Node n x ch) es = Node n x (forest_add ch es).
  Proof.
    induction es as [|[f q] es IH]; intros n x ch; [reflexivity|].
    unfold tree_add_all, forest_add in *. cbn [fold_left fst snd tree_add]. apply IH.
  Qed.

  Lemma tree_add_all_app : forall t es1 es2,
    tree_add_all NM t (es1 ++ es2) = tree_add_all NM (tree_add_all NM t es1) es2.
  Proof. intros t es1 es2. unfold tree_add_all. apply fold_left_app. Qed.

  Lemma forest_add_app : forall ch es1 es2,
    forest_add ch (es1 ++ es2) = forest_add (forest_add ch es1) es2.
  Proof. intros ch es1 es2. unfold forest_add. apply fold_left_app. Qed.

  Lemma wf_forest_add : forall es ch, wf_forest ch -> wf_forest (forest_add ch es).
  Proof.
    induction es as [|[f q] es IH]; intros ch Hwf; [exact Hwf|].
    cbn [forest_add fold_left]. apply IH. apply wf_add_deep. exact Hwf.
  Qed.

  Lemma tree_wf_gen : forall es t, wf_tree NM t -> wf_tree NM (tree_add_all NM t es).
  Proof.
    intros es [n x ch] Hwf. rewrite tree_add_all_forest. apply wf_tree_unfold.
    apply wf_forest_add. apply wf_tree_unfold in Hwf. exact Hwf.
  Qed.

  Theorem tree_wf : forall es, wf_tree NM (tree_add_all NM (empty_root NM) es).
  Proof. intro es. apply tree_wf_gen. cbn. split; [constructor|exact I]. Qed.
  (** * [find_child] *)
  Lemma find_child_some : forall k l t, find_child k l = Some t -> In t l /\ t_name t = k.
  Proof.
    intros k l t. induction l as [|c r IH]; cbn [Tree.find_child]; [discriminate|].
    destruct (beq_spec k (t_name c)) as [E|E].
    - intro H. inversion H; subst. split; [left; reflexivity|reflexivity].
    - intro H. apply IH in H. destruct H as [H1 H2]. split; [right; exact H1|exact H2].
  Qed.

  Lemma find_child_none : forall k l, find_child k l = None <-> ~ In k (map t_name l).
  Proof.
    intros k l. induction l as [|c r IH]; cbn [Tree.find_child map In]; [tauto|].
    destruct (beq_spec k (t_name c)) as [E|E].
    - split; [discriminate|]. intro H. exfalso. apply H. left. symmetry. exact E.
    - rewrite IH. split; [intros H [H'|H']; [congruence|contradiction]|tauto].
  Qed.

  Lemma find_child_nodup : forall l t, NoDup (map t_name l) -> In t l -> find_child (t_name t) l = Some t.
  Proof.
    intros l t. induction l as [|c r IH]; cbn [Tree.find_child map In]; intros Hnd Hin; [contradiction|].
    inversion Hnd as [|k l' Hnin Hnd']; subst.
    destruct Hin as [E|Hin].
    - subst c. rewrite beq_refl. reflexivity.
    - destruct (beq_spec (t_name t) (t_name c)) as [E|E].
      + exfalso. apply Hnin. rewrite <- E. apply in_map. exact Hin.
      + apply IH; assumption.
  Qed.

  (** * totals along a path *)
  Definition lookup_path (p : list bytes) (ch : list tree) : option T := option_map t_total (node_at p ch).
  Definition upd_opt (o : option T) (v : T) : option T :=
    Some (match o with Some x => add NM x v | None => v end).
  Definition nonnil (p : list bytes) : bool := match p with [] => false | _ :: _ => true end.

  Lemma node_at_nil_forest : forall p, node_at p [] = None.
  Proof. intros [|a p]; reflexivity. Qed.

  Lemma lookup_path_nil_forest : forall p, lookup_path p [] = None.
  Proof. intro p. unfold lookup_path. rewrite node_at_nil_forest. reflexivity. Qed.

  Lemma node_at_cons_cons : forall a a' p ch,
    node_at (a :: a' :: p) ch =
    match find_child a ch with None => None | Some t => node_at (a' :: p) (t_children t) end.
  Proof. reflexivity. Qed.

  Lemma node_at_single : forall a ch, node_at [a] ch = find_child a ch.
  Proof. intros a ch. cbn [TreeSpec.node_at]. destruct (find_child a ch); reflexivity. Qed.

  (** uniform unfolding: the empty continuation means "this node" *)
  Lemma node_at_cons : forall a p ch,
    node_at (a :: p) ch =
    match find_child a ch with
    | None => None
    | Some t => if nonnil p then node_at p (t_children t) else Some t
    end.
  Proof. intros a [|a' p] ch; reflexivity. Qed.

  Lemma node_at_snoc : forall p c ch,
    p <> [] ->
    node_at (p ++ [c]) ch =
    match node_at p ch with None => None | Some t => find_child c (t_children t) end.
  Proof.
    induction p as [|a p IH]; intros c ch Hne; [congruence|].
    destruct p as [|a' p].
    - cbn [app]. rewrite node_at_cons_cons, node_at_single.
      destruct (find_child a ch) as [t|]; [apply node_at_single|reflexivity].
    - change ((a :: a' :: p) ++ [c]) with (a :: a' :: (p ++ [c])).
      rewrite !node_at_cons_cons. destruct (find_child a ch) as [t|]; [|reflexivity].
      apply (IH c (t_children t)). discriminate.
  Qed.

  Lemma lookup_path_cons : forall a p ch,
    lookup_path (a :: p) ch =
    match find_child a ch with
    | None => None
    | Some t => if nonnil p then lookup_path p (t_children t) else Some (t_total t)
    end.
  Proof.
    intros a p ch. unfold lookup_path. rewrite node_at_cons.
    destruct (find_child a ch) as [t|]; [|reflexivity]. destruct (nonnil p); reflexivity.
  Qed.

  Lemma lookup_add_deep : forall names v p ch,
    lookup_path p (add_deep names v ch) =
    if nonnil p && is_prefix_path p names then upd_opt (lookup_path p ch) v else lookup_path p ch.
  Proof.
    induction names as [|n rest IH]; intros v p ch.
    - cbn [Tree.add_deep]. destruct p; reflexivity.
    - rewrite add_deep_cons. destruct p as [|a p]; [reflexivity|].
      cbn [nonnil andb is_prefix_path].
      induction ch as [|[n' t c] r IHr]; cbn [upd_child].
      + rewrite lookup_path_nil_forest. rewrite lookup_path_cons.
        cbn [Tree.find_child Tree.t_name].
        destruct (beq_spec a n) as [E|E]; [|reflexivity].
        cbn [andb Tree.t_children Tree.t_total]. destruct p as [|a' p]; [reflexivity|].
        cbn [nonnil]. rewrite IH.
        cbn [nonnil andb]. rewrite lookup_path_nil_forest.
        destruct (is_prefix_path (a' :: p) rest); reflexivity.
      + rewrite !lookup_path_cons in *.
        destruct (beq_spec n n') as [E|E].
        * subst n'. cbn [Tree.find_child Tree.t_name].
          destruct (beq_spec a n) as [E|E]; [|reflexivity].
          cbn [andb Tree.t_children Tree.t_total]. destruct p as [|a' p]; [reflexivity|].
          cbn [nonnil]. rewrite IH.
          cbn [nonnil andb]. reflexivity.
        * cbn [Tree.find_child Tree.t_name].
          destruct (beq_spec a n') as [E'|E'].
          -- destruct (beq_spec a n) as [E''|E'']; [congruence|]. reflexivity.
          -- exact IHr.
  Qed.

  Definition fold_upd (l : list T) (o : option T) : option T := fold_left upd_opt l o.

  Lemma lookup_forest_add : forall es p ch,
    lookup_path p (forest_add ch es) =
    if nonnil p then fold_upd (map snd (matching NM es p)) (lookup_path p ch) else None.
  Proof.
    induction es as [|[f q] es IH]; intros p ch.
    - cbn. destruct p; reflexivity.
    - cbn [forest_add fold_left fst snd]. fold (forest_add (add_deep (segs f) q ch) es).
      rewrite IH, lookup_add_deep. destruct p as [|a p]; [reflexivity|].
      cbn [nonnil andb]. unfold matching. cbn [filter fst].
      destruct (is_prefix_path (a :: p) (segs f)); reflexivity.
  Qed.

  Lemma fold_upd_some : forall l x, fold_upd l (Some x) = Some (fold_left (add NM) l x).
  Proof. induction l as [|y l IH]; intro x; [reflexivity|]. cbn. apply IH. Qed.

  Lemma fold_upd_none : forall l,
    fold_upd l None = match l with [] => None | _ :: _ => Some (sum_first NM l) end.
  Proof. intros [|y l]; [reflexivity|]. cbn [fold_upd fold_left upd_opt]. apply fold_upd_some. Qed.

  (** the total at every path of the forest built from nothing *)
  Lemma lookup_forest : forall es p,
    lookup_path p (forest_add [] es) =
    if nonnil p then match matching NM es p with [] => None | _ :: _ => Some (total_at NM es p) end else None.
  Proof.
    intros es p. rewrite lookup_forest_add, lookup_path_nil_forest. destruct p as [|a p]; [reflexivity|].
    cbn [nonnil]. rewrite fold_upd_none. unfold total_at.
    destruct (matching NM es (a :: p)); reflexivity.
  Qed.
  (** * the paths of a forest *)
  Fixpoint tpaths (t : tree) : list (list bytes * T) :=
    match t with
    | Node n x ch => ([n], x) :: map (fun px => (n :: fst px, snd px)) (flat_map tpaths ch)
    end.
  Definition fpaths (ch : list tree) : list (list bytes * T) := flat_map tpaths ch.

  Lemma map_flat_map : forall {A B C} (g : B -> C) (f : A -> list B) l,
    map g (flat_map f l) = flat_map (fun a => map g (f a)) l.
  Proof.
    intros A B C g f l. induction l as [|a r IH]; [reflexivity|].
    cbn [flat_map]. rewrite map_app, IH. reflexivity.
  Qed.

  Lemma flat_map_ext_in : forall {A B} (f g : A -> list B) l,
    (forall a, In a l -> f a = g a) -> flat_map f l = flat_map g l.
  Proof.
    intros A B f g l H. induction l as [|a r IH]; [reflexivity|].
    cbn [flat_map]. rewrite (H a (or_introl eq_refl)), IH; [reflexivity|].
    intros a' Ha'. apply H. right. exact Ha'.
  Qed.

  Lemma paths_below_fpaths : forall t prefix,
    paths_below NM prefix t = map (fun px => (prefix ++ fst px, snd px)) (fpaths (t_children t)).
  Proof.
    induction t as [n x ch IH] using tree_ind'. intro prefix.
    cbn [paths_below Tree.t_children]. unfold fpaths. rewrite map_flat_map.
    apply flat_map_ext_in. intros c Hc. rewrite Forall_forall in IH. rewrite (IH c Hc).
    destruct c as [n' x' ch']. cbn [tpaths map fst snd Tree.t_name Tree.t_total Tree.t_children].
    f_equal. unfold fpaths. rewrite map_map. apply map_ext. intros [p y]. cbn [fst snd].
    rewrite <- app_assoc. reflexivity.
  Qed.

  Lemma tree_paths_fpaths : forall t, tree_paths NM t = fpaths (t_children t).
  Proof.
    intro t. unfold tree_paths. rewrite paths_below_fpaths.
    rewrite <- (map_id (fpaths (t_children t))) at 2. apply map_ext. intros [p x]. reflexivity.
  Qed.

  Lemma in_tpaths : forall t p x,
    In (p, x) (tpaths t) <->
    (p = [t_name t] /\ x = t_total t) \/ exists p', p = t_name t :: p' /\ In (p', x) (fpaths (t_children t)).
  Proof.
    intros [n y ch] p x. cbn [tpaths In Tree.t_name Tree.t_total Tree.t_children]. fold (fpaths ch). split.
    - intros [E|Hin].
      + inversion E; subst. left. split; reflexivity.
      + apply in_map_iff in Hin. destruct Hin as [[p' x'] [E Hin]]. cbn [fst snd] in E. inversion E; subst.
        right. exists p'. split; [reflexivity|exact Hin].
    - intros [[E1 E2]|[p' [E Hin]]].
      + subst. left. reflexivity.
      + subst. right. apply in_map_iff. exists (p', x). split; [reflexivity|exact Hin].
  Qed.

  Lemma in_fpaths : forall ch p x,
    In (p, x) (fpaths ch) <-> exists c, In c ch /\ In (p, x) (tpaths c).
  Proof. intros ch p x. unfold fpaths. apply in_flat_map. Qed.

  Lemma fpaths_nonnil : forall ch p x, In (p, x) (fpaths ch) -> p <> [].
  Proof.
    intros ch p x H. apply in_fpaths in H. destruct H as [c [_ H]]. apply in_tpaths in H.
    destruct H as [[E _]|[p' [E _]]]; subst; discriminate.
  Qed.

  Lemma wf_forest_children : forall c, wf_tree NM c <-> wf_forest (t_children c).
  Proof. intros [n x ch]. apply wf_tree_unfold. Qed.

  Lemma in_fpaths_node_at : forall p ch x,
    wf_forest ch ->
    (In (p, x) (fpaths ch) <-> exists t, node_at p ch = Some t /\ t_total t = x).
  Proof.
    induction p as [|a p IH]; intros ch x Hwf.
    - split.
      + intro H. apply fpaths_nonnil in H. congruence.
      + intros [t [H _]]. discriminate.
    - destruct Hwf as [Hnd Hall]. rewrite node_at_cons. split.
      + intro H. apply in_fpaths in H. destruct H as [c [Hc H]]. apply in_tpaths in H.
        destruct H as [[E1 E2]|[p' [E H]]].
        * inversion E1; subst. rewrite (find_child_nodup _ _ Hnd Hc). exists c. split; reflexivity.
        * inversion E; subst. rewrite (find_child_nodup _ _ Hnd Hc).
          pose proof (fpaths_nonnil _ _ _ H) as Hne. destruct p' as [|a' p']; [congruence|].
          cbn [nonnil]. apply IH; [|exact H]. apply wf_forest_children.
          rewrite Forall_forall in Hall. apply Hall. exact Hc.
      + intros [t [H Ex]]. destruct (find_child a ch) as [c|] eqn:Ef; [|discriminate].
        apply find_child_some in Ef. destruct Ef as [Hc En]. apply in_fpaths. exists c. split; [exact Hc|].
        apply in_tpaths. destruct p as [|a' p]; cbn [nonnil] in H.
        * inversion H; subst. left. split; reflexivity.
        * right. exists (a' :: p). split; [rewrite En; reflexivity|].
          apply IH; [|exists t; split; assumption]. apply wf_forest_children.
          rewrite Forall_forall in Hall. apply Hall. exact Hc.
  Qed.

  Lemma NoDup_map_cons : forall (n : bytes) (l : list (list bytes)), NoDup l -> NoDup (map (cons n) l).
  Proof.
    intros n l H. induction H as [|p l Hnin Hnd IH]; cbn [map]; constructor; [|exact IH].
    intro Hin. apply in_map_iff in Hin. destruct Hin as [p' [E Hin]]. inversion E; subst. contradiction.
  Qed.

  Lemma NoDup_app_intro : forall {A} (l1 l2 : list A),
    NoDup l1 -> NoDup l2 -> (forall a, In a l1 -> In a l2 -> False) -> NoDup (l1 ++ l2).
  Proof.
    intros A l1 l2 H1 H2 Hd. induction H1 as [|a l Hnin Hnd IH]; [exact H2|].
    cbn [app]. constructor.
    - intro Hin. apply in_app_or in Hin. destruct Hin as [Hin|Hin]; [contradiction|].
      apply (Hd a); [left; reflexivity|exact Hin].
    - apply IH. intros a' Ha1 Ha2. apply (Hd a'); [right; exact Ha1|exact Ha2].
  Qed.

  Lemma tpaths_head : forall t p, In p (map fst (tpaths t)) -> exists p', p = t_name t :: p'.
  Proof.
    intros t p H. apply in_map_iff in H. destruct H as [[p0 x] [E H]]. cbn [fst] in E. subst p0.
    apply in_tpaths in H. destruct H as [[E _]|[p' [E _]]]; subst; eexists; reflexivity.
  Qed.

  Lemma fpaths_nodup_forest : forall ch,
    NoDup (map t_name ch) -> Forall (fun c => NoDup (map fst (tpaths c))) ch -> NoDup (map fst (fpaths ch)).
  Proof.
    induction ch as [|c r IH]; intros Hnd Hall; [constructor|].
    cbn [map] in Hnd. inversion Hnd as [|k l Hnin Hnd']; subst. inversion Hall as [|k l Hc Hall']; subst.
    unfold fpaths. cbn [flat_map]. rewrite map_app. apply NoDup_app_intro; [exact Hc|apply IH; assumption|].
    intros p H1 H2. apply tpaths_head in H1. destruct H1 as [p1 E1]. subst p.
    apply in_map_iff in H2. destruct H2 as [[p0 x] [E H2]]. cbn [fst] in E. subst p0.
    apply in_fpaths in H2. destruct H2 as [c' [Hc' H2]].
    assert (H3 : In (t_name c :: p1) (map fst (tpaths c'))) by (apply in_map_iff; exists (t_name c :: p1, x); split; [reflexivity|exact H2]).
    apply tpaths_head in H3. destruct H3 as [p2 E2]. inversion E2 as [[E3 E4]].
    apply Hnin. rewrite E3. apply in_map. exact Hc'.
  Qed.

  Lemma tpaths_nodup : forall t, wf_tree NM t -> NoDup (map fst (tpaths t)).
  Proof.
    induction t as [n x ch IH] using tree_ind'. intro Hwf. apply wf_tree_unfold in Hwf.
    destruct Hwf as [Hnd Hall]. cbn [tpaths map fst]. fold (fpaths ch).
    assert (Hf : NoDup (map fst (fpaths ch))).
    { apply fpaths_nodup_forest; [exact Hnd|]. rewrite Forall_forall in *. intros c Hc. apply IH; [exact Hc|apply Hall; exact Hc]. }
    rewrite map_map. cbn [fst]. rewrite <- (map_map fst (cons n)). constructor.
    - intro Hin. apply in_map_iff in Hin. destruct Hin as [p' [E Hin]]. inversion E; subst.
      apply in_map_iff in Hin. destruct Hin as [[p0 y] [E' Hin]]. cbn [fst] in E'. subst p0.
      apply fpaths_nonnil in Hin. congruence.
    - apply NoDup_map_cons. exact Hf.
  Qed.

  Lemma fpaths_nodup : forall ch, wf_forest ch -> NoDup (map fst (fpaths ch)).
  Proof.
    intros ch [Hnd Hall]. apply fpaths_nodup_forest; [exact Hnd|].
    eapply Forall_impl; [|exact Hall]. intros c Hc. apply tpaths_nodup. exact Hc.
  Qed.

  (** * the three theorems on the built tree *)
  Lemma matching_nonempty_iff : forall (es : entries) p,
    matching NM es p <> [] <-> exists f q, In (f, q) es /\ is_prefix_path p (segs f) = true.
  Proof.
    intros es p. unfold matching. split.
    - intro H. destruct (filter _ es) as [|[f q] l] eqn:E; [congruence|].
      assert (Hin : In (f, q) (filter (fun fq => is_prefix_path p (segs (fst fq))) es)) by (rewrite E; left; reflexivity).
      apply filter_In in Hin. exists f, q. exact Hin.
    - intros [f [q [Hin Hp]]] E.
      assert (Hin' : In (f, q) (filter (fun fq => is_prefix_path p (segs (fst fq))) es)) by (apply filter_In; split; assumption).
      rewrite E in Hin'. destruct Hin'.
  Qed.

  Lemma node_at_forest_some : forall es p,
    (exists t, node_at p (forest_add [] es) = Some t) <->
    p <> [] /\ exists f q, In (f, q) es /\ is_prefix_path p (segs f) = true.
  Proof.
    intros es p. rewrite <- matching_nonempty_iff.
    pose proof (lookup_forest es p) as H. unfold lookup_path in H. split.
    - intros [t Ht]. rewrite Ht in H. cbn [option_map] in H. destruct p as [|a p]; [discriminate|].
      split; [discriminate|]. cbn [nonnil] in H. intro E. rewrite E in H. discriminate.
    - intros [Hne Hm]. destruct p as [|a p]; [congruence|]. cbn [nonnil] in H.
      destruct (matching NM es (a :: p)); [congruence|].
      destruct (node_at (a :: p) (forest_add [] es)) as [t|]; [exists t; reflexivity|discriminate].
  Qed.

  Lemma node_at_forest_total : forall es p t,
    node_at p (forest_add [] es) = Some t -> t_total t = total_at NM es p.
  Proof.
    intros es p t Ht. pose proof (lookup_forest es p) as H. unfold lookup_path in H.
    rewrite Ht in H. cbn [option_map] in H. destruct p as [|a p]; [discriminate|]. cbn [nonnil] in H.
    destruct (matching NM es (a :: p)); [discriminate|]. inversion H. reflexivity.
  Qed.

  Lemma empty_root_built : forall es,
    tree_add_all NM (empty_root NM) es = Node [] (zero NM) (forest_add [] es).
  Proof. intro es. apply tree_add_all_forest. Qed.

  Lemma wf_forest_built : forall es, wf_forest (forest_add [] es).
  Proof. intro es. apply wf_forest_add. split; constructor. Qed.

  Theorem tree_paths_once : forall es,
    let t := tree_add_all NM (empty_root NM) es in
    NoDup (map fst (tree_paths NM t)) /\
    (forall p, In p (map fst (tree_paths NM t)) <->
               p <> [] /\ exists f q, In (f, q) es /\ is_prefix_path p (segs f) = true).
  Proof.
    intros es t. subst t. rewrite empty_root_built, tree_paths_fpaths. cbn [Tree.t_children]. split.
    - apply fpaths_nodup. apply wf_forest_built.
    - intro p. rewrite <- node_at_forest_some. split.
      + intro H. apply in_map_iff in H. destruct H as [[p0 x] [E H]]. cbn [fst] in E. subst p0.
        apply in_fpaths_node_at in H; [|apply wf_forest_built]. destruct H as [t [H _]]. exists t. exact H.
      + intros [t Ht]. apply in_map_iff. exists (p, t_total t). split; [reflexivity|].
        apply in_fpaths_node_at; [apply wf_forest_built|]. exists t. split; [exact Ht|reflexivity].
  Qed.

  Theorem tree_total_spec : forall es p x,
    In (p, x) (tree_paths NM (tree_add_all NM (empty_root NM) es)) -> x = total_at NM es p.
  Proof.
    intros es p x H. rewrite empty_root_built, tree_paths_fpaths in H. cbn [Tree.t_children] in H.
    apply in_fpaths_node_at in H; [|apply wf_forest_built]. destruct H as [t [Ht Ex]].
    rewrite <- Ex. apply node_at_forest_total. exact Ht.
  Qed.

  (** converse: every expected path is there with the expected total *)
  Theorem tree_total_complete : forall es p f q,
    p <> [] -> In (f, q) es -> is_prefix_path p (segs f) = true ->
    In (p, total_at NM es p) (tree_paths NM (tree_add_all NM (empty_root NM) es)).
  Proof.
    intros es p f q Hne Hin Hp. rewrite empty_root_built, tree_paths_fpaths. cbn [Tree.t_children].
    assert (H : exists t, node_at p (forest_add [] es) = Some t).
    { apply node_at_forest_some. split; [exact Hne|]. exists f, q. split; assumption. }
    destruct H as [t Ht]. apply in_fpaths_node_at; [apply wf_forest_built|].
    exists t. split; [exact Ht|]. apply node_at_forest_total. exact Ht.
  Qed.

  (** the same set as the reference list [node_paths] *)
  Lemma in_node_paths : forall (es : entries) p,
    In p (node_paths NM es) <-> p <> [] /\ exists f q, In (f, q) es /\ is_prefix_path p (segs f) = true.
  Proof.
    intros es p. unfold node_paths. rewrite dedup_paths_in, in_flat_map. split.
    - intros [[f q] [Hin Hp]]. cbn [fst] in Hp. apply in_prefixes_iff in Hp. destruct Hp as [Hne Hp].
      split; [exact Hne|]. exists f, q. split; assumption.
    - intros [Hne [f [q [Hin Hp]]]]. exists (f, q). split; [exact Hin|]. apply in_prefixes_iff. split; assumption.
  Qed.

  Theorem tree_paths_node_paths : forall es,
    Permutation (map fst (tree_paths NM (tree_add_all NM (empty_root NM) es))) (node_paths NM es).
  Proof.
    intro es. destruct (tree_paths_once es) as [Hnd Hin]. apply NoDup_Permutation.
    - exact Hnd.
    - apply dedup_paths_nodup.
    - intro p. rewrite Hin, in_node_paths. reflexivity.
  Qed.
End TreeBuild.
