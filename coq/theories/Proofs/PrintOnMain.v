(** WP23, Part B (generic half).  Property C14 relative to an invariant [Q] of
    the amounts: the theorems of Proofs/PrintMain.v under the restricted number
    law [FSO : FmtStableOn NM Q] and the hypothesis that every amount of every
    day satisfies [Q] ([days_in NM Q L]); each theorem also concludes that the
    days read back satisfy [Q] again, so the round trip can be repeated.
    At the end: [FmtStable NM <-> FmtStableOn NM (fun _ => True)], which makes
    the theorems of PrintMain.v the instances at the trivial invariant. *)
From Coq Require Import Lia ZifyBool ZifyNat ZifyN.
From HP Require Import Base.Bytes Base.Utf8 Base.Num Model.Scanner Model.Parser Model.Elements Model.Dates
     Model.Writer Model.Reporters Spec.PrintSpec Spec.PrintOnSpec
     Proofs.PrintBytes Proofs.PrintUtf8 Proofs.PrintDates Proofs.PrintLines Proofs.PrintParse Proofs.PrintNormal
     Proofs.PrintMain Proofs.PrintOnParse.
Open Scope N_scope.

Section PrintOnMain.
  Context (NM : Num) (Q : T NM -> Prop) (FSO : FmtStableOn NM Q).
  Notation T := (T NM).
  Notation lognode := (lognode NM).
  Notation f2 := (fmt_fixed NM 2).

  (** *** the days read back satisfy [Q] again *)
  Lemma reread_day_in d : day_in NM Q d -> day_in NM Q (reread_day NM d).
  Proof.
    intros HQ. unfold day_in, reread_day. cbn [ln_elems]. apply (reread_elems_in NM Q FSO), HQ.
  Qed.

  Lemma reread_days_in L : days_in NM Q L -> days_in NM Q (map (reread_day NM) L).
  Proof.
    intros HQ. unfold days_in in *. apply Forall_map. eapply Forall_impl; [|exact HQ].
    intros d Hd. apply reread_day_in, Hd.
  Qed.

  (** *** print_reads_back *)
  Theorem print_reads_back_on c L :
    heading_layout (rc_date c) = true -> Forall (day_ok NM c) L -> days_in NM Q L ->
    events NM (print_output NM c L) = map (fun d => ENode (reread_node NM c d)) L
    /\ read_log NM (rc_date c) (print_output NM c L) = Some (map (reread_day NM) L)
    /\ Forall (fun d => Forall (fun nv => of_lexeme NM (f2 (snd nv)) = Some (reread NM (snd nv))
                                          /\ f2 (reread NM (snd nv)) = f2 (snd nv)) (ln_elems NM d)) L
    /\ days_in NM Q (map (reread_day NM) L).
  Proof.
    intros HL HF HQ.
    assert (HP : Forall (day_printable NM c) L) by (eapply Forall_impl; [|exact HF]; apply day_ok_printable).
    pose proof (events_print_output_on NM Q FSO c L HL HP HQ) as E. split; [exact E|]. split; [|split].
    - unfold read_log. rewrite (scan_print_output_on NM Q FSO c L HL HP HQ). cbn [snd]. rewrite E.
      apply lognodes_of_printed; [apply heading_layout_sep, HL|exact HF].
    - unfold days_in, day_in in HQ. eapply Forall_impl; [|exact HQ]. intros d Hd.
      eapply Forall_impl; [|exact Hd]. intros nv Hnv.
      destruct (reread_spec_on NM Q FSO (snd nv) Hnv) as [H1 [_ H3]]. split; [exact H1|exact H3].
    - apply reread_days_in, HQ.
  Qed.

  (** the same for a layout that is a heading layout up to the spaces at its end *)
  Theorem print_reads_back_core_on c L :
    forallb safe_tok (rc_date c) = true -> sep_ok (rc_date c) = true ->
    heading_layout (layout_core (rc_date c)) = true ->
    Forall (day_ok NM c) L -> days_in NM Q L ->
    read_log NM (rc_date c) (print_output NM c L) = Some (map (reread_day NM) L).
  Proof.
    intros Hsafe Hsep HL HF HQ. set (c' := with_date c (layout_core (rc_date c))).
    assert (Ec : rc_date c' = layout_core (rc_date c)) by reflexivity.
    assert (HL' : heading_layout (rc_date c') = true) by exact HL.
    assert (HP' : Forall (day_printable NM c') L).
    { eapply Forall_impl; [|exact HF]. intros d Hd. apply day_ok_printable, (day_ok_core NM c c' Ec), Hd. }
    apply (read_log_core NM c c' Ec HL' Hsafe Hsep L HF).
    - pose proof (printable_and_in NM Q c' L HP' HQ) as Hboth.
      eapply Forall_impl; [|exact Hboth]. intros d [Hd Hqd]. apply (day_lines_scannable_on NM Q FSO c' d HL' Hd Hqd).
    - apply (events_print_output_on NM Q FSO c' L HL' HP' HQ).
  Qed.

  (** *** printing what was read back *)
  Lemma day_lines_reread_on c d : day_in NM Q d -> day_lines NM c (reread_day NM d) = day_lines NM c d.
  Proof.
    intros HQ. unfold day_lines, heading_line, notes_of, reread_day. cbn [ln_time ln_elems ln_meta]. f_equal. f_equal.
    - f_equal. destruct (ln_meta NM d) as [[|mp l]|]; reflexivity.
    - f_equal. unfold reread_elems. rewrite map_map. unfold day_in in HQ.
      induction HQ as [|nv es Hnv Hes IH]; [reflexivity|]. cbn [map]. rewrite IH. f_equal.
      unfold entry_line. cbn [fst snd]. destruct (reread_spec_on NM Q FSO (snd nv) Hnv) as [_ [_ ->]]. reflexivity.
  Qed.

  Lemma print_day_reread_on c d : day_in NM Q d -> print_day NM c (reread_day NM d) = print_day NM c d.
  Proof. intros HQ. rewrite !print_day_unlines. rewrite (day_lines_reread_on c d HQ). reflexivity. Qed.

  (** for any days with amounts in [Q]: printing the re-read days gives the same bytes *)
  Lemma print_output_reread_on c L :
    days_in NM Q L -> print_output NM c (map (reread_day NM) L) = print_output NM c L.
  Proof.
    intros HQ. unfold print_output. rewrite map_map. f_equal. unfold days_in in HQ.
    induction HQ as [|d L Hd HLs IH]; [reflexivity|]. cbn [map]. rewrite IH.
    rewrite (print_day_reread_on c d Hd). reflexivity.
  Qed.

  Theorem print_idempotent_on c L L' :
    heading_layout (rc_date c) = true -> Forall (day_ok NM c) L -> days_in NM Q L ->
    read_log NM (rc_date c) (print_output NM c L) = Some L' ->
    print_output NM c L' = print_output NM c L /\ days_in NM Q L'.
  Proof.
    intros HL HF HQ H. destruct (print_reads_back_on c L HL HF HQ) as [_ [E [_ HQ']]]. rewrite E in H. injection H as <-.
    split; [apply print_output_reread_on, HQ|exact HQ'].
  Qed.

  (** the days read back are again in the normal form (so the round trip can be repeated) *)
  Lemma reread_day_ok_on c d : day_in NM Q d -> day_ok NM c d -> day_ok NM c (reread_day NM d).
  Proof.
    intros HQ [H1 [H2 [H3 [H4 [H5 H6]]]]]. unfold day_ok. rewrite (day_lines_reread_on c d HQ).
    unfold reread_day at 1 2 3 4 5. cbn [ln_time ln_elems]. split; [exact H1|]. split; [exact H2|].
    rewrite reread_elems_names. split; [|split; [exact H4|split; [|exact H6]]].
    - unfold reread_elems. apply Forall_map. exact H3.
    - unfold notes_of, reread_day. cbn [ln_meta]. unfold notes_of in H5.
      destruct (ln_meta NM d) as [[|mp l]|]; [constructor|exact H5|constructor].
  Qed.

  (** *** lifting to every readable log *)

  (** C14 for every readable log whose amounts satisfy [Q]: only the notes and
      the line lengths need hypotheses *)
  Theorem print_reads_back_log_on c data L :
    forallb safe_tok (rc_date c) = true -> stable_layout (rc_date c) = true ->
    read_log NM (rc_date c) data = Some L ->
    days_in NM Q L ->
    Forall (fun d => Forall (fun mp => documented_note mp = true) (notes_of NM d)) L ->
    Forall (fun d => Forall (fun l => lengthN l < max_token) (day_lines NM c d)) L ->
    read_log NM (rc_date c) (print_output NM c L) = Some (map (reread_day NM) L)
    /\ print_output NM c (map (reread_day NM) L) = print_output NM c L
    /\ days_in NM Q (map (reread_day NM) L).
  Proof.
    intros Hsafe Hst Hread HQ Hnotes Hlen.
    assert (Hsep : sep_ok (rc_date c) = true) by (unfold stable_layout in Hst; apply andb_true_iff in Hst; apply Hst).
    split; [|split; [apply print_output_reread_on, HQ|apply reread_days_in, HQ]].
    destruct (read_log_shape _ _ _ _ Hread) as [Hshape Hlay].
    destruct L as [|d0 L0]; [reflexivity|].
    assert (HL : heading_layout (layout_core (rc_date c)) = true) by (apply Hlay; [discriminate|exact Hsafe|exact Hst]).
    apply (print_reads_back_core_on c (d0 :: L0) Hsafe Hsep HL); [|exact HQ].
    rewrite Forall_forall in *. intros d Hd. destruct (Hshape d Hd) as [S1 [S2 [S3 S4]]].
    unfold day_ok. auto 10 using (Hnotes d Hd), (Hlen d Hd).
  Qed.
End PrintOnMain.

(** *** the unrestricted law is the law on the trivial invariant *)
Theorem FmtStable_iff_On (NM : Num) : FmtStable NM <-> FmtStableOn NM (fun _ => True).
Proof.
  split.
  - intros FS. constructor.
    + intros v _. destruct (fs_reread NM FS v) as [v' [H1 H2]]. exists v'. split; [exact H1|]. split; [exact I|exact H2].
    + intros v _. apply (fs_clean NM FS v).
  - intros FSO. constructor.
    + intros v. destruct (fso_reread NM _ FSO v I) as [v' [H1 [_ H2]]]. exists v'. split; [exact H1|exact H2].
    + intros v. apply (fso_clean NM _ FSO v I).
Qed.

Lemma days_in_True NM L : days_in NM (fun _ => True) L.
Proof.
  unfold days_in, day_in. apply Forall_forall. intros d _. apply Forall_forall. intros nv _. exact I.
Qed.
