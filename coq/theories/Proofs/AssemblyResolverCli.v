(** WP20 (assembly) - C01 at the place where the program resolves its book
    ([resolved_db], Model/Cli.v = WithResolvedDatabase): the hypothesis
    [NoDup (keys B)] of the resolver theorems is discharged for the book loaded
    from ANY database file ([load_db_NoDup], order work package), and the
    permutation hypothesis by [oracles_ok]. *)
From Coq Require Import Lia ZArith Sorted Permutation.
From HP Require Import Base.Bytes Base.Num Model.Elements Model.Resolver Model.Parser Model.Reporters Model.Cli
  Spec.ResolverSpec.
From HP Require Import Proofs.OrderSites Proofs.OrderInv Proofs.AssemblyResolver.

Section Cli.
  Context (NM : Num).

  (** the three outcomes of [resolved_db], without the visiting order *)
  Theorem resolved_db_outcome : forall (w : world) (op : options) (o : opened),
    oracles_ok (w_or w) ->
    resolved_db NM w op o =
      match load_db NM o with
      | (_, Some e) => inl e
      | (B, None) => if depth_ltb NM B (Z.to_nat (op_depth op))
                     then inr (ref_db NM B (Z.to_nat (op_depth op))) else inl EMaxDepth
      end.
  Proof.
    intros w op o [Hor _]. unfold resolved_db. pose proof (load_db_NoDup NM o) as Hnd.
    destruct (load_db NM o) as [B [e|]]; [reflexivity|]. cbn [fst] in Hnd.
    rewrite (HP.Proofs.ResolverRefine.resolve_outcome NM B _ _ Hnd (Hor (keys B))).
    destruct (depth_ltb NM B (Z.to_nat (op_depth op))); reflexivity.
  Qed.

  (** the resolved book the reporters are run with *)
  Theorem resolved_db_end_to_end : CSemiring NM ->
    forall (w : world) (op : options) (o : opened) (B' : db NM),
    oracles_ok (w_or w) ->
    resolved_db NM w op o = inr B' ->
    exists B, load_db NM o = (B, None) /\ NoDup (keys B) /\ depth_lt NM B (Z.to_nat (op_depth op)) /\
      keys B' = keys B /\
      forall r v, lookup r B' = Some v ->
        StronglySorted (fun x y => bltb (fst x) (fst y) = true) v /\ NoDup (map fst v) /\
        (forall x a, In (x, a) v -> lookup x B = None) /\
        (forall x, In x (map fst v) <-> occurs NM x (paths NM B (Z.to_nat (op_depth op)) r) = true) /\
        (forall x a, lookup x v = Some a -> a = sum_of NM x (paths NM B (Z.to_nat (op_depth op)) r)).
  Proof.
    intros CS w op o B' [Hor _] H. unfold resolved_db in H. pose proof (load_db_NoDup NM o) as Hnd.
    destruct (load_db NM o) as [B [e|]]; [discriminate|]. cbn [fst] in Hnd.
    destruct (resolve NM (Z.to_nat (op_depth op)) (o_resolve (w_or w)) B) as [d'|] eqn:E; [|discriminate].
    injection H as H. subst d'. exists B. split; [reflexivity|]. split; [exact Hnd|].
    split.
    - apply (resolve_success_shallow NM B _ _ B' Hnd (Hor (keys B)) E).
    - apply (resolve_end_to_end NM CS B _ _ B' Hnd (Hor (keys B)) E).
  Qed.
End Cli.
