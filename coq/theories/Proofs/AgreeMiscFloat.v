(** WP11: at binary64 the law [0 + x = x] fails exactly at x = -0, and there the quantity report and the
    balance leaf (and the CSV log) print different figures. *)
From Coq Require Import Floats.SpecFloat.
From HP Require Import Base.Bytes Base.Num Base.GoFloat Model.Elements Model.Dates Model.Tree Model.Writer Model.Reporters
  Spec.Agree2Spec Proofs.AgreeMiscBase Proofs.AgreeMiscQty Proofs.AgreeMiscBal.

(** [0 + x = x] for every binary64 value except negative zero *)
Lemma b64_add_zero_l : forall x : T B64, x <> S754_zero true -> add B64 (zero B64) x = x.
Proof.
  intros x Hx. destruct x as [s| s | |s m e]; try reflexivity.
  destruct s; [contradiction | reflexivity].
Qed.

Lemma b64_add_zero_minus_zero : add B64 (zero B64) (S754_zero true) = S754_zero false.
Proof. reflexivity. Qed.

(** so at binary64 the balance leaf is the quantity figure unless the first logged quantity of the food is -0 *)
Theorem b64_quantity_eq_balance_leaf : forall c π (L : list (lognode B64)) f desc π',
  let es := entries B64 L in
  let root := walk_state B64 (rep_balance B64 c) π L in
  prefix_free (map fst es) -> In f (map fst es) ->
  (forall q1 r, qtys_of B64 f es = q1 :: r -> q1 <> S754_zero true) ->
  total_at B64 (segs f) (t_children B64 root) = lookup f (walk_state B64 (rep_quantity B64 desc) π' L).
Proof.
  intros c π L f desc π' es root PF Hf H.
  apply quantity_eq_balance_leaf_first; try assumption.
  intros q1 r Hq. apply b64_add_zero_l. exact (H q1 r Hq).
Qed.

(** the exception is real: one day, one entry "bread -0" *)
Definition mzero : T B64 := match of_lexeme B64 (b "-0") with Some v => v | None => zero B64 end.
Definition ex_L_mzero : list (lognode B64) :=
  [ {| ln_time := time_of_civil (2021, 1, 1)%Z; ln_elems := merge_elements B64 [(b "bread", mzero)]; ln_meta := None |} ].

Example quantity_vs_balance_minus_zero :
  of_lexeme B64 (b "-0") = Some (S754_zero true)
  /\ option_map (f2 B64) (lookup (b "bread") (walk_state B64 (rep_quantity B64 false) (fun _ l => l) ex_L_mzero))
     = Some (b "0.00")
  /\ option_map (f2 B64) (total_at B64 (segs (b "bread")) (t_children B64 (walk_state B64 (rep_balance B64
       {| rc_color := false; rc_totals_only := false; rc_totals := true; rc_date := []; rc_single_element := [];
          rc_single_food := []; rc_collapse_last := false; rc_collapse := false; rc_group_food := false;
          rc_shorten := false; rc_old := false; rc_template := []; rc_csv := false |}) (fun _ l => l) ex_L_mzero)))
     = Some (b "-0.00")
  /\ map (fun r => field 2 r) (flat_map (csv_log_rows B64) ex_L_mzero) = [b "-0.000"].
Proof. vm_compute. repeat split; reflexivity. Qed.
Print Assumptions quantity_vs_balance_minus_zero.
Print Assumptions b64_quantity_eq_balance_leaf.

(** the law-free reading of "quantities per food equal the balance leaf amounts" is false at binary64 *)
Definition ex_c0 : rconfig :=
  {| rc_color := false; rc_totals_only := false; rc_totals := true; rc_date := []; rc_single_element := [];
     rc_single_food := []; rc_collapse_last := false; rc_collapse := false; rc_group_food := false;
     rc_shorten := false; rc_old := false; rc_template := []; rc_csv := false |}.

Theorem quantity_eq_balance_leaf_lawfree_refuted :
  exists (L : list (lognode B64)) f,
    Forall (fun ln => NoDup (map fst (ln_elems B64 ln))) L
    /\ prefix_free (map fst (entries B64 L)) /\ In f (map fst (entries B64 L))
    /\ total_at B64 (segs f) (t_children B64 (walk_state B64 (rep_balance B64 ex_c0) (fun _ l => l) L))
       <> lookup f (walk_state B64 (rep_quantity B64 false) (fun _ l => l) L).
Proof.
  exists ex_L_mzero, (b "bread"). split; [|split; [|split]].
  - constructor; [apply merge_elements_NoDup | constructor].
  - intros f g Hf Hg _. vm_compute in Hf, Hg. destruct Hf as [Hf|[]]. destruct Hg as [Hg|[]]. congruence.
  - vm_compute. left. reflexivity.
  - vm_compute. discriminate.
Qed.
Print Assumptions quantity_eq_balance_leaf_lawfree_refuted.
