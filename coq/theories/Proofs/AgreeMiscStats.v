(** WP11: stats — counts, first/last heading dates, "days ago" from --today. *)
From HP Require Import Base.Bytes Base.Utf8 Base.Num Model.Scanner Model.Parser Model.Elements Model.Resolver
  Model.Dates Model.Tree Model.Writer Model.Reporters Model.Cli
  Spec.Agree2Spec Proofs.AgreeMiscBase.
From Coq Require Import Lia ZArith.

Ltac Zify.zify_post_hook ::= Z.div_mod_to_equations.

(** *** parsed dates are valid civil dates; only 0001-01-01 is the zero time *)
Section DateFacts.
  Open Scope Z_scope.

  Lemma digit_val_range : forall c d, digit_val c = Some d -> 0 <= d <= 9.
  Proof.
    intros c d H. unfold digit_val, is_digit in H.
    destruct ((48 <=? c)%N && (c <=? 57)%N)%bool eqn:E; [|discriminate].
    injection H as H. apply andb_true_iff in E. destruct E as [E1 E2].
    apply N.leb_le in E1, E2. lia.
  Qed.

  Lemma take_digits_nonneg : forall n s acc v s', take_digits n s acc = Some (v, s') -> 0 <= acc -> 0 <= v.
  Proof.
    induction n as [|k IH]; intros s acc v s' H Hacc; cbn [take_digits] in H.
    - injection H as H1 H2. lia.
    - destruct s as [|c r]; [discriminate|]. destruct (digit_val c) as [d|] eqn:Ed; [|discriminate].
      apply digit_val_range in Ed. apply (IH _ _ _ _ H). lia.
  Qed.

  (** a space of the layout is Go's [time.skip] (a run of spaces, the space literals after it consumed
      with it): a successful parse under [Lit 32 :: r] is a successful parse under [r] of some text *)
  Lemma parse_tokens_space_step : forall r s y m d res,
    parse_tokens (Lit 32%N :: r) s y m d = Some res -> exists s', parse_tokens r s' y m d = Some res.
  Proof.
    intros r s y m d res H.
    assert (Hr : drop_space_lits r = r \/ exists r', r = Lit 32%N :: r').
    { destruct r as [|[| | | | | | | |c] r']; try (left; reflexivity).
      destruct (N.eqb_spec c 32) as [->|Hc]; [right; eexists; reflexivity|left].
      destruct c as [|p]; [reflexivity|]. do 6 (try (destruct p as [p|p|]; try reflexivity)).
      exfalso; apply Hc; reflexivity. }
    cbn [parse_tokens] in H. change (32 =? 32)%N with true in H. cbv iota in H.
    destruct Hr as [E|[r' ->]].
    - rewrite E in H. destruct s as [|c s0]; [exists []; exact H|].
      destruct (c =? 32)%N; [|discriminate]. eexists; exact H.
    - exists s. cbn [parse_tokens]. change (32 =? 32)%N with true. cbv iota. exact H.
  Qed.

  Lemma lookup_name_range : forall tab i s v r, lookup_name tab i s = Some (v, r) -> i <= v < i + Z.of_nat (length tab).
  Proof.
    induction tab as [|name tab IH]; intros i s v r H; [discriminate|]. cbn [lookup_name] in H.
    destruct (match_prefix name s) as [r0|].
    - injection H as H1 H2. cbn [length]. lia.
    - apply IH in H. cbn [length]. lia.
  Qed.

  Lemma parse_tokens_range : forall l s y m d y' m' d',
    parse_tokens l s y m d = Some (y', m', d') -> 0 <= y -> 1 <= m <= 12 -> 0 <= y' /\ 1 <= m' <= 12.
  Proof.
    induction l as [|t l IH]; intros s y m d y' m' d' H Hy Hm; cbn [parse_tokens] in H.
    - destruct s; [|discriminate]. injection H as H1 H2 H3. lia.
    - destruct t as [| | | | | | | |c].
      + destruct (take_digits 4 s 0) as [[v s1]|] eqn:Et; [|discriminate].
        apply (IH _ _ _ _ _ _ _ H); [|exact Hm]. apply (take_digits_nonneg _ _ _ _ _ Et). lia.
      + destruct (take_digits 2 s 0) as [[v s1]|] eqn:Et; [|discriminate].
        destruct ((1 <=? v) && (v <=? 12))%bool eqn:Ev; [|discriminate].
        apply andb_true_iff in Ev. destruct Ev as [E1 E2]. apply Z.leb_le in E1, E2.
        apply (IH _ _ _ _ _ _ _ H); [exact Hy | lia].
      + destruct (take_digits 2 s 0) as [[v s1]|] eqn:Et; [|discriminate].
        apply (IH _ _ _ _ _ _ _ H); assumption.
      + destruct (get_num s) as [[v s1]|] eqn:Et; [|discriminate].
        apply (IH _ _ _ _ _ _ _ H); assumption.
      + destruct (get_num (drop_one_space s)) as [[v s1]|] eqn:Et; [|discriminate].
        apply (IH _ _ _ _ _ _ _ H); assumption.
      + destruct (get_num s) as [[v s1]|] eqn:Et; [|discriminate].
        destruct ((1 <=? v) && (v <=? 12))%bool eqn:Ev; [|discriminate].
        apply andb_true_iff in Ev. destruct Ev as [E1 E2]. apply Z.leb_le in E1, E2.
        apply (IH _ _ _ _ _ _ _ H); [exact Hy | lia].
      + destruct (lookup_name short_months 1 s) as [[v s1]|] eqn:Et; [|discriminate].
        apply lookup_name_range in Et. cbn [length short_months] in Et.
        apply (IH _ _ _ _ _ _ _ H); [exact Hy | lia].
      + destruct (lookup_name long_months 1 s) as [[v s1]|] eqn:Et; [|discriminate].
        apply lookup_name_range in Et. cbn [length long_months] in Et.
        apply (IH _ _ _ _ _ _ _ H); [exact Hy | lia].
      + revert H. destruct (N.eqb_spec c 32) as [->|Hc]; intros H.
        * apply parse_tokens_space_step in H. destruct H as [s1 H]. apply (IH _ _ _ _ _ _ _ H); assumption.
        * destruct s as [|c' s1]; [discriminate|]. destruct (c =? c')%N; [|discriminate].
          apply (IH _ _ _ _ _ _ _ H); assumption.
  Qed.

  Lemma days_in_le_31 : forall y m, days_in y m <= 31.
  Proof.
    intros y m. unfold days_in. destruct (m =? 2); [destruct (is_leap y); lia|].
    destruct ((m =? 4) || (m =? 6) || (m =? 9) || (m =? 11))%bool; lia.
  Qed.

  Lemma parse_date_valid : forall toks s y m d,
    parse_date toks s = Some (y, m, d) -> 0 <= y /\ 1 <= m <= 12 /\ 1 <= d <= days_in y m /\ d <= 31.
  Proof.
    intros toks s y m d H. unfold parse_date in H.
    destruct (parse_tokens toks s 0 1 1) as [[[y0 m0] d0]|] eqn:Ep; [|discriminate].
    destruct ((1 <=? d0) && (d0 <=? days_in y0 m0))%bool eqn:Ed; [|discriminate].
    injection H as H1 H2 H3. subst y0 m0 d0.
    apply andb_true_iff in Ed. destruct Ed as [E1 E2]. apply Z.leb_le in E1, E2.
    destruct (parse_tokens_range _ _ _ _ _ _ _ _ Ep) as [Hy Hm]; [lia | lia |].
    pose proof (days_in_le_31 y m). lia.
  Qed.

  Lemma dfc_zero : forall y m d, 0 <= y -> 1 <= m <= 12 -> 1 <= d <= 31 ->
    days_from_civil y m d = days_from_civil 1 1 1 -> (y, m, d) = (1, 1, 1).
  Proof.
    intros y m d Hy Hm Hd H.
    assert (E : days_from_civil 1 1 1 = -719162) by (vm_compute; reflexivity).
    rewrite E in H. clear E. unfold days_from_civil in H.
    assert (Hm' : m = 1 \/ m = 2 \/ m = 3 \/ m = 4 \/ m = 5 \/ m = 6 \/ m = 7 \/ m = 8 \/ m = 9 \/ m = 10 \/ m = 11 \/ m = 12) by lia.
    destruct Hm' as [->|[->|[->|[->|[->|[->|[->|[->|[->|[->|[->| ->]]]]]]]]]]];
      cbv [Z.leb Z.compare Pos.compare Pos.compare_cont] in H;
      change ((1 + 9) mod 12) with 10 in H; change ((2 + 9) mod 12) with 11 in H; change ((3 + 9) mod 12) with 0 in H;
      change ((4 + 9) mod 12) with 1 in H; change ((5 + 9) mod 12) with 2 in H; change ((6 + 9) mod 12) with 3 in H;
      change ((7 + 9) mod 12) with 4 in H; change ((8 + 9) mod 12) with 5 in H; change ((9 + 9) mod 12) with 6 in H;
      change ((10 + 9) mod 12) with 7 in H; change ((11 + 9) mod 12) with 8 in H; change ((12 + 9) mod 12) with 9 in H.
    1: assert (y = 1 /\ d = 1) as [-> ->] by lia; reflexivity.
    all: exfalso; lia.
  Qed.

  Lemma inst_time_of_civil : forall y m d, inst (time_of_civil (y, m, d)) = days_from_civil y m d * ns_per_day.
  Proof. reflexivity. Qed.

  (** among the dates [parse_date] accepts, only 0001-01-01 is the zero time *)
  Lemma parsed_zero_time : forall toks s c,
    parse_date toks s = Some c -> is_zero_time (time_of_civil c) = true -> c = (1, 1, 1).
  Proof.
    intros toks s [[y m] d] Hp Hz. destruct (parse_date_valid _ _ _ _ _ Hp) as [Hy [Hm [Hd Hd']]].
    unfold is_zero_time in Hz. apply Z.eqb_eq in Hz. unfold zero_time in Hz.
    rewrite !inst_time_of_civil in Hz. unfold ns_per_day in Hz.
    apply dfc_zero; lia.
  Qed.

  (** whole seconds since the epoch of a midnight: 86400 times its day number *)
  Lemma unix_seconds_civil : forall y m d, unix_seconds (time_of_civil (y, m, d)) = days_from_civil y m d * 86400.
  Proof.
    intros y m d. unfold unix_seconds. rewrite inst_time_of_civil. unfold ns_per_day, ns_per_sec.
    replace (days_from_civil y m d * 86400000000000) with (days_from_civil y m d * 86400 * 1000000000) by lia.
    apply Z.div_mul. lia.
  Qed.

  (** "days ago" between two midnights: EXACTLY the difference of the day numbers, for every pair of
      civil dates (no range condition, no saturation: the distance goes through [Unix()] seconds, not
      through a [time.Duration]) *)
  Lemma days_between_civil : forall a b,
    let da := let '(y, m, d) := a in days_from_civil y m d in
    let db := let '(y, m, d) := b in days_from_civil y m d in
    days_between (time_of_civil a) (time_of_civil b) = da - db.
  Proof.
    intros [[ya ma] da0] [[yb mb] db0] da db. unfold days_between.
    rewrite !unix_seconds_civil. fold da db.
    replace (da * 86400 - db * 86400) with ((da - db) * 86400) by lia.
    apply Z.quot_mul. lia.
  Qed.

  (** [now] any time (any instant, any zone offset), the record a midnight: the whole seconds of [now]
      minus the seconds of the record's day, divided by 86400 towards zero *)
  Lemma days_between_now : forall (now : time) b,
    let db := let '(y, m, d) := b in days_from_civil y m d in
    days_between now (time_of_civil b) = Z.quot (inst now / ns_per_sec - db * 86400) 86400.
  Proof.
    intros now [[yb mb] db0] db. unfold days_between. rewrite unix_seconds_civil. reflexivity.
  Qed.

  (** [now] on a whole second [s] (seconds since the epoch), any zone offset *)
  Lemma days_between_seconds : forall (now : time) b s,
    let db := let '(y, m, d) := b in days_from_civil y m d in
    inst now = s * ns_per_sec ->
    days_between now (time_of_civil b) = Z.quot (s - db * 86400) 86400.
  Proof.
    intros now b s db H. unfold db. rewrite days_between_now. rewrite H.
    unfold ns_per_sec. rewrite Z.div_mul by lia. reflexivity.
  Qed.

  (** the same with [now] split into its (UTC) day number [dn] and the second [r] of that day: the day
      difference, rounded towards zero (a record in the future of a [now] that is not a midnight is one
      day nearer than the difference of the day numbers) *)
  Lemma days_between_day_part : forall (now : time) b dn r,
    let db := let '(y, m, d) := b in days_from_civil y m d in
    inst now = (dn * 86400 + r) * ns_per_sec -> 0 <= r < 86400 ->
    days_between now (time_of_civil b)
    = if (db <=? dn) || (r =? 0) then dn - db else dn - db + 1.
  Proof.
    intros now b dn r db H Hr. unfold db. rewrite (days_between_seconds now b _ H). fold db.
    replace (dn * 86400 + r - db * 86400) with ((dn - db) * 86400 + r) by lia.
    destruct (Z.leb_spec db dn) as [Hle|Hlt]; cbn [orb].
    - Z.quot_rem_to_equations. lia.
    - destruct (Z.eqb_spec r 0) as [->|Hnz]; Z.quot_rem_to_equations; lia.
  Qed.
End DateFacts.

Section Stats.
  Context (NM : Num).
  Notation event := (event NM).
  Notation pnode := (pnode NM).

  (** *** a callback that does not stop on a [good] record and stops with a parse error on an error event
      (for the book every record is good; for the log, since fix F27, the records whose heading is a date) *)
  Section DriveFold.
    Context {S : Type} (cb : S -> event -> S * bool * option cerr) (step : S -> pnode -> S) (good : pnode -> Prop).
    Hypothesis cb_node : forall s n, good n -> cb s (ENode n) = (step s n, false, None).
    Hypothesis cb_err : forall s e, cb s (EErr e) = (s, true, Some (EParse (perr_message e))).

    Lemma drive_loop_nodes : forall evs s,
      no_parse_error NM evs -> Forall good (nodes_of NM evs) ->
      drive_loop NM cb evs s = (fold_left step (nodes_of NM evs) s, None).
    Proof.
      induction evs as [|ev r IH]; intros s H Hg; [reflexivity|].
      assert (Hr : no_parse_error NM r) by (intros e K; apply (H e); right; exact K).
      destruct ev as [n|e].
      - cbn [nodes_of] in Hg. inversion Hg as [|n0 r0 Hn Hgr]; subst n0 r0.
        cbn [drive_loop nodes_of fold_left]. rewrite (cb_node s n Hn). apply IH; assumption.
      - exfalso. apply (H e). left. reflexivity.
    Qed.

    Lemma nodes_of_app : forall l1 l2, nodes_of NM (l1 ++ l2) = nodes_of NM l1 ++ nodes_of NM l2.
    Proof.
      induction l1 as [|[n|e] r IH]; intro l2; cbn [app nodes_of]; [reflexivity | rewrite IH; reflexivity | apply IH].
    Qed.

    (** the first event at which the callback stops (after good records only): the walk ends there, with the
        state and the error the callback returns *)
    Lemma drive_loop_stops : forall pre ev post s s' e,
      no_parse_error NM pre -> Forall good (nodes_of NM pre) ->
      cb (fold_left step (nodes_of NM pre) s) ev = (s', true, e) ->
      drive_loop NM cb (pre ++ ev :: post) s = (s', Some e).
    Proof.
      induction pre as [|ev0 r IH]; intros ev post s s' e H Hg Hcb.
      - cbn [app drive_loop nodes_of fold_left] in *. rewrite Hcb. reflexivity.
      - assert (Hr : no_parse_error NM r) by (intros e' K; apply (H e'); right; exact K).
        destruct ev0 as [n|e'].
        + cbn [nodes_of] in Hg. inversion Hg as [|n0 r0 Hn Hgr]; subst n0 r0.
          cbn [app drive_loop nodes_of fold_left] in *. rewrite (cb_node s n Hn). apply IH; assumption.
        + exfalso. apply (H e'). left. reflexivity.
    Qed.

    (** the first parse error stops the walk with that error; the state is the fold over the records before it *)
    Lemma drive_loop_error : forall pre e post s,
      no_parse_error NM pre -> Forall good (nodes_of NM pre) ->
      drive_loop NM cb (pre ++ EErr e :: post) s
      = (fold_left step (nodes_of NM pre) s, Some (Some (EParse (perr_message e)))).
    Proof. intros pre e post s H Hg. apply drive_loop_stops; [exact H|exact Hg|apply cb_err]. Qed.

    Lemma parse_stream_nodes : forall data s,
      snd (scan data NoFault) = ScanEOF -> no_parse_error NM (events NM data) ->
      Forall good (nodes_of NM (events NM data)) ->
      parse_stream NM cb data NoFault s = (fold_left step (nodes_of NM (events NM data)) s, None).
    Proof.
      intros data s Hfin Hne Hg. unfold parse_stream, events in *.
      destruct (scan data NoFault) as [lines fin]. cbn [fst snd] in *. subst fin.
      destruct (parse_lines NM lines) as [evs last].
      rewrite nodes_of_app in Hg. apply Forall_app in Hg. destruct Hg as [Hg1 Hg2].
      unfold drive. rewrite drive_loop_nodes.
      - rewrite nodes_of_app, fold_left_app. destruct last as [n|].
        + cbn [nodes_of] in Hg2. inversion Hg2 as [|n0 r0 Hn _]; subst n0 r0.
          rewrite (cb_node _ n Hn). reflexivity.
        + cbn [nodes_of fold_left]. reflexivity.
      - intros e K. apply (Hne e). apply in_or_app. left. exact K.
      - exact Hg1.
    Qed.

    Lemma parse_opened_nodes : forall data s,
      snd (scan data NoFault) = ScanEOF -> no_parse_error NM (events NM data) ->
      Forall good (nodes_of NM (events NM data)) ->
      parse_opened NM cb (OData data NoFault) s = (fold_left step (nodes_of NM (events NM data)) s, None).
    Proof.
      intros data s Hfin Hne Hg. unfold parse_opened. rewrite parse_stream_nodes by assumption. reflexivity.
    Qed.

    (** a parse error in the loop part of the file: the command's error is that parse error *)
    Lemma parse_opened_error : forall data s pre e post last,
      parse_lines NM (fst (scan data NoFault)) = (pre ++ EErr e :: post, last) ->
      no_parse_error NM pre -> Forall good (nodes_of NM pre) ->
      parse_opened NM cb (OData data NoFault) s
      = (fold_left step (nodes_of NM pre) s, Some (EParse (perr_message e))).
    Proof.
      intros data s pre e post last Hp Hne Hg. unfold parse_opened, parse_stream.
      destruct (scan data NoFault) as [lines fin]. cbn [fst] in Hp. rewrite Hp.
      unfold drive. rewrite drive_loop_error by assumption. reflexivity.
    Qed.

    (** a record at which the callback stops with an error of its own, in the loop part of the file ... *)
    Lemma parse_opened_stops_in_loop : forall data s pre n post last s' e,
      parse_lines NM (fst (scan data NoFault)) = (pre ++ ENode n :: post, last) ->
      no_parse_error NM pre -> Forall good (nodes_of NM pre) ->
      cb (fold_left step (nodes_of NM pre) s) (ENode n) = (s', true, Some e) ->
      parse_opened NM cb (OData data NoFault) s = (s', Some e).
    Proof.
      intros data s pre n post last s' e Hp Hne Hg Hcb. unfold parse_opened, parse_stream.
      destruct (scan data NoFault) as [lines fin]. cbn [fst] in Hp. rewrite Hp.
      unfold drive. rewrite (drive_loop_stops pre (ENode n) post s s' (Some e) Hne Hg Hcb). reflexivity.
    Qed.

    (** ... or as the last record of a file that is readable to the end *)
    Lemma parse_opened_stops_at_last : forall data s evs n s' stop e,
      snd (scan data NoFault) = ScanEOF ->
      parse_lines NM (fst (scan data NoFault)) = (evs, Some n) ->
      no_parse_error NM evs -> Forall good (nodes_of NM evs) ->
      cb (fold_left step (nodes_of NM evs) s) (ENode n) = (s', stop, Some e) ->
      parse_opened NM cb (OData data NoFault) s = (s', Some e).
    Proof.
      intros data s evs n s' stop e Hfin Hp Hne Hg Hcb. unfold parse_opened, parse_stream.
      destruct (scan data NoFault) as [lines fin]. cbn [fst snd] in *. subst fin. rewrite Hp.
      unfold drive. rewrite (drive_loop_nodes evs s Hne Hg), Hcb. reflexivity.
    Qed.
  End DriveFold.

  (** without parse errors every event is a record *)
  Lemma nodes_of_length : forall evs, no_parse_error NM evs -> length (nodes_of NM evs) = length evs.
  Proof.
    induction evs as [|[n|e] r IH]; intro H; [reflexivity | |].
    - cbn [nodes_of length]. f_equal. apply IH. intros e K. apply (H e). right. exact K.
    - exfalso. apply (H e). left. reflexivity.
  Qed.

  Lemma nodes_of_events : forall evs, no_parse_error NM evs -> map ENode (nodes_of NM evs) = evs.
  Proof.
    induction evs as [|[n|e] r IH]; intro H; [reflexivity | |].
    - cbn [nodes_of map]. f_equal. apply IH. intros e K. apply (H e). right. exact K.
    - exfalso. apply (H e). left. reflexivity.
  Qed.

  (** a boolean test for "no parse error" (for examples) *)
  Definition no_err_b (evs : list event) : bool :=
    forallb (fun ev => match ev with ENode _ => true | EErr _ => false end) evs.

  Lemma no_err_b_sound : forall evs, no_err_b evs = true -> no_parse_error NM evs.
  Proof.
    intros evs H e K. unfold no_err_b in H. rewrite forallb_forall in H. specialize (H _ K). discriminate.
  Qed.

  (** ... and for "every heading is a date" *)
  Definition all_dated_b (toks : list ltoken) (ns : list pnode) : bool :=
    forallb (fun n => match parse_date toks (header n) with Some _ => true | None => false end) ns.

  Lemma all_dated_b_sound : forall toks ns, all_dated_b toks ns = true -> all_dated NM toks ns.
  Proof.
    intros toks ns H. unfold all_dated_b in H. rewrite forallb_forall in H. apply Forall_forall.
    intros n K. specialize (H _ K). destruct (parse_date toks (header n)); [discriminate|discriminate H].
  Qed.

  (** *** the log callback's fold (over records whose heading is a date: at any other the callback stops) *)
  Definition stats_step (toks : list ltoken) (st : nat * option time * time) (n : pnode) : nat * option time * time :=
    let '(cnt, first, last) := st in
    match parse_date toks (header n) with
    | Some c => (S cnt, match first with Some _ => first | None => Some (time_of_civil c) end, time_of_civil c)
    | None => st
    end.

  Definition dated (toks : list ltoken) (n : pnode) : Prop := parse_date toks (header n) <> None.

  Lemma stats_log_cb_node : forall toks st n, dated toks n ->
    stats_log_cb NM toks st (ENode n) = (stats_step toks st n, false, None).
  Proof.
    intros toks [[cnt first] last] n Hn. unfold dated in Hn. cbn [stats_log_cb stats_step].
    destruct (parse_date toks (header n)); [reflexivity|contradiction].
  Qed.

  (** fix F27: at a heading that is not a date the callback stops with the date error, the state unchanged *)
  Lemma stats_log_cb_bad_date : forall toks st n, parse_date toks (header n) = None ->
    stats_log_cb NM toks st (ENode n) = (st, true, Some EBadDate).
  Proof. intros toks [[cnt first] last] n Hn. cbn [stats_log_cb]. rewrite Hn. reflexivity. Qed.

  (** once a dated heading has been seen, the first record never changes (whatever date it is) *)
  Lemma stats_first_kept : forall toks ns cnt t last,
    snd (fst (fold_left (stats_step toks) ns (cnt, Some t, last))) = Some t.
  Proof.
    intros toks ns. induction ns as [|n r IH]; intros cnt t last; [reflexivity|].
    cbn [fold_left stats_step]. destruct (parse_date toks (header n)) as [c|]; apply IH.
  Qed.

  Lemma stats_fold_first : forall toks ns cnt last,
    snd (fst (fold_left (stats_step toks) ns (cnt, None, last)))
    = stats_first_opt (heading_dates NM toks ns).
  Proof.
    intros toks ns. induction ns as [|n r IH]; intros cnt last; [reflexivity|].
    cbn [fold_left stats_step heading_dates map stats_first_opt].
    destruct (parse_date toks (header n)) as [c|] eqn:Ep.
    - apply stats_first_kept.
    - apply IH.
  Qed.

  Lemma stats_fold_count : forall toks ns cnt first last, all_dated NM toks ns ->
    fst (fst (fold_left (stats_step toks) ns (cnt, first, last))) = (length ns + cnt)%nat.
  Proof.
    intros toks ns. induction ns as [|n r IH]; intros cnt first last Hd; [reflexivity|].
    inversion Hd as [|n0 r0 Hn Hr]; subst n0 r0.
    cbn [fold_left stats_step length]. destruct (parse_date toks (header n)); [|contradiction].
    rewrite IH by exact Hr. lia.
  Qed.

  Lemma stats_fold_last : forall toks ns cnt first last, all_dated NM toks ns ->
    snd (fold_left (stats_step toks) ns (cnt, first, last))
    = match ns with [] => last | _ => stats_last (heading_dates NM toks ns) end.
  Proof.
    intros toks ns. induction ns as [|n r IH]; intros cnt first last Hd; [reflexivity|].
    inversion Hd as [|n0 r0 Hn Hr]; subst n0 r0.
    cbn [fold_left stats_step]. unfold stats_last, heading_dates. cbn [map].
    destruct (parse_date toks (header n)) as [c|]; [|contradiction].
    rewrite IH by exact Hr. destruct r as [|n' r']; reflexivity.
  Qed.

  Lemma stats_fold_spec : forall toks ns, all_dated NM toks ns ->
    fold_left (stats_step toks) ns (O, None, zero_time)
    = (length ns, stats_first_opt (heading_dates NM toks ns), stats_last (heading_dates NM toks ns)).
  Proof.
    intros toks ns Hd.
    pose proof (stats_fold_count toks ns O None zero_time Hd) as H1.
    pose proof (stats_fold_first toks ns O zero_time) as H2.
    pose proof (stats_fold_last toks ns O None zero_time Hd) as H3.
    destruct (fold_left (stats_step toks) ns (O, None, zero_time)) as [[c f] l]. cbn [fst snd] in *.
    subst c f l. rewrite Nat.add_0_r. f_equal. destruct ns; reflexivity.
  Qed.

  (** *** characterisations of [stats_first] / [stats_last] *)
  Lemma stats_last_snoc : forall ds o, stats_last (ds ++ [o]) = match o with Some c => time_of_civil c | None => zero_time end.
  Proof. intros ds o. unfold stats_last. rewrite last_last. reflexivity. Qed.

  Definition is_dated (o : option (Z * Z * Z)) : bool := match o with Some _ => true | None => false end.

  (** the first record is the FIRST heading that is a date, whatever date that is *)
  Lemma stats_first_opt_find : forall ds,
    stats_first_opt ds = match find is_dated ds with Some (Some c) => Some (time_of_civil c) | _ => None end.
  Proof. induction ds as [|[c|] r IH]; cbn [find stats_first_opt is_dated]; [reflexivity | reflexivity | exact IH]. Qed.

  Lemma stats_first_find : forall ds,
    stats_first ds = match find is_dated ds with Some (Some c) => time_of_civil c | _ => zero_time end.
  Proof.
    intro ds. unfold stats_first. rewrite stats_first_opt_find.
    destruct (find is_dated ds) as [[c|]|]; reflexivity.
  Qed.

  Lemma stats_first_opt_split : forall pre c post,
    (forall o, In o pre -> o = None) -> stats_first_opt (pre ++ Some c :: post) = Some (time_of_civil c).
  Proof.
    induction pre as [|o r IH]; intros c post H; [reflexivity|].
    rewrite (H o (or_introl eq_refl)). cbn [app stats_first_opt]. apply IH.
    intros o' K. apply H. right. exact K.
  Qed.

  Lemma stats_first_opt_none : forall ds, (forall o, In o ds -> o = None) -> stats_first_opt ds = None.
  Proof.
    induction ds as [|o r IH]; intro H; [reflexivity|].
    rewrite (H o (or_introl eq_refl)). cbn [stats_first_opt]. apply IH. intros o' K. apply H. right. exact K.
  Qed.

  (** when every heading is a date, no entry of [heading_dates] is [None] *)
  Lemma all_dated_heading_dates : forall toks ns, all_dated NM toks ns ->
    Forall (fun o => o <> None) (heading_dates NM toks ns).
  Proof.
    intros toks ns H. unfold heading_dates. apply Forall_map. exact H.
  Qed.

  (** *** stats_spec, on the callback folds.  Since fix F27 the log walk runs to the end only when every
      heading is a date ([all_dated]; otherwise [run_stats_bad_date] below): then "first" is the date of the
      first heading, "last" that of the last heading, and the zero time stands for "the log has no record" only *)
  Theorem stats_spec : forall toks data,
    snd (scan data NoFault) = ScanEOF -> no_parse_error NM (events NM data) ->
    let ns := nodes_of NM (events NM data) in
    let ds := heading_dates NM toks ns in
    (* the log walk (every heading a date): count, first heading (if any), last *)
    (all_dated NM toks ns ->
     parse_opened NM (stats_log_cb NM toks) (OData data NoFault) (O, None, zero_time)
       = ((length (events NM data), stats_first_opt ds, stats_last ds), None))
    (* the book walk: count *)
    /\ parse_opened NM (stats_db_cb NM) (OData data NoFault) O = (length (events NM data), None)
    (* every event is a heading record *)
    /\ map ENode ns = events NM data
    (* first: the FIRST heading that parses as a date, whatever date it is (0001-01-01 included) ... *)
    /\ (forall pre c post, ds = pre ++ Some c :: post -> (forall o, In o pre -> o = None) ->
          stats_first_opt ds = Some (time_of_civil c) /\ stats_first ds = time_of_civil c)
    (* ... and the zero time is printed when no heading is a date (under [all_dated]: when there is no heading) *)
    /\ ((forall o, In o ds -> o = None) -> stats_first_opt ds = None /\ stats_first ds = zero_time)
    (* the same in one formula *)
    /\ stats_first ds = match find (fun o => match o with Some _ => true | None => false end) ds with
                        | Some (Some c) => time_of_civil c
                        | _ => zero_time
                        end
    (* last: the date of the last heading; the zero time when there is none *)
    /\ stats_last ds = match last ds None with Some c => time_of_civil c | None => zero_time end
    (* under [all_dated] every entry of [ds] is a date: first = the first heading's, last = the last heading's *)
    /\ (all_dated NM toks ns -> Forall (fun o => o <> None) ds).
  Proof.
    intros toks data Hfin Hne ns ds.
    split.
    { intros Hd. rewrite (parse_opened_nodes (stats_log_cb NM toks) (stats_step toks) (dated toks)); try assumption.
      - fold ns. rewrite stats_fold_spec by exact Hd. fold ds. unfold ns. rewrite nodes_of_length by exact Hne. reflexivity.
      - apply stats_log_cb_node. }
    split.
    { rewrite (parse_opened_nodes (stats_db_cb NM) (fun c _ => S c) (fun _ => True)); try assumption.
      - rewrite <- (nodes_of_length _ Hne). fold ns. f_equal.
        assert (G : forall (l : list pnode) k, fold_left (fun c (_ : pnode) => S c) l k = (length l + k)%nat).
        { induction l as [|n r IH]; intro k; cbn [fold_left length]; [reflexivity|]. rewrite IH. lia. }
        rewrite G. lia.
      - intros s n _. reflexivity.
      - apply Forall_forall. intros n _. exact I. }
    split; [apply nodes_of_events; exact Hne|].
    split.
    { intros pre c post E Hpre. unfold stats_first. rewrite E, (stats_first_opt_split pre c post Hpre).
      split; reflexivity. }
    split.
    { intro Hall. unfold stats_first. rewrite (stats_first_opt_none ds Hall). split; reflexivity. }
    split; [apply stats_first_find|]. split; [reflexivity|].
    intros Hd. apply all_dated_heading_dates. exact Hd.
  Qed.

  (** *** [--today] *)
  Lemma load_now : forall (w : world) (i : invocation) (op : options),
    load w i = inr op ->
    tokenize (op_fmt op) = Some (rc_date (op_rc op))
    /\ match i_f_today i with
       | Some s => exists c, parse_date (rc_date (op_rc op)) s = Some c /\ op_now op = time_of_civil c
       | None => exists cfg, load_config w i = inr cfg
                             /\ op_now op = time_of_civil (civ (or_default (ce_now cfg) (w_clock w)))
       end.
  Proof.
    intros w i op H. unfold load in H.
    destruct (load_config w i) as [e|cfg] eqn:Ec; [discriminate|].
    destruct (tokenize _) as [toks|] eqn:Et; [|discriminate].
    destruct (i_f_today i) as [s|] eqn:Es.
    - destruct (parse_date toks s) as [c|] eqn:Ep; [|discriminate].
      destruct (pick_period w _ toks (i_g_begin i) (i_l_begin i)) as [e|bt]; [discriminate|].
      destruct (pick_period w _ toks (i_g_end i) (i_l_end i)) as [e|et]; [discriminate|].
      injection H as H. subst op. cbn [op_fmt op_rc rc_date op_now]. split; [exact Et|].
      exists c. split; [exact Ep | reflexivity].
    - destruct (pick_period w _ toks (i_g_begin i) (i_l_begin i)) as [e|bt]; [discriminate|].
      destruct (pick_period w _ toks (i_g_end i) (i_l_end i)) as [e|et]; [discriminate|].
      injection H as H. subst op. cbn [op_fmt op_rc rc_date op_now]. split; [exact Et|].
      exists cfg. split; reflexivity.
  Qed.

  (** *** the printed lines *)
  Lemma run_stats_unfold : forall (w : world) (op : options),
    run_stats NM w op
    = let wr := new_writer w in
      let toks := rc_date (op_rc op) in
      match open_file w (op_log op) with
      | None => finish wr (Failed EOpen)
      | Some olog =>
          let '((count_log, first_opt, last), e1) := parse_opened NM (stats_log_cb NM toks) olog (O, None, zero_time) in
          let first := match first_opt with Some t => t | None => zero_time end in
          match e1 with
          | Some e => finish wr (Failed e)
          | None =>
              let count_db_r : cerr + nat :=
                match open_file w (op_db op) with
                | None => inl EOpen
                | Some odb =>
                    match parse_opened NM (stats_db_cb NM) odb O with
                    | (_, Some e) => inl e
                    | (c, None) => inr c
                    end
                end in
              match count_db_r with
              | inl e => finish wr (Failed e)
              | inr count_db =>
                  let '(wr1, _) := bw_chunks wr (stats_lines op count_db count_log first last) in
                  let '(wr2, e2) := bw_flush wr1 in
                  finish wr2 (if e2 then Failed EWrite else Ok)
              end
          end
      end.
  Proof. intros w op. reflexivity. Qed.

  (** log and book readable to the end and free of parse errors, every heading of the log a date:
      what [stats] prints *)
  Theorem run_stats_lines : forall (w : world) (op : options) ldata ddata,
    open_file w (op_log op) = Some (OData ldata NoFault) ->
    snd (scan ldata NoFault) = ScanEOF -> no_parse_error NM (events NM ldata) ->
    all_dated NM (rc_date (op_rc op)) (nodes_of NM (events NM ldata)) ->
    open_file w (op_db op) = Some (OData ddata NoFault) ->
    snd (scan ddata NoFault) = ScanEOF -> no_parse_error NM (events NM ddata) ->
    let ds := heading_dates NM (rc_date (op_rc op)) (nodes_of NM (events NM ldata)) in
    run_stats NM w op
    = let '(wr1, _) := bw_chunks (new_writer w)
                         (stats_lines op (length (events NM ddata)) (length (events NM ldata))
                                      (stats_first ds) (stats_last ds)) in
      let '(wr2, e2) := bw_flush wr1 in
      finish wr2 (if e2 then Failed EWrite else Ok).
  Proof.
    intros w op ldata ddata Hol Hlf Hle Hld Hod Hdf Hde ds. rewrite run_stats_unfold. cbv zeta.
    rewrite Hol. destruct (stats_spec (rc_date (op_rc op)) ldata Hlf Hle) as [H1 _]. rewrite (H1 Hld).
    rewrite Hod.
    destruct (stats_spec (rc_date (op_rc op)) ddata Hdf Hde) as [_ [H2 _]]. rewrite H2. reflexivity.
  Qed.

  (** with [--no-database] the book is the null device (fix F24): the book count is 0, whatever the world *)
  Theorem run_stats_lines_nodb : forall (w : world) (op : options) ldata,
    open_file w (op_log op) = Some (OData ldata NoFault) ->
    snd (scan ldata NoFault) = ScanEOF -> no_parse_error NM (events NM ldata) ->
    all_dated NM (rc_date (op_rc op)) (nodes_of NM (events NM ldata)) ->
    op_db op = dev_null ->
    let ds := heading_dates NM (rc_date (op_rc op)) (nodes_of NM (events NM ldata)) in
    run_stats NM w op
    = let '(wr1, _) := bw_chunks (new_writer w)
                         (stats_lines op O (length (events NM ldata)) (stats_first ds) (stats_last ds)) in
      let '(wr2, e2) := bw_flush wr1 in
      finish wr2 (if e2 then Failed EWrite else Ok).
  Proof.
    intros w op ldata Hol Hlf Hle Hld Hdb ds. rewrite run_stats_unfold. cbv zeta.
    rewrite Hol. destruct (stats_spec (rc_date (op_rc op)) ldata Hlf Hle) as [H1 _]. rewrite (H1 Hld).
    rewrite Hdb. reflexivity.
  Qed.

  (** a parse error in the log (only dated headings before it): [stats] prints nothing and fails with that error *)
  Theorem run_stats_parse_error : forall (w : world) (op : options) ldata pre e post last,
    open_file w (op_log op) = Some (OData ldata NoFault) ->
    parse_lines NM (fst (scan ldata NoFault)) = (pre ++ EErr e :: post, last) ->
    no_parse_error NM pre -> all_dated NM (rc_date (op_rc op)) (nodes_of NM pre) ->
    run_stats NM w op = finish (new_writer w) (Failed (EParse (perr_message e))).
  Proof.
    intros w op ldata pre e post last Hol Hp Hne Hd. rewrite run_stats_unfold. cbv zeta. rewrite Hol.
    rewrite (parse_opened_error (stats_log_cb NM (rc_date (op_rc op))) (stats_step (rc_date (op_rc op)))
               (dated (rc_date (op_rc op)))
               (stats_log_cb_node _) (fun s e => eq_refl) ldata _ pre e post last Hp Hne Hd).
    destruct (fold_left _ _ _) as [[c f] l]. reflexivity.
  Qed.

  (** fix F27: a heading that is not a date (no parse error and only dated headings before it): [stats] prints
      nothing and fails with the date error, like every other command.  (Before the fix the heading was
      counted and, as last heading, shown as the zero time.)  The heading among the records completed
      inside the file ... *)
  Theorem run_stats_bad_date : forall (w : world) (op : options) ldata pre n post last,
    open_file w (op_log op) = Some (OData ldata NoFault) ->
    parse_lines NM (fst (scan ldata NoFault)) = (pre ++ ENode n :: post, last) ->
    no_parse_error NM pre -> all_dated NM (rc_date (op_rc op)) (nodes_of NM pre) ->
    parse_date (rc_date (op_rc op)) (header n) = None ->
    run_stats NM w op = finish (new_writer w) (Failed EBadDate).
  Proof.
    intros w op ldata pre n post last Hol Hp Hne Hd Hbad. rewrite run_stats_unfold. cbv zeta. rewrite Hol.
    rewrite (parse_opened_stops_in_loop (stats_log_cb NM (rc_date (op_rc op))) (stats_step (rc_date (op_rc op)))
               (dated (rc_date (op_rc op))) (stats_log_cb_node _) ldata _ pre n post last _ EBadDate Hp Hne Hd
               (stats_log_cb_bad_date _ _ n Hbad)).
    destruct (fold_left _ _ _) as [[c f] l]. reflexivity.
  Qed.

  (** ... or the last record of a file that is readable to the end *)
  Theorem run_stats_bad_date_last : forall (w : world) (op : options) ldata evs n,
    open_file w (op_log op) = Some (OData ldata NoFault) ->
    snd (scan ldata NoFault) = ScanEOF ->
    parse_lines NM (fst (scan ldata NoFault)) = (evs, Some n) ->
    no_parse_error NM evs -> all_dated NM (rc_date (op_rc op)) (nodes_of NM evs) ->
    parse_date (rc_date (op_rc op)) (header n) = None ->
    run_stats NM w op = finish (new_writer w) (Failed EBadDate).
  Proof.
    intros w op ldata evs n Hol Hfin Hp Hne Hd Hbad. rewrite run_stats_unfold. cbv zeta. rewrite Hol.
    rewrite (parse_opened_stops_at_last (stats_log_cb NM (rc_date (op_rc op))) (stats_step (rc_date (op_rc op)))
               (dated (rc_date (op_rc op))) (stats_log_cb_node _) ldata _ evs n _ true EBadDate Hfin Hp Hne Hd
               (stats_log_cb_bad_date _ _ n Hbad)).
    destruct (fold_left _ _ _) as [[c f] l]. reflexivity.
  Qed.
End Stats.

(** *** non-vacuity: a log whose first heading is 0001/01/01 and whose last heading is not a date: the walk stops
    there with the date error (fix F27; before: 4 records, last record = zero time, no error) *)
Definition ex_nl : bytes := [c_lf].
Definition ex_log : bytes :=
  b "0001/01/01" ++ ex_nl ++ b "  bread 2" ++ ex_nl ++
  b "2021/01/02" ++ ex_nl ++ b "  bread 2" ++ ex_nl ++ b "  milk 1" ++ ex_nl ++
  b "2021/01/05" ++ ex_nl ++ b "  bread 3" ++ ex_nl ++
  b "notadate" ++ ex_nl ++ b "  egg 1" ++ ex_nl.
Definition ex_toks : list ltoken := [Y4; Lit 47%N; M2; Lit 47%N; D2].

Example ex_log_readable : snd (scan ex_log NoFault) = ScanEOF.
Proof. vm_compute. reflexivity. Qed.

Example ex_log_no_error : no_parse_error ZNum (events ZNum ex_log).
Proof. apply no_err_b_sound. vm_compute. reflexivity. Qed.

Example ex_stats_fold :
  parse_opened ZNum (stats_log_cb ZNum ex_toks) (OData ex_log NoFault) (O, None, zero_time)
  = ((3%nat, Some (time_of_civil (1, 1, 1)%Z), time_of_civil (2021, 1, 5)%Z), Some EBadDate)
  /\ heading_dates ZNum ex_toks (nodes_of ZNum (events ZNum ex_log))
     = [Some (1, 1, 1)%Z; Some (2021, 1, 2)%Z; Some (2021, 1, 5)%Z; None]
  /\ days_between (time_of_civil (2021, 1, 10)%Z) (time_of_civil (2021, 1, 2)%Z) = 8%Z
  /\ days_between (time_of_civil (2021, 1, 10)%Z) zero_time = 737799%Z.
Proof. vm_compute. repeat split; reflexivity. Qed.

(** *** the two repaired behaviours, on concrete inputs *)

(** a log whose headings are 0001/01/01, 0001/01/03, 0001/01/05 *)
Definition z_log : bytes :=
  b "0001/01/01" ++ ex_nl ++ b "  bread 2" ++ ex_nl ++
  b "0001/01/03" ++ ex_nl ++ b "  milk 1" ++ ex_nl ++
  b "0001/01/05" ++ ex_nl ++ b "  bread 3" ++ ex_nl.
Definition z_world : world :=
  {| w_fs := [(b "log.yaml", FFile z_log)];
     w_default_config := b "/root/.hranoprovod/config"; w_tz := 0%Z; w_clock := time_of_civil (2021, 1, 10)%Z;
     w_or := {| o_resolve := fun l => l; o_day := fun _ l => l; o_flush := fun l => l |};
     w_sink := None; w_read_fault := [] |}.
Definition z_inv : invocation :=
  {| i_f_db := None; i_e_db := None; i_f_log := None; i_e_log := None; i_f_fmt := None; i_e_fmt := None;
     i_f_depth := None; i_e_depth := None; i_f_today := Some (b "0001/01/10"); i_f_config := None; i_e_config := None;
     i_no_database := true; i_g_begin := None; i_g_end := None; i_l_begin := None; i_l_end := None;
     i_g_no_color := true; i_l_no_color := false; i_single_food := []; i_single_element := [];
     i_group_food := false; i_csv := false; i_no_totals := false; i_totals_only := false;
     i_shorten := false; i_old := false; i_template := None; i_collapse := false; i_collapse_last := false;
     i_desc := false; i_silent := false; i_cmd := CStats |}.

(** repair 1 (the first record has a flag of its own).  The log's first heading is 0001/01/01, the zero
    time itself; [stats] reports it as first record, 9 days before --today 0001/01/10.
    OLD behaviour (before the repair the zero time was the "not yet seen" mark, [if is_zero_time first
    then t else first]): the first heading was taken for "nothing seen yet" and the SECOND heading was
    reported, "  First record:       0001/01/03 (7 days ago)", the state after the walk being
    [(3, time_of_civil (1,1,3), time_of_civil (1,1,5))]. *)
Example stats_first_record_zero_date :
  (* the walk: three headings, the first dated one is 0001/01/01, the last one 0001/01/05 *)
  parse_opened ZNum (stats_log_cb ZNum ex_toks) (OData z_log NoFault) (O, None, zero_time)
  = ((3%nat, Some (time_of_civil (1, 1, 1)%Z), time_of_civil (1, 1, 5)%Z), None)
  /\ heading_dates ZNum ex_toks (nodes_of ZNum (events ZNum z_log))
     = [Some (1, 1, 1)%Z; Some (1, 1, 3)%Z; Some (1, 1, 5)%Z]
  /\ stats_first (heading_dates ZNum ex_toks (nodes_of ZNum (events ZNum z_log))) = time_of_civil (1, 1, 1)%Z
  (* and the whole program, [stats --no-database --today 0001/01/10] *)
  /\ run ZNum z_world z_inv
     = {| out_stdout :=
            b "  Database file:      /dev/null" ++ ex_nl ++
            b "  Database records:   0" ++ ex_nl ++
            ex_nl ++
            b "  Log file:           log.yaml" ++ ex_nl ++
            b "  Log records:        3" ++ ex_nl ++
            b "  Today:              0001/01/10" ++ ex_nl ++
            b "  First record:       0001/01/01 (9 days ago)" ++ ex_nl ++
            b "  Last record:        0001/01/05 (5 days ago)" ++ ex_nl;
          out_status := Ok |}.
Proof. vm_compute. repeat split; reflexivity. Qed.

(** repair 2 (the distance in days goes through [Unix()] seconds).  Distances beyond about 292 years:
    OLD behaviour (through [time.Duration], which saturates at 2^63-1 ns): both figures below were
    106751 and -106751. *)
Example stats_days_far :
  days_between (time_of_civil (2021, 1, 2)%Z) (time_of_civil (1700, 1, 1)%Z) = 117244%Z
  /\ days_between (time_of_civil (2021, 1, 2)%Z) (time_of_civil (2400, 1, 1)%Z) = (-138425)%Z.
Proof. vm_compute. split; reflexivity. Qed.

(** the ends of what a four-digit year can express, and a [now] that is not a midnight
    (2021/01/02 13:00:01 in a zone 2 h east: the zone does not matter, the rounding is towards zero) *)
Example stats_days_far_ends :
  days_between (time_of_civil (9999, 12, 31)%Z) (time_of_civil (0, 1, 1)%Z) = 3652424%Z
  /\ days_between (time_of_civil (0, 1, 1)%Z) (time_of_civil (9999, 12, 31)%Z) = (-3652424)%Z
  /\ (let now := {| inst := (18629 * 86400 + 46801) * ns_per_sec; off := 7200; civ := (2021, 1, 2) |} in
      days_between now (time_of_civil (2021, 1, 1)) = 1 /\ days_between now (time_of_civil (2021, 1, 5)) = -2)%Z.
Proof. vm_compute. repeat split; reflexivity. Qed.

(** repair 3 (fix F27: a heading that is not a date is an error for [stats] too).  [ex_log] has three dated
    headings and then the heading "notadate": [stats] prints nothing and fails with the date error
    (instance of [run_stats_bad_date_last]: the heading is the last record of the file).
    OLD behaviour: "Log records: 4" and "Last record: 0001/01/01", status Ok. *)
Definition bad_world : world :=
  {| w_fs := [(b "log.yaml", FFile ex_log)];
     w_default_config := b "/root/.hranoprovod/config"; w_tz := 0%Z; w_clock := time_of_civil (2021, 1, 10)%Z;
     w_or := {| o_resolve := fun l => l; o_day := fun _ l => l; o_flush := fun l => l |};
     w_sink := None; w_read_fault := [] |}.

Example stats_bad_date_fails :
  run ZNum bad_world z_inv = {| out_stdout := []; out_status := Failed EBadDate |}
  /\ exists evs n, parse_lines ZNum (fst (scan ex_log NoFault)) = (evs, Some n)
                   /\ all_dated_b ZNum ex_toks (nodes_of ZNum evs) = true /\ parse_date ex_toks (header n) = None.
Proof. split; [vm_compute; reflexivity|]. eexists. eexists. vm_compute. repeat split; reflexivity. Qed.
