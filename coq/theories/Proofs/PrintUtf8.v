(** Facts about rune decoding and [strings.TrimSpace] used by the proofs of
    property C14: decoding is compositional across an ASCII byte, and
    [trim_space] leaves a string alone exactly when its first and last runes
    are not spaces. *)
From Coq Require Import Lia ZifyBool ZifyNat ZifyN.
From HP Require Import Base.Bytes Base.Utf8 Spec.PrintSpec Proofs.PrintBytes.
Open Scope N_scope.

(** *** one decoding step *)

Lemma decode_rune_some s : s <> [] -> exists r rest, decode_rune s = Some (r, rest).
Proof.
  destruct s as [|c0 r0]; [congruence|]. intros _. unfold decode_rune.
  repeat match goal with
         | |- context [if ?c then _ else _] => destruct c
         | |- context [match ?l with [] => _ | _ :: _ => _ end] => destruct l
         end; eexists; eexists; reflexivity.
Qed.

(** a step consumes a non-empty prefix *)
Lemma decode_rune_prefix s r rest :
  decode_rune s = Some (r, rest) -> exists p, p <> [] /\ s = p ++ rest.
Proof.
  destruct s as [|c0 r0]; [discriminate|]. unfold decode_rune.
  repeat match goal with
         | |- context [if ?c then _ else _] => destruct c
         | |- context [match ?l with [] => _ | _ :: _ => _ end] => destruct l
         end; intros H; injection H as <- <-;
    first [ exists [c0]; split; [discriminate|reflexivity]
          | eexists [c0; _]; split; [discriminate|reflexivity]
          | eexists [c0; _; _]; split; [discriminate|reflexivity]
          | eexists [c0; _; _; _]; split; [discriminate|reflexivity] ].
Qed.

(** appending text that starts with an ASCII byte does not change the first step *)
Lemma decode_rune_app_ascii x c y r rest :
  c < 128 -> decode_rune x = Some (r, rest) -> decode_rune (x ++ c :: y) = Some (r, rest ++ c :: y).
Proof.
  intros Hc H.
  assert (Hcont : is_cont c = false) by (unfold is_cont; lia).
  assert (Hlo : forall lo, 128 <= lo -> (lo <=? c) = false) by (intros lo Hl; lia).
  destruct x as [|c0 x]; [discriminate|].
  cbn [app]. unfold decode_rune in *.
  destruct (c0 <? 128). { injection H as <- <-. reflexivity. }
  destruct ((194 <=? c0) && (c0 <=? 223)).
  { destruct x as [|c1 x]; cbn [app].
    - rewrite Hcont. injection H as <- <-. reflexivity.
    - destruct (is_cont c1); injection H as <- <-; reflexivity. }
  destruct ((224 <=? c0) && (c0 <=? 239)).
  { cbv zeta in *.
    assert (Hlo3 : ((if c0 =? 224 then 160 else 128) <=? c) = false)
      by (apply Hlo; destruct (c0 =? 224); lia).
    destruct x as [|c1 [|c2 x]]; cbn [app].
    - injection H as <- <-. destruct y as [|c2 y]; [reflexivity|]. rewrite Hlo3. reflexivity.
    - injection H as <- <-. rewrite Hcont. rewrite andb_false_r. reflexivity.
    - destruct (_ && _ && is_cont c2); injection H as <- <-; reflexivity. }
  destruct ((240 <=? c0) && (c0 <=? 244)).
  { cbv zeta in *.
    assert (Hlo4 : ((if c0 =? 240 then 144 else 128) <=? c) = false)
      by (apply Hlo; destruct (c0 =? 240); lia).
    destruct x as [|c1 [|c2 [|c3 x]]]; cbn [app].
    - injection H as <- <-. destruct y as [|c2 [|c3 y]]; [reflexivity|reflexivity|]. rewrite Hlo4. reflexivity.
    - injection H as <- <-. destruct y as [|c3 y]; [reflexivity|]. rewrite Hcont.
      rewrite andb_false_r. reflexivity.
    - injection H as <- <-. rewrite Hcont. rewrite andb_false_r. reflexivity.
    - destruct (_ && _ && is_cont c2 && is_cont c3); injection H as <- <-; reflexivity. }
  injection H as <- <-. reflexivity.
Qed.

(** *** the rune list *)

Lemma runes_fuel_enough f1 : forall f2 s,
  (length s <= f1)%nat -> (length s <= f2)%nat -> runes_fuel f1 s = runes_fuel f2 s.
Proof.
  induction f1 as [|f1 IH]; intros f2 s H1 H2.
  - destruct s; [|cbn in H1; lia]. destruct f2; reflexivity.
  - destruct f2 as [|f2].
    + destruct s; [reflexivity|cbn in H2; lia].
    + cbn [runes_fuel]. destruct (decode_rune s) as [[r rest]|] eqn:E; [|reflexivity].
      destruct (decode_rune_prefix _ _ _ E) as [p [Hp Hs]].
      assert (length rest < length s)%nat.
      { rewrite Hs. rewrite app_length. destruct p; [congruence|cbn; lia]. }
      f_equal. apply IH; lia.
Qed.

Lemma runes_nil : runes [] = [].
Proof. reflexivity. Qed.

Lemma runes_step s r rest :
  decode_rune s = Some (r, rest) ->
  exists p, p <> [] /\ s = p ++ rest /\ runes s = (r, p) :: runes rest.
Proof.
  intros E. destruct (decode_rune_prefix _ _ _ E) as [p [Hp Hs]].
  exists p. split; [exact Hp|]. split; [exact Hs|].
  assert (Hlen : length s = (length p + length rest)%nat) by (rewrite Hs at 1; apply app_length).
  assert (Hp' : (0 < length p)%nat) by (destruct p; [congruence|cbn; lia]).
  unfold runes. destruct (length s) as [|n] eqn:En; [lia|].
  cbn [runes_fuel]. rewrite E. f_equal.
  - f_equal. replace (length s - length rest)%nat with (length p) by lia.
    rewrite Hs. apply firstn_app_exact.
  - apply runes_fuel_enough; lia.
Qed.

Lemma runes_ascii c s : c < 128 -> runes (c :: s) = (c, [c]) :: runes s.
Proof.
  intros Hc. assert (E : decode_rune (c :: s) = Some (c, s)).
  { unfold decode_rune. destruct (N.ltb_spec c 128); [reflexivity|lia]. }
  destruct (runes_step _ _ _ E) as [p [_ [Hs Hr]]]. rewrite Hr.
  assert (p = [c]).
  { change (c :: s) with ([c] ++ s) in Hs. apply app_inv_tail in Hs. congruence. }
  subst p. reflexivity.
Qed.

(** induction on the length of a byte string *)
Lemma bytes_length_ind (P : list N -> Prop) :
  (forall s : list N, (forall s' : list N, (length s' < length s)%nat -> P s') -> P s) -> forall s : list N, P s.
Proof.
  intros H s. remember (length s) as n eqn:En. revert s En.
  induction n as [n IH] using lt_wf_ind. intros s En. apply H. intros s' Hlt.
  apply (IH (length s')); [lia|reflexivity].
Qed.

(** decoding is compositional across an ASCII byte *)
Lemma runes_app_ascii c y : c < 128 -> forall x, runes (x ++ c :: y) = runes x ++ (c, [c]) :: runes y.
Proof.
  intros Hc x. induction x as [x IH] using bytes_length_ind.
  destruct x as [|c0 x'].
  - cbn [app]. rewrite runes_ascii by exact Hc. reflexivity.
  - destruct (decode_rune_some (c0 :: x')) as [r [rest E]]; [discriminate|].
    destruct (runes_step _ _ _ E) as [p [Hp [Hs Hr]]].
    pose proof (decode_rune_app_ascii _ c y _ _ Hc E) as E2.
    destruct (runes_step _ _ _ E2) as [p2 [Hp2 [Hs2 Hr2]]].
    rewrite Hr2, Hr. rewrite Hs in Hs2 at 1. rewrite <- app_assoc in Hs2.
    apply app_inv_tail in Hs2. subst p2. cbn [app]. f_equal. apply IH.
    rewrite Hs. rewrite app_length. destruct p; [congruence|cbn; lia].
Qed.

Lemma runes_bytes s : concat (map snd (runes s)) = s.
Proof.
  induction s as [s IH] using bytes_length_ind. destruct s as [|c0 s']; [reflexivity|].
  destruct (decode_rune_some (c0 :: s')) as [r [rest E]]; [discriminate|].
  destruct (runes_step _ _ _ E) as [p [Hp [Hs Hr]]]. rewrite Hr. cbn [map concat snd].
  rewrite IH; [symmetry; exact Hs|]. rewrite Hs. rewrite app_length. destruct p; [congruence|cbn; lia].
Qed.

Lemma runes_nonempty_pieces s : Forall (fun rp => snd rp <> []) (runes s).
Proof.
  induction s as [s IH] using bytes_length_ind. destruct s as [|c0 s']; [constructor|].
  destruct (decode_rune_some (c0 :: s')) as [r [rest E]]; [discriminate|].
  destruct (runes_step _ _ _ E) as [p [Hp [Hs Hr]]]. rewrite Hr. constructor; [exact Hp|].
  apply IH. rewrite Hs. rewrite app_length. destruct p; [congruence|cbn; lia].
Qed.

Lemma runes_eq_nil s : runes s = [] -> s = [].
Proof. intros H. rewrite <- (runes_bytes s). rewrite H. reflexivity. Qed.

(** *** dropping space runes *)

Definition all_space (l : list (N * bytes)) : bool := forallb (fun rp => is_space_rune (fst rp)) l.
Definition head_not_space (l : list (N * bytes)) : Prop :=
  match l with rp :: _ => is_space_rune (fst rp) = false | [] => False end.

Lemma drop_space_spec l :
  exists a, l = a ++ drop_space_runes l /\ all_space a = true
            /\ (drop_space_runes l = [] \/ head_not_space (drop_space_runes l)).
Proof.
  induction l as [|[r bs] l IH].
  - exists []. split; [reflexivity|]. split; [reflexivity|]. left. reflexivity.
  - cbn [drop_space_runes]. destruct (is_space_rune r) eqn:E.
    + destruct IH as [a [H1 [H2 H3]]]. exists ((r, bs) :: a). split; [cbn; f_equal; exact H1|].
      split; [|exact H3]. unfold all_space in *. cbn [forallb fst]. rewrite E. exact H2.
    + exists []. split; [reflexivity|]. split; [reflexivity|]. right. exact E.
Qed.

Lemma drop_space_head l : head_not_space l -> drop_space_runes l = l.
Proof. destruct l as [|[r bs] l]; [intros []|]. cbn. intros H. rewrite H. reflexivity. Qed.

Lemma drop_space_space r bs l : is_space_rune r = true -> drop_space_runes ((r, bs) :: l) = drop_space_runes l.
Proof. intros H. cbn. rewrite H. reflexivity. Qed.

(** *** [trim_space] *)

(** first and last rune of the string are not spaces *)
Definition first_rune_ok (s : bytes) : Prop := head_not_space (runes s).
Definition last_rune_ok (s : bytes) : Prop := head_not_space (rev (runes s)).

Lemma trim_space_fix s : first_rune_ok s -> last_rune_ok s -> trim_space s = s.
Proof.
  unfold first_rune_ok, last_rune_ok, trim_space. intros Hf Hl.
  rewrite (drop_space_head _ Hf). rewrite (drop_space_head _ Hl). rewrite rev_involutive.
  apply runes_bytes.
Qed.

Lemma trim_space_nil : trim_space [] = [].
Proof. reflexivity. Qed.

Lemma trim_space_lead_space c s : c < 128 -> is_space_rune c = true -> trim_space (c :: s) = trim_space s.
Proof.
  intros Hc Hs. unfold trim_space. rewrite runes_ascii by exact Hc.
  rewrite drop_space_space by exact Hs. reflexivity.
Qed.

Lemma pieces_length_zero l :
  Forall (fun rp : N * bytes => snd rp <> []) l -> length (concat (map snd l)) = O -> l = [].
Proof.
  intros H Hl. destruct l as [|[r bs] l]; [reflexivity|]. inversion H as [|? ? Hbs _]; subst.
  cbn in Hl, Hbs. rewrite app_length in Hl. destruct bs; [congruence|cbn in Hl; lia].
Qed.

(** the converse: a non-empty string that [trim_space] leaves alone has non-space end runes *)
Lemma trim_space_fix_inv s : s <> [] -> trim_space s = s -> first_rune_ok s /\ last_rune_ok s.
Proof.
  intros Hne H. unfold trim_space in H.
  pose proof (runes_nonempty_pieces s) as Hp. pose proof (runes_bytes s) as Hb.
  destruct (drop_space_spec (runes s)) as [a [Ha1 [Ha2 Ha3]]].
  set (l1 := drop_space_runes (runes s)) in *.
  destruct (drop_space_spec (rev l1)) as [a' [Hb1 [Hb2 Hb3]]].
  set (l2 := drop_space_runes (rev l1)) in *.
  assert (Hl1 : l1 = rev l2 ++ rev a').
  { rewrite <- rev_app_distr. rewrite <- Hb1. symmetry. apply rev_involutive. }
  assert (Hall : runes s = a ++ rev l2 ++ rev a') by (rewrite <- Hl1; exact Ha1).
  assert (Hlen : (length (concat (map snd a)) + length (concat (map snd (rev a'))) = 0)%nat).
  { assert (Hall' : length s = length (concat (map snd (a ++ rev l2 ++ rev a'))))
      by (rewrite <- Hall, Hb; reflexivity).
    rewrite !map_app, !concat_app, !app_length in Hall'.
    assert (H' : length (concat (map snd (rev l2))) = length s) by (rewrite H; reflexivity). lia. }
  rewrite Hall in Hp. apply Forall_app in Hp. destruct Hp as [Hpa Hp]. apply Forall_app in Hp.
  destruct Hp as [_ Hpa'].
  assert (a = []) by (apply pieces_length_zero; [exact Hpa|lia]).
  assert (rev a' = []) by (apply pieces_length_zero; [exact Hpa'|lia]).
  assert (a' = []) by (destruct a'; [reflexivity|]; cbn in *; destruct (rev a'); discriminate).
  subst a a'. cbn [app rev] in *. rewrite app_nil_r in *.
  assert (Hne' : runes s <> []) by (intros E; apply Hne, runes_eq_nil, E).
  unfold first_rune_ok, last_rune_ok. split.
  - rewrite Ha1. destruct Ha3 as [Ha3|Ha3]; [|exact Ha3]. rewrite Ha3 in Ha1. contradiction.
  - rewrite Ha1. rewrite Hb1. destruct Hb3 as [Hb3|Hb3]; [|exact Hb3].
    rewrite Hb3 in Hb1. rewrite Ha1 in Hne'. destruct l1; [congruence|]. cbn in Hb1. destruct (rev l1); discriminate.
Qed.

(** the end runes of a composed string *)
Lemma first_rune_ok_app_ascii x c y : c < 128 -> first_rune_ok x -> first_rune_ok (x ++ c :: y).
Proof.
  intros Hc. unfold first_rune_ok. rewrite runes_app_ascii by exact Hc.
  destruct (runes x) as [|rp l]; [intros []|]. intros H. exact H.
Qed.

Lemma last_rune_ok_app_ascii x c y : c < 128 -> y <> [] -> last_rune_ok y -> last_rune_ok (x ++ c :: y).
Proof.
  intros Hc Hy. unfold last_rune_ok. rewrite runes_app_ascii by exact Hc.
  rewrite rev_app_distr. cbn [rev]. rewrite <- app_assoc.
  destruct (rev (runes y)) as [|rp l]; [intros []|]. intros H. exact H.
Qed.

Lemma first_rune_ok_lead s : s <> [] -> lead_space s = false -> first_rune_ok s.
Proof.
  intros Hne H. unfold lead_space in H. destruct (decode_rune_some s Hne) as [r [rest E]].
  rewrite E in H. destruct (runes_step _ _ _ E) as [p [_ [_ Hr]]].
  unfold first_rune_ok. rewrite Hr. exact H.
Qed.

(** a string whose last byte is ASCII and not a space has a good last rune *)
Lemma last_rune_ok_snoc s c : c < 128 -> is_space_rune c = false -> last_rune_ok (s ++ [c]).
Proof.
  intros Hc Hs. unfold last_rune_ok. rewrite runes_app_ascii by exact Hc.
  rewrite runes_nil. rewrite rev_app_distr. exact Hs.
Qed.

(** a string [trim_space] leaves alone does not end with CR (nor any ASCII space) *)
Lemma trim_space_fix_last s c : c < 128 -> is_space_rune c = true -> trim_space (s ++ [c]) <> s ++ [c].
Proof.
  intros Hc Hs H. destruct (trim_space_fix_inv (s ++ [c])) as [_ Hl]; [destruct s; discriminate|exact H|].
  unfold last_rune_ok in Hl. rewrite runes_app_ascii in Hl by exact Hc. rewrite runes_nil in Hl.
  rewrite rev_app_distr in Hl. cbn in Hl. congruence.
Qed.
