(** WP30 / property C08, the clause "never overflows the stack".

    The Go resolver ([resolveNode], resolver/resolver.go) recurses once per
    ingredient reference; nothing bounds the recursion but the user's own
    depth limit.  The model has no stack; what it has is the instrumented copy
    [NoCrash.resolve_node_d] of [Resolver.resolve_node] whose second component
    is the deepest nesting level reached below the call (0 = the call returned
    without calling itself; the number of [resolveNode] frames that are live
    at the deepest point is this number plus one).

    This file makes the statement about nesting complete:
      1. on the chain [r0 -> r1 -> ... -> rk] the nesting is EXACTLY
         [min k fuel] ([chain_nesting_exact], [chain_nesting]);
      2. hence no number bounds the nesting for all inputs -- the model-level
         form of known finding KF1 ([nesting_unbounded], [stack_bound_refuted],
         and the same for the whole [Resolve] loop, [resolve_nesting_unbounded]);
      3. where it is safe: nesting <= fuel = the effective depth limit
         ([nesting_le_limit], [resolved_db_nesting_le_limit],
         [default_limit_nesting_le_10]) and, whatever the fuel, nesting <= the
         length of the longest chain of references that starts at the name
         ([nesting_le_longest_chain]) and nesting <= the number of recipes of
         the book, cyclic or not ([nesting_le_recipes]): the recursion is never
         deeper than the input is long.  KF1 needs a book with millions of recipes. *)
From Coq Require Import Lia ZifyBool Permutation.
From HP Require Import Base.Bytes Base.Utf8 Base.Num Model.Scanner Model.Parser Model.Elements Model.Resolver
  Model.Dates Model.Tree Model.Writer Model.Reporters Model.Config Model.Cli.
From HP Require Import Spec.ResolverSpec Proofs.ResolverAssoc Proofs.ResolverRef Proofs.ResolverRefine
  Proofs.Settings Proofs.NoCrash.
Local Open Scope nat_scope.

(** * Names of the chain: [r], [rr], [rrr], ... -- distinct because their lengths differ *)
Definition cname (i : nat) : bytes := brepeat [114%N] (S i).

Lemma length_brepeat1 : forall c n, length (brepeat [c] n) = n.
Proof. intros c. induction n as [|n IH]; [reflexivity|]. cbn [brepeat app length]. rewrite IH. reflexivity. Qed.

Lemma length_cname : forall i, length (cname i) = S i.
Proof. intros i. unfold cname. apply length_brepeat1. Qed.

Lemma cname_inj : forall i j, cname i = cname j -> i = j.
Proof. intros i j H. apply (f_equal (@length N)) in H. rewrite !length_cname in H. lia. Qed.

Section Chain.
  Context (NM : Num).
  Notation elements := (elements NM).
  Notation db := (Resolver.db NM).

  (** * The chain book  r0: r1 1 / r1: r2 1 / ... / r(k-1): rk 1   ([rk] is not a recipe) *)
  Definition chain_entry (i : nat) : bytes * elements := (cname i, [(cname (S i), one NM)]).
  Definition chain_book (k : nat) : db := map chain_entry (seq 0 k).

  Lemma keys_chain_book : forall k, keys (chain_book k) = map cname (seq 0 k).
  Proof. intros k. unfold keys, chain_book. rewrite map_map. reflexivity. Qed.

  Lemma chain_book_nodup : forall k, NoDup (keys (chain_book k)).
  Proof.
    intros k. rewrite keys_chain_book. apply FinFun.Injective_map_NoDup; [|apply seq_NoDup].
    intros i j. apply cname_inj.
  Qed.

  Lemma length_chain_book : forall k, length (keys (chain_book k)) = k.
  Proof. intros k. rewrite keys_chain_book, map_length, seq_length. reflexivity. Qed.

  Lemma lookup_chain_seq_some : forall n a i,
    a <= i < a + n -> lookup (cname i) (map chain_entry (seq a n)) = Some [(cname (S i), one NM)].
  Proof.
    induction n as [|n IH]; intros a i Hi; [lia|]. cbn [seq map chain_entry lookup].
    fold (chain_entry (S a)). destruct (beq_spec (cname i) (cname a)) as [E|E].
    - apply cname_inj in E. subst a. reflexivity.
    - change (lookup (cname i) (map chain_entry (seq (S a) n)) = Some [(cname (S i), one NM)]).
      apply IH. assert (i <> a) by (intros ->; apply E; reflexivity). lia.
  Qed.

  Lemma lookup_chain_seq_none : forall n a i,
    i < a \/ a + n <= i -> lookup (cname i) (map chain_entry (seq a n)) = None.
  Proof.
    induction n as [|n IH]; intros a i Hi; [reflexivity|]. cbn [seq map lookup]. unfold chain_entry at 1.
    destruct (beq_spec (cname i) (cname a)) as [E|E].
    - apply cname_inj in E. lia.
    - apply IH. lia.
  Qed.

  Lemma lookup_chain_some : forall k i, i < k -> lookup (cname i) (chain_book k) = Some [(cname (S i), one NM)].
  Proof. intros k i Hi. apply lookup_chain_seq_some. lia. Qed.

  Lemma lookup_chain_none : forall k i, k <= i -> lookup (cname i) (chain_book k) = None.
  Proof. intros k i Hi. apply lookup_chain_seq_none. lia. Qed.

  Lemma lookup_chain_inv : forall k r els,
    lookup r (chain_book k) = Some els -> exists i, i < k /\ r = cname i /\ els = [(cname (S i), one NM)].
  Proof.
    intros k r els H. apply lookup_in in H. unfold chain_book in H. apply in_map_iff in H.
    destruct H as (i & Hi & Hin). apply in_seq in Hin. unfold chain_entry in Hi. inversion Hi; subst.
    exists i. split; [lia|]. split; reflexivity.
  Qed.

  (** the chain book has no cycle: every reference goes from [ri] to a name with a larger index *)
  Lemma chain_refs_increase : forall k p q, refs NM (chain_book k) p q -> exists i j, p = cname i /\ q = cname j /\ i < j.
  Proof.
    intros k p q H. induction H as [r els e v Hl Hin|r m e _ IH1 _ IH2].
    - destruct (lookup_chain_inv k r els Hl) as (i & _ & -> & ->).
      destruct Hin as [Hin|[]]. inversion Hin; subst. exists i, (S i). repeat split. lia.
    - destruct IH1 as (i & j & -> & -> & Hij). destruct IH2 as (j' & l & Hj & -> & Hjl).
      apply cname_inj in Hj. subst j'. exists i, l. repeat split. lia.
  Qed.

  Theorem chain_book_acyclic : forall k c, ~ on_cycle NM (chain_book k) c.
  Proof.
    intros k c H. destruct (chain_refs_increase k c c H) as (i & j & -> & Hj & Hij).
    apply cname_inj in Hj. lia.
  Qed.

  (** the longest chain of references starting at [r0] has exactly [k] of them *)
  Lemma chain_reach : forall j i, reach NM (chain_book (i + j)) j (cname i).
  Proof.
    induction j as [|j IH]; intros i; [exact I|].
    eapply reach_step; [apply lookup_chain_some; lia|left; reflexivity|].
    replace (i + S j) with (S i + j) by lia. apply IH.
  Qed.

  Lemma chain_not_reach : forall j i, ~ reach NM (chain_book (i + j)) (S j) (cname i).
  Proof.
    induction j as [|j IH]; intros i Hr.
    - eapply reach_S_undefined; [|exact Hr]. apply lookup_chain_none. lia.
    - destruct (reach_S_inv NM _ _ _ _ (lookup_chain_some (i + S j) i ltac:(lia)) Hr) as (e & v & [Hin|[]] & Hre).
      inversion Hin; subst e v. apply (IH (S i)). replace (S i + j) with (i + S j) by lia. exact Hre.
  Qed.

  (** * 1. Exact nesting on chains *)

  (** resolving [ri] in any state that still has the entries [ri ..] of the
      chain of length [i + j] untouched and unmarked: the calls nest [min j fuel]
      deep; the call succeeds iff the fuel exceeds [j] *)
  Lemma chain_node : forall fuel j i (d : db) (m : memo),
    (forall t, i <= t -> lookup (cname t) d = lookup (cname t) (chain_book (i + j))) ->
    (forall t, i <= t -> lookup (cname t) m = None) ->
    snd (resolve_node_d NM fuel (d, m) (cname i)) = Nat.min j fuel /\
    (j < fuel -> fst (resolve_node_d NM fuel (d, m) (cname i)) <> None) /\
    (fuel <= j -> fst (resolve_node_d NM fuel (d, m) (cname i)) = None).
  Proof.
    induction fuel as [|f IH]; intros j i d m Hd Hm.
    - cbn [resolve_node_d fst snd]. split; [lia|]. split; [lia|reflexivity].
    - cbn [resolve_node_d fst snd]. rewrite (Hd i (le_n i)). destruct j as [|j].
      + rewrite lookup_chain_none by lia. cbn [fst snd]. split; [reflexivity|]. split; [discriminate|lia].
      + rewrite lookup_chain_some by lia. rewrite (Hm i (le_n i)). cbn [ingredients_loop_d].
        specialize (IH j (S i) d (set (cname i) InProgress m)).
        destruct IH as (IHs & IHok & IHfail).
        * intros t Ht. replace (S i + j) with (i + S j) by lia. apply Hd. lia.
        * intros t Ht. rewrite lookup_set_neq; [apply Hm; lia|]. intros E. apply cname_inj in E. lia.
        * match goal with
          | |- context [resolve_node_d NM f ?s (cname (S i))] => set (R := resolve_node_d NM f s (cname (S i)))
          end.
          change (resolve_node_d NM f (d, set (cname i) InProgress m) (cname (S i))) with R in IHs, IHok, IHfail.
          destruct R as [[[h [d' m']]|] n]; cbn [fst snd] in IHs, IHok, IHfail; cbn [ingredients_loop_d fst snd].
          -- split; [lia|]. split; [discriminate|]. intros Hle. exfalso.
             assert (Hn : Some (h, (d', m')) = None) by (apply IHfail; lia). discriminate.
          -- split; [lia|]. split; [|reflexivity]. intros Hlt. exfalso. apply IHok; [lia|reflexivity].
  Qed.

  Lemma chain_top : forall k fuel,
    snd (resolve_node_d NM fuel (chain_book k, []) (cname 0)) = Nat.min k fuel /\
    (k < fuel -> fst (resolve_node_d NM fuel (chain_book k, []) (cname 0)) <> None) /\
    (fuel <= k -> fst (resolve_node_d NM fuel (chain_book k, []) (cname 0)) = None).
  Proof.
    intros k fuel. exact (chain_node fuel k 0 (chain_book k) [] (fun t _ => eq_refl) (fun t _ => eq_refl)).
  Qed.

  (** the exact figure, for every chain length and every fuel *)
  Theorem chain_nesting_exact : forall k fuel,
    snd (resolve_node_d NM fuel (chain_book k, []) (cname 0)) = Nat.min k fuel.
  Proof. intros k fuel. apply chain_top. Qed.

  (** enough fuel: the resolution succeeds and the calls nest exactly [k] deep *)
  Theorem chain_nesting : forall k fuel, k < fuel ->
    snd (resolve_node_d NM fuel (chain_book k, []) (cname 0)) = k /\
    exists res, fst (resolve_node_d NM fuel (chain_book k, []) (cname 0)) = Some res.
  Proof.
    intros k fuel Hlt. destruct (chain_top k fuel) as (Hs & Hok & _).
    split; [rewrite Hs; lia|]. specialize (Hok Hlt).
    destruct (fst (resolve_node_d NM fuel (chain_book k, []) (cname 0))) as [res|]; [exists res; reflexivity|congruence].
  Qed.

  (** not enough fuel: "maximum resolution depth reached", after nesting as deep as the fuel allows *)
  Theorem chain_nesting_limit_hit : forall k fuel, fuel <= k ->
    resolve_node_d NM fuel (chain_book k, []) (cname 0) = (None, fuel).
  Proof.
    intros k fuel Hle. destruct (chain_top k fuel) as (Hs & _ & Hf).
    specialize (Hf Hle). destruct (resolve_node_d NM fuel (chain_book k, []) (cname 0)) as [r n]; cbn [fst snd] in *.
    subst r. f_equal. lia.
  Qed.
End Chain.

(** * 2. No bound holds for all inputs (model-level form of known finding KF1) *)

Definition acyclic (NM : Num) (d : Resolver.db NM) : Prop := forall c, ~ on_cycle NM d c.

(** for every [NM]: a book without cycles, with distinct keys, on which the
    resolution succeeds, nesting deeper than [bound] *)
Theorem nesting_unbounded_gen : forall (NM : Num) bound, exists (d : Resolver.db NM) fuel name,
  acyclic NM d /\ NoDup (keys d) /\
  fst (resolve_node_d NM fuel (d, []) name) <> None /\
  bound < snd (resolve_node_d NM fuel (d, []) name).
Proof.
  intros NM bound. exists (chain_book NM (S bound)), (S (S bound)), (cname 0).
  destruct (chain_nesting NM (S bound) (S (S bound)) ltac:(lia)) as (Hs & res & Hr).
  split; [exact (chain_book_acyclic NM (S bound))|]. split; [apply chain_book_nodup|].
  split; [rewrite Hr; discriminate|rewrite Hs; lia].
Qed.

Theorem nesting_unbounded : forall bound, exists (d : Resolver.db ZNum) fuel name,
  acyclic ZNum d /\
  fst (resolve_node_d ZNum fuel (d, []) name) <> None /\
  bound < snd (resolve_node_d ZNum fuel (d, []) name).
Proof.
  intros bound. destruct (nesting_unbounded_gen ZNum bound) as (d & fuel & name & Ha & _ & Hf & Hs).
  exists d, fuel, name. split; [exact Ha|]. split; [exact Hf|exact Hs].
Qed.

(** what the clause "never overflows the stack" of C08 would need -- refuted *)
Theorem stack_bound_refuted :
  ~ exists bound, forall (d : Resolver.db ZNum) fuel name, snd (resolve_node_d ZNum fuel (d, []) name) <= bound.
Proof.
  intros (bound & H). destruct (nesting_unbounded bound) as (d & fuel & name & _ & _ & Hs).
  specialize (H d fuel name). lia.
Qed.

(** * 3. Where it is safe *)

Section Safe.
  Context (NM : Num).
  Notation elements := (elements NM).
  Notation db := (Resolver.db NM).

  (** ** nesting never exceeds the fuel (= depth limit minus level) *)
  Theorem nesting_le_limit : forall fuel (st : db * memo) name, snd (resolve_node_d NM fuel st name) <= fuel.
  Proof. intros fuel st name. pose proof (resolve_node_depth_bounded NM fuel st name). lia. Qed.

  (** ** nesting never exceeds the length of the longest chain of references *)
  Section Longest.
    Variable B : db.
    Notation reach := (reach NM B).
    Notation Inv := (Inv NM B).
    Notation Stack := (Stack NM B).

    Lemma loop_nesting_le_chain : forall f,
      (forall st r n, Inv st -> Stack st r -> ~ reach (S n) r -> snd (resolve_node_d NM f st r) <= n) ->
      forall els st nel h depth bound,
        Inv st -> (forall e v, In (e, v) els -> Stack st e) ->
        (forall e v, In (e, v) els -> exists n, S n <= bound /\ ~ reach (S n) e) ->
        depth <= bound ->
        snd (ingredients_loop_d NM (resolve_node_d NM f) els st nel h depth) <= bound.
    Proof.
      intros f IHf. induction els as [|[e v] rest IH]; intros st nel h depth bound HI HS Hch Hd; cbn [ingredients_loop_d].
      - exact Hd.
      - pose proof (rn_correct NM B f st e HI (HS e v (or_introl eq_refl))) as HP.
        rewrite <- resolve_node_d_fst in HP.
        destruct (Hch e v (or_introl eq_refl)) as (n & Hn & Hnr).
        pose proof (IHf st e n HI (HS e v (or_introl eq_refl)) Hnr) as Hk.
        destruct (resolve_node_d NM f st e) as [[[h1 st1]|] k]; cbn [fst snd Post] in *.
        + destruct HP as (_ & HI1 & HIP1 & _).
          apply IH.
          * exact HI1.
          * intros e' v' Hin p Hp. apply HIP1 in Hp. eapply HS; [right; exact Hin|exact Hp].
          * intros e' v' Hin. apply (Hch e' v'). right. exact Hin.
          * lia.
        + lia.
    Qed.

    Lemma node_nesting_le_chain : forall f st r n,
      Inv st -> Stack st r -> ~ reach (S n) r -> snd (resolve_node_d NM f st r) <= n.
    Proof.
      induction f as [|f IHf]; intros [d m] r n HI HS Hnr; cbn [resolve_node_d fst snd]; [lia|].
      destruct (lookup r d) as [els|] eqn:Hd; [|cbn [snd]; lia].
      destruct (lookup r m) as [[|h]|] eqn:Hm; try (cbn [snd]; lia).
      assert (HB : lookup r B = Some els).
      { rewrite <- Hd. symmetry. apply (Inv_notdone NM B (d, m) r HI). cbn [snd]. intros h. congruence. }
      set (st1 := (d, set r InProgress m) : db * memo).
      assert (HI1 : Inv st1).
      { destruct HI as [Hk Hi]. split; [exact Hk|]. intros p. cbn [fst snd st1].
        rewrite lookup_set. destruct (ResolverAssoc.beq_spec r p) as [E|E].
        - subst p. exact (eq_trans Hd (eq_sym HB)).
        - apply Hi. }
      assert (HS1 : forall e v, In (e, v) els -> Stack st1 e).
      { intros e v Hin p. cbn [snd st1]. rewrite lookup_set. destruct (ResolverAssoc.beq_spec r p) as [E|E]; intros Hp.
        - subst p. eapply refs_one; eassumption.
        - eapply refs_trans; [apply HS; exact Hp|]. eapply refs_one; eassumption. }
      assert (Hch : forall e v, In (e, v) els -> exists n', S n' <= n /\ ~ reach (S n') e).
      { intros e v Hin. destruct n as [|n'].
        - exfalso. apply Hnr. eapply reach_step; [exact HB|exact Hin|exact I].
        - exists n'. split; [lia|]. intros Hr. apply Hnr. eapply reach_step; eassumption. }
      pose proof (loop_nesting_le_chain f IHf els st1 [] 0 0 n HI1 HS1 Hch ltac:(lia)) as HL.
      destruct (ingredients_loop_d NM (resolve_node_d NM f) els st1 [] 0 0) as [[[[height [d' m']] nel]|] k];
        cbn [snd] in *; exact HL.
    Qed.

    (** for EVERY fuel (also the "unlimited" [--maxdepth 1000000000]): if no chain of
        [S n] references starts at [name] (which excludes a cycle below [name]),
        the calls nest at most [n] deep *)
    Theorem nesting_le_longest_chain : forall fuel name n,
      ~ reach (S n) name -> snd (resolve_node_d NM fuel (B, []) name) <= n.
    Proof.
      intros fuel name n H. apply node_nesting_le_chain; [apply Inv_init|apply NoIP_Stack; apply NoIP_init|exact H].
    Qed.
  End Longest.

  (** ** nesting never exceeds the number of recipes -- for EVERY book, cyclic or not

      Every level of nesting puts an in-progress mark on a recipe that had no
      mark, and marks never disappear; so the calls below a call nest at most as
      deep as there are unmarked recipes. *)
  Definition Ext (st st' : db * memo) : Prop :=
    (forall p, lookup p (fst st') <> None -> lookup p (fst st) <> None) /\
    (forall p, lookup p (snd st) <> None -> lookup p (snd st') <> None).

  Lemma Ext_refl : forall st, Ext st st.
  Proof. intros st. split; intros p H; exact H. Qed.

  Lemma Ext_trans : forall a c e, Ext a c -> Ext c e -> Ext a e.
  Proof. intros a c e [H1 H2] [H3 H4]. split; intros p H; [apply H1, H3, H|apply H4, H2, H]. Qed.

  Lemma loop_ext : forall (rec : db * memo -> bytes -> option (nat * (db * memo))),
    (forall st e h st', rec st e = Some (h, st') -> Ext st st') ->
    forall els st nel h0 h st' nel',
      ingredients_loop NM rec els st nel h0 = Some (h, st', nel') -> Ext st st'.
  Proof.
    intros rec Hrec. induction els as [|[e v] rest IH]; intros st nel h0 h st' nel' H; cbn [ingredients_loop] in H.
    - inversion H; subst. apply Ext_refl.
    - destruct (rec st e) as [[h1 st1]|] eqn:Er; [|discriminate].
      eapply Ext_trans; [eapply Hrec; exact Er|eapply IH; exact H].
  Qed.

  Lemma node_ext : forall f st r h st', resolve_node NM f st r = Some (h, st') -> Ext st st'.
  Proof.
    induction f as [|f IHf]; intros [d m] r h st' H; cbn [resolve_node fst snd] in H; [discriminate|].
    destruct (lookup r d) as [els|] eqn:Hd; [|inversion H; subst; apply Ext_refl].
    destruct (lookup r m) as [[|h1]|] eqn:Hm; [discriminate| |].
    - destruct (Nat.leb (S f) h1); [discriminate|]. inversion H; subst. apply Ext_refl.
    - destruct (ingredients_loop NM (resolve_node NM f) els (d, set r InProgress m) [] 0)
        as [[[height [d' m']] nel]|] eqn:El; [|discriminate].
      inversion H; subst h st'. clear H.
      destruct (loop_ext (resolve_node NM f) (fun st e h st' => IHf st e h st') _ _ _ _ _ _ _ El) as [H1 H2].
      cbn [fst snd] in H1, H2. split; cbn [fst snd]; intros p Hp.
      + rewrite lookup_set in Hp. destruct (ResolverAssoc.beq_spec r p) as [E|E]; [subst p; congruence|].
        apply H1. exact Hp.
      + rewrite lookup_set. destruct (beq r p); [discriminate|]. apply H2.
        rewrite lookup_set. destruct (beq r p); [discriminate|exact Hp].
  Qed.

  (** [free] lists (at least) the recipes of the state that carry no mark *)
  Definition Cover (st : db * memo) (free : list bytes) : Prop :=
    forall p, lookup p (fst st) <> None -> lookup p (snd st) = None -> In p free.

  Lemma Cover_ext : forall st st' free, Ext st st' -> Cover st free -> Cover st' free.
  Proof.
    intros st st' free [H1 H2] Hc p Hd Hm. apply Hc; [apply H1; exact Hd|].
    destruct (lookup p (snd st)) eqn:E; [|reflexivity]. exfalso. apply (H2 p); [congruence|exact Hm].
  Qed.

  Lemma loop_nesting_le_free : forall f,
    (forall st r free, Cover st free -> snd (resolve_node_d NM f st r) <= length free) ->
    forall els st nel h depth free,
      Cover st free -> depth <= S (length free) ->
      snd (ingredients_loop_d NM (resolve_node_d NM f) els st nel h depth) <= S (length free).
  Proof.
    intros f IHf. induction els as [|[e v] rest IH]; intros st nel h depth free Hc Hd; cbn [ingredients_loop_d].
    - exact Hd.
    - pose proof (IHf st e free Hc) as Hk. pose proof (node_ext f st e) as Hx.
      rewrite <- resolve_node_d_fst in Hx.
      destruct (resolve_node_d NM f st e) as [[[h1 st1]|] k]; cbn [fst snd] in *.
      + apply IH; [|lia]. eapply Cover_ext; [apply (Hx h1 st1); reflexivity|exact Hc].
      + lia.
  Qed.

  Lemma node_nesting_le_free : forall f st r free,
    Cover st free -> snd (resolve_node_d NM f st r) <= length free.
  Proof.
    induction f as [|f IHf]; intros [d m] r free Hc; cbn [resolve_node_d fst snd]; [lia|].
    destruct (lookup r d) as [els|] eqn:Hd; [|cbn [snd]; lia].
    destruct (lookup r m) as [[|h]|] eqn:Hm; try (cbn [snd]; lia).
    assert (Hin : In r free). { apply Hc; cbn [fst snd]; [congruence|exact Hm]. }
    pose proof (remove_length_lt bytes_eq_dec free r Hin) as Hlt.
    assert (Hc1 : Cover (d, set r InProgress m) (remove bytes_eq_dec r free)).
    { intros p Hpd Hpm. cbn [fst snd] in Hpd, Hpm. rewrite lookup_set in Hpm.
      destruct (ResolverAssoc.beq_spec r p) as [E|E]; [discriminate|].
      apply in_in_remove; [congruence|]. apply Hc; assumption. }
    pose proof (loop_nesting_le_free f IHf els (d, set r InProgress m) [] 0 0 _ Hc1 ltac:(lia)) as HL.
    destruct (ingredients_loop_d NM (resolve_node_d NM f) els (d, set r InProgress m) [] 0 0)
      as [[[[height [d' m']] nel]|] k]; cbn [snd] in *; lia.
  Qed.

  Lemma Cover_init : forall B : db, Cover (B, []) (keys B).
  Proof.
    intros B p Hd _. cbn [fst] in Hd. destruct (lookup p B) as [els|] eqn:E; [|congruence].
    eapply lookup_some_in_keys. exact E.
  Qed.

  (** for every book (no acyclicity, no uniqueness of keys), every fuel, every name *)
  Theorem nesting_le_recipes : forall (B : db) fuel name,
    snd (resolve_node_d NM fuel (B, []) name) <= length (keys B).
  Proof. intros B fuel name. apply node_nesting_le_free. apply Cover_init. Qed.

  (** ** the whole of [Resolve]: the loop over the recipe names *)

  (** instrumented copy of [Resolver.resolve_all]: also the deepest nesting of any of its calls *)
  Fixpoint resolve_all_d (maxdepth : nat) (order : list bytes) (st : db * memo) : option (db * memo) * nat :=
    match order with
    | [] => (Some st, 0)
    | name :: rest =>
        match resolve_node_d NM maxdepth st name with
        | (None, k) => (None, k)
        | (Some (_, st'), k) =>
            (fst (resolve_all_d maxdepth rest st'), Nat.max k (snd (resolve_all_d maxdepth rest st')))
        end
    end.

  Definition resolve_d (maxdepth : nat) (perm : list bytes -> list bytes) (d : db) : option db * nat :=
    (option_map fst (fst (resolve_all_d maxdepth (perm (keys d)) (d, []))),
     snd (resolve_all_d maxdepth (perm (keys d)) (d, []))).

  Lemma resolve_all_d_fst : forall maxdepth order st,
    fst (resolve_all_d maxdepth order st) = resolve_all NM maxdepth order st.
  Proof.
    intros maxdepth. induction order as [|name rest IH]; intros st; cbn [resolve_all_d resolve_all]; [reflexivity|].
    rewrite <- resolve_node_d_fst.
    destruct (resolve_node_d NM maxdepth st name) as [[[h st']|] k]; cbn [fst]; [apply IH|reflexivity].
  Qed.

  Lemma resolve_d_fst : forall maxdepth perm d, fst (resolve_d maxdepth perm d) = resolve NM maxdepth perm d.
  Proof. intros maxdepth perm d. unfold resolve_d, resolve. cbn [fst]. rewrite resolve_all_d_fst. reflexivity. Qed.

  Lemma resolve_all_d_le_limit : forall maxdepth order st, snd (resolve_all_d maxdepth order st) <= maxdepth.
  Proof.
    intros maxdepth. induction order as [|name rest IH]; intros st; cbn [resolve_all_d]; [cbn [snd]; lia|].
    pose proof (nesting_le_limit maxdepth st name) as Hk.
    destruct (resolve_node_d NM maxdepth st name) as [[[h st']|] k]; cbn [snd] in *; [|exact Hk].
    specialize (IH st'). lia.
  Qed.

  Theorem resolve_nesting_le_limit : forall maxdepth perm d, snd (resolve_d maxdepth perm d) <= maxdepth.
  Proof. intros maxdepth perm d. unfold resolve_d. cbn [snd]. apply resolve_all_d_le_limit. Qed.

  Lemma resolve_all_d_le_chain : forall B maxdepth n order st,
    Inv NM B st -> NoIP NM st -> (forall r, In r order -> ~ reach NM B (S n) r) ->
    snd (resolve_all_d maxdepth order st) <= n.
  Proof.
    intros B maxdepth n. induction order as [|name rest IH]; intros st HI HN Hch; cbn [resolve_all_d]; [cbn [snd]; lia|].
    pose proof (rn_correct NM B maxdepth st name HI (NoIP_Stack NM B st name HN)) as HP.
    rewrite <- resolve_node_d_fst in HP.
    pose proof (node_nesting_le_chain B maxdepth st name n HI (NoIP_Stack NM B st name HN) (Hch name (or_introl eq_refl))) as Hk.
    destruct (resolve_node_d NM maxdepth st name) as [[[h st']|] k]; cbn [fst snd Post] in *; [|exact Hk].
    destruct HP as (_ & HI1 & HIP1 & _).
    assert (HN1 : NoIP NM st'). { intros p Hp. apply HIP1 in Hp. eapply HN. exact Hp. }
    specialize (IH st' HI1 HN1 (fun r Hin => Hch r (or_intror Hin))). lia.
  Qed.

  (** whatever the limit and whatever the order of map iteration: a book none of
      whose recipes starts a chain of [S n] references is resolved with nesting <= n *)
  Theorem resolve_nesting_le_longest_chain : forall (B : db) maxdepth perm n,
    Permutation (perm (keys B)) (keys B) -> depth_lt NM B (S n) ->
    snd (resolve_d maxdepth perm B) <= n.
  Proof.
    intros B maxdepth perm n Hp Hd. unfold resolve_d. cbn [snd].
    apply (resolve_all_d_le_chain B); [apply Inv_init|apply NoIP_init|].
    intros r Hin. apply Hd. eapply Permutation_in; eassumption.
  Qed.

  Lemma resolve_all_d_le_free : forall maxdepth order st free,
    Cover st free -> snd (resolve_all_d maxdepth order st) <= length free.
  Proof.
    intros maxdepth. induction order as [|name rest IH]; intros st free Hc; cbn [resolve_all_d]; [cbn [snd]; lia|].
    pose proof (node_nesting_le_free maxdepth st name free Hc) as Hk.
    pose proof (node_ext maxdepth st name) as Hx. rewrite <- resolve_node_d_fst in Hx.
    destruct (resolve_node_d NM maxdepth st name) as [[[h st']|] k]; cbn [fst snd] in *; [|exact Hk].
    assert (Hc' : Cover st' free) by (eapply Cover_ext; [apply (Hx h st'); reflexivity|exact Hc]).
    specialize (IH st' free Hc'). lia.
  Qed.

  (** whatever the limit, the order of map iteration and the book (cyclic or not):
      nesting <= number of recipes *)
  Theorem resolve_nesting_le_recipes : forall (B : db) maxdepth perm,
    snd (resolve_d maxdepth perm B) <= length (keys B).
  Proof. intros B maxdepth perm. unfold resolve_d. cbn [snd]. apply resolve_all_d_le_free. apply Cover_init. Qed.

  (** ** lifted to the command line *)

  (** instrumented copy of [Cli.resolved_db] (the only place where the program
      calls the resolver: [run_db_log], [run_element_total], [run_csv_db_resolved]) *)
  Definition resolved_db_d (w : world) (op : options) (o : opened) : (cerr + db) * nat :=
    match load_db NM o with
    | (_, Some e) => (inl e, 0)
    | (d, None) =>
        match resolve_d (Z.to_nat (op_depth op)) (o_resolve (w_or w)) d with
        | (None, k) => (inl EMaxDepth, k)
        | (Some d', k) => (inr d', k)
        end
    end.

  Lemma resolved_db_d_fst : forall w op o, fst (resolved_db_d w op o) = resolved_db NM w op o.
  Proof.
    intros w op o. unfold resolved_db_d, resolved_db. destruct (load_db NM o) as [d [e|]]; [reflexivity|].
    rewrite <- resolve_d_fst.
    destruct (resolve_d (Z.to_nat (op_depth op)) (o_resolve (w_or w)) d) as [[d'|] k]; reflexivity.
  Qed.

  (** every nested resolver call the program makes is at most as deep as the effective depth limit *)
  Theorem resolved_db_nesting_le_limit : forall w op o,
    snd (resolved_db_d w op o) <= Z.to_nat (op_depth op).
  Proof.
    intros w op o. unfold resolved_db_d. destruct (load_db NM o) as [d [e|]]; [cbn [snd]; lia|].
    pose proof (resolve_nesting_le_limit (Z.to_nat (op_depth op)) (o_resolve (w_or w)) d) as H.
    destruct (resolve_d (Z.to_nat (op_depth op)) (o_resolve (w_or w)) d) as [[d'|] k]; cbn [snd] in *; exact H.
  Qed.

  (** ... and, whatever the limit, at most as deep as the longest chain of the book *)
  Theorem resolved_db_nesting_le_longest_chain : forall w op o d n,
    load_db NM o = (d, None) -> order_oracle (o_resolve (w_or w)) -> depth_lt NM d (S n) ->
    snd (resolved_db_d w op o) <= n.
  Proof.
    intros w op o d n Hl Ho Hd. unfold resolved_db_d. rewrite Hl.
    pose proof (resolve_nesting_le_longest_chain d (Z.to_nat (op_depth op)) (o_resolve (w_or w)) n (Ho (keys d)) Hd) as H.
    destruct (resolve_d (Z.to_nat (op_depth op)) (o_resolve (w_or w)) d) as [[d'|] k]; cbn [snd] in *; exact H.
  Qed.
  (** ... and at most as deep as the book has recipes, whatever the limit and whatever the book *)
  Theorem resolved_db_nesting_le_recipes : forall w op o,
    snd (resolved_db_d w op o) <= length (keys (fst (load_db NM o))).
  Proof.
    intros w op o. unfold resolved_db_d. destruct (load_db NM o) as [d [e|]]; cbn [fst]; [cbn [snd]; lia|].
    pose proof (resolve_nesting_le_recipes d (Z.to_nat (op_depth op)) (o_resolve (w_or w))) as H.
    destruct (resolve_d (Z.to_nat (op_depth op)) (o_resolve (w_or w)) d) as [[d'|] k]; cbn [snd] in *; exact H.
  Qed.
End Safe.

(** the limit given on the command line bounds the nesting ... *)
Theorem flag_limit_nesting : forall NM w i op z o,
  load w i = inr op -> i_f_depth i = Some z ->
  snd (resolved_db_d NM w op o) <= Z.to_nat z.
Proof.
  intros NM w i op z o Hl Hf. pose proof (resolved_db_nesting_le_limit NM w op o) as H.
  destruct (effective_depth w i op Hl) as (cfg & _ & Hd). rewrite Hd, Hf in H. exact H.
Qed.

(** ... and with the DEFAULT limit (no [--maxdepth], no HR_MAXDEPTH, no non-zero
    MaxDepth in the configuration file) nesting is at most 10, whatever the files hold *)
Theorem default_limit_nesting_le_10 : forall NM w i op o,
  load w i = inr op ->
  i_f_depth i = None -> i_e_depth i = None ->
  (forall cfg, load_config w i = inr cfg -> ce_depth cfg = None \/ ce_depth cfg = Some 0%Z) ->
  snd (resolved_db_d NM w op o) <= 10.
Proof.
  intros NM w i op o Hl Hf He Hc. pose proof (resolved_db_nesting_le_limit NM w op o) as H.
  destruct (effective_depth w i op Hl) as (cfg & Hcfg & Hd). rewrite Hd, Hf, He in H.
  destruct (Hc cfg Hcfg) as [E|E]; rewrite E in H; exact H.
Qed.

(** * 2'. KF1 for the whole [Resolve] loop: with the iteration order that
      delivers [r0] first the nesting of [resolve_d] exceeds any bound, too *)
Lemma resolve_all_d_first : forall NM maxdepth name rest (st : Resolver.db NM * memo),
  fst (resolve_node_d NM maxdepth st name) <> None ->
  snd (resolve_node_d NM maxdepth st name) <= snd (resolve_all_d NM maxdepth (name :: rest) st).
Proof.
  intros NM maxdepth name rest st H. cbn [resolve_all_d].
  destruct (resolve_node_d NM maxdepth st name) as [[[h st']|] k]; cbn [fst snd] in *; [lia|congruence].
Qed.

Theorem resolve_nesting_unbounded : forall (NM : Num) bound, exists (d : Resolver.db NM) maxdepth perm,
  acyclic NM d /\ NoDup (keys d) /\ order_oracle perm /\
  fst (resolve_d NM maxdepth perm d) <> None /\
  bound < snd (resolve_d NM maxdepth perm d).
Proof.
  intros NM bound. exists (chain_book NM (S bound)), (S (S bound)), (fun l => l).
  split; [exact (chain_book_acyclic NM (S bound))|]. split; [apply chain_book_nodup|].
  split; [intros l; apply Permutation_refl|]. split.
  - rewrite resolve_d_fst. rewrite (acyclic_resolves NM (chain_book NM (S bound)) (S (S bound)) (fun l => l)).
    + discriminate.
    + apply chain_book_nodup.
    + apply Permutation_refl.
    + exact (chain_book_acyclic NM (S bound)).
    + rewrite length_chain_book. lia.
  - unfold resolve_d. cbn [snd]. rewrite keys_chain_book. cbn [seq map].
    destruct (chain_nesting NM (S bound) (S (S bound)) ltac:(lia)) as (Hs & res & Hr).
    pose proof (resolve_all_d_first NM (S (S bound)) (cname 0) (map cname (seq 1 bound)) (chain_book NM (S bound), [])) as H.
    rewrite Hr, Hs in H. specialize (H ltac:(discriminate)). lia.
Qed.
