(** C15, shortening: without [--shorten] names are printed as they are; with it a
    name longer than the column keeps a prefix and a suffix of its runes around
    one ellipsis and is exactly as wide as the column.  UTF-8: re-decoding an
    encoded rune list gives back as many runes (for every rune list). *)
From Coq Require Import Lia ZifyBool ZifyNat ZifyN.
From HP Require Import Base.Bytes Base.Utf8 Base.Num Model.Elements Model.Dates Model.Tree Model.Writer
  Model.Reporters Spec.PresentationSpec.
Local Open Scope N_scope.

(** *** 4. the shortening rule *)
Theorem shorten_off_identity : forall (s : bytes) (n : nat), shorten false s n = s.
Proof. reflexivity. Qed.

Theorem shorten_on : forall (s : bytes) (n : nat), shorten true s n = truncate_middle s n.
Proof. reflexivity. Qed.

Lemma keep_front_bounds : forall slen w, (3 <= w)%nat ->
  (1 <= keep_front slen w)%nat /\ (keep_front slen w <= w - 1)%nat
  /\ (w - 2 <= 2 * keep_front slen w)%nat /\ (2 * keep_front slen w <= w)%nat.
Proof.
  intros slen w Hw. unfold keep_front. destruct (Nat.even slen); lia.
Qed.

Theorem shorten_spec : forall (s : bytes) (w : nat),
  let r := rune_values s in
  let slen := length r in
  ((slen <= w)%nat -> truncate_middle s w = s)
  /\ ((3 <= w)%nat -> (w < slen)%nat ->
      let a := keep_front slen w in
      let k := (slen - w + 1 + a)%nat in
      truncate_middle s w = encode_runes (firstn a r ++ [ellipsis] ++ skipn k r)
      /\ (a + 1 + (slen - k) = w)%nat
      /\ (a < k)%nat /\ (k <= slen)%nat
      /\ length (firstn a r ++ [ellipsis] ++ skipn k r) = w)
  /\ ((w < 3)%nat -> (w < slen)%nat ->
      truncate_middle s w = encode_runes (firstn w r) /\ length (firstn w r) = w).
Proof.
  intros s w r slen. repeat split.
  - intros H. unfold truncate_middle. fold r. fold slen.
    destruct (Nat.leb_spec slen w) as [_|H']; [reflexivity|lia].
  - unfold truncate_middle. fold r. fold slen.
    destruct (Nat.leb_spec slen w) as [H'|_]; [lia|].
    destruct (Nat.ltb_spec w 3) as [H'|_]; [lia|]. reflexivity.
  - destruct (keep_front_bounds slen w H) as (B1 & B2 & B3 & B4). lia.
  - destruct (keep_front_bounds slen w H) as (B1 & B2 & B3 & B4). lia.
  - destruct (keep_front_bounds slen w H) as (B1 & B2 & B3 & B4). lia.
  - destruct (keep_front_bounds slen w H) as (B1 & B2 & B3 & B4).
    rewrite !app_length, firstn_length, skipn_length. fold slen. cbn [length]. lia.
  - unfold truncate_middle. fold r. fold slen.
    destruct (Nat.leb_spec slen w) as [H'|_]; [lia|].
    destruct (Nat.ltb_spec w 3) as [_|H']; [reflexivity|lia].
  - rewrite firstn_length. fold slen. lia.
Qed.

(** the kept pieces are a prefix and a suffix of the original runes *)
Lemma firstn_is_prefix : forall {A} (n : nat) (l : list A), exists t, l = firstn n l ++ t.
Proof. intros A n l. exists (skipn n l). symmetry. apply firstn_skipn. Qed.

Lemma skipn_is_suffix : forall {A} (n : nat) (l : list A), exists h, l = h ++ skipn n l.
Proof. intros A n l. exists (firstn n l). symmetry. apply firstn_skipn. Qed.

(** *** UTF-8: decoding what [encode_rune] wrote *)

(** what an arbitrary number is encoded as: itself when it is a Unicode scalar value, else U+FFFD *)
Definition norm_rune (x : N) : N :=
  if (x <? 55296) || ((57343 <? x) && (x <? 1114112)) then x else rune_error.

Ltac split_cmp :=
  repeat match goal with
         | |- context [N.ltb ?a ?c] => destruct (N.ltb_spec a c)
         | |- context [N.leb ?a ?c] => destruct (N.leb_spec a c)
         | |- context [N.eqb ?a ?c] => destruct (N.eqb_spec a c)
         end.

Lemma decode_encode_1 : forall x rest, x < 128 -> decode_rune (encode_rune x ++ rest) = Some (x, rest).
Proof.
  intros x rest H. unfold encode_rune.
  destruct (N.ltb_spec x 128) as [_|H']; [|lia].
  cbn [app]. unfold decode_rune. destruct (N.ltb_spec x 128) as [_|H']; [reflexivity|lia].
Qed.

Lemma decode_encode_2 : forall x rest, 128 <= x < 2048 -> decode_rune (encode_rune x ++ rest) = Some (x, rest).
Proof.
  intros x rest H. unfold encode_rune.
  destruct (N.ltb_spec x 128) as [H'|_]; [lia|].
  destruct (N.ltb_spec x 2048) as [_|H']; [|lia].
  cbn [app]. unfold decode_rune, is_cont.
  set (c0 := 192 + x / 64). set (c1 := 128 + x mod 64).
  assert (H0 : 194 <= c0 <= 223) by (subst c0; lia).
  assert (H1 : 128 <= c1 <= 191) by (subst c1; lia).
  assert (Hv : (c0 - 192) * 64 + (c1 - 128) = x) by (subst c0 c1; lia).
  destruct (N.ltb_spec c0 128) as [H'|_]; [lia|].
  destruct (N.leb_spec 194 c0) as [_|H']; [|lia].
  destruct (N.leb_spec c0 223) as [_|H']; [|lia].
  destruct (N.leb_spec 128 c1) as [_|H']; [|lia].
  destruct (N.leb_spec c1 191) as [_|H']; [|lia].
  cbn [andb]. rewrite Hv. reflexivity.
Qed.

Lemma decode_encode_3 : forall x rest, 2048 <= x < 65536 -> ~ (55296 <= x <= 57343) ->
  decode_rune (encode_rune x ++ rest) = Some (x, rest).
Proof.
  intros x rest H Hs. unfold encode_rune.
  destruct (N.ltb_spec x 128) as [H'|_]; [lia|].
  destruct (N.ltb_spec x 2048) as [H'|_]; [lia|].
  assert (Hsur : (55296 <=? x) && (x <=? 57343) = false).
  { destruct (N.leb_spec 55296 x) as [Ha|Ha]; destruct (N.leb_spec x 57343) as [Hb|Hb]; cbn; try reflexivity. lia. }
  rewrite Hsur.
  destruct (N.ltb_spec x 65536) as [_|H']; [|lia].
  cbn [app]. unfold decode_rune, is_cont.
  set (c0 := 224 + x / 4096). set (c1 := 128 + (x / 64) mod 64). set (c2 := 128 + x mod 64).
  assert (H0 : 224 <= c0 <= 239) by (subst c0; lia).
  assert (H1 : 128 <= c1 <= 191) by (subst c1; lia).
  assert (H2 : 128 <= c2 <= 191) by (subst c2; lia).
  assert (Hlo : c0 = 224 -> 160 <= c1) by (subst c0 c1; lia).
  assert (Hhi : c0 = 237 -> c1 <= 159) by (subst c0 c1; lia).
  assert (Hv : (c0 - 224) * 4096 + (c1 - 128) * 64 + (c2 - 128) = x) by (subst c0 c1 c2; lia).
  destruct (N.ltb_spec c0 128) as [H'|_]; [lia|].
  destruct (N.leb_spec 194 c0) as [_|H']; [|lia].
  destruct (N.leb_spec c0 223) as [H'|_]; [lia|].
  destruct (N.leb_spec 224 c0) as [_|H']; [|lia].
  destruct (N.leb_spec c0 239) as [_|H']; [|lia].
  cbn [andb].
  assert (Hc : ((if c0 =? 224 then 160 else 128) <=? c1) && (c1 <=? (if c0 =? 237 then 159 else 191))
               && ((128 <=? c2) && (c2 <=? 191)) = true).
  { destruct (N.eqb_spec c0 224) as [E1|E1]; destruct (N.eqb_spec c0 237) as [E2|E2];
      repeat (apply andb_true_intro; split); apply N.leb_le; lia. }
  rewrite Hc, Hv. reflexivity.
Qed.

Lemma decode_encode_4 : forall x rest, 65536 <= x < 1114112 ->
  decode_rune (encode_rune x ++ rest) = Some (x, rest).
Proof.
  intros x rest H. unfold encode_rune.
  destruct (N.ltb_spec x 128) as [H'|_]; [lia|].
  destruct (N.ltb_spec x 2048) as [H'|_]; [lia|].
  assert (Hsur : (55296 <=? x) && (x <=? 57343) = false).
  { destruct (N.leb_spec 55296 x) as [Ha|Ha]; destruct (N.leb_spec x 57343) as [Hb|Hb]; cbn; try reflexivity. lia. }
  rewrite Hsur.
  destruct (N.ltb_spec x 65536) as [H'|_]; [lia|].
  destruct (N.ltb_spec x 1114112) as [_|H']; [|lia].
  cbn [app]. unfold decode_rune, is_cont.
  set (c0 := 240 + x / 262144). set (c1 := 128 + (x / 4096) mod 64).
  set (c2 := 128 + (x / 64) mod 64). set (c3 := 128 + x mod 64).
  assert (H0 : 240 <= c0 <= 244) by (subst c0; lia).
  assert (H1 : 128 <= c1 <= 191) by (subst c1; lia).
  assert (H2 : 128 <= c2 <= 191) by (subst c2; lia).
  assert (H3 : 128 <= c3 <= 191) by (subst c3; lia).
  assert (Hlo : c0 = 240 -> 144 <= c1) by (subst c0 c1; lia).
  assert (Hhi : c0 = 244 -> c1 <= 143) by (subst c0 c1; lia).
  assert (Hv : (c0 - 240) * 262144 + (c1 - 128) * 4096 + (c2 - 128) * 64 + (c3 - 128) = x)
    by (subst c0 c1 c2 c3; lia).
  destruct (N.ltb_spec c0 128) as [H'|_]; [lia|].
  destruct (N.leb_spec 194 c0) as [_|H']; [|lia].
  destruct (N.leb_spec c0 223) as [H'|_]; [lia|].
  destruct (N.leb_spec 224 c0) as [_|H']; [|lia].
  destruct (N.leb_spec c0 239) as [H'|_]; [lia|].
  destruct (N.leb_spec 240 c0) as [_|H']; [|lia].
  destruct (N.leb_spec c0 244) as [_|H']; [|lia].
  cbn [andb].
  assert (Hc : ((if c0 =? 240 then 144 else 128) <=? c1) && (c1 <=? (if c0 =? 244 then 143 else 191))
               && ((128 <=? c2) && (c2 <=? 191)) && ((128 <=? c3) && (c3 <=? 191)) = true).
  { destruct (N.eqb_spec c0 240) as [E1|E1]; destruct (N.eqb_spec c0 244) as [E2|E2];
      repeat (apply andb_true_intro; split); apply N.leb_le; lia. }
  rewrite Hc, Hv. reflexivity.
Qed.

Lemma decode_replacement : forall rest, decode_rune ([239; 191; 189] ++ rest) = Some (rune_error, rest).
Proof. intros rest. reflexivity. Qed.

(** the round trip: every number, valid or not *)
Theorem decode_encode_rune : forall x rest,
  decode_rune (encode_rune x ++ rest) = Some (norm_rune x, rest).
Proof.
  intros x rest. unfold norm_rune.
  destruct (N.ltb_spec x 55296) as [A|A]; cbn [orb].
  - destruct (N.lt_ge_cases x 128) as [B|B]; [apply decode_encode_1; exact B|].
    destruct (N.lt_ge_cases x 2048) as [C|C]; [apply decode_encode_2; lia|].
    apply decode_encode_3; lia.
  - destruct (N.ltb_spec 57343 x) as [B|B]; cbn [andb].
    + destruct (N.ltb_spec x 1114112) as [C|C].
      * destruct (N.lt_ge_cases x 65536) as [D|D]; [apply decode_encode_3; lia|apply decode_encode_4; lia].
      * unfold encode_rune.
        destruct (N.ltb_spec x 128) as [H'|_]; [lia|].
        destruct (N.ltb_spec x 2048) as [H'|_]; [lia|].
        destruct (N.leb_spec 55296 x) as [_|H']; [|lia].
        destruct (N.leb_spec x 57343) as [H'|_]; [lia|]. cbn [andb].
        destruct (N.ltb_spec x 65536) as [H'|_]; [lia|].
        destruct (N.ltb_spec x 1114112) as [H'|_]; [lia|].
        apply decode_replacement.
    + unfold encode_rune.
      destruct (N.ltb_spec x 128) as [H'|_]; [lia|].
      destruct (N.ltb_spec x 2048) as [H'|_]; [lia|].
      destruct (N.leb_spec 55296 x) as [_|H']; [|lia].
      destruct (N.leb_spec x 57343) as [_|H']; [|lia]. cbn [andb].
      apply decode_replacement.
Qed.

Corollary decode_encode_valid : forall x rest, x < 1114112 -> ~ (55296 <= x <= 57343) ->
  decode_rune (encode_rune x ++ rest) = Some (x, rest).
Proof.
  intros x rest H Hs. rewrite decode_encode_rune. unfold norm_rune.
  destruct (N.ltb_spec x 55296) as [A|A]; [reflexivity|].
  destruct (N.ltb_spec 57343 x) as [B|B]; [|lia].
  destruct (N.ltb_spec x 1114112) as [C|C]; [reflexivity|lia].
Qed.

(** *** [runes]: enough fuel is enough *)
Lemma decode_rune_shorter : forall s r rest, decode_rune s = Some (r, rest) -> (length rest < length s)%nat.
Proof.
  intros s r rest H. unfold decode_rune in H.
  destruct s as [|c0 r0]; [discriminate H|].
  repeat match type of H with
         | (if ?c then _ else _) = _ => destruct c
         | match ?l with [] => _ | _ :: _ => _ end = _ => destruct l
         end;
    injection H as _ <-; cbn [length]; lia.
Qed.

Lemma runes_fuel_enough : forall f1 f2 s, (length s <= f1)%nat -> (length s <= f2)%nat ->
  runes_fuel f1 s = runes_fuel f2 s.
Proof.
  induction f1 as [|f1 IH]; intros f2 s H1 H2.
  - destruct s; [|cbn in H1; lia]. destruct f2; reflexivity.
  - destruct s as [|c s'].
    + destruct f2; reflexivity.
    + destruct f2 as [|f2]; [cbn in H2; lia|].
      cbn [runes_fuel]. destruct (decode_rune (c :: s')) as [[r rest]|] eqn:E; [|reflexivity].
      apply decode_rune_shorter in E. f_equal. apply IH; lia.
Qed.

Lemma runes_fuel_decode : forall f s r rest, decode_rune s = Some (r, rest) -> (length s <= f)%nat ->
  runes_fuel f s = (r, firstn (length s - length rest) s) :: runes_fuel (length rest) rest.
Proof.
  intros f s r rest H Hf. pose proof (decode_rune_shorter s r rest H) as Hl.
  destruct f as [|f]; [lia|].
  cbn [runes_fuel]. rewrite H. f_equal. apply runes_fuel_enough; lia.
Qed.

Lemma runes_decode : forall s r rest, decode_rune s = Some (r, rest) ->
  runes s = (r, firstn (length s - length rest) s) :: runes rest.
Proof.
  intros s r rest H. unfold runes. apply runes_fuel_decode; [exact H|lia].
Qed.

Lemma runes_nil : runes [] = [].
Proof. reflexivity. Qed.

(** *** re-decoding an encoded rune list *)
Theorem rune_values_encode_runes : forall l, rune_values (encode_runes l) = map norm_rune l.
Proof.
  induction l as [|x l IH]; [reflexivity|].
  unfold rune_values, encode_runes in *. cbn [map concat].
  rewrite (runes_decode _ _ _ (decode_encode_rune x (concat (map encode_rune l)))).
  cbn [map fst]. rewrite IH. reflexivity.
Qed.

Theorem rune_count_encode_runes : forall l, rune_count (encode_runes l) = length l.
Proof.
  intros l. unfold rune_count. rewrite <- (map_length fst).
  change (map fst (runes (encode_runes l))) with (rune_values (encode_runes l)).
  rewrite rune_values_encode_runes, map_length. reflexivity.
Qed.

Lemma rune_count_values : forall s, rune_count s = length (rune_values s).
Proof. intros s. unfold rune_count, rune_values. rewrite map_length. reflexivity. Qed.

(** the shortened name fills the column exactly *)
Theorem truncate_middle_width : forall (s : bytes) (w : nat),
  rune_count (truncate_middle s w) = Nat.min (rune_count s) w.
Proof.
  intros s w. rewrite (rune_count_values s).
  destruct (shorten_spec s w) as (H1 & H2 & H3).
  destruct (Nat.le_gt_cases (length (rune_values s)) w) as [Hle|Hgt].
  - rewrite (H1 Hle), rune_count_values. lia.
  - destruct (Nat.le_gt_cases 3 w) as [H3w|Hw3].
    + destruct (H2 H3w Hgt) as (E & _ & _ & _ & Hlen). rewrite E, rune_count_encode_runes, Hlen. lia.
    + destruct (H3 Hw3 Hgt) as (E & Hlen). rewrite E, rune_count_encode_runes, Hlen. lia.
Qed.

Corollary shorten_width : forall (s : bytes) (w : nat), (3 <= w)%nat -> (w < rune_count s)%nat ->
  rune_count (shorten true s w) = w.
Proof. intros s w _ H. rewrite shorten_on, truncate_middle_width. lia. Qed.

(** a shortened name never needs more than the column, so the padding that
    aligns the numbers is never negative-clipped *)
Corollary shorten_fits : forall (s : bytes) (w : nat), (rune_count (shorten true s w) <= w)%nat.
Proof. intros s w. rewrite shorten_on, truncate_middle_width. lia. Qed.

(** *** what a reader decoding the shortened name sees *)
Definition valid_rune (x : N) : Prop := x < 55296 \/ (57343 < x /\ x < 1114112).

Lemma norm_rune_valid : forall x, valid_rune x -> norm_rune x = x.
Proof.
  intros x H. unfold norm_rune.
  destruct (N.ltb_spec x 55296) as [A|A]; [reflexivity|].
  destruct (N.ltb_spec 57343 x) as [B|B]; destruct (N.ltb_spec x 1114112) as [C|C]; cbn; try reflexivity;
    unfold valid_rune in H; lia.
Qed.

Lemma is_cont_bounds : forall c, is_cont c = true -> 128 <= c <= 191.
Proof.
  intros c H. unfold is_cont in H. apply andb_true_iff in H. destruct H as [A B].
  apply N.leb_le in A, B. lia.
Qed.

Lemma decode_rune_valid : forall s r rest, decode_rune s = Some (r, rest) -> valid_rune r.
Proof.
  intros s r rest H. unfold decode_rune in H. cbv zeta in H. destruct s as [|c0 r0]; [discriminate H|].
  unfold valid_rune.
  destruct (N.ltb_spec c0 128) as [L|L].
  { injection H as <- _. lia. }
  assert (Herr : forall t, Some (rune_error, r0) = Some (r, t) -> r < 55296 \/ (57343 < r /\ r < 1114112)).
  { intros t E. injection E as <- _. unfold rune_error. lia. }
  destruct ((194 <=? c0) && (c0 <=? 223)) eqn:E2.
  { apply andb_true_iff in E2. destruct E2 as [A B]. apply N.leb_le in A, B.
    destruct r0 as [|c1 r1]; [apply (Herr _ H)|].
    destruct (is_cont c1) eqn:C1; [|apply (Herr _ H)].
    apply is_cont_bounds in C1. injection H as <- _. lia. }
  destruct ((224 <=? c0) && (c0 <=? 239)) eqn:E3.
  { apply andb_true_iff in E3. destruct E3 as [A B]. apply N.leb_le in A, B.
    destruct r0 as [|c1 [|c2 r2]]; try apply (Herr _ H).
    destruct (((if c0 =? 224 then 160 else 128) <=? c1) && (c1 <=? (if c0 =? 237 then 159 else 191)) && is_cont c2)
      eqn:C; [|apply (Herr _ H)].
    apply andb_true_iff in C. destruct C as [C C2]. apply andb_true_iff in C. destruct C as [Clo Chi].
    apply N.leb_le in Clo, Chi. apply is_cont_bounds in C2.
    injection H as <- _.
    destruct (N.eqb_spec c0 224) as [E0|E0]; destruct (N.eqb_spec c0 237) as [E1|E1]; lia. }
  destruct ((240 <=? c0) && (c0 <=? 244)) eqn:E4.
  { apply andb_true_iff in E4. destruct E4 as [A B]. apply N.leb_le in A, B.
    destruct r0 as [|c1 [|c2 [|c3 r3]]]; try apply (Herr _ H).
    destruct (((if c0 =? 240 then 144 else 128) <=? c1) && (c1 <=? (if c0 =? 244 then 143 else 191))
              && is_cont c2 && is_cont c3) eqn:C; [|apply (Herr _ H)].
    apply andb_true_iff in C. destruct C as [C C3]. apply andb_true_iff in C. destruct C as [C C2].
    apply andb_true_iff in C. destruct C as [Clo Chi].
    apply N.leb_le in Clo, Chi. apply is_cont_bounds in C2. apply is_cont_bounds in C3.
    injection H as <- _.
    destruct (N.eqb_spec c0 240) as [E0|E0]; destruct (N.eqb_spec c0 244) as [E1|E1]; lia. }
  apply (Herr _ H).
Qed.

Lemma runes_fuel_valid : forall f s, Forall valid_rune (map fst (runes_fuel f s)).
Proof.
  induction f as [|f IH]; intros s; [constructor|].
  cbn [runes_fuel]. destruct (decode_rune s) as [[r rest]|] eqn:E; [|constructor].
  cbn [map fst]. constructor; [exact (decode_rune_valid s r rest E)|apply IH].
Qed.

Lemma rune_values_valid : forall s, Forall valid_rune (rune_values s).
Proof. intros s. unfold rune_values, runes. apply runes_fuel_valid. Qed.

Lemma map_norm_valid : forall l, Forall valid_rune l -> map norm_rune l = l.
Proof.
  intros l H. induction H as [|x l Hx _ IH]; [reflexivity|].
  cbn [map]. rewrite (norm_rune_valid x Hx), IH. reflexivity.
Qed.

Lemma Forall_firstn' : forall {A} (P : A -> Prop) n l, Forall P l -> Forall P (firstn n l).
Proof.
  intros A P n l H. rewrite Forall_forall in *. intros x I. apply H.
  rewrite <- (firstn_skipn n l). apply in_or_app. left. exact I.
Qed.

Lemma Forall_skipn' : forall {A} (P : A -> Prop) n l, Forall P l -> Forall P (skipn n l).
Proof.
  intros A P n l H. rewrite Forall_forall in *. intros x I. apply H.
  rewrite <- (firstn_skipn n l). apply in_or_app. right. exact I.
Qed.

(** decoding the shortened name gives back exactly: a prefix of the original
    runes, one ellipsis, a suffix of the original runes *)
Theorem shorten_runes : forall (s : bytes) (w : nat),
  let r := rune_values s in
  let slen := length r in
  (3 <= w)%nat -> (w < slen)%nat ->
  let a := keep_front slen w in
  let k := (slen - w + 1 + a)%nat in
  rune_values (shorten true s w) = firstn a r ++ [ellipsis] ++ skipn k r
  /\ (exists t, r = firstn a r ++ t) /\ (exists h, r = h ++ skipn k r).
Proof.
  intros s w r slen H3 Hw a k. split; [|split; [apply firstn_is_prefix|apply skipn_is_suffix]].
  rewrite shorten_on. destruct (shorten_spec s w) as (_ & H2 & _).
  destruct (H2 H3 Hw) as (E & _). fold r slen a k in E. rewrite E.
  rewrite rune_values_encode_runes. apply map_norm_valid.
  pose proof (rune_values_valid s) as Hv. fold r in Hv.
  apply Forall_app. split; [apply Forall_firstn'; exact Hv|].
  apply Forall_app. split; [|apply Forall_skipn'; exact Hv].
  constructor; [|constructor]. left. unfold ellipsis. lia.
Qed.

(** *** non-vacuity: a 30-rune name with a two-byte rune, shortened to 20 *)
Definition exsh_name : bytes := b "chicken soup with " ++ [195; 169] ++ b "gg noodles!".

Example exsh_len : rune_count exsh_name = 30%nat /\ length exsh_name = 31%nat.
Proof. vm_compute. split; reflexivity. Qed.

Example exsh_short :
  shorten true exsh_name 20 = b "chicken so" ++ [226; 128; 166] ++ b " noodles!"
  /\ rune_count (shorten true exsh_name 20) = 20%nat
  /\ keep_front 30 20 = 10%nat.
Proof. vm_compute. repeat split. Qed.

(** an odd rune count keeps one rune less in front; the two-byte rune survives in the tail *)
Example exsh_short_odd :
  shorten true (b "x" ++ exsh_name) 27
  = b "xchicken soup" ++ [226; 128; 166] ++ b " " ++ [195; 169] ++ b "gg noodles!"
  /\ keep_front 31 27 = 13%nat.
Proof. vm_compute. split; reflexivity. Qed.
