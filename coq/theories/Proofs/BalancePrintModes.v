(** WP09, part 3: the lists the decoder reads back in each mode ([child_nodes],
    [cl_child], [dj]) against the reference lists of Spec/TreeShared.v: leaves
    (with amounts under [chain_const], paths without it), sub-sequence of the
    node paths, forks kept; and: every node lies on the way to a leaf. *)
From Coq Require Import Lia ZifyBool ZifyNat ZifyN.
From HP Require Import Base.Bytes Base.Num Model.Elements Model.Tree
  Spec.TreeShared Spec.BalancePrintSpec Proofs.BalancePrintBase Proofs.BalancePrintDecode.

Section Modes.
  Context (NM : Num).
  Notation T := (T NM).
  Notation tree := (tree NM).
  Notation row := (row NM).
  Notation dec := (list bytes * T * bool)%type.

  Definition leaf_sel (d : dec) : list (list bytes * T) :=
    let '(p, x, lf) := d in if lf : bool then [(p, x)] else [].
  Definition dec_pa (d : dec) : list bytes * T := let '(p, x, _) := d in (p, x).
  Definition dpath (d : dec) : list bytes := fst (fst d).

  Lemma leaf_rows_eq rows : leaf_rows NM rows = flat_map leaf_sel (decode NM rows).
  Proof. reflexivity. Qed.

  Lemma row_paths_eq rows : row_paths NM rows = map dpath (decode NM rows).
  Proof. reflexivity. Qed.

  Lemma leaf_sel_path (l : list dec) p x : In (p, x) (flat_map leaf_sel l) -> In p (map dpath l).
  Proof.
    intros H. apply in_flat_map in H. destruct H as [[[q y] lf] [Hin Hsel]].
    destruct lf; cbn [leaf_sel In] in Hsel; [|contradiction].
    destruct Hsel as [E|[]]. inversion E; subst q y.
    apply in_map_iff. exists (p, x, true). split; [reflexivity|assumption].
  Qed.

  Lemma In_flat_map_Forall {A B} (f g : A -> list B) (l : list A) (y : B) :
    Forall (fun a => In y (f a) -> In y (g a)) l -> In y (flat_map f l) -> In y (flat_map g l).
  Proof.
    intros Hall H. apply in_flat_map in H. destruct H as [a [Ha Hy]].
    apply in_flat_map. exists a. split; [assumption|].
    rewrite Forall_forall in Hall. apply Hall; assumption.
  Qed.

  (** ** The reference lists of a child, one level unfolded *)
  Lemma child_paths_node pre n x ch :
    child_paths NM pre (Node n x ch) = (pre ++ [n], x) :: flat_map (child_paths NM (pre ++ [n])) ch.
  Proof. reflexivity. Qed.

  Lemma child_leaves_leaf pre n x : child_leaves NM pre (Node n x []) = [(pre ++ [n], x)].
  Proof. reflexivity. Qed.

  Lemma child_leaves_nonempty pre n x ch :
    ch <> [] -> child_leaves NM pre (Node n x ch) = flat_map (child_leaves NM (pre ++ [n])) ch.
  Proof. destruct ch as [|c r]; intros H; [congruence|reflexivity]. Qed.

  Lemma child_leaves_single pre n x only :
    child_leaves NM pre (Node n x [only]) = child_leaves NM (pre ++ [n]) only.
  Proof.
    rewrite child_leaves_nonempty by discriminate. cbn [flat_map]. apply app_nil_r.
  Qed.

  Lemma child_forks_node pre n x ch :
    child_forks NM pre (Node n x ch) =
    match ch with _ :: _ :: _ => [pre ++ [n]] | _ => [] end
      ++ flat_map (child_forks NM (pre ++ [n])) ch.
  Proof. reflexivity. Qed.

  (** ** Plain mode *)
  Lemma child_nodes_node pre n x ch :
    child_nodes NM pre (Node n x ch) =
    (pre ++ [n], x, is_nil ch) :: flat_map (child_nodes NM (pre ++ [n])) ch.
  Proof. reflexivity. Qed.

  Lemma child_nodes_paths (c : tree) :
    forall prefix, map dec_pa (child_nodes NM prefix c) = child_paths NM prefix c.
  Proof.
    induction c as [n x ch IH] using tree_ind'. intros prefix.
    rewrite child_nodes_node, child_paths_node. cbn [map dec_pa]. f_equal.
    rewrite map_flat_map. apply flat_map_ext_Forall.
    eapply Forall_impl; [|exact IH]. intros a Ha. apply Ha.
  Qed.

  Lemma child_nodes_leaves (c : tree) :
    forall prefix, flat_map leaf_sel (child_nodes NM prefix c) = child_leaves NM prefix c.
  Proof.
    induction c as [n x ch IH] using tree_ind'. intros prefix.
    rewrite child_nodes_node. cbn [flat_map leaf_sel].
    destruct ch as [|g gr].
    - reflexivity.
    - cbn [is_nil app]. rewrite child_leaves_nonempty by discriminate.
      rewrite flat_map_flat_map. apply flat_map_ext_Forall.
      eapply Forall_impl; [|exact IH]. intros a Ha. apply Ha.
  Qed.

  (** ** Collapse-last mode *)
  Lemma cl_child_leaves (c : tree) :
    chain_const NM c ->
    forall prefix, flat_map leaf_sel (cl_child NM prefix c) = child_leaves NM prefix c.
  Proof.
    induction c as [n x ch IH] using tree_ind'. intros Hcc prefix.
    apply chain_const_node in Hcc. destruct Hcc as [Hx Hch].
    destruct (cl_cases NM x ch) as [E|[[gn [gt [E Heq]]]|Ho]].
    - subst ch. reflexivity.
    - subst ch. rewrite cl_child_join by exact Heq. cbn [t_total] in Hx. subst x.
      rewrite child_leaves_single, child_leaves_leaf.
      cbn [flat_map leaf_sel app]. rewrite <- app_assoc. reflexivity.
    - rewrite (cl_child_other NM prefix n x ch Ho). cbn [flat_map leaf_sel app].
      rewrite child_leaves_nonempty by (apply (cl_other_nonempty NM x), Ho).
      rewrite flat_map_flat_map. apply flat_map_ext_Forall.
      eapply Forall_impl; [|exact (Forall_mp _ _ _ IH Hch)]. intros a Ha. apply Ha.
  Qed.

  Lemma cl_child_leaf_paths (c : tree) :
    forall prefix,
      map fst (flat_map leaf_sel (cl_child NM prefix c)) = map fst (child_leaves NM prefix c).
  Proof.
    induction c as [n x ch IH] using tree_ind'. intros prefix.
    destruct (cl_cases NM x ch) as [E|[[gn [gt [E Heq]]]|Ho]].
    - subst ch. reflexivity.
    - subst ch. rewrite cl_child_join by exact Heq.
      rewrite child_leaves_single, child_leaves_leaf.
      cbn [flat_map leaf_sel app map fst]. rewrite <- app_assoc. reflexivity.
    - rewrite (cl_child_other NM prefix n x ch Ho). cbn [flat_map leaf_sel app].
      rewrite child_leaves_nonempty by (apply (cl_other_nonempty NM x), Ho).
      rewrite flat_map_flat_map, !map_flat_map. apply flat_map_ext_Forall.
      eapply Forall_impl; [|exact IH]. intros a Ha. apply Ha.
  Qed.

  Lemma cl_child_subseq (c : tree) :
    forall prefix,
      subseq (map dpath (cl_child NM prefix c)) (map fst (child_paths NM prefix c)).
  Proof.
    induction c as [n x ch IH] using tree_ind'. intros prefix.
    destruct (cl_cases NM x ch) as [E|[[gn [gt [E Heq]]]|Ho]].
    - subst ch. apply subseq_refl.
    - subst ch. rewrite cl_child_join by exact Heq.
      rewrite child_paths_node. cbn [flat_map]. rewrite child_paths_node.
      cbn [flat_map map dpath fst app]. rewrite <- app_assoc. cbn [app].
      apply subseq_skip, subseq_refl.
    - rewrite (cl_child_other NM prefix n x ch Ho). rewrite child_paths_node.
      cbn [map dpath fst]. apply subseq_keep.
      rewrite !map_flat_map. apply subseq_flat_map.
      eapply Forall_impl; [|exact IH]. intros a Ha. apply Ha.
  Qed.

  Lemma cl_child_forks (c : tree) :
    forall prefix p, In p (child_forks NM prefix c) -> In p (map dpath (cl_child NM prefix c)).
  Proof.
    induction c as [n x ch IH] using tree_ind'. intros prefix p Hp.
    destruct (cl_cases NM x ch) as [E|[[gn [gt [E Heq]]]|Ho]].
    - subst ch. destruct Hp.
    - subst ch. destruct Hp.
    - rewrite (cl_child_other NM prefix n x ch Ho). cbn [map dpath fst].
      rewrite child_forks_node in Hp. apply in_app_or in Hp. destruct Hp as [Hp|Hp].
      + left. destruct ch as [|a [|a2 r]]; cbn [In] in Hp; try contradiction.
        destruct Hp as [Hp|[]]. exact Hp.
      + right. rewrite map_flat_map.
        eapply In_flat_map_Forall; [|exact Hp].
        eapply Forall_impl; [|exact IH]. intros a Ha. apply Ha.
  Qed.

  (** ** Collapsed mode *)
  Lemma dj_leaves (t : tree) :
    chain_const NM t ->
    forall pre tot, tot = t_total NM t ->
      flat_map leaf_sel (dj NM pre tot t) = child_leaves NM pre t.
  Proof.
    induction t as [n x ch IH] using tree_ind'. intros Hcc pre tot Htot.
    cbn [t_total] in Htot. subst tot.
    apply chain_const_node in Hcc. destruct Hcc as [Hx Hch].
    destruct (jump_next_cases NM x ch) as [[only Hj]|Hj].
    - rewrite (dj_follow NM _ _ _ _ _ _ Hj).
      destruct (jump_next_some NM _ _ _ Hj) as [E _]. subst ch.
      rewrite child_leaves_single.
      inversion IH as [|c r Hc _]; subst c r. inversion Hch as [|c r Hco _]; subst c r.
      apply Hc; assumption.
    - rewrite (dj_stop NM _ _ _ _ _ Hj). cbn [flat_map leaf_sel].
      destruct ch as [|c1 r].
      + reflexivity.
      + cbn [is_nil app]. rewrite child_leaves_nonempty by discriminate.
        rewrite flat_map_flat_map. apply flat_map_ext_Forall.
        eapply Forall_impl; [|exact (Forall_mp _ _ _ IH Hch)].
        intros a Ha. unfold dj_child. apply Ha. reflexivity.
  Qed.

  Lemma dj_leaf_paths (t : tree) :
    forall pre tot,
      map fst (flat_map leaf_sel (dj NM pre tot t)) = map fst (child_leaves NM pre t).
  Proof.
    induction t as [n x ch IH] using tree_ind'. intros pre tot.
    destruct (jump_next_cases NM x ch) as [[only Hj]|Hj].
    - rewrite (dj_follow NM _ _ _ _ _ _ Hj).
      destruct (jump_next_some NM _ _ _ Hj) as [E _]. subst ch.
      rewrite child_leaves_single.
      inversion IH as [|c r Hc _]; subst c r. apply Hc.
    - rewrite (dj_stop NM _ _ _ _ _ Hj). cbn [flat_map leaf_sel].
      destruct ch as [|c1 r].
      + reflexivity.
      + cbn [is_nil app]. rewrite child_leaves_nonempty by discriminate.
        rewrite flat_map_flat_map, !map_flat_map. apply flat_map_ext_Forall.
        eapply Forall_impl; [|exact IH].
        intros a Ha. unfold dj_child. apply Ha.
  Qed.

  Lemma dj_subseq (t : tree) :
    forall pre tot, subseq (map dpath (dj NM pre tot t)) (map fst (child_paths NM pre t)).
  Proof.
    induction t as [n x ch IH] using tree_ind'. intros pre tot.
    rewrite child_paths_node. cbn [map fst].
    destruct (jump_next_cases NM x ch) as [[only Hj]|Hj].
    - rewrite (dj_follow NM _ _ _ _ _ _ Hj).
      destruct (jump_next_some NM _ _ _ Hj) as [E _]. subst ch.
      cbn [flat_map]. rewrite app_nil_r.
      apply subseq_skip. inversion IH as [|c r Hc _]; subst c r. apply Hc.
    - rewrite (dj_stop NM _ _ _ _ _ Hj). cbn [map dpath fst]. apply subseq_keep.
      rewrite !map_flat_map. apply subseq_flat_map.
      eapply Forall_impl; [|exact IH]. intros a Ha. unfold dj_child. apply Ha.
  Qed.

  Lemma dj_forks (t : tree) :
    forall pre tot p, In p (child_forks NM pre t) -> In p (map dpath (dj NM pre tot t)).
  Proof.
    induction t as [n x ch IH] using tree_ind'. intros pre tot p Hp.
    rewrite child_forks_node in Hp.
    destruct (jump_next_cases NM x ch) as [[only Hj]|Hj].
    - rewrite (dj_follow NM _ _ _ _ _ _ Hj).
      destruct (jump_next_some NM _ _ _ Hj) as [E _]. subst ch.
      cbn [app flat_map] in Hp. rewrite app_nil_r in Hp.
      inversion IH as [|c r Hc _]; subst c r. apply Hc, Hp.
    - rewrite (dj_stop NM _ _ _ _ _ Hj). cbn [map dpath fst].
      apply in_app_or in Hp. destruct Hp as [Hp|Hp].
      + left. destruct ch as [|a [|a2 r]]; cbn [In] in Hp; try contradiction.
        destruct Hp as [Hp|[]]. exact Hp.
      + right. rewrite map_flat_map.
        eapply In_flat_map_Forall; [|exact Hp].
        eapply Forall_impl; [|exact IH]. intros a Ha. unfold dj_child. apply Ha.
  Qed.

  (** ** With constant chains even the amounts of all rows are those of tree nodes *)
  Lemma cl_child_subseq_amounts (c : tree) :
    chain_const NM c ->
    forall prefix, subseq (map dec_pa (cl_child NM prefix c)) (child_paths NM prefix c).
  Proof.
    induction c as [n x ch IH] using tree_ind'. intros Hcc prefix.
    apply chain_const_node in Hcc. destruct Hcc as [Hx Hch].
    destruct (cl_cases NM x ch) as [E|[[gn [gt [E Heq]]]|Ho]].
    - subst ch. apply subseq_refl.
    - subst ch. rewrite cl_child_join by exact Heq. cbn [t_total] in Hx. subst x.
      rewrite child_paths_node. cbn [flat_map]. rewrite child_paths_node.
      cbn [flat_map map dec_pa app]. rewrite <- app_assoc. cbn [app].
      apply subseq_skip, subseq_refl.
    - rewrite (cl_child_other NM prefix n x ch Ho). rewrite child_paths_node.
      cbn [map dec_pa]. apply subseq_keep.
      rewrite map_flat_map. apply subseq_flat_map.
      eapply Forall_impl; [|exact (Forall_mp _ _ _ IH Hch)]. intros a Ha. apply Ha.
  Qed.

  Lemma dj_subseq_amounts (t : tree) :
    chain_const NM t ->
    forall pre tot, tot = t_total NM t ->
      subseq (map dec_pa (dj NM pre tot t)) (child_paths NM pre t).
  Proof.
    induction t as [n x ch IH] using tree_ind'. intros Hcc pre tot Htot.
    cbn [t_total] in Htot. subst tot.
    apply chain_const_node in Hcc. destruct Hcc as [Hx Hch].
    rewrite child_paths_node.
    destruct (jump_next_cases NM x ch) as [[only Hj]|Hj].
    - rewrite (dj_follow NM _ _ _ _ _ _ Hj).
      destruct (jump_next_some NM _ _ _ Hj) as [E _]. subst ch.
      cbn [flat_map]. rewrite app_nil_r.
      apply subseq_skip.
      inversion IH as [|c r Hc _]; subst c r. inversion Hch as [|c r Hco _]; subst c r.
      apply Hc; assumption.
    - rewrite (dj_stop NM _ _ _ _ _ Hj). cbn [map dec_pa]. apply subseq_keep.
      rewrite map_flat_map. apply subseq_flat_map.
      eapply Forall_impl; [|exact (Forall_mp _ _ _ IH Hch)].
      intros a Ha. unfold dj_child. apply Ha. reflexivity.
  Qed.

  (** ** Every node lies on the way to a leaf *)
  Lemma child_has_leaf (c : tree) :
    forall prefix, exists s y, In ((prefix ++ [t_name NM c]) ++ s, y) (child_leaves NM prefix c).
  Proof.
    induction c as [n x ch IH] using tree_ind'. intros prefix. cbn [t_name].
    destruct ch as [|g gr].
    - exists [], x. rewrite app_nil_r, child_leaves_leaf. left. reflexivity.
    - inversion IH as [|c r Hg _]; subst c r.
      destruct (Hg (prefix ++ [n])) as [s [y Hin]].
      exists ([t_name NM g] ++ s), y.
      rewrite child_leaves_nonempty by discriminate. cbn [flat_map].
      apply in_or_app. left. rewrite app_assoc. exact Hin.
  Qed.

  Lemma node_under_leaf (c : tree) :
    forall prefix p x, In (p, x) (child_paths NM prefix c) ->
      p <> [] /\ exists s y, In (p ++ s, y) (child_leaves NM prefix c).
  Proof.
    induction c as [n x0 ch IH] using tree_ind'. intros prefix p x Hp.
    rewrite child_paths_node in Hp. destruct Hp as [Hp|Hp].
    - inversion Hp; subst p x. split; [destruct prefix; discriminate|].
      apply (child_has_leaf (Node n x0 ch) prefix).
    - apply in_flat_map in Hp. destruct Hp as [g [Hg Hp]].
      rewrite Forall_forall in IH. destruct (IH g Hg _ _ _ Hp) as [Hne [s [y Hin]]].
      split; [assumption|]. exists s, y.
      rewrite child_leaves_nonempty by (intros E; subst ch; destruct Hg).
      apply in_flat_map. exists g. split; assumption.
  Qed.

  Lemma paths_under_leaves (ch : list tree) p x :
    In (p, x) (flat_map (child_paths NM []) ch) ->
    p <> [] /\ exists s y, In (p ++ s, y) (flat_map (child_leaves NM []) ch).
  Proof.
    intros Hp. apply in_flat_map in Hp. destruct Hp as [g [Hg Hp]].
    destruct (node_under_leaf g _ _ _ Hp) as [Hne [s [y Hin]]].
    split; [assumption|]. exists s, y. apply in_flat_map. exists g. split; assumption.
  Qed.

  (** ** The node totals behind the rows (fix 3cc3ec3), for every tree *)
  Notation rdec := (list bytes * list (bytes * T) * T * bool)%type.
  Definition rd_nodes (rd : rdec) : list (list bytes * T) :=
    let '(pp, chain, y, lf) := rd in chain_paths NM pp chain.
  Definition rd_ok (rd : rdec) : Prop := let '(pp, chain, y, lf) := rd in joined_ok NM y chain.

  Lemma Forall2_flat_map {A B C} (R : B -> C -> Prop) (f : A -> list B) (g : A -> list C) (l : list A) :
    Forall (fun a => Forall2 R (f a) (g a)) l -> Forall2 R (flat_map f l) (flat_map g l).
  Proof.
    induction 1 as [|a l Ha _ IH]; cbn [flat_map]; [constructor|]. apply Forall2_app; assumption.
  Qed.

  Lemma Forall_flat_map {A B} (P : B -> Prop) (f : A -> list B) (l : list A) :
    Forall (fun a => Forall P (f a)) l -> Forall P (flat_map f l).
  Proof.
    induction 1 as [|a l Ha _ IH]; cbn [flat_map]; [constructor|]. apply Forall_app. split; assumption.
  Qed.

  Lemma chain_paths_app pp (a c : list (bytes * T)) :
    chain_paths NM pp (a ++ c) = chain_paths NM pp a ++ chain_paths NM (pp ++ map fst a) c.
  Proof.
    revert pp. induction a as [|[n x] a IH]; intros pp; cbn [app chain_paths map fst].
    - rewrite app_nil_r. reflexivity.
    - rewrite IH, <- app_assoc. reflexivity.
  Qed.

  (** *** the chains of a mode, read off, are the nodes of the tree in pre-order *)
  Lemma rchild_nodes_paths (c : tree) :
    forall prefix, flat_map rd_nodes (rchild_nodes NM prefix c) = child_paths NM prefix c.
  Proof.
    induction c as [n x ch IH] using tree_ind'. intros prefix.
    rewrite rchild_nodes_node, child_paths_node. cbn [flat_map rd_nodes chain_paths app]. f_equal.
    rewrite flat_map_flat_map. apply flat_map_ext_Forall.
    eapply Forall_impl; [|exact IH]. intros a Ha. apply Ha.
  Qed.

  Lemma rcl_child_paths (c : tree) :
    forall prefix, flat_map rd_nodes (rcl_child NM prefix c) = child_paths NM prefix c.
  Proof.
    induction c as [n x ch IH] using tree_ind'. intros prefix.
    destruct (cl_cases NM x ch) as [E|[[gn [gt [E Heq]]]|Ho]].
    - subst ch. reflexivity.
    - subst ch. rewrite rcl_child_join by exact Heq. reflexivity.
    - rewrite (rcl_child_other NM prefix n x ch Ho), child_paths_node.
      cbn [flat_map rd_nodes chain_paths app]. f_equal.
      rewrite flat_map_flat_map. apply flat_map_ext_Forall.
      eapply Forall_impl; [|exact IH]. intros a Ha. apply Ha.
  Qed.

  Lemma rdj_paths (t : tree) :
    forall pp tot acc,
      flat_map rd_nodes (rdj NM pp tot acc t) =
      chain_paths NM pp acc ++ child_paths NM (pp ++ map fst acc) t.
  Proof.
    induction t as [n x ch IH] using tree_ind'. intros pp tot acc.
    rewrite child_paths_node.
    destruct (jump_next_cases NM x ch) as [[only Hj]|Hj].
    - rewrite (rdj_follow NM _ _ _ _ _ _ _ Hj).
      destruct (jump_next_some NM _ _ _ Hj) as [E _]. subst ch.
      inversion IH as [|c r Hc _]; subst c r.
      rewrite Hc, chain_paths_app, map_fst_snoc. cbn [chain_paths flat_map].
      rewrite app_nil_r, <- app_assoc. cbn [app]. rewrite (app_assoc pp). reflexivity.
    - rewrite (rdj_stop NM _ _ _ _ _ _ Hj). cbn [flat_map rd_nodes].
      rewrite chain_paths_app. cbn [chain_paths]. rewrite <- app_assoc. cbn [app]. do 2 f_equal.
      rewrite flat_map_flat_map. apply flat_map_ext_Forall.
      eapply Forall_impl; [|exact IH]. intros a Ha. unfold rdj_child.
      rewrite Ha. cbn [chain_paths map app]. rewrite app_nil_r, app_assoc. reflexivity.
  Qed.

  Lemma rdj_child_paths (c : tree) :
    forall pre, flat_map rd_nodes (rdj_child NM pre c) = child_paths NM pre c.
  Proof.
    intros pre. unfold rdj_child. rewrite rdj_paths. cbn [chain_paths map app].
    rewrite app_nil_r. reflexivity.
  Qed.

  (** *** every row is an honest joined row *)
  Lemma rchild_nodes_ok (c : tree) : forall prefix, Forall rd_ok (rchild_nodes NM prefix c).
  Proof.
    induction c as [n x ch IH] using tree_ind'. intros prefix.
    rewrite rchild_nodes_node. constructor; [cbn; split; [reflexivity|exact I]|].
    apply Forall_flat_map. eapply Forall_impl; [|exact IH]. intros a Ha. apply Ha.
  Qed.

  Lemma rcl_child_ok (c : tree) : forall prefix, Forall rd_ok (rcl_child NM prefix c).
  Proof.
    induction c as [n x ch IH] using tree_ind'. intros prefix.
    destruct (cl_cases NM x ch) as [E|[[gn [gt [E Heq]]]|Ho]].
    - subst ch. constructor; [cbn; split; [reflexivity|exact I]|constructor].
    - subst ch. rewrite rcl_child_join by exact Heq.
      constructor; [|constructor]. cbn [rd_ok joined_ok eq_from]. repeat split. exact Heq.
    - rewrite (rcl_child_other NM prefix n x ch Ho).
      constructor; [cbn; split; [reflexivity|exact I]|].
      apply Forall_flat_map. eapply Forall_impl; [|exact IH]. intros a Ha. apply Ha.
  Qed.

  Lemma eq_from_snoc (r : list (bytes * T)) :
    forall x0 n x m z, eq_from NM x0 (r ++ [(n, x)]) -> t_eqb NM z x = true ->
      eq_from NM x0 ((r ++ [(n, x)]) ++ [(m, z)]).
  Proof.
    induction r as [|[k w] r IH]; intros x0 n x m z H Hz.
    - cbn [app eq_from] in *. destruct H as [H _]. repeat split; assumption.
    - cbn [app eq_from] in *. destruct H as [H1 H2]. split; [exact H1|]. apply IH; assumption.
  Qed.

  Lemma joined_ok_snoc (acc : list (bytes * T)) y n x m z :
    joined_ok NM y (acc ++ [(n, x)]) -> t_eqb NM z x = true ->
    joined_ok NM y ((acc ++ [(n, x)]) ++ [(m, z)]).
  Proof.
    destruct acc as [|[k w] r]; cbn [app joined_ok]; intros [H1 H2] Hz.
    - split; [exact H1|]. cbn [eq_from]. split; [exact Hz|exact I].
    - split; [exact H1|]. apply eq_from_snoc; assumption.
  Qed.

  Lemma rdj_ok (t : tree) :
    forall pp tot acc, joined_ok NM tot (acc ++ [(t_name NM t, t_total NM t)]) ->
      Forall rd_ok (rdj NM pp tot acc t).
  Proof.
    induction t as [n x ch IH] using tree_ind'. intros pp tot acc Hok. cbn [t_name t_total] in Hok.
    destruct (jump_next_cases NM x ch) as [[only Hj]|Hj].
    - rewrite (rdj_follow NM _ _ _ _ _ _ _ Hj).
      destruct (jump_next_some NM _ _ _ Hj) as [E Heq]. subst ch.
      inversion IH as [|c r Hc _]; subst c r.
      apply Hc. apply joined_ok_snoc; assumption.
    - rewrite (rdj_stop NM _ _ _ _ _ _ Hj). constructor; [exact Hok|].
      apply Forall_flat_map. eapply Forall_impl; [|exact IH]. intros a Ha. unfold rdj_child.
      apply Ha. cbn [app joined_ok eq_from]. split; [reflexivity|exact I].
  Qed.

  Lemma rdj_child_ok (c : tree) : forall pre, Forall rd_ok (rdj_child NM pre c).
  Proof.
    intros pre. unfold rdj_child. apply rdj_ok. cbn [app joined_ok eq_from]. split; [reflexivity|exact I].
  Qed.

  (** plain mode: every chain is a single node *)
  Definition rd_single (rd : rdec) : Prop := let '(pp, chain, y, lf) := rd in exists n, chain = [(n, y)].

  Lemma rchild_nodes_single (c : tree) : forall prefix, Forall rd_single (rchild_nodes NM prefix c).
  Proof.
    induction c as [n x ch IH] using tree_ind'. intros prefix.
    rewrite rchild_nodes_node. constructor; [exists n; reflexivity|].
    apply Forall_flat_map. eapply Forall_impl; [|exact IH]. intros a Ha. apply Ha.
  Qed.

  (** *** the leaves without any hypothesis on the totals: same paths, Go-equal amounts *)
  Notation same := (same_path_go_equal NM).

  Lemma cl_child_leaves_go (c : tree) :
    forall prefix, Forall2 same (flat_map leaf_sel (cl_child NM prefix c)) (child_leaves NM prefix c).
  Proof.
    induction c as [n x ch IH] using tree_ind'. intros prefix.
    destruct (cl_cases NM x ch) as [E|[[gn [gt [E Heq]]]|Ho]].
    - subst ch. cbn. constructor; [|constructor]. split; [reflexivity|apply gec_refl].
    - subst ch. rewrite cl_child_join by exact Heq.
      rewrite child_leaves_single, child_leaves_leaf. cbn [flat_map leaf_sel app].
      constructor; [|constructor]. split; cbn [fst snd].
      + rewrite <- app_assoc. reflexivity.
      + eapply gec_step; [apply gec_refl|exact Heq].
    - rewrite (cl_child_other NM prefix n x ch Ho). cbn [flat_map leaf_sel app].
      rewrite child_leaves_nonempty by (apply (cl_other_nonempty NM x), Ho).
      rewrite flat_map_flat_map. apply Forall2_flat_map.
      eapply Forall_impl; [|exact IH]. intros a Ha. apply Ha.
  Qed.

  Lemma dj_leaves_go (t : tree) :
    forall pre tot, go_eq_chain NM tot (t_total NM t) ->
      Forall2 same (flat_map leaf_sel (dj NM pre tot t)) (child_leaves NM pre t).
  Proof.
    induction t as [n x ch IH] using tree_ind'. intros pre tot Htot. cbn [t_total] in Htot.
    destruct (jump_next_cases NM x ch) as [[only Hj]|Hj].
    - rewrite (dj_follow NM _ _ _ _ _ _ Hj).
      destruct (jump_next_some NM _ _ _ Hj) as [E Heq]. subst ch.
      rewrite child_leaves_single.
      inversion IH as [|c r Hc _]; subst c r.
      apply Hc. eapply gec_step; [exact Htot|exact Heq].
    - rewrite (dj_stop NM _ _ _ _ _ Hj). cbn [flat_map leaf_sel].
      destruct ch as [|c1 r].
      + cbn. constructor; [|constructor]. split; [reflexivity|exact Htot].
      + cbn [is_nil app]. rewrite child_leaves_nonempty by discriminate.
        rewrite flat_map_flat_map. apply Forall2_flat_map.
        eapply Forall_impl; [|exact IH].
        intros a Ha. unfold dj_child. apply Ha. apply gec_refl.
  Qed.
End Modes.
