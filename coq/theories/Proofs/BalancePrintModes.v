(** WP09, part 3: the lists the decoder reads back in each mode ([child_nodes],
    [cl_child], [dj]) against the reference lists of Spec/TreeShared.v: leaves
    (with amounts under [chain_const], paths without it), sub-sequence of the
    node paths, forks kept; and: every node lies on the way to a leaf. *)
From Coq Require Import Lia ZifyBool ZifyNat ZifyN.
From HP Require Import Base.Bytes Base.Num Model.Elements Model.Tree
  Spec.TreeShared Spec.BalancePrintSpec Proofs.BalancePrintBase Proofs.BalancePrintDecode.

Section Modes.
  Context (NM : Num).
  Notation T := (T NM).
  Notation tree := (tree NM).
  Notation row := (row NM).
  Notation dec := (list bytes * T * bool)%type.

  Definition leaf_sel (d : dec) : list (list bytes * T) :=
    let '(p, x, lf) := d in if lf : bool then [(p, x)] else [].
  Definition dec_pa (d : dec) : list bytes * T := let '(p, x, _) := d in (p, x).
  Definition dpath (d : dec) : list bytes := fst (fst d).

  Lemma leaf_rows_eq rows : leaf_rows NM rows = flat_map leaf_sel (decode NM rows).
  Proof. reflexivity. Qed.

  Lemma row_paths_eq rows : row_paths NM rows = map dpath (decode NM rows).
  Proof. reflexivity. Qed.

  Lemma leaf_sel_path (l : list dec) p x : In (p, x) (flat_map leaf_sel l) -> In p (map dpath l).
  Proof.
    intros H. apply in_flat_map in H. destruct H as [[[q y] lf] [Hin Hsel]].
    destruct lf; cbn [leaf_sel In] in Hsel; [|contradiction].
    destruct Hsel as [E|[]]. inversion E; subst q y.
    apply in_map_iff. exists (p, x, true). split; [reflexivity|assumption].
  Qed.

  Lemma In_flat_map_Forall {A B} (f g : A -> list B) (l : list A) (y : B) :
    Forall (fun a => In y (f a) -> In y (g a)) l -> In y (flat_map f l) -> In y (flat_map g l).
  Proof.
    intros Hall H. apply in_flat_map in H. destruct H as [a [Ha Hy]].
    apply in_flat_map. exists a. split; [assumption|].
    rewrite Forall_forall in Hall. apply Hall; assumption.
  Qed.

  (** ** The reference lists of a child, one level unfolded *)
  Lemma child_paths_node pre n x ch :
    child_paths NM pre (Node n x ch) = (pre ++ [n], x) :: flat_map (child_paths NM (pre ++ [n])) ch.
  Proof. reflexivity. Qed.

  Lemma child_leaves_leaf pre n x : child_leaves NM pre (Node n x []) = [(pre ++ [n], x)].
  Proof. reflexivity. Qed.

  Lemma child_leaves_nonempty pre n x ch :
    ch <> [] -> child_leaves NM pre (Node n x ch) = flat_map (child_leaves NM (pre ++ [n])) ch.
  Proof. destruct ch as [|c r]; intros H; [congruence|reflexivity]. Qed.

  Lemma child_leaves_single pre n x only :
    child_leaves NM pre (Node n x [only]) = child_leaves NM (pre ++ [n]) only.
  Proof.
    rewrite child_leaves_nonempty by discriminate. cbn [flat_map]. apply app_nil_r.
  Qed.

  Lemma child_forks_node pre n x ch :
    child_forks NM pre (Node n x ch) =
    match ch with _ :: _ :: _ => [pre ++ [n]] | _ => [] end
      ++ flat_map (child_forks NM (pre ++ [n])) ch.
  Proof. reflexivity. Qed.

  (** ** Plain mode *)
  Lemma child_nodes_node pre n x ch :
    child_nodes NM pre (Node n x ch) =
    (pre ++ [n], x, is_nil ch) :: flat_map (child_nodes NM (pre ++ [n])) ch.
  Proof. reflexivity. Qed.

  Lemma child_nodes_paths (c : tree) :
    forall prefix, map dec_pa (child_nodes NM prefix c) = child_paths NM prefix c.
  Proof.
    induction c as [n x ch IH] using tree_ind'. intros prefix.
    rewrite child_nodes_node, child_paths_node. cbn [map dec_pa]. f_equal.
    rewrite map_flat_map. apply flat_map_ext_Forall.
    eapply Forall_impl; [|exact IH]. intros a Ha. apply Ha.
  Qed.

  Lemma child_nodes_leaves (c : tree) :
    forall prefix, flat_map leaf_sel (child_nodes NM prefix c) = child_leaves NM prefix c.
  Proof.
    induction c as [n x ch IH] using tree_ind'. intros prefix.
    rewrite child_nodes_node. cbn [flat_map leaf_sel].
    destruct ch as [|g gr].
    - reflexivity.
    - cbn [is_nil app]. rewrite child_leaves_nonempty by discriminate.
      rewrite flat_map_flat_map. apply flat_map_ext_Forall.
      eapply Forall_impl; [|exact IH]. intros a Ha. apply Ha.
  Qed.

  (** ** Collapse-last mode *)
  Lemma cl_child_leaves (c : tree) :
    chain_const NM c ->
    forall prefix, flat_map leaf_sel (cl_child NM prefix c) = child_leaves NM prefix c.
  Proof.
    induction c as [n x ch IH] using tree_ind'. intros Hcc prefix.
    apply chain_const_node in Hcc. destruct Hcc as [Hx Hch].
    destruct (cl_cases NM ch) as [E|[[gn [gt E]]|Ho]].
    - subst ch. reflexivity.
    - subst ch. cbn [t_total] in Hx. subst x.
      rewrite child_leaves_single, child_leaves_leaf.
      cbn [cl_child flat_map leaf_sel app]. rewrite <- app_assoc. reflexivity.
    - rewrite (cl_child_other NM prefix n x ch Ho). cbn [flat_map leaf_sel app].
      rewrite child_leaves_nonempty by (apply cl_other_nonempty, Ho).
      rewrite flat_map_flat_map. apply flat_map_ext_Forall.
      eapply Forall_impl; [|exact (Forall_mp _ _ _ IH Hch)]. intros a Ha. apply Ha.
  Qed.

  Lemma cl_child_leaf_paths (c : tree) :
    forall prefix,
      map fst (flat_map leaf_sel (cl_child NM prefix c)) = map fst (child_leaves NM prefix c).
  Proof.
    induction c as [n x ch IH] using tree_ind'. intros prefix.
    destruct (cl_cases NM ch) as [E|[[gn [gt E]]|Ho]].
    - subst ch. reflexivity.
    - subst ch.
      rewrite child_leaves_single, child_leaves_leaf.
      cbn [cl_child flat_map leaf_sel app map fst]. rewrite <- app_assoc. reflexivity.
    - rewrite (cl_child_other NM prefix n x ch Ho). cbn [flat_map leaf_sel app].
      rewrite child_leaves_nonempty by (apply cl_other_nonempty, Ho).
      rewrite flat_map_flat_map, !map_flat_map. apply flat_map_ext_Forall.
      eapply Forall_impl; [|exact IH]. intros a Ha. apply Ha.
  Qed.

  Lemma cl_child_subseq (c : tree) :
    forall prefix,
      subseq (map dpath (cl_child NM prefix c)) (map fst (child_paths NM prefix c)).
  Proof.
    induction c as [n x ch IH] using tree_ind'. intros prefix.
    destruct (cl_cases NM ch) as [E|[[gn [gt E]]|Ho]].
    - subst ch. apply subseq_refl.
    - subst ch. rewrite child_paths_node. cbn [flat_map]. rewrite child_paths_node.
      cbn [cl_child flat_map map dpath fst app]. rewrite <- app_assoc. cbn [app].
      apply subseq_skip, subseq_refl.
    - rewrite (cl_child_other NM prefix n x ch Ho). rewrite child_paths_node.
      cbn [map dpath fst]. apply subseq_keep.
      rewrite !map_flat_map. apply subseq_flat_map.
      eapply Forall_impl; [|exact IH]. intros a Ha. apply Ha.
  Qed.

  Lemma cl_child_forks (c : tree) :
    forall prefix p, In p (child_forks NM prefix c) -> In p (map dpath (cl_child NM prefix c)).
  Proof.
    induction c as [n x ch IH] using tree_ind'. intros prefix p Hp.
    destruct (cl_cases NM ch) as [E|[[gn [gt E]]|Ho]].
    - subst ch. destruct Hp.
    - subst ch. destruct Hp.
    - rewrite (cl_child_other NM prefix n x ch Ho). cbn [map dpath fst].
      rewrite child_forks_node in Hp. apply in_app_or in Hp. destruct Hp as [Hp|Hp].
      + left. destruct ch as [|a [|a2 r]]; cbn [In] in Hp; try contradiction.
        destruct Hp as [Hp|[]]. exact Hp.
      + right. rewrite map_flat_map.
        eapply In_flat_map_Forall; [|exact Hp].
        eapply Forall_impl; [|exact IH]. intros a Ha. apply Ha.
  Qed.

  (** ** Collapsed mode *)
  Lemma dj_leaves (t : tree) :
    chain_const NM t ->
    forall pre tot, tot = t_total NM t ->
      flat_map leaf_sel (dj NM pre tot t) = child_leaves NM pre t.
  Proof.
    induction t as [n x ch IH] using tree_ind'. intros Hcc pre tot Htot.
    cbn [t_total] in Htot. subst tot.
    apply chain_const_node in Hcc. destruct Hcc as [Hx Hch].
    destruct (single_cases ch) as [[only E]|Hns].
    - subst ch. rewrite dj_single, child_leaves_single.
      inversion IH as [|c r Hc _]; subst c r. inversion Hch as [|c r Hco _]; subst c r.
      apply Hc; assumption.
    - rewrite dj_end by exact Hns. cbn [flat_map leaf_sel].
      destruct ch as [|c1 r].
      + reflexivity.
      + cbn [is_nil app]. rewrite child_leaves_nonempty by discriminate.
        rewrite flat_map_flat_map. apply flat_map_ext_Forall.
        eapply Forall_impl; [|exact (Forall_mp _ _ _ IH Hch)].
        intros a Ha. unfold dj_child. apply Ha. reflexivity.
  Qed.

  Lemma dj_leaf_paths (t : tree) :
    forall pre tot,
      map fst (flat_map leaf_sel (dj NM pre tot t)) = map fst (child_leaves NM pre t).
  Proof.
    induction t as [n x ch IH] using tree_ind'. intros pre tot.
    destruct (single_cases ch) as [[only E]|Hns].
    - subst ch. rewrite dj_single, child_leaves_single.
      inversion IH as [|c r Hc _]; subst c r. apply Hc.
    - rewrite dj_end by exact Hns. cbn [flat_map leaf_sel].
      destruct ch as [|c1 r].
      + reflexivity.
      + cbn [is_nil app]. rewrite child_leaves_nonempty by discriminate.
        rewrite flat_map_flat_map, !map_flat_map. apply flat_map_ext_Forall.
        eapply Forall_impl; [|exact IH].
        intros a Ha. unfold dj_child. apply Ha.
  Qed.

  Lemma dj_subseq (t : tree) :
    forall pre tot, subseq (map dpath (dj NM pre tot t)) (map fst (child_paths NM pre t)).
  Proof.
    induction t as [n x ch IH] using tree_ind'. intros pre tot.
    rewrite child_paths_node. cbn [map fst].
    destruct (single_cases ch) as [[only E]|Hns].
    - subst ch. rewrite dj_single. cbn [flat_map]. rewrite app_nil_r.
      apply subseq_skip. inversion IH as [|c r Hc _]; subst c r. apply Hc.
    - rewrite dj_end by exact Hns. cbn [map dpath fst]. apply subseq_keep.
      rewrite !map_flat_map. apply subseq_flat_map.
      eapply Forall_impl; [|exact IH]. intros a Ha. unfold dj_child. apply Ha.
  Qed.

  Lemma dj_forks (t : tree) :
    forall pre tot p, In p (child_forks NM pre t) -> In p (map dpath (dj NM pre tot t)).
  Proof.
    induction t as [n x ch IH] using tree_ind'. intros pre tot p Hp.
    rewrite child_forks_node in Hp.
    destruct (single_cases ch) as [[only E]|Hns].
    - subst ch. rewrite dj_single. cbn [app flat_map] in Hp. rewrite app_nil_r in Hp.
      inversion IH as [|c r Hc _]; subst c r. apply Hc, Hp.
    - rewrite dj_end by exact Hns. cbn [map dpath fst].
      apply in_app_or in Hp. destruct Hp as [Hp|Hp].
      + left. destruct ch as [|a [|a2 r]]; cbn [In] in Hp; try contradiction.
        destruct Hp as [Hp|[]]. exact Hp.
      + right. rewrite map_flat_map.
        eapply In_flat_map_Forall; [|exact Hp].
        eapply Forall_impl; [|exact IH]. intros a Ha. unfold dj_child. apply Ha.
  Qed.

  (** ** With constant chains even the amounts of all rows are those of tree nodes *)
  Lemma cl_child_subseq_amounts (c : tree) :
    chain_const NM c ->
    forall prefix, subseq (map dec_pa (cl_child NM prefix c)) (child_paths NM prefix c).
  Proof.
    induction c as [n x ch IH] using tree_ind'. intros Hcc prefix.
    apply chain_const_node in Hcc. destruct Hcc as [Hx Hch].
    destruct (cl_cases NM ch) as [E|[[gn [gt E]]|Ho]].
    - subst ch. apply subseq_refl.
    - subst ch. cbn [t_total] in Hx. subst x.
      rewrite child_paths_node. cbn [flat_map]. rewrite child_paths_node.
      cbn [cl_child flat_map map dec_pa app]. rewrite <- app_assoc. cbn [app].
      apply subseq_skip, subseq_refl.
    - rewrite (cl_child_other NM prefix n x ch Ho). rewrite child_paths_node.
      cbn [map dec_pa]. apply subseq_keep.
      rewrite map_flat_map. apply subseq_flat_map.
      eapply Forall_impl; [|exact (Forall_mp _ _ _ IH Hch)]. intros a Ha. apply Ha.
  Qed.

  Lemma dj_subseq_amounts (t : tree) :
    chain_const NM t ->
    forall pre tot, tot = t_total NM t ->
      subseq (map dec_pa (dj NM pre tot t)) (child_paths NM pre t).
  Proof.
    induction t as [n x ch IH] using tree_ind'. intros Hcc pre tot Htot.
    cbn [t_total] in Htot. subst tot.
    apply chain_const_node in Hcc. destruct Hcc as [Hx Hch].
    rewrite child_paths_node.
    destruct (single_cases ch) as [[only E]|Hns].
    - subst ch. rewrite dj_single. cbn [flat_map]. rewrite app_nil_r.
      apply subseq_skip.
      inversion IH as [|c r Hc _]; subst c r. inversion Hch as [|c r Hco _]; subst c r.
      apply Hc; assumption.
    - rewrite dj_end by exact Hns. cbn [map dec_pa]. apply subseq_keep.
      rewrite map_flat_map. apply subseq_flat_map.
      eapply Forall_impl; [|exact (Forall_mp _ _ _ IH Hch)].
      intros a Ha. unfold dj_child. apply Ha. reflexivity.
  Qed.

  (** ** Every node lies on the way to a leaf *)
  Lemma child_has_leaf (c : tree) :
    forall prefix, exists s y, In ((prefix ++ [t_name NM c]) ++ s, y) (child_leaves NM prefix c).
  Proof.
    induction c as [n x ch IH] using tree_ind'. intros prefix. cbn [t_name].
    destruct ch as [|g gr].
    - exists [], x. rewrite app_nil_r, child_leaves_leaf. left. reflexivity.
    - inversion IH as [|c r Hg _]; subst c r.
      destruct (Hg (prefix ++ [n])) as [s [y Hin]].
      exists ([t_name NM g] ++ s), y.
      rewrite child_leaves_nonempty by discriminate. cbn [flat_map].
      apply in_or_app. left. rewrite app_assoc. exact Hin.
  Qed.

  Lemma node_under_leaf (c : tree) :
    forall prefix p x, In (p, x) (child_paths NM prefix c) ->
      p <> [] /\ exists s y, In (p ++ s, y) (child_leaves NM prefix c).
  Proof.
    induction c as [n x0 ch IH] using tree_ind'. intros prefix p x Hp.
    rewrite child_paths_node in Hp. destruct Hp as [Hp|Hp].
    - inversion Hp; subst p x. split; [destruct prefix; discriminate|].
      apply (child_has_leaf (Node n x0 ch) prefix).
    - apply in_flat_map in Hp. destruct Hp as [g [Hg Hp]].
      rewrite Forall_forall in IH. destruct (IH g Hg _ _ _ Hp) as [Hne [s [y Hin]]].
      split; [assumption|]. exists s, y.
      rewrite child_leaves_nonempty by (intros E; subst ch; destruct Hg).
      apply in_flat_map. exists g. split; assumption.
  Qed.

  Lemma paths_under_leaves (ch : list tree) p x :
    In (p, x) (flat_map (child_paths NM []) ch) ->
    p <> [] /\ exists s y, In (p ++ s, y) (flat_map (child_leaves NM []) ch).
  Proof.
    intros Hp. apply in_flat_map in Hp. destruct Hp as [g [Hg Hp]].
    destruct (node_under_leaf g _ _ _ Hp) as [Hne [s [y Hin]]].
    split; [assumption|]. exists s, y. apply in_flat_map. exists g. split; assumption.
  Qed.
End Modes.
