(** WP11 (stretch): the statements of AgreeMisc{Qty,Bal,Sum} lifted to the standard output of the
    commands, for a never-failing stdout, a readable log without parse errors, all headings dated. *)
From HP Require Import Base.Bytes Base.Utf8 Base.Num Model.Scanner Model.Parser Model.Elements Model.Resolver
  Model.Dates Model.Tree Model.Writer Model.Reporters Model.Cli
  Spec.Agree2Spec Proofs.AgreeMiscBase Proofs.AgreeMiscQty Proofs.AgreeMiscBal Proofs.AgreeMiscSum
  Proofs.AgreeMiscElem Proofs.AgreeMiscStats Proofs.AgreeMiscWalk.
From Coq Require Import Lia Permutation.

Section Program.
  Context (NM : Num).
  Notation T := (T NM).
  Notation elements := (elements NM).
  Notation lognode := (lognode NM).
  Notation pnode := (pnode NM).
  Notation db := (list (bytes * elements)).

  (** the days handed to a reporter have pairwise distinct food names *)
  Lemma selected_days_distinct : forall toks bt et (ns : list pnode),
    Forall (fun ln => NoDup (map fst (ln_elems NM ln))) (selected_days NM toks bt et ns).
  Proof.
    intros toks bt et ns. unfold selected_days. apply Forall_forall. intros ln H.
    apply in_flat_map in H. destruct H as [n [_ H]].
    destruct (parse_date toks (header n)) as [c|]; [|contradiction].
    destruct (in_interval bt et (time_of_civil c)); [|contradiction].
    destruct H as [H|[]]. subst ln. apply merge_elements_NoDup.
  Qed.

  (** reporters that write nothing while walking *)
  Lemma walk_chunks_silent : forall (R : reporter NM) π (L : list lognode),
    (forall π st ln, snd (fst (r_process NM R π st ln)) = []) -> walk_chunks NM R π L = [].
  Proof.
    intros R π L H. unfold walk_chunks. generalize (r_init NM R) as st. generalize O as i.
    induction L as [|ln r IH]; intros i st; cbn [walk_chunks_from]; [reflexivity|]. rewrite H, IH. reflexivity.
  Qed.

  (** stateless reporters: one chunk list per day, with that day's oracle *)
  Lemma walk_chunks_from_stateless : forall (R : reporter NM) (g : (list bytes -> list bytes) -> lognode -> list chunk) π,
    (forall π st ln, snd (fst (r_process NM R π st ln)) = g π ln) ->
    forall (L : list lognode) i st,
      walk_chunks_from NM R π i L st
      = flat_map (fun p => g (π (fst p)) (snd p)) (combine (seq i (length L)) L).
  Proof.
    intros R g π H L. induction L as [|ln r IH]; intros i st; cbn [walk_chunks_from length seq combine flat_map]; [reflexivity|].
    rewrite H, IH. reflexivity.
  Qed.

  Section Files.
    Context (w : world) (i : invocation) (op : options) (ldata : bytes).
    Hypothesis Hload : load w i = inr op.
    Hypothesis Hsink : w_sink w = None.
    Hypothesis Hlog : open_file w (op_log op) = Some (OData ldata NoFault).
    Hypothesis Hfin : snd (scan ldata NoFault) = ScanEOF.
    Hypothesis Hne : no_parse_error NM (events NM ldata).
    Hypothesis Hdated : all_dated NM (rc_date (op_rc op)) (nodes_of NM (events NM ldata)).

    Let toks := rc_date (op_rc op).
    Let Htoks : tokenize (op_fmt op) = Some toks := proj1 (load_now w i op Hload).

    (** the days [report quantity], [csv log], [reg], [bal], [report unresolved] select *)
    Let L := selected_days NM toks (op_begin op) (op_end op) (nodes_of NM (events NM ldata)).
    Let es := entries NM L.

    (** report quantity *)
    Theorem quantity_program :
      i_cmd i = CQuantity ->
      (forall l, Permutation (o_flush (w_or w) l) l) ->
      run NM w i
      = {| out_stdout :=
             concat (map (fun nv => f2 NM (snd nv) ++ [c_tab] ++ fst nv ++ [c_lf])
                         (sort_by_value NM (i_desc i)
                            (map (fun f => (f, sum_from_zero NM (qtys_of NM f es)))
                                 (sort_bytes (first_occ (map fst es))))));
           out_status := Ok |}.
    Proof.
      intros Hcmd Hπ. unfold run. rewrite Hload, Hcmd.
      rewrite (run_log_ok NM w op (rep_quantity NM (i_desc i)) toks ldata
                 (never_fails_quantity NM (i_desc i)) Hsink Hlog Htoks Hfin Hne Hdated).
      fold L. rewrite walk_chunks_silent by reflexivity.
      cbn [rep_quantity r_flush]. rewrite (quantity_flush_rows NM (i_desc i) _ _ L Hπ). fold es.
      unfold chunk_bytes. cbn [map concat app]. rewrite map_map. reflexivity.
    Qed.

    (** csv log *)
    Theorem csv_log_program :
      i_cmd i = CCsvLog ->
      run NM w i
      = {| out_stdout := concat (map (fun e => csv_record (csv_row_of NM e)) (csv_entries NM L));
           out_status := Ok |}.
    Proof.
      intros Hcmd. unfold run. rewrite Hload, Hcmd.
      rewrite (run_log_ok NM w op (rep_csv_log NM) toks ldata
                 (never_fails_csv_log NM) Hsink Hlog Htoks Hfin Hne Hdated).
      fold L. rewrite walk_csv_log_chunks. cbn [rep_csv_log r_flush]. unfold chunk_bytes.
      cbn [map concat]. rewrite app_nil_r, map_map. reflexivity.
    Qed.

    Section Book.
      Context (odb : opened) (d : db).
      Hypothesis Hodb : open_file w (op_db op) = Some odb.
      Hypothesis Hres : resolved_db NM w op odb = inr d.

      (** report unresolved *)
      Theorem unresolved_program :
        i_cmd i = CUnresolved ->
        (forall l, Permutation (o_flush (w_or w) l) l) ->
        run NM w i
        = {| out_stdout :=
               concat (map (fun n => n ++ [c_lf])
                           (sort_bytes (first_occ (filter (undefined_in NM d) (map fst es)))));
             out_status := Ok |}.
      Proof.
        intros Hcmd Hπ. unfold run. rewrite Hload, Hcmd.
        rewrite (run_db_log_ok NM w op (rep_unresolved NM) (op_begin op) (op_end op) toks odb d ldata
                   (never_fails_unresolved NM d) (fun _ => eq_refl) Hsink Hodb Hres Hlog Htoks Hfin Hne Hdated).
        fold L. rewrite walk_chunks_silent by reflexivity.
        destruct (unresolved_spec NM d (o_day (w_or w)) L) as [Hst [_ [_ [Hfl _]]]].
        rewrite (Hfl _ Hπ). rewrite Hst. fold es.
        unfold chunk_bytes. cbn [app]. rewrite map_map. reflexivity.
      Qed.

      (** bal (no single element): the tree printed is the one of [balance_total_at] *)
      Theorem balance_program :
        i_cmd i = CBal -> rc_single_element (op_rc op) = [] ->
        let c := op_rc op in
        let root := walk_state NM (rep_balance NM c) (o_day (w_or w)) L in
        run NM w i
        = {| out_stdout := concat (map (render_row NM)
                                       (balance_rows NM (o_flush (w_or w)) (rc_collapse c) (rc_collapse_last c) root));
             out_status := Ok |}
        /\ root = tree_add_all NM (empty_root NM) es
        /\ forall p, p <> [] ->
             total_at NM p (t_children NM root) = assign_then_add NM (map snd (at_or_below NM p es)).
      Proof.
        intros Hcmd Hse c root. split; [|split].
        - unfold run. rewrite Hload, Hcmd. fold c.
          assert (Hmk : bal_reporter NM c d = rep_balance NM c) by (unfold bal_reporter, c; rewrite Hse; reflexivity).
          rewrite (run_db_log_ok NM w op (bal_reporter NM c) (op_begin op) (op_end op) toks odb d ldata);
            try assumption; try (rewrite Hmk; try apply never_fails_balance; reflexivity).
          fold L. rewrite Hmk. fold root. rewrite walk_chunks_silent by reflexivity.
          cbn [rep_balance r_flush]. unfold chunk_bytes. cbn [app]. rewrite map_map. reflexivity.
        - unfold root, walk_state. rewrite walk_balance_from. reflexivity.
        - intros p Hp. apply balance_total_at. exact Hp.
      Qed.
    End Book.
  End Files.

  Lemma flat_map_singleton : forall {A B} (f : A -> B) l, flat_map (fun x => [f x]) l = map f l.
  Proof. intros A B f l. induction l as [|x r IH]; cbn [flat_map map app]; [reflexivity|]. rewrite IH. reflexivity. Qed.

  (** *** summary vs register, at the level of the bytes written per day *)
  Lemma walk_chunks_summary : forall c (d : db) π (L : list lognode),
    walk_chunks NM (rep_summary NM c d) π L
    = map (fun p => checked (render_summary NM c (get_report_item NM c (π (fst p)) d (snd p))))
          (combine (seq O (length L)) L).
  Proof.
    intros c d π L. unfold walk_chunks.
    rewrite (walk_chunks_from_stateless (rep_summary NM c d)
               (fun π ln => [checked (render_summary NM c (get_report_item NM c π d ln))]) π (fun _ _ _ => eq_refl)).
    apply flat_map_singleton.
  Qed.

  Lemma walk_chunks_template : forall c (d : db) π (L : list lognode),
    walk_chunks NM (rep_template NM c d) π L
    = map (fun p => let it := get_report_item NM c (π (fst p)) d (snd p) in
                    checked (if beq (rc_template c) (b "left-aligned") then render_left NM c it else render_default NM c it))
          (combine (seq O (length L)) L).
  Proof.
    intros c d π L. unfold walk_chunks.
    rewrite (walk_chunks_from_stateless (rep_template NM c d)
               (fun π ln => let it := get_report_item NM c π d ln in
                            [checked (if beq (rc_template c) (b "left-aligned") then render_left NM c it else render_default NM c it)])
               π (fun _ _ _ => eq_refl)).
    cbv zeta. apply flat_map_singleton.
  Qed.

  (** [summary ARG] and [reg] over the same window write, day by day, renderings of the same report items *)
  Theorem summary_register_program : forall (w : world) (op : options) bt et toks odb (d : db) ldata,
    w_sink w = None ->
    open_file w (op_db op) = Some odb -> resolved_db NM w op odb = inr d ->
    open_file w (op_log op) = Some (OData ldata NoFault) ->
    tokenize (op_fmt op) = Some toks ->
    snd (scan ldata NoFault) = ScanEOF -> no_parse_error NM (events NM ldata) ->
    all_dated NM toks (nodes_of NM (events NM ldata)) ->
    let c := op_rc op in
    let L := selected_days NM toks bt et (nodes_of NM (events NM ldata)) in
    let items := map (fun p => get_report_item NM c (o_day (w_or w) (fst p)) d (snd p)) (combine (seq O (length L)) L) in
    run_db_log NM w op (rep_summary NM c) bt et
    = {| out_stdout := concat (map (render_summary NM c) items); out_status := Ok |}
    /\ run_db_log NM w op (rep_template NM c) bt et
       = {| out_stdout := concat (map (fun it => if beq (rc_template c) (b "left-aligned")
                                                 then render_left NM c it else render_default NM c it) items);
            out_status := Ok |}.
  Proof.
    intros w op bt et toks odb d ldata Hs Hodb Hres Hlog Ht Hfin Hne Hd c L items. split.
    - rewrite (run_db_log_ok NM w op (rep_summary NM c) bt et toks odb d ldata
                 (never_fails_summary NM c d) (fun _ => eq_refl) Hs Hodb Hres Hlog Ht Hfin Hne Hd).
      fold L. rewrite walk_chunks_summary. cbn [rep_summary r_flush]. unfold chunk_bytes, items.
      cbn [map concat]. rewrite app_nil_r, !map_map. reflexivity.
    - rewrite (run_db_log_ok NM w op (rep_template NM c) bt et toks odb d ldata
                 (never_fails_template NM c d) (fun _ => eq_refl) Hs Hodb Hres Hlog Ht Hfin Hne Hd).
      fold L. rewrite walk_chunks_template. cbn [rep_template r_flush]. unfold chunk_bytes, items.
      cbn [map concat]. rewrite app_nil_r, !map_map. reflexivity.
  Qed.

  (** *** commands that do not walk the log: what reaches a never-failing stdout *)
  Lemma write_all_ok : forall (w : world) cs, w_sink w = None ->
    exists wr1 wr2, bw_chunks (new_writer w) cs = (wr1, false) /\ bw_flush wr1 = (wr2, false)
                    /\ s_got (bw_sink wr2) = chunk_bytes cs.
  Proof.
    intros w cs Hs. destruct (new_writer_ok w Hs) as [Hok Hc].
    destruct (bw_chunks_ok cs (new_writer w) Hok) as [wr1 [H1 [Hok1 Hc1]]].
    destruct (bw_flush_ok wr1 Hok1) as [wr2 [H2 [_ [_ Hg2]]]].
    exists wr1, wr2. split; [exact H1|]. split; [exact H2|]. rewrite Hg2, Hc1, Hc. reflexivity.
  Qed.

  Theorem element_total_program : forall (w : world) (op : options) x desc odb (d : db),
    w_sink w = None -> x <> [] ->
    open_all w [op_db op] = Some [odb] -> resolved_db NM w op odb = inr d ->
    let l := sort_by_value NM desc (element_total_list NM (o_flush (w_or w)) d x) in
    (has_nan NM l && Nat.ltb 20 (length l))%bool = false ->
    run_element_total NM w op x desc
    = {| out_stdout := concat (map (fun nv => f2 NM (snd nv) ++ [c_tab] ++ fst nv ++ [c_lf]) l); out_status := Ok |}.
  Proof.
    intros w op x desc odb d Hs Hx Ho Hr l Hnan.
    rewrite (run_element_total_rows NM w op x desc odb d Hx Ho Hr). cbv zeta. fold l. rewrite Hnan.
    destruct (write_all_ok w (map (element_total_line NM) l) Hs) as [wr1 [wr2 [H1 [H2 Hg]]]].
    rewrite H1, H2. unfold finish. rewrite Hg. unfold chunk_bytes. rewrite map_map. reflexivity.
  Qed.

  Theorem csv_resolved_program : forall (w : world) (op : options) odb (d : db),
    w_sink w = None ->
    open_all w [op_db op] = Some [odb] -> resolved_db NM w op odb = inr d ->
    run_csv_db_resolved NM w op
    = {| out_stdout := concat (map csv_record (resolved_csv_rows NM (o_flush (w_or w)) d)); out_status := Ok |}.
  Proof.
    intros w op odb d Hs Ho Hr. rewrite (run_csv_db_resolved_rows NM w op odb d Ho Hr). cbv zeta.
    destruct (write_all_ok w (map (fun r => (csv_record r, true)) (resolved_csv_rows NM (o_flush (w_or w)) d)) Hs)
      as [wr1 [wr2 [H1 [H2 Hg]]]].
    rewrite H1, H2. unfold finish. rewrite Hg. unfold chunk_bytes. rewrite map_map. reflexivity.
  Qed.

  Theorem stats_program : forall (w : world) (op : options) ldata ddata,
    w_sink w = None ->
    open_file w (op_log op) = Some (OData ldata NoFault) ->
    snd (scan ldata NoFault) = ScanEOF -> no_parse_error NM (events NM ldata) ->
    all_dated NM (rc_date (op_rc op)) (nodes_of NM (events NM ldata)) ->     (* fix F27: else the date error *)
    open_file w (op_db op) = Some (OData ddata NoFault) ->
    snd (scan ddata NoFault) = ScanEOF -> no_parse_error NM (events NM ddata) ->
    let ds := heading_dates NM (rc_date (op_rc op)) (nodes_of NM (events NM ldata)) in
    run_stats NM w op
    = {| out_stdout := chunk_bytes (stats_lines op (length (events NM ddata)) (length (events NM ldata))
                                                (stats_first ds) (stats_last ds));
         out_status := Ok |}.
  Proof.
    intros w op ldata ddata Hs Hol Hlf Hle Hdb Hod Hdf Hde ds.
    rewrite (run_stats_lines NM w op ldata ddata Hol Hlf Hle Hdb Hod Hdf Hde). fold ds.
    destruct (write_all_ok w (stats_lines op (length (events NM ddata)) (length (events NM ldata))
                                          (stats_first ds) (stats_last ds)) Hs) as [wr1 [wr2 [H1 [H2 Hg]]]].
    rewrite H1, H2. unfold finish. rewrite Hg. reflexivity.
  Qed.
End Program.
