(** WP18 / C18, part 1: the producer/consumer transition system of
    [Model/Channel.v] for an ARBITRARY list of sends.

    Everything here is schedule-generic: the theorems quantify over every
    reachable state of [step], i.e. over every interleaving of producer τ
    steps, consumer τ steps and rendezvous, and over all budgets. *)
From Coq Require Import List Arith Lia Wf_nat.
From HP Require Import Base.Bytes Base.Num Model.Scanner Model.Parser Model.Channel.
Import ListNotations.
Local Open Scope nat_scope.
Local Open Scope list_scope.

Section ChannelLTS.
  Context (NM : Num).

  Notation msg := (msg NM).
  Notation state := (state NM).
  Notation pending := (pending NM).
  Notation obs := (obs NM).
  Notation cons := (cons NM).
  Notation ptau := (ptau NM).
  Notation ctau := (ctau NM).
  Notation step := (step NM).
  Notation reachable := (reachable NM).
  Notation init := (init NM).
  Notation after_receive := (after_receive NM).
  Notation spec := (spec NM).
  Notation run_consumer := (run_consumer NM).

  (** ** Definitions used to state the theorems *)

  (** the consumer with policy [p] leaves its loop on receiving [m] *)
  Definition returning (p : policy) (m : msg) : Prop := after_receive p m = Returned.
  Definition continuing (p : policy) (m : msg) : Prop := after_receive p m = Receiving.

  (** [sends] contains a message on which the policy returns *)
  Definition has_returning (p : policy) (sends : list msg) : Prop :=
    exists m, In m sends /\ returning p m.

  (** no transition is enabled: the run is maximal *)
  Definition maximal (p : policy) (s : state) : Prop := forall s', ~ step p s s'.

  (** the consumer is blocked in [select] and nobody will ever send: the
      producer has exited ([pending = []]) while the consumer is still in
      its loop *)
  Definition deadlocked (s : state) : Prop := cons s = Receiving /\ pending s = [].

  (** syntactic description of the states without successor *)
  Definition final (s : state) : Prop :=
    ptau s = 0 /\ (cons s = Returned \/ (pending s = [] /\ ctau s = 0)).

  Definition measure (s : state) : nat := length (pending s) + ptau s + ctau s.

  Definition is_prefix (a l : list msg) : Prop := exists r, l = a ++ r.

  (** [n]-step runs, to state the bound on the length of schedules *)
  Inductive steps (p : policy) : nat -> state -> state -> Prop :=
  | steps_O : forall s, steps p 0 s s
  | steps_S : forall n s s' s'', step p s s' -> steps p n s' s'' -> steps p (S n) s s''.

  (** ** [after_receive] is a two-way choice *)

  Lemma returning_dec : forall p m, {returning p m} + {continuing p m}.
  Proof.
    intros p m. unfold returning, continuing.
    destruct (after_receive p m); [right | left]; reflexivity.
  Qed.

  Lemma continuing_not_returning : forall p m, continuing p m -> ~ returning p m.
  Proof. unfold continuing, returning. intros p m H1 H2. congruence. Qed.

  Lemma has_returning_dec : forall p l, {has_returning p l} + {Forall (continuing p) l}.
  Proof.
    intros p l. induction l as [|m r IH].
    - right. constructor.
    - destruct (returning_dec p m) as [Hm|Hm].
      + left. exists m. split; [left; reflexivity | exact Hm].
      + destruct IH as [IH|IH].
        * left. destruct IH as [m' [Hin Hr]]. exists m'. split; [right; exact Hin | exact Hr].
        * right. constructor; assumption.
  Qed.

  Lemma all_continuing_no_returning : forall p l, Forall (continuing p) l -> ~ has_returning p l.
  Proof.
    intros p l HF [m [Hin Hr]]. rewrite Forall_forall in HF.
    exact (continuing_not_returning p m (HF m Hin) Hr).
  Qed.

  Lemma no_returning_all_continuing : forall p l, ~ has_returning p l -> Forall (continuing p) l.
  Proof. intros p l H. destruct (has_returning_dec p l) as [H'|H']; [contradiction | exact H']. Qed.

  (** a list with a returning message splits at the first one *)
  Lemma has_returning_split : forall p l, has_returning p l ->
    exists pre m rest, l = pre ++ m :: rest /\ Forall (continuing p) pre /\ returning p m.
  Proof.
    intros p l. induction l as [|x r IH]; intros [m [Hin Hr]].
    - destruct Hin.
    - destruct (returning_dec p x) as [Hx|Hx].
      + exists [], x, r. repeat split; [constructor | exact Hx].
      + destruct Hin as [Heq|Hin]; [subst; exfalso; exact (continuing_not_returning _ _ Hx Hr)|].
        destruct (IH (ex_intro _ m (conj Hin Hr))) as [pre [m' [rest [E [HF Hm']]]]].
        exists (x :: pre), m', rest. subst r. repeat split; [constructor; assumption | exact Hm'].
  Qed.

  (** ** [spec] and [run_consumer] *)

  Lemma run_consumer_spec : forall p sends, fst (run_consumer p sends) = spec p sends.
  Proof.
    intros p sends. induction sends as [|m r IH]; [destruct p; reflexivity|].
    cbn [Channel.run_consumer].
    destruct p; destruct m as [n|e|]; cbn [Channel.after_receive Channel.spec Channel.spec_stop Channel.spec_drain] in *;
      try reflexivity;
      destruct (Channel.run_consumer NM _ r) as [seen unsent]; cbn [fst] in *; rewrite IH; reflexivity.
  Qed.

  Lemma run_consumer_partition : forall p sends,
    fst (run_consumer p sends) ++ snd (run_consumer p sends) = sends.
  Proof.
    intros p sends. induction sends as [|m r IH]; [reflexivity|].
    cbn [Channel.run_consumer]. destruct (after_receive p m); [|reflexivity].
    destruct (Channel.run_consumer NM p r) as [seen unsent]. cbn [fst snd app] in *. now rewrite IH.
  Qed.

  Lemma run_consumer_returning : forall p m r, returning p m -> run_consumer p (m :: r) = ([m], r).
  Proof. intros p m r H. unfold returning in H. cbn [Channel.run_consumer]. now rewrite H. Qed.

  Lemma run_consumer_continuing : forall p m r, continuing p m ->
    run_consumer p (m :: r) = (m :: fst (run_consumer p r), snd (run_consumer p r)).
  Proof.
    intros p m r H. unfold continuing in H. cbn [Channel.run_consumer]. rewrite H.
    now destruct (Channel.run_consumer NM p r).
  Qed.

  Lemma run_consumer_app_continuing : forall p pre rest, Forall (continuing p) pre ->
    run_consumer p (pre ++ rest) = (pre ++ fst (run_consumer p rest), snd (run_consumer p rest)).
  Proof.
    intros p pre rest H. induction H as [|x l Hx Hl IH]; cbn [app].
    - now destruct (run_consumer p rest).
    - rewrite run_consumer_continuing by exact Hx. rewrite IH. reflexivity.
  Qed.

  Lemma run_consumer_all_continuing : forall p l, Forall (continuing p) l -> run_consumer p l = (l, []).
  Proof.
    intros p l H. rewrite <- (app_nil_r l) at 1. rewrite run_consumer_app_continuing by exact H.
    cbn. now rewrite app_nil_r.
  Qed.

  Lemma run_consumer_at_returning : forall p pre m rest, Forall (continuing p) pre -> returning p m ->
    run_consumer p (pre ++ m :: rest) = (pre ++ [m], rest).
  Proof.
    intros p pre m rest Hp Hm. rewrite run_consumer_app_continuing by exact Hp.
    now rewrite run_consumer_returning by exact Hm.
  Qed.

  Lemma spec_at_returning : forall p pre m rest, Forall (continuing p) pre -> returning p m ->
    spec p (pre ++ m :: rest) = pre ++ [m].
  Proof. intros p pre m rest Hp Hm. rewrite <- run_consumer_spec, run_consumer_at_returning by assumption. reflexivity. Qed.

  Lemma spec_all_continuing : forall p l, Forall (continuing p) l -> spec p l = l.
  Proof. intros p l H. rewrite <- run_consumer_spec, run_consumer_all_continuing by assumption. reflexivity. Qed.

  Lemma spec_app_continuing : forall p pre rest, Forall (continuing p) pre -> spec p (pre ++ rest) = pre ++ spec p rest.
  Proof. intros p pre rest H. rewrite <- !run_consumer_spec, run_consumer_app_continuing by assumption. reflexivity. Qed.

  (** the brief's statement about the executable [run_consumer]: it computes
      [spec] (unconditionally), and when no returning message occurs that is
      all of [sends] *)
  Theorem run_consumer_correct : forall p sends,
    fst (run_consumer p sends) = spec p sends /\
    fst (run_consumer p sends) ++ snd (run_consumer p sends) = sends /\
    (~ has_returning p sends -> run_consumer p sends = (sends, [])) /\
    (has_returning p sends -> exists pre m,
        fst (run_consumer p sends) = pre ++ [m] /\ Forall (continuing p) pre /\ returning p m).
  Proof.
    intros p sends. split; [apply run_consumer_spec|]. split; [apply run_consumer_partition|]. split.
    - intros H. apply run_consumer_all_continuing, no_returning_all_continuing, H.
    - intros H. destruct (has_returning_split p sends H) as [pre [m [rest [E [Hp Hm]]]]].
      exists pre, m. subst sends. rewrite run_consumer_at_returning by assumption. auto.
  Qed.

  (** ** The invariant *)

  Definition inv (p : policy) (sends : list msg) (s : state) : Prop :=
    sends = obs s ++ pending s /\
    match cons s with
    | Receiving => Forall (continuing p) (obs s)
    | Returned => exists pre m, obs s = pre ++ [m] /\ Forall (continuing p) pre /\ returning p m
    end.

  Lemma inv_init : forall p sends pt ct, inv p sends (init sends pt ct).
  Proof. intros p sends pt ct. split; cbn; [reflexivity | constructor]. Qed.

  Lemma inv_step : forall p sends s s', inv p sends s -> step p s s' -> inv p sends s'.
  Proof.
    intros p sends s s' [Hsends Hcons] Hstep.
    destruct Hstep as [s n Hpt | s n Hct Hrecv | s m rest Hpend Hrecv]; unfold inv; cbn.
    - split; assumption.
    - split; assumption.
    - split.
      + rewrite Hsends, Hpend, <- app_assoc. reflexivity.
      + rewrite Hrecv in Hcons. destruct (after_receive p m) eqn:Em.
        * apply Forall_app. split; [exact Hcons | constructor; [exact Em | constructor]].
        * exists (obs s), m. repeat split; [exact Hcons | exact Em].
  Qed.

  Lemma inv_reachable : forall p sends pt ct s,
    reachable p (init sends pt ct) s -> inv p sends s.
  Proof.
    intros p sends pt ct s H. induction H as [|s s' Hr IH Hs].
    - apply inv_init.
    - exact (inv_step p sends s s' IH Hs).
  Qed.

  (** ** safety *)

  Theorem safety : forall p sends pt ct s,
    reachable p (init sends pt ct) s ->
    sends = obs s ++ pending s /\
    is_prefix (obs s) (spec p sends) /\
    (cons s = Receiving -> Forall (continuing p) (obs s)) /\
    (cons s = Returned -> obs s = spec p sends).
  Proof.
    intros p sends pt ct s H. destruct (inv_reachable _ _ _ _ _ H) as [Hsends Hcons].
    split; [exact Hsends|].
    destruct (cons s) eqn:Ec.
    - split; [|split; [intros _; exact Hcons | discriminate]].
      exists (spec p (pending s)). rewrite Hsends. apply spec_app_continuing, Hcons.
    - destruct Hcons as [pre [m [Eo [Hp Hm]]]].
      assert (E : spec p sends = obs s).
      { rewrite Hsends, Eo, <- app_assoc. cbn [app]. apply spec_at_returning; assumption. }
      split; [exists []; rewrite app_nil_r; exact E|]. split; [discriminate | intros _; symmetry; exact E].
  Qed.

  (** ** At most one rendezvous is enabled, and it is determined by [pending]

      There is a single producer, blocked on the single channel operation
      [hd (pending s)]; so Go's [select] never has two ready cases and its
      pseudo-random choice among ready cases never arises. *)

  Definition rendezvous_target (p : policy) (s : state) (m : msg) (rest : list msg) : state :=
    {| Channel.pending := rest; Channel.obs := obs s ++ [m]; Channel.cons := after_receive p m;
       Channel.ptau := ptau s; Channel.ctau := ctau s |}.

  Lemma step_cases : forall p s s', step p s s' ->
    (obs s' = obs s /\ pending s' = pending s /\ cons s' = cons s /\ ptau s' + ctau s' < ptau s + ctau s) \/
    (exists m rest, pending s = m :: rest /\ cons s = Receiving /\ s' = rendezvous_target p s m rest).
  Proof.
    intros p s s' H. destruct H as [s n Hpt | s n Hct Hrecv | s m rest Hpend Hrecv]; cbn.
    - left. repeat split. lia.
    - left. repeat split. lia.
    - right. exists m, rest. repeat split; assumption.
  Qed.

  Theorem rendezvous_unique : forall p s s1 s2,
    step p s s1 -> step p s s2 -> obs s1 <> obs s -> obs s2 <> obs s -> s1 = s2.
  Proof.
    intros p s s1 s2 H1 H2 N1 N2.
    destruct (step_cases _ _ _ H1) as [[E1 _]|[m1 [r1 [P1 [_ T1]]]]]; [contradiction|].
    destruct (step_cases _ _ _ H2) as [[E2 _]|[m2 [r2 [P2 [_ T2]]]]]; [contradiction|].
    rewrite P1 in P2. injection P2 as -> ->. now rewrite T1, T2.
  Qed.

  (** every transition that delivers a message delivers the head of [pending] *)
  Theorem rendezvous_determined_by_pending : forall p s s',
    step p s s' -> obs s' <> obs s ->
    exists m, hd_error (pending s) = Some m /\ obs s' = obs s ++ [m] /\ pending s' = tl (pending s).
  Proof.
    intros p s s' H N. destruct (step_cases _ _ _ H) as [[E _]|[m [r [P [_ T]]]]]; [contradiction|].
    exists m. rewrite P, T. cbn. auto.
  Qed.

  (** ** termination: the measure decreases by exactly one at every step *)

  Theorem termination : forall p s s', step p s s' -> measure s' < measure s.
  Proof.
    intros p s s' H. unfold measure.
    destruct H as [s n Hpt | s n Hct Hrecv | s m rest Hpend Hrecv]; cbn.
    - rewrite Hpt. lia.
    - rewrite Hct. lia.
    - rewrite Hpend. cbn. lia.
  Qed.

  Lemma measure_step_exact : forall p s s', step p s s' -> measure s = S (measure s').
  Proof.
    intros p s s' H. unfold measure.
    destruct H as [s n Hpt | s n Hct Hrecv | s m rest Hpend Hrecv]; cbn.
    - rewrite Hpt. lia.
    - rewrite Hct. lia.
    - rewrite Hpend. cbn. lia.
  Qed.

  (** every schedule from [s] has exactly [measure s - measure s'] steps, so
      at most [measure s] *)
  Theorem schedule_length : forall p n s s', steps p n s s' -> measure s = n + measure s'.
  Proof.
    intros p n s s' H. induction H as [s | n s s' s'' Hs Hss IH]; [reflexivity|].
    rewrite (measure_step_exact _ _ _ Hs), IH. reflexivity.
  Qed.

  Corollary schedule_length_bound : forall p sends pt ct n s,
    steps p n (init sends pt ct) s -> n <= length sends + pt + ct.
  Proof.
    intros p sends pt ct n s H. apply schedule_length in H. unfold measure in H at 1. cbn in H. lia.
  Qed.

  Theorem no_infinite_schedule : forall p (f : nat -> state), ~ (forall i, step p (f i) (f (S i))).
  Proof.
    intros p f H.
    assert (B : forall i, measure (f i) + i <= measure (f 0)).
    { induction i as [|i IH]; [lia|]. specialize (termination _ _ _ (H i)). lia. }
    specialize (B (S (measure (f 0)))). lia.
  Qed.

  Theorem step_well_founded : forall p, well_founded (fun s' s => step p s s').
  Proof.
    intros p. apply (well_founded_lt_compat _ measure). intros s' s H. exact (termination _ _ _ H).
  Qed.

  Lemma steps_reachable : forall p n s0 s, steps p n s0 s -> reachable p s0 s.
  Proof.
    intros p n s0 s H.
    assert (G : forall s1, reachable p s1 s0 -> reachable p s1 s).
    { induction H as [s | n s s' s'' Hs Hss IH]; intros s1 Hr; [exact Hr|].
      apply IH. exact (reach_step _ _ _ _ _ Hr Hs). }
    apply G. constructor.
  Qed.

  Lemma steps_snoc : forall p n s0 s s', steps p n s0 s -> step p s s' -> steps p (S n) s0 s'.
  Proof.
    intros p n s0 s s' H Hs. induction H as [s | n s0 s1 s2 H01 H12 IH].
    - econstructor; [exact Hs | constructor].
    - econstructor; [exact H01 | exact (IH Hs)].
  Qed.

  Lemma reachable_steps : forall p s0 s, reachable p s0 s -> exists n, steps p n s0 s.
  Proof.
    intros p s0 s H. induction H as [|s s' Hr [n IH] Hs].
    - exists 0. constructor.
    - exists (S n). exact (steps_snoc _ _ _ _ _ IH Hs).
  Qed.

  Lemma reachable_trans : forall p s0 s1 s2, reachable p s0 s1 -> reachable p s1 s2 -> reachable p s0 s2.
  Proof.
    intros p s0 s1 s2 H01 H12. induction H12 as [|s s' Hr IH Hs]; [exact H01|].
    exact (reach_step _ _ _ _ _ IH Hs).
  Qed.

  (** ** progress *)

  Lemma final_maximal : forall p s, final s -> maximal p s.
  Proof.
    intros p s [Hpt Hrest] s' H.
    destruct H as [s n Hpt' | s n Hct Hrecv | s m rest Hpend Hrecv].
    - congruence.
    - destruct Hrest as [Hc|[_ Hc]]; congruence.
    - destruct Hrest as [Hc|[Hc _]]; congruence.
  Qed.

  Lemma final_dec : forall s, {final s} + {~ final s}.
  Proof.
    intros s. unfold final.
    destruct (ptau s) as [|n]; [|right; intros [H _]; discriminate].
    destruct (cons s) eqn:Ec; [|left; auto].
    destruct (pending s) as [|m r]; [|right; intros [_ [H|[H _]]]; discriminate].
    destruct (ctau s) as [|n]; [left; auto|right; intros [_ [H|[_ H]]]; discriminate].
  Qed.

  (** a state is either final or has a successor -- for every state, reachable or not *)
  Lemma final_or_step : forall p s, final s \/ exists s', step p s s'.
  Proof.
    intros p s. destruct (ptau s) as [|n] eqn:Ept.
    2:{ right. eexists. exact (step_prod_tau NM p s n Ept). }
    destruct (cons s) eqn:Ec.
    2:{ left. split; [exact Ept | left; exact Ec]. }
    destruct (pending s) as [|m r] eqn:Ep.
    2:{ right. eexists. exact (step_rendezvous NM p s m r Ep Ec). }
    destruct (ctau s) as [|n] eqn:Ect.
    2:{ right. eexists. exact (step_cons_tau NM p s n Ect Ec). }
    left. split; [exact Ept | right; split; [exact Ep | exact Ect]].
  Qed.

  Lemma maximal_final : forall p s, maximal p s -> final s.
  Proof. intros p s H. destruct (final_or_step p s) as [F|[s' Hs]]; [exact F | destruct (H s' Hs)]. Qed.

  Theorem final_iff_maximal : forall p s, final s <-> maximal p s.
  Proof. intros p s. split; [apply final_maximal | apply maximal_final]. Qed.

  Theorem progress : forall p sends pt ct s,
    reachable p (init sends pt ct) s -> ~ final s -> exists s', step p s s'.
  Proof. intros p sends pt ct s _ H. destruct (final_or_step p s) as [F|Hs]; [contradiction | exact Hs]. Qed.

  (** the interesting half of progress: a consumer that is still in its loop
      is never left waiting for a producer that has exited, provided the
      message it returns on is among the sends; its rendezvous is enabled *)
  Theorem consumer_never_starves : forall p sends pt ct s,
    reachable p (init sends pt ct) s -> has_returning p sends -> cons s = Receiving ->
    exists m rest, pending s = m :: rest /\ step p s (rendezvous_target p s m rest).
  Proof.
    intros p sends pt ct s H Hret Hrecv.
    destruct (inv_reachable _ _ _ _ _ H) as [Hsends Hcons]. rewrite Hrecv in Hcons.
    destruct (pending s) as [|m rest] eqn:Ep.
    - exfalso. rewrite app_nil_r in Hsends. subst sends.
      exact (all_continuing_no_returning _ _ Hcons Hret).
    - exists m, rest. split; [reflexivity|]. exact (step_rendezvous NM p s m rest Ep Hrecv).
  Qed.

  (** deadlock (consumer waiting, producer gone) is reachable exactly when
      [sends] has no returning message *)
  Theorem deadlock_only_without_returning : forall p sends pt ct s,
    reachable p (init sends pt ct) s -> deadlocked s -> ~ has_returning p sends /\ obs s = sends.
  Proof.
    intros p sends pt ct s H [Hrecv Hpend].
    destruct (inv_reachable _ _ _ _ _ H) as [Hsends Hcons]. rewrite Hrecv in Hcons.
    rewrite Hpend, app_nil_r in Hsends. subst sends. split; [|reflexivity].
    apply all_continuing_no_returning, Hcons.
  Qed.

  Lemma run_all_continuing : forall p pre rest pt ct o, Forall (continuing p) pre ->
    reachable p {| Channel.pending := pre ++ rest; Channel.obs := o; Channel.cons := Receiving;
                   Channel.ptau := pt; Channel.ctau := ct |}
                {| Channel.pending := rest; Channel.obs := o ++ pre; Channel.cons := Receiving;
                   Channel.ptau := pt; Channel.ctau := ct |}.
  Proof.
    intros p pre rest pt ct o H. revert o. induction H as [|m l Hm Hl IH]; intros o.
    - rewrite app_nil_r. constructor.
    - eapply reachable_trans; [|replace (o ++ m :: l) with ((o ++ [m]) ++ l) by (now rewrite <- app_assoc); apply IH].
      eapply reach_step; [constructor|].
      match goal with |- Channel.step _ _ ?s _ =>
        pose proof (step_rendezvous NM p s m (l ++ rest) eq_refl eq_refl) as Hs end.
      cbn in Hs. unfold continuing in Hm. rewrite Hm in Hs. exact Hs.
  Qed.

  Theorem deadlock_reachable_without_returning : forall p sends pt ct,
    ~ has_returning p sends ->
    exists s, reachable p (init sends pt ct) s /\ deadlocked s /\ obs s = sends.
  Proof.
    intros p sends pt ct H. apply no_returning_all_continuing in H.
    eexists. split; [|split].
    - unfold init. rewrite <- (app_nil_r sends) at 1. apply run_all_continuing, H.
    - split; reflexivity.
    - reflexivity.
  Qed.

  (** ** maximal runs exist (so the theorems about them are not vacuous) *)

  Theorem maximal_run_exists : forall p s0, exists s, reachable p s0 s /\ maximal p s.
  Proof.
    intros p s0. induction s0 as [s0 IH] using (well_founded_induction (step_well_founded p)).
    destruct (final_or_step p s0) as [F|[s1 Hs]].
    - exists s0. split; [constructor | apply final_maximal, F].
    - destruct (IH s1 Hs) as [s [Hr Hm]]. exists s. split; [|exact Hm].
      eapply reachable_trans; [|exact Hr]. eapply reach_step; [constructor | exact Hs].
  Qed.

  (** ** final_spec: what a maximal run has observed *)

  Theorem final_spec : forall p sends pt ct s,
    reachable p (init sends pt ct) s -> maximal p s ->
    obs s = spec p sends /\
    pending s = snd (run_consumer p sends) /\
    ptau s = 0 /\
    (has_returning p sends -> cons s = Returned) /\
    (~ has_returning p sends -> deadlocked s /\ ctau s = 0 /\ obs s = sends).
  Proof.
    intros p sends pt ct s H Hmax. apply maximal_final in Hmax. destruct Hmax as [Hpt Hfin].
    destruct (inv_reachable _ _ _ _ _ H) as [Hsends Hcons].
    destruct Hfin as [Hret | [Hpend Hct]].
    - rewrite Hret in Hcons. destruct Hcons as [pre [m [Eo [Hp Hm]]]].
      assert (Hrc : run_consumer p sends = (obs s, pending s)).
      { rewrite Hsends, Eo, <- app_assoc. cbn [app]. apply run_consumer_at_returning; assumption. }
      split; [rewrite <- run_consumer_spec, Hrc; reflexivity|].
      split; [rewrite Hrc; reflexivity|]. split; [exact Hpt|]. split; [intros _; exact Hret|].
      intros Hn. exfalso. apply Hn. exists m. split; [|exact Hm].
      rewrite Hsends, Eo. apply in_or_app. left. apply in_or_app. right. left. reflexivity.
    - destruct (cons s) eqn:Ec.
      + rewrite Hpend, app_nil_r in Hsends. subst sends.
        split; [symmetry; apply spec_all_continuing; exact Hcons|].
        split; [rewrite Hpend, run_consumer_all_continuing by exact Hcons; reflexivity|].
        split; [exact Hpt|]. split.
        * intros Hr. exfalso. exact (all_continuing_no_returning _ _ Hcons Hr).
        * intros _. split; [split; [exact Ec | exact Hpend]|]. split; [exact Hct | reflexivity].
      + destruct Hcons as [pre [m [Eo [Hp Hm]]]].
        rewrite Hpend, app_nil_r in Hsends. subst sends.
        split; [rewrite Eo; symmetry; apply spec_at_returning; assumption|].
        split; [rewrite Hpend, Eo, run_consumer_at_returning by assumption; reflexivity|].
        split; [exact Hpt|]. split; [reflexivity|].
        intros Hn. exfalso. apply Hn. exists m. split; [|exact Hm].
        rewrite Eo. apply in_or_app. right. left. reflexivity.
  Qed.

  (** the consumer "terminates": in every maximal run of an input that
      contains its returning message it has left its loop *)
  Corollary consumer_returns : forall p sends pt ct s,
    reachable p (init sends pt ct) s -> maximal p s -> has_returning p sends ->
    cons s = Returned /\ obs s = spec p sends.
  Proof.
    intros p sends pt ct s H Hmax Hret.
    destruct (final_spec _ _ _ _ _ H Hmax) as [Ho [_ [_ [Hr _]]]]. split; [exact (Hr Hret) | exact Ho].
  Qed.

  (** ** any two schedules, with any budgets, end with the same observation
      (and leave the same messages unsent) *)
  Theorem any_schedule_same_observation : forall p sends pt ct pt' ct' s s',
    reachable p (init sends pt ct) s -> maximal p s ->
    reachable p (init sends pt' ct') s' -> maximal p s' ->
    obs s = obs s' /\ pending s = pending s' /\ cons s = cons s'.
  Proof.
    intros p sends pt ct pt' ct' s s' H Hmax H' Hmax'.
    destruct (final_spec _ _ _ _ _ H Hmax) as [Ho [Hp [_ [Hr Hn]]]].
    destruct (final_spec _ _ _ _ _ H' Hmax') as [Ho' [Hp' [_ [Hr' Hn']]]].
    split; [congruence|]. split; [congruence|].
    destruct (has_returning_dec p sends) as [Hret|Hno].
    - rewrite (Hr Hret), (Hr' Hret). reflexivity.
    - apply all_continuing_no_returning in Hno.
      destruct (Hn Hno) as [[Hc _] _]. destruct (Hn' Hno) as [[Hc' _] _]. congruence.
  Qed.
End ChannelLTS.
