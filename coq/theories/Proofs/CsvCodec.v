(** WP14 / C13: the CSV writer of Reporters.v ([csv_field], [csv_record]) is
    inverted by the independent RFC 4180 reader of Model/Csv.v, for ALL byte
    strings as fields. *)
From Coq Require Import Lia ZifyBool ZifyNat ZifyN.
From HP Require Import Base.Bytes Base.Utf8 Base.Num Model.Csv Model.Reporters.
Open Scope N_scope.

(** *** byte-string equality *)
Lemma beq_refl : forall x, beq x x = true.
Proof.
  induction x as [|a x IH]; cbn [beq]; [reflexivity|].
  rewrite N.eqb_refl, IH. reflexivity.
Qed.

Lemma beq_true_iff : forall x y, beq x y = true <-> x = y.
Proof.
  induction x as [|a x IH]; intros [|c y]; cbn [beq]; split; intros H; try reflexivity; try discriminate.
  - apply andb_true_iff in H. destruct H as [H1 H2].
    apply N.eqb_eq in H1. apply IH in H2. subst. reflexivity.
  - injection H as -> ->. rewrite N.eqb_refl. cbn [andb]. apply IH. reflexivity.
Qed.

(** *** the writer's classification of bytes *)
Definition csv_special (c : N) : bool := (c =? c_lf) || (c =? c_cr) || (c =? c_quote) || (c =? 44).

Definition csv_escape (f : bytes) : bytes :=
  flat_map (fun c => if (c =? c_quote)%N then [c_quote; c_quote] else [c]) f.

Lemma csv_field_quoted : forall f, csv_needs_quotes f = true ->
  csv_field f = c_quote :: csv_escape f ++ [c_quote].
Proof. intros f H. unfold csv_field. rewrite H. reflexivity. Qed.

Lemma csv_field_plain : forall f, csv_needs_quotes f = false -> csv_field f = f.
Proof. intros f H. unfold csv_field. rewrite H. reflexivity. Qed.

Lemma csv_plain_no_special : forall f, csv_needs_quotes f = false ->
  forallb (fun c => negb (csv_special c)) f = true.
Proof.
  intros [|c f] H; [reflexivity|].
  unfold csv_needs_quotes in H.
  apply orb_false_iff in H. destruct H as [H _].
  apply orb_false_iff in H. destruct H as [_ H].
  rewrite forallb_forall. intros x Hx.
  destruct (csv_special x) eqn:E; [|reflexivity].
  exfalso. assert (Hex : existsb (fun c0 => (c0 =? c_lf) || (c0 =? c_cr) || (c0 =? c_quote) || (c0 =? 44)) (c :: f) = true).
  { apply existsb_exists. exists x. split; [exact Hx|exact E]. }
  rewrite Hex in H. discriminate.
Qed.

(** *** single steps of the reader *)
Section Steps.
  Variables (rows : list (list bytes)) (fields : list bytes).

  Lemma special_false : forall c, csv_special c = false ->
    (c =? c_lf) = false /\ (c =? c_cr) = false /\ (c =? c_quote) = false /\ (c =? 44) = false.
  Proof.
    intros c H. unfold csv_special in H.
    apply orb_false_iff in H. destruct H as [H H4].
    apply orb_false_iff in H. destruct H as [H H3].
    apply orb_false_iff in H. destruct H as [H1 H2]. auto.
  Qed.

  Lemma step_unquoted : forall c r cur, csv_special c = false ->
    csv_scan (c :: r) rows fields cur Unquoted = csv_scan r rows fields (c :: cur) Unquoted.
  Proof.
    intros c r cur H. apply special_false in H. destruct H as (H1 & H2 & H3 & H4).
    cbn [csv_scan]. rewrite H3, H4, H1, H2. reflexivity.
  Qed.

  Lemma step_start_plain : forall c r, csv_special c = false ->
    csv_scan (c :: r) rows fields [] FieldStart = csv_scan r rows fields [c] Unquoted.
  Proof.
    intros c r H. apply special_false in H. destruct H as (H1 & H2 & H3 & H4).
    cbn [csv_scan]. rewrite H3, H4, H1, H2. reflexivity.
  Qed.

  (** an unquoted run is accumulated *)
  Lemma run_unquoted : forall g rest cur,
    forallb (fun c => negb (csv_special c)) g = true ->
    csv_scan (g ++ rest) rows fields cur Unquoted = csv_scan rest rows fields (rev g ++ cur) Unquoted.
  Proof.
    induction g as [|c g IH]; intros rest cur H; [reflexivity|].
    cbn [forallb] in H. apply andb_true_iff in H. destruct H as [Hc Hg].
    apply negb_true_iff in Hc.
    cbn [app]. rewrite step_unquoted by exact Hc. rewrite IH by exact Hg.
    cbn [rev]. rewrite <- app_assoc. reflexivity.
  Qed.

  (** the body of a quoted field, up to and including the closing quote *)
  Lemma run_quoted : forall g rest cur,
    csv_scan (csv_escape g ++ c_quote :: rest) rows fields cur Quoted
    = csv_scan rest rows fields (rev g ++ cur) QuoteSeen.
  Proof.
    induction g as [|c g IH]; intros rest cur.
    - cbn [csv_escape flat_map app csv_scan rev]. rewrite N.eqb_refl. reflexivity.
    - unfold csv_escape. cbn [flat_map]. fold (csv_escape g).
      destruct (c =? c_quote) eqn:E.
      + apply N.eqb_eq in E. subst c.
        cbn [app csv_scan]. rewrite !N.eqb_refl.
        rewrite IH. cbn [rev]. rewrite <- app_assoc. reflexivity.
      + cbn [app csv_scan]. rewrite E. rewrite IH. cbn [rev]. rewrite <- app_assoc. reflexivity.
  Qed.
End Steps.

(** *** one field, followed by a comma or by the record terminator *)
Inductive field_end := EndComma | EndLF.

Definition end_byte (e : field_end) : N := match e with EndComma => 44 | EndLF => c_lf end.

(** the reader's state after a field [f] has been closed by [e] *)
Definition after_field (e : field_end) (rest : bytes) (rows : list (list bytes)) (fields : list bytes) (f : bytes)
  : option (list (list bytes)) :=
  match e with
  | EndComma => csv_scan rest rows (f :: fields) [] FieldStart
  | EndLF => csv_scan rest (rev (f :: fields) :: rows) [] [] FieldStart
  end.

Lemma close_unquoted : forall e rest rows fields cur,
  csv_scan (end_byte e :: rest) rows fields cur Unquoted = after_field e rest rows fields (rev cur).
Proof. intros [|] rest rows fields cur; reflexivity. Qed.

Lemma close_quoteseen : forall e rest rows fields cur,
  csv_scan (end_byte e :: rest) rows fields cur QuoteSeen = after_field e rest rows fields (rev cur).
Proof. intros [|] rest rows fields cur; reflexivity. Qed.

Lemma close_empty : forall e rest rows fields,
  csv_scan (end_byte e :: rest) rows fields [] FieldStart = after_field e rest rows fields [].
Proof. intros [|] rest rows fields; reflexivity. Qed.

Theorem scan_field : forall f e rest rows fields,
  csv_scan (csv_field f ++ end_byte e :: rest) rows fields [] FieldStart = after_field e rest rows fields f.
Proof.
  intros f e rest rows fields.
  destruct (csv_needs_quotes f) eqn:Q.
  - rewrite csv_field_quoted by exact Q.
    cbn [app]. change (csv_scan (c_quote :: ?s) rows fields [] FieldStart) with (csv_scan s rows fields [] Quoted).
    rewrite <- app_assoc. cbn [app]. rewrite run_quoted. rewrite close_quoteseen.
    rewrite app_nil_r, rev_involutive. reflexivity.
  - rewrite csv_field_plain by exact Q.
    pose proof (csv_plain_no_special f Q) as P.
    destruct f as [|c g].
    + cbn [app]. apply close_empty.
    + cbn [forallb] in P. apply andb_true_iff in P. destruct P as [Pc Pg]. apply negb_true_iff in Pc.
      cbn [app]. rewrite step_start_plain by exact Pc. rewrite run_unquoted by exact Pg.
      rewrite close_unquoted. rewrite rev_app_distr, rev_involutive. reflexivity.
Qed.

(** *** one record *)
Lemma join_cons2 : forall sep x y (l : list bytes), join sep (x :: y :: l) = x ++ sep ++ join sep (y :: l).
Proof. reflexivity. Qed.

Lemma scan_record_gen : forall fs f rest rows fields,
  csv_scan (join [44] (map csv_field (f :: fs)) ++ c_lf :: rest) rows fields [] FieldStart
  = csv_scan rest (rev (rev (f :: fs) ++ fields) :: rows) [] [] FieldStart.
Proof.
  induction fs as [|g fs IH]; intros f rest rows fields.
  - cbn [map join]. apply (scan_field f EndLF).
  - cbn [map]. rewrite join_cons2. rewrite <- !app_assoc. cbn [app].
    rewrite (scan_field f EndComma). cbn [after_field].
    change (csv_field g :: map csv_field fs) with (map csv_field (g :: fs)).
    rewrite IH. do 3 f_equal. cbn [rev]. rewrite <- !app_assoc. reflexivity.
Qed.

Theorem scan_record : forall r rest rows, r <> [] ->
  csv_scan (csv_record r ++ rest) rows [] [] FieldStart = csv_scan rest (r :: rows) [] [] FieldStart.
Proof.
  intros [|f fs] rest rows H; [congruence|].
  unfold csv_record. rewrite <- app_assoc. cbn [app]. rewrite scan_record_gen.
  rewrite app_nil_r, rev_involutive. reflexivity.
Qed.

(** *** all records *)
Theorem scan_records : forall rs rest rows, (forall r, In r rs -> r <> []) ->
  csv_scan (concat (map csv_record rs) ++ rest) rows [] [] FieldStart
  = csv_scan rest (rev rs ++ rows) [] [] FieldStart.
Proof.
  induction rs as [|r rs IH]; intros rest rows H; [reflexivity|].
  cbn [map concat]. rewrite <- app_assoc. rewrite scan_record by (apply H; left; reflexivity).
  rewrite IH by (intros r' Hr'; apply H; right; exact Hr').
  cbn [rev]. rewrite <- app_assoc. reflexivity.
Qed.

Theorem csv_decode_encode : forall rows : list (list bytes), (forall r, In r rows -> r <> []) ->
  csv_decode (concat (map csv_record rows)) = Some rows.
Proof.
  intros rows H. unfold csv_decode.
  rewrite <- (app_nil_r (concat (map csv_record rows))).
  rewrite scan_records by exact H. cbn [csv_scan]. rewrite app_nil_r, rev_involutive. reflexivity.
Qed.

(** the hypothesis [r <> []] cannot be dropped: the empty record and the record
    of one empty field are written as the same line *)
Lemma csv_decode_encode_empty_record_refuted :
  csv_record [] = csv_record [[]] /\ csv_decode (concat (map csv_record [[]])) = Some [[[]]].
Proof. split; reflexivity. Qed.

(** consequences: the writer is injective (nothing is lost) *)
Corollary csv_encode_injective : forall rows1 rows2 : list (list bytes),
  (forall r, In r rows1 -> r <> []) -> (forall r, In r rows2 -> r <> []) ->
  concat (map csv_record rows1) = concat (map csv_record rows2) -> rows1 = rows2.
Proof.
  intros rows1 rows2 H1 H2 E.
  pose proof (csv_decode_encode rows1 H1) as D1. rewrite E in D1.
  rewrite (csv_decode_encode rows2 H2) in D1. injection D1 as ->. reflexivity.
Qed.

Corollary csv_field_injective : forall f g, csv_field f = csv_field g -> f = g.
Proof.
  intros f g E.
  assert (H : concat (map csv_record [[f]]) = concat (map csv_record [[g]])).
  { cbn [map concat]. unfold csv_record. cbn [map join]. rewrite E. reflexivity. }
  apply csv_encode_injective in H.
  - injection H as ->. reflexivity.
  - intros r [<-|[]]. discriminate.
  - intros r [<-|[]]. discriminate.
Qed.

(** *** RFC 4180 shape of a rendered field (stretch item [csv_record_is_rfc4180]):
    a field is either written verbatim and then contains none of comma, quote,
    CR, LF; or it is enclosed in quotes and every quote inside is doubled (the
    text between the enclosing quotes is the image of the field under
    "double every quote"). *)
Inductive rfc4180_field : bytes -> bytes -> Prop :=
| Rfc_plain : forall f, forallb (fun c => negb (csv_special c)) f = true -> rfc4180_field f f
| Rfc_quoted : forall f, rfc4180_field f (c_quote :: csv_escape f ++ [c_quote]).

Lemma csv_field_is_rfc4180 : forall f, rfc4180_field f (csv_field f).
Proof.
  intros f. destruct (csv_needs_quotes f) eqn:Q.
  - rewrite csv_field_quoted by exact Q. constructor.
  - rewrite csv_field_plain by exact Q. constructor. apply csv_plain_no_special. exact Q.
Qed.

(** quotes in the escaped body come in pairs: removing one of each pair gives the field back *)
Fixpoint csv_unescape (s : bytes) : bytes :=
  match s with
  | c :: ((c' :: r') as r) => if (c =? c_quote) && (c' =? c_quote) then c_quote :: csv_unescape r' else c :: csv_unescape r
  | _ => s
  end.

Lemma csv_unescape_escape : forall f, csv_unescape (csv_escape f) = f.
Proof.
  induction f as [|c f IH]; [reflexivity|].
  unfold csv_escape. cbn [flat_map]. fold (csv_escape f).
  destruct (c =? c_quote) eqn:E.
  - apply N.eqb_eq in E. subst c. cbn [app csv_unescape]. rewrite N.eqb_refl. cbn [andb]. rewrite IH. reflexivity.
  - cbn [app]. destruct (csv_escape f) as [|c' r'] eqn:F.
    + cbn [csv_unescape]. rewrite <- IH. reflexivity.
    + cbn [csv_unescape]. rewrite E. cbn [andb]. rewrite <- IH. cbn [csv_unescape]. reflexivity.
Qed.

Theorem csv_record_is_rfc4180 : forall fs : list bytes,
  exists cells, csv_record fs = join [44] cells ++ [c_lf] /\ Forall2 rfc4180_field fs cells.
Proof.
  intros fs. exists (map csv_field fs). split; [reflexivity|].
  induction fs as [|f fs IH]; cbn [map]; constructor; [apply csv_field_is_rfc4180|exact IH].
Qed.

(** *** non-vacuity: every awkward kind of field, through the writer and back *)
Definition sample_rows : list (list bytes) :=
  [ [b "a,b"; b "say ""hi"""; b " lead"];
    [[]; b "x" ++ [c_lf] ++ b "y"; b "\."];
    [[208; 186; 208; 176; 209; 136; 208; 176]; [c_cr; c_lf]; [c_quote]];   (* UTF-8 "kasha" in Cyrillic, CRLF, a lone quote *)
    [[]];
    [[]; []];
    [[226; 128; 131; 65]; [c_cr]; b "plain"] ].                           (* leading U+2003 EM SPACE *)

Example sample_rows_nonempty : forall r, In r sample_rows -> r <> [].
Proof. intros r H. repeat (destruct H as [<-|H]; [discriminate|]). destruct H. Qed.

Example sample_rows_encoding :
  concat (map csv_record sample_rows)
  = b """a,b"",""say """"hi"""""","" lead""" ++ [c_lf]
    ++ b ",""x" ++ [c_lf] ++ b "y"",""\.""" ++ [c_lf]
    ++ [208; 186; 208; 176; 209; 136; 208; 176] ++ b ",""" ++ [c_cr; c_lf] ++ b """,""""""""" ++ [c_lf]
    ++ [c_lf]
    ++ b "," ++ [c_lf]
    ++ b """" ++ [226; 128; 131; 65] ++ b """,""" ++ [c_cr] ++ b """,plain" ++ [c_lf].
Proof. vm_compute. reflexivity. Qed.

Example sample_rows_roundtrip : csv_decode (concat (map csv_record sample_rows)) = Some sample_rows.
Proof. vm_compute. reflexivity. Qed.

(** the same by the theorem *)
Example sample_rows_roundtrip' : csv_decode (concat (map csv_record sample_rows)) = Some sample_rows.
Proof. apply csv_decode_encode. exact sample_rows_nonempty. Qed.
