(** WP04 / C09 -- a malformed line in the BOOK (database) file: every command
    that reads the book fails with the message of the first one. *)
From Coq Require Import Lia.
From HP Require Import Base.Bytes Base.Utf8 Base.Num Model.Scanner Model.Parser Model.Elements Model.Resolver
  Model.Dates Model.Tree Model.Writer Model.Reporters Model.Cli.
From HP Require Import Proofs.MalformedBase Proofs.MalformedLog.
Open Scope N_scope.

Section Book.
  Context (NM : Num).
  Notation event := (event NM).
  Notation pnode := (pnode NM).
  Notation errors_of := (errors_of NM).
  Notation nodes_of := (nodes_of NM).

  (** the book as loaded from the records that precede the first error *)
  Definition db_of_nodes (ns : list pnode) : list (bytes * elements NM) :=
    fold_left (fun d n => db_push NM d (header n) (elems n)) ns [].

  (** * LoadDatabaseFromStream / WithResolvedDatabase *)
  Lemma load_db_first_error_split : forall data pre e post,
    events NM data = pre ++ EErr e :: post -> errors_of pre = [] ->
    load_db NM (OData data NoFault) = (db_of_nodes (nodes_of pre), Some (EParse (perr_message e))).
  Proof.
    intros data pre e post Hev Hpre. unfold load_db. rewrite parse_opened_data.
    rewrite (stop_at_errors_first NM _ (fun e => EParse (perr_message e))
               (fun d n => db_push NM d (header n) (elems n))
               (fun _ _ => eq_refl) (fun _ _ => eq_refl) data pre e post [] Hev Hpre).
    reflexivity.
  Qed.

  Theorem load_db_first_error : forall data e es,
    errors_of (events NM data) = e :: es ->
    snd (load_db NM (OData data NoFault)) = Some (EParse (perr_message e)).
  Proof.
    intros data e es H. destruct (first_error_split NM _ _ _ H) as (pre & post & Hev & Hpre & _).
    rewrite (load_db_first_error_split data pre e post Hev Hpre). reflexivity.
  Qed.

  Theorem resolved_db_first_error : forall (w : world) (op : options) data e es,
    errors_of (events NM data) = e :: es ->
    resolved_db NM w op (OData data NoFault) = inl (EParse (perr_message e)).
  Proof.
    intros w op data e es H. unfold resolved_db.
    pose proof (load_db_first_error data e es H) as L.
    destruct (load_db NM (OData data NoFault)) as [d r]. cbn [snd] in L. rewrite L. reflexivity.
  Qed.

  (** clean readable book: loaded in full (used for the log-side theorems' non-vacuity) *)
  Theorem load_db_clean : forall data,
    errors_of (events NM data) = [] -> readable data ->
    load_db NM (OData data NoFault) = (db_of_nodes (nodes_of (events NM data)), None).
  Proof.
    intros data Hc Hr. unfold load_db. rewrite parse_opened_data.
    rewrite (stop_at_errors_clean NM _
               (fun d n => db_push NM d (header n) (elems n))
               (fun _ _ => eq_refl) data [] Hc Hr).
    reflexivity.
  Qed.

  (** complement: no malformed line before a line of 65536 bytes or more: "token too long" instead
      (malformed lines AFTER such a line are never seen: they are not in [events]) *)
  Theorem resolved_db_too_long : forall (w : world) (op : options) data,
    errors_of (events NM data) = [] -> ~ readable data ->
    resolved_db NM w op (OData data NoFault) = inl (EScan true).
  Proof.
    intros w op data Hc Hr. unfold resolved_db, load_db. rewrite parse_opened_data.
    rewrite (stop_at_errors_too_long NM _
               (fun d n => db_push NM d (header n) (elems n))
               (fun _ _ => eq_refl) data [] Hc Hr).
    reflexivity.
  Qed.

  (** * the commands *)
  Lemma open_all_two : forall w p q o1 o2,
    open_file w p = Some o1 -> open_file w q = Some o2 -> open_all w [p; q] = Some [o1; o2].
  Proof. intros w p q o1 o2 H1 H2. cbn [open_all]. rewrite H1, H2. reflexivity. Qed.

  Lemma open_all_one : forall w p o, open_file w p = Some o -> open_all w [p] = Some [o].
  Proof. intros w p o H. cbn [open_all]. rewrite H. reflexivity. Qed.

  Definition fails_with (e : perr) : outcome :=
    {| out_stdout := []; out_status := Failed (EParse (perr_message e)) |}.

  (** reg, bal, report totals, report unresolved, summary: book resolved first, then the log walked *)
  Theorem run_db_log_first_error_book : forall (w : world) (op : options) mk bt et data e es olog,
    op_db op <> [] ->
    op_db op <> dev_null ->
    lookup (op_db op) (w_fs w) = Some (FFile data) ->
    lookup (op_db op) (w_read_fault w) = None ->
    open_file w (op_log op) = Some olog ->          (* the log opens (whatever it contains) *)
    errors_of (events NM data) = e :: es ->
    run_db_log NM w op mk bt et
    = {| out_stdout := []; out_status := Failed (EParse (perr_message e)) |}.
  Proof.
    intros w op mk bt et data e es olog Hne Hnd Hfs Hrf Hlog He.
    assert (Hopen : open_file w (op_db op) = Some (OData data NoFault))
      by (apply open_plain; repeat split; assumption).
    unfold run_db_log. rewrite (open_all_two _ _ _ _ _ Hopen Hlog).
    rewrite (resolved_db_first_error w op data e es He). reflexivity.
  Qed.

  (** complement: when the log cannot be opened the command fails before reading the book *)
  Theorem run_db_log_log_missing : forall (w : world) (op : options) mk bt et,
    open_file w (op_log op) = None ->
    run_db_log NM w op mk bt et = {| out_stdout := []; out_status := Failed EOpen |}.
  Proof.
    intros w op mk bt et Hlog. unfold run_db_log. cbn [open_all]. rewrite Hlog.
    destruct (open_file w (op_db op)); reflexivity.
  Qed.

  (** report element-total X *)
  Theorem run_element_total_first_error_book : forall (w : world) (op : options) x desc data e es,
    x <> [] ->
    op_db op <> [] ->
    op_db op <> dev_null ->
    lookup (op_db op) (w_fs w) = Some (FFile data) ->
    lookup (op_db op) (w_read_fault w) = None ->
    errors_of (events NM data) = e :: es ->
    run_element_total NM w op x desc
    = {| out_stdout := []; out_status := Failed (EParse (perr_message e)) |}.
  Proof.
    intros w op x desc data e es Hx Hne Hnd Hfs Hrf He.
    assert (Hopen : open_file w (op_db op) = Some (OData data NoFault))
      by (apply open_plain; repeat split; assumption).
    unfold run_element_total. destruct x as [|c x']; [contradiction|].
    rewrite (open_all_one _ _ _ Hopen).
    rewrite (resolved_db_first_error w op data e es He). reflexivity.
  Qed.

  (** csv database-resolved *)
  Theorem run_csv_db_resolved_first_error_book : forall (w : world) (op : options) data e es,
    op_db op <> [] ->
    op_db op <> dev_null ->
    lookup (op_db op) (w_fs w) = Some (FFile data) ->
    lookup (op_db op) (w_read_fault w) = None ->
    errors_of (events NM data) = e :: es ->
    run_csv_db_resolved NM w op
    = {| out_stdout := []; out_status := Failed (EParse (perr_message e)) |}.
  Proof.
    intros w op data e es Hne Hnd Hfs Hrf He.
    assert (Hopen : open_file w (op_db op) = Some (OData data NoFault))
      by (apply open_plain; repeat split; assumption).
    unfold run_csv_db_resolved.
    rewrite (open_all_one _ _ _ Hopen).
    rewrite (resolved_db_first_error w op data e es He). reflexivity.
  Qed.

  (** * csv database: rows are written as records arrive; the records before the first error get out *)
  Definition csv_db_chunks (n : pnode) : list chunk :=
    map (fun r => (csv_record r, true)) (csv_db_rows NM (header n) (elems n)).

  Definition csv_db_text (ns : list pnode) : bytes :=
    concat (map (fun n => concat (map csv_record (csv_db_rows NM (header n) (elems n)))) ns).

  Lemma chunk_bytes_csv : forall n,
    chunk_bytes (csv_db_chunks n) = concat (map csv_record (csv_db_rows NM (header n) (elems n))).
  Proof. intros n. unfold chunk_bytes, csv_db_chunks. rewrite map_map. cbn [fst]. reflexivity. Qed.

  Section CsvCallback.
    Context (cb : bw -> event -> bw * bool * option cerr).
    Hypothesis cb_eq : forall wr ev,
      cb wr ev = match ev with
                 | EErr e => (wr, true, Some (EParse (perr_message e)))
                 | ENode n =>
                     let '(wr', werr) := bw_chunks wr (csv_db_chunks n) in
                     (wr', werr, if werr then Some EWrite else None)
                 end.

    Definition csv_step (wr : bw) (ev : event) : bw :=
      match ev with EErr _ => wr | ENode n => fst (bw_chunks wr (csv_db_chunks n)) end.

    Lemma csv_loop : forall ns wr, bw_ok wr ->
      exists wr', drive_loop NM cb (map ENode ns) wr = (wr', None) /\ bw_ok wr'
                  /\ bw_content wr' = bw_content wr ++ csv_db_text ns.
    Proof.
      induction ns as [|n r IH]; intros wr Hwr.
      - exists wr. split; [reflexivity|]. split; [exact Hwr|]. symmetry. apply app_nil_r.
      - cbn [map drive_loop]. rewrite cb_eq.
        destruct (bw_chunks_ok (csv_db_chunks n) wr Hwr) as (w1 & E1 & Hw1 & C1). rewrite E1.
        destruct (IH w1 Hw1) as (w2 & E2 & Hw2 & C2). exists w2. split; [exact E2|]. split; [exact Hw2|].
        rewrite C2, C1, chunk_bytes_csv. unfold csv_db_text. cbn [map concat]. symmetry. apply app_assoc.
    Qed.

    Lemma csv_parse_first_error : forall data pre e post wr,
      events NM data = pre ++ EErr e :: post -> errors_of pre = [] -> bw_ok wr ->
      exists wr', parse_stream NM cb data NoFault wr = (wr', Some (inl (EParse (perr_message e))))
                  /\ bw_ok wr' /\ bw_content wr' = bw_content wr ++ csv_db_text (nodes_of pre).
    Proof.
      intros data pre e post wr Hev Hpre Hwr.
      destruct (events_split_loop NM data pre e post Hev) as (post' & Hl & _).
      rewrite parse_stream_NoFault, Hl.
      destruct (csv_loop (nodes_of pre) wr Hwr) as (w1 & E1 & Hw1 & C1).
      rewrite <- (errors_of_nil_nodes NM pre Hpre) in E1.
      exists w1. split; [|split; assumption].
      rewrite (drive_stops NM cb pre (EErr e) post' _ _ wr w1 w1 (Some (EParse (perr_message e))) E1).
      - reflexivity.
      - rewrite cb_eq. reflexivity.
    Qed.
  End CsvCallback.

  Theorem run_csv_db_first_error_book : forall (w : world) (op : options) data pre e post,
    op_db op <> [] ->
    op_db op <> dev_null ->
    lookup (op_db op) (w_fs w) = Some (FFile data) ->
    lookup (op_db op) (w_read_fault w) = None ->
    w_sink w = None ->
    events NM data = pre ++ EErr e :: post -> errors_of pre = [] ->
    run_csv_db NM w op
    = {| out_stdout := csv_db_text (nodes_of pre);          (* the rows of the records before the error *)
         out_status := Failed (EParse (perr_message e)) |}.
  Proof.
    intros w op data pre e post Hne Hnd Hfs Hrf Hsink Hev Hpre.
    assert (Hopen : open_file w (op_db op) = Some (OData data NoFault))
      by (apply open_plain; repeat split; assumption).
    unfold run_csv_db. rewrite (open_all_one _ _ _ Hopen).
    rewrite parse_opened_data.
    assert (Hwr : bw_ok (new_writer w)) by (apply bw_new_ok; exact Hsink).
    edestruct (csv_parse_first_error _ (fun wr ev => eq_refl) data pre e post (new_writer w) Hev Hpre Hwr)
      as (w1 & E1 & Hw1 & C1).
    unfold csv_db_chunks in E1. rewrite E1. cbn [fst snd].
    destruct (bw_flush_ok w1 Hw1) as (w2 & E2 & Hw2 & B2 & G2). rewrite E2.
    unfold finish, status_of. rewrite G2, C1. reflexivity.
  Qed.

  (** the status alone, from the error list *)
  Corollary run_csv_db_first_error_book_status : forall (w : world) (op : options) data e es,
    op_db op <> [] ->
    op_db op <> dev_null ->
    lookup (op_db op) (w_fs w) = Some (FFile data) ->
    lookup (op_db op) (w_read_fault w) = None ->
    w_sink w = None ->
    errors_of (events NM data) = e :: es ->
    out_status (run_csv_db NM w op) = Failed (EParse (perr_message e)).
  Proof.
    intros w op data e es Hne Hnd Hfs Hrf Hsink He.
    destruct (first_error_split NM _ _ _ He) as (pre & post & Hev & Hpre & _).
    rewrite (run_csv_db_first_error_book w op data pre e post Hne Hnd Hfs Hrf Hsink Hev Hpre). reflexivity.
  Qed.

  (** * stats: reads the LOG first (counting records, stopping at its first error and -- fix F27 -- at the
        first heading that is not a date), then the book *)
  Definition stats_fold (toks : list ltoken) (st : nat * option time * time) (n : pnode) : nat * option time * time :=
    let '(cnt, first, last) := st in
    match parse_date toks (header n) with
    | Some c => let t := time_of_civil c in (S cnt, match first with Some _ => first | None => Some t end, t)
    | None => st
    end.

  Theorem run_stats_first_error_book : forall (w : world) (op : options) ldata data e es,
    op_log op <> [] ->
    op_log op <> dev_null ->
    lookup (op_log op) (w_fs w) = Some (FFile ldata) ->
    lookup (op_log op) (w_read_fault w) = None ->
    errors_of (events NM ldata) = [] -> readable ldata ->       (* the log itself is fine *)
    Forall (dated NM (rc_date (op_rc op))) (nodes_of (events NM ldata)) ->    (* and its headings are dates *)
    op_db op <> [] ->
    op_db op <> dev_null ->
    lookup (op_db op) (w_fs w) = Some (FFile data) ->
    lookup (op_db op) (w_read_fault w) = None ->
    errors_of (events NM data) = e :: es ->
    run_stats NM w op
    = {| out_stdout := []; out_status := Failed (EParse (perr_message e)) |}.
  Proof.
    intros w op ldata data e es Hlne Hlnd Hlfs Hlrf Hlc Hlr Hld Hne Hnd Hfs Hrf He.
    assert (Hlopen : open_file w (op_log op) = Some (OData ldata NoFault))
      by (apply open_plain; repeat split; assumption).
    assert (Hopen : open_file w (op_db op) = Some (OData data NoFault))
      by (apply open_plain; repeat split; assumption).
    destruct (first_error_split NM _ _ _ He) as (pre & post & Hev & Hpre & _).
    unfold run_stats. rewrite Hlopen.
    rewrite parse_opened_data.
    set (toks := rc_date (op_rc op)) in *.
    rewrite (stop_at_errors_good_clean NM _ (stats_fold toks) (dated NM toks));
      [| intros [[cnt fi] la] n Hn; unfold dated in Hn; cbn [stats_fold];
         destruct (parse_date toks (header n)); [reflexivity|contradiction]
       | exact Hlc | exact Hld | exact Hlr ].
    cbn [fst snd].
    match goal with |- context [fold_left ?f ?l ?a] => destruct (fold_left f l a) as [[cl fi] la] end.
    rewrite Hopen. rewrite parse_opened_data.
    rewrite (stop_at_errors_first NM _ (fun e => EParse (perr_message e))
               (fun (c : nat) (n : pnode) => S c)
               (fun _ _ => eq_refl) (fun _ _ => eq_refl) data pre e post O Hev Hpre).
    reflexivity.
  Qed.

  (** complement: an error in the log is what stats reports (the book is not even read) *)
  Theorem run_stats_first_error_log : forall (w : world) (op : options) ldata pre e post,
    op_log op <> [] ->
    op_log op <> dev_null ->
    lookup (op_log op) (w_fs w) = Some (FFile ldata) ->
    lookup (op_log op) (w_read_fault w) = None ->
    events NM ldata = pre ++ EErr e :: post -> errors_of pre = [] ->
    Forall (dated NM (rc_date (op_rc op))) (nodes_of pre) ->     (* the headings before it are dates *)
    run_stats NM w op
    = {| out_stdout := []; out_status := Failed (EParse (perr_message e)) |}.
  Proof.
    intros w op ldata pre e post Hlne Hlnd Hlfs Hlrf Hev Hpre Hd.
    assert (Hlopen : open_file w (op_log op) = Some (OData ldata NoFault))
      by (apply open_plain; repeat split; assumption).
    unfold run_stats. rewrite Hlopen.
    rewrite parse_opened_data.
    set (toks := rc_date (op_rc op)) in *.
    rewrite (stop_at_errors_good_first NM _ (fun e => EParse (perr_message e)) (stats_fold toks) (dated NM toks))
      with (pre := pre) (e := e) (post := post);
      [| intros s e0; reflexivity
       | intros [[cnt fi] la] n Hn; unfold dated in Hn; cbn [stats_fold];
         destruct (parse_date toks (header n)); [reflexivity|contradiction]
       | exact Hev | exact Hpre | exact Hd ].
    cbn [fst snd].
    match goal with |- context [fold_left ?f ?l ?a] => destruct (fold_left f l a) as [[cl fi] la] end.
    reflexivity.
  Qed.

  (** fix F27: a heading that is not a date is an error for stats as for every other command: the first
      one (no malformed line, only dated headings before it) ends the run with the date error, nothing
      is printed and the book is not reached *)
  Theorem run_stats_bad_date_first : forall (w : world) (op : options) ldata pre n post,
    op_log op <> [] ->
    op_log op <> dev_null ->
    lookup (op_log op) (w_fs w) = Some (FFile ldata) ->
    lookup (op_log op) (w_read_fault w) = None ->
    events NM ldata = pre ++ ENode n :: post -> errors_of pre = [] ->
    Forall (dated NM (rc_date (op_rc op))) (nodes_of pre) ->
    parse_date (rc_date (op_rc op)) (header n) = None ->
    post <> [] \/ readable ldata ->
    run_stats NM w op = {| out_stdout := []; out_status := Failed EBadDate |}.
  Proof.
    intros w op ldata pre n post Hlne Hlnd Hlfs Hlrf Hev Hpre Hd Hbad Hpost.
    assert (Hlopen : open_file w (op_log op) = Some (OData ldata NoFault))
      by (apply open_plain; repeat split; assumption).
    unfold run_stats. rewrite Hlopen.
    rewrite parse_opened_data.
    set (toks := rc_date (op_rc op)) in *.
    rewrite (stop_at_errors_good_stops_at_node NM _ (stats_fold toks) (dated NM toks))
      with (pre := pre) (n := n) (post := post)
           (s' := fold_left (stats_fold toks) (nodes_of pre) (O, None, zero_time)) (e := EBadDate);
      [| intros [[cnt fi] la] m Hm; unfold dated in Hm; cbn [stats_fold];
         destruct (parse_date toks (header m)); [reflexivity|contradiction]
       | exact Hev | exact Hpre | exact Hd
       | destruct (fold_left (stats_fold toks) (nodes_of pre) (O, None, zero_time)) as [[cnt fi] la];
         rewrite Hbad; reflexivity
       | exact Hpost ].
    cbn [fst snd].
    match goal with |- context [fold_left ?f ?l ?a] => destruct (fold_left f l a) as [[cl fi] la] end.
    reflexivity.
  Qed.
End Book.
