(** The decimal numeral of a natural number ([dec_of_N]): it is a non-empty
    digit string without superfluous leading zeros whose value is the number.
    Used for the fixed-width date fields and for the integer instance of the
    number law. *)
From Coq Require Import Lia ZifyBool ZifyNat ZifyN.
From HP Require Import Base.Bytes Base.Num.
Open Scope N_scope.

Lemma digits_val_app x : forall y a,
  digits_val (x ++ y) a = match digits_val x a with Some a' => digits_val y a' | None => None end.
Proof.
  induction x as [|c x IH]; intros y a; [reflexivity|]. cbn [app digits_val].
  destruct (is_digit c); [apply IH|reflexivity].
Qed.

Lemma ddf_unfold f n acc :
  dec_digits_fuel (S f) n acc
  = if n / 10 =? 0 then (48 + n mod 10) :: acc else dec_digits_fuel f (n / 10) ((48 + n mod 10) :: acc).
Proof. reflexivity. Qed.

Lemma ddf_spec fuel : forall n acc, n < 2 ^ N.of_nat fuel ->
  exists ds, dec_digits_fuel (S fuel) n acc = ds ++ acc /\ ds <> [] /\ forallb is_digit ds = true
             /\ (forall a, digits_val ds a = Some (a * 10 ^ N.of_nat (length ds) + n))
             /\ (length ds = 1%nat \/ 10 ^ N.of_nat (length ds - 1) <= n).
Proof.
  induction fuel as [|fuel IH]; intros n acc Hn.
  - assert (n = 0) by (cbn in Hn; lia). subst n. exists [48]. split; [reflexivity|].
    split; [discriminate|]. split; [reflexivity|]. split; [|left; reflexivity]. intros a. cbn. f_equal; lia.
  - rewrite ddf_unfold.
    assert (Hm : n mod 10 < 10) by (apply N.mod_lt; lia).
    assert (Hdm : n = 10 * (n / 10) + n mod 10) by (apply N.div_mod'; lia).
    assert (Hd : is_digit (48 + n mod 10) = true) by (unfold is_digit; lia).
    destruct (N.eqb_spec (n / 10) 0) as [Hq|Hq].
    + exists [48 + n mod 10]. split; [reflexivity|]. split; [discriminate|].
      split; [cbn [forallb]; rewrite Hd; reflexivity|]. split; [|left; reflexivity].
      intros a. cbn [digits_val length]. rewrite Hd.
      f_equal. change (10 ^ N.of_nat 1) with 10. lia.
    + assert (Hq2 : n / 10 < 2 ^ N.of_nat fuel).
      { apply N.div_lt_upper_bound; [lia|]. rewrite Nat2N.inj_succ, N.pow_succ_r' in Hn. lia. }
      destruct (IH (n / 10) ((48 + n mod 10) :: acc) Hq2) as [ds' [E [Hne [Hdig [Hval Hlead]]]]].
      exists (ds' ++ [48 + n mod 10]). split; [rewrite E; rewrite <- app_assoc; reflexivity|].
      split; [destruct ds'; discriminate|].
      split; [rewrite forallb_app, Hdig; cbn [forallb]; rewrite Hd; reflexivity|].
      assert (Hlen : length (ds' ++ [48 + n mod 10]) = S (length ds')) by (rewrite app_length; cbn; lia).
      split.
      * intros a. rewrite digits_val_app, Hval. cbn [digits_val]. rewrite Hd. f_equal.
        rewrite Hlen, Nat2N.inj_succ, N.pow_succ_r'.
        set (P := 10 ^ N.of_nat (length ds')) in *. lia.
      * right. rewrite Hlen. replace (S (length ds') - 1)%nat with (length ds') by lia.
        destruct Hlead as [H1|H1].
        -- rewrite H1. change (10 ^ N.of_nat 1) with 10. lia.
        -- assert (Hpos : (0 < length ds')%nat) by (destruct ds'; [congruence|cbn; lia]).
           replace (length ds') with (S (length ds' - 1)) at 1 by lia.
           rewrite Nat2N.inj_succ, N.pow_succ_r'. lia.
Qed.

Lemma dec_of_N_spec n :
  dec_of_N n <> [] /\ forallb is_digit (dec_of_N n) = true /\ digits_val (dec_of_N n) 0 = Some n
  /\ (length (dec_of_N n) = 1%nat \/ 10 ^ N.of_nat (length (dec_of_N n) - 1) <= n).
Proof.
  unfold dec_of_N.
  destruct (ddf_spec (N.to_nat (N.size n)) n []) as [ds [E [Hne [Hdig [Hval Hlead]]]]].
  - rewrite N2Nat.id. apply N.size_gt.
  - rewrite E. rewrite app_nil_r. split; [exact Hne|]. split; [exact Hdig|]. split; [|exact Hlead].
    rewrite Hval. reflexivity.
Qed.

(** a number below 10^w has at most w digits *)
Lemma dec_of_N_length n w : (0 < w)%nat -> n < 10 ^ N.of_nat w -> (length (dec_of_N n) <= w)%nat.
Proof.
  intros Hw Hn. destruct (dec_of_N_spec n) as [_ [_ [_ [H|H]]]]; [lia|].
  assert (Hlt : 10 ^ N.of_nat (length (dec_of_N n) - 1) < 10 ^ N.of_nat w) by lia.
  apply N.pow_lt_mono_r_iff in Hlt; lia.
Qed.
