(** WP04 / C09 -- "reports every malformed line once": the messages lint prints
    contain no LF, so the output splits at LF into exactly one line per
    malformed line of the file (plus the "No errors found" line when there is
    none), in file order. *)
From Coq Require Import Lia.
From HP Require Import Base.Bytes Base.Utf8 Base.Num Model.Scanner Model.Parser Model.Elements Model.Resolver
  Model.Dates Model.Tree Model.Writer Model.Reporters Model.Cli.
From HP Require Import Proofs.MalformedBase Proofs.MalformedLint.
Open Scope N_scope.

Definition nolf (l : bytes) : bool := forallb (fun c => negb (c =? c_lf)) l.

Lemma nolf_app : forall a c, nolf (a ++ c) = (nolf a && nolf c)%bool.
Proof. intros a c. apply forallb_app. Qed.

Lemma nolf_incl : forall a c, (forall x, In x a -> In x c) -> nolf c = true -> nolf a = true.
Proof.
  intros a c H Hc. unfold nolf in *. rewrite forallb_forall in *. intros x Hx. apply Hc, H, Hx.
Qed.

Lemma nolf_rev : forall a, nolf (rev a) = nolf a.
Proof.
  intros a. destruct (nolf a) eqn:E.
  - apply (nolf_incl _ a); [intros x Hx; apply in_rev; exact Hx|exact E].
  - destruct (nolf (rev a)) eqn:E2; [|reflexivity].
    rewrite <- E. symmetry. apply (nolf_incl _ (rev a)); [intros x Hx; apply in_rev in Hx; exact Hx|exact E2].
Qed.

(** * splitting at LF *)
Lemma split_on_line : forall l rest, nolf l = true ->
  split_on c_lf (l ++ c_lf :: rest) = l :: split_on c_lf rest.
Proof.
  induction l as [|a l IH]; intros rest H.
  - cbn [app split_on]. rewrite N.eqb_refl. reflexivity.
  - cbn [nolf forallb] in H. apply andb_true_iff in H. destruct H as [H1 H2].
    cbn [app split_on]. apply negb_true_iff in H1. rewrite H1.
    fold (nolf l) in H2. rewrite (IH rest H2). reflexivity.
Qed.

Lemma split_on_lines : forall ls, Forall (fun l => nolf l = true) ls ->
  split_on c_lf (concat (map (fun l => l ++ [c_lf]) ls)) = ls ++ [[]].
Proof.
  induction ls as [|l r IH]; intros H; [reflexivity|].
  inversion H as [|l0 r0 Hl Hr]; subst l0 r0.
  cbn [map concat]. rewrite <- app_assoc. cbn [app].
  rewrite (split_on_line l _ Hl), (IH Hr). reflexivity.
Qed.

(** * the scanner's lines contain no LF *)
Lemma raw_lines_nolf : forall s cur, nolf cur = true ->
  Forall (fun p => nolf (fst p) = true) (raw_lines cur s).
Proof.
  induction s as [|c r IH]; intros cur Hc; cbn [raw_lines].
  - destruct cur as [|x cur']; [constructor|].
    constructor; [|constructor]. cbn [fst]. rewrite nolf_rev. exact Hc.
  - destruct (c =? c_lf) eqn:E.
    + constructor; [cbn [fst]; rewrite nolf_rev; exact Hc|]. apply IH. reflexivity.
    + apply IH. cbn [nolf forallb]. rewrite E. cbn [negb andb]. exact Hc.
Qed.

Lemma drop_cr_incl : forall l x, In x (drop_cr l) -> In x l.
Proof.
  intros l x. unfold drop_cr. destruct (rev l) as [|c r] eqn:E; [auto|].
  destruct (c =? c_cr); [|auto]. intros H. apply in_rev in H.
  apply in_rev. rewrite E. right. exact H.
Qed.

Lemma take_lines_nolf : forall l, Forall (fun p => nolf (fst p) = true) l ->
  Forall (fun x => nolf x = true) (fst (take_lines l)).
Proof.
  induction l as [|[raw t] r IH]; intros H; [constructor|].
  inversion H as [|p0 r0 Hp Hr]; subst p0 r0. cbn [take_lines].
  destruct (max_token <=? lengthN raw); [constructor|].
  specialize (IH Hr). destruct (take_lines r) as [ls tl]. cbn [fst] in *.
  constructor; [|exact IH]. apply (nolf_incl _ raw); [apply drop_cr_incl|exact Hp].
Qed.

Lemma scan_nolf : forall data, Forall (fun x => nolf x = true) (fst (scan data NoFault)).
Proof.
  intros data. unfold scan.
  pose proof (take_lines_nolf _ (raw_lines_nolf data [] eq_refl)) as H.
  destruct (take_lines (raw_lines [] data)) as [ls tl]. exact H.
Qed.

(** * the parser's errors quote lines (and parts of lines) *)
Definition perr_ok (e : perr) : Prop :=
  match e with
  | BadSyntax _ raw => nolf raw = true
  | Conversion txt _ raw => nolf txt = true /\ nolf raw = true
  end.

Lemma trim_left_incl : forall set s x, In x (trim_left set s) -> In x s.
Proof.
  induction s as [|c r IH]; intros x H; [exact H|].
  cbn [trim_left] in H. destruct (memb c set); [right; apply IH; exact H|exact H].
Qed.

Lemma trim_incl : forall set s x, In x (trim set s) -> In x s.
Proof.
  intros set s x H. unfold trim, trim_right in H.
  apply in_rev in H. apply trim_left_incl in H. apply in_rev in H. apply trim_left_incl in H. exact H.
Qed.

Lemma skipn_incl : forall {A} n (l : list A) x, In x (skipn n l) -> In x l.
Proof.
  intros A n l x H. rewrite <- (firstn_skipn n l). apply in_or_app. right. exact H.
Qed.

Section Lines.
  Context (NM : Num).

  Lemma classify_bad : forall ln line ir e, nolf line = true ->
    classify NM ln line ir = LBad NM e -> perr_ok e.
  Proof.
    intros ln line ir e Hl H. unfold classify in H.
    destruct (trim trim_text line) as [|t0 t] eqn:Et; [discriminate|].
    destruct line as [|l0 l] eqn:El; [discriminate|].
    destruct (l0 =? comment_char); [discriminate|].
    destruct (negb ((l0 =? c_space) || (l0 =? c_tab) || (l0 =? c_dash))); [discriminate|].
    destruct (negb ir); [discriminate|].
    destruct (t0 =? comment_char); [discriminate|].
    destruct (last_index_any blanks (t0 :: t)) as [sep|].
    - destruct (of_lexeme NM (trim trim_qty (skipn sep (t0 :: t)))); [discriminate|].
      inversion H; subst e. cbn [perr_ok]. split; [|exact Hl].
      apply (nolf_incl _ (l0 :: l)); [|exact Hl].
      intros x Hx. apply trim_incl in Hx. apply skipn_incl in Hx. rewrite <- Et in Hx.
      apply trim_incl in Hx. exact Hx.
    - inversion H; subst e. exact Hl.
  Qed.

  Definition ev_ok (ev : event NM) : Prop := match ev with EErr e => perr_ok e | ENode _ => True end.

  Lemma parse_loop_ok : forall lines, Forall (fun x => nolf x = true) lines ->
    forall ln cur, Forall ev_ok (fst (parse_loop NM lines ln cur)).
  Proof.
    induction lines as [|line rest IH]; intros Hl ln cur; [constructor|].
    inversion Hl as [|l0 r0 H1 H2]; subst l0 r0. cbn [parse_loop].
    destruct (classify NM (ln + 1) line (match cur with Some _ => true | None => false end)) as [|h|mp|name v|e] eqn:Ec.
    - apply IH. exact H2.
    - specialize (IH H2 (ln + 1) (Some (new_node NM h))).
      destruct (parse_loop NM rest (ln + 1) (Some (new_node NM h))) as [evs last]. cbn [fst] in *.
      destruct cur; [constructor; [exact I|exact IH]|exact IH].
    - apply IH. exact H2.
    - apply IH. exact H2.
    - specialize (IH H2 (ln + 1) cur).
      destruct (parse_loop NM rest (ln + 1) cur) as [evs last]. cbn [fst] in *.
      constructor; [|exact IH]. exact (classify_bad _ _ _ _ H1 Ec).
  Qed.

  Lemma errors_of_ok : forall evs, Forall ev_ok evs -> Forall perr_ok (errors_of NM evs).
  Proof.
    induction evs as [|ev r IH]; intros H; [constructor|].
    inversion H as [|e0 r0 H1 H2]; subst e0 r0.
    destruct ev as [n|e]; [apply IH; exact H2|]. cbn. constructor; [exact H1|apply IH; exact H2].
  Qed.

  (** every error of every file quotes LF-free text *)
  Theorem events_errors_ok : forall data, Forall perr_ok (errors_of NM (events NM data)).
  Proof.
    intros data. rewrite errors_of_events. apply errors_of_ok.
    unfold loop_events, parse_lines. apply parse_loop_ok. apply scan_nolf.
  Qed.

  (** * decimal numerals and the messages *)
  Lemma dec_digits_ge : forall fuel n acc, Forall (fun c => 48 <= c) acc ->
    Forall (fun c => 48 <= c) (dec_digits_fuel fuel n acc).
  Proof.
    induction fuel as [|f IH]; intros n acc H; cbn [dec_digits_fuel]; [exact H|].
    destruct (N.eqb (n / 10) 0).
    - constructor; [apply N.le_add_r|exact H].
    - apply IH. constructor; [apply N.le_add_r|exact H].
  Qed.

  Lemma dec_of_N_nolf : forall n, nolf (dec_of_N n) = true.
  Proof.
    intros n. unfold dec_of_N, nolf. apply forallb_forall. intros x Hx.
    pose proof (dec_digits_ge (S (N.to_nat (N.size n))) n [] (Forall_nil _)) as H.
    rewrite Forall_forall in H. specialize (H x Hx).
    apply negb_true_iff. apply N.eqb_neq. unfold c_lf. lia.
  Qed.

  Lemma perr_message_nolf : forall e, perr_ok e -> nolf (perr_message e) = true.
  Proof.
    intros [ln raw|txt ln raw] H; cbn [perr_message perr_ok] in *.
    - rewrite !nolf_app, dec_of_N_nolf, H. reflexivity.
    - destruct H as [H1 H2]. rewrite !nolf_app, dec_of_N_nolf, H1, H2. reflexivity.
  Qed.

  Lemma lint_lines_nolf : forall data silent, Forall (fun l => nolf l = true) (lint_lines NM data silent).
  Proof.
    intros data silent. unfold lint_lines. apply Forall_app. split.
    - apply Forall_forall. intros l Hl. apply in_map_iff in Hl. destruct Hl as (e & He & Hin).
      subst l. apply perr_message_nolf.
      pose proof (events_errors_ok data) as H. rewrite Forall_forall in H. apply H. exact Hin.
    - destruct (is_nil (errors_of NM (events NM data)) && negb silent)%bool; constructor; [reflexivity|constructor].
  Qed.

  (** * the output of lint, line by line *)
  Theorem lint_output_lines : forall (w : world) (file data : bytes) (silent : bool),
    file <> [] ->
    file <> dev_null ->
    lookup file (w_fs w) = Some (FFile data) ->
    lookup file (w_read_fault w) = None ->
    w_sink w = None ->
    readable data ->
    split_on c_lf (out_stdout (run_lint NM w file silent))
    = map perr_message (errors_of NM (events NM data))
      ++ (if (is_nil (errors_of NM (events NM data)) && negb silent)%bool then [b "No errors found"] else [])
      ++ [[]].
  Proof.
    intros w file data silent Hne Hnd Hfs Hrf Hsink Hr.
    destruct (lint_ok_iff_clean NM w file data silent Hne Hnd Hfs Hrf Hsink Hr) as [H _].
    rewrite H, (split_on_lines _ (lint_lines_nolf data silent)).
    unfold lint_lines. rewrite <- app_assoc. reflexivity.
  Qed.
End Lines.
