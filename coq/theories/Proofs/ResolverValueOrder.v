(** WP02 (C01) – "regardless of the order in which recipes are declared or used".
    A. (no law) [ref_node] and [paths] see the book only through [lookup]: any
       re-ordering of the declarations of a book with unique keys leaves every
       value unchanged.
    B. (commutative semiring) the order of the ingredients inside the recipes
       does not matter either. *)
From Coq Require Import Lia ZifyBool ZifyNat ZifyN Permutation Sorted.
From HP Require Import Base.Bytes Base.Num Model.Elements Model.Resolver Spec.ResolverSpec.
From HP Require Import Proofs.ResolverValueBytes Proofs.ResolverValueStruct Proofs.ResolverValueSum.

(** * A. declaration order *)
Section DeclOrder.
  Context (NM : Num).
  Notation elements := (elements NM).
  Notation db := (db NM).

  Lemma ref_node_book_ext : forall (B1 B2 : db),
    (forall k, lookup k B1 = lookup k B2) -> forall f r, ref_node NM B1 f r = ref_node NM B2 f r.
  Proof.
    intros B1 B2 Hext. induction f as [|f IH]; intro r; [reflexivity|].
    rewrite !ref_node_S, <- Hext. destruct (lookup r B1) as [els|]; [|reflexivity].
    rewrite (ref_loop_ext NM (ref_node NM B1 f) (ref_node NM B2 f)) by (intros e v _; apply IH).
    reflexivity.
  Qed.

  Lemma paths_book_ext : forall (B1 B2 : db),
    (forall k, lookup k B1 = lookup k B2) -> forall f r, paths NM B1 f r = paths NM B2 f r.
  Proof.
    intros B1 B2 Hext. induction f as [|f IH]; intro r; [reflexivity|].
    rewrite !paths_S, <- Hext. destruct (lookup r B1) as [els|]; [|reflexivity].
    induction els as [|[e v] els IHe]; [reflexivity|]. cbn [flat_map fst snd]. rewrite IH, IHe. reflexivity.
  Qed.

  Lemma book_perm_lookup : forall (B1 B2 : db),
    NoDup (keys B1) -> Permutation B1 B2 -> forall k, lookup k B1 = lookup k B2.
  Proof. intros B1 B2 Hnd Hp k. symmetry. apply lookup_perm; assumption. Qed.

  Lemma ref_node_declaration_order_lemma : forall (B1 B2 : db) f r,
    NoDup (keys B1) -> Permutation B1 B2 -> ref_node NM B1 f r = ref_node NM B2 f r.
  Proof. intros B1 B2 f r Hnd Hp. apply ref_node_book_ext. apply book_perm_lookup; assumption. Qed.

  Lemma ref_db_declaration_order_lemma : forall (B1 B2 : db) N,
    NoDup (keys B1) -> Permutation B1 B2 -> Permutation (ref_db NM B1 N) (ref_db NM B2 N).
  Proof.
    intros B1 B2 N Hnd Hp. unfold ref_db.
    rewrite (map_ext (fun kv => (fst kv, ref_value NM B1 N (fst kv) (snd kv)))
                     (fun kv => (fst kv, ref_value NM B2 N (fst kv) (snd kv)))).
    - apply Permutation_map. exact Hp.
    - intros [k els]. cbn [fst snd]. unfold ref_value.
      rewrite (ref_node_declaration_order_lemma B1 B2 N k Hnd Hp). reflexivity.
  Qed.
End DeclOrder.

(** * B. order of the ingredients *)
Section UseOrder.
  Context (NM : Num) (CS : CSemiring NM).
  Notation T := (T NM).
  Notation elements := (elements NM).
  Notation db := (db NM).

  Lemma gmi : forall x l acc, get NM x (merge_into NM acc l) = add NM (get NM x acc) (sumr NM x l).
  Proof.
    destruct CS as [Hc Ha H0 Hmc Hma H1 Hm0 Hd]. intros x l acc. apply get_merge_into; assumption.
  Qed.

  (** two lists with the same names and the same amounts *)
  Definition equivL (l1 l2 : elements) : Prop :=
    forall z, (In z (map fst l1) <-> In z (map fst l2)) /\ get NM z l1 = get NM z l2.

  Lemma equivL_refl : forall l, equivL l l.
  Proof. intros l z. split; reflexivity. Qed.

  Lemma equivL_trans : forall l1 l2 l3, equivL l1 l2 -> equivL l2 l3 -> equivL l1 l3.
  Proof.
    intros l1 l2 l3 H12 H23 z. destruct (H12 z) as [Ha Hb], (H23 z) as [Hc Hd].
    split; [rewrite Ha; exact Hc|congruence].
  Qed.

  Lemma equivL_merge : forall a1 a2 l, equivL a1 a2 -> equivL (merge_into NM a1 l) (merge_into NM a2 l).
  Proof.
    intros a1 a2 l H z. destruct (H z) as [Hn Hg]. split.
    - rewrite !merge_into_names_iff, Hn. reflexivity.
    - rewrite !gmi, Hg. reflexivity.
  Qed.

  Lemma equivL_merge_swap : forall a1 a2 c1 c2, equivL a1 a2 ->
    equivL (merge_into NM (merge_into NM a1 c1) c2) (merge_into NM (merge_into NM a2 c2) c1).
  Proof.
    intros a1 a2 c1 c2 H z. destruct (H z) as [Hn Hg]. split.
    - rewrite !merge_into_names_iff, Hn. tauto.
    - rewrite !gmi, Hg. rewrite <- !(add_assoc NM CS). f_equal. apply (add_comm NM CS).
  Qed.

  Lemma equivL_lookup : forall l1 l2 z, equivL l1 l2 -> lookup z l1 = lookup z l2.
  Proof.
    intros l1 l2 z H. destruct (H z) as [Hn Hg]. unfold get in Hg.
    destruct (lookup z l1) as [a1|] eqn:E1.
    - assert (Hin : In z (map fst l2)) by (apply Hn; eapply lookup_Some_In_keys; exact E1).
      apply In_keys_lookup in Hin. destruct Hin as [a2 E2]. rewrite E2 in *. congruence.
    - destruct (lookup z l2) as [a2|] eqn:E2; [|reflexivity].
      exfalso. apply lookup_None_iff in E1. apply E1. apply Hn. eapply lookup_Some_In_keys. exact E2.
  Qed.

  (** strictly sorted lists are determined by their members *)
  Lemma sorted_ext : forall l1 l2 : elements,
    StronglySorted (lt_name NM) l1 -> StronglySorted (lt_name NM) l2 ->
    (forall p, In p l1 <-> In p l2) -> l1 = l2.
  Proof.
    intros l1 l2 Hs1. revert l2. induction Hs1 as [|p1 t1 Hs1 IH Hall1]; intros l2 Hs2 Hext.
    - destruct l2 as [|p2 t2]; [reflexivity|]. exfalso. apply (Hext p2). left. reflexivity.
    - destruct Hs2 as [|p2 t2 Hs2 Hall2]; [exfalso; apply (Hext p1); left; reflexivity|].
      rewrite Forall_forall in Hall1, Hall2.
      assert (Hp : p1 = p2).
      { destruct (proj1 (Hext p1) (or_introl eq_refl)) as [E|Hin1]; [congruence|].
        destruct (proj2 (Hext p2) (or_introl eq_refl)) as [E|Hin2]; [congruence|].
        specialize (Hall1 _ Hin2). specialize (Hall2 _ Hin1). unfold lt_name in *.
        rewrite (bltb_asym _ _ Hall1) in Hall2. discriminate. }
      subst p2. f_equal. apply IH; [exact Hs2|]. intro p. split; intro Hin.
      + destruct (proj1 (Hext p) (or_intror Hin)) as [E|Hin']; [|exact Hin'].
        subst p. specialize (Hall1 _ Hin). unfold lt_name in Hall1. rewrite bltb_irrefl in Hall1. discriminate.
      + destruct (proj2 (Hext p) (or_intror Hin)) as [E|Hin']; [|exact Hin'].
        subst p. specialize (Hall2 _ Hin). unfold lt_name in Hall2. rewrite bltb_irrefl in Hall2. discriminate.
  Qed.

  Lemma NoDup_In_iff_lookup : forall (l : elements) p, NoDup (map fst l) -> (In p l <-> lookup (fst p) l = Some (snd p)).
  Proof.
    intros l [k a] Hnd. cbn [fst snd]. split; [apply NoDup_In_lookup; exact Hnd|apply lookup_In].
  Qed.

  Lemma equivL_sort_eq : forall l1 l2,
    NoDup (map fst l1) -> NoDup (map fst l2) -> equivL l1 l2 -> sort_elements NM l1 = sort_elements NM l2.
  Proof.
    intros l1 l2 Hnd1 Hnd2 H. apply sorted_ext; try (apply sort_elements_sorted; assumption).
    intro p. split; intro Hin.
    - apply (Permutation_in _ (sort_elements_perm NM l1)) in Hin.
      apply (Permutation_in _ (Permutation_sym (sort_elements_perm NM l2))).
      apply NoDup_In_iff_lookup; [exact Hnd2|]. rewrite <- (equivL_lookup l1 l2 _ H).
      apply NoDup_In_iff_lookup; assumption.
    - apply (Permutation_in _ (sort_elements_perm NM l2)) in Hin.
      apply (Permutation_in _ (Permutation_sym (sort_elements_perm NM l1))).
      apply NoDup_In_iff_lookup; [exact Hnd1|]. rewrite (equivL_lookup l1 l2 _ H).
      apply NoDup_In_iff_lookup; assumption.
  Qed.

  (** ** the loop on permuted ingredient lists *)
  Definition loop_equiv (o1 o2 : option (nat * elements)) : Prop :=
    match o1, o2 with
    | None, None => True
    | Some (h1, l1), Some (h2, l2) => h1 = h2 /\ equivL l1 l2
    | _, _ => False
    end.

  Lemma loop_equiv_trans : forall o1 o2 o3, loop_equiv o1 o2 -> loop_equiv o2 o3 -> loop_equiv o1 o3.
  Proof.
    intros [[h1 l1]|] [[h2 l2]|] [[h3 l3]|]; cbn [loop_equiv]; try tauto.
    intros [E1 H1] [E2 H2]. split; [congruence|eapply equivL_trans; eassumption].
  Qed.

  Section Rec.
    Context (rec : bytes -> option (nat * option elements)).

    Lemma ref_loop_cons : forall e v rest nel ht,
      ref_loop NM rec ((e, v) :: rest) nel ht =
      match rec e with
      | None => None
      | Some (h, res) => ref_loop NM rec rest (merge_into NM nel (contrib NM e v res)) (Nat.max ht (S h))
      end.
    Proof.
      intros e v rest nel ht. cbn [ref_loop]. destruct (rec e) as [[h res]|]; [|reflexivity].
      rewrite step_contrib. reflexivity.
    Qed.

    Lemma ref_loop_equiv_start : forall els nel1 nel2 ht,
      equivL nel1 nel2 -> loop_equiv (ref_loop NM rec els nel1 ht) (ref_loop NM rec els nel2 ht).
    Proof.
      induction els as [|[e v] els IH]; intros nel1 nel2 ht H.
      - cbn [ref_loop loop_equiv]. split; [reflexivity|exact H].
      - rewrite !ref_loop_cons. destruct (rec e) as [[h res]|]; [|exact I].
        apply IH. apply equivL_merge. exact H.
    Qed.

    Lemma ref_loop_perm : forall els1 els2, Permutation els1 els2 ->
      forall nel1 nel2 ht, equivL nel1 nel2 ->
      loop_equiv (ref_loop NM rec els1 nel1 ht) (ref_loop NM rec els2 nel2 ht).
    Proof.
      intros els1 els2 Hp. induction Hp as [|[e v] l1 l2 Hp IH|[e1 v1] [e2 v2] l|l1 l2 l3 Hp1 IH1 Hp2 IH2];
        intros nel1 nel2 ht H.
      - cbn [ref_loop loop_equiv]. split; [reflexivity|exact H].
      - rewrite !ref_loop_cons. destruct (rec e) as [[h res]|]; [|exact I].
        apply IH. apply equivL_merge. exact H.
      - rewrite !ref_loop_cons.
        destruct (rec e1) as [[h1 res1]|] eqn:E1; destruct (rec e2) as [[h2 res2]|] eqn:E2;
          rewrite ?ref_loop_cons, ?E1, ?E2; try exact I.
        replace (Nat.max (Nat.max ht (S h1)) (S h2)) with (Nat.max (Nat.max ht (S h2)) (S h1)) by lia.
        apply ref_loop_equiv_start. apply equivL_merge_swap. exact H.
      - eapply loop_equiv_trans; [apply (IH1 nel1 nel1 ht); apply equivL_refl|].
        apply IH2. exact H.
    Qed.
  End Rec.

  (** ** books with the same recipes up to the order of their ingredients *)
  Definition same_recipes (B1 B2 : db) : Prop :=
    forall k, match lookup k B1, lookup k B2 with
              | Some e1, Some e2 => Permutation e1 e2
              | None, None => True
              | _, _ => False
              end.

  Lemma ref_node_same_recipes : forall B1 B2, same_recipes B1 B2 ->
    forall f r, ref_node NM B1 f r = ref_node NM B2 f r.
  Proof.
    intros B1 B2 Hsame. induction f as [|f IH]; intro r; [reflexivity|].
    rewrite !ref_node_S. specialize (Hsame r).
    destruct (lookup r B1) as [e1|]; destruct (lookup r B2) as [e2|]; try contradiction; [|reflexivity].
    rewrite (ref_loop_ext NM (ref_node NM B1 f) (ref_node NM B2 f) e1) by (intros e v _; apply IH).
    pose proof (ref_loop_perm (ref_node NM B2 f) e1 e2 Hsame [] [] O (equivL_refl [])) as Hle.
    destruct (ref_loop NM (ref_node NM B2 f) e1 [] O) as [[h1 l1]|] eqn:E1;
      destruct (ref_loop NM (ref_node NM B2 f) e2 [] O) as [[h2 l2]|] eqn:E2;
      cbn [loop_equiv] in Hle; try contradiction; [|reflexivity].
    destruct Hle as [Hh Heq]. subst h2.
    apply ref_loop_char in E1. destruct E1 as [_ [cs1 [_ Hl1]]].
    apply ref_loop_char in E2. destruct E2 as [_ [cs2 [_ Hl2]]].
    rewrite (equivL_sort_eq l1 l2); [reflexivity| | |exact Heq].
    - subst l1. apply merge_into_NoDup. constructor.
    - subst l2. apply merge_into_NoDup. constructor.
  Qed.
End UseOrder.

(** the statement with the relation between the books written out *)
Lemma ref_value_order_independent_lemma : forall (NM : Num), CSemiring NM ->
  forall B1 B2 : db NM,
    (forall k, match lookup k B1, lookup k B2 with
               | Some e1, Some e2 => Permutation e1 e2
               | None, None => True
               | _, _ => False
               end) ->
    forall f r, ref_node NM B1 f r = ref_node NM B2 f r.
Proof. intros NM CS B1 B2 H. apply ref_node_same_recipes; assumption. Qed.
