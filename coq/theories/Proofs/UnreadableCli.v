(** WP05 / property C10, command level.

    Whenever a command ends with status [Ok], every file it read existed, was
    not a directory, had no read fault and no over-long line (so, by the parser
    level, every heading and entry of it reached the command's callback).
    Contrapositively: a read fault, an over-long line or a directory in place
    of a file the command reads makes the command fail. *)
From Coq Require Import Lia.
From HP Require Import Base.Bytes Base.Utf8 Base.Num Model.Scanner Model.Parser Model.Elements Model.Resolver
  Model.Dates Model.Tree Model.Writer Model.Reporters Model.Cli.
From HP Require Import Proofs.UnreadableParser.

(** * Opened files *)

(** what has been opened can be read to the end *)
Definition opened_ok (o : opened) : Prop :=
  match o with
  | OData d f => f = NoFault /\ scan_complete d
  | ODir => False
  end.

Definition opened_data (o : opened) : bytes := match o with OData d _ => d | _ => [] end.

(** path [p] opens and can be read to the end *)
Definition path_ok (w : world) (p : bytes) : Prop := exists o, open_file w p = Some o /\ opened_ok o.

(** the same in terms of the world alone: [p] exists, is not a directory, and
    if it is a regular file it has no read fault and no over-long line *)
Definition file_fully_read (w : world) (p : bytes) : Prop :=
  lookup p (w_fs w) <> None /\
  lookup p (w_fs w) <> Some FDir /\
  forall data, lookup p (w_fs w) = Some (FFile data) ->
               lookup p (w_read_fault w) = None /\ snd (scan data NoFault) = ScanEOF.

Lemma beq_true_eq : forall p q : bytes, beq p q = true -> p = q.
Proof.
  induction p as [|a p IH]; intros [|c q] E; try discriminate E.
  - reflexivity.
  - cbn [beq] in E. apply andb_true_iff in E. destruct E as [E1 E2].
    apply N.eqb_eq in E1. subst c. f_equal. apply IH. exact E2.
Qed.

Lemma beq_dev_null_false : forall p, p <> dev_null -> beq p dev_null = false.
Proof.
  intros p H. destruct (beq p dev_null) eqn:E; [|reflexivity].
  exfalso. apply H. apply beq_true_eq. exact E.
Qed.

(** an empty name never opens (fix F24) *)
Lemma path_ok_nonempty : forall w p, path_ok w p -> p <> [].
Proof. intros w p [o [Hopen _]] ->. discriminate Hopen. Qed.

Lemma path_ok_fully_read : forall w p, p <> dev_null -> path_ok w p -> file_fully_read w p.
Proof.
  intros w p Hne [o [Hopen Hok]]. unfold open_file, lookup_fs in Hopen.
  rewrite (beq_dev_null_false p Hne) in Hopen.
  destruct p as [|c p']; [congruence|].
  unfold file_fully_read.
  destruct (lookup (c :: p') (w_fs w)) as [[d| |e]|] eqn:El.
  - injection Hopen as <-. cbn [opened_ok] in Hok. destruct Hok as [Hf Hsc].
    split; [discriminate|]. split; [discriminate|].
    intros data Hd. injection Hd as <-. split; [|exact Hsc].
    destruct (lookup (c :: p') (w_read_fault w)); [discriminate | reflexivity].
  - injection Hopen as <-. destruct Hok.
  - split; [discriminate|]. split; [discriminate|]. intros data Hd. discriminate.
  - discriminate.
Qed.

Lemma open_all_1 : forall w p l, open_all w [p] = Some l ->
  exists o, l = [o] /\ open_file w p = Some o.
Proof.
  intros w p l H. cbn [open_all] in H.
  destruct (open_file w p) as [o|]; [|discriminate].
  cbn [option_map] in H. injection H as <-. exists o. split; reflexivity.
Qed.

Lemma open_all_2 : forall w p1 p2 l, open_all w [p1; p2] = Some l ->
  exists o1 o2, l = [o1; o2] /\ open_file w p1 = Some o1 /\ open_file w p2 = Some o2.
Proof.
  intros w p1 p2 l H. cbn [open_all] in H.
  destruct (open_file w p1) as [o1|]; [|discriminate].
  destruct (open_file w p2) as [o2|]; [|discriminate].
  cbn [option_map] in H. injection H as <-. exists o1, o2. repeat split; reflexivity.
Qed.

(** * The files of the world a command reads (the null device, which [--no-database] makes the book,
       is not one of them; since fix F24 an EMPTY name is: it is a file that cannot be opened) *)

Definition named (p : bytes) : list bytes := if beq p dev_null then [] else [p].

Definition files_read (op : options) (c : command) : list bytes :=
  match c with
  | CReg | CBal | CUnresolved | CTotals | CSummary _ => named (op_db op) ++ named (op_log op)
  | CQuantity | CCsvLog | CPrint => named (op_log op)
  | CElementTotal x => match x with [] => [] | _ => named (op_db op) end
  | CCsvDb | CCsvDbResolved => named (op_db op)
  | CLint f => named f
  | CStats => named (op_log op) ++ named (op_db op)
  end.

Lemma In_named : forall p q, In p (named q) <-> p = q /\ q <> dev_null.
Proof.
  intros p q. unfold named. destruct (beq q dev_null) eqn:E; cbn [In].
  - split; [intros [] | intros [_ H]]. rewrite (beq_dev_null_false q H) in E. discriminate E.
  - split.
    + intros [H|[]]. split; [symmetry; exact H | intros ->; vm_compute in E; discriminate E].
    + intros [H _]. left. symmetry. exact H.
Qed.

Section CliLevel.
  Context (NM : Num).
  Notation db := (list (bytes * elements NM)).

  (** * [parse_opened] *)

  Lemma parse_opened_success : forall S (cb : S -> event NM -> S * bool * option cerr) o s,
    stops_only_with_error cb ->
    snd (parse_opened NM cb o s) = None ->
    opened_ok o /\ fst (parse_opened NM cb o s) = feed cb (events NM (opened_data o)) s.
  Proof.
    intros S cb o s Hcb H. unfold parse_opened in *.
    destruct o as [d f|]; cbn [opened_ok opened_data].
    - pose proof (success_implies_whole_file NM cb d f s) as Hw.
      destruct (parse_stream NM cb d f s) as [s' r]. cbn [fst snd] in *.
      assert (Hr : r = None) by (destruct r as [[e|[]]|]; congruence).
      destruct (Hw Hr Hcb) as [Hf [Hsc Hst]]. split; [split; assumption | exact Hst].
    - exfalso. pose proof (read_fault_is_error NM cb Hcb [] O s) as Hw.
      destruct (parse_stream NM cb [] (FailAt 0) s) as [s' r]. cbn [fst snd] in *.
      destruct r as [[e|[]]|]; congruence.
  Qed.

  Lemma parse_opened_ok : forall S (cb : S -> event NM -> S * bool * option cerr) o s s',
    stops_only_with_error cb -> parse_opened NM cb o s = (s', None) -> opened_ok o.
  Proof.
    intros S cb o s s' Hcb H. apply (parse_opened_success S cb o s Hcb). rewrite H. reflexivity.
  Qed.

  (** * The callbacks of the commands stop only with an error *)

  Definition db_cb : db -> event NM -> db * bool * option cerr :=
    fun d ev => match ev with
                | EErr e => (d, true, Some (EParse (perr_message e)))
                | ENode n => (db_push NM d (header n) (elems n), false, None)
                end.

  Lemma load_db_eq : forall o, load_db NM o = parse_opened NM db_cb o [].
  Proof. reflexivity. Qed.

  Lemma db_cb_stops : stops_only_with_error db_cb.
  Proof.
    intros s ev s' e H. unfold db_cb in H. destruct ev as [n|pe].
    - discriminate.
    - injection H as _ <-. discriminate.
  Qed.

  Lemma walk_cb_stops : forall R pd toks bt et, stops_only_with_error (walk_cb NM R pd toks bt et).
  Proof.
    intros R pd toks bt et [[rs i] wr] ev s' e H. unfold walk_cb in H. destruct ev as [n|pe].
    - destruct (parse_date toks (header n)) as [c|].
      + destruct (in_interval bt et (time_of_civil c)).
        * destruct (r_process NM R (pd i) rs _) as [[rs' chunks] perr].
          destruct (bw_chunks wr chunks) as [wr' werr].
          injection H as _ Hstop <-.
          destruct (if werr then Some EWrite else perr); [discriminate | discriminate].
        * discriminate.
      + injection H as _ <-. discriminate.
    - injection H as _ <-. discriminate.
  Qed.

  Definition csv_cb : bw -> event NM -> bw * bool * option cerr :=
    fun wr ev => match ev with
                 | EErr e => (wr, true, Some (EParse (perr_message e)))
                 | ENode n =>
                     let '(wr', werr) := bw_chunks wr (map (fun r => (csv_record r, true))
                                                           (csv_db_rows NM (header n) (elems n))) in
                     (wr', werr, if werr then Some EWrite else None)
                 end.

  Lemma csv_cb_stops : stops_only_with_error csv_cb.
  Proof.
    intros s ev s' e H. unfold csv_cb in H. destruct ev as [n|pe].
    - destruct (bw_chunks s _) as [wr' werr]. injection H as _ -> <-. discriminate.
    - injection H as _ <-. discriminate.
  Qed.

  Definition lint_cb : sink * bool -> event NM -> sink * bool * bool * option cerr :=
    fun st ev => match ev with
                 | EErr e =>
                     let '(s', werr) := sink_write (fst st) (perr_message e ++ [c_lf]) in
                     ((s', true), werr, if werr then Some EWrite else None)
                 | ENode _ => (st, false, None)
                 end.

  Lemma lint_cb_stops : stops_only_with_error lint_cb.
  Proof.
    intros s ev s' e H. unfold lint_cb in H. destruct ev as [n|pe].
    - discriminate.
    - destruct (sink_write (fst s) _) as [s1 werr]. injection H as _ -> <-. discriminate.
  Qed.

  Definition stats_log_cb (toks : list ltoken) : nat * option time * time -> event NM -> nat * option time * time * bool * option cerr :=
    fun st ev => match ev with
                 | EErr e => (st, true, Some (EParse (perr_message e)))
                 | ENode n =>
                     let '(cnt, first, last) := st in
                     match parse_date toks (header n) with
                     | Some c =>
                         let t := time_of_civil c in
                         ((S cnt, match first with Some _ => first | None => Some t end, t), false, None)
                     | None => (st, true, Some EBadDate)
                     end
                 end.

  Lemma stats_log_cb_stops : forall toks, stops_only_with_error (stats_log_cb toks).
  Proof.
    intros toks [[cnt first] last] ev s' e H. unfold stats_log_cb in H. destruct ev as [n|pe].
    - destruct (parse_date toks (header n)); [discriminate|]. injection H as _ <-. discriminate.
    - injection H as _ <-. discriminate.
  Qed.

  Definition stats_db_cb : nat -> event NM -> nat * bool * option cerr :=
    fun c ev => match ev with
                | EErr e => (c, true, Some (EParse (perr_message e)))
                | ENode _ => (S c, false, None)
                end.

  Lemma stats_db_cb_stops : stops_only_with_error stats_db_cb.
  Proof.
    intros s ev s' e H. unfold stats_db_cb in H. destruct ev as [n|pe].
    - discriminate.
    - injection H as _ <-. discriminate.
  Qed.

  (** * The building blocks of the commands *)

  Lemma load_db_ok : forall o d, load_db NM o = (d, None) -> opened_ok o.
  Proof.
    intros o d H. rewrite load_db_eq in H. exact (parse_opened_ok _ _ _ _ _ db_cb_stops H).
  Qed.

  Lemma resolved_db_ok : forall w op o d, resolved_db NM w op o = inr d -> opened_ok o.
  Proof.
    intros w op o d H. unfold resolved_db in H.
    destruct (load_db NM o) as [d0 [e|]] eqn:El; [discriminate|].
    exact (load_db_ok _ _ El).
  Qed.

  Lemma walk_and_finish_ok : forall R pd pf toks bt et o wr wr' rs,
    walk_and_finish NM R pd pf toks bt et o wr = (wr', None, rs) -> opened_ok o.
  Proof.
    intros R pd pf toks bt et o wr wr' rs H. unfold walk_and_finish in H.
    destruct (parse_opened NM (walk_cb NM R pd toks bt et) o (r_init NM R, O, wr))
      as [[[rs0 n0] wr1] werr] eqn:Ep.
    destruct (bw_chunks wr1 (r_flush NM R pf rs0)) as [wr2 e2].
    destruct (if e2 then (wr2, true) else bw_flush wr2) as [wr3 ferr].
    injection H as _ Hwerr _.
    destruct werr as [e|]; [discriminate|].
    exact (parse_opened_ok _ _ _ _ _ (walk_cb_stops R pd toks bt et) Ep).
  Qed.

  Lemma out_status_finish : forall wr st, out_status (finish wr st) = st.
  Proof. reflexivity. Qed.

  Lemma status_of_ok : forall e, status_of e = Ok -> e = None.
  Proof. intros [e|] H; [discriminate | reflexivity]. Qed.

  (** ** one lemma per [run_*] helper *)

  Lemma run_db_log_ok : forall w op mk bt et,
    out_status (run_db_log NM w op mk bt et) = Ok ->
    path_ok w (op_db op) /\ path_ok w (op_log op).
  Proof.
    intros w op mk bt et H. unfold run_db_log in H.
    destruct (open_all w [op_db op; op_log op]) as [l|] eqn:Eo; [|discriminate].
    destruct (open_all_2 _ _ _ _ Eo) as [odb [olog [-> [Hodb Holog]]]].
    destruct (resolved_db NM w op odb) as [e|d] eqn:Er; [discriminate|].
    destruct (tokenize (op_fmt op)) as [toks|]; [|discriminate].
    destruct (walk_and_finish NM (mk d) (o_day (w_or w)) (o_flush (w_or w)) toks bt et olog (new_writer w))
      as [[wr' e] rs] eqn:Ew.
    destruct (r_panic NM (mk d) rs) as [site|]; [discriminate|].
    rewrite out_status_finish in H. apply status_of_ok in H. subst e.
    split.
    - exists odb. split; [exact Hodb | exact (resolved_db_ok _ _ _ _ Er)].
    - exists olog. split; [exact Holog | exact (walk_and_finish_ok _ _ _ _ _ _ _ _ _ _ Ew)].
  Qed.

  Lemma run_log_ok : forall w op R,
    out_status (run_log NM w op R) = Ok -> path_ok w (op_log op).
  Proof.
    intros w op R H. unfold run_log in H.
    destruct (open_all w [op_log op]) as [l|] eqn:Eo; [|discriminate].
    destruct (open_all_1 _ _ _ Eo) as [olog [-> Holog]].
    destruct (tokenize (op_fmt op)) as [toks|]; [|discriminate].
    destruct (walk_and_finish NM R (o_day (w_or w)) (o_flush (w_or w)) toks (op_begin op) (op_end op) olog (new_writer w))
      as [[wr' e] rs] eqn:Ew.
    rewrite out_status_finish in H. apply status_of_ok in H. subst e.
    exists olog. split; [exact Holog | exact (walk_and_finish_ok _ _ _ _ _ _ _ _ _ _ Ew)].
  Qed.

  Lemma run_element_total_ok : forall w op x desc,
    out_status (run_element_total NM w op x desc) = Ok -> x <> [] /\ path_ok w (op_db op).
  Proof.
    intros w op x desc H. unfold run_element_total in H.
    destruct x as [|c x']; [discriminate|]. split; [discriminate|].
    destruct (open_all w [op_db op]) as [l|] eqn:Eo; [|discriminate].
    destruct (open_all_1 _ _ _ Eo) as [odb [-> Hodb]].
    destruct (resolved_db NM w op odb) as [e|d] eqn:Er; [discriminate|].
    exists odb. split; [exact Hodb | exact (resolved_db_ok _ _ _ _ Er)].
  Qed.

  Lemma run_csv_db_ok : forall w op,
    out_status (run_csv_db NM w op) = Ok -> path_ok w (op_db op).
  Proof.
    intros w op H. unfold run_csv_db in H.
    destruct (open_all w [op_db op]) as [l|] eqn:Eo; [|discriminate].
    destruct (open_all_1 _ _ _ Eo) as [odb [-> Hodb]].
    change (parse_opened NM _ odb (new_writer w)) with (parse_opened NM csv_cb odb (new_writer w)) in H.
    destruct (parse_opened NM csv_cb odb (new_writer w)) as [wr1 perr] eqn:Ep.
    destruct (bw_flush wr1) as [wr2 ferr].
    rewrite out_status_finish in H. apply status_of_ok in H.
    destruct perr as [e|]; [discriminate|].
    exists odb. split; [exact Hodb | exact (parse_opened_ok _ _ _ _ _ csv_cb_stops Ep)].
  Qed.

  Lemma run_csv_db_resolved_ok : forall w op,
    out_status (run_csv_db_resolved NM w op) = Ok -> path_ok w (op_db op).
  Proof.
    intros w op H. unfold run_csv_db_resolved in H.
    destruct (open_all w [op_db op]) as [l|] eqn:Eo; [|discriminate].
    destruct (open_all_1 _ _ _ Eo) as [odb [-> Hodb]].
    destruct (resolved_db NM w op odb) as [e|d] eqn:Er; [discriminate|].
    exists odb. split; [exact Hodb | exact (resolved_db_ok _ _ _ _ Er)].
  Qed.

  Lemma run_lint_ok : forall w f silent,
    out_status (run_lint NM w f silent) = Ok -> f <> [] /\ path_ok w f.
  Proof.
    intros w f silent H. unfold run_lint in H. cbv zeta in H.
    destruct f as [|c f']; [discriminate|]. split; [discriminate|].
    match type of H with context [open_all w ?ps] =>
      destruct (open_all w ps) as [l|] eqn:Eo; [|discriminate] end.
    destruct (open_all_1 _ _ _ Eo) as [o [-> Ho]].
    change (parse_opened NM _ o ?s) with (parse_opened NM lint_cb o s) in H.
    destruct (parse_opened NM lint_cb o _) as [[s1 found] perr] eqn:Ep.
    destruct perr as [e|]; [discriminate|].
    exists o. split; [exact Ho | exact (parse_opened_ok _ _ _ _ _ lint_cb_stops Ep)].
  Qed.

  Lemma run_stats_ok : forall w op,
    out_status (run_stats NM w op) = Ok ->
    path_ok w (op_log op) /\ path_ok w (op_db op).
  Proof.
    intros w op H. unfold run_stats in H.
    destruct (open_file w (op_log op)) as [olog|] eqn:Eol; [|discriminate].
    change (parse_opened NM _ olog ?s) with
             (parse_opened NM (stats_log_cb (rc_date (op_rc op))) olog s) in H.
    destruct (parse_opened NM (stats_log_cb (rc_date (op_rc op))) olog (O, None, zero_time))
             as [[[cl fi] la] e1] eqn:Ep.
    destruct e1 as [e|]; [discriminate|].
    pose proof (parse_opened_ok _ _ _ _ _ (stats_log_cb_stops _) Ep) as Hlog.
    split.
    { exists olog. split; [exact Eol | exact Hlog]. }
    destruct (open_file w (op_db op)) as [odb|] eqn:Eod; [|discriminate].
    change (parse_opened NM _ odb O) with (parse_opened NM stats_db_cb odb O) in H.
    destruct (parse_opened NM stats_db_cb odb O) as [cdb [e|]] eqn:Ep2; [discriminate|].
    exists odb. split; [exact Eod|].
    exact (parse_opened_ok _ _ _ _ _ stats_db_cb_stops Ep2).
  Qed.

  (** * The program *)

  Lemma paths2 : forall w p1 p2, path_ok w p1 -> path_ok w p2 ->
    forall p, In p (named p1 ++ named p2) -> p <> dev_null /\ path_ok w p.
  Proof.
    intros w p1 p2 H1 H2 p Hin. apply in_app_or in Hin.
    destruct Hin as [Hin|Hin]; apply In_named in Hin; destruct Hin as [-> Hne]; split; assumption.
  Qed.

  Lemma paths1 : forall w p1, path_ok w p1 ->
    forall p, In p (named p1) -> p <> dev_null /\ path_ok w p.
  Proof.
    intros w p1 H1 p Hin. apply In_named in Hin. destruct Hin as [-> Hne]. split; assumption.
  Qed.

  Lemma run_ok_paths : forall w i, out_status (run NM w i) = Ok ->
    exists op, load w i = inr op /\
               forall p, In p (files_read op (i_cmd i)) -> p <> dev_null /\ path_ok w p.
  Proof.
    intros w i H. unfold run in H.
    destruct (load w i) as [e|op]; [discriminate|].
    exists op. split; [reflexivity|].
    destruct (i_cmd i) as [| |f|x| | | | | | | |arg|]; cbn [files_read].
    - (* reg *) apply run_db_log_ok in H. destruct H as [H1 H2]. apply paths2; assumption.
    - (* bal *) apply run_db_log_ok in H. destruct H as [H1 H2]. apply paths2; assumption.
    - (* lint *) apply run_lint_ok in H. destruct H as [_ H1]. apply paths1; assumption.
    - (* element-total *) apply run_element_total_ok in H. destruct H as [Hx H1].
      destruct x as [|c x']; [congruence|]. apply paths1; assumption.
    - (* unresolved *) apply run_db_log_ok in H. destruct H as [H1 H2]. apply paths2; assumption.
    - (* quantity *) apply run_log_ok in H. apply paths1; assumption.
    - (* totals *) apply run_db_log_ok in H. destruct H as [H1 H2]. apply paths2; assumption.
    - (* csv log *) apply run_log_ok in H. apply paths1; assumption.
    - (* csv database *) apply run_csv_db_ok in H. apply paths1; assumption.
    - (* csv database-resolved *) apply run_csv_db_resolved_ok in H. apply paths1; assumption.
    - (* stats *) apply run_stats_ok in H. destruct H as [H1 H2]. apply paths2; assumption.
    - (* summary *)
      destruct (time_from_string w (op_now op) (rc_date (op_rc op)) arg) as [e|t]; [discriminate|].
      apply run_db_log_ok in H. destruct H as [H1 H2]. apply paths2; assumption.
    - (* print *) apply run_log_ok in H. apply paths1; assumption.
  Qed.

  (** the "equivalently" sentence of C10 *)
  Theorem command_success_whole_file : forall w i,
    out_status (run NM w i) = Ok ->
    exists op, load w i = inr op /\
      forall p, In p (files_read op (i_cmd i)) ->
        lookup p (w_fs w) <> None /\
        lookup p (w_fs w) <> Some FDir /\
        forall data, lookup p (w_fs w) = Some (FFile data) ->
                     lookup p (w_read_fault w) = None /\ snd (scan data NoFault) = ScanEOF.
  Proof.
    intros w i H. destruct (run_ok_paths w i H) as [op [Hl Hp]].
    exists op. split; [exact Hl|]. intros p Hin. destruct (Hp p Hin) as [Hne Hok].
    exact (path_ok_fully_read w p Hne Hok).
  Qed.

  Theorem command_read_fault_fails : forall w i op p data k,
    load w i = inr op -> In p (files_read op (i_cmd i)) ->
    lookup p (w_fs w) = Some (FFile data) -> lookup p (w_read_fault w) = Some k ->
    out_status (run NM w i) <> Ok.
  Proof.
    intros w i op p data k Hl Hin Hfs Hfault Hok.
    destruct (command_success_whole_file w i Hok) as [op' [Hl' Hall]].
    rewrite Hl in Hl'. injection Hl' as <-.
    destruct (Hall p Hin) as [_ [_ Hd]]. destruct (Hd data Hfs) as [Hnf _]. congruence.
  Qed.

  Theorem command_long_line_fails : forall w i op p data,
    load w i = inr op -> In p (files_read op (i_cmd i)) ->
    lookup p (w_fs w) = Some (FFile data) -> has_long_line data ->
    out_status (run NM w i) <> Ok.
  Proof.
    intros w i op p data Hl Hin Hfs Hlong Hok.
    destruct (command_success_whole_file w i Hok) as [op' [Hl' Hall]].
    rewrite Hl in Hl'. injection Hl' as <-.
    destruct (Hall p Hin) as [_ [_ Hd]]. destruct (Hd data Hfs) as [_ Hsc].
    unfold has_long_line in Hlong. congruence.
  Qed.

  Theorem directory_is_error : forall w i op p,
    load w i = inr op -> In p (files_read op (i_cmd i)) ->
    lookup p (w_fs w) = Some FDir ->
    out_status (run NM w i) <> Ok.
  Proof.
    intros w i op p Hl Hin Hfs Hok.
    destruct (command_success_whole_file w i Hok) as [op' [Hl' Hall]].
    rewrite Hl in Hl'. injection Hl' as <-.
    destruct (Hall p Hin) as [_ [Hnd _]]. congruence.
  Qed.

  (** not asked for, same argument: a missing file *)
  Theorem missing_file_is_error : forall w i op p,
    load w i = inr op -> In p (files_read op (i_cmd i)) ->
    lookup p (w_fs w) = None ->
    out_status (run NM w i) <> Ok.
  Proof.
    intros w i op p Hl Hin Hfs Hok.
    destruct (command_success_whole_file w i Hok) as [op' [Hl' Hall]].
    rewrite Hl in Hl'. injection Hl' as <-.
    destruct (Hall p Hin) as [Hnn _]. congruence.
  Qed.

  (** fix F24: an empty file name is a file that cannot be opened, for every command and every file it reads *)
  Theorem empty_name_is_error : forall w i op,
    load w i = inr op -> In [] (files_read op (i_cmd i)) ->
    out_status (run NM w i) <> Ok.
  Proof.
    intros w i op Hl Hin Hok.
    destruct (run_ok_paths w i Hok) as [op' [Hl' Hp]].
    rewrite Hl in Hl'. injection Hl' as <-.
    destruct (Hp [] Hin) as [_ Hpo]. exact (path_ok_nonempty w [] Hpo eq_refl).
  Qed.
End CliLevel.
