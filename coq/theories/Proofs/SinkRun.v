(** WP17 / C17 — every command, run against a sink that fails from offset [k]
    and against a sink that never fails.

    Main result [run_sink_cases]: for every world, invocation and [k], either
    the two runs are equal (same status, same bytes, and the bytes fit below
    [k]), or the limited run's status is not [Ok], the complete report is
    longer than [k], and the limited run's standard output is exactly its
    first [k] bytes. *)
From Coq Require Import Lia Arith List.
From HP Require Import Base.Bytes Base.Utf8 Base.Num Model.Scanner Model.Parser Model.Elements Model.Resolver
  Model.Dates Model.Tree Model.Writer Model.Reporters Model.Cli.
From HP Require Import Proofs.SinkWriter Proofs.SinkDrive.
Open Scope nat_scope.

(** the world [w] with its sink replaced *)
Definition with_sink (w : world) (o : option nat) : world :=
  {| w_fs := w_fs w; w_default_config := w_default_config w; w_tz := w_tz w; w_clock := w_clock w;
     w_or := w_or w; w_sink := o; w_read_fault := w_read_fault w |}.

Lemma with_sink_same : forall w, with_sink w (w_sink w) = w.
Proof. intros []. reflexivity. Qed.

(** the two outcomes of one command: [ol] against [Some k], [ou] against [None] *)
Definition sink_cases (k : nat) (ol ou : outcome) : Prop :=
  (ol = ou /\ length (out_stdout ou) <= k)
  \/ (out_status ol <> Ok /\ k < length (out_stdout ou) /\ out_stdout ol = firstn k (out_stdout ou)).

Lemma sink_cases_same : forall k o, out_stdout o = [] -> sink_cases k o o.
Proof. intros k o H. left. rewrite H. cbn. split; [reflexivity|lia]. Qed.

Lemma finish_sim : forall k wl wu st, bsim k wl wu -> sink_cases k (finish wl st) (finish wu st).
Proof.
  intros k wl wu st H. destruct (bsim_got k wl wu H) as [Hg Hk]. left. unfold finish. cbn [out_stdout].
  rewrite Hg. auto.
Qed.

Lemma finish_bad : forall k wl wu stl stu, bbad k wl wu -> stl <> Ok ->
  sink_cases k (finish wl stl) (finish wu stu).
Proof.
  intros k wl wu stl stu H Hst. destruct (bbad_got k wl wu H) as [Hlt Hg]. right. unfold finish.
  cbn [out_stdout out_status]. auto.
Qed.

Lemma status_of_not_ok : forall e, e <> None -> status_of e <> Ok.
Proof. intros [e|] H; [discriminate|congruence]. Qed.

Section SinkRun.
  Context (NM : Num).

  (** ** nothing but the writer looks at the sink *)
  Lemma open_file_with_sink : forall w o p, open_file (with_sink w o) p = open_file w p.
  Proof. reflexivity. Qed.

  Lemma open_all_with_sink : forall w o ps, open_all (with_sink w o) ps = open_all w ps.
  Proof. intros w o ps. induction ps as [|p r IH]; cbn [open_all]; [reflexivity|]. now rewrite IH, open_file_with_sink. Qed.

  Lemma resolved_db_with_sink : forall w o op od, resolved_db NM (with_sink w o) op od = resolved_db NM w op od.
  Proof. reflexivity. Qed.

  Lemma load_with_sink : forall w o i, load (with_sink w o) i = load w i.
  Proof. reflexivity. Qed.

  Lemma new_writer_with_sink : forall w o, new_writer (with_sink w o) = bw_new {| s_limit := o; s_got := [] |}.
  Proof. reflexivity. Qed.

  Lemma bsim_new_writer : forall w k, bsim k (new_writer (with_sink w (Some k))) (new_writer (with_sink w None)).
  Proof. intros w k. rewrite !new_writer_with_sink. apply bsim_new. Qed.

  (** ** the walk *)
  Section Walk.
    Context (R : reporter NM) (pd : nat -> list bytes -> list bytes) (pf : list bytes -> list bytes)
            (toks : list ltoken) (bt et : option time) (k : nat).

    Notation wst := (walk_state NM R).
    Definition wrel (s1 s2 : wst) : Prop :=
      fst (fst s1) = fst (fst s2) /\ snd (fst s1) = snd (fst s2) /\ bsim k (snd s1) (snd s2).
    Definition wbad (s1 s2 : wst) : Prop := bbad k (snd s1) (snd s2).
    Definition wfail (s1 : wst) : Prop := bw_err (snd s1) = true.

    (** the writer after one callback step is the writer before it after some chunks *)
    Lemma walk_cb_writer : forall (st : wst) ev,
      exists cs, snd (fst (fst (walk_cb NM R pd toks bt et st ev))) = fst (bw_chunks (snd st) cs).
    Proof.
      intros [[rs i] wr] ev. unfold walk_cb.
      destruct ev as [n|e]; [|exists []; reflexivity].
      destruct (parse_date toks (header n)) as [c|]; [|exists []; reflexivity].
      destruct (in_interval bt et (time_of_civil c)); [|exists []; reflexivity].
      destruct (r_process NM R (pd i) rs _) as [[rs' chunks] perr].
      exists chunks. cbn [snd]. destruct (bw_chunks wr chunks) as [wr' werr]. reflexivity.
    Qed.

    Lemma walk_cb_bad1 : forall s1 s2 ev, wbad s1 s2 -> wbad (fst (fst (walk_cb NM R pd toks bt et s1 ev))) s2.
    Proof.
      intros s1 s2 ev H. unfold wbad. destruct (walk_cb_writer s1 ev) as [cs ->]. now apply bbad_chunks_l.
    Qed.

    Lemma walk_cb_bad2 : forall s1 s2 ev, wbad s1 s2 -> wbad s1 (fst (fst (walk_cb NM R pd toks bt et s2 ev))).
    Proof.
      intros s1 s2 ev H. unfold wbad. destruct (walk_cb_writer s2 ev) as [cs ->]. now apply bbad_chunks_u.
    Qed.

    Lemma walk_cb_fail : forall s1 ev, wfail s1 -> wfail (fst (fst (walk_cb NM R pd toks bt et s1 ev))).
    Proof.
      intros s1 ev H. unfold wfail. destruct (walk_cb_writer s1 ev) as [cs ->]. now rewrite bw_chunks_err.
    Qed.

    Lemma walk_cb_step : forall s1 s2 ev, wrel s1 s2 ->
      let r1 := walk_cb NM R pd toks bt et s1 ev in
      let r2 := walk_cb NM R pd toks bt et s2 ev in
      (wrel (fst (fst r1)) (fst (fst r2)) /\ snd (fst r1) = snd (fst r2) /\ snd r1 = snd r2)
      \/ (wbad (fst (fst r1)) (fst (fst r2)) /\ (wfail (fst (fst r1)) \/ (snd (fst r1) = true /\ snd r1 <> None))).
    Proof.
      intros [[rs1 i1] wl] [[rs2 i2] wu] ev (Hrs & Hi & Hw). cbn [fst snd] in Hrs, Hi, Hw. subst rs2 i2.
      cbn zeta. unfold walk_cb.
      destruct ev as [n|e]; [|left; cbn [fst snd]; unfold wrel; auto].
      destruct (parse_date toks (header n)) as [c|]; [|left; cbn [fst snd]; unfold wrel; auto].
      destruct (in_interval bt et (time_of_civil c)); [|left; cbn [fst snd]; unfold wrel; auto].
      destruct (r_process NM R (pd i1) rs1 _) as [[rs' chunks] perr].
      destruct (bw_chunks_sim k chunks wl wu Hw) as [(Hs & E1 & E2)|Hb];
        destruct (bw_chunks wl chunks) as [wl' el]; destruct (bw_chunks wu chunks) as [wu' eu]; cbn [fst snd] in *.
      - subst el eu. left. unfold wrel. cbn [fst snd]. auto.
      - right. unfold wbad, wfail. cbn [fst snd]. split; [exact Hb|]. left. apply Hb.
    Qed.

    (** [walk_and_finish], for every reporter *)
    Theorem walk_and_finish_sim : forall o wl wu, bsim k wl wu ->
      let rl := walk_and_finish NM R pd pf toks bt et o wl in
      let ru := walk_and_finish NM R pd pf toks bt et o wu in
      (bsim k (fst (fst rl)) (fst (fst ru)) /\ snd (fst rl) = snd (fst ru) /\ snd rl = snd ru)
      \/ (bbad k (fst (fst rl)) (fst (fst ru)) /\ snd (fst rl) <> None).
    Proof.
      intros o wl wu H. cbn zeta. unfold walk_and_finish.
      assert (H0 : wrel (r_init NM R, 0, wl) (r_init NM R, 0, wu)) by (unfold wrel; cbn [fst snd]; auto).
      destruct (parse_opened_sim NM _ _ wrel wbad wfail walk_cb_bad1 walk_cb_bad2 walk_cb_fail walk_cb_step
                  o _ _ H0) as [(HR & Er)|(HBad & HFs)];
        destruct (parse_opened NM (walk_cb NM R pd toks bt et) o (r_init NM R, 0, wl)) as [[[rs1 i1] wl1] werr1];
        destruct (parse_opened NM (walk_cb NM R pd toks bt et) o (r_init NM R, 0, wu)) as [[[rs2 i2] wu1] werr2];
        cbn [fst snd] in *.
      - destruct HR as (Hrs & Hi & Hw). cbn [fst snd] in Hrs, Hi, Hw. subst rs2 i2 werr2.
        set (cs := r_flush NM R pf rs1).
        destruct (bw_chunks_sim k cs wl1 wu1 Hw) as [(Hs & E1 & E2)|Hb];
          destruct (bw_chunks wl1 cs) as [wl2 el2]; destruct (bw_chunks wu1 cs) as [wu2 eu2]; cbn [fst snd] in *.
        + subst el2 eu2.
          destruct (bw_flush_sim k wl2 wu2 Hs) as [(Hs3 & E1 & E2)|(Hb3 & E1)];
            destruct (bw_flush wl2) as [wl3 el3]; destruct (bw_flush wu2) as [wu3 eu3]; cbn [fst snd] in *.
          * subst el3 eu3. left. auto.
          * subst el3. right. split; [exact Hb3|]. destruct werr1; discriminate.
        + right.
          assert (Hl : (if el2 then (wl2, true) else bw_flush wl2) = (wl2, true)).
          { destruct el2; [reflexivity|]. apply bw_flush_err, Hb. }
          rewrite Hl. cbn [fst snd]. split; [|destruct werr1; discriminate].
          destruct eu2; cbn [fst snd]; [exact Hb|].
          pose proof (bbad_flush_u k wl2 wu2 Hb) as Hb'. destruct (bw_flush wu2) as [wu3 eu3]. exact Hb'.
      - right. unfold wbad in HBad. cbn [snd] in HBad.
        assert (Herr : bw_err wl1 = true) by apply HBad.
        pose proof (bw_chunks_err (r_flush NM R pf rs1) wl1 Herr) as Hfr.
        destruct (bw_chunks wl1 (r_flush NM R pf rs1)) as [wl2 el2]. cbn [fst] in Hfr. subst wl2.
        assert (Hl : (if el2 then (wl1, true) else bw_flush wl1) = (wl1, true)).
        { destruct el2; [reflexivity|]. now apply bw_flush_err. }
        rewrite Hl. cbn [fst snd].
        pose proof (bbad_chunks_u k wl1 wu1 (r_flush NM R pf rs2) HBad) as Hb2.
        destruct (bw_chunks wu1 (r_flush NM R pf rs2)) as [wu2 eu2]. cbn [fst] in Hb2.
        split; [|destruct werr1; discriminate].
        destruct eu2; cbn [fst snd]; [exact Hb2|].
        pose proof (bbad_flush_u k wl1 wu2 Hb2) as Hb'. destruct (bw_flush wu2) as [wu3 eu3]. exact Hb'.
    Qed.
  End Walk.
  (** ** commands: resolve the book, walk the log with a reporter *)
  Theorem run_db_log_cases : forall w op mk bt et k,
    sink_cases k (run_db_log NM (with_sink w (Some k)) op mk bt et)
                 (run_db_log NM (with_sink w None) op mk bt et).
  Proof.
    intros w op mk bt et k. unfold run_db_log.
    rewrite !open_all_with_sink. cbn [w_or with_sink].
    pose proof (bsim_new_writer w k) as H0.
    set (wl := new_writer (with_sink w (Some k))) in *. set (wu := new_writer (with_sink w None)) in *.
    destruct (open_all w [op_db op; op_log op]) as [[|odb [|olog [|x r]]]|]; try (apply finish_sim; exact H0).
    rewrite !resolved_db_with_sink.
    destruct (resolved_db NM w op odb) as [e|d]; [apply finish_sim; exact H0|].
    destruct (tokenize (op_fmt op)) as [toks|]; [|apply finish_sim; exact H0].
    destruct (walk_and_finish_sim (mk d) (o_day (w_or w)) (o_flush (w_or w)) toks bt et k olog wl wu H0)
      as [(Hs & Ee & Ers)|(Hb & Hne)];
      destruct (walk_and_finish NM (mk d) (o_day (w_or w)) (o_flush (w_or w)) toks bt et olog wl) as [[wl' el] rsl];
      destruct (walk_and_finish NM (mk d) (o_day (w_or w)) (o_flush (w_or w)) toks bt et olog wu) as [[wu' eu] rsu];
      cbn [fst snd] in *.
    - subst eu rsu. destruct (r_panic NM (mk d) rsl); apply finish_sim; exact Hs.
    - destruct (r_panic NM (mk d) rsl); destruct (r_panic NM (mk d) rsu);
        (apply finish_bad; [exact Hb|]); try discriminate; now apply status_of_not_ok.
  Qed.

  (** ** commands that only walk the log *)
  Theorem run_log_cases : forall w op R k,
    sink_cases k (run_log NM (with_sink w (Some k)) op R) (run_log NM (with_sink w None) op R).
  Proof.
    intros w op R k. unfold run_log.
    rewrite !open_all_with_sink. cbn [w_or with_sink].
    pose proof (bsim_new_writer w k) as H0.
    set (wl := new_writer (with_sink w (Some k))) in *. set (wu := new_writer (with_sink w None)) in *.
    destruct (open_all w [op_log op]) as [[|olog [|x r]]|]; try (apply finish_sim; exact H0).
    destruct (tokenize (op_fmt op)) as [toks|]; [|apply finish_sim; exact H0].
    destruct (walk_and_finish_sim R (o_day (w_or w)) (o_flush (w_or w)) toks (op_begin op) (op_end op) k olog wl wu H0)
      as [(Hs & Ee & Ers)|(Hb & Hne)];
      destruct (walk_and_finish NM R (o_day (w_or w)) (o_flush (w_or w)) toks (op_begin op) (op_end op) olog wl)
        as [[wl' el] rsl];
      destruct (walk_and_finish NM R (o_day (w_or w)) (o_flush (w_or w)) toks (op_begin op) (op_end op) olog wu)
        as [[wu' eu] rsu];
      cbn [fst snd] in *.
    - subst eu. apply finish_sim; exact Hs.
    - apply finish_bad; [exact Hb|now apply status_of_not_ok].
  Qed.
End SinkRun.
