(** WP16: non-vacuity examples for C08 (NoCrash.v) and for the
    --no-database theorems of C16 (SettingsNoDb.v), at the exact-integer
    instance [ZNum].  Nothing here depends on the [pick_string] defect. *)
From Coq Require Import Lia ZifyBool Permutation.
From HP Require Import Base.Bytes Base.Utf8 Base.Num Model.Scanner Model.Parser Model.Elements Model.Resolver
  Model.Dates Model.Tree Model.Writer Model.Reporters Model.Cli.
From HP Require Import Spec.ResolverSpec Proofs.Settings Proofs.SettingsNoDb Proofs.NoCrash.
Import SettingsExample.

Definition nl : bytes := [c_lf].

(** a recipe book with a two-level recipe, and a two-day log *)
Definition book : bytes :=
  b "bread:" ++ nl ++ b "  flour 2" ++ nl ++ b "  water 1" ++ nl ++ b "toast:" ++ nl ++ b "  bread 2" ++ nl.
Definition log : bytes :=
  b "2021/01/01:" ++ nl ++ b "  toast 3" ++ nl ++ b "  water 5" ++ nl ++ b "2021/01/02:" ++ nl ++ b "  salt 1" ++ nl.

(** the world without and with an empty file "empty.yaml" *)
Definition w2 : world :=
  {| w_fs := [(b "food.yaml", FFile book); (b "log.yaml", FFile log)];
     w_default_config := b "/home/u/.hranoprovod/config";
     w_tz := 0; w_clock := time_of_civil (2026, 10, 1)%Z; w_or := id_oracles; w_sink := None; w_read_fault := [] |}.
Definition w2' : world :=
  {| w_fs := [(b "food.yaml", FFile book); (b "log.yaml", FFile log); (b "empty.yaml", FFile [])];
     w_default_config := b "/home/u/.hranoprovod/config";
     w_tz := 0; w_clock := time_of_civil (2026, 10, 1)%Z; w_or := id_oracles; w_sink := None; w_read_fault := [] |}.

(** [i] with -s [x] (single element) and --no-color *)
Definition with_single (i : invocation) (x : bytes) : invocation :=
  {| i_f_db := i_f_db i; i_e_db := i_e_db i; i_f_log := i_f_log i; i_e_log := i_e_log i;
     i_f_fmt := i_f_fmt i; i_e_fmt := i_e_fmt i; i_f_depth := i_f_depth i; i_e_depth := i_e_depth i;
     i_f_today := i_f_today i; i_f_config := i_f_config i; i_e_config := i_e_config i;
     i_no_database := i_no_database i;
     i_g_begin := i_g_begin i; i_g_end := i_g_end i; i_l_begin := i_l_begin i; i_l_end := i_l_end i;
     i_g_no_color := true; i_l_no_color := i_l_no_color i;
     i_single_food := i_single_food i; i_single_element := x;
     i_group_food := i_group_food i; i_csv := i_csv i; i_no_totals := i_no_totals i;
     i_totals_only := i_totals_only i; i_shorten := i_shorten i; i_old := i_old i; i_template := i_template i;
     i_collapse := i_collapse i; i_collapse_last := i_collapse_last i; i_desc := i_desc i; i_silent := i_silent i;
     i_cmd := i_cmd i |}.

Definition inv (fdep : option Z) (nodb : bool) (cmd : command) : invocation :=
  mk_inv None None None None None None fdep None None None None nodb cmd.

(** * C08: the single-element register does its lookup and finds the row *)

(** reg -s water: the first day has water 5 directly and 1*2*3 through toast -> bread;
    the second day has no water and no row *)
Example ex_single_register_runs :
  run ZNum w2 (with_single (inv None false CReg) (b "water")) =
  {| out_stdout := b "2021/01/01 " ++ brepeat [c_space] 15 ++ b "water " ++ brepeat [c_space] 8 ++ b "11 "
                   ++ brepeat [c_space] 9 ++ b "0 =" ++ brepeat [c_space] 8 ++ b "11" ++ nl;
     out_status := Ok |}.
Proof. vm_compute. reflexivity. Qed.

(** the lookup the panic site guards: a day with the element gives [Some (Some _)], a day without gives [None] *)
Example ex_single_row :
  let d : list (bytes * elements ZNum) := [(b "bread", [(b "flour", 2%Z); (b "water", 1%Z)])] in
  single_row ZNum d (b "water") (Build_lognode ZNum zero_time [(b "bread", 3%Z); (b "water", (-1)%Z)] None)
    = Some (Some (3%Z, (-1)%Z)) /\
  single_row ZNum d (b "water") (Build_lognode ZNum zero_time [(b "salt", 3%Z)] None) = None.
Proof. split; vm_compute; reflexivity. Qed.

(** hostile inputs: garbage in the log, a directory as the recipe book, a sink that fails at once *)
Example ex_garbage :
  out_status (run ZNum {| w_fs := [(b "food.yaml", FDir); (b "log.yaml", FFile (b " - : -" ++ nl ++ b "x" ++ nl ++ b " y z"))];
                         w_default_config := []; w_tz := 0; w_clock := zero_time; w_or := id_oracles;
                         w_sink := Some O; w_read_fault := [] |}
                      (with_single (inv None false CReg) (b "water")))
  = Failed (EScan false).
Proof. vm_compute. reflexivity. Qed.

(** * C08: --maxdepth 0 *)

Lemma id_order_oracle : order_oracle (fun l : list bytes => l).
Proof. intros l. apply Permutation_refl. Qed.

(** the hypotheses of [negative_or_zero_maxdepth] are met by a concrete run, and the theorem (not
    computation) gives the outcome *)
Example ex_maxdepth_zero :
  run ZNum w2 (inv (Some 0%Z) false CReg) = {| out_stdout := []; out_status := Failed EMaxDepth |}.
Proof.
  assert (Hload : exists op, load w2 (inv (Some 0%Z) false CReg) = inr op /\ op_depth op = 0%Z
                             /\ op_db op = b "food.yaml" /\ op_log op = b "log.yaml").
  { eexists. split; [vm_compute; reflexivity|]. repeat split. }
  destruct Hload as (op & Hl & Hd & Hdb & Hlog).
  eapply (negative_or_zero_maxdepth ZNum w2 _ op (OData book NoFault)).
  - exact Hl.
  - rewrite Hd. lia.
  - reflexivity.
  - rewrite Hdb. vm_compute. reflexivity.
  - vm_compute. reflexivity.
  - discriminate.
  - apply id_order_oracle.
  - intros _. rewrite Hlog. vm_compute. discriminate.
  - intros arg Harg. discriminate Harg.
  - discriminate.
Qed.

(** a negative depth behaves the same; a depth of 2 is still too small for toast -> bread -> flour; 3 is enough *)
Example ex_maxdepth_other :
  out_status (run ZNum w2 (inv (Some (-5)%Z) false CTotals)) = Failed EMaxDepth /\
  out_status (run ZNum w2 (inv (Some 2%Z) false CTotals)) = Failed EMaxDepth /\
  out_status (run ZNum w2 (inv (Some 3%Z) false CTotals)) = Ok.
Proof. repeat split; vm_compute; reflexivity. Qed.

(** with --no-database there is nothing to resolve and depth 0 is harmless *)
Example ex_maxdepth_zero_no_database :
  out_status (run ZNum w2 (inv (Some 0%Z) true CTotals)) = Ok.
Proof. vm_compute. reflexivity. Qed.

(** the instrumented resolver: resolving toast with fuel 3 nests 2 levels below the call *)
Example ex_instrumented_depth :
  snd (resolve_node_d ZNum 3 ([(b "bread", [(b "flour", 2%Z); (b "water", 1%Z)]); (b "toast", [(b "bread", 2%Z)])], [])
                      (b "toast")) = 2%nat.
Proof. vm_compute. reflexivity. Qed.

(** * C16: --no-database behaves as an empty recipe book *)

Lemma beq_false_of_neq : forall x y, x <> y -> beq x y = false.
Proof. intros x y H. destruct (beq x y) eqn:E; [|reflexivity]. apply beq_true_iff in E. contradiction. Qed.

Lemma w2_agree : agree_off (b "empty.yaml") w2 w2'.
Proof.
  split; [repeat split|]. intros q Hq. split; [|reflexivity].
  cbn [w_fs w2 w2' lookup].
  destruct (beq q (b "food.yaml")); [reflexivity|]. destruct (beq q (b "log.yaml")); [reflexivity|].
  rewrite (beq_false_of_neq _ _ Hq). reflexivity.
Qed.

Lemma w2_fresh : forall cmd, (forall f, cmd <> CLint f) ->
  fresh_for w2 (with_no_database (inv None false cmd)) (b "empty.yaml").
Proof.
  intros cmd Hcmd. apply fresh_for_no_database_intro.
  - vm_compute. discriminate.
  - intros cfg Hc. vm_compute in Hc. injection Hc as <-. vm_compute. discriminate.
  - intros f Hf. exfalso. apply (Hcmd f). exact Hf.
Qed.

(** the two-world theorem applies: totals with --no-database in [w2] = totals with -d empty.yaml in [w2'] ... *)
Example ex_no_database_two_worlds :
  run ZNum w2 (with_no_database (inv None false CTotals)) = run ZNum w2' (with_db_flag (inv None false CTotals) (b "empty.yaml")).
Proof.
  apply no_database_is_empty_book.
  - discriminate.
  - discriminate.
  - apply w2_agree.
  - vm_compute. reflexivity.
  - reflexivity.
  - apply w2_fresh. intros f. discriminate.
Qed.

(** ... and the common outcome is a real report (log names are not resolved: toast stays toast),
    different from the one with the recipe book *)
Example ex_no_database_outcome :
  out_status (run ZNum w2 (with_no_database (inv None false CTotals))) = Ok /\
  out_stdout (run ZNum w2 (with_no_database (inv None false CTotals))) <> [] /\
  out_stdout (run ZNum w2 (with_no_database (inv None false CTotals))) <> out_stdout (run ZNum w2 (inv None false CTotals)).
Proof. repeat split; vm_compute; discriminate. Qed.

(** --no-database wins over -d, HR_DATABASE and the file: with a recipe book named on the command
    line that does not even exist, the command still runs *)
Example ex_no_database_ignores_flag :
  out_status (run ZNum w2 (mk_inv (Some (b "/nope.yaml")) (Some (b "/nope2.yaml")) None None None None None None None None None
                                  true CTotals)) = Ok /\
  out_status (run ZNum w2 (mk_inv (Some (b "/nope.yaml")) (Some (b "/nope2.yaml")) None None None None None None None None None
                                  false CTotals)) = Failed EOpen.
Proof. split; vm_compute; reflexivity. Qed.

(** stats: the null device as file name (fix F24; it used to be the empty name), 0 records *)
Example ex_no_database_stats :
  exists rest,
    out_stdout (run ZNum w2 (with_no_database (inv None false CStats)))
    = b "  Database file:      /dev/null" ++ [c_lf] ++ b "  Database records:   0" ++ [c_lf] ++ rest
    /\ out_status (run ZNum w2 (with_no_database (inv None false CStats))) = Ok.
Proof. eexists. split; vm_compute; reflexivity. Qed.
