(** WP23, part A, step 2 (axiom-free) -- the text [%.2f] writes, read by [strconv.ParseFloat].

    [format_fixed 2 x] is "NaN", "+Inf", "-Inf" or [fixed_of_scaled s 2 n]:
    an optional '-', one or more digits, a point and exactly two digits, the
    digits spelling [n].
    - [B64_fmt2_clean_lemma]: that text is a clean quantity lexeme, for EVERY [x : spec_float].
    - [parse_fixed2]: [parse_float] reads [fixed_of_scaled s 2 n] ([0 <= n]) as the
      signed zero when [n = 0] and as [round_scaled s n (-2) 0] otherwise (an
      infinite result would be a range error): the text is a plain decimal
      lexeme with integer [n], decimal exponent [-2]; neither clamp of
      [parse_float] can fire. *)
From Coq Require Import ZArith Lia ZifyBool ZifyNat ZifyN List Floats.SpecFloat.
From HP Require Import Base.Bytes Base.Num Base.GoFloat Model.Parser Spec.PrintSpec.
From HP Require Import Proofs.CsvNumerals Proofs.CsvFixed Proofs.FloatExact.
Import ListNotations.
Open Scope Z_scope.

(** * the shape of the text *)
Lemma fixed2_shape : forall (s : bool) (n : Z), exists ip fp : bytes,
  fixed_of_scaled s 2 n = (if s then [45%N] else []) ++ ip ++ 46%N :: fp /\
  ip <> [] /\ forallb is_digit ip = true /\ forallb is_digit fp = true /\ length fp = 2%nat /\
  digits_val (ip ++ fp) 0%N = Some (Z.to_N n).
Proof.
  intros s n. unfold fixed_of_scaled.
  set (dn := dec_of_N (Z.to_N n)).
  set (ds := pad_zeros_aux (3 - length dn) dn).
  assert (Dd : forallb is_digit ds = true) by (apply pad_zeros_digits, dec_of_N_digits).
  assert (Dv : digits_val ds 0%N = Some (Z.to_N n)).
  { unfold ds. rewrite pad_zeros_value. apply dec_of_N_value. }
  assert (Dl : (3 <= length ds)%nat) by (unfold ds; rewrite pad_zeros_length; lia).
  exists (firstn (length ds - 2) ds), (skipn (length ds - 2) ds).
  set (ip := firstn (length ds - 2) ds). set (fp := skipn (length ds - 2) ds).
  assert (Eds : ip ++ fp = ds) by apply firstn_skipn.
  assert (Lfp : length fp = 2%nat) by (unfold fp; rewrite skipn_length; lia).
  assert (Lip : (1 <= length ip)%nat) by (unfold ip; rewrite firstn_length; lia).
  assert (Dip : forallb is_digit ip = true /\ forallb is_digit fp = true).
  { rewrite <- Eds in Dd. rewrite forallb_app in Dd. apply andb_true_iff in Dd. exact Dd. }
  destruct Dip as [Dip Dfp].
  split; [reflexivity|]. split; [intro E; rewrite E in Lip; cbn [length] in Lip; lia|].
  split; [exact Dip|]. split; [exact Dfp|]. split; [exact Lfp|]. rewrite Eds. exact Dv.
Qed.

(** * the text is a clean quantity *)
Lemma digit_not_blank : forall c, is_digit c = true ->
  negb (memb c [c_tab; c_space; c_lf]) = true /\ negb (memb c trim_qty) = true /\ negb (memb c (c_cr :: trim_text)) = true.
Proof.
  intros c H. unfold is_digit in H.
  cbv [memb existsb trim_qty trim_text c_tab c_space c_lf c_colon c_quote c_dash c_cr]. lia.
Qed.

Lemma fixed2_clean : forall (s : bool) (n : Z), qty_clean (fixed_of_scaled s 2 n) = true.
Proof.
  intros s n. destruct (fixed2_shape s n) as (ip & fp & E & Hne & Dip & Dfp & Lfp & _). rewrite E.
  destruct ip as [|i0 ip']; [congruence|]. clear Hne.
  destruct fp as [|f0 [|f1 [|f2 fp']]]; try discriminate Lfp. clear Lfp.
  cbn [forallb] in Dip, Dfp.
  apply andb_true_iff in Dip. destruct Dip as [Di0 Dip].
  apply andb_true_iff in Dfp. destruct Dfp as [Df0 Dfp]. apply andb_true_iff in Dfp. destruct Dfp as [Df1 _].
  assert (Hlast : forall pre, last_outside (c_cr :: trim_text) (pre ++ [46%N; f0; f1]) = true).
  { intros pre. replace (pre ++ [46%N; f0; f1]) with ((pre ++ [46%N; f0]) ++ [f1]) by (rewrite <- app_assoc; reflexivity).
    unfold last_outside. rewrite rev_app_distr. cbn [rev app first_outside]. apply (digit_not_blank f1 Df1). }
  unfold qty_clean. apply andb_true_iff. split; [apply andb_true_iff; split|].
  - rewrite !forallb_app. apply andb_true_iff. split; [destruct s; reflexivity|]. apply andb_true_iff. split.
    + rewrite forallb_forall. intros c [<-|Hc]; [apply (digit_not_blank i0 Di0)|].
      rewrite forallb_forall in Dip. apply (digit_not_blank c (Dip c Hc)).
    + cbn [forallb]. rewrite (proj1 (digit_not_blank f0 Df0)), (proj1 (digit_not_blank f1 Df1)). reflexivity.
  - destruct s; cbn [app first_outside]; [reflexivity|]. apply (digit_not_blank i0 Di0).
  - rewrite app_assoc. apply Hlast.
Qed.

(** ** [B64_fmt2_clean]: every [x], canonical or not *)
Theorem B64_fmt2_clean_lemma : forall x : f64, qty_clean (format_fixed 2 x) = true.
Proof.
  intros [s|[|]| |s m e]; cbn [format_fixed]; try apply fixed2_clean; vm_compute; reflexivity.
Qed.

(** * the text as a decimal lexeme *)

Lemma digits_val_int : forall p a, forallb is_digit p = true -> digits_val p a = Some (digits_int p a).
Proof.
  induction p as [|c r IH]; intros a H; [reflexivity|]. cbn [forallb] in H. apply andb_true_iff in H.
  destruct H as [Hc Hr]. cbn [digits_val digits_int]. rewrite Hc. apply IH. exact Hr.
Qed.

Lemma digits_int_app : forall p t a, digits_int (p ++ t) a = digits_int t (digits_int p a).
Proof.
  induction p as [|c r IH]; intros t a; [reflexivity|]. cbn [app digits_int]. destruct (is_digit c); apply IH.
Qed.

Lemma mant_chars_digits : forall p sd, forallb is_digit p = true -> mant_chars sd p = true.
Proof.
  induction p as [|c r IH]; intros sd H; [reflexivity|]. cbn [forallb] in H. apply andb_true_iff in H.
  destruct H as [Hc Hr]. cbn [mant_chars]. rewrite (is_digit_not_underscore c Hc), (is_digit_not_point c Hc), Hc.
  cbn [andb]. apply IH. exact Hr.
Qed.

Lemma mant_chars_point : forall ip fp, forallb is_digit ip = true -> forallb is_digit fp = true ->
  mant_chars false (ip ++ 46%N :: fp) = true.
Proof.
  induction ip as [|c r IH]; intros fp Hi Hf.
  - cbn [app mant_chars]. change (46 =? 95)%N with false. change (46 =? 46)%N with true. cbn [negb andb].
    apply mant_chars_digits. exact Hf.
  - cbn [forallb] in Hi. apply andb_true_iff in Hi. destruct Hi as [Hc Hr]. cbn [app mant_chars].
    rewrite (is_digit_not_underscore c Hc), (is_digit_not_point c Hc), Hc. cbn [andb]. apply IH; assumption.
Qed.

Lemma no_underscore_digits : forall p, forallb is_digit p = true -> has_underscore p = false.
Proof.
  induction p as [|c r IH]; intros H; [reflexivity|]. cbn [forallb] in H. apply andb_true_iff in H.
  destruct H as [Hc Hr]. unfold has_underscore in *. cbn [existsb]. rewrite (IH Hr).
  apply is_digit_range in Hc. replace (95 =? c)%N with false by lia. reflexivity.
Qed.

Lemma count_digits_all : forall p, forallb is_digit p = true -> count_digits p = Z.of_nat (length p).
Proof.
  induction p as [|c r IH]; intros H; [reflexivity|]. cbn [forallb] in H. apply andb_true_iff in H.
  destruct H as [Hc Hr]. cbn [count_digits length]. rewrite Hc, (IH Hr). lia.
Qed.

Lemma frac_count_point : forall ip fp, forallb is_digit ip = true -> forallb is_digit fp = true ->
  frac_count (ip ++ 46%N :: fp) = Z.of_nat (length fp).
Proof.
  induction ip as [|c r IH]; intros fp Hi Hf.
  - cbn [app frac_count]. change (46 =? 46)%N with true. cbv iota. apply count_digits_all. exact Hf.
  - cbn [forallb] in Hi. apply andb_true_iff in Hi. destruct Hi as [Hc Hr]. cbn [app frac_count].
    rewrite (is_digit_not_point c Hc). apply IH; assumption.
Qed.

(** ** [parse_float] on the printed text *)
Theorem parse_fixed2 : forall (s : bool) (n : Z), 0 <= n ->
  parse_float (fixed_of_scaled s 2 n) =
  match n with
  | Zpos m => keep_finite (round_scaled s m (-2) 0)
  | _ => Some (S754_zero s)
  end.
Proof.
  intros s n Hn. destruct (fixed2_shape s n) as (ip & fp & E & Hne & Dip & Dfp & Lfp & Dv).
  set (d := {| dl_sign := if s then Some true else None; dl_mant := ip ++ 46%N :: fp; dl_exp := None |}).
  assert (Eb : fixed_of_scaled s 2 n = dl_bytes d).
  { rewrite E. unfold dl_bytes, d. cbn [dl_sign dl_mant dl_exp exp_bytes]. rewrite app_nil_r.
    destruct s; reflexivity. }
  assert (Hwf : dl_wf d).
  { unfold dl_wf, d. cbn [dl_mant dl_exp]. split; [apply mant_chars_point; assumption|]. split; [|split; [|exact I]].
    - unfold has_underscore. rewrite existsb_app. fold (has_underscore ip). rewrite (no_underscore_digits ip Dip).
      cbn [existsb orb]. change (95 =? 46)%N with false. cbn [orb]. apply (no_underscore_digits fp Dfp).
    - destruct ip as [|i0 ip']; [congruence|]. cbn [forallb] in Dip. apply andb_true_iff in Dip.
      unfold has_digit. cbn [app existsb]. rewrite (proj1 Dip). reflexivity. }
  assert (Hint : dl_int d = Z.to_N n).
  { unfold dl_int, d. cbn [dl_mant].
    assert (Hsk : digits_int (ip ++ 46%N :: fp) 0 = digits_int (ip ++ fp) 0).
    { rewrite !digits_int_app. cbn [digits_int]. change (is_digit 46) with false. reflexivity. }
    rewrite Hsk. rewrite digits_val_int in Dv by (rewrite forallb_app, Dip, Dfp; reflexivity).
    injection Dv as Dv. exact Dv. }
  assert (Hexp : dl_exp10 d = -2).
  { unfold dl_exp10, d. cbn [dl_exp dl_mant exp_value]. rewrite (frac_count_point ip fp Dip Dfp), Lfp. reflexivity. }
  assert (Hsg : sign_neg (dl_sign d) = s) by (unfold d; cbn [dl_sign]; destruct s; reflexivity).
  rewrite Eb. destruct (parse_float_dec d Hwf) as (nd & Hnd0 & _ & _ & Hpf).
  rewrite Hpf, Hint, Hexp, Hsg. unfold dec_outcome.
  destruct n as [|m|m]; [reflexivity| |lia].
  change (Z.to_N (Zpos m)) with (Npos m). cbv iota.
  replace (400 <? -2) with false by reflexivity. replace (-2 + nd <? -400) with false by lia. reflexivity.
Qed.

(** non-vacuity *)
Example parse_fixed2_267 : parse_float (fixed_of_scaled false 2 267) = keep_finite (round_scaled false 267 (-2) 0)
                           /\ fixed_of_scaled false 2 267 = b "2.67".
Proof. split; [apply parse_fixed2; lia|vm_compute; reflexivity]. Qed.

Example fixed2_small : fixed_of_scaled true 2 5 = b "-0.05" /\ fixed_of_scaled false 2 0 = b "0.00".
Proof. vm_compute. split; reflexivity. Qed.
