(** WP06 (C02) – order facts: [beq] is equality, [bltb] is a strict total order
    on byte strings, insertion sort with a total antisymmetric transitive order
    is canonical (two permutations of each other sort to the same list), and a
    duplicate-free list sorts to a strictly increasing one. *)
From Coq Require Import Lia Permutation Sorted RelationClasses.
From HP Require Import Base.Bytes.

(** * [beq] *)
Lemma beq_true_iff : forall x y : bytes, beq x y = true <-> x = y.
Proof.
  induction x as [|a x IH]; intros [|c y]; cbn [beq]; split; intro H; try reflexivity; try discriminate.
  - apply andb_prop in H. destruct H as [H1 H2]. apply N.eqb_eq in H1. apply IH in H2. subst. reflexivity.
  - inversion H; subst. rewrite N.eqb_refl. cbn. apply IH. reflexivity.
Qed.

Lemma beq_refl : forall x, beq x x = true.
Proof. intro x. apply beq_true_iff. reflexivity. Qed.

Lemma beq_false_iff : forall x y : bytes, beq x y = false <-> x <> y.
Proof.
  intros x y. split.
  - intros H E. apply beq_true_iff in E. congruence.
  - intro H. destruct (beq x y) eqn:E; [apply beq_true_iff in E; contradiction | reflexivity].
Qed.

Lemma beq_sym : forall x y, beq x y = beq y x.
Proof.
  intros x y. destruct (beq y x) eqn:E.
  - apply beq_true_iff in E. subst. apply beq_refl.
  - apply beq_false_iff. apply beq_false_iff in E. congruence.
Qed.

Lemma beq_spec : forall x y, reflect (x = y) (beq x y).
Proof. intros x y. apply iff_reflect. symmetry. apply beq_true_iff. Qed.

Lemma bytes_eq_dec : forall x y : bytes, {x = y} + {x <> y}.
Proof. intros x y. destruct (beq_spec x y); [left | right]; assumption. Defined.

(** * [bltb]: strict total order *)
Lemma bltb_irrefl : forall x, bltb x x = false.
Proof.
  induction x as [|a x IH]; cbn [bltb]; [reflexivity|].
  rewrite N.ltb_irrefl. exact IH.
Qed.

Lemma bltb_trans : forall x y z, bltb x y = true -> bltb y z = true -> bltb x z = true.
Proof.
  induction x as [|a x IH]; intros [|c y] [|e z] Hxy Hyz; cbn [bltb] in *; try discriminate; try reflexivity.
  destruct (N.ltb_spec a c) as [Hac|Hac].
  - destruct (N.ltb_spec c e) as [Hce|Hce].
    + destruct (N.ltb_spec a e) as [Hae|Hae]; [reflexivity | lia].
    + destruct (N.ltb_spec e c) as [Hec|Hec]; [discriminate|].
      destruct (N.ltb_spec a e) as [Hae|Hae]; [reflexivity | lia].
  - destruct (N.ltb_spec c a) as [Hca|Hca]; [discriminate|].
    assert (a = c) by lia. subst c.
    destruct (N.ltb_spec a e) as [Hae|Hae]; [reflexivity|].
    destruct (N.ltb_spec e a) as [Hea|Hea]; [discriminate|].
    eapply IH; eassumption.
Qed.

Lemma bltb_asym : forall x y, bltb x y = true -> bltb y x = false.
Proof.
  intros x y H. destruct (bltb y x) eqn:E; [|reflexivity].
  pose proof (bltb_trans _ _ _ H E) as Hxx. rewrite bltb_irrefl in Hxx. discriminate.
Qed.

Lemma bltb_trichotomy : forall x y, bltb x y = false -> bltb y x = false -> x = y.
Proof.
  induction x as [|a x IH]; intros [|c y] Hxy Hyx; cbn [bltb] in *; try discriminate; try reflexivity.
  destruct (N.ltb_spec a c) as [Hac|Hac]; [discriminate|].
  destruct (N.ltb_spec c a) as [Hca|Hca]; [discriminate|].
  assert (a = c) by lia. subst c. f_equal. apply IH; assumption.
Qed.

Lemma bltb_neq : forall x y, bltb x y = true -> x <> y.
Proof. intros x y H E. subst. rewrite bltb_irrefl in H. discriminate. Qed.

(** * [bleb]: total, antisymmetric, transitive *)
Lemma bleb_total : forall x y, bleb x y = true \/ bleb y x = true.
Proof.
  intros x y. unfold bleb. destruct (bltb y x) eqn:E; [right | left; reflexivity].
  rewrite (bltb_asym _ _ E). reflexivity.
Qed.

Lemma bleb_antisym : forall x y, bleb x y = true -> bleb y x = true -> x = y.
Proof.
  intros x y H1 H2. unfold bleb in *. apply negb_true_iff in H1, H2.
  apply bltb_trichotomy; assumption.
Qed.

Lemma bleb_trans : forall x y z, bleb x y = true -> bleb y z = true -> bleb x z = true.
Proof.
  intros x y z H1 H2. unfold bleb in *. apply negb_true_iff in H1, H2. apply negb_true_iff.
  destruct (bltb z x) eqn:Hzx; [exfalso | reflexivity].
  destruct (bltb x y) eqn:Hxy.
  - rewrite (bltb_trans _ _ _ Hzx Hxy) in H2. discriminate.
  - assert (x = y) by (apply bltb_trichotomy; assumption). subst y. congruence.
Qed.

Lemma bleb_refl : forall x, bleb x x = true.
Proof. intro x. unfold bleb. rewrite bltb_irrefl. reflexivity. Qed.

Lemma bleb_neq_bltb : forall x y, bleb x y = true -> x <> y -> bltb x y = true.
Proof.
  intros x y H Hn. unfold bleb in H. apply negb_true_iff in H.
  destruct (bltb x y) eqn:E; [reflexivity|]. exfalso. apply Hn. apply bltb_trichotomy; assumption.
Qed.

Lemma bltb_bleb : forall x y, bltb x y = true -> bleb x y = true.
Proof. intros x y H. unfold bleb. rewrite (bltb_asym _ _ H). reflexivity. Qed.

(** * insertion sort, generically *)
Section SortFacts.
  Context {A : Type} (leb : A -> A -> bool).
  Hypothesis leb_total : forall x y, leb x y = true \/ leb y x = true.
  Hypothesis leb_antisym : forall x y, leb x y = true -> leb y x = true -> x = y.
  Hypothesis leb_trans : forall x y z, leb x y = true -> leb y z = true -> leb x z = true.

  Definition lebP (x y : A) : Prop := leb x y = true.

  Lemma insert_sorted_perm : forall x l, Permutation (insert_sorted leb x l) (x :: l).
  Proof.
    intros x l. induction l as [|y r IH]; cbn [insert_sorted]; [apply Permutation_refl|].
    destruct (leb x y); [apply Permutation_refl|].
    eapply perm_trans; [apply perm_skip, IH | apply perm_swap].
  Qed.

  Lemma isort_perm : forall l, Permutation (isort leb l) l.
  Proof.
    induction l as [|x r IH]; cbn [isort]; [apply perm_nil|].
    eapply perm_trans; [apply insert_sorted_perm | apply perm_skip, IH].
  Qed.

  Lemma insert_sorted_sorted : forall x l,
    StronglySorted lebP l -> StronglySorted lebP (insert_sorted leb x l).
  Proof.
    intros x l Hs. induction Hs as [|y r Hr IH Hy]; cbn [insert_sorted].
    - constructor; constructor.
    - destruct (leb x y) eqn:E.
      + constructor; [constructor; assumption|].
        constructor; [exact E|].
        rewrite Forall_forall in Hy |- *. intros z Hz. eapply leb_trans; [exact E | apply Hy, Hz].
      + constructor; [exact IH|].
        assert (Hyx : leb y x = true) by (destruct (leb_total x y) as [H|H]; congruence).
        rewrite Forall_forall in Hy |- *. intros z Hz.
        apply (Permutation_in _ (insert_sorted_perm x r)) in Hz.
        destruct Hz as [Hz|Hz]; [subst z; exact Hyx | apply Hy, Hz].
  Qed.

  Lemma isort_sorted : forall l, StronglySorted lebP (isort leb l).
  Proof.
    induction l as [|x r IH]; cbn [isort]; [constructor | apply insert_sorted_sorted, IH].
  Qed.

  (** a sorted list is determined by its multiset *)
  Lemma sorted_perm_eq : forall l1 l2,
    StronglySorted lebP l1 -> StronglySorted lebP l2 -> Permutation l1 l2 -> l1 = l2.
  Proof.
    induction l1 as [|a l1 IH]; intros l2 H1 H2 Hp.
    - apply Permutation_nil in Hp. subst. reflexivity.
    - destruct l2 as [|c l2]; [apply Permutation_sym, Permutation_nil in Hp; discriminate|].
      inversion H1 as [|? ? H1r H1a]; subst. inversion H2 as [|? ? H2r H2c]; subst.
      rewrite Forall_forall in H1a, H2c.
      assert (Hac : a = c).
      { assert (Ha : In a (c :: l2)) by (eapply Permutation_in; [exact Hp | left; reflexivity]).
        assert (Hc : In c (a :: l1)) by (eapply Permutation_in; [apply Permutation_sym, Hp | left; reflexivity]).
        destruct Ha as [Ha|Ha]; [congruence|]. destruct Hc as [Hc|Hc]; [congruence|].
        apply leb_antisym; [apply H1a, Hc | apply H2c, Ha]. }
      subst c. f_equal. apply IH; try assumption. eapply Permutation_cons_inv; exact Hp.
  Qed.

  (** insertion sort is canonical *)
  Theorem isort_canonical : forall l1 l2, Permutation l1 l2 -> isort leb l1 = isort leb l2.
  Proof.
    intros l1 l2 Hp. apply sorted_perm_eq; try apply isort_sorted.
    eapply perm_trans; [apply isort_perm|]. eapply perm_trans; [exact Hp|]. apply Permutation_sym, isort_perm.
  Qed.

  Lemma isort_id : forall l, StronglySorted lebP l -> isort leb l = l.
  Proof. intros l Hs. apply sorted_perm_eq; [apply isort_sorted | exact Hs | apply isort_perm]. Qed.

  Lemma isort_in : forall l x, In x (isort leb l) <-> In x l.
  Proof.
    intros l x. split; apply Permutation_in; [apply isort_perm | apply Permutation_sym, isort_perm].
  Qed.

  Lemma sorted_nodup_strict : forall l,
    StronglySorted lebP l -> NoDup l -> StronglySorted (fun x y => leb x y = true /\ x <> y) l.
  Proof.
    intros l Hs. induction Hs as [|y r Hr IH Hy]; intro Hnd; [constructor|].
    inversion Hnd as [|? ? Hny Hndr]; subst. constructor; [apply IH, Hndr|].
    rewrite Forall_forall in Hy |- *. intros z Hz. split; [apply Hy, Hz|]. intro E. subst z. contradiction.
  Qed.
End SortFacts.

(** * [sort_bytes] *)
Definition blt (x y : bytes) : Prop := bltb x y = true.

Lemma sort_bytes_perm : forall l, Permutation (sort_bytes l) l.
Proof. intro l. apply isort_perm. Qed.

Lemma sort_bytes_in : forall l x, In x (sort_bytes l) <-> In x l.
Proof. intros l x. apply isort_in. Qed.

Theorem sort_bytes_canonical : forall l1 l2, Permutation l1 l2 -> sort_bytes l1 = sort_bytes l2.
Proof. intros l1 l2. apply isort_canonical; [exact bleb_total | exact bleb_antisym | exact bleb_trans]. Qed.

Lemma sort_bytes_sorted : forall l, StronglySorted (lebP bleb) (sort_bytes l).
Proof. intro l. apply isort_sorted; [exact bleb_total | exact bleb_trans]. Qed.

Lemma StronglySorted_impl : forall {A} (R S : A -> A -> Prop) l,
  (forall x y, R x y -> S x y) -> StronglySorted R l -> StronglySorted S l.
Proof.
  intros A R S l HRS Hs. induction Hs as [|y r Hr IH Hy]; constructor; [exact IH|].
  eapply Forall_impl; [|exact Hy]. intros z Hz. apply HRS, Hz.
Qed.

Theorem sort_bytes_strict : forall l, NoDup l -> StronglySorted blt (sort_bytes l).
Proof.
  intros l Hnd.
  assert (Hnd' : NoDup (sort_bytes l)).
  { eapply Permutation_NoDup; [apply Permutation_sym, sort_bytes_perm | exact Hnd]. }
  pose proof (sorted_nodup_strict bleb _ (sort_bytes_sorted l) Hnd') as Hs.
  eapply StronglySorted_impl; [|exact Hs]. intros x y [Hle Hne]. apply bleb_neq_bltb; assumption.
Qed.

Lemma strict_sorted_NoDup : forall l, StronglySorted blt l -> NoDup l.
Proof.
  intros l Hs. induction Hs as [|y r Hr IH Hy]; constructor; [|exact IH].
  intro Hin. rewrite Forall_forall in Hy. specialize (Hy _ Hin). unfold blt in Hy.
  rewrite bltb_irrefl in Hy. discriminate.
Qed.

Lemma strict_sorted_sort_id : forall l, StronglySorted blt l -> sort_bytes l = l.
Proof.
  intros l Hs. apply isort_id; [exact bleb_total | exact bleb_antisym | exact bleb_trans |].
  eapply StronglySorted_impl; [|exact Hs]. intros x y H. apply bltb_bleb, H.
Qed.

(** A strictly increasing list is determined by its set of members. *)
Theorem strict_sorted_unique : forall l1 l2,
  StronglySorted blt l1 -> StronglySorted blt l2 -> (forall x, In x l1 <-> In x l2) -> l1 = l2.
Proof.
  intros l1 l2 H1 H2 Hin.
  rewrite <- (strict_sorted_sort_id l1 H1), <- (strict_sorted_sort_id l2 H2).
  apply sort_bytes_canonical. apply NoDup_Permutation; try apply strict_sorted_NoDup; assumption.
Qed.
