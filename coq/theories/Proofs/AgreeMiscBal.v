(** WP11: the balance tree's amount at the path of a food equals the quantity report's figure. *)
From HP Require Import Base.Bytes Base.Num Model.Elements Model.Dates Model.Tree Model.Writer Model.Reporters
  Spec.TreeShared Spec.Agree2Spec Proofs.AgreeMiscBase Proofs.AgreeMiscQty.
From Coq Require Import Lia Permutation.

Section Bal.
  Context (NM : Num).
  Notation T := (T NM).
  Notation elements := (elements NM).
  Notation lognode := (lognode NM).
  Notation tree := (tree NM).

  (** *** add_deep, unfolded *)
  Lemma add_deep_nil : forall v (ch : list tree), add_deep NM [] v ch = ch.
  Proof. reflexivity. Qed.

  Lemma add_deep_cons_nil : forall n rest v,
    add_deep NM (n :: rest) v [] = [Node n v (add_deep NM rest v [])].
  Proof. reflexivity. Qed.

  Lemma add_deep_cons_cons : forall n rest v n' t c (r : list tree),
    add_deep NM (n :: rest) v (Node n' t c :: r)
    = if beq n n' then Node n' (add NM t v) (add_deep NM rest v c) :: r
      else Node n' t c :: add_deep NM (n :: rest) v r.
  Proof. reflexivity. Qed.

  (** the child named [n] after the update *)
  Definition upd_child (n : bytes) (rest : list bytes) (v : T) (o : option tree) : tree :=
    match o with
    | Some (Node n' t c) => Node n' (add NM t v) (add_deep NM rest v c)
    | None => Node n v (add_deep NM rest v [])
    end.

  Lemma find_child_add_deep : forall n rest v (ch : list tree) k,
    find_child NM k (add_deep NM (n :: rest) v ch)
    = if beq k n then Some (upd_child n rest v (find_child NM n ch)) else find_child NM k ch.
  Proof.
    intros n rest v ch k. induction ch as [|[n' t c] r IH].
    - rewrite add_deep_cons_nil. cbn [find_child t_name upd_child]. destruct (beq k n); reflexivity.
    - rewrite add_deep_cons_cons. destruct (beq_spec n n') as [E|E].
      + subst n'. cbn [find_child t_name]. rewrite beq_refl. destruct (beq k n); reflexivity.
      + cbn [find_child t_name]. rewrite IH. destruct (beq_spec k n') as [E'|E'].
        * subst n'. destruct (beq_spec k n) as [E''|E'']; [congruence | reflexivity].
        * destruct (beq_spec n n'); [contradiction | reflexivity].
  Qed.

  (** *** the node at a path after add_deep *)
  Lemma node_at_nil_ch : forall p, node_at NM p [] = None.
  Proof. intros [|k p]; reflexivity. Qed.

  Definition upd_node (p names : list bytes) (v : T) (o : option tree) : tree :=
    match o with
    | Some (Node n' t c) => Node n' (add NM t v) (add_deep NM (skipn (length p) names) v c)
    | None => Node (last p []) v (add_deep NM (skipn (length p) names) v [])
    end.

  Lemma node_at_add_deep : forall names v (ch : list tree) p, p <> [] ->
    node_at NM p (add_deep NM names v ch)
    = if path_prefix p names then Some (upd_node p names v (node_at NM p ch)) else node_at NM p ch.
  Proof.
    induction names as [|n rest IH]; intros v ch p Hp.
    - rewrite add_deep_nil. destruct p as [|k p']; [contradiction | reflexivity].
    - destruct p as [|k p']; [contradiction|]. clear Hp.
      cbn [node_at path_prefix]. rewrite find_child_add_deep.
      destruct (beq_spec k n) as [E|E]; cbn [andb]; [|reflexivity].
      subst k. destruct p' as [|k' p''].
      + cbn [path_prefix length skipn last]. unfold upd_node, upd_child.
        destruct (find_child NM n ch) as [[n' t c]|]; reflexivity.
      + assert (Hne : k' :: p'' <> []) by discriminate.
        destruct (find_child NM n ch) as [[n' t c]|] eqn:Ef; cbn [upd_child t_children].
        * rewrite (IH v c (k' :: p'') Hne). reflexivity.
        * rewrite (IH v [] (k' :: p'') Hne). rewrite node_at_nil_ch. reflexivity.
  Qed.

  Lemma total_at_node_at : forall p (ch : list tree), total_at NM p ch = option_map (t_total NM) (node_at NM p ch).
  Proof.
    induction p as [|k p' IH]; intro ch; [reflexivity|].
    cbn [total_at node_at]. destruct (find_child NM k ch) as [c|]; [|reflexivity].
    destruct p' as [|k' p'']; [reflexivity | apply IH].
  Qed.

  (** first value assigns, later ones add *)
  Definition opt_add (o : option T) (v : T) : option T :=
    Some (match o with Some x => add NM x v | None => v end).

  Lemma total_at_add_deep : forall names v (ch : list tree) p, p <> [] ->
    total_at NM p (add_deep NM names v ch)
    = if path_prefix p names then opt_add (total_at NM p ch) v else total_at NM p ch.
  Proof.
    intros names v ch p Hp. rewrite !total_at_node_at, node_at_add_deep by exact Hp.
    destruct (path_prefix p names); [|reflexivity].
    destruct (node_at NM p ch) as [[n' t c]|]; reflexivity.
  Qed.

  (** children of the node at a path ([[]] when there is no such node) *)
  Definition kids_at (p : list bytes) (ch : list tree) : list tree :=
    match node_at NM p ch with Some nd => t_children NM nd | None => [] end.

  Lemma kids_at_add_deep : forall names v (ch : list tree) p, p <> [] ->
    kids_at p (add_deep NM names v ch)
    = if path_prefix p names then add_deep NM (skipn (length p) names) v (kids_at p ch) else kids_at p ch.
  Proof.
    intros names v ch p Hp. unfold kids_at. rewrite node_at_add_deep by exact Hp.
    destruct (path_prefix p names); [|reflexivity].
    destruct (node_at NM p ch) as [[n' t c]|]; reflexivity.
  Qed.

  (** *** the whole walk *)
  Lemma walk_balance_from : forall c π (L : list lognode) i st,
    walk_from NM (rep_balance NM c) π i L st = tree_add_all NM st (entries NM L).
  Proof.
    intros c π L. induction L as [|ln r IH]; intros i st; cbn [walk_from entries flat_map]; [reflexivity|].
    rewrite IH. unfold tree_add_all, entries. rewrite fold_left_app. reflexivity.
  Qed.

  Lemma t_children_tree_add : forall (root : tree) name v,
    t_children NM (tree_add NM root name v) = add_deep NM (segs name) v (t_children NM root).
  Proof. intros [n t ch] name v. reflexivity. Qed.

  Lemma total_at_tree_add_all : forall (es : elements) (root : tree) p, p <> [] ->
    total_at NM p (t_children NM (tree_add_all NM root es))
    = fold_left (fun o nv => if path_prefix p (segs (fst nv)) then opt_add o (snd nv) else o) es
                (total_at NM p (t_children NM root)).
  Proof.
    induction es as [|[k v] r IH]; intros root p Hp; [reflexivity|].
    unfold tree_add_all in *. cbn [fold_left fst snd]. rewrite IH by exact Hp.
    rewrite t_children_tree_add, total_at_add_deep by exact Hp. reflexivity.
  Qed.

  Lemma fold_opt_add : forall p (es : elements) o,
    fold_left (fun o nv => if path_prefix p (segs (fst nv)) then opt_add o (snd nv) else o) es o
    = match o with
      | Some x => Some (fold_left (add NM) (map snd (at_or_below NM p es)) x)
      | None => assign_then_add NM (map snd (at_or_below NM p es))
      end.
  Proof.
    intros p es. unfold at_or_below. induction es as [|[k v] r IH]; intro o; cbn [fold_left filter fst snd].
    - destruct o; reflexivity.
    - rewrite IH. destruct (path_prefix p (segs k)); [|reflexivity].
      destruct o; reflexivity.
  Qed.

  (** the total stored at any path [p] of the balance tree after the walk: the first-assign-then-add
      fold of ALL logged entries at or below [p], in file order.  Law-free, every tree path. *)
  Theorem balance_total_at : forall c π (L : list lognode) p, p <> [] ->
    total_at NM p (t_children NM (walk_state NM (rep_balance NM c) π L))
    = assign_then_add NM (map snd (at_or_below NM p (entries NM L))).
  Proof.
    intros c π L p Hp. unfold walk_state. rewrite walk_balance_from.
    rewrite total_at_tree_add_all by exact Hp. rewrite fold_opt_add.
    cbn [rep_balance r_init empty_root t_children]. destruct p; [contradiction | reflexivity].
  Qed.

  (** *** prefix-free names: the entries at or below [segs f] are those named [f] *)
  Lemma at_or_below_prefix_free : forall f (es : elements),
    prefix_free (map fst es) -> In f (map fst es) ->
    at_or_below NM (segs f) es = filter (fun nv => beq (fst nv) f) es.
  Proof.
    intros f es PF Hf. unfold at_or_below. apply filter_ext_in. intros [k v] Hk. cbn [fst].
    assert (Hk' : In k (map fst es)) by (change k with (fst (k, v)); apply in_map; exact Hk).
    destruct (beq_spec k f) as [E|E].
    - subst k. apply path_prefix_refl.
    - destruct (path_prefix (segs f) (segs k)) eqn:Ep; [|reflexivity].
      exfalso. apply E. symmetry. apply PF; assumption.
  Qed.

  Lemma kids_at_tree_add_all : forall (es : elements) (root : tree) p, p <> [] ->
    (forall nv, In nv es -> path_prefix p (segs (fst nv)) = true -> segs (fst nv) = p) ->
    kids_at p (t_children NM (tree_add_all NM root es)) = kids_at p (t_children NM root).
  Proof.
    induction es as [|[k v] r IH]; intros root p Hp H; [reflexivity|].
    unfold tree_add_all in *. cbn [fold_left fst snd]. rewrite IH; [|exact Hp|].
    - rewrite t_children_tree_add, kids_at_add_deep by exact Hp.
      destruct (path_prefix p (segs k)) eqn:Ep; [|reflexivity].
      pose proof (H (k, v) (or_introl eq_refl) Ep) as Hs. cbn [fst] in Hs. rewrite Hs.
      rewrite skipn_all. apply add_deep_nil.
    - intros nv Hnv. apply H. right. exact Hnv.
  Qed.

  (** a node found by path that has no children is among the leaves of TreeShared *)
  Lemma node_at_leaf_in_leaves : forall p (ch : list tree) nd pre n x,
    node_at NM p ch = Some nd -> t_children NM nd = [] ->
    In (pre ++ p, t_total NM nd) (leaves_below NM pre (Node n x ch)).
  Proof.
    induction p as [|k p' IH]; intros ch nd pre n x Hn Hk; [discriminate|].
    cbn [node_at] in Hn. destruct (find_child NM k ch) as [c|] eqn:Ef; [|discriminate].
    assert (Hc : In c ch /\ t_name NM c = k).
    { clear -Ef. induction ch as [|c' r IHr]; [discriminate|]. cbn [find_child] in Ef.
      destruct (beq_spec k (t_name NM c')) as [E|E].
      - injection Ef as Ef. subst. split; [left; reflexivity | reflexivity].
      - destruct (IHr Ef) as [H1 H2]. split; [right; exact H1 | exact H2]. }
    destruct Hc as [Hin Hname]. cbn [leaves_below]. apply in_flat_map. exists c. split; [exact Hin|].
    rewrite Hname. destruct p' as [|k' p''].
    - injection Hn as Hn. subst nd. rewrite Hk. left. reflexivity.
    - destruct c as [cn cx cch]. cbn [t_children].
      destruct cch as [|c1 cr]; [cbn [t_children] in Hn; discriminate|].
      replace (pre ++ k :: k' :: p'') with ((pre ++ [k]) ++ k' :: p'') by (rewrite <- app_assoc; reflexivity).
      apply IH; assumption.
  Qed.

  Lemma assign_then_add_zero : (forall x : T, add NM (zero NM) x = x) ->
    forall qs, assign_then_add NM qs = match qs with [] => None | _ => Some (sum_from_zero NM qs) end.
  Proof.
    intros H0 [|q r]; [reflexivity|]. unfold assign_then_add, sum_from_zero. cbn [fold_left]. rewrite H0. reflexivity.
  Qed.

  (** *** quantity_eq_balance_leaf *)
  Theorem quantity_eq_balance_leaf : forall c π (L : list lognode) f,
    let es := entries NM L in
    let root := walk_state NM (rep_balance NM c) π L in
    prefix_free (map fst es) -> In f (map fst es) ->
    (* law-free: the amount at the food's path is q1 then += q2 ..., and that node is a leaf *)
    total_at NM (segs f) (t_children NM root) = assign_then_add NM (qtys_of NM f es)
    /\ (exists nd, node_at NM (segs f) (t_children NM root) = Some nd /\ t_children NM nd = []
                   /\ In (segs f, t_total NM nd) (tree_leaves NM root))
    /\ (* with [0 + x = x] only: it is the quantity report's figure *)
       ((forall x : T, add NM (zero NM) x = x) ->
        forall desc π', total_at NM (segs f) (t_children NM root)
                        = lookup f (walk_state NM (rep_quantity NM desc) π' L)).
  Proof.
    intros c π L f es root PF Hf.
    assert (Htot : total_at NM (segs f) (t_children NM root) = assign_then_add NM (qtys_of NM f es)).
    { unfold root. rewrite balance_total_at by apply segs_nonempty. fold es.
      rewrite at_or_below_prefix_free by assumption. reflexivity. }
    split; [exact Htot|]. split.
    - rewrite total_at_node_at in Htot.
      destruct (node_at NM (segs f) (t_children NM root)) as [nd|] eqn:En.
      + exists nd. split; [reflexivity|].
        assert (Hk : t_children NM nd = []).
        { assert (K : kids_at (segs f) (t_children NM root) = []).
          { unfold root, walk_state. rewrite walk_balance_from. rewrite kids_at_tree_add_all.
            - cbn [rep_balance r_init empty_root t_children]. unfold kids_at. rewrite node_at_nil_ch. reflexivity.
            - apply segs_nonempty.
            - intros [k v] Hk Hp. cbn [fst] in *. f_equal. symmetry. apply PF; [exact Hf | | exact Hp].
              change k with (fst (k, v)). apply in_map. exact Hk. }
          unfold kids_at in K. rewrite En in K. exact K. }
        split; [exact Hk|].
        unfold tree_leaves. destruct root as [rn rx rch]. cbn [t_children] in En.
        apply (node_at_leaf_in_leaves (segs f) rch nd [] rn rx En Hk).
      + exfalso. cbn [option_map] in Htot.
        assert (Hq : qtys_of NM f es <> []).
        { unfold qtys_of. apply in_map_iff in Hf. destruct Hf as [[k v] [Hk1 Hk2]]. cbn [fst] in Hk1. subst k.
          intro K. assert (Hin : In v (map snd (filter (fun nv => beq (fst nv) f) es))).
          { change v with (snd (f, v)). apply in_map. apply filter_In. split; [exact Hk2 | apply beq_refl]. }
          rewrite K in Hin. contradiction. }
        destruct (qtys_of NM f es); [contradiction | discriminate].
    - intros H0 desc π'. rewrite Htot, quantity_lookup. fold es.
      rewrite (proj2 (existsb_beq_In _ _) Hf). rewrite assign_then_add_zero by exact H0.
      destruct (qtys_of NM f es) eqn:Eq; [|reflexivity].
      exfalso. apply in_map_iff in Hf. destruct Hf as [[k v] [Hk1 Hk2]]. cbn [fst] in Hk1. subst k.
      assert (Hin : In v (qtys_of NM f es)).
      { unfold qtys_of. change v with (snd (f, v)). apply in_map. apply filter_In. split; [exact Hk2 | apply beq_refl]. }
      rewrite Eq in Hin. contradiction.
  Qed.

  (** finer: only [0 + q1 = q1] for the FIRST logged quantity of [f] is needed *)
  Theorem quantity_eq_balance_leaf_first : forall c π (L : list lognode) f desc π',
    let es := entries NM L in
    let root := walk_state NM (rep_balance NM c) π L in
    prefix_free (map fst es) -> In f (map fst es) ->
    (forall q1 r, qtys_of NM f es = q1 :: r -> add NM (zero NM) q1 = q1) ->
    total_at NM (segs f) (t_children NM root) = lookup f (walk_state NM (rep_quantity NM desc) π' L).
  Proof.
    intros c π L f desc π' es root PF Hf H0.
    destruct (quantity_eq_balance_leaf c π L f PF Hf) as [Htot _]. fold es root in Htot.
    rewrite Htot, quantity_lookup. fold es. rewrite (proj2 (existsb_beq_In _ _) Hf).
    destruct (qtys_of NM f es) as [|q1 r] eqn:Eq.
    - exfalso. apply in_map_iff in Hf. destruct Hf as [[k v] [Hk1 Hk2]]. cbn [fst] in Hk1. subst k.
      assert (Hin : In v (qtys_of NM f es)).
      { unfold qtys_of. change v with (snd (f, v)). apply in_map. apply filter_In. split; [exact Hk2 | apply beq_refl]. }
      rewrite Eq in Hin. contradiction.
    - unfold assign_then_add, sum_from_zero. cbn [fold_left]. rewrite (H0 q1 r eq_refl). reflexivity.
  Qed.

  (** and conversely the two figures differ exactly by that first step *)
  Theorem quantity_vs_balance_leaf_general : forall c π (L : list lognode) f desc π',
    let es := entries NM L in
    let root := walk_state NM (rep_balance NM c) π L in
    prefix_free (map fst es) -> In f (map fst es) ->
    exists q1 r, qtys_of NM f es = q1 :: r
      /\ total_at NM (segs f) (t_children NM root) = Some (fold_left (add NM) r q1)
      /\ lookup f (walk_state NM (rep_quantity NM desc) π' L) = Some (fold_left (add NM) r (add NM (zero NM) q1)).
  Proof.
    intros c π L f desc π' es root PF Hf.
    destruct (quantity_eq_balance_leaf c π L f PF Hf) as [Htot _]. fold es root in Htot.
    destruct (qtys_of NM f es) as [|q1 r] eqn:Eq.
    - exfalso. apply in_map_iff in Hf. destruct Hf as [[k v] [Hk1 Hk2]]. cbn [fst] in Hk1. subst k.
      assert (Hin : In v (qtys_of NM f es)).
      { unfold qtys_of. change v with (snd (f, v)). apply in_map. apply filter_In. split; [exact Hk2 | apply beq_refl]. }
      rewrite Eq in Hin. contradiction.
    - exists q1, r. split; [reflexivity|]. split; [exact Htot|].
      rewrite quantity_lookup. fold es. rewrite (proj2 (existsb_beq_In _ _) Hf), Eq. reflexivity.
  Qed.
End Bal.

(** *** non-vacuity: the example log of AgreeMiscQty *)
Example ex_prefix_free : prefix_free (map fst (entries ZNum ex_L)).
Proof.
  intros f g Hf Hg. vm_compute in Hf, Hg.
  repeat (destruct Hf as [Hf|Hf]; [subst f|]); try contradiction;
    repeat (destruct Hg as [Hg|Hg]; [subst g|]); try contradiction;
    vm_compute; intro H; try reflexivity; discriminate.
Qed.

Example ex_balance_leaf :
  total_at ZNum (segs (b "bread")) (t_children ZNum (walk_state ZNum (rep_balance ZNum
     {| rc_color := false; rc_totals_only := false; rc_totals := true; rc_date := []; rc_single_element := [];
        rc_single_food := []; rc_collapse_last := false; rc_collapse := false; rc_group_food := false;
        rc_shorten := false; rc_old := false; rc_template := []; rc_csv := false |}) (fun _ l => l) ex_L))
  = Some 8%Z
  /\ lookup (b "bread") (walk_state ZNum (rep_quantity ZNum false) (fun _ l => l) ex_L) = Some 8%Z
  /\ total_at ZNum [b "milk"] (t_children ZNum (walk_state ZNum (rep_balance ZNum
     {| rc_color := false; rc_totals_only := false; rc_totals := true; rc_date := []; rc_single_element := [];
        rc_single_food := []; rc_collapse_last := false; rc_collapse := false; rc_group_food := false;
        rc_shorten := false; rc_old := false; rc_template := []; rc_csv := false |}) (fun _ l => l) ex_L))
    = Some 7%Z.
Proof. vm_compute. repeat split; reflexivity. Qed.

(** without [prefix_free] the statement is false: a food that is also a group of another food *)
Definition ex_L_nested : list (lognode ZNum) :=
  [ {| ln_time := time_of_civil (2021, 1, 1)%Z;
       ln_elems := merge_elements ZNum [(b "milk", 1%Z); (b "milk/whole", 2%Z)]; ln_meta := None |} ].

Example quantity_eq_balance_leaf_needs_prefix_free :
  In (b "milk") (map fst (entries ZNum ex_L_nested))
  /\ total_at ZNum (segs (b "milk")) (t_children ZNum (walk_state ZNum (rep_balance ZNum
       {| rc_color := false; rc_totals_only := false; rc_totals := true; rc_date := []; rc_single_element := [];
          rc_single_food := []; rc_collapse_last := false; rc_collapse := false; rc_group_food := false;
          rc_shorten := false; rc_old := false; rc_template := []; rc_csv := false |}) (fun _ l => l) ex_L_nested))
     = Some 3%Z
  /\ lookup (b "milk") (walk_state ZNum (rep_quantity ZNum false) (fun _ l => l) ex_L_nested) = Some 1%Z.
Proof. vm_compute. repeat split. left. reflexivity. Qed.
