(** WP14 / C13: which rows the three CSV exports write, and that they read back. *)
From Coq Require Import Lia ZifyBool ZifyNat ZifyN.
From HP Require Import Base.Bytes Base.Num Model.Scanner Model.Parser Model.Elements Model.Dates Model.Writer
  Model.Csv Model.Reporters Model.Cli.
From HP Require Import Proofs.CsvCodec Proofs.CsvWalk.

Section Rows.
  Context (NM : Num).
  Notation T := (T NM).

  (** * csv log *)
  Lemma csv_log_rows_spec : forall ln : lognode NM,
    csv_log_rows NM ln
    = map (fun nv => [format_date iso_date (civ (ln_time NM ln)); fst nv; f3 NM (snd nv)]) (ln_elems NM ln)
    /\ (forall perm st, r_process NM (rep_csv_log NM) perm st ln
                        = (tt, map (fun r => (csv_record r, true)) (csv_log_rows NM ln), None))
    /\ (forall perm st, r_flush NM (rep_csv_log NM) perm st = []).
  Proof. intros ln. split; [reflexivity|]. split; intros; reflexivity. Qed.

  Lemma csv_log_rows_nonempty : forall ln r, In r (csv_log_rows NM ln) -> r <> [].
  Proof. intros ln r H. unfold csv_log_rows in H. apply in_map_iff in H. destruct H as (nv & <- & _). discriminate. Qed.

  (** everything the reporter writes for a list of selected days, Flush included *)
  Definition csv_log_output (days : list (lognode NM)) : bytes :=
    concat (map fst (flat_map (fun ln => snd (fst (r_process NM (rep_csv_log NM) (fun l => l) tt ln))) days
                     ++ r_flush NM (rep_csv_log NM) (fun l => l) tt)).

  Lemma map_fst_checked : forall rows : list (list bytes),
    map fst (map (fun r => (csv_record r, true)) rows) = map csv_record rows.
  Proof. intros rows. rewrite map_map. reflexivity. Qed.

  Lemma csv_log_output_records : forall days,
    csv_log_output days = concat (map csv_record (flat_map (csv_log_rows NM) days)).
  Proof.
    intros days. unfold csv_log_output.
    replace (r_flush NM (rep_csv_log NM) (fun l => l) tt) with (@nil chunk) by reflexivity.
    rewrite app_nil_r.
    f_equal. induction days as [|ln days IH]; [reflexivity|].
    cbn [flat_map]. rewrite !map_app. f_equal; [apply map_fst_checked|exact IH].
  Qed.

  (** the export of a list of days reads back as exactly one row [date; food; amount]
      per (day, food of the day), days in order, foods in the order of the day *)
  Theorem csv_log_export_reads_back : forall days : list (lognode NM),
    csv_decode (csv_log_output days)
    = Some (flat_map (fun ln => map (fun nv => [format_date iso_date (civ (ln_time NM ln)); fst nv; f3 NM (snd nv)])
                                    (ln_elems NM ln)) days).
  Proof.
    intros days. rewrite csv_log_output_records. apply csv_decode_encode.
    intros r H. apply in_flat_map in H. destruct H as (ln & _ & H). apply (csv_log_rows_nonempty ln r H).
  Qed.

  (** * csv database: the raw book *)
  Lemma csv_db_rows_nonempty : forall h els r, In r (csv_db_rows NM h els) -> r <> [].
  Proof. intros h els r H. unfold csv_db_rows in H. apply in_map_iff in H. destruct H as (nv & <- & _). discriminate. Qed.

  (** the records before the first parse error *)
  Fixpoint nodes_before_error (evs : list (event NM)) : list (pnode NM) * option (perr) :=
    match evs with
    | [] => ([], None)
    | ENode n :: r => let '(l, e) := nodes_before_error r in (n :: l, e)
    | EErr e :: _ => ([], Some e)
    end.

  Definition db_rows_of (nodes : list (pnode NM)) : list (list bytes) :=
    flat_map (fun n => map (fun nv => [header n; fst nv; f2 NM (snd nv)]) (elems n)) nodes.

  Lemma db_rows_of_nonempty : forall nodes r, In r (db_rows_of nodes) -> r <> [].
  Proof.
    intros nodes r H. apply in_flat_map in H. destruct H as (n & _ & H).
    apply in_map_iff in H. destruct H as (nv & <- & _). discriminate.
  Qed.

  Definition cb_db (wr : bw) (ev : event NM) : bw * bool * option cerr :=
    match ev with
    | EErr e => (wr, true, Some (EParse (perr_message e)))
    | ENode n =>
        let '(wr', werr) := bw_chunks wr (map (fun r => (csv_record r, true)) (csv_db_rows NM (header n) (elems n))) in
        (wr', werr, if werr then Some EWrite else None)
    end.

  Lemma cb_db_stops : stops_iff_error NM cb_db.
  Proof.
    intros s [n|e]; cbn [cb_db]; [|reflexivity].
    destruct (bw_chunks s _) as [wr' werr]. destruct werr; reflexivity.
  Qed.

  Lemma run_cb_db : forall evs wr, bw_ok wr ->
    bw_ok (fst (run_cb NM cb_db evs wr))
    /\ bw_content (fst (run_cb NM cb_db evs wr))
       = bw_content wr ++ concat (map csv_record (db_rows_of (fst (nodes_before_error evs))))
    /\ snd (run_cb NM cb_db evs wr)
       = match snd (nodes_before_error evs) with Some e => Some (EParse (perr_message e)) | None => None end.
  Proof.
    induction evs as [|[n|e] evs IH]; intros wr K.
    - cbn. rewrite app_nil_r. auto.
    - cbn [run_cb cb_db nodes_before_error].
      destruct (bw_chunks_ok (map (fun r => (csv_record r, true)) (csv_db_rows NM (header n) (elems n))) wr K)
        as (w1 & W1 & K1 & C1).
      rewrite W1. destruct (IH w1 K1) as (I1 & I2 & I3).
      destruct (nodes_before_error evs) as [l e] eqn:NB. cbn [fst snd] in *.
      split; [exact I1|]. split; [|exact I3].
      rewrite I2, C1, map_fst_checked. unfold db_rows_of. cbn [flat_map]. fold (db_rows_of l).
      rewrite map_app, concat_app, <- app_assoc. reflexivity.
    - cbn. rewrite app_nil_r. auto.
  Qed.

  (** [csv database] with a readable book and a sink that never fails: the output is
      one record [heading; ingredient; amount] for every entry of every record of
      the book in FILE order (repeated headings and duplicate entries kept), up
      to the first parse error; it decodes to exactly these rows; the status is
      the parse error, the scanner's error, or Ok *)
  Theorem csv_db_rows_spec : forall (w : world) (op : options) (o : opened) (data : bytes),
    w_sink w = None -> open_file w (op_db op) = Some o -> readable_as o data ->
    let nodes := fst (nodes_before_error (csv_delivered NM data)) in
    let rows := flat_map (fun n => map (fun nv => [header n; fst nv; f2 NM (snd nv)]) (elems n)) nodes in
    out_stdout (run_csv_db NM w op) = concat (map csv_record rows)
    /\ csv_decode (out_stdout (run_csv_db NM w op)) = Some rows
    /\ out_status (run_csv_db NM w op)
       = status_of (match snd (nodes_before_error (csv_delivered NM data)) with
                    | Some e => Some (EParse (perr_message e))
                    | None => scan_status data
                    end).
  Proof.
    intros w op o data Hs Ho Hr nodes rows.
    assert (E : out_stdout (run_csv_db NM w op) = concat (map csv_record rows)
                /\ out_status (run_csv_db NM w op)
                   = status_of (match snd (nodes_before_error (csv_delivered NM data)) with
                                | Some e => Some (EParse (perr_message e))
                                | None => scan_status data
                                end)).
    { unfold run_csv_db. cbn [open_all]. rewrite Ho. cbn [option_map].
      change (parse_opened NM _ o (new_writer w)) with (parse_opened NM cb_db o (new_writer w)).
      rewrite (parse_opened_readable NM cb_db o data (new_writer w) cb_db_stops Hr).
      destruct (new_writer_ok w Hs) as [K0 C0].
      destruct (run_cb_db (csv_delivered NM data) (new_writer w) K0) as (K1 & C1 & S1).
      rewrite C0 in C1. cbn [app] in C1.
      destruct (bw_flush_ok _ K1) as (w2 & F2 & K2 & B2 & G2).
      rewrite F2. unfold finish. cbn [out_stdout out_status].
      split; [rewrite G2, C1; reflexivity|].
      rewrite S1. destruct (snd (nodes_before_error (csv_delivered NM data))); [reflexivity|].
      destruct (scan_status data); reflexivity. }
    destruct E as [E1 E2]. split; [exact E1|]. split; [|exact E2].
    rewrite E1. apply csv_decode_encode. apply db_rows_of_nonempty.
  Qed.

  (** the error-free case in the words of the property: all records of the book *)
  Corollary csv_db_rows_spec_error_free : forall (w : world) (op : options) (o : opened) (data : bytes) (nodes : list (pnode NM)),
    w_sink w = None -> open_file w (op_db op) = Some o -> readable_as o data ->
    snd (scan data NoFault) = ScanEOF -> events NM data = map ENode nodes ->
    csv_decode (out_stdout (run_csv_db NM w op))
    = Some (flat_map (fun n => map (fun nv => [header n; fst nv; f2 NM (snd nv)]) (elems n)) nodes)
    /\ out_status (run_csv_db NM w op) = Ok.
  Proof.
    intros w op o data nodes Hs Ho Hr Hscan Hev.
    destruct (csv_db_rows_spec w op o data Hs Ho Hr) as (_ & D & S).
    destruct (csv_delivered_events NM data Hscan) as [DE SS]. rewrite DE, SS, Hev in *.
    assert (NB : nodes_before_error (map ENode nodes) = (nodes, None)).
    { clear. induction nodes as [|n l IH]; [reflexivity|]. cbn [map nodes_before_error]. rewrite IH. reflexivity. }
    rewrite NB in *. cbn [fst snd] in *. split; assumption.
  Qed.

  (** * csv database-resolved *)
  Theorem csv_db_resolved_rows_spec : forall (w : world) (op : options) (o : opened) (d : list (bytes * elements NM)),
    w_sink w = None -> open_file w (op_db op) = Some o -> resolved_db NM w op o = inr d ->
    let recipes := sort_bytes (o_flush (w_or w) (keys d)) in
    let rows := flat_map (fun name => match lookup name d with
                                      | Some els => map (fun nv => [name; fst nv; f2 NM (snd nv)]) els
                                      | None => []
                                      end) recipes in
    out_stdout (run_csv_db_resolved NM w op) = concat (map csv_record rows)
    /\ csv_decode (out_stdout (run_csv_db_resolved NM w op)) = Some rows
    /\ out_status (run_csv_db_resolved NM w op) = Ok.
  Proof.
    intros w op o d Hs Ho Hres recipes rows.
    assert (E : out_stdout (run_csv_db_resolved NM w op) = concat (map csv_record rows)
                /\ out_status (run_csv_db_resolved NM w op) = Ok).
    { unfold run_csv_db_resolved. cbn [open_all]. rewrite Ho. cbn [option_map]. rewrite Hres.
      destruct (new_writer_ok w Hs) as [K0 C0].
      fold recipes. change (flat_map _ recipes) with rows.
      destruct (bw_chunks_ok (map (fun r => (csv_record r, true)) rows) (new_writer w) K0) as (w1 & W1 & K1 & C1).
      rewrite W1. destruct (bw_flush_ok w1 K1) as (w2 & F2 & K2 & B2 & G2). rewrite F2.
      unfold finish. cbn [out_stdout out_status]. split; [|reflexivity].
      rewrite G2, C1, C0, map_fst_checked. reflexivity. }
    destruct E as [E1 E2]. split; [exact E1|]. split; [|exact E2].
    rewrite E1. apply csv_decode_encode.
    intros r H. apply in_flat_map in H. destruct H as (name & _ & H).
    destruct (lookup name d); [|destruct H]. apply in_map_iff in H. destruct H as (nv & <- & _). discriminate.
  Qed.
End Rows.

(** non-vacuity on the exact-integer instance *)
Example csv_log_example :
  let ln := {| ln_time := time_of_civil (2021%Z, 3%Z, 7%Z);
               ln_elems := [(b "soup, hot", 2%Z); (b "say ""hi""", 3%Z)] : elements ZNum; ln_meta := None |} in
  csv_log_output ZNum [ln] = b "2021-03-07,""soup, hot"",2" ++ [c_lf] ++ b "2021-03-07,""say """"hi"""""",3" ++ [c_lf]
  /\ csv_decode (csv_log_output ZNum [ln])
     = Some [[b "2021-03-07"; b "soup, hot"; b "2"]; [b "2021-03-07"; b "say ""hi"""; b "3"]].
Proof. vm_compute. split; reflexivity. Qed.
