(** WP03 – non-vacuity: concrete files that meet the hypotheses of the
    theorems and exercise every layout mechanism. *)
From Coq Require Import Lia.
From HP Require Import Base.Bytes Base.Utf8 Base.Num Base.GoFloat Model.Scanner Model.Parser Model.Syntax.
From HP Require Import Proofs.ParserBytes Proofs.ParserScan Proofs.ParserClassify Proofs.ParserRoundtrip
  Proofs.ParserCorollaries.
Open Scope N_scope.

(** a comment, a heading with a colon, an entry indented by a tab, an entry as
    a YAML list item with quotes, colon, trailing blanks and CRLF, a note, an
    empty line, a comment with CRLF, a second heading (CRLF), an entry with
    space indentation, trailing blank and CRLF; no final newline *)
Definition ex_items : list (item * bool) := [
  (IComment (b " my log"), false);
  (IHeading (b "2021/01/24") (b ":"), false);
  (IEntry [c_tab] (b "apple pie") (b " ") (b "150") [], false);
  (IEntry (b "  - """) (b "milk") (b """: ") (b "-2") (b "  "), true);
  (INote (b "  ") (b "# note: felt good"), false);
  (IBlank [], false);
  (IComment (b "comment"), true);
  (IHeading (b "2021/01/25") [], true);
  (IEntry (b "    ") (b "bread") (b "   ") (b "3") (b " "), true)
].
Definition ex_file : file := {| f_items := ex_items; f_final_newline := false |}.

Example ex_render :
  render ex_file =
  b "# my log" ++ [c_lf] ++
  b "2021/01/24:" ++ [c_lf] ++
  [c_tab] ++ b "apple pie 150" ++ [c_lf] ++
  b "  - ""milk"": -2  " ++ [c_cr; c_lf] ++
  b "  # note: felt good" ++ [c_lf] ++
  [c_lf] ++
  b "#comment" ++ [c_cr; c_lf] ++
  b "2021/01/25" ++ [c_cr; c_lf] ++
  b "    bread   3 ".
Proof. vm_compute. reflexivity. Qed.

Example ex_wf : wf_file ZNum ex_file = true.
Proof. vm_compute. reflexivity. Qed.

Example ex_short : short_lines ex_file.
Proof. apply short_lines_simple. repeat constructor. Qed.

Definition node (NM : Num) (h : bytes) (e : list (bytes * T NM)) (m : option (list (bytes * bytes))) : event NM :=
  ENode {| header := h; elems := e; meta := m |}.

Example ex_events :
  events ZNum (render ex_file) =
  [node ZNum (b "2021/01/24") [(b "apple pie", 150%Z); (b "milk", (-2)%Z)] (Some [(b "note", b "felt good")]);
   node ZNum (b "2021/01/25") [(b "bread", 3%Z)] None].
Proof. vm_compute. reflexivity. Qed.

(** the theorem applies to it *)
Example ex_roundtrip : events ZNum (render ex_file) = expected_events ZNum ex_file.
Proof. exact (parse_render_roundtrip ZNum ex_file ex_wf ex_short). Qed.

(** the same file at the binary64 instance: values are [parse_float] of the lexeme *)
Example ex_wf64 : wf_file B64 ex_file = true.
Proof. vm_compute. reflexivity. Qed.

(** ([vm_compute] must not see [B64] in the type of the goal – it would
    normalise the instance's functions – so the events are compared through a
    projection to plain data) *)
Definition shape64 (e : event B64)
  : option (bytes * list (bytes * SpecFloat.spec_float) * option (list (bytes * bytes))) :=
  match e with ENode n => Some (header n, elems n, meta n) | EErr _ => None end.

Example ex_events64 :
  map shape64 (events B64 (render ex_file)) =
  [Some (b "2021/01/24",
         [(b "apple pie", SpecFloat.S754_finite false 5277655813324800 (-45));   (* 150 *)
          (b "milk", SpecFloat.S754_finite true 4503599627370496 (-51))],         (* -2 *)
         Some [(b "note", b "felt good")]);
   Some (b "2021/01/25", [(b "bread", SpecFloat.S754_finite false 6755399441055744 (-51))], None)].
Proof. vm_compute. reflexivity. Qed.

(** fractional lexemes at binary64 *)
Definition ex_file64 : file :=
  {| f_items := [(IHeading (b "day") [], false);
                 (IEntry (b " ") (b "oil") (b ": ") (b "0.1") [], true);
                 (IEntry (b "- ") (b "salt") (b " ") (b "1e-3") (b """"), false)];
     f_final_newline := true |}.

Example ex64_wf : wf_file B64 ex_file64 = true.
Proof. vm_compute. reflexivity. Qed.

Example ex64_short : short_lines ex_file64.
Proof. apply short_lines_simple. repeat constructor. Qed.

Example ex64_events :
  map shape64 (events B64 (render ex_file64)) =
  [Some (b "day",
         [(b "oil", SpecFloat.S754_finite false 7205759403792794 (-56));    (* 0.1 *)
          (b "salt", SpecFloat.S754_finite false 4611686018427388 (-62))],  (* 1e-3 *)
         None)].
Proof. vm_compute. reflexivity. Qed.

(** layout invariance on an instance: the same content in plain layout *)
Definition ex_plain : file :=
  {| f_items := [(IHeading (b "2021/01/24") [], false);
                 (IEntry (b " ") (b "apple pie") (b " ") (b "150") [], false);
                 (IEntry (b " ") (b "milk") (b " ") (b "-2") [], false);
                 (INote (b " ") (b "# note: felt good"), false);
                 (IHeading (b "2021/01/25") [], false);
                 (IEntry (b " ") (b "bread") (b " ") (b "3") [], false)];
     f_final_newline := true |}.

Example ex_layout : events ZNum (render ex_file) = events ZNum (render ex_plain).
Proof.
  apply layout_invariance.
  - exact ex_wf.
  - exact ex_short.
  - vm_compute. reflexivity.
  - vm_compute. reflexivity.
  - apply short_lines_simple. repeat constructor.
  - vm_compute. reflexivity.
  - vm_compute. reflexivity.
Qed.

(** malformed lines: the errors carry the physical line numbers 5 and 7
    (comment, blank and note lines count), an indented line before the first
    heading is not an error *)
Definition ex_bad : file :=
  {| f_items := [(IBadNoSep (b " ") (b "orphan"), false);            (* line 1: before any heading *)
                 (IHeading (b "day") [], false);                      (* 2 *)
                 (IComment (b " c"), true);                           (* 3 *)
                 (IBlank (b "  "), false);                            (* 4 *)
                 (IBadNoSep (b "  ") (b "novalue"), false);           (* 5 *)
                 (INote (b " ") (b "#n"), false);                     (* 6 *)
                 (IBadNum [c_tab] (b "egg") (b " ") (b "1x") [], true); (* 7 *)
                 (IEntry (b " ") (b "tea") (b " ") (b "2") [], false)];
     f_final_newline := true |}.

Example ex_bad_wf : wf_file ZNum ex_bad = true.
Proof. vm_compute. reflexivity. Qed.

Example ex_bad_short : short_lines ex_bad.
Proof. apply short_lines_simple. repeat constructor. Qed.

Example ex_bad_events :
  events ZNum (render ex_bad) =
  [EErr (BadSyntax 5 (b "  novalue"));
   EErr (Conversion (b "1x") 7 ([c_tab] ++ b "egg 1x"));
   node ZNum (b "day") [(b "tea", 2%Z)] (Some [([], b "n")])].
Proof. vm_compute. reflexivity. Qed.

(** ** why the well-formedness conditions are there (each is needed) *)

(** [wf_mid] asks for a blank between name and value.  docs/syntax.ebnf makes
    the white space after the colon optional ("Item = Indentation {…}
    ValueSeparator [ WhiteSpace ] Quantity"), but the parser splits at the last
    blank only: "apple:150" is reported as bad syntax *)
Example need_blank_before_value :
  events ZNum (b "day" ++ [c_lf] ++ b " apple:150" ++ [c_lf]) =
  [EErr (BadSyntax 2 (b " apple:150")); node ZNum (b "day") [] None].
Proof. vm_compute. reflexivity. Qed.

(** with a blank inside the name the split even lands inside the line *)
Example need_blank_before_value2 :
  events ZNum (b "day" ++ [c_lf] ++ b " red apple:150" ++ [c_lf]) =
  [EErr (Conversion (b "apple:150") 2 (b " red apple:150")); node ZNum (b "day") [] None].
Proof. vm_compute. reflexivity. Qed.

(** [wf_name]: a name must not begin or end with a trimmed character – a
    trailing dash or quote is silently lost, a heading that begins with a dash
    is taken for an entry line *)
Example name_loses_trailing_dash :
  events ZNum (b "day" ++ [c_lf] ++ b " omega-: 1" ++ [c_lf]) = [node ZNum (b "day") [(b "omega", 1%Z)] None].
Proof. vm_compute. reflexivity. Qed.

Example dash_heading_is_no_heading :
  events ZNum (b "-day" ++ [c_lf] ++ b " tea 1" ++ [c_lf]) = [].
Proof. vm_compute. reflexivity. Qed.

(** a lone CR is not a line ending for the parser (the grammar lists it as NewLine) *)
Example lone_cr_is_no_newline :
  events ZNum (b "day" ++ [c_cr] ++ b " tea 1" ++ [c_lf]) = [node ZNum (b "day" ++ [c_cr] ++ b " tea 1") [] None].
Proof. vm_compute. reflexivity. Qed.
