(** WP08: facts on byte strings, their order, insertion sort, [split_on] and
    paths that the balance-tree proofs need. *)
From HP Require Import Base.Bytes Spec.TreeSpec.
From Coq Require Import Lia Sorted Permutation.

(** * [beq] *)
Lemma beq_true_iff : forall x y, beq x y = true <-> x = y.
Proof.
  induction x as [|a x IH]; intros [|c y]; cbn [beq]; split; intro H; try discriminate; try reflexivity.
  - apply andb_true_iff in H. destruct H as [H1 H2]. apply N.eqb_eq in H1. apply IH in H2. subst. reflexivity.
  - inversion H; subst. apply andb_true_iff. split. apply N.eqb_refl. apply IH. reflexivity.
Qed.

Lemma beq_refl : forall x, beq x x = true.
Proof. intro x. apply beq_true_iff. reflexivity. Qed.

Lemma beq_spec : forall x y, reflect (x = y) (beq x y).
Proof. intros x y. apply iff_reflect. symmetry. apply beq_true_iff. Qed.

Lemma beq_sym : forall x y, beq x y = beq y x.
Proof.
  intros x y. destruct (beq_spec x y) as [E|E]; destruct (beq_spec y x) as [E'|E']; congruence.
Qed.

Lemma beq_false_iff : forall x y, beq x y = false <-> x <> y.
Proof. intros x y. destruct (beq_spec x y); split; intro; congruence. Qed.

(** * [bltb] is a strict total order *)
Lemma bltb_irrefl : forall x, bltb x x = false.
Proof.
  induction x as [|a x IH]; cbn [bltb]; [reflexivity|].
  rewrite N.ltb_irrefl. exact IH.
Qed.

Lemma bltb_trans : forall x y z, bltb x y = true -> bltb y z = true -> bltb x z = true.
Proof.
  induction x as [|a x IH]; intros [|c y] [|e z]; cbn [bltb]; intros H1 H2; try discriminate; try reflexivity.
  destruct (N.ltb_spec a c) as [Hac|Hac].
  - destruct (N.ltb_spec c e) as [Hce|Hce].
    + destruct (N.ltb_spec a e); [reflexivity|lia].
    + destruct (N.ltb_spec e c) as [Hec|Hec]; [discriminate|].
      destruct (N.ltb_spec a e); [reflexivity|lia].
  - destruct (N.ltb_spec c a) as [Hca|Hca]; [discriminate|].
    assert (a = c) by lia. subst c.
    destruct (N.ltb_spec a e) as [Hae|Hae]; [reflexivity|].
    destruct (N.ltb_spec e a) as [Hea|Hea]; [discriminate|].
    eapply IH; eassumption.
Qed.

Lemma bltb_asym : forall x y, bltb x y = true -> bltb y x = false.
Proof.
  intros x y H. destruct (bltb y x) eqn:E; [|reflexivity].
  pose proof (bltb_trans _ _ _ H E) as C. rewrite bltb_irrefl in C. discriminate.
Qed.

Lemma bltb_trichotomy : forall x y, bltb x y = false -> bltb y x = false -> x = y.
Proof.
  induction x as [|a x IH]; intros [|c y]; cbn [bltb]; intros H1 H2; try discriminate; try reflexivity.
  destruct (N.ltb_spec a c) as [Hac|Hac]; [discriminate|].
  destruct (N.ltb_spec c a) as [Hca|Hca]; [discriminate|].
  assert (a = c) by lia. subst c. f_equal. apply IH; assumption.
Qed.

Lemma bleb_total : forall x y, bleb x y = false -> bleb y x = true.
Proof.
  unfold bleb. intros x y H. apply negb_false_iff in H. apply bltb_asym in H. rewrite H. reflexivity.
Qed.

Lemma bleb_antisym : forall x y, bleb x y = true -> bleb y x = true -> x = y.
Proof.
  unfold bleb. intros x y H1 H2. apply negb_true_iff in H1, H2. apply bltb_trichotomy; assumption.
Qed.

Lemma bleb_trans : forall x y z, bleb x y = true -> bleb y z = true -> bleb x z = true.
Proof.
  unfold bleb. intros x y z H1 H2. apply negb_true_iff in H1, H2. apply negb_true_iff.
  destruct (bltb z x) eqn:E; [|reflexivity].
  (* z < x, not y < x, not z < y *)
  destruct (bltb x y) eqn:Exy.
  - pose proof (bltb_trans _ _ _ E Exy) as C. congruence.
  - assert (x = y) by (apply bltb_trichotomy; assumption). subst. congruence.
Qed.

Lemma bleb_refl : forall x, bleb x x = true.
Proof. intro x. unfold bleb. rewrite bltb_irrefl. reflexivity. Qed.

Lemma bleb_neq_bltb : forall x y, bleb x y = true -> x <> y -> bltb x y = true.
Proof.
  unfold bleb. intros x y H Hne. apply negb_true_iff in H.
  destruct (bltb x y) eqn:E; [reflexivity|]. exfalso. apply Hne. apply bltb_trichotomy; assumption.
Qed.

(** * insertion sort over a total, transitive, antisymmetric order *)
Section IsortFacts.
  Context {A : Type} (leb : A -> A -> bool).
  Hypothesis leb_total : forall x y, leb x y = false -> leb y x = true.
  Hypothesis leb_trans : forall x y z, leb x y = true -> leb y z = true -> leb x z = true.
  Hypothesis leb_antisym : forall x y, leb x y = true -> leb y x = true -> x = y.

  Notation le := (fun x y => leb x y = true).

  Lemma insert_sorted_perm : forall x l, Permutation (insert_sorted leb x l) (x :: l).
  Proof.
    intros x l. induction l as [|y r IH]; cbn [insert_sorted]; [apply Permutation_refl|].
    destruct (leb x y); [apply Permutation_refl|].
    eapply Permutation_trans; [apply perm_skip; exact IH|]. apply perm_swap.
  Qed.

  Lemma isort_perm : forall l, Permutation (isort leb l) l.
  Proof.
    induction l as [|x r IH]; cbn [isort]; [apply Permutation_refl|].
    eapply Permutation_trans; [apply insert_sorted_perm|]. apply perm_skip. exact IH.
  Qed.

  Lemma insert_sorted_sorted : forall x l, StronglySorted le l -> StronglySorted le (insert_sorted leb x l).
  Proof.
    intros x l H. induction H as [|y r Hr IH Hy]; cbn [insert_sorted].
    - constructor; constructor.
    - destruct (leb x y) eqn:E.
      + constructor; [constructor; assumption|]. constructor; [exact E|].
        eapply Forall_impl; [|exact Hy]. intros z Hz. cbn beta in *. eapply leb_trans; eassumption.
      + constructor; [exact IH|].
        apply Forall_forall. intros z Hz.
        apply (Permutation_in _ (insert_sorted_perm x r)) in Hz. destruct Hz as [Hz|Hz].
        -- subst z. apply leb_total. exact E.
        -- rewrite Forall_forall in Hy. apply Hy. exact Hz.
  Qed.

  Lemma isort_sorted : forall l, StronglySorted le (isort leb l).
  Proof.
    induction l as [|x r IH]; cbn [isort]; [constructor|]. apply insert_sorted_sorted. exact IH.
  Qed.

  (** a sorted list is determined by its elements *)
  Lemma sorted_perm_eq : forall l1 l2,
    StronglySorted le l1 -> StronglySorted le l2 -> Permutation l1 l2 -> l1 = l2.
  Proof.
    induction l1 as [|x r1 IH]; intros l2 H1 H2 HP.
    - apply Permutation_nil in HP. subst. reflexivity.
    - destruct l2 as [|y r2]; [apply Permutation_sym in HP; apply Permutation_nil in HP; discriminate|].
      apply StronglySorted_inv in H1. destruct H1 as [H1 Hx].
      apply StronglySorted_inv in H2. destruct H2 as [H2 Hy].
      assert (Exy : x = y).
      { assert (Ix : In x (y :: r2)) by (eapply Permutation_in; [exact HP|left; reflexivity]).
        assert (Iy : In y (x :: r1)) by (eapply Permutation_in; [apply Permutation_sym; exact HP|left; reflexivity]).
        destruct Ix as [Ix|Ix]; [symmetry; exact Ix|].
        destruct Iy as [Iy|Iy]; [exact Iy|].
        rewrite Forall_forall in Hx, Hy. apply leb_antisym; [apply Hx; exact Iy|apply Hy; exact Ix]. }
      subst y. f_equal. apply IH; try assumption. eapply Permutation_cons_inv. exact HP.
  Qed.

  Lemma isort_perm_eq : forall l1 l2, Permutation l1 l2 -> isort leb l1 = isort leb l2.
  Proof.
    intros l1 l2 HP. apply sorted_perm_eq; try apply isort_sorted.
    eapply Permutation_trans; [apply isort_perm|].
    eapply Permutation_trans; [exact HP|]. apply Permutation_sym. apply isort_perm.
  Qed.
End IsortFacts.

Lemma sort_bytes_perm : forall l, Permutation (sort_bytes l) l.
Proof. intro l. apply isort_perm. Qed.

Lemma sort_bytes_sorted : forall l, StronglySorted (fun x y => bleb x y = true) (sort_bytes l).
Proof. intro l. apply isort_sorted. apply bleb_total. apply bleb_trans. Qed.

Lemma sort_bytes_perm_eq : forall l1 l2, Permutation l1 l2 -> sort_bytes l1 = sort_bytes l2.
Proof.
  intros l1 l2. apply isort_perm_eq. apply bleb_total. apply bleb_trans. apply bleb_antisym.
Qed.

Lemma sort_bytes_strict : forall l, NoDup l ->
  StronglySorted (fun x y => bltb x y = true) (sort_bytes l).
Proof.
  intros l Hnd.
  assert (Hnd' : NoDup (sort_bytes l)).
  { eapply Permutation_NoDup; [apply Permutation_sym; apply sort_bytes_perm|exact Hnd]. }
  pose proof (sort_bytes_sorted l) as Hs. revert Hnd'.
  induction Hs as [|x r Hr IH Hx]; intro Hnd'; [constructor|].
  inversion Hnd' as [|x' r' Hnin Hnd'']; subst. constructor; [apply IH; exact Hnd''|].
  rewrite Forall_forall in *. intros y Hy. apply bleb_neq_bltb; [apply Hx; exact Hy|].
  intro E; subst. contradiction.
Qed.

(** * [split_on] *)
Lemma split_on_not_nil : forall c s, split_on c s <> [].
Proof.
  intros c s. induction s as [|x r IH]; cbn [split_on]; [discriminate|].
  destruct (N.eqb x c); [discriminate|]. destruct (split_on c r); discriminate.
Qed.

Lemma split_on_no_sep : forall c s seg, In seg (split_on c s) -> ~ In c seg.
Proof.
  intros c s. induction s as [|x r IH]; cbn [split_on]; intros seg Hin.
  - destruct Hin as [E|[]]; subst. intros [].
  - destruct (N.eqb_spec x c) as [E|E].
    + destruct Hin as [E'|Hin]; [subst; intros []|]. apply IH; exact Hin.
    + destruct (split_on c r) as [|h t] eqn:Es.
      * destruct Hin as [E'|[]]; subst. intros [E'|[]]. congruence.
      * destruct Hin as [E'|Hin].
        -- subst seg. intros [E'|Hc]; [congruence|]. apply (IH h); [left; reflexivity|exact Hc].
        -- apply IH. right. exact Hin.
Qed.

Lemma join_cons2 : forall sep x y l, join sep (x :: y :: l) = x ++ sep ++ join sep (y :: l).
Proof. reflexivity. Qed.

Lemma join_split_on : forall c s, join [c] (split_on c s) = s.
Proof.
  intros c s. induction s as [|x r IH]; cbn [split_on]; [reflexivity|].
  pose proof (split_on_not_nil c r) as Hn.
  destruct (N.eqb_spec x c) as [E|E].
  - subst x. destruct (split_on c r) as [|h t]; [congruence|].
    rewrite join_cons2, IH. reflexivity.
  - destruct (split_on c r) as [|h t]; [congruence|].
    destruct t as [|h2 t2].
    + cbn [join] in *. rewrite IH. reflexivity.
    + rewrite join_cons2 in *. rewrite <- IH. reflexivity.
Qed.

Lemma split_on_inj : forall c s1 s2, split_on c s1 = split_on c s2 -> s1 = s2.
Proof.
  intros c s1 s2 H. rewrite <- (join_split_on c s1), <- (join_split_on c s2), H. reflexivity.
Qed.

Lemma segs_not_nil : forall f, segs f <> [].
Proof. intro f. apply split_on_not_nil. Qed.

Lemma segs_inj : forall f1 f2, segs f1 = segs f2 -> f1 = f2.
Proof. intros f1 f2. apply split_on_inj. Qed.

Lemma segs_slash_free : forall f seg, In seg (segs f) -> ~ In c_slash seg.
Proof. intros f seg. apply split_on_no_sep. Qed.

(** * paths *)
Lemma path_eqb_true_iff : forall p q, path_eqb p q = true <-> p = q.
Proof.
  induction p as [|a p IH]; intros [|c q]; cbn [path_eqb]; split; intro H; try discriminate; try reflexivity.
  - apply andb_true_iff in H. destruct H as [H1 H2]. apply beq_true_iff in H1. apply IH in H2. subst. reflexivity.
  - inversion H; subst. apply andb_true_iff. split; [apply beq_refl|apply IH; reflexivity].
Qed.

Lemma path_eqb_spec : forall p q, reflect (p = q) (path_eqb p q).
Proof. intros p q. apply iff_reflect. symmetry. apply path_eqb_true_iff. Qed.

Lemma path_eqb_refl : forall p, path_eqb p p = true.
Proof. intro p. apply path_eqb_true_iff. reflexivity. Qed.

Lemma is_prefix_path_iff : forall p q, is_prefix_path p q = true <-> exists r, q = p ++ r.
Proof.
  induction p as [|a p IH]; intros q; cbn [is_prefix_path].
  - split; [intros _; exists q; reflexivity|reflexivity].
  - destruct q as [|c q].
    + split; [discriminate|]. intros [r Hr]. discriminate.
    + rewrite andb_true_iff, beq_true_iff, IH. split.
      * intros [E [r Hr]]. subst. exists r. reflexivity.
      * intros [r Hr]. inversion Hr; subst. split; [reflexivity|]. exists r. reflexivity.
Qed.

Lemma is_prefix_path_refl : forall p, is_prefix_path p p = true.
Proof. intro p. apply is_prefix_path_iff. exists []. rewrite app_nil_r. reflexivity. Qed.

Lemma is_prefix_path_app : forall p r, is_prefix_path p (p ++ r) = true.
Proof. intros p r. apply is_prefix_path_iff. exists r. reflexivity. Qed.

Lemma is_prefix_path_nil_r : forall p, is_prefix_path p [] = true -> p = [].
Proof. intros [|a p]; cbn [is_prefix_path]; [reflexivity|discriminate]. Qed.

Lemma is_prefix_path_trans : forall p q r,
  is_prefix_path p q = true -> is_prefix_path q r = true -> is_prefix_path p r = true.
Proof.
  intros p q r H1 H2. apply is_prefix_path_iff in H1, H2. destruct H1 as [a Ha], H2 as [c Hc].
  subst. rewrite <- app_assoc. apply is_prefix_path_app.
Qed.

(** a path extended by one segment is a prefix of [q] iff the path is a strict
    prefix and the next segment of [q] is that one *)
Lemma is_prefix_path_snoc : forall p c q,
  is_prefix_path (p ++ [c]) q = true <-> exists r, q = p ++ c :: r.
Proof.
  intros p c q. rewrite is_prefix_path_iff. split; intros [r Hr]; exists r; rewrite Hr.
  - rewrite <- app_assoc. reflexivity.
  - rewrite <- app_assoc. reflexivity.
Qed.

Lemma in_prefixes_iff : forall q p, In p (prefixes q) <-> p <> [] /\ is_prefix_path p q = true.
Proof.
  induction q as [|a q IH]; intros p; cbn [prefixes].
  - split; [intros []|]. intros [Hne Hp]. apply is_prefix_path_nil_r in Hp. contradiction.
  - split.
    + intros [E|Hin].
      * subst p. split; [discriminate|]. cbn [is_prefix_path]. rewrite beq_refl. reflexivity.
      * apply in_map_iff in Hin. destruct Hin as [p' [E Hin]]. subst p. apply IH in Hin.
        destruct Hin as [Hne Hp]. split; [discriminate|]. cbn [is_prefix_path]. rewrite beq_refl. exact Hp.
    + intros [Hne Hp]. destruct p as [|c p]; [congruence|]. cbn [is_prefix_path] in Hp.
      apply andb_true_iff in Hp. destruct Hp as [E Hp]. apply beq_true_iff in E. subst c.
      destruct p as [|c p]; [left; reflexivity|]. right. apply in_map. apply IH. split; [discriminate|exact Hp].
Qed.

Lemma dedup_paths_in : forall l p, In p (dedup_paths l) <-> In p l.
Proof.
  induction l as [|q r IH]; intros p; cbn [dedup_paths]; [reflexivity|]. split.
  - intros [E|Hin]; [left; exact E|]. apply filter_In in Hin. right. apply IH. apply Hin.
  - intros [E|Hin]; [left; exact E|]. destruct (path_eqb_spec q p) as [E|E]; [left; exact E|].
    right. apply filter_In. split; [apply IH; exact Hin|].
    destruct (path_eqb_spec q p); [contradiction|reflexivity].
Qed.

Lemma dedup_paths_nodup : forall l, NoDup (dedup_paths l).
Proof.
  induction l as [|q r IH]; cbn [dedup_paths]; constructor.
  - intro Hin. apply filter_In in Hin. destruct Hin as [_ Hin]. rewrite path_eqb_refl in Hin. discriminate.
  - apply NoDup_filter. exact IH.
Qed.
