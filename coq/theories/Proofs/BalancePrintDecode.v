(** WP09, part 2: what the decoder reads back from each of the three printers,
    as a function of the tree, proved by induction over the tree for every
    starting level, ancestor stack and continuation of the row list.

    After fix 3cc3ec3 (a chain of single children is joined only while the
    totals are Go-equal, [t_eqb]) the read-back is proved for the FULL decoder
    [decode_full_from] (parent path, own segments, amount, leaf flag) against
    "rich" tree functions ([rchild_nodes], [rcl_child], [rdj]) that also keep,
    for every segment of a row, the total of the node it stands for; the
    three-component functions [child_nodes], [cl_child], [dj] that the theorems
    about [decode] use are their projections. *)
From Coq Require Import Lia ZifyBool ZifyNat ZifyN.
From HP Require Import Base.Bytes Base.Num Model.Elements Model.Tree
  Spec.TreeShared Spec.BalancePrintSpec Proofs.BalancePrintBase.

Section Decode.
  Context (NM : Num).
  Notation T := (T NM).
  Notation tree := (tree NM).
  Notation row := (row NM).
  Notation dec := (list bytes * T * bool)%type.
  Notation fdec := (list bytes * list bytes * T * bool)%type.
  (** parent path, chain of (segment, node total), amount shown, leaf flag *)
  Notation rdec := (list bytes * list (bytes * T) * T * bool)%type.
  Notation nosl := (fun s : bytes => ~ In c_slash s).

  Definition strip (rd : rdec) : fdec := let '(pp, chain, y, lf) := rd in (pp, map fst chain, y, lf).
  Definition rdec_dec (rd : rdec) : dec := fdec_dec NM (strip rd).

  Lemma Forall_mp {A} (Q R : A -> Prop) (l : list A) :
    Forall (fun c => Q c -> R c) l -> Forall Q l -> Forall R l.
  Proof.
    induction 1 as [|c r Hc _ IH]; intros HQ; [constructor|].
    inversion HQ as [|c' r' Hq Hr]; subst c' r'. constructor; [apply Hc, Hq|apply IH, Hr].
  Qed.

  (** ** Two shapes of rows: a leaf row, and a header row followed by a forest one level deeper *)
  Lemma decode_leaf_row (st : stack) (x : T) (level : nat) (lab : bytes) (rest : list row) :
    head_le NM level rest ->
    decode_full_from NM st ((x, level, lab) :: rest) =
    (stack_path (pop_to level st), split_on c_slash lab, x, true) :: decode_full_from NM st rest.
  Proof.
    intros Hrest. rewrite decode_from_cons.
    rewrite is_leaf_row_head_le by assumption.
    rewrite decode_from_pushed by assumption. reflexivity.
  Qed.

  Lemma decode_header_forest (rows_of : tree -> list row) (dec_of : list bytes -> tree -> list fdec)
        (level : nat) (x : T) (lab : bytes) (ch : list tree) (st : stack) (rest : list row) :
    Forall (fun c =>
              starts_at NM (S level) (rows_of c) /\
              forall st' rest', head_le NM (S level) rest' ->
                decode_full_from NM st' (rows_of c ++ rest') =
                dec_of (stack_path (pop_to (S level) st')) c ++ decode_full_from NM st' rest') ch ->
    ch <> [] ->
    head_le NM level rest ->
    decode_full_from NM st ((x, level, lab) :: flat_map rows_of ch ++ rest) =
    (stack_path (pop_to level st), split_on c_slash lab, x, false)
      :: flat_map (dec_of (stack_path (pop_to level st) ++ split_on c_slash lab)) ch
      ++ decode_full_from NM st rest.
  Proof.
    intros Hall Hne Hrest. rewrite decode_from_cons.
    set (p := stack_path (pop_to level st) ++ split_on c_slash lab).
    f_equal.
    - f_equal. apply is_leaf_row_starts_deeper.
      destruct ch as [|c r]; [congruence|].
      apply starts_at_app. apply starts_at_flat_map.
      inversion Hall as [|c' r' [Hc _] _]. exact Hc.
    - rewrite (decode_forest NM rows_of dec_of (S level) ch Hall).
      + rewrite pop_to_push_lt by lia. cbn [stack_path].
        rewrite decode_from_pushed by assumption. reflexivity.
      + eapply head_le_weaken; [|exact Hrest]. lia.
  Qed.

  (** ** Plain mode: every node, with the flag "has no children" *)
  Definition is_nil {A} (l : list A) : bool := match l with [] => true | _ => false end.

  Fixpoint nodes_below (prefix : list bytes) (t : tree) : list dec :=
    match t with
    | Node _ _ ch =>
        flat_map (fun c => (prefix ++ [t_name NM c], t_total NM c, is_nil (t_children NM c))
                             :: nodes_below (prefix ++ [t_name NM c]) c) ch
    end.

  Definition child_nodes (prefix : list bytes) (c : tree) : list dec :=
    (prefix ++ [t_name NM c], t_total NM c, is_nil (t_children NM c))
      :: nodes_below (prefix ++ [t_name NM c]) c.

  Lemma nodes_below_eq prefix n x ch :
    nodes_below prefix (Node n x ch) = flat_map (child_nodes prefix) ch.
  Proof. reflexivity. Qed.

  Fixpoint rnodes_below (prefix : list bytes) (t : tree) : list rdec :=
    match t with
    | Node _ _ ch =>
        flat_map (fun c => (prefix, [(t_name NM c, t_total NM c)], t_total NM c, is_nil (t_children NM c))
                             :: rnodes_below (prefix ++ [t_name NM c]) c) ch
    end.

  Definition rchild_nodes (prefix : list bytes) (c : tree) : list rdec :=
    (prefix, [(t_name NM c, t_total NM c)], t_total NM c, is_nil (t_children NM c))
      :: rnodes_below (prefix ++ [t_name NM c]) c.

  Lemma rnodes_below_eq prefix n x ch :
    rnodes_below prefix (Node n x ch) = flat_map (rchild_nodes prefix) ch.
  Proof. reflexivity. Qed.

  Lemma rchild_nodes_node prefix n x ch :
    rchild_nodes prefix (Node n x ch) =
    (prefix, [(n, x)], x, is_nil ch) :: flat_map (rchild_nodes (prefix ++ [n])) ch.
  Proof. reflexivity. Qed.

  Lemma rchild_nodes_dec (c : tree) :
    forall prefix, map rdec_dec (rchild_nodes prefix c) = child_nodes prefix c.
  Proof.
    induction c as [n x ch IH] using tree_ind'. intros prefix.
    rewrite rchild_nodes_node. unfold child_nodes. cbn [t_name t_total t_children].
    rewrite nodes_below_eq. cbn [map rdec_dec strip fdec_dec fst]. f_equal.
    rewrite map_flat_map. apply flat_map_ext_Forall.
    eapply Forall_impl; [|exact IH]. intros a Ha. apply Ha.
  Qed.

  Lemma plain_child_dec (c : tree) :
    slash_free NM c -> forall level,
    starts_at NM level (child_rows NM false level c) /\
    forall st rest, head_le NM level rest ->
      decode_full_from NM st (child_rows NM false level c ++ rest) =
      map strip (rchild_nodes (stack_path (pop_to level st)) c) ++ decode_full_from NM st rest.
  Proof.
    induction c as [n x ch IH] using tree_ind'. intros Hsf level.
    apply slash_free_node in Hsf. destruct Hsf as [Hn Hch].
    rewrite child_rows_false. cbn [t_total t_name t_children].
    split; [eexists _, _, _; reflexivity|].
    intros st rest Hrest. cbn [app].
    rewrite rchild_nodes_node. cbn [map strip fst].
    destruct ch as [|g gr].
    - cbn [flat_map app is_nil map]. rewrite decode_leaf_row by assumption.
      rewrite split_on_absent by assumption. reflexivity.
    - rewrite (decode_header_forest (child_rows NM false (S level))
                 (fun pre a => map strip (rchild_nodes pre a))).
      + rewrite split_on_absent by assumption. rewrite map_flat_map. reflexivity.
      + eapply Forall_impl; [|exact (Forall_mp _ _ _ IH Hch)].
        intros a Ha. exact (Ha (S level)).
      + discriminate.
      + assumption.
  Qed.

  (** ** Collapse-last mode: the last two levels are one row when the leaf is
         the only child and its total is Go-equal to the parent's *)
  Fixpoint cl_nodes (prefix : list bytes) (t : tree) : list dec :=
    match t with
    | Node _ _ ch =>
        flat_map (fun child =>
          match child with
          | Node cn ct [] => [(prefix ++ [cn], ct, true)]
          | Node cn ct [Node gn gt []] =>
              if t_eqb NM gt ct then [(prefix ++ [cn; gn], ct, true)]
              else (prefix ++ [cn], ct, false) :: cl_nodes (prefix ++ [cn]) child
          | Node cn ct _ => (prefix ++ [cn], ct, false) :: cl_nodes (prefix ++ [cn]) child
          end) ch
    end.

  Definition cl_child (prefix : list bytes) (child : tree) : list dec :=
    match child with
    | Node cn ct [] => [(prefix ++ [cn], ct, true)]
    | Node cn ct [Node gn gt []] =>
        if t_eqb NM gt ct then [(prefix ++ [cn; gn], ct, true)]
        else (prefix ++ [cn], ct, false) :: cl_nodes (prefix ++ [cn]) child
    | Node cn ct _ => (prefix ++ [cn], ct, false) :: cl_nodes (prefix ++ [cn]) child
    end.

  Lemma cl_nodes_eq prefix n x ch :
    cl_nodes prefix (Node n x ch) = flat_map (cl_child prefix) ch.
  Proof. reflexivity. Qed.

  Fixpoint rcl_nodes (prefix : list bytes) (t : tree) : list rdec :=
    match t with
    | Node _ _ ch =>
        flat_map (fun child =>
          match child with
          | Node cn ct [] => [(prefix, [(cn, ct)], ct, true)]
          | Node cn ct [Node gn gt []] =>
              if t_eqb NM gt ct then [(prefix, [(cn, ct); (gn, gt)], ct, true)]
              else (prefix, [(cn, ct)], ct, false) :: rcl_nodes (prefix ++ [cn]) child
          | Node cn ct _ => (prefix, [(cn, ct)], ct, false) :: rcl_nodes (prefix ++ [cn]) child
          end) ch
    end.

  Definition rcl_child (prefix : list bytes) (child : tree) : list rdec :=
    match child with
    | Node cn ct [] => [(prefix, [(cn, ct)], ct, true)]
    | Node cn ct [Node gn gt []] =>
        if t_eqb NM gt ct then [(prefix, [(cn, ct); (gn, gt)], ct, true)]
        else (prefix, [(cn, ct)], ct, false) :: rcl_nodes (prefix ++ [cn]) child
    | Node cn ct _ => (prefix, [(cn, ct)], ct, false) :: rcl_nodes (prefix ++ [cn]) child
    end.

  Lemma rcl_nodes_eq prefix n x ch :
    rcl_nodes prefix (Node n x ch) = flat_map (rcl_child prefix) ch.
  Proof. reflexivity. Qed.

  (** the three shapes of a child with total [x] and children [ch] in
      collapse-last mode: a leaf; joined with its only child, a leaf with a
      Go-equal total; everything else (a row of its own, children below) *)
  Definition cl_join (x : T) (ch : list tree) : option (bytes * T) :=
    match ch with
    | [Node gn gt []] => if t_eqb NM gt x then Some (gn, gt) else None
    | _ => None
    end.

  Definition cl_other (x : T) (ch : list tree) : Prop := ch <> [] /\ cl_join x ch = None.

  Lemma cl_cases (x : T) (ch : list tree) :
    ch = [] \/ (exists gn gt, ch = [Node gn gt []] /\ t_eqb NM gt x = true) \/ cl_other x ch.
  Proof.
    unfold cl_other.
    destruct ch as [|[gn gt [|g2 gr]] [|c2 r]]; cbn [cl_join]; auto;
      try (right; right; split; [discriminate|reflexivity]).
    destruct (t_eqb NM gt x) eqn:E.
    - right. left. exists gn, gt. split; [reflexivity|exact E].
    - right. right. split; [discriminate|reflexivity].
  Qed.

  Lemma cl_other_nonempty x ch : cl_other x ch -> ch <> [].
  Proof. intros [H _]. exact H. Qed.

  Lemma child_rows_true_join level n x gn gt :
    t_eqb NM gt x = true ->
    child_rows NM true level (Node n x [Node gn gt []]) = [(x, level, n ++ [c_slash] ++ gn)].
  Proof. intros E. cbn [child_rows andb]. rewrite E. reflexivity. Qed.

  Lemma child_rows_true_other level n x ch :
    cl_other x ch ->
    child_rows NM true level (Node n x ch) =
    (x, level, n) :: flat_map (child_rows NM true (S level)) ch.
  Proof.
    intros [Hne Hj].
    destruct ch as [|[gn gt [|g2 gr]] [|c2 r]]; try congruence; try reflexivity.
    cbn [cl_join] in Hj. cbn [child_rows andb].
    destruct (t_eqb NM gt x); [discriminate|reflexivity].
  Qed.

  Lemma cl_child_join prefix n x gn gt :
    t_eqb NM gt x = true ->
    cl_child prefix (Node n x [Node gn gt []]) = [(prefix ++ [n; gn], x, true)].
  Proof. intros E. cbn [cl_child]. rewrite E. reflexivity. Qed.

  Lemma cl_child_other prefix n x ch :
    cl_other x ch ->
    cl_child prefix (Node n x ch) =
    (prefix ++ [n], x, false) :: flat_map (cl_child (prefix ++ [n])) ch.
  Proof.
    intros [Hne Hj].
    destruct ch as [|[gn gt [|g2 gr]] [|c2 r]]; try congruence; try reflexivity.
    cbn [cl_join] in Hj. cbn [cl_child].
    destruct (t_eqb NM gt x); [discriminate|reflexivity].
  Qed.

  Lemma rcl_child_join prefix n x gn gt :
    t_eqb NM gt x = true ->
    rcl_child prefix (Node n x [Node gn gt []]) = [(prefix, [(n, x); (gn, gt)], x, true)].
  Proof. intros E. cbn [rcl_child]. rewrite E. reflexivity. Qed.

  Lemma rcl_child_other prefix n x ch :
    cl_other x ch ->
    rcl_child prefix (Node n x ch) =
    (prefix, [(n, x)], x, false) :: flat_map (rcl_child (prefix ++ [n])) ch.
  Proof.
    intros [Hne Hj].
    destruct ch as [|[gn gt [|g2 gr]] [|c2 r]]; try congruence; try reflexivity.
    cbn [cl_join] in Hj. cbn [rcl_child].
    destruct (t_eqb NM gt x); [discriminate|reflexivity].
  Qed.

  Lemma rcl_child_dec (c : tree) :
    forall prefix, map rdec_dec (rcl_child prefix c) = cl_child prefix c.
  Proof.
    induction c as [n x ch IH] using tree_ind'. intros prefix.
    destruct (cl_cases x ch) as [E|[[gn [gt [E Heq]]]|Ho]].
    - subst ch. reflexivity.
    - subst ch. rewrite rcl_child_join, cl_child_join by exact Heq. reflexivity.
    - rewrite (rcl_child_other prefix n x ch Ho), (cl_child_other prefix n x ch Ho).
      cbn [map rdec_dec strip fdec_dec fst]. f_equal.
      rewrite map_flat_map. apply flat_map_ext_Forall.
      eapply Forall_impl; [|exact IH]. intros a Ha. apply Ha.
  Qed.

  Lemma cl_child_dec (c : tree) :
    slash_free NM c -> forall level,
    starts_at NM level (child_rows NM true level c) /\
    forall st rest, head_le NM level rest ->
      decode_full_from NM st (child_rows NM true level c ++ rest) =
      map strip (rcl_child (stack_path (pop_to level st)) c) ++ decode_full_from NM st rest.
  Proof.
    induction c as [n x ch IH] using tree_ind'. intros Hsf level.
    apply slash_free_node in Hsf. destruct Hsf as [Hn Hch].
    destruct (cl_cases x ch) as [E|[[gn [gt [E Heq]]]|Ho]].
    - subst ch. cbn [child_rows rcl_child].
      split; [eexists _, _, _; reflexivity|].
      intros st rest Hrest. cbn [app]. rewrite decode_leaf_row by assumption.
      rewrite split_on_absent by assumption. reflexivity.
    - subst ch. rewrite child_rows_true_join by exact Heq.
      split; [eexists _, _, _; reflexivity|].
      intros st rest Hrest. rewrite rcl_child_join by exact Heq.
      cbn [app]. rewrite decode_leaf_row by assumption.
      rewrite split_on_app_sep by assumption.
      inversion Hch as [|g' r' Hg _]; subst g' r'.
      apply slash_free_node in Hg. destruct Hg as [Hgn _].
      rewrite split_on_absent by assumption. reflexivity.
    - rewrite (child_rows_true_other level n x ch Ho).
      split; [eexists _, _, _; reflexivity|].
      intros st rest Hrest. cbn [app].
      rewrite (rcl_child_other _ n x ch Ho). cbn [map strip fst].
      rewrite (decode_header_forest (child_rows NM true (S level))
                 (fun pre a => map strip (rcl_child pre a))).
      + rewrite split_on_absent by assumption. rewrite map_flat_map. reflexivity.
      + eapply Forall_impl; [|exact (Forall_mp _ _ _ IH Hch)].
        intros a Ha. exact (Ha (S level)).
      + apply (cl_other_nonempty x), Ho.
      + assumption.
  Qed.

  (** ** Collapsed mode: one row per maximal chain of sole children with Go-equal totals *)
  Fixpoint dj (pre : list bytes) (tot : T) (t : tree) : list dec :=
    match t with
    | Node n x ch =>
        let stop := (pre ++ [n], tot, is_nil ch)
                      :: flat_map (fun c => dj (pre ++ [n]) (t_total NM c) c) ch in
        match ch with
        | [only] => if t_eqb NM (t_total NM only) x then dj (pre ++ [n]) tot only else stop
        | _ => stop
        end
    end.

  Definition dj_child (pre : list bytes) (c : tree) : list dec := dj pre (t_total NM c) c.

  Lemma dj_follow pre tot n x ch only :
    jump_next NM x ch = Some only ->
    dj pre tot (Node n x ch) = dj (pre ++ [n]) tot only.
  Proof.
    intros H. destruct (jump_next_some _ _ _ _ H) as [E Heq]. subst ch.
    cbn [dj]. rewrite Heq. reflexivity.
  Qed.

  Lemma dj_stop pre tot n x ch :
    jump_next NM x ch = None ->
    dj pre tot (Node n x ch) = (pre ++ [n], tot, is_nil ch) :: flat_map (dj_child (pre ++ [n])) ch.
  Proof.
    destruct ch as [|c1 [|c2 r]]; cbn [jump_next dj]; intros H; try reflexivity.
    destruct (t_eqb NM (t_total NM c1) x); [discriminate|reflexivity].
  Qed.

  (** [acc] = the (segment, total) pairs of the chain so far *)
  Fixpoint rdj (pp : list bytes) (tot : T) (acc : list (bytes * T)) (t : tree) : list rdec :=
    match t with
    | Node n x ch =>
        let stop := (pp, acc ++ [(n, x)], tot, is_nil ch)
                      :: flat_map (fun c => rdj (pp ++ map fst acc ++ [n]) (t_total NM c) [] c) ch in
        match ch with
        | [only] => if t_eqb NM (t_total NM only) x then rdj pp tot (acc ++ [(n, x)]) only else stop
        | _ => stop
        end
    end.

  Definition rdj_child (pre : list bytes) (c : tree) : list rdec := rdj pre (t_total NM c) [] c.

  Lemma rdj_follow pp tot acc n x ch only :
    jump_next NM x ch = Some only ->
    rdj pp tot acc (Node n x ch) = rdj pp tot (acc ++ [(n, x)]) only.
  Proof.
    intros H. destruct (jump_next_some _ _ _ _ H) as [E Heq]. subst ch.
    cbn [rdj]. rewrite Heq. reflexivity.
  Qed.

  Lemma rdj_stop pp tot acc n x ch :
    jump_next NM x ch = None ->
    rdj pp tot acc (Node n x ch) =
    (pp, acc ++ [(n, x)], tot, is_nil ch) :: flat_map (rdj_child (pp ++ map fst acc ++ [n])) ch.
  Proof.
    destruct ch as [|c1 [|c2 r]]; cbn [jump_next rdj]; intros H; try reflexivity.
    destruct (t_eqb NM (t_total NM c1) x); [discriminate|reflexivity].
  Qed.

  Lemma map_fst_snoc (acc : list (bytes * T)) n x : map fst (acc ++ [(n, x)]) = map fst acc ++ [n].
  Proof. rewrite map_app. reflexivity. Qed.

  Lemma rdj_dec (t : tree) :
    forall pp tot acc, map rdec_dec (rdj pp tot acc t) = dj (pp ++ map fst acc) tot t.
  Proof.
    induction t as [n x ch IH] using tree_ind'. intros pp tot acc.
    destruct (jump_next_cases NM x ch) as [[only Hj]|Hj].
    - rewrite (rdj_follow _ _ _ _ _ _ _ Hj), (dj_follow _ _ _ _ _ _ Hj).
      destruct (jump_next_some _ _ _ _ Hj) as [E _]. subst ch.
      inversion IH as [|c r Hc _]; subst c r.
      rewrite Hc, map_fst_snoc, app_assoc. reflexivity.
    - rewrite (rdj_stop _ _ _ _ _ _ Hj), (dj_stop _ _ _ _ _ Hj).
      cbn [map rdec_dec strip fdec_dec fst]. rewrite map_fst_snoc, app_assoc. f_equal.
      rewrite map_flat_map. apply flat_map_ext_Forall.
      eapply Forall_impl; [|exact IH]. intros a Ha. unfold rdj_child, dj_child.
      rewrite Ha. cbn [map]. rewrite app_nil_r. reflexivity.
  Qed.

  Lemma rdj_child_dec (c : tree) :
    forall pre, map rdec_dec (rdj_child pre c) = dj_child pre c.
  Proof.
    intros pre. unfold rdj_child, dj_child. rewrite rdj_dec. cbn [map]. rewrite app_nil_r. reflexivity.
  Qed.

  Lemma jump_starts (t : tree) :
    forall level tot acc, starts_at NM level (jump_print NM level tot acc t).
  Proof.
    induction t as [n x ch IH] using tree_ind'. intros level tot acc.
    destruct (jump_next_cases NM x ch) as [[only Hj]|Hj].
    - rewrite (jump_print_follow _ _ _ _ _ _ _ _ Hj).
      destruct (jump_next_some _ _ _ _ Hj) as [E _]. subst ch.
      inversion IH as [|c r Hc _]. apply Hc.
    - rewrite (jump_print_stop _ _ _ _ _ _ _ Hj). eexists _, _, _; reflexivity.
  Qed.

  Lemma jump_dec (t : tree) :
    slash_free NM t -> forall level tot acc st rest,
    Forall nosl (map fst acc) -> head_le NM level rest ->
    decode_full_from NM st (jump_print NM level tot (map fst acc) t ++ rest) =
    map strip (rdj (stack_path (pop_to level st)) tot acc t) ++ decode_full_from NM st rest.
  Proof.
    induction t as [n x ch IH] using tree_ind'. intros Hsf level tot acc st rest Hacc Hrest.
    apply slash_free_node in Hsf. destruct Hsf as [Hn Hch].
    assert (Hacc' : Forall nosl (map fst (acc ++ [(n, x)]))).
    { rewrite map_fst_snoc. apply Forall_app. split; [assumption|].
      constructor; [assumption|constructor]. }
    assert (Hsplit : split_on c_slash (join [c_slash] (map fst acc ++ [n])) = map fst (acc ++ [(n, x)])).
    { rewrite map_fst_snoc. apply split_join.
      - destruct (map fst acc); discriminate.
      - rewrite <- map_fst_snoc with (x := x). exact Hacc'. }
    destruct (jump_next_cases NM x ch) as [[only Hj]|Hj].
    - rewrite (jump_print_follow _ _ _ _ _ _ _ _ Hj), (rdj_follow _ _ _ _ _ _ _ Hj).
      destruct (jump_next_some _ _ _ _ Hj) as [E _]. subst ch.
      inversion IH as [|c r Hc _]; subst c r. inversion Hch as [|c r Hso _]; subst c r.
      rewrite <- map_fst_snoc with (x := x).
      apply Hc; assumption.
    - rewrite (jump_print_stop _ _ _ _ _ _ _ Hj), (rdj_stop _ _ _ _ _ _ Hj). cbn [app map strip].
      destruct ch as [|c1 r].
      + cbn [flat_map app is_nil map]. rewrite decode_leaf_row by assumption.
        rewrite Hsplit. reflexivity.
      + rewrite (decode_header_forest (fun c => jump_print NM (S level) (t_total NM c) [] c)
                   (fun pre a => map strip (rdj_child pre a))).
        * rewrite Hsplit, map_fst_snoc, map_flat_map. reflexivity.
        * eapply Forall_impl; [|exact (Forall_mp _ _ _ IH Hch)].
          intros a Ha. split; [apply jump_starts|].
          intros st' rest' Hrest'. unfold rdj_child.
          apply (Ha (S level) (t_total NM a) [] st' rest'); [constructor|assumption].
        * discriminate.
        * assumption.
  Qed.

  Lemma jump_child_dec (c : tree) :
    slash_free NM c -> forall level,
    starts_at NM level (jump_print NM level (t_total NM c) [] c) /\
    forall st rest, head_le NM level rest ->
      decode_full_from NM st (jump_print NM level (t_total NM c) [] c ++ rest) =
      map strip (rdj_child (stack_path (pop_to level st)) c) ++ decode_full_from NM st rest.
  Proof.
    intros Hsf level. split; [apply jump_starts|].
    intros st rest Hrest. unfold rdj_child.
    apply (jump_dec c Hsf level (t_total NM c) [] st rest); [constructor|assumption].
  Qed.

  (** ** The three modes on a root *)
  Lemma decode_root (rows_of : tree -> list row) (dec_of : list bytes -> tree -> list fdec)
        (ch : list tree) :
    Forall (fun c =>
              starts_at NM O (rows_of c) /\
              forall st rest, head_le NM O rest ->
                decode_full_from NM st (rows_of c ++ rest) =
                dec_of (stack_path (pop_to O st)) c ++ decode_full_from NM st rest) ch ->
    decode_full_from NM [] (flat_map rows_of ch) = flat_map (dec_of []) ch.
  Proof.
    intros Hall.
    rewrite <- (app_nil_r (flat_map rows_of ch)).
    rewrite (decode_forest NM rows_of dec_of O ch Hall); [|exact I].
    cbn [pop_to stack_path decode_full_from]. apply app_nil_r.
  Qed.

  (** *** the full read-back: every row with the node totals behind its segments *)
  Theorem decode_full_plain (t : tree) :
    slash_free_below NM t ->
    decode_full_from NM [] (print_node NM false O t) =
    map strip (flat_map (rchild_nodes []) (t_children NM t)).
  Proof.
    destruct t as [n x ch]. unfold slash_free_below. cbn [t_children]. intros Hsf.
    rewrite print_node_eq, map_flat_map.
    apply (decode_root (child_rows NM false O) (fun pre a => map strip (rchild_nodes pre a))).
    eapply Forall_impl; [|exact Hsf].
    intros c Hc. apply plain_child_dec, Hc.
  Qed.

  Theorem decode_full_collapse_last (t : tree) :
    slash_free_below NM t ->
    decode_full_from NM [] (print_node NM true O t) =
    map strip (flat_map (rcl_child []) (t_children NM t)).
  Proof.
    destruct t as [n x ch]. unfold slash_free_below. cbn [t_children]. intros Hsf.
    rewrite print_node_eq, map_flat_map.
    apply (decode_root (child_rows NM true O) (fun pre a => map strip (rcl_child pre a))).
    eapply Forall_impl; [|exact Hsf].
    intros c Hc. apply cl_child_dec, Hc.
  Qed.

  Theorem decode_full_collapsed (t : tree) :
    slash_free_below NM t ->
    decode_full_from NM [] (print_collapsed NM t) =
    map strip (flat_map (rdj_child []) (t_children NM t)).
  Proof.
    unfold slash_free_below. intros Hsf. rewrite print_collapsed_eq, map_flat_map.
    apply (decode_root (fun c => jump_print NM O (t_total NM c) [] c)
                       (fun pre a => map strip (rdj_child pre a))).
    eapply Forall_impl; [|exact Hsf].
    intros c Hc. apply jump_child_dec, Hc.
  Qed.

  (** *** projected to [decode] *)
  Lemma decode_of_full (rows : list row) (rds : list rdec) :
    decode_full_from NM [] rows = map strip rds -> decode NM rows = map rdec_dec rds.
  Proof.
    intros H. unfold decode. rewrite decode_from_full, H, map_map. reflexivity.
  Qed.

  Theorem decode_plain (t : tree) :
    slash_free_below NM t ->
    decode NM (print_node NM false O t) = nodes_below [] t.
  Proof.
    intros Hsf. rewrite (decode_of_full _ _ (decode_full_plain t Hsf)).
    destruct t as [n x ch]. cbn [t_children]. rewrite nodes_below_eq, map_flat_map.
    apply flat_map_ext_Forall, Forall_forall. intros c _. apply rchild_nodes_dec.
  Qed.

  Theorem decode_collapse_last (t : tree) :
    slash_free_below NM t ->
    decode NM (print_node NM true O t) = cl_nodes [] t.
  Proof.
    intros Hsf. rewrite (decode_of_full _ _ (decode_full_collapse_last t Hsf)).
    destruct t as [n x ch]. cbn [t_children]. rewrite cl_nodes_eq, map_flat_map.
    apply flat_map_ext_Forall, Forall_forall. intros c _. apply rcl_child_dec.
  Qed.

  Theorem decode_collapsed (t : tree) :
    slash_free_below NM t ->
    decode NM (print_collapsed NM t) = flat_map (dj_child []) (t_children NM t).
  Proof.
    intros Hsf. rewrite (decode_of_full _ _ (decode_full_collapsed t Hsf)).
    rewrite map_flat_map.
    apply flat_map_ext_Forall, Forall_forall. intros c _. apply rdj_child_dec.
  Qed.
End Decode.
