(** WP09, part 2: what the decoder reads back from each of the three printers,
    as a function of the tree ([child_nodes], [cl_child], [dj]), proved by
    induction over the tree for every starting level, ancestor stack and
    continuation of the row list. *)
From Coq Require Import Lia ZifyBool ZifyNat ZifyN.
From HP Require Import Base.Bytes Base.Num Model.Elements Model.Tree
  Spec.TreeShared Spec.BalancePrintSpec Proofs.BalancePrintBase.

Section Decode.
  Context (NM : Num).
  Notation T := (T NM).
  Notation tree := (tree NM).
  Notation row := (row NM).
  Notation dec := (list bytes * T * bool)%type.
  Notation nosl := (fun s : bytes => ~ In c_slash s).

  Lemma Forall_mp {A} (Q R : A -> Prop) (l : list A) :
    Forall (fun c => Q c -> R c) l -> Forall Q l -> Forall R l.
  Proof.
    induction 1 as [|c r Hc _ IH]; intros HQ; [constructor|].
    inversion HQ as [|c' r' Hq Hr]; subst c' r'. constructor; [apply Hc, Hq|apply IH, Hr].
  Qed.

  (** ** Two shapes of rows: a leaf row, and a header row followed by a forest one level deeper *)
  Lemma decode_leaf_row (st : stack) (x : T) (level : nat) (lab : bytes) (rest : list row) :
    head_le NM level rest ->
    decode_from NM st ((x, level, lab) :: rest) =
    (stack_path (pop_to level st) ++ split_on c_slash lab, x, true) :: decode_from NM st rest.
  Proof.
    intros Hrest. rewrite decode_from_cons.
    rewrite is_leaf_row_head_le by assumption.
    rewrite decode_from_pushed by assumption. reflexivity.
  Qed.

  Lemma decode_header_forest (rows_of : tree -> list row) (dec_of : list bytes -> tree -> list dec)
        (level : nat) (x : T) (lab : bytes) (ch : list tree) (st : stack) (rest : list row) :
    Forall (fun c =>
              starts_at NM (S level) (rows_of c) /\
              forall st' rest', head_le NM (S level) rest' ->
                decode_from NM st' (rows_of c ++ rest') =
                dec_of (stack_path (pop_to (S level) st')) c ++ decode_from NM st' rest') ch ->
    ch <> [] ->
    head_le NM level rest ->
    decode_from NM st ((x, level, lab) :: flat_map rows_of ch ++ rest) =
    (stack_path (pop_to level st) ++ split_on c_slash lab, x, false)
      :: flat_map (dec_of (stack_path (pop_to level st) ++ split_on c_slash lab)) ch
      ++ decode_from NM st rest.
  Proof.
    intros Hall Hne Hrest. rewrite decode_from_cons.
    set (p := stack_path (pop_to level st) ++ split_on c_slash lab).
    f_equal.
    - f_equal. apply is_leaf_row_starts_deeper.
      destruct ch as [|c r]; [congruence|].
      apply starts_at_app. apply starts_at_flat_map.
      inversion Hall as [|c' r' [Hc _] _]. exact Hc.
    - rewrite (decode_forest NM rows_of dec_of (S level) ch Hall).
      + rewrite pop_to_push_lt by lia. cbn [stack_path].
        rewrite decode_from_pushed by assumption. reflexivity.
      + eapply head_le_weaken; [|exact Hrest]. lia.
  Qed.

  (** ** Plain mode: every node, with the flag "has no children" *)
  Definition is_nil {A} (l : list A) : bool := match l with [] => true | _ => false end.

  Fixpoint nodes_below (prefix : list bytes) (t : tree) : list dec :=
    match t with
    | Node _ _ ch =>
        flat_map (fun c => (prefix ++ [t_name NM c], t_total NM c, is_nil (t_children NM c))
                             :: nodes_below (prefix ++ [t_name NM c]) c) ch
    end.

  Definition child_nodes (prefix : list bytes) (c : tree) : list dec :=
    (prefix ++ [t_name NM c], t_total NM c, is_nil (t_children NM c))
      :: nodes_below (prefix ++ [t_name NM c]) c.

  Lemma nodes_below_eq prefix n x ch :
    nodes_below prefix (Node n x ch) = flat_map (child_nodes prefix) ch.
  Proof. reflexivity. Qed.

  Lemma plain_child_dec (c : tree) :
    slash_free NM c -> forall level,
    starts_at NM level (child_rows NM false level c) /\
    forall st rest, head_le NM level rest ->
      decode_from NM st (child_rows NM false level c ++ rest) =
      child_nodes (stack_path (pop_to level st)) c ++ decode_from NM st rest.
  Proof.
    induction c as [n x ch IH] using tree_ind'. intros Hsf level.
    apply slash_free_node in Hsf. destruct Hsf as [Hn Hch].
    rewrite child_rows_false. cbn [t_total t_name t_children].
    split; [eexists _, _, _; reflexivity|].
    intros st rest Hrest. cbn [app].
    unfold child_nodes. cbn [t_total t_name t_children]. rewrite nodes_below_eq.
    destruct ch as [|g gr].
    - cbn [flat_map app is_nil]. rewrite decode_leaf_row by assumption.
      rewrite split_on_absent by assumption. reflexivity.
    - rewrite (decode_header_forest (child_rows NM false (S level)) child_nodes).
      + rewrite split_on_absent by assumption. reflexivity.
      + eapply Forall_impl; [|exact (Forall_mp _ _ _ IH Hch)].
        intros a Ha. exact (Ha (S level)).
      + discriminate.
      + assumption.
  Qed.

  (** ** Collapse-last mode *)
  Fixpoint cl_nodes (prefix : list bytes) (t : tree) : list dec :=
    match t with
    | Node _ _ ch =>
        flat_map (fun child =>
          match child with
          | Node cn ct [] => [(prefix ++ [cn], ct, true)]
          | Node cn ct [Node gn gt []] => [(prefix ++ [cn; gn], ct, true)]
          | Node cn ct _ => (prefix ++ [cn], ct, false) :: cl_nodes (prefix ++ [cn]) child
          end) ch
    end.

  Definition cl_child (prefix : list bytes) (child : tree) : list dec :=
    match child with
    | Node cn ct [] => [(prefix ++ [cn], ct, true)]
    | Node cn ct [Node gn gt []] => [(prefix ++ [cn; gn], ct, true)]
    | Node cn ct _ => (prefix ++ [cn], ct, false) :: cl_nodes (prefix ++ [cn]) child
    end.

  Lemma cl_nodes_eq prefix n x ch :
    cl_nodes prefix (Node n x ch) = flat_map (cl_child prefix) ch.
  Proof. reflexivity. Qed.

  (** the third branch of [child_rows true] / [cl_child], for the two shapes that reach it *)
  Definition cl_other (ch : list tree) : Prop :=
    match ch with
    | [] => False
    | [Node _ _ []] => False
    | _ => True
    end.

  Lemma child_rows_true_other level n x ch :
    cl_other ch ->
    child_rows NM true level (Node n x ch) =
    (x, level, n) :: flat_map (child_rows NM true (S level)) ch.
  Proof.
    destruct ch as [|[gn gt [|g2 gr]] [|c2 r]]; cbn [cl_other]; intros H;
      try contradiction; reflexivity.
  Qed.

  Lemma cl_child_other prefix n x ch :
    cl_other ch ->
    cl_child prefix (Node n x ch) =
    (prefix ++ [n], x, false) :: flat_map (cl_child (prefix ++ [n])) ch.
  Proof.
    destruct ch as [|[gn gt [|g2 gr]] [|c2 r]]; cbn [cl_other]; intros H;
      try contradiction; reflexivity.
  Qed.

  (** the three shapes of a child in collapse-last mode *)
  Lemma cl_cases (ch : list tree) :
    ch = [] \/ (exists gn gt, ch = [Node gn gt []]) \/ cl_other ch.
  Proof.
    destruct ch as [|[gn gt [|g2 gr]] [|c2 r]]; cbn [cl_other]; auto.
    right. left. exists gn, gt. reflexivity.
  Qed.

  Lemma cl_other_nonempty ch : cl_other ch -> ch <> [].
  Proof. destruct ch; cbn [cl_other]; [contradiction|discriminate]. Qed.

  Lemma cl_child_dec (c : tree) :
    slash_free NM c -> forall level,
    starts_at NM level (child_rows NM true level c) /\
    forall st rest, head_le NM level rest ->
      decode_from NM st (child_rows NM true level c ++ rest) =
      cl_child (stack_path (pop_to level st)) c ++ decode_from NM st rest.
  Proof.
    induction c as [n x ch IH] using tree_ind'. intros Hsf level.
    apply slash_free_node in Hsf. destruct Hsf as [Hn Hch].
    destruct (cl_cases ch) as [E|[[gn [gt E]]|Ho]].
    - subst ch. cbn [child_rows cl_child].
      split; [eexists _, _, _; reflexivity|].
      intros st rest Hrest. cbn [app]. rewrite decode_leaf_row by assumption.
      rewrite split_on_absent by assumption. reflexivity.
    - subst ch. cbn [child_rows cl_child].
      split; [eexists _, _, _; reflexivity|].
      intros st rest Hrest. cbn [app]. rewrite decode_leaf_row by assumption.
      rewrite split_on_app_sep by assumption.
      inversion Hch as [|g' r' Hg _]; subst g' r'.
      apply slash_free_node in Hg. destruct Hg as [Hgn _].
      rewrite split_on_absent by assumption. reflexivity.
    - rewrite (child_rows_true_other level n x ch Ho).
      split; [eexists _, _, _; reflexivity|].
      intros st rest Hrest. cbn [app].
      rewrite (cl_child_other _ n x ch Ho).
      rewrite (decode_header_forest (child_rows NM true (S level)) cl_child).
      + rewrite split_on_absent by assumption. reflexivity.
      + eapply Forall_impl; [|exact (Forall_mp _ _ _ IH Hch)].
        intros a Ha. exact (Ha (S level)).
      + apply cl_other_nonempty, Ho.
      + assumption.
  Qed.

  (** ** Collapsed mode: one row per maximal chain of sole children *)
  Fixpoint dj (pre : list bytes) (tot : T) (t : tree) : list dec :=
    match t with
    | Node n _ [only] => dj (pre ++ [n]) tot only
    | Node n _ ch =>
        (pre ++ [n], tot, is_nil ch) :: flat_map (fun c => dj (pre ++ [n]) (t_total NM c) c) ch
    end.

  Definition dj_child (pre : list bytes) (c : tree) : list dec := dj pre (t_total NM c) c.

  Definition not_single {A} (ch : list A) : Prop := match ch with [_] => False | _ => True end.

  Lemma dj_single pre tot n x only :
    dj pre tot (Node n x [only]) = dj (pre ++ [n]) tot only.
  Proof. reflexivity. Qed.

  Lemma dj_end pre tot n x ch :
    not_single ch ->
    dj pre tot (Node n x ch) = (pre ++ [n], tot, is_nil ch) :: flat_map (dj_child (pre ++ [n])) ch.
  Proof. destruct ch as [|c1 [|c2 r]]; intros H; [reflexivity|contradiction|reflexivity]. Qed.

  Lemma single_cases {A} (ch : list A) : (exists only, ch = [only]) \/ not_single ch.
  Proof. destruct ch as [|c1 [|c2 r]]; cbn; eauto. Qed.

  Lemma jump_starts (t : tree) :
    forall level tot acc, starts_at NM level (jump_print NM level tot acc t).
  Proof.
    induction t as [n x ch IH] using tree_ind'. intros level tot acc.
    destruct (single_cases ch) as [[only E]|Hns].
    - subst ch. rewrite jump_print_single. inversion IH as [|c r Hc _]. apply Hc.
    - rewrite jump_print_end by exact Hns. eexists _, _, _; reflexivity.
  Qed.

  Lemma jump_dec (t : tree) :
    slash_free NM t -> forall level tot acc st rest,
    Forall nosl acc -> head_le NM level rest ->
    decode_from NM st (jump_print NM level tot acc t ++ rest) =
    dj (stack_path (pop_to level st) ++ acc) tot t ++ decode_from NM st rest.
  Proof.
    induction t as [n x ch IH] using tree_ind'. intros Hsf level tot acc st rest Hacc Hrest.
    apply slash_free_node in Hsf. destruct Hsf as [Hn Hch].
    assert (Hsplit : split_on c_slash (join [c_slash] (acc ++ [n])) = acc ++ [n]).
    { apply split_join.
      - destruct acc; discriminate.
      - apply Forall_app. split; [assumption|]. constructor; [assumption|constructor]. }
    destruct (single_cases ch) as [[only E]|Hns].
    - subst ch. rewrite jump_print_single, dj_single.
      inversion IH as [|c r Hc _]; subst c r. inversion Hch as [|c r Hso _]; subst c r.
      rewrite Hc; [|assumption| |assumption].
      + rewrite app_assoc. reflexivity.
      + apply Forall_app. split; [assumption|]. constructor; [assumption|constructor].
    - rewrite jump_print_end by exact Hns. rewrite dj_end by exact Hns. cbn [app].
      destruct ch as [|c1 r].
      + cbn [flat_map app is_nil]. rewrite decode_leaf_row by assumption.
        rewrite Hsplit, app_assoc. reflexivity.
      + rewrite (decode_header_forest (fun c => jump_print NM (S level) (t_total NM c) [] c) dj_child).
        * rewrite Hsplit, app_assoc. reflexivity.
        * eapply Forall_impl; [|exact (Forall_mp _ _ _ IH Hch)].
          intros a Ha. split; [apply jump_starts|].
          intros st' rest' Hrest'. unfold dj_child.
          rewrite Ha; [|constructor|assumption].
          rewrite app_nil_r. reflexivity.
        * discriminate.
        * assumption.
  Qed.

  Lemma jump_child_dec (c : tree) :
    slash_free NM c -> forall level,
    starts_at NM level (jump_print NM level (t_total NM c) [] c) /\
    forall st rest, head_le NM level rest ->
      decode_from NM st (jump_print NM level (t_total NM c) [] c ++ rest) =
      dj_child (stack_path (pop_to level st)) c ++ decode_from NM st rest.
  Proof.
    intros Hsf level. split; [apply jump_starts|].
    intros st rest Hrest. unfold dj_child.
    rewrite jump_dec; [|assumption|constructor|assumption].
    rewrite app_nil_r. reflexivity.
  Qed.

  (** ** The three modes on a root *)
  Lemma decode_root (rows_of : tree -> list row) (dec_of : list bytes -> tree -> list dec)
        (ch : list tree) :
    Forall (fun c =>
              starts_at NM O (rows_of c) /\
              forall st rest, head_le NM O rest ->
                decode_from NM st (rows_of c ++ rest) =
                dec_of (stack_path (pop_to O st)) c ++ decode_from NM st rest) ch ->
    decode NM (flat_map rows_of ch) = flat_map (dec_of []) ch.
  Proof.
    intros Hall. unfold decode.
    rewrite <- (app_nil_r (flat_map rows_of ch)).
    rewrite (decode_forest NM rows_of dec_of O ch Hall); [|exact I].
    cbn [pop_to stack_path decode_from]. apply app_nil_r.
  Qed.

  Theorem decode_plain (t : tree) :
    slash_free_below NM t ->
    decode NM (print_node NM false O t) = nodes_below [] t.
  Proof.
    destruct t as [n x ch]. unfold slash_free_below. cbn [t_children]. intros Hsf.
    rewrite print_node_eq, nodes_below_eq.
    apply decode_root. eapply Forall_impl; [|exact Hsf].
    intros c Hc. apply plain_child_dec, Hc.
  Qed.

  Theorem decode_collapse_last (t : tree) :
    slash_free_below NM t ->
    decode NM (print_node NM true O t) = cl_nodes [] t.
  Proof.
    destruct t as [n x ch]. unfold slash_free_below. cbn [t_children]. intros Hsf.
    rewrite print_node_eq, cl_nodes_eq.
    apply decode_root. eapply Forall_impl; [|exact Hsf].
    intros c Hc. apply cl_child_dec, Hc.
  Qed.

  Theorem decode_collapsed (t : tree) :
    slash_free_below NM t ->
    decode NM (print_collapsed NM t) = flat_map (dj_child []) (t_children NM t).
  Proof.
    unfold slash_free_below. intros Hsf. rewrite print_collapsed_eq.
    apply (decode_root (fun c => jump_print NM O (t_total NM c) [] c) dj_child).
    eapply Forall_impl; [|exact Hsf].
    intros c Hc. apply jump_child_dec, Hc.
  Qed.
End Decode.
