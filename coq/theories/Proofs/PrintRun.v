(** The tie between the vocabulary of property C14 ([read_log], [print_output])
    and the command of the model: with a sink that never fails and no period
    limits, [run_log w op (rep_print c)] on a log file that [read_log] reads
    as the days [L] writes exactly [print_output c L] and ends with status Ok.
    Hence, at the level of the command: printing the printed log gives the same
    standard output.

    The writer lemmas (a buffered writer in front of a sink that never fails)
    are re-proved here as in WP12's ComposeWriter.v (duplication allowed). *)
From Coq Require Import Lia ZifyBool ZifyNat ZifyN.
From HP Require Import Base.Bytes Base.Utf8 Base.Num Model.Scanner Model.Parser Model.Elements Model.Resolver
     Model.Dates Model.Tree Model.Writer Model.Reporters Model.Cli Spec.PrintSpec
     Proofs.PrintBytes Proofs.PrintMain.
Open Scope N_scope.

(** *** the writer in front of a sink that never fails *)
Definition good (w : bw) : Prop := bw_err w = false /\ s_limit (bw_sink w) = None.
Definition out (w : bw) : bytes := s_got (bw_sink w) ++ bw_buf w.

Lemma sink_write_nofail s p : s_limit s = None ->
  sink_write s p = ({| s_limit := None; s_got := s_got s ++ p |}, false).
Proof. intros H. unfold sink_write. rewrite H. reflexivity. Qed.

Lemma bw_flush_good w : good w ->
  good (fst (bw_flush w)) /\ snd (bw_flush w) = false
  /\ s_got (bw_sink (fst (bw_flush w))) = out w /\ bw_buf (fst (bw_flush w)) = [].
Proof.
  destruct w as [buf err snk]. intros [He Hl]. cbn in He, Hl. subst err.
  unfold bw_flush, out. cbn [bw_err bw_buf bw_sink]. destruct buf as [|c buf].
  - cbn. rewrite app_nil_r. repeat split; assumption.
  - rewrite (sink_write_nofail snk (c :: buf) Hl). cbn. repeat split.
Qed.

Lemma bw_direct_good w p : good w -> bw_buf w = [] ->
  good (fst (bw_direct w p)) /\ snd (bw_direct w p) = false /\ out (fst (bw_direct w p)) = out w ++ p.
Proof.
  destruct w as [buf err snk]. intros [He Hl] Hb. cbn in He, Hl, Hb. subst err buf.
  unfold bw_direct, out. cbn [bw_err bw_buf bw_sink]. rewrite (sink_write_nofail snk p Hl). cbn.
  rewrite !app_nil_r. repeat split.
Qed.

Lemma bw_write_good w p : good w ->
  good (fst (bw_write w p)) /\ snd (bw_write w p) = false /\ out (fst (bw_write w p)) = out w ++ p.
Proof.
  intros Hg. pose proof Hg as [He Hl]. unfold bw_write. rewrite He.
  destruct (Nat.leb (length p) (buf_size - length (bw_buf w))) eqn:Hfit.
  - cbn. unfold good, out. cbn. rewrite app_assoc. repeat split; assumption.
  - destruct (bw_buf w) as [|c buf] eqn:Hb.
    + apply bw_direct_good; assumption.
    + set (avail := (buf_size - length (c :: buf))%nat).
      set (w0 := {| bw_buf := (c :: buf) ++ firstn avail p; bw_err := false; bw_sink := bw_sink w |}).
      assert (Hg0 : good w0) by (split; [reflexivity|exact Hl]).
      destruct (bw_flush_good w0 Hg0) as (Hg1 & He1 & Hgot1 & Hbuf1).
      destruct (bw_flush w0) as [w1 e1] eqn:Hfl. cbn [fst snd] in Hg1, He1, Hgot1, Hbuf1. subst e1.
      assert (Hout1 : s_got (bw_sink w1) = out w ++ firstn avail p).
      { rewrite Hgot1. unfold out, w0. cbn [bw_buf bw_sink]. rewrite Hb. rewrite app_assoc. reflexivity. }
      destruct (Nat.leb (length (skipn avail p)) buf_size) eqn:Hsmall.
      * cbn [fst snd]. unfold good, out. cbn [bw_err bw_buf bw_sink].
        split; [split; [reflexivity|apply Hg1]|]. split; [reflexivity|].
        rewrite Hout1, <- app_assoc, firstn_skipn. reflexivity.
      * destruct (bw_direct_good w1 (skipn avail p) Hg1 Hbuf1) as (Hg2 & He2 & Hout2).
        split; [exact Hg2|]. split; [exact He2|].
        rewrite Hout2. unfold out at 1. rewrite Hbuf1, app_nil_r, Hout1, <- app_assoc, firstn_skipn. reflexivity.
Qed.

Lemma bw_chunks_good cs : forall w, good w ->
  good (fst (bw_chunks w cs)) /\ snd (bw_chunks w cs) = false
  /\ out (fst (bw_chunks w cs)) = out w ++ concat (map fst cs).
Proof.
  induction cs as [|[p chk] r IH]; intros w Hg.
  - cbn. rewrite app_nil_r. split; [exact Hg|split; reflexivity].
  - cbn [bw_chunks]. destruct (bw_write_good w p Hg) as (Hg1 & He1 & Ho1).
    destruct (bw_write w p) as [w1 e1]. cbn [fst snd] in Hg1, He1, Ho1. subst e1. cbn [andb].
    destruct (IH w1 Hg1) as (Hg2 & He2 & Ho2).
    split; [exact Hg2|]. split; [exact He2|]. rewrite Ho2, Ho1. cbn [map fst concat]. rewrite app_assoc. reflexivity.
Qed.

Section PrintRun.
  Context (NM : Num).
  Notation lognode := (lognode NM).

  Lemma lognodes_of_app toks evs1 : forall evs2 L,
    lognodes_of NM toks (evs1 ++ evs2) = Some L ->
    exists L1 L2, lognodes_of NM toks evs1 = Some L1 /\ lognodes_of NM toks evs2 = Some L2 /\ L = L1 ++ L2.
  Proof.
    induction evs1 as [|ev evs1 IH]; intros evs2 L H.
    - exists [], L. split; [reflexivity|]. split; [exact H|reflexivity].
    - cbn [app lognodes_of] in *. destruct ev as [n|e]; [|discriminate].
      destruct (parse_date toks (header n)) as [cv|]; [|discriminate].
      destruct (lognodes_of NM toks (evs1 ++ evs2)) as [L0|] eqn:E0; [|discriminate].
      cbn in H. injection H as <-. destruct (IH evs2 L0 E0) as [L1 [L2 [H1 [H2 H3]]]].
      rewrite H1. cbn. eexists. exists L2. split; [reflexivity|]. split; [exact H2|]. rewrite H3. reflexivity.
  Qed.

  Lemma print_output_app c (L1 L2 : list lognode) :
    print_output NM c (L1 ++ L2) = print_output NM c L1 ++ print_output NM c L2.
  Proof. unfold print_output. rewrite map_app, concat_app. reflexivity. Qed.

  Section Walk.
    Context (c : rconfig) (pd : nat -> list bytes -> list bytes) (pf : list bytes -> list bytes)
            (toks : list ltoken) (bt et : option time).
    Notation R := (rep_print NM c).
    Notation cb := (walk_cb NM R pd toks bt et).
    Notation sel := (fun d : lognode => in_interval bt et (ln_time NM d)).

    (** one record whose heading is a date: the day is printed if it lies in the period, the walk goes on *)
    Lemma walk_cb_day rs i wr n cv :
      good wr -> parse_date toks (header n) = Some cv ->
      let d := {| ln_time := time_of_civil cv; ln_elems := merge_elements NM (elems n); ln_meta := meta n |} in
      exists rs' i' wr', cb (rs, i, wr) (ENode n) = ((rs', i', wr'), false, None)
                         /\ good wr' /\ out wr' = out wr ++ print_output NM c (filter sel [d]).
    Proof.
      intros Hg Hd d. assert (Et : ln_time NM d = time_of_civil cv) by reflexivity.
      unfold walk_cb. rewrite Hd.
      destruct (in_interval bt et (time_of_civil cv)) eqn:Ei.
      - assert (Esel : filter sel [d] = [d]) by (cbn [filter]; rewrite Et, Ei; reflexivity).
        rewrite Esel. fold d. cbn [r_process rep_print].
        destruct (bw_chunks_good (print_chunks NM c d) wr Hg) as (Hg1 & He1 & Ho1).
        destruct (bw_chunks wr (print_chunks NM c d)) as [wr' werr]. cbn [fst snd] in *. subst werr.
        exists tt, (S i), wr'. split; [reflexivity|]. split; [exact Hg1|].
        rewrite Ho1. unfold print_output, print_day. cbn [map concat]. rewrite app_nil_r. reflexivity.
      - assert (Esel : filter sel [d] = []) by (cbn [filter]; rewrite Et, Ei; reflexivity).
        rewrite Esel. exists rs, i, wr. split; [reflexivity|]. split; [exact Hg|]. unfold print_output. cbn.
        rewrite app_nil_r. reflexivity.
    Qed.

    Lemma drive_loop_print evs : forall L rs i wr,
      good wr -> lognodes_of NM toks evs = Some L ->
      exists rs' i' wr', drive_loop NM cb evs (rs, i, wr) = ((rs', i', wr'), None)
                         /\ good wr' /\ out wr' = out wr ++ print_output NM c (filter sel L).
    Proof.
      induction evs as [|ev evs IH]; intros L rs i wr Hg H.
      - cbn in H. injection H as <-. exists rs, i, wr. split; [reflexivity|]. split; [exact Hg|].
        unfold print_output. cbn. rewrite app_nil_r. reflexivity.
      - destruct ev as [n|e]; [|discriminate]. cbn [lognodes_of] in H.
        destruct (parse_date toks (header n)) as [cv|] eqn:Ed; [|discriminate].
        destruct (lognodes_of NM toks evs) as [L0|] eqn:E0; [|discriminate]. cbn in H. injection H as <-.
        destruct (walk_cb_day rs i wr n cv Hg Ed) as [rs1 [i1 [wr1 [E1 [Hg1 Ho1]]]]].
        cbn [drive_loop]. rewrite E1.
        destruct (IH L0 rs1 i1 wr1 Hg1 eq_refl) as [rs2 [i2 [wr2 [E2 [Hg2 Ho2]]]]].
        exists rs2, i2, wr2. split; [exact E2|]. split; [exact Hg2|].
        rewrite Ho2, Ho1. rewrite <- app_assoc. rewrite <- print_output_app. rewrite <- filter_app. reflexivity.
    Qed.

    (** the walk over a readable file *)
    Lemma parse_opened_print data L rs i wr :
      good wr -> read_log NM toks data = Some L ->
      exists rs' i' wr', parse_opened NM cb (OData data NoFault) (rs, i, wr) = ((rs', i', wr'), None)
                         /\ good wr' /\ out wr' = out wr ++ print_output NM c (filter sel L).
    Proof.
      intros Hg H. unfold read_log in H. unfold parse_opened, parse_stream. unfold events in H.
      destruct (scan data NoFault) as [lines fin]. cbn [fst snd] in H.
      destruct fin; try discriminate.
      destruct (parse_lines NM lines) as [evs last].
      destruct (lognodes_of_app toks evs _ L H) as [L1 [L2 [H1 [H2 HL]]]].
      destruct (drive_loop_print evs L1 rs i wr Hg H1) as [rs1 [i1 [wr1 [E1 [Hg1 Ho1]]]]].
      unfold drive. rewrite E1. destruct last as [n|].
      - cbn [lognodes_of] in H2. destruct (parse_date toks (header n)) as [cv|] eqn:Ed; [|discriminate].
        cbn in H2. injection H2 as <-.
        destruct (walk_cb_day rs1 i1 wr1 n cv Hg1 Ed) as [rs2 [i2 [wr2 [E2 [Hg2 Ho2]]]]].
        rewrite E2. cbn [option_map]. exists rs2, i2, wr2. split; [reflexivity|]. split; [exact Hg2|].
        rewrite Ho2, Ho1, HL. rewrite <- app_assoc. rewrite <- print_output_app. rewrite <- filter_app. reflexivity.
      - cbn in H2. injection H2 as <-. exists rs1, i1, wr1. split; [reflexivity|]. split; [exact Hg1|].
        rewrite Ho1, HL, app_nil_r. reflexivity.
    Qed.

    (** the walk over events that [lognodes_of] rejects stops with an error *)
    Lemma drive_loop_fails evs : forall rs i wr,
      good wr -> lognodes_of NM toks evs = None ->
      exists st' e, drive_loop NM cb evs (rs, i, wr) = (st', Some (Some e)).
    Proof.
      induction evs as [|ev evs IH]; intros rs i wr Hg H; [discriminate|].
      destruct ev as [n|e].
      - cbn [lognodes_of] in H. destruct (parse_date toks (header n)) as [cv|] eqn:Ed.
        + destruct (walk_cb_day rs i wr n cv Hg Ed) as [rs1 [i1 [wr1 [E1 [Hg1 _]]]]].
          cbn [drive_loop]. rewrite E1. apply IH; [exact Hg1|].
          destruct (lognodes_of NM toks evs); [discriminate|reflexivity].
        + cbn [drive_loop]. unfold walk_cb. rewrite Ed. eexists. eexists. reflexivity.
      - cbn [drive_loop]. unfold walk_cb. eexists. eexists. reflexivity.
    Qed.

    Lemma lognodes_of_app_none evs1 evs2 :
      lognodes_of NM toks (evs1 ++ evs2) = None ->
      lognodes_of NM toks evs1 = None
      \/ exists L1, lognodes_of NM toks evs1 = Some L1 /\ lognodes_of NM toks evs2 = None.
    Proof.
      induction evs1 as [|ev evs1 IH]; intros H.
      - right. exists []. split; [reflexivity|exact H].
      - cbn [app lognodes_of] in *. destruct ev as [n|e]; [|left; reflexivity].
        destruct (parse_date toks (header n)) as [cv|]; [|left; reflexivity].
        destruct (lognodes_of NM toks (evs1 ++ evs2)) as [L0|] eqn:E0; [discriminate|].
        destruct (IH eq_refl) as [H1|[L1 [H1 H2]]].
        + left. rewrite H1. reflexivity.
        + right. rewrite H1. cbn. eexists. split; [reflexivity|exact H2].
    Qed.

    (** the walk over a file that [read_log] rejects ends with an error *)
    Lemma parse_opened_fails data rs i wr :
      good wr -> read_log NM toks data = None ->
      exists st' e, parse_opened NM cb (OData data NoFault) (rs, i, wr) = (st', Some e).
    Proof.
      intros Hg H. unfold read_log in H. unfold parse_opened, parse_stream. unfold events in H.
      destruct (scan data NoFault) as [lines fin]. cbn [fst snd] in H.
      destruct (parse_lines NM lines) as [evs last]. unfold drive.
      destruct (lognodes_of NM toks evs) as [L1|] eqn:E1.
      - destruct (drive_loop_print evs L1 rs i wr Hg E1) as [rs1 [i1 [wr1 [D1 [Hg1 _]]]]]. rewrite D1.
        destruct fin.
        + destruct (lognodes_of_app_none _ _ H) as [H1|[L1' [_ H2]]]; [congruence|].
          destruct last as [n|]; [|discriminate]. cbn [lognodes_of] in H2.
          destruct (parse_date toks (header n)) as [cv|] eqn:Ed; [discriminate|].
          unfold walk_cb. rewrite Ed. eexists. eexists. reflexivity.
        + eexists. eexists. reflexivity.
        + eexists. eexists. reflexivity.
      - destruct (drive_loop_fails evs rs i wr Hg E1) as [st' [e D1]]. rewrite D1.
        cbn [option_map]. eexists. eexists. reflexivity.
    Qed.

    (** the walk and the final flush *)
    Lemma walk_and_finish_print data L wr :
      good wr -> read_log NM toks data = Some L ->
      exists wr' rs', walk_and_finish NM R pd pf toks bt et (OData data NoFault) wr = (wr', None, rs')
                      /\ s_got (bw_sink wr') = out wr ++ print_output NM c (filter sel L).
    Proof.
      intros Hg H. unfold walk_and_finish.
      destruct (parse_opened_print data L (r_init NM R) O wr Hg H) as [rs1 [i1 [wr1 [E1 [Hg1 Ho1]]]]].
      rewrite E1. cbn [r_flush rep_print bw_chunks].
      destruct (bw_flush_good wr1 Hg1) as (Hg2 & He2 & Hgot2 & _).
      destruct (bw_flush wr1) as [wr3 ferr]. cbn [fst snd] in *. subst ferr.
      exists wr3, rs1. split; [reflexivity|]. rewrite Hgot2. exact Ho1.
    Qed.
  End Walk.

  (** *** the command *)

  (** print on a log file read as the days [L] writes the days of the period and exits with status Ok *)
  Theorem run_print_output w op c data toks L :
    print_setting w op data toks -> read_log NM toks data = Some L ->
    run_log NM w op (rep_print NM c)
    = {| out_stdout := print_output NM c (filter (in_period NM op) L); out_status := Ok |}.
  Proof.
    intros (Hs & Hne & Hnd & Hfs & Hrf & Htok) H. unfold run_log, open_all, open_file.
    destruct (beq (op_log op) dev_null) eqn:Eb; [apply beq_true_iff in Eb; contradiction|].
    destruct (op_log op) as [|p0 p'] eqn:Ep; [congruence|]. rewrite Hfs, Hrf. cbn [option_map].
    rewrite Htok.
    assert (Hg : good (new_writer w)) by (unfold new_writer, bw_new, good; cbn; rewrite Hs; split; reflexivity).
    destruct (walk_and_finish_print c (o_day (w_or w)) (o_flush (w_or w)) toks (op_begin op) (op_end op) data L _ Hg H)
      as [wr' [rs' [E Hgot]]].
    rewrite E. unfold finish, status_of. rewrite Hgot. unfold out, new_writer, bw_new. cbn. reflexivity.
  Qed.

  (** and conversely: a file [read_log] rejects makes the command fail; so in this
      setting [read_log toks data <> None] says exactly that print succeeds *)
  Theorem run_print_fails w op c data toks :
    print_setting w op data toks -> read_log NM toks data = None ->
    exists e, out_status (run_log NM w op (rep_print NM c)) = Failed e.
  Proof.
    intros (Hs & Hne & Hnd & Hfs & Hrf & Htok) H. unfold run_log, open_all, open_file.
    destruct (beq (op_log op) dev_null) eqn:Eb; [apply beq_true_iff in Eb; contradiction|].
    destruct (op_log op) as [|p0 p'] eqn:Ep; [congruence|]. rewrite Hfs, Hrf. cbn [option_map].
    rewrite Htok.
    assert (Hg : good (new_writer w)) by (unfold new_writer, bw_new, good; cbn; rewrite Hs; split; reflexivity).
    unfold walk_and_finish.
    destruct (parse_opened_fails c (o_day (w_or w)) toks (op_begin op) (op_end op) data
                (r_init NM (rep_print NM c)) O _ Hg H) as [[[rs1 i1] wr1] [e E]].
    rewrite E. cbn [r_flush rep_print bw_chunks].
    destruct (bw_flush wr1) as [wr3 ferr]. exists e. reflexivity.
  Qed.

  Lemma read_log_nil toks : read_log NM toks [] = Some [].
  Proof. reflexivity. Qed.

  Lemma filter_all {A} (f : A -> bool) l : Forall (fun x => f x = true) l -> filter f l = l.
  Proof. induction 1 as [|x l Hx Hl IH]; [reflexivity|]. cbn. rewrite Hx, IH. reflexivity. Qed.

  (** C14 at the level of the command, for every readable log and any period:
      feed the standard output of a run of print back as the log file, under
      the same options; the second run succeeds and writes the same bytes.
      Hypotheses: the number law, a layout that reads back what it writes
      ([stable_layout]), and for the days of the period the documented note
      forms and the line-length limit. *)
  Theorem run_print_twice_log (FS : FmtStable NM) w1 w2 op c data toks L :
    rc_date c = toks -> stable_layout toks = true ->
    print_setting w1 op data toks -> read_log NM toks data = Some L ->
    Forall (fun d => Forall (fun mp => documented_note mp = true) (notes_of NM d)) (filter (in_period NM op) L) ->
    Forall (fun d => Forall (fun l => lengthN l < max_token) (day_lines NM c d)) (filter (in_period NM op) L) ->
    print_setting w2 op (out_stdout (run_log NM w1 op (rep_print NM c))) toks ->
    run_log NM w2 op (rep_print NM c) = run_log NM w1 op (rep_print NM c)
    /\ out_status (run_log NM w1 op (rep_print NM c)) = Ok.
  Proof.
    intros Hc Hst S1 H1 Hn Hl S2. rewrite (run_print_output w1 op c data toks L S1 H1) in *. cbn [out_stdout] in S2.
    split; [|reflexivity].
    set (Ls := filter (in_period NM op) L) in *.
    assert (Hsafe : forallb safe_tok toks = true).
    { destruct S1 as (_ & _ & _ & _ & _ & Htok). apply (PrintDates.tokenize_safe _ _ Htok). }
    destruct (read_log_shape NM toks data L H1) as [Hshape Hlay].
    assert (Hr : read_log NM toks (print_output NM c Ls) = Some (map (reread_day NM) Ls)).
    { destruct Ls as [|d0 Ls0] eqn:ELs; [apply read_log_nil|].
      assert (HLne : L <> []) by (intros ->; discriminate).
      assert (HL : heading_layout (layout_core (rc_date c)) = true) by (rewrite Hc; apply Hlay; assumption).
      assert (Hsep : sep_ok toks = true) by (unfold stable_layout in Hst; apply andb_true_iff in Hst; apply Hst).
      subst toks. apply (print_reads_back_core NM FS c (d0 :: Ls0) Hsafe Hsep HL).
      rewrite <- ELs in *. rewrite Forall_forall in *. intros d Hd.
      assert (HdL : In d L) by (unfold Ls in Hd; apply filter_In in Hd; tauto).
      destruct (Hshape d HdL) as [S1' [S2' [S3' S4']]].
      unfold day_ok. auto 10 using (Hn d Hd), (Hl d Hd). }
    rewrite (run_print_output w2 op c _ toks _ S2 Hr). f_equal.
    rewrite filter_all.
    - apply (print_output_reread NM FS).
    - apply Forall_map. unfold Ls. apply Forall_forall. intros d Hd. apply filter_In in Hd.
      unfold in_period, reread_day. cbn [ln_time]. apply Hd.
  Qed.
End PrintRun.

(** *** non-vacuity: a concrete world, the command run twice *)
From HP Require Import Proofs.PrintZNum Proofs.PrintExamples.

Definition world_with (data : bytes) : world :=
  {| w_fs := [(b "log.yaml", FFile data)]; w_default_config := b "/root/.hranoprovod/config"; w_tz := 0%Z;
     w_clock := zero_time;
     w_or := {| o_resolve := fun l => l; o_day := fun _ l => l; o_flush := fun l => l |};
     w_sink := None; w_read_fault := [] |}.

Definition op_ex : options :=
  {| op_db := []; op_log := b "log.yaml"; op_fmt := b "2006/01/02"; op_depth := 10%Z; op_now := zero_time;
     op_begin := None; op_end := None; op_rc := cfg toks0 |}.

Example setting_ex data : print_setting (world_with data) op_ex data toks0.
Proof. unfold print_setting. repeat split; try reflexivity; intro HH; vm_compute in HH; discriminate HH. Qed.

Example run_twice_ex :
  let out1 := run_log ZNum (world_with (print_output ZNum (cfg toks0) log12)) op_ex (rep_print ZNum (cfg toks0)) in
  out_status out1 = Ok
  /\ out_stdout out1 = print_output ZNum (cfg toks0) log12
  /\ run_log ZNum (world_with (out_stdout out1)) op_ex (rep_print ZNum (cfg toks0)) = out1.
Proof.
  cbv zeta.
  pose proof (run_print_output ZNum _ op_ex (cfg toks0) _ toks0 _ (setting_ex _) log12_reads_back) as E1.
  assert (Ef : filter (in_period ZNum op_ex) log12 = log12) by reflexivity. rewrite Ef in E1.
  rewrite E1. cbn [out_status out_stdout]. split; [reflexivity|]. split; [reflexivity|]. exact E1.
Qed.
