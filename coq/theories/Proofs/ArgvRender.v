(** [parse_argv (render_argv i) = ArgvOk i] for every renderable invocation. *)
From Coq Require Import Lia ZifyBool ZifyNat ZifyN.
From HP Require Import Base.Bytes Model.Elements Model.Config Model.Cli Model.Argv.
From HP Require Import Proofs.CsvNumerals Proofs.ConfigRender Proofs.ArgvBase.

(** * the decimal numeral of an integer is read back by [go_parse_int] *)
Lemma dec_of_N_shape : forall p, exists c r, dec_of_N (N.pos p) = c :: r /\ is_digit c = true /\ c <> 48 /\ forallb is_digit r = true.
Proof.
  intros p. destruct (dec_of_N_head (N.pos p)) as (c & r & E & Hc).
  pose proof (dec_of_N_digits (N.pos p)) as Hd. rewrite E in Hd. cbn [forallb] in Hd. apply andb_true_iff in Hd as [H1 H2].
  exists c, r. repeat split; try assumption. apply Hc. discriminate.
Qed.

Lemma go_parse_int_dec_of_Z : forall z, (min_int64 <= z <= max_int64)%Z -> go_parse_int (dec_of_Z z) = Val z.
Proof.
  intros z Hz. assert (Hr : ((min_int64 <=? z) && (z <=? max_int64))%Z = true) by lia.
  destruct z as [|p|p].
  - reflexivity.
  - unfold dec_of_Z. destruct (dec_of_N_shape p) as (c & r & E & Hc & H48 & Hd).
    pose proof (dec_val_dec_of_N (N.pos p)) as Hv. rewrite E in *.
    unfold go_parse_int.
    assert (E45 : c =? 45 = false) by (unfold is_digit in Hc; lia).
    assert (E43 : c =? 43 = false) by (unfold is_digit in Hc; lia).
    assert (E48 : c =? 48 = false) by lia.
    rewrite E45, E43, E48, Hc, Hd, Hv. change (Z.of_N (N.pos p)) with (Z.pos p). rewrite Hr. reflexivity.
  - unfold dec_of_Z. destruct (dec_of_N_shape p) as (c & r & E & Hc & H48 & Hd).
    pose proof (dec_val_dec_of_N (N.pos p)) as Hv. rewrite E in *.
    unfold go_parse_int. change (c_dash =? 45) with true. cbv iota.
    assert (E48 : c =? 48 = false) by lia.
    rewrite E48, Hc, Hd, Hv. change (- Z.of_N (N.pos p))%Z with (Z.neg p). rewrite Hr. reflexivity.
Qed.

Lemma dec_of_Z_nonempty : forall z, dec_of_Z z <> [].
Proof.
  intros [|p|p]; unfold dec_of_Z; try discriminate.
  destruct (dec_of_N_shape p) as (c & r & E & _). rewrite E. discriminate.
Qed.

Lemma pf_opt_int : forall tbl flag n o r, classify (b flag) = TFlag n None -> find_flag tbl n = Some KInt -> int64_ok o = true ->
  parse_flags tbl (opt_int flag o ++ r) = seg n (option_map VI o) (parse_flags tbl r).
Proof.
  intros tbl flag n [z|] r H F R; [|reflexivity]. cbn [opt_int app option_map seg].
  apply pf_int; try assumption. apply go_parse_int_dec_of_Z. unfold int64_ok in R. lia.
Qed.

(** * the environment *)
Lemma lookup_env_hit : forall name o r,
  lookup (b name) (opt_env name o ++ r) = match o with Some v => Some v | None => lookup (b name) r end.
Proof. intros name [v|] r; [|reflexivity]. cbn [opt_env app lookup]. rewrite beq_refl. reflexivity. Qed.

Lemma lookup_env_miss : forall k name o r, beq k (b name) = false -> lookup k (opt_env name o ++ r) = lookup k r.
Proof. intros k name [v|] r H; [|reflexivity]. cbn [opt_env app lookup]. rewrite H. reflexivity. Qed.

Ltac env_miss := rewrite ?lookup_env_miss by (vm_compute; reflexivity).

Lemma render_env_nil : forall i, render_env i =
  opt_env "HR_DATABASE" (i_e_db i) ++ opt_env "HR_LOGFILE" (i_e_log i) ++ opt_env "HR_DATE_FORMAT" (i_e_fmt i)
  ++ opt_env "HR_MAXDEPTH" (option_map dec_of_Z (i_e_depth i)) ++ opt_env "HR_CONFIG" (i_e_config i) ++ [].
Proof. intros i. unfold render_env. rewrite app_nil_r. reflexivity. Qed.

Lemma env_db : forall i, lookup (b "HR_DATABASE") (render_env i) = i_e_db i.
Proof. intros i. rewrite render_env_nil. rewrite lookup_env_hit. destruct (i_e_db i); [reflexivity|]. env_miss. reflexivity. Qed.
Lemma env_log : forall i, lookup (b "HR_LOGFILE") (render_env i) = i_e_log i.
Proof. intros i. rewrite render_env_nil. env_miss. rewrite lookup_env_hit. destruct (i_e_log i); [reflexivity|]. env_miss. reflexivity. Qed.
Lemma env_fmt : forall i, lookup (b "HR_DATE_FORMAT") (render_env i) = i_e_fmt i.
Proof. intros i. rewrite render_env_nil. env_miss. rewrite lookup_env_hit. destruct (i_e_fmt i); [reflexivity|]. env_miss. reflexivity. Qed.
Lemma env_config : forall i, lookup (b "HR_CONFIG") (render_env i) = i_e_config i.
Proof. intros i. rewrite render_env_nil. env_miss. rewrite lookup_env_hit. destruct (i_e_config i); reflexivity. Qed.
Lemma env_depth : forall i, int64_ok (i_e_depth i) = true -> env_int (render_env i) (b "HR_MAXDEPTH") = Val (i_e_depth i).
Proof.
  intros i R. unfold env_int. rewrite render_env_nil. env_miss. rewrite lookup_env_hit.
  destruct (i_e_depth i) as [z|]; cbn [option_map].
  - pose proof (dec_of_Z_nonempty z) as NE. rewrite go_parse_int_dec_of_Z by (unfold int64_ok in R; lia).
    destruct (dec_of_Z z); [congruence|reflexivity].
  - env_miss. reflexivity.
Qed.

(** * the flags before the command *)
Definition ga_of (i : invocation) : asg :=
  oseg (b "d") (option_map VS (i_f_db i)) ++ oseg (b "l") (option_map VS (i_f_log i))
  ++ oseg (b "date-format") (option_map VS (i_f_fmt i)) ++ oseg (b "maxdepth") (option_map VI (i_f_depth i))
  ++ oseg (b "today") (option_map VS (i_f_today i)) ++ oseg (b "c") (option_map VS (i_f_config i))
  ++ oseg (b "no-database") (obool (i_no_database i)) ++ oseg (b "b") (option_map VS (i_g_begin i))
  ++ oseg (b "e") (option_map VS (i_g_end i)) ++ oseg (b "no-color") (obool (i_g_no_color i)) ++ [].

Ltac closed := vm_compute; reflexivity.

Lemma parse_global : forall i rest, int64_ok (i_f_depth i) = true -> parse_flags tbl_root rest = FOk [] rest ->
  parse_flags tbl_root (render_global i ++ rest) = FOk (ga_of i) rest.
Proof.
  intros i rest R H. unfold render_global. rewrite <- !app_assoc.
  rewrite (pf_opt_str _ "-d" (b "d")) by closed.
  rewrite (pf_opt_str _ "-l" (b "l")) by closed.
  rewrite (pf_opt_str _ "--date-format" (b "date-format")) by closed.
  rewrite (pf_opt_int _ "--maxdepth" (b "maxdepth")) by (try exact R; closed).
  rewrite (pf_opt_str _ "--today" (b "today")) by closed.
  rewrite (pf_opt_str _ "-c" (b "c")) by closed.
  rewrite (pf_opt_bool _ "--no-database" (b "no-database")) by closed.
  rewrite (pf_opt_str _ "-b" (b "b")) by closed.
  rewrite (pf_opt_str _ "-e" (b "e")) by closed.
  rewrite (pf_opt_bool _ "--no-color" (b "no-color")) by closed.
  rewrite H. rewrite !seg_ok. reflexivity.
Qed.

Definition names_global : list bytes :=
  [b "d"; b "l"; b "date-format"; b "maxdepth"; b "today"; b "c"; b "no-database"; b "b"; b "e"; b "no-color"].

Lemma ga_within : forall i, within names_global (ga_of i).
Proof. intros i. unfold ga_of. repeat (apply within_oseg; [closed|]). apply within_nil. Qed.

Lemma ga_conflict : forall i, conflict tbl_root (ga_of i) = false.
Proof. intros i. apply (conflict_within _ names_global); [apply ga_within|closed]. Qed.

Ltac field T :=
  match goal with i : invocation |- _ => destruct i end;
  unfold get_str, get_bool, get_int, T; rewrite !get_oseg; vm_compute;
  repeat match goal with |- context [match ?x with _ => _ end] => is_var x; destruct x end; reflexivity.

Lemma ga_help : forall i, get_bool n_help (ga_of i) = false. Proof. intros i. field ga_of. Qed.
Lemma ga_version : forall i, get_bool n_version (ga_of i) = false. Proof. intros i. field ga_of. Qed.
Lemma ga_db : forall i, get_str [b "database"; b "d"] (ga_of i) = i_f_db i. Proof. intros i. field ga_of. Qed.
Lemma ga_log : forall i, get_str [b "logfile"; b "l"] (ga_of i) = i_f_log i. Proof. intros i. field ga_of. Qed.
Lemma ga_fmt : forall i, get_str [b "date-format"] (ga_of i) = i_f_fmt i. Proof. intros i. field ga_of. Qed.
Lemma ga_depth : forall i, get_int [b "maxdepth"] (ga_of i) = i_f_depth i. Proof. intros i. field ga_of. Qed.
Lemma ga_today : forall i, get_str [b "today"] (ga_of i) = i_f_today i. Proof. intros i. field ga_of. Qed.
Lemma ga_config : forall i, get_str [b "config"; b "c"] (ga_of i) = i_f_config i. Proof. intros i. field ga_of. Qed.
Lemma ga_nodb : forall i, get_bool [b "no-database"] (ga_of i) = i_no_database i. Proof. intros i. field ga_of. Qed.
Lemma ga_begin : forall i, get_str n_begin (ga_of i) = i_g_begin i. Proof. intros i. field ga_of. Qed.
Lemma ga_end : forall i, get_str n_end (ga_of i) = i_g_end i. Proof. intros i. field ga_of. Qed.
Lemma ga_nocolor : forall i, get_bool n_no_color (ga_of i) = i_g_no_color i. Proof. intros i. field ga_of. Qed.

(** * the root: from the rendered vector to the command *)
Lemma root_stage : forall i rest, int64_ok (i_f_depth i) = true -> int64_ok (i_e_depth i) = true ->
  parse_flags tbl_root rest = FOk [] rest ->
  parse_argv (render_global i ++ rest) (render_env i) = root_args (ga_of i) (render_env i) (i_e_depth i) rest.
Proof.
  intros i rest R1 R2 H. unfold parse_argv. rewrite env_depth by exact R2. unfold root_level.
  rewrite parse_global by assumption. unfold guard. rewrite ga_conflict, ga_help, ga_version. reflexivity.
Qed.

Definition leaf_of_cmd (c : command) : leaf :=
  match c with
  | CReg => FReg | CBal => FBal | CLint _ => FLint | CElementTotal _ => FElementTotal | CUnresolved => FUnresolved
  | CQuantity => FQuantity | CTotals => FTotals | CCsvLog => FCsvLog | CCsvDb => FCsvDb | CCsvDbResolved => FCsvDbResolved
  | CStats => FStats | CSummary _ => FSummary | CPrint => FPrint
  end.

Lemma words_nonflag : forall c rest, parse_flags tbl_root (command_words c ++ rest) = FOk [] (command_words c ++ rest).
Proof. intros c rest. destruct c; cbn [command_words app]; apply pf_nonflag; closed. Qed.

Lemma words_dispatch : forall ga e d c rest,
  root_args ga e d (command_words c ++ rest) = leaf_level ga e d (leaf_of_cmd c) rest.
Proof.
  intros ga e d c rest. destruct c; cbn [command_words app leaf_of_cmd]; unfold root_args.
  all: try (match goal with |- match leaf_of_root ?w with _ => _ end = _ =>
              let v := eval vm_compute in (leaf_of_root w) in change (leaf_of_root w) with v end; cbv iota; try reflexivity).
  all: match goal with |- (if beq ?w ?x then _ else _) = _ => let v := eval vm_compute in (beq w x) in change (beq w x) with v end; cbv iota.
  all: try match goal with |- (if beq ?w ?x then _ else _) = _ => let v := eval vm_compute in (beq w x) in change (beq w x) with v end; cbv iota.
  all: unfold group_level; rewrite pf_nonflag by closed; unfold guard;
       change (conflict tbl_help []) with false; change (get_bool n_help []) with false; cbv iota; unfold group_args.
  all: match goal with |- match ?s ?w with _ => _ end = _ => let v := eval vm_compute in (s w) in change (s w) with v end; reflexivity.
Qed.

(** * the command level *)
Lemma classify_not_dash : forall c r, c =? 45 = false -> classify (c :: r) = TNonFlag.
Proof. intros c [|c2 r] H; cbn [classify]; [reflexivity|]. rewrite H. reflexivity. Qed.

Lemma parse_arg : forall tbl a, parse_flags tbl (render_arg a) = FOk [] (match a with [] => [] | _ :: _ => [a] end).
Proof.
  intros tbl [|c r]; [reflexivity|]. cbn [render_arg]. destruct (c =? 45) eqn:E.
  - rewrite pf_term by closed. reflexivity.
  - apply pf_nonflag. apply classify_not_dash. exact E.
Qed.

Definition names_local : list bytes :=
  [b "b"; b "e"; b "no-color"; b "f"; b "s"; b "g"; b "csv"; b "no-totals"; b "totals-only"; b "shorten"; b "use-old-reg-reporter";
   b "collapse"; b "collapse-last"; b "desc"; b "silent"; b "internal-template-name"].

Ltac seg_rewrites :=
  rewrite ?(pf_opt_str _ "-b" (b "b")) by closed;
  rewrite ?(pf_opt_str _ "-e" (b "e")) by closed;
  rewrite ?(pf_opt_bool _ "--no-color" (b "no-color")) by closed;
  rewrite ?(pf_opt_nonempty _ "-f" (b "f")) by closed;
  rewrite ?(pf_opt_nonempty _ "-s" (b "s")) by closed;
  rewrite ?(pf_opt_bool _ "-g" (b "g")) by closed;
  rewrite ?(pf_opt_bool _ "--csv" (b "csv")) by closed;
  rewrite ?(pf_opt_bool _ "--no-totals" (b "no-totals")) by closed;
  rewrite ?(pf_opt_bool _ "--totals-only" (b "totals-only")) by closed;
  rewrite ?(pf_opt_bool _ "--shorten" (b "shorten")) by closed;
  rewrite ?(pf_opt_bool _ "--use-old-reg-reporter" (b "use-old-reg-reporter")) by closed;
  rewrite ?(pf_opt_bool _ "--collapse" (b "collapse")) by closed;
  rewrite ?(pf_opt_bool _ "--collapse-last" (b "collapse-last")) by closed;
  rewrite ?(pf_opt_bool _ "--desc" (b "desc")) by closed;
  rewrite ?(pf_opt_bool _ "--silent" (b "silent")) by closed;
  rewrite ?(pf_opt_str _ "--internal-template-name" (b "internal-template-name")) by closed.

Ltac local_field :=
  unfold get_str, get_bool, get_int, or_empty; rewrite ?get_oseg; vm_compute;
  repeat match goal with |- context [match ?x with _ => _ end] => is_var x; destruct x end; reflexivity.

Ltac one_field :=
  first [ apply ga_db | apply ga_log | apply ga_fmt | apply ga_depth | apply ga_today | apply ga_config | apply ga_nodb
        | apply ga_begin | apply ga_end | apply env_db | apply env_log | apply env_fmt | apply env_config
        | reflexivity
        | rewrite ga_nocolor; local_field
        | local_field ].

Ltac facts R :=
  repeat rewrite andb_true_iff in R;
  repeat match goal with H : _ /\ _ |- _ => destruct H end;
  repeat match goal with
         | H : negb ?x = true |- _ => apply negb_true_iff in H; try subst x
         | H : is_none ?x = true |- _ => destruct x; [discriminate H|clear H]
         | H : is_nil ?x = true |- _ => destruct x; [clear H|discriminate H]
         end.

(** equality of records, field by field *)
Lemma invocation_eq : forall x0 x1 x2 x3 x4 x5 x6 x7 x8 x9 x10 x11 x12 x13 x14 x15 x16 x17 x18 x19 x20 x21 x22 x23 x24 x25 x26 x27 x28 x29 x30 x31 y0 y1 y2 y3 y4 y5 y6 y7 y8 y9 y10 y11 y12 y13 y14 y15 y16 y17 y18 y19 y20 y21 y22 y23 y24 y25 y26 y27 y28 y29 y30 y31,
  x0 = y0 -> x1 = y1 -> x2 = y2 -> x3 = y3 -> x4 = y4 -> x5 = y5 -> x6 = y6 -> x7 = y7 -> x8 = y8 -> x9 = y9 -> x10 = y10 -> x11 = y11 -> x12 = y12 -> x13 = y13 -> x14 = y14 -> x15 = y15 -> x16 = y16 -> x17 = y17 -> x18 = y18 -> x19 = y19 -> x20 = y20 -> x21 = y21 -> x22 = y22 -> x23 = y23 -> x24 = y24 -> x25 = y25 -> x26 = y26 -> x27 = y27 -> x28 = y28 -> x29 = y29 -> x30 = y30 -> x31 = y31 ->
  Build_invocation x0 x1 x2 x3 x4 x5 x6 x7 x8 x9 x10 x11 x12 x13 x14 x15 x16 x17 x18 x19 x20 x21 x22 x23 x24 x25 x26 x27 x28 x29 x30 x31 = Build_invocation y0 y1 y2 y3 y4 y5 y6 y7 y8 y9 y10 y11 y12 y13 y14 y15 y16 y17 y18 y19 y20 y21 y22 y23 y24 y25 y26 y27 y28 y29 y30 y31.
Proof. intros. subst. reflexivity. Qed.

Lemma leaf_stage : forall i, renderable i = true ->
  leaf_level (ga_of i) (render_env i) (i_e_depth i) (leaf_of_cmd (i_cmd i)) (render_local i ++ render_arg (command_arg (i_cmd i)))
  = ArgvOk i.
Proof.
  intros i R. destruct i as [f_db e_db f_log e_log f_fmt e_fmt f_depth e_depth f_today f_config e_config no_database
    g_begin g_end l_begin l_end g_no_color l_no_color single_food single_element group_food csv no_totals totals_only
    shorten old template collapse collapse_last desc silent cmd].
  unfold renderable, local_ok, no_period, no_reg, no_bal in R.
  cbn [i_f_depth i_e_depth i_cmd i_l_begin i_l_end i_l_no_color i_single_food i_single_element i_group_food i_csv i_no_totals
       i_totals_only i_shorten i_old i_template i_collapse i_collapse_last i_desc i_silent] in R.
  destruct cmd as [| |file|arg| | | | | | | |arg|]; facts R.
  all: unfold leaf_level, render_local.
  all: cbn [i_f_depth i_e_depth i_cmd i_l_begin i_l_end i_l_no_color i_single_food i_single_element i_group_food i_csv i_no_totals
       i_totals_only i_shorten i_old i_template i_collapse i_collapse_last i_desc i_silent
       opt_bool opt_str opt_nonempty app leaf_of_cmd command_arg].
  all: rewrite <- ?app_assoc; seg_rewrites; cbn [app]; rewrite parse_arg; rewrite ?seg_ok; unfold guard.
  all: match goal with |- context [conflict ?t ?a] =>
         first [ rewrite (conflict_within t names_local a) by (first [closed | repeat (apply within_oseg; [closed|]); apply within_nil])
               | rewrite (conflict_within t [b "silent"] a) by (first [closed | repeat (apply within_oseg; [closed|]); apply within_nil]) ] end.
  all: match goal with |- context [get_bool n_help ?a] =>
         replace (get_bool n_help a) with false by (symmetry; local_field) end; cbv iota.
  all: unfold leaf_args.
  all: try match goal with |- match (match ?a with [] => _ | _ :: _ => _ end) with _ => _ end = _ => destruct a as [|c0 r0] end; cbv iota.
  all: cbn [command_arg] in *; try match goal with H : is_help_word ?a = false |- _ => rewrite H end.
  all: apply f_equal; unfold build; apply invocation_eq; one_field.
Qed.

(** * the round trip *)
Lemma renderable_parts : forall i, renderable i = true -> int64_ok (i_f_depth i) = true /\ int64_ok (i_e_depth i) = true.
Proof. intros i R. unfold renderable in R. repeat rewrite andb_true_iff in R. tauto. Qed.

Theorem parse_render_argv : forall i, renderable i = true ->
  parse_argv (fst (render_argv i)) (snd (render_argv i)) = ArgvOk i.
Proof.
  intros i R. destruct (renderable_parts i R) as [R1 R2]. unfold render_argv. cbn [fst snd].
  rewrite root_stage by (try assumption; apply words_nonflag).
  rewrite words_dispatch. apply leaf_stage. exact R.
Qed.

(** the guard is met: an invocation with every kind of setting *)
Example renderable_example :
  let i := {| i_f_db := Some (b "-my food.yaml"); i_e_db := Some []; i_f_log := None; i_e_log := Some (b "log.yaml");
              i_f_fmt := Some (b "2006-01-02"); i_e_fmt := None; i_f_depth := Some (-3)%Z; i_e_depth := Some 9223372036854775807%Z;
              i_f_today := Some (b "2021-03-04"); i_f_config := Some (b "--"); i_e_config := None; i_no_database := true;
              i_g_begin := Some (b "yesterday"); i_g_end := None; i_l_begin := Some (b "-7"); i_l_end := Some [];
              i_g_no_color := true; i_l_no_color := true; i_single_food := b "apple pie"; i_single_element := b "cal";
              i_group_food := true; i_csv := true; i_no_totals := false; i_totals_only := true; i_shorten := true; i_old := false;
              i_template := Some (b "left-aligned"); i_collapse := false; i_collapse_last := false; i_desc := false; i_silent := false;
              i_cmd := CReg |} in
  renderable i = true /\ parse_argv (fst (render_argv i)) (snd (render_argv i)) = ArgvOk i.
Proof. vm_compute. split; reflexivity. Qed.

Example renderable_example_lint :
  let i := {| i_f_db := None; i_e_db := None; i_f_log := None; i_e_log := None; i_f_fmt := None; i_e_fmt := None; i_f_depth := None;
              i_e_depth := None; i_f_today := None; i_f_config := None; i_e_config := Some (b "cfg"); i_no_database := false;
              i_g_begin := None; i_g_end := None; i_l_begin := None; i_l_end := None; i_g_no_color := false; i_l_no_color := false;
              i_single_food := []; i_single_element := []; i_group_food := false; i_csv := false; i_no_totals := false;
              i_totals_only := false; i_shorten := false; i_old := false; i_template := None; i_collapse := false;
              i_collapse_last := false; i_desc := false; i_silent := true; i_cmd := CLint (b "-log.yaml") |} in
  renderable i = true /\ fst (render_argv i) = [b "lint"; b "--silent"; b "--"; b "-log.yaml"]
  /\ parse_argv (fst (render_argv i)) (snd (render_argv i)) = ArgvOk i.
Proof. vm_compute. repeat split; reflexivity. Qed.

(** the guard is needed: an argument that is a help word, a command-level flag the command lacks *)
Example not_renderable_help_word :
  parse_argv [b "lint"; b "help"] [] = ArgvHelp /\ parse_argv [b "bal"; b "--csv"] [] = ArgvUsage.
Proof. vm_compute. split; reflexivity. Qed.
