(** WP22 / C13 at run level, part 1b (beyond the brief): [csv log] on ANY
    readable log file -- malformed lines, headings that are not dates and
    over-long lines included.  The export is the rows of the selected days
    BEFORE the first failure, it still decodes, and the status is that failure. *)
From Coq Require Import Lia ZifyBool ZifyNat ZifyN.
From HP Require Import Base.Bytes Base.Utf8 Base.Num Model.Scanner Model.Parser Model.Elements Model.Resolver
  Model.Dates Model.Tree Model.Writer Model.Csv Model.Reporters Model.Cli
  Spec.RegisterSpec Spec.Agree2Spec
  Proofs.RegisterAssoc Proofs.CsvCodec Proofs.CsvWalk Proofs.CsvRows Proofs.PeriodPick Proofs.CsvRunLog.

Section LogGen.
  Context (NM : Num).
  Notation T := (T NM).

  (** the rows written and the error the walk stops with, on the delivered events *)
  Fixpoint log_walk (toks : list ltoken) (bt et : option time) (evs : list (event NM))
    : list (list bytes) * option cerr :=
    match evs with
    | [] => ([], None)
    | EErr e :: _ => ([], Some (EParse (perr_message e)))
    | ENode n :: r =>
        match parse_date toks (header n) with
        | None => ([], Some EBadDate)
        | Some c =>
            let '(rows, e) := log_walk toks bt et r in
            ((if in_interval bt et (time_of_civil c) then log_day_rows NM c (elems n) else []) ++ rows, e)
        end
    end.

  Lemma log_walk_nonempty : forall toks bt et evs r, In r (fst (log_walk toks bt et evs)) -> r <> [].
  Proof.
    intros toks bt et evs. induction evs as [|[n|e] evs IH]; intros r H; cbn [log_walk fst] in H; try destruct H.
    destruct (parse_date toks (header n)) as [c|]; [|destruct H].
    destruct (log_walk toks bt et evs) as [rows e]. cbn [fst] in *.
    apply in_app_or in H. destruct H as [H|H]; [|apply IH; exact H].
    destruct (in_interval bt et (time_of_civil c)); [|destruct H].
    apply in_map_iff in H. destruct H as (f & <- & _). discriminate.
  Qed.

  (** without failure: the rows of all records *)
  Lemma log_walk_clean : forall toks bt et (ns : list (pnode NM)),
    all_dated NM toks ns -> log_walk toks bt et (map ENode ns) = (log_rows NM toks bt et ns, None).
  Proof.
    intros toks bt et ns H. induction H as [|n ns Hn _ IH]; [reflexivity|].
    cbn [map log_walk]. rewrite IH. unfold log_rows. cbn [flat_map].
    destruct (parse_date toks (header n)) as [c|]; [reflexivity|congruence].
  Qed.

  Lemma csv_log_rows_lognode : forall n c,
    csv_log_rows NM {| ln_time := time_of_civil c; ln_elems := merge_elements NM (elems n); ln_meta := meta n |}
    = log_day_rows NM c (elems n).
  Proof.
    intros n c. unfold csv_log_rows, log_day_rows. cbn [ln_time ln_elems].
    rewrite merge_elements_spec. unfold merged. rewrite map_map. cbn [fst snd].
    rewrite civ_time_of_civil. reflexivity.
  Qed.

  Section Walk.
    Context (pd : nat -> list bytes -> list bytes) (toks : list ltoken) (bt et : option time).
    Notation cb := (walk_cb NM (rep_csv_log NM) pd toks bt et).

    Lemma walk_cb_stops : forall (R : reporter NM), stops_iff_error NM (walk_cb NM R pd toks bt et).
    Proof.
      intros R [[rs i] wr] [n|e]; cbn [walk_cb]; [|reflexivity].
      destruct (parse_date toks (header n)) as [c|]; [|reflexivity].
      destruct (in_interval bt et (time_of_civil c)); [|reflexivity].
      destruct (r_process NM R (pd i) rs _) as [[rs' chunks] perr].
      destruct (bw_chunks wr chunks) as [wr' werr]. cbn [fst snd].
      destruct werr; [reflexivity|]. destruct perr; reflexivity.
    Qed.

    Lemma run_cb_log : forall evs rs i wr, bw_ok wr ->
      bw_ok (snd (fst (run_cb NM cb evs (rs, i, wr))))
      /\ bw_content (snd (fst (run_cb NM cb evs (rs, i, wr))))
         = bw_content wr ++ concat (map csv_record (fst (log_walk toks bt et evs)))
      /\ snd (run_cb NM cb evs (rs, i, wr)) = snd (log_walk toks bt et evs).
    Proof.
      induction evs as [|[n|e] evs IH]; intros rs i wr K.
      - cbn. rewrite app_nil_r. auto.
      - cbn [run_cb log_walk walk_cb].
        destruct (parse_date toks (header n)) as [c|].
        + destruct (in_interval bt et (time_of_civil c)).
          * cbn [rep_csv_log r_process].
            set (ln := {| ln_time := time_of_civil c; ln_elems := merge_elements NM (elems n); ln_meta := meta n |}).
            destruct (bw_chunks_ok (map (fun r => checked (csv_record r)) (csv_log_rows NM ln)) wr K)
              as (w1 & W1 & K1 & C1).
            rewrite W1. destruct (IH tt (S i) w1 K1) as (I1 & I2 & I3).
            destruct (log_walk toks bt et evs) as [rows e] eqn:LW. cbn [fst snd] in *.
            split; [exact I1|]. split; [|exact I3].
            rewrite I2, C1. unfold checked. rewrite map_fst_checked.
            rewrite map_app, concat_app, <- app_assoc. f_equal. f_equal. f_equal. f_equal.
            apply csv_log_rows_lognode.
          * destruct (IH rs i wr K) as (I1 & I2 & I3).
            destruct (log_walk toks bt et evs) as [rows e] eqn:LW. cbn [fst snd app] in *. auto.
        + cbn. rewrite app_nil_r. auto.
      - cbn. rewrite app_nil_r. auto.
    Qed.
  End Walk.

  (** [csv log] on any readable log (regular file without read fault, or the null device; since fix F24 NOT the empty name, which does not open) *)
  Theorem csv_log_run_general : forall (w : world) (i : invocation) (op : options) (o : opened) (data : bytes),
    load w i = inr op -> i_cmd i = CCsvLog ->
    w_sink w = None ->
    open_file w (op_log op) = Some o -> readable_as o data ->
    let lw := log_walk (rc_date (op_rc op)) (op_begin op) (op_end op) (csv_delivered NM data) in
    out_stdout (run NM w i) = concat (map csv_record (fst lw))
    /\ csv_decode (out_stdout (run NM w i)) = Some (fst lw)
    /\ out_status (run NM w i) = status_of (match snd lw with Some e => Some e | None => scan_status data end).
  Proof.
    intros w i op o data Hload Hcmd Hs Ho Hr lw.
    assert (E : out_stdout (run NM w i) = concat (map csv_record (fst lw))
                /\ out_status (run NM w i) = status_of (match snd lw with Some e => Some e | None => scan_status data end)).
    { unfold run. rewrite Hload, Hcmd. unfold run_log. cbn [open_all]. rewrite Ho. cbn [option_map].
      rewrite (proj1 (load_period w i op Hload)).
      unfold walk_and_finish.
      rewrite (parse_opened_readable NM _ o data _ (walk_cb_stops _ _ _ _ (rep_csv_log NM)) Hr).
      destruct (new_writer_ok w Hs) as [K0 C0].
      set (r := run_cb NM (walk_cb NM (rep_csv_log NM) (o_day (w_or w)) (rc_date (op_rc op)) (op_begin op) (op_end op))
                  (csv_delivered NM data) (r_init NM (rep_csv_log NM), O, new_writer w)).
      assert (H : bw_ok (snd (fst r))
                  /\ bw_content (snd (fst r)) = bw_content (new_writer w) ++ concat (map csv_record (fst lw))
                  /\ snd r = snd lw)
        by exact (run_cb_log (o_day (w_or w)) (rc_date (op_rc op)) (op_begin op) (op_end op)
                    (csv_delivered NM data) tt O (new_writer w) K0).
      destruct H as (K1 & C1 & S1). clearbody r. destruct r as [[[rs1 i1] wr1] e1].
      cbn [fst snd] in *. cbn [rep_csv_log r_flush bw_chunks].
      destruct (bw_flush_ok _ K1) as (w2 & F2 & K2 & B2 & G2). rewrite F2.
      unfold finish. cbn [out_stdout out_status].
      rewrite C0 in C1. cbn [app] in C1. split; [rewrite G2, C1; reflexivity|].
      rewrite S1. destruct (snd lw); [reflexivity|]. destruct (scan_status data); reflexivity. }
    destruct E as [E1 E2]. split; [exact E1|]. split; [|exact E2].
    rewrite E1. apply csv_decode_encode. apply log_walk_nonempty.
  Qed.
End LogGen.
