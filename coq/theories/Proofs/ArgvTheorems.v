(** The statements about whole argument vectors: the facts of Proofs/ArgvFlags.v at the front of the
    vector (the flags before the command) and right after the command words (the command's own flags). *)
From Coq Require Import Lia ZifyBool ZifyNat ZifyN.
From HP Require Import Base.Bytes Model.Elements Model.Config Model.Cli Model.Argv.
From HP Require Import Proofs.ArgvBase Proofs.ArgvFlags.

Lemma parse_argv_root : forall argv e, parse_argv argv e =
  match env_int e (b "HR_MAXDEPTH") with Err => ArgvUsage | Unm => ArgvUnmodelled | Val d => root_level e d argv end.
Proof. reflexivity. Qed.

(** * [--flag=false] is the same as no flag *)
Theorem explicit_false_is_absent_global : forall two n fv argv e,
  find_flag tbl_root n = Some KBool -> good_name n = true -> parse_bool fv = Some false ->
  no_alias_in tbl_root n argv ->
  parse_argv (flag_tok two n (Some fv) :: argv) e = parse_argv argv e.
Proof.
  intros two n fv argv e F G B NA. rewrite !parse_argv_root.
  destruct (env_int e (b "HR_MAXDEPTH")); try reflexivity. apply root_explicit_false; assumption.
Qed.

Theorem explicit_false_is_absent_local : forall g ga c ws two n fv l e,
  In ws (paths c) -> framed g ws ga ->
  find_flag (tbl_leaf c) n = Some KBool -> good_name n = true -> parse_bool fv = Some false ->
  mem n n_no_color = false \/ get_bool n_no_color ga = false ->
  no_alias_in (tbl_leaf c) n l ->
  parse_argv (g ++ ws ++ flag_tok two n (Some fv) :: l) e = parse_argv (g ++ ws ++ l) e.
Proof.
  intros g ga c ws two n fv l e Hin Hf F G B NC NA. rewrite !(parse_argv_frame g ga c ws) by assumption.
  unfold root_frame. destruct (env_int e (b "HR_MAXDEPTH")); try reflexivity.
  rewrite leaf_explicit_false by assumption. reflexivity.
Qed.

(** the flags this covers without any side condition on the rest of the vector: the ones with a single name *)
Lemma no_alias_single : forall tbl n l, aliases tbl n = [] -> no_alias_in tbl n l.
Proof. intros tbl n l H m Hm. rewrite H in Hm. destruct Hm. Qed.

Corollary explicit_false_global_flags : forall two n fv argv e,
  In n [b "no-color"; b "no-database"] -> parse_bool fv = Some false ->
  parse_argv (flag_tok two n (Some fv) :: argv) e = parse_argv argv e.
Proof.
  intros two n fv argv e Hn B.
  cbn [In] in Hn. repeat (destruct Hn as [<-|Hn]; [apply explicit_false_is_absent_global; try exact B; try (vm_compute; reflexivity);
    apply no_alias_single; vm_compute; reflexivity|]). destruct Hn.
Qed.

Corollary explicit_false_reg_flags : forall g ga ws two n fv l e,
  In ws (paths FReg) -> framed g ws ga ->
  In n [b "csv"; b "no-totals"; b "totals-only"; b "shorten"; b "use-old-reg-reporter"] -> parse_bool fv = Some false ->
  parse_argv (g ++ ws ++ flag_tok two n (Some fv) :: l) e = parse_argv (g ++ ws ++ l) e.
Proof.
  intros g ga ws two n fv l e Hin Hf Hn B.
  cbn [In] in Hn. repeat (destruct Hn as [<-|Hn]; [apply (explicit_false_is_absent_local g ga FReg); try assumption;
    try (vm_compute; reflexivity); [left; vm_compute; reflexivity|apply no_alias_single; vm_compute; reflexivity]|]). destruct Hn.
Qed.

(** * [--flag=true] is the same as [--flag] *)
Theorem explicit_true_is_given_global : forall two two' n tv argv e,
  find_flag tbl_root n = Some KBool -> good_name n = true -> parse_bool tv = Some true ->
  parse_argv (flag_tok two n (Some tv) :: argv) e = parse_argv (flag_tok two' n None :: argv) e.
Proof.
  intros two two' n tv argv e F G B. rewrite !parse_argv_root. unfold root_level.
  rewrite (pf_explicit_true tbl_root two two') by assumption. reflexivity.
Qed.

Theorem explicit_true_is_given_local : forall g ga c ws two two' n tv l e,
  In ws (paths c) -> framed g ws ga ->
  find_flag (tbl_leaf c) n = Some KBool -> good_name n = true -> parse_bool tv = Some true ->
  parse_argv (g ++ ws ++ flag_tok two n (Some tv) :: l) e = parse_argv (g ++ ws ++ flag_tok two' n None :: l) e.
Proof.
  intros g ga c ws two two' n tv l e Hin Hf F G B. rewrite !(parse_argv_frame g ga c ws) by assumption.
  unfold leaf_level. rewrite (pf_explicit_true (tbl_leaf c) two two') by assumption. reflexivity.
Qed.

(** * the written forms of one name agree: one or two dashes, the value attached with [=] or in the next argument *)
Theorem flag_forms_agree_global : forall two two' n k v argv e,
  find_flag tbl_root n = Some k -> k <> KBool -> good_name n = true ->
  parse_argv (flag_tok two n None :: v :: argv) e = parse_argv (flag_tok two' n (Some v) :: argv) e /\
  parse_argv (flag_tok two n None :: v :: argv) e = parse_argv (flag_tok two' n None :: v :: argv) e.
Proof.
  intros two two' n k v argv e F K G. rewrite !parse_argv_root. unfold root_level.
  rewrite (pf_forms_value tbl_root two two' n k) by assumption.
  rewrite (pf_forms_value tbl_root two' two' n k) by assumption. split; reflexivity.
Qed.

Theorem flag_forms_agree_local : forall g ga c ws two two' n k v l e,
  In ws (paths c) -> framed g ws ga ->
  find_flag (tbl_leaf c) n = Some k -> k <> KBool -> good_name n = true ->
  parse_argv (g ++ ws ++ flag_tok two n None :: v :: l) e = parse_argv (g ++ ws ++ flag_tok two' n (Some v) :: l) e /\
  parse_argv (g ++ ws ++ flag_tok two n None :: v :: l) e = parse_argv (g ++ ws ++ flag_tok two' n None :: v :: l) e.
Proof.
  intros g ga c ws two two' n k v l e Hin Hf F K G. rewrite !(parse_argv_frame g ga c ws) by assumption.
  unfold leaf_level. rewrite (pf_forms_value (tbl_leaf c) two two' n k) by assumption.
  rewrite (pf_forms_value (tbl_leaf c) two' two' n k) by assumption. split; reflexivity.
Qed.

Theorem flag_forms_agree_boolean : forall two two' n v argv e, good_name n = true ->
  parse_argv (flag_tok two n v :: argv) e = parse_argv (flag_tok two' n v :: argv) e.
Proof.
  intros two two' n v argv e G. rewrite !parse_argv_root. unfold root_level.
  rewrite (pf_forms_dashes tbl_root two two') by exact G. reflexivity.
Qed.

(** * a repeated flag: an earlier occurrence does not matter when the same name occurs again *)
Theorem last_occurrence_wins_global : forall two two' n k x y argv e,
  find_flag tbl_root n = Some k -> k <> KBool -> good_name n = true ->
  (k = KInt -> exists z, go_parse_int x = Val z) ->
  parse_argv (flag_tok two n None :: x :: flag_tok two' n None :: y :: argv) e
  = parse_argv (flag_tok two' n None :: y :: argv) e.
Proof.
  intros two two' n k x y argv e F K G I. rewrite !parse_argv_root.
  destruct (env_int e (b "HR_MAXDEPTH")) as [d| |]; try reflexivity.
  assert (V : exists v, forall res, set_value k n x res = cons_asg (n, v) res).
  { destruct k; [congruence|exists (VS x); reflexivity|].
    destruct (I eq_refl) as (z & Hz). exists (VI z). intros res. cbn [set_value]. rewrite Hz. reflexivity. }
  destruct V as (v & Hv).
  apply (root_last_wins e d [flag_tok two n None; x] n v).
  - intros res <-. cbn [app]. rewrite (pf_value_takes_next tbl_root two n k) by assumption. apply Hv.
  - intros ga rest E. rewrite (pf_value_takes_next tbl_root two' n k) in E by assumption.
    apply set_value_ok_inv in E as (v' & a' & _ & -> & _). rewrite used_cons. cbn [fst]. rewrite beq_refl. reflexivity.
Qed.

Theorem last_occurrence_wins_local : forall g ga c ws two two' n k x y l e,
  In ws (paths c) -> framed g ws ga ->
  find_flag (tbl_leaf c) n = Some k -> k <> KBool -> good_name n = true ->
  (k = KInt -> exists z, go_parse_int x = Val z) ->
  parse_argv (g ++ ws ++ flag_tok two n None :: x :: flag_tok two' n None :: y :: l) e
  = parse_argv (g ++ ws ++ flag_tok two' n None :: y :: l) e.
Proof.
  intros g ga c ws two two' n k x y l e Hin Hf F K G I. rewrite !(parse_argv_frame g ga c ws) by assumption.
  unfold root_frame. destruct (env_int e (b "HR_MAXDEPTH")) as [d| |]; try reflexivity.
  assert (V : exists v, forall res, set_value k n x res = cons_asg (n, v) res).
  { destruct k; [congruence|exists (VS x); reflexivity|].
    destruct (I eq_refl) as (z & Hz). exists (VI z). intros res. cbn [set_value]. rewrite Hz. reflexivity. }
  destruct V as (v & Hv).
  enough (Q : leaf_level ga e d c (flag_tok two n None :: x :: flag_tok two' n None :: y :: l)
              = leaf_level ga e d c (flag_tok two' n None :: y :: l)) by (rewrite Q; reflexivity).
  apply (leaf_last_wins ga e d c [flag_tok two n None; x] n v).
  - intros res <-. cbn [app]. rewrite (pf_value_takes_next (tbl_leaf c) two n k) by assumption. apply Hv.
  - intros la rest E. rewrite (pf_value_takes_next (tbl_leaf c) two' n k) in E by assumption.
    apply set_value_ok_inv in E as (v' & a' & _ & -> & _). rewrite used_cons. cbn [fst]. rewrite beq_refl. reflexivity.
Qed.

(** a boolean given several times: the last value *)
Theorem last_occurrence_wins_boolean : forall g ga c ws two two' n v1 bv1 v2 l e,
  In ws (paths c) -> framed g ws ga ->
  find_flag (tbl_leaf c) n = Some KBool -> good_name n = true ->
  match v1 with None => Some true | Some x => parse_bool x end = Some bv1 ->
  match v2 with None => Some true | Some x => parse_bool x end <> None ->
  parse_argv (g ++ ws ++ flag_tok two n v1 :: flag_tok two' n v2 :: l) e
  = parse_argv (g ++ ws ++ flag_tok two' n v2 :: l) e.
Proof.
  intros g ga c ws two two' n v1 bv1 v2 l e Hin Hf F G B1 B2. rewrite !(parse_argv_frame g ga c ws) by assumption.
  unfold root_frame. destruct (env_int e (b "HR_MAXDEPTH")) as [d| |]; try reflexivity.
  enough (Q : leaf_level ga e d c (flag_tok two n v1 :: flag_tok two' n v2 :: l)
              = leaf_level ga e d c (flag_tok two' n v2 :: l)) by (rewrite Q; reflexivity).
  destruct (match v2 with None => Some true | Some x => parse_bool x end) as [bv2|] eqn:E2; [|congruence].
  assert (S : forall two v bv r, match v with None => Some true | Some x => parse_bool x end = Some bv ->
            parse_flags (tbl_leaf c) (flag_tok two n v :: r) = cons_asg (n, VB bv) (parse_flags (tbl_leaf c) r)).
  { intros tw v bv r Hb. cbn [parse_flags]. rewrite classify_flag_tok by exact G. rewrite F, Hb. reflexivity. }
  apply (leaf_last_wins ga e d c [flag_tok two n v1] n (VB bv1)).
  - intros res <-. cbn [app]. apply S. exact B1.
  - intros la rest E. rewrite (S two' v2 bv2 l E2) in E. apply cons_asg_ok_inv in E as (a' & _ & ->).
    rewrite used_cons. cbn [fst]. rewrite beq_refl. reflexivity.
Qed.

(** * an unknown flag *)
Theorem unknown_flag_is_usage_error_global : forall two n v argv e, good_name n = true -> find_flag tbl_root n = None ->
  parse_argv (flag_tok two n v :: argv) e = match env_int e (b "HR_MAXDEPTH") with Unm => ArgvUnmodelled | _ => ArgvUsage end.
Proof.
  intros two n v argv e G F. rewrite parse_argv_root. unfold root_level. rewrite pf_unknown_flag by assumption.
  destruct (env_int e (b "HR_MAXDEPTH")); reflexivity.
Qed.

Theorem unknown_flag_is_usage_error_local : forall g ga c ws two n v l e i,
  In ws (paths c) -> framed g ws ga -> good_name n = true -> find_flag (tbl_leaf c) n = None ->
  parse_argv (g ++ ws ++ flag_tok two n v :: l) e <> ArgvOk i.
Proof.
  intros g ga c ws two n v l e i Hin Hf G F. rewrite (parse_argv_frame g ga c ws) by assumption.
  unfold root_frame, leaf_level. rewrite pf_unknown_flag by assumption.
  destruct (env_int e (b "HR_MAXDEPTH")); try discriminate. unfold guard.
  destruct (conflict tbl_root ga); [discriminate|]. destruct (get_bool n_help ga).
  - destruct (paths_shape c ws Hin) as (w & r & -> & Hw). unfold help_action. destruct w; [discriminate|]. rewrite Hw. discriminate.
  - destruct (get_bool n_version ga); discriminate.
Qed.

(** when the flags before the command are in order it IS urfave's usage error *)
Theorem unknown_flag_is_usage_error_local_exact : forall g ga c ws two n v l e d,
  In ws (paths c) -> framed g ws ga -> good_name n = true -> find_flag (tbl_leaf c) n = None ->
  env_int e (b "HR_MAXDEPTH") = Val d -> conflict tbl_root ga = false -> get_bool n_help ga = false -> get_bool n_version ga = false ->
  parse_argv (g ++ ws ++ flag_tok two n v :: l) e = ArgvUsage.
Proof.
  intros g ga c ws two n v l e d Hin Hf G F E C H V. rewrite (parse_argv_frame g ga c ws) by assumption.
  unfold root_frame, leaf_level, guard. rewrite E, C, H, V. rewrite pf_unknown_flag by assumption. reflexivity.
Qed.

(** * a boolean flag never takes the next argument; a flag with a value always does *)
Theorem boolean_takes_no_argument : forall g ga c ws two n x l e,
  In ws (paths c) -> framed g ws ga -> find_flag (tbl_leaf c) n = Some KBool -> good_name n = true ->
  parse_argv (g ++ ws ++ flag_tok two n None :: x :: l) e
  = root_frame ga ws e (fun d => match cons_asg (n, VB true) (parse_flags (tbl_leaf c) (x :: l)) with
                                 | FUsage => ArgvUsage | FUnm => ArgvUnmodelled
                                 | FOk la rest => guard (tbl_leaf c) la n_help rest (leaf_args ga e d c la rest)
                                 end).
Proof.
  intros g ga c ws two n x l e Hin Hf F G. rewrite (parse_argv_frame g ga c ws) by assumption.
  unfold leaf_level. rewrite pf_boolean_no_argument by assumption. reflexivity.
Qed.

(** in particular a word that spells a boolean after a boolean flag is an argument, not the flag's value *)
Example boolean_word_is_an_argument :
  exists i j, parse_argv [b "lint"; b "--silent"; b "false"] [] = ArgvOk i /\ i_silent i = true /\ i_cmd i = CLint (b "false")
           /\ parse_argv [b "lint"; b "--silent=false"; b "false"] [] = ArgvOk j /\ i_silent j = false /\ i_cmd j = CLint (b "false").
Proof. eexists. eexists. vm_compute. repeat split; reflexivity. Qed.

(** * [--] ends the flags of its level *)
Lemma conflict_nil : forall tbl, conflict tbl [] = false.
Proof.
  intros tbl. unfold conflict. induction tbl as [|f tbl IH]; [reflexivity|]. cbn [existsb]. rewrite IH.
  assert (E : filter (used []) (f_names f) = []) by (induction (f_names f) as [|m ms IHm]; [reflexivity|exact IHm]).
  rewrite E. reflexivity.
Qed.

Theorem double_dash_ends_flags : forall g ga c ws x l e,
  In ws (paths c) -> framed g ws ga -> is_help_word x = false ->
  parse_argv (g ++ ws ++ b "--" :: x :: l) e = root_frame ga ws e (fun d => ArgvOk (build ga e d c [] x)).
Proof.
  intros g ga c ws x l e Hin Hf H. rewrite (parse_argv_frame g ga c ws) by assumption.
  unfold leaf_level. rewrite pf_double_dash. unfold guard, leaf_args. rewrite conflict_nil, H. reflexivity.
Qed.

Theorem double_dash_before_command : forall argv e,
  parse_argv (b "--" :: argv) e =
  match env_int e (b "HR_MAXDEPTH") with Err => ArgvUsage | Unm => ArgvUnmodelled | Val d => root_args [] e d argv end.
Proof. intros argv e. rewrite parse_argv_root. unfold root_level. rewrite pf_double_dash. reflexivity. Qed.

Example double_dash_example :
  exists i, parse_argv [b "lint"; b "--"; b "--silent"] [] = ArgvOk i /\ i_silent i = false /\ i_cmd i = CLint (b "--silent").
Proof. eexists. vm_compute. repeat split; reflexivity. Qed.

(** the frame is met by ordinary vectors *)
Example framed_example :
  framed [b "-d"; b "--csv"; b "--no-color=false"; b "-b=x"] [b "reg"] [(b "d", VS (b "--csv")); (b "no-color", VB false); (b "b", VS (b "x"))]
  /\ In [b "reg"] (paths FReg).
Proof. split; [vm_compute; reflexivity|right; left; reflexivity]. Qed.
