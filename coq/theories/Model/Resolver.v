(** resolver/resolver.go (after the fixes recorded in known_findings.json):
    in-place resolution with a memo of chain heights and an in-progress mark.
    [Resolve] and the deprecated [Resolver.Resolve] share this routine in the
    Go code, so there is one model function.  Model only. *)
From HP Require Import Base.Bytes Base.Num Model.Elements.

Section Resolver.
  Context (NM : Num).
  Notation T := (T NM).
  Notation elements := (elements NM).

  Definition db := list (bytes * elements).        (* DBNodeMap: header -> Elements *)
  Inductive mark := InProgress | Done (h : nat).
  Definition memo := list (bytes * mark).          (* heights *)

  (** DBNodeMap.Push *)
  Definition db_push (d : db) (h : bytes) (els : elements) : db := set h els d.

  (** the loop over the ingredients of a recipe; [rec] is the recursive call at level+1 *)
  Section Loop.
    Context (rec : db * memo -> bytes -> option (nat * (db * memo))).
    Fixpoint ingredients_loop (els : elements) (st : db * memo) (nel : elements) (height : nat)
      : option (nat * (db * memo) * elements) :=
      match els with
      | [] => Some (height, st, nel)
      | (e, v) :: rest =>
          match rec st e with
          | None => None
          | Some (h, st') =>
              let height' := Nat.max height (S h) in
              let nel' := match lookup e (fst st') with
                          | Some found => sum_merge NM nel found v
                          | None => sum_merge NM nel [(e, v)] (one NM)
                          end in
              ingredients_loop rest st' nel' height'
          end
      end.
  End Loop.

  (** resolveNode; [fuel = maxDepth - level]; [None] = "maximum resolution depth reached" *)
  Fixpoint resolve_node (fuel : nat) (st : db * memo) (name : bytes) : option (nat * (db * memo)) :=
    match fuel with
    | O => None                                           (* level >= maxDepth *)
    | S f =>
        match lookup name (fst st) with
        | None => Some (O, st)                            (* not a recipe *)
        | Some els =>
            match lookup name (snd st) with
            | Some InProgress => None                     (* cycle *)
            | Some (Done h) => if Nat.leb fuel h then None else Some (h, st)   (* level+height >= maxDepth *)
            | None =>
                let st1 := (fst st, set name InProgress (snd st)) in
                match ingredients_loop (resolve_node f) els st1 [] O with
                | None => None
                | Some (height, (d, m), nel) =>
                    Some (height, (set name (sort_elements NM nel) d, set name (Done height) m))
                end
            end
        end
    end.

  (** Resolve: [order] is the order in which the runtime's map iteration
      delivers the recipe names *)
  Fixpoint resolve_all (maxdepth : nat) (order : list bytes) (st : db * memo) : option (db * memo) :=
    match order with
    | [] => Some st
    | name :: rest =>
        match resolve_node maxdepth st name with
        | None => None
        | Some (_, st') => resolve_all maxdepth rest st'
        end
    end.

  Definition resolve (maxdepth : nat) (perm : list bytes -> list bytes) (d : db) : option db :=
    option_map fst (resolve_all maxdepth (perm (keys d)) (d, [])).
End Resolver.
