(** The register / summary templates as TEXT: a lexer and parser for the subset
    of Go's [text/template] syntax that the three template constants of the
    program use, an evaluator for the resulting AST over a small universe of
    values, and the binding of the model's [report_item] / [rconfig] to that
    universe (field names as in the Go structs [reportItem], [reportElement],
    [shared.Element], [total]; functions as in [GetTemplateFunctions]).

    Sources transliterated: text/template/parse/lex.go, parse.go (the parts
    named below), text/template/exec.go ([walk], [walkIfOrWith], [walkRange],
    [evalField], [indirect], [isTrue], [printValue]), fmt's [%s] verb with
    width and the [-] flag.

    The parser is written for the syntax, not for the three strings; whatever
    is outside the subset makes it answer [None] (never a different AST):
      - text, actions [{{ ... }}], trim markers [{{- ] and [ -}}];
      - [{{if PIPE}} ... {{end}}]                  (no [else]);
      - [{{range $v := PIPE}} ... {{end}}], [{{range PIPE}} ... {{end}}];
      - PIPE: one command (no [|]): a field chain on dot ([.A.B], [.]) or on a
        variable ([$v.A], [$]), an unsigned decimal integer, an interpreted
        string literal with the escapes backslash-t, -n, -quote, -backslash and printable ASCII, a call
        [f a b ...] whose arguments are such operands, bare function names or
        parenthesised calls [(f a b)].
    [exec_template] answers [None] for a Go execution error, for a function
    name that is not defined (Go's parse-time check) and for what is left
    unmodelled (printf beyond %s / %Ns / %-Ns over strings, widths and lengths
    above [max_small], printing other than strings and integers).
    Model only: executable definitions, no proofs (Proofs/Template*.v). *)
From HP Require Import Base.Bytes Base.Utf8 Base.Num Model.Elements Model.Dates Model.Reporters.
Open Scope N_scope.

(** * Syntax trees *)

Inductive texpr :=
| EField (chain : list bytes)                  (* .A.B ; [EField []] is dot *)
| EVar (v : bytes) (chain : list bytes)        (* $v.A.B ; the name is kept without the dollar, [$] itself is [EVar [] []] *)
| EInt (z : Z)
| EStr (s : bytes)                             (* the UNQUOTED string *)
| ECall (f : bytes) (args : list texpr).       (* f a b, (f a b), or a bare function name *)

Inductive tnode :=
| TText (s : bytes)
| TAction (e : texpr)                                         (* {{ PIPE }}: print the value *)
| TIf (e : texpr) (body : list tnode)
| TRange (v : option bytes) (e : texpr) (body : list tnode).  (* dot is the element in the body; [$v] too when declared *)

(** generic helpers *)
Definition obind {A B} (o : option A) (f : A -> option B) : option B :=
  match o with Some a => f a | None => None end.
Definition option_bind {A B} (o : option A) (f : A -> option B) : option B := obind o f.

Section ListHelpers.
  Context {A B : Type}.
  Section Eqb.
    Context (eqb : A -> A -> bool).
    Fixpoint list_eqb (x y : list A) : bool :=
      match x, y with
      | [], [] => true
      | a :: x', c :: y' => eqb a c && list_eqb x' y'
      | _, _ => false
      end.
  End Eqb.
  Section OMap.
    Context (f : A -> option B).
    (** all-or-nothing map, left to right *)
    Fixpoint omap (l : list A) : option (list B) :=
      match l with
      | [] => Some []
      | x :: r => match f x with
                  | Some y => match omap r with Some ys => Some (y :: ys) | None => None end
                  | None => None
                  end
      end.
  End OMap.
  Section OConcat.
    Context (f : A -> option bytes).
    (** the outputs of [f] on the elements, concatenated; [None] if one fails *)
    Fixpoint omap_concat (l : list A) : option bytes :=
      match l with
      | [] => Some []
      | x :: r => match f x with
                  | Some y => match omap_concat r with Some ys => Some (y ++ ys) | None => None end
                  | None => None
                  end
      end.
  End OConcat.
End ListHelpers.

(** boolean equality of trees (used by the per-run check of the template texts) *)
Fixpoint texpr_eqb (x y : texpr) : bool :=
  match x, y with
  | EField c1, EField c2 => list_eqb beq c1 c2
  | EVar v1 c1, EVar v2 c2 => beq v1 v2 && list_eqb beq c1 c2
  | EInt a, EInt c => Z.eqb a c
  | EStr a, EStr c => beq a c
  | ECall f1 a1, ECall f2 a2 => beq f1 f2 && list_eqb texpr_eqb a1 a2
  | _, _ => false
  end.

Definition ovar_eqb (x y : option bytes) : bool :=
  match x, y with
  | Some a, Some c => beq a c
  | None, None => true
  | _, _ => false
  end.

Fixpoint tnode_eqb (x y : tnode) : bool :=
  match x, y with
  | TText a, TText c => beq a c
  | TAction a, TAction c => texpr_eqb a c
  | TIf e1 b1, TIf e2 b2 => texpr_eqb e1 e2 && list_eqb tnode_eqb b1 b2
  | TRange v1 e1 b1, TRange v2 e2 b2 => ovar_eqb v1 v2 && texpr_eqb e1 e2 && list_eqb tnode_eqb b1 b2
  | _, _ => false
  end.

Definition tmpl_eqb (x y : option (list tnode)) : bool :=
  match x, y with
  | Some a, Some c => list_eqb tnode_eqb a c
  | None, None => true
  | _, _ => false
  end.

(** * Lexer (lex.go) *)

(** lex.go [isSpace]: space, tab, CR, LF; [spaceChars] *)
Definition is_ws (c : N) : bool := (c =? 32) || (c =? 9) || (c =? 13) || (c =? 10).
Definition ws_set : bytes := [32; 9; 13; 10].
(** ASCII part of [isAlphaNumeric]; a byte >= 128 in an action is outside the subset *)
Definition is_alpha (c : N) : bool := (c =? 95) || ((65 <=? c) && (c <=? 90)) || ((97 <=? c) && (c <=? 122)).
Definition is_alnum (c : N) : bool := is_alpha c || is_digit c.

Inductive token :=
| KIdent (w : bytes)
| KField (chain : list bytes)              (* adjacent itemField tokens, merged; [] is itemDot *)
| KVar (v : bytes) (chain : list bytes)    (* itemVariable and the itemFields adjacent to it *)
| KDeclare
| KLParen
| KRParen
| KInt (z : Z)
| KStr (s : bytes).

(** lexer output: a text (already trimmed, never empty) or the tokens of one action *)
Inductive litem := LText (s : bytes) | LAct (ts : list token).

Fixpoint span (p : N -> bool) (s : bytes) : bytes * bytes :=
  match s with
  | c :: r => if p c then let '(a, rest) := span p r in (c :: a, rest) else ([], s)
  | [] => ([], [])
  end.

(** the text up to the next left delimiter, and what follows the delimiter *)
Fixpoint split_text (s : bytes) : bytes * option bytes :=
  match s with
  | [] => ([], None)
  | c :: r =>
      if (c =? 123) && (match r with c' :: _ => c' =? 123 | [] => false end)
      then ([], Some (tl r))
      else let '(t, o) := split_text r in (c :: t, o)
  end.

(** [hasLeftTrimMarker]: a minus and a space right after the left delimiter *)
Definition has_ltrim (s : bytes) : bool :=
  match s with c :: c' :: _ => (c =? 45) && is_ws c' | _ => false end.
(** the right delimiter, and the right delimiter with its trim marker (space, minus) *)
Definition is_rdelim (s : bytes) : bool :=
  match s with c :: c' :: _ => (c =? 125) && (c' =? 125) | _ => false end.
Definition is_rtrim (s : bytes) : bool :=
  match s with c :: c' :: r => is_ws c && (c' =? 45) && is_rdelim r | _ => false end.

(** [command()] wants a space, a right parenthesis or the right delimiter after
    every operand; a [.] there would start a field of the operand *)
Definition ends_operand (s : bytes) : bool :=
  match s with c :: _ => is_ws c || (c =? 41) || is_rdelim s | [] => false end.

(** the [.Field]s glued to a field or a variable *)
Fixpoint lex_chain (fuel : nat) (s : bytes) : option (list bytes * bytes) :=
  match fuel with
  | O => None
  | S f =>
      match s with
      | c :: r =>
          if c =? 46 then
            match r with
            | c1 :: _ =>
                if is_alpha c1 then
                  let '(w, rest) := span is_alnum r in
                  match lex_chain f rest with
                  | Some (ch, rest') => Some (w :: ch, rest')
                  | None => None
                  end
                else None
            | [] => None
            end
          else Some ([], s)
      | [] => Some ([], s)
      end
  end.

(** [lexQuote] + [strconv.Unquote] for the escapes backslash-t, -n, -quote, -backslash and printable ASCII;
    the argument starts after the opening quote *)
Fixpoint lex_string (s : bytes) : option (bytes * bytes) :=
  match s with
  | [] => None
  | c :: r =>
      if c =? 34 then Some ([], r)
      else if c =? 92 then
        match r with
        | e :: r' =>
            let put (x : N) := match lex_string r' with Some (str, rest) => Some (x :: str, rest) | None => None end in
            if e =? 116 then put 9
            else if e =? 110 then put 10
            else if e =? 34 then put 34
            else if e =? 92 then put 92
            else None
        | [] => None
        end
      else if (32 <=? c) && (c <=? 126) then
        match lex_string r with Some (str, rest) => Some (c :: str, rest) | None => None end
      else None
  end.

Definition dec_val (ds : bytes) : Z := Z.of_N (fold_left (fun a c => a * 10 + (c - 48)) ds 0).
(** a leading zero would make the literal octal in Go; from 2^63 on it is no [int] *)
Definition dec_ok (ds : bytes) : bool :=
  (match ds with c :: _ :: _ => negb (c =? 48) | _ => true end) && (dec_val ds <=? 9223372036854775807)%Z.

Definition cons_tok (t : token) (o : option (list token * bool * bytes)) : option (list token * bool * bytes) :=
  match o with Some (ts, tr, rest) => Some (t :: ts, tr, rest) | None => None end.

(** [lexInsideAction] up to and including the right delimiter: the tokens, whether
    the delimiter carried a trim marker, the input after it *)
Fixpoint lex_action (fuel : nat) (s : bytes) : option (list token * bool * bytes) :=
  match fuel with
  | O => None
  | S f =>
      match s with
      | [] => None                                                   (* unclosed action *)
      | c :: r =>
          if is_rtrim s then Some ([], true, skipn 4 s)
          else if is_rdelim s then Some ([], false, skipn 2 s)
          else if is_ws c then lex_action f r
          else if c =? 40 then cons_tok KLParen (lex_action f r)
          else if c =? 41 then
            if ends_operand r then cons_tok KRParen (lex_action f r) else None
          else if c =? 58 then
            match r with
            | e :: r' => if e =? 61 then cons_tok KDeclare (lex_action f r') else None
            | [] => None
            end
          else if c =? 34 then
            match lex_string r with
            | Some (str, rest) => if ends_operand rest then cons_tok (KStr str) (lex_action f rest) else None
            | None => None
            end
          else if c =? 36 then
            let '(w, r1) := span is_alnum r in
            match lex_chain f r1 with
            | Some (ch, rest) =>
                if ends_operand rest || (match rest with c' :: _ => c' =? 58 | [] => false end)
                then cons_tok (KVar w ch) (lex_action f rest) else None
            | None => None
            end
          else if c =? 46 then
            match r with
            | c1 :: _ =>
                if is_alpha c1 then
                  match lex_chain f s with
                  | Some (ch, rest) => if ends_operand rest then cons_tok (KField ch) (lex_action f rest) else None
                  | None => None
                  end
                else if ends_operand r then cons_tok (KField []) (lex_action f r)
                else None
            | [] => None
            end
          else if is_digit c then
            let '(ds, rest) := span is_digit s in
            if ends_operand rest && dec_ok ds then cons_tok (KInt (dec_val ds)) (lex_action f rest) else None
          else if is_alpha c then
            let '(w, rest) := span is_alnum s in
            if ends_operand rest then cons_tok (KIdent w) (lex_action f rest) else None
          else None
      end
  end.

Definition text_item (t : bytes) : list litem := match t with [] => [] | _ => [LText t] end.

(** [lexText] / [lexLeftDelim] / [lexRightDelim]: [{{- ] trims the white space at
    the end of the text before it, [ -}}] the white space at the start of what follows *)
Fixpoint lex_top (fuel : nat) (s : bytes) : option (list litem) :=
  match fuel with
  | O => None
  | S f =>
      let '(txt, o) := split_text s in
      match o with
      | None => Some (text_item txt)
      | Some r =>
          let lt := has_ltrim r in
          let txt' := if lt then trim_right ws_set txt else txt in
          let r' := if lt then skipn 2 r else r in
          match lex_action (S (length r')) r' with
          | Some (toks, rt, rest) =>
              match lex_top f (if rt then trim_left ws_set rest else rest) with
              | Some l => Some (text_item txt' ++ LAct toks :: l)
              | None => None
              end
          | None => None
          end
      end
  end.

Definition lex (s : bytes) : option (list litem) := lex_top (S (length s)) s.

(** * Parser (parse.go) *)

Definition keywords : list bytes :=
  [b "block"; b "break"; b "continue"; b "define"; b "else"; b "end"; b "if"; b "range";
   b "nil"; b "template"; b "with"; b "true"; b "false"].
Definition is_keyword (w : bytes) : bool := existsb (beq w) keywords.

Definition cons_op (e : texpr) (o : option (list texpr * list token)) : option (list texpr * list token) :=
  match o with Some (es, rest) => Some (e :: es, rest) | None => None end.

(** the operands up to (not including) a right parenthesis or the end of the action *)
Fixpoint parse_operands (fuel : nat) (ts : list token) : option (list texpr * list token) :=
  match fuel with
  | O => None
  | S f =>
      match ts with
      | [] => Some ([], [])
      | KRParen :: _ => Some ([], ts)
      | KIdent w :: r => if is_keyword w then None else cons_op (ECall w []) (parse_operands f r)
      | KField ch :: r => cons_op (EField ch) (parse_operands f r)
      | KVar v ch :: r => cons_op (EVar v ch) (parse_operands f r)
      | KInt z :: r => cons_op (EInt z) (parse_operands f r)
      | KStr s :: r => cons_op (EStr s) (parse_operands f r)
      | KDeclare :: _ => None
      | KLParen :: KIdent w :: r =>
          if is_keyword w then None else
          match parse_operands f r with
          | Some (args, KRParen :: r') => cons_op (ECall w args) (parse_operands f r')
          | _ => None
          end
      | KLParen :: _ => None
      end
  end.

(** one command: a call (function name first) or a single operand *)
Definition parse_command (ts : list token) : option texpr :=
  match ts with
  | KIdent w :: r =>
      if is_keyword w then None else
      match parse_operands (S (length r)) r with
      | Some (args, []) => Some (ECall w args)
      | _ => None
      end
  | _ =>
      match parse_operands (S (length ts)) ts with
      | Some ([e], []) => Some e
      | _ => None
      end
  end.

Inductive pitem :=
| PText (s : bytes)
| PAct (e : texpr)
| PIf (e : texpr)
| PRange (v : option bytes) (e : texpr)
| PEnd.

Definition parse_action (ts : list token) : option pitem :=
  match ts with
  | KIdent w :: r =>
      if beq w (b "if") then option_map PIf (parse_command r)
      else if beq w (b "range") then
        match r with
        | KVar v [] :: KDeclare :: r' => option_map (PRange (Some v)) (parse_command r')
        | _ => option_map (PRange None) (parse_command r)
        end
      else if beq w (b "end") then match r with [] => Some PEnd | _ => None end
      else option_map PAct (parse_command ts)            (* the other keywords fail in [parse_command] *)
  | _ => option_map PAct (parse_command ts)
  end.

Definition parse_litem (i : litem) : option pitem :=
  match i with
  | LText s => Some (PText s)
  | LAct ts => parse_action ts
  end.

(** [itemList] / [parseControl]: nesting by a stack of open controls; [cur] is
    the current list, reversed *)
Inductive frame := FIf (e : texpr) | FRange (v : option bytes) (e : texpr).

Fixpoint build (its : list pitem) (cur : list tnode) (stack : list (frame * list tnode)) : option (list tnode) :=
  match its with
  | [] => match stack with [] => Some (rev cur) | _ :: _ => None end
  | PText s :: r => build r (TText s :: cur) stack
  | PAct e :: r => build r (TAction e :: cur) stack
  | PIf e :: r => build r [] ((FIf e, cur) :: stack)
  | PRange v e :: r => build r [] ((FRange v e, cur) :: stack)
  | PEnd :: r =>
      match stack with
      | (FIf e, prev) :: st => build r (TIf e (rev cur) :: prev) st
      | (FRange v e, prev) :: st => build r (TRange v e (rev cur) :: prev) st
      | [] => None
      end
  end.

(** [useVar]: a variable must be declared by an enclosing [range] (or be [$]) *)
Fixpoint expr_vars_ok (vars : list bytes) (e : texpr) : bool :=
  match e with
  | EVar v _ => existsb (beq v) vars
  | ECall _ args => forallb (expr_vars_ok vars) args
  | _ => true
  end.

Fixpoint node_vars_ok (vars : list bytes) (n : tnode) : bool :=
  match n with
  | TText _ => true
  | TAction e => expr_vars_ok vars e
  | TIf e body => expr_vars_ok vars e && forallb (node_vars_ok vars) body
  | TRange v e body =>
      expr_vars_ok vars e
      && forallb (node_vars_ok (match v with Some x => x :: vars | None => vars end)) body
  end.

Definition parse_template (s : bytes) : option (list tnode) :=
  match lex s with
  | None => None
  | Some its =>
      match omap parse_litem its with
      | None => None
      | Some ps =>
          match build ps [] [] with
          | None => None
          | Some ns => if forallb (node_vars_ok [[]]) ns then Some ns else None
          end
      end
  end.

(** * Values and evaluation (exec.go) *)

Section Eval.
  Context (NM : Num).
  Notation T := (T NM).

  Inductive tvalue :=
  | VStr (s : bytes)
  | VNum (x : T)                            (* float64 *)
  | VInt (z : Z)
  | VTime (t : time)
  | VList (l : list tvalue)                 (* slice *)
  | VPtr (p : option tvalue)                (* pointer; [None] is nil *)
  | VRec (fields : list (bytes * tvalue)).  (* struct *)

  (** functions: [None] from the environment = not defined, [None] from the
      function = wrong arity / type (an execution error in Go) or unmodelled *)
  Definition fenv := bytes -> option (list tvalue -> option tvalue).

  (** [evalField]: pointers are dereferenced, nil and non-structs are errors *)
  Fixpoint get_field (f : bytes) (v : tvalue) : option tvalue :=
    match v with
    | VRec fields => lookup f fields
    | VPtr (Some v') => get_field f v'
    | _ => None
    end.

  Fixpoint get_chain (ch : list bytes) (v : tvalue) : option tvalue :=
    match ch with
    | [] => Some v
    | f :: r => obind (get_field f v) (get_chain r)
    end.

  (** [template.IsTrue]; a float is compared with zero in Go, which [Num] cannot
      express for every instance: unmodelled *)
  Definition truth (v : tvalue) : option bool :=
    match v with
    | VStr s => Some (match s with [] => false | _ => true end)
    | VNum _ => None
    | VInt z => Some (negb (Z.eqb z 0))
    | VTime _ => Some true
    | VList l => Some (match l with [] => false | _ => true end)
    | VPtr p => Some (match p with Some _ => true | None => false end)
    | VRec _ => Some true
    end.

  (** [walkRange]: [indirect], then a slice; nil pointers and everything else are errors *)
  Fixpoint range_items (v : tvalue) : option (list tvalue) :=
    match v with
    | VList l => Some l
    | VPtr (Some v') => range_items v'
    | _ => None
    end.

  (** [printValue] for strings and integers *)
  Definition print_value (v : tvalue) : option bytes :=
    match v with
    | VStr s => Some s
    | VInt z => Some (dec_of_Z z)
    | _ => None
    end.

  (** widths and lengths above this are left unmodelled ([None]); they are unary
      numbers ([nat]) in [pad_left] / [truncate_middle], so the executable model
      must not be handed an arbitrary literal (Go: an error from 1e6 for a width,
      from 2^63 for an [int]) *)
  Definition max_small : N := 65535.

  (** [fmt.Sprintf] for literal text and the verbs %s, %Ns, %-Ns with string
      operands (N without a leading zero, at most [max_small]); too few or too
      many operands, any other verb or operand type: [None] *)
  Inductive pstate := PLit | PSpec (lj seen : bool) (w : N).

  Definition pad (lj seen : bool) (w : N) (s : bytes) : bytes :=
    if seen then (if lj then pad_right (N.to_nat w) s else pad_left (N.to_nat w) s) else s.

  Fixpoint printf_go (f : bytes) (st : pstate) (args : list tvalue) : option bytes :=
    match f with
    | [] => match st, args with PLit, [] => Some [] | _, _ => None end
    | c :: r =>
        match st with
        | PLit =>
            if c =? 37 then printf_go r (PSpec false false 0) args
            else option_map (cons c) (printf_go r PLit args)
        | PSpec lj seen w =>
            if c =? 115 then
              match args with
              | VStr s :: args' => option_map (app (pad lj seen w s)) (printf_go r PLit args')
              | _ => None
              end
            else if (c =? 45) && negb lj && negb seen then printf_go r (PSpec true false 0) args
            else if is_digit c && (seen || negb (c =? 48)) then
              let w' := w * 10 + (c - 48) in
              if w' <=? max_small then printf_go r (PSpec lj true w') args else None
            else None
        end
    end.

  Definition printf_fn (args : list tvalue) : option tvalue :=
    match args with
    | VStr f :: rest => option_map VStr (printf_go f PLit rest)
    | _ => None
    end.

  Definition bind_var (v : option bytes) (x : tvalue) (vars : list (bytes * tvalue)) : list (bytes * tvalue) :=
    match v with Some name => (name, x) :: vars | None => vars end.

  Section Exec.
    Context (fe : fenv).

    Fixpoint eval (vars : list (bytes * tvalue)) (dot : tvalue) (e : texpr) {struct e} : option tvalue :=
      match e with
      | EField ch => get_chain ch dot
      | EVar v ch => obind (lookup v vars) (get_chain ch)
      | EInt z => Some (VInt z)
      | EStr s => Some (VStr s)
      | ECall f args =>
          match fe f with
          | Some fn => obind (omap (eval vars dot) args) fn
          | None => None
          end
      end.

    Fixpoint exec_node (vars : list (bytes * tvalue)) (dot : tvalue) (n : tnode) {struct n} : option bytes :=
      match n with
      | TText s => Some s
      | TAction e => obind (eval vars dot e) print_value
      | TIf e body =>
          match obind (eval vars dot e) truth with
          | Some true => omap_concat (exec_node vars dot) body
          | Some false => Some []
          | None => None
          end
      | TRange v e body =>
          match obind (eval vars dot e) range_items with
          | Some l => omap_concat (fun x => omap_concat (exec_node (bind_var v x vars) x) body) l
          | None => None
          end
      end.

    Definition exec_list (vars : list (bytes * tvalue)) (dot : tvalue) (ns : list tnode) : option bytes :=
      omap_concat (exec_node vars dot) ns.

    (** [term()] at parse time: every function named in the template is defined,
        also in branches that are not executed (the function map is given to
        the template before [Parse]; here it arrives with the evaluator) *)
    Fixpoint expr_funcs_ok (e : texpr) : bool :=
      match e with
      | ECall f args => (match fe f with Some _ => true | None => false end) && forallb expr_funcs_ok args
      | _ => true
      end.

    Fixpoint node_funcs_ok (n : tnode) : bool :=
      match n with
      | TText _ => true
      | TAction e => expr_funcs_ok e
      | TIf e body => expr_funcs_ok e && forallb node_funcs_ok body
      | TRange _ e body => expr_funcs_ok e && forallb node_funcs_ok body
      end.

    (** [Parse]'s function check, then [Execute]: dot and [$] are the data *)
    Definition exec_template (ns : list tnode) (data : tvalue) : option bytes :=
      if forallb node_funcs_ok ns then exec_list [([], data)] data ns else None.
  End Exec.

  (** * The binding to the model's data *)

  (** shared.Element *)
  Definition ing_value (i : bytes * T) : tvalue :=
    VRec [(b "Name", VStr (fst i)); (b "Value", VNum (snd i))].

  (** reportElement: the embedded Element's fields are promoted; Ingredients is a slice *)
  Definition elem_value (e : bytes * T * elements NM) : tvalue :=
    let '(name, v, ings) := e in
    VRec [(b "Name", VStr name); (b "Value", VNum v); (b "Ingredients", VList (map ing_value ings))].

  (** total *)
  Definition total_value (t : total_row NM) : tvalue :=
    let '(name, p, n, s) := t in
    VRec [(b "Name", VStr name); (b "Positive", VNum p); (b "Negative", VNum n); (b "Sum", VNum s)].

  (** reportItem: Elements is [&re] (never nil, the slice may be), Totals is nil
      exactly when the totals are off *)
  Definition item_value (it : report_item NM) : tvalue :=
    VRec [(b "Time", VTime (ri_time NM it));
          (b "Elements", VPtr (Some (VList (map elem_value (ri_elements NM it)))));
          (b "Totals", VPtr (option_map (fun ts => VList (map total_value ts)) (ri_totals NM it)))].

  (** GetTemplateFunctions, plus the builtin printf *)
  Definition template_funcs (c : rconfig) : fenv := fun name =>
    if beq name (b "formatDate") then
      Some (fun args => match args with [VTime t] => Some (VStr (fdate c t)) | _ => None end)
    else if beq name (b "formatValue") then
      Some (fun args => match args with [VNum x] => Some (VStr (format_value NM (rc_color c) x)) | _ => None end)
    else if beq name (b "shorten") then
      Some (fun args => match args with
                        | [VStr s; VInt z] =>
                            if ((0 <=? z) && (z <=? Z.of_N max_small))%Z
                            then Some (VStr (shorten (rc_shorten c) s (Z.to_nat z))) else None
                        | _ => None
                        end)
    else if beq name (b "printf") then Some printf_fn
    else None.
End Eval.

Arguments VStr {NM}. Arguments VNum {NM}. Arguments VInt {NM}. Arguments VTime {NM}.
Arguments VList {NM}. Arguments VPtr {NM}. Arguments VRec {NM}.
Arguments expr_funcs_ok {NM}. Arguments node_funcs_ok {NM}.
Arguments eval {NM}. Arguments exec_node {NM}. Arguments exec_list {NM}. Arguments exec_template {NM}.
Arguments get_field {NM}. Arguments get_chain {NM}. Arguments truth {NM}. Arguments range_items {NM}.
Arguments print_value {NM}. Arguments printf_go {NM}. Arguments printf_fn {NM}. Arguments bind_var {NM}.

(** * The three templates: syntax trees and source texts (pinned commit) *)

Definition default_ast : list tnode :=
  [ TAction (ECall (b "formatDate") [EField [b "Time"]]);
    TIf (EField [b "Elements"])
      [ TRange (Some (b "el")) (EField [b "Elements"])
          [ TText [c_lf];
            TAction (ECall (b "printf")
                       [ EStr (c_tab :: b "%-27s :%s");
                         ECall (b "shorten") [EVar (b "el") [b "Name"]; EInt 27];
                         ECall (b "formatValue") [EVar (b "el") [b "Value"]] ]);
            TRange (Some (b "ing")) (EVar (b "el") [b "Ingredients"])
              [ TText [c_lf];
                TAction (ECall (b "printf")
                           [ EStr (c_tab :: c_tab :: b "%20s %s");
                             ECall (b "shorten") [EVar (b "ing") [b "Name"]; EInt 20];
                             ECall (b "formatValue") [EVar (b "ing") [b "Value"]] ]) ] ] ];
    TIf (EField [b "Totals"])
      [ TText (c_lf :: c_tab :: b "-- TOTAL  ----------------------------------------------------");
        TRange (Some (b "total")) (EField [b "Totals"])
          [ TText [c_lf];
            TAction (ECall (b "printf")
                       [ EStr (c_tab :: c_tab :: b "%20s %s %s =%s");
                         ECall (b "shorten") [EVar (b "total") [b "Name"]; EInt 20];
                         ECall (b "formatValue") [EVar (b "total") [b "Positive"]];
                         ECall (b "formatValue") [EVar (b "total") [b "Negative"]];
                         ECall (b "formatValue") [EVar (b "total") [b "Sum"]] ]) ] ];
    TText [c_lf] ].

Definition left_ast : list tnode :=
  [ TAction (ECall (b "formatDate") [EField [b "Time"]]);
    TIf (EField [b "Elements"])
      [ TRange (Some (b "el")) (EField [b "Elements"])
          [ TText [c_lf];
            TAction (ECall (b "printf")
                       [ EStr (b "  %s  %s");
                         ECall (b "formatValue") [EVar (b "el") [b "Value"]];
                         EVar (b "el") [b "Name"] ]);
            TRange (Some (b "ing")) (EVar (b "el") [b "Ingredients"])
              [ TText [c_lf];
                TAction (ECall (b "printf")
                           [ EStr (b "  %s    %s");
                             ECall (b "formatValue") [EVar (b "ing") [b "Value"]];
                             EVar (b "ing") [b "Name"] ]) ] ] ];
    TIf (EField [b "Totals"])
      [ TText (c_lf :: b "------------------------------------------------------- TOTAL --");
        TRange (Some (b "total")) (EField [b "Totals"])
          [ TText [c_lf];
            TAction (ECall (b "printf")
                       [ EStr (b "  %s %s = %s  %s");
                         ECall (b "formatValue") [EVar (b "total") [b "Positive"]];
                         ECall (b "formatValue") [EVar (b "total") [b "Negative"]];
                         ECall (b "formatValue") [EVar (b "total") [b "Sum"]];
                         EVar (b "total") [b "Name"] ]) ] ];
    TText [c_lf] ].

Definition summary_ast : list tnode :=
  [ TAction (ECall (b "formatDate") [EField [b "Time"]]);
    TText (b " :");
    TIf (EField [b "Totals"])
      [ TRange (Some (b "total")) (EField [b "Totals"])
          [ TText [c_lf];
            TAction (ECall (b "formatValue") [EVar (b "total") [b "Positive"]]);
            TText (b " : ");
            TAction (EVar (b "total") [b "Name"]) ] ];
    TText (c_lf :: b "------------");
    TIf (EField [b "Elements"])
      [ TRange (Some (b "el")) (EField [b "Elements"])
          [ TText [c_lf];
            TAction (ECall (b "formatValue") [EVar (b "el") [b "Value"]]);
            TText (b " : ");
            TAction (EVar (b "el") [b "Name"]) ] ];
    TText [c_lf] ].

(** the texts of the three Go constants at the pinned commit; [nl] joins the
    lines of the back-quoted Go string (every line ends with a line feed), the
    backslash-t sequences are two characters, the tab of the TOTAL line of the
    default template is a real tab *)
Definition nl (lines : list bytes) : bytes := flat_map (fun l => l ++ [c_lf]) lines.

Definition default_src : bytes := nl
  [ b "{{formatDate .Time}}";
    b "{{- if .Elements }}";
    b "{{- range $el := .Elements}}";
    b "{{ printf ""\t%-27s :%s"" (shorten $el.Name 27) (formatValue $el.Value) }}";
    b "{{- range $ing := $el.Ingredients}}";
    b "{{ printf ""\t\t%20s %s"" (shorten $ing.Name 20) (formatValue $ing.Value) }}";
    b "{{- end}}";
    b "{{- end}}";
    b "{{- end}}";
    b "{{- if .Totals }}";
    c_tab :: b "-- TOTAL  ----------------------------------------------------";
    b "{{- range $total := .Totals }}";
    b "{{ printf ""\t\t%20s %s %s =%s"" (shorten $total.Name 20) (formatValue $total.Positive) (formatValue $total.Negative) (formatValue $total.Sum) }}";
    b "{{- end}}";
    b "{{- end}}" ].

Definition left_src : bytes := nl
  [ b "{{formatDate .Time}}";
    b "{{- if .Elements }}";
    b "{{- range $el := .Elements}}";
    b "{{ printf ""  %s  %s"" (formatValue $el.Value) $el.Name}}";
    b "{{- range $ing := $el.Ingredients}}";
    b "{{ printf ""  %s    %s"" (formatValue $ing.Value) $ing.Name }}";
    b "{{- end}}";
    b "{{- end}}";
    b "{{- end}}";
    b "{{- if .Totals }}";
    b "------------------------------------------------------- TOTAL --";
    b "{{- range $total := .Totals }}";
    b "{{ printf ""  %s %s = %s  %s"" (formatValue $total.Positive) (formatValue $total.Negative) (formatValue $total.Sum) $total.Name }}";
    b "{{- end}}";
    b "{{- end}}" ].

Definition summary_src : bytes := nl
  [ b "{{formatDate .Time}} :";
    b "{{- if .Totals }}";
    b "{{- range $total := .Totals }}";
    b "{{ formatValue $total.Positive }} : {{ $total.Name }}";
    b "{{- end}}";
    b "{{- end}}";
    b "------------";
    b "{{- if .Elements }}";
    b "{{- range $el := .Elements}}";
    b "{{ formatValue $el.Value }} : {{ $el.Name }}";
    b "{{- end}}";
    b "{{- end}}" ].
