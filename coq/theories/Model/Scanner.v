(** [bufio.Scanner] with [ScanLines] over a reader that may fail.
    Transliterates the observable behaviour established by experiment
    (DESIGN.md, Appendix B): lines are split at LF, one trailing CR is dropped
    (also on a final unterminated line), a final unterminated non-empty chunk
    is a line, a raw line of 65536 bytes or more stops the scan before it with
    ErrTooLong, and a reader that starts failing at offset [k] delivers the
    lines of [data[0..k)] exactly as at end of file and then its error. *)
From HP Require Import Base.Bytes.
Open Scope N_scope.

Inductive read_fault := NoFault | FailAt (k : nat).

Inductive scan_end := ScanEOF | ScanReadErr | ScanTooLong.

Definition max_token : N := 65536.

Definition drop_cr (l : bytes) : bytes :=
  match rev l with
  | c :: r => if c =? c_cr then rev r else l
  | [] => l
  end.

(** raw lines: the pieces between LFs; the boolean says whether the piece was
    terminated by an LF *)
Fixpoint raw_lines (cur : bytes) (s : bytes) : list (bytes * bool) :=
  match s with
  | [] => match cur with [] => [] | _ => [(rev cur, false)] end
  | c :: r => if c =? c_lf then (rev cur, true) :: raw_lines [] r else raw_lines (c :: cur) r
  end.

Fixpoint take_lines (l : list (bytes * bool)) : list bytes * bool (* too long met *) :=
  match l with
  | [] => ([], false)
  | (raw, _) :: r =>
      if max_token <=? lengthN raw then ([], true)
      else let '(ls, tl) := take_lines r in (drop_cr raw :: ls, tl)
  end.

Definition scan (data : bytes) (f : read_fault) : list bytes * scan_end :=
  let seen := match f with NoFault => data | FailAt k => firstn k data end in
  let '(ls, too_long) := take_lines (raw_lines [] seen) in
  (ls, if too_long then ScanTooLong else match f with NoFault => ScanEOF | FailAt _ => ScanReadErr end).
