(** An RFC 4180 reader (records end in LF or CRLF; a field is quoted or not;
    inside quotes a doubled quote is a quote), independent of the writer in
    Reporters.v.  Used to state that the exports read back.  Model only. *)
From HP Require Import Base.Bytes.
Open Scope N_scope.

Inductive csv_mode := FieldStart | Unquoted | Quoted | QuoteSeen.

(** state: finished records (reversed), finished fields of the current record
    (reversed), current field (reversed), mode *)
Fixpoint csv_scan (s : bytes) (rows : list (list bytes)) (fields : list bytes) (cur : bytes) (m : csv_mode)
  : option (list (list bytes)) :=
  match s with
  | [] =>
      match m with
      | Quoted => None                                           (* unterminated quoted field *)
      | FieldStart => match fields with
                      | [] => Some (rev rows)                    (* input ended after a record terminator *)
                      | _ => Some (rev (rev (rev cur :: fields) :: rows))
                      end
      | _ => Some (rev (rev (rev cur :: fields) :: rows))
      end
  | c :: r =>
      match m with
      | FieldStart =>
          if c =? c_quote then csv_scan r rows fields [] Quoted
          else if c =? 44 then csv_scan r rows ([] :: fields) [] FieldStart
          else if c =? c_lf then csv_scan r (rev ([] :: fields) :: rows) [] [] FieldStart
          else if (c =? c_cr) && (match r with c2 :: _ => c2 =? c_lf | [] => false end) then
            match r with _ :: r' => csv_scan r' (rev ([] :: fields) :: rows) [] [] FieldStart | [] => None end
          else csv_scan r rows fields [c] Unquoted
      | Unquoted =>
          if c =? c_quote then None                              (* bare quote in an unquoted field *)
          else if c =? 44 then csv_scan r rows (rev cur :: fields) [] FieldStart
          else if c =? c_lf then csv_scan r (rev (rev cur :: fields) :: rows) [] [] FieldStart
          else if (c =? c_cr) && (match r with c2 :: _ => c2 =? c_lf | [] => false end) then
            match r with _ :: r' => csv_scan r' (rev (rev cur :: fields) :: rows) [] [] FieldStart | [] => None end
          else csv_scan r rows fields (c :: cur) Unquoted
      | Quoted =>
          if c =? c_quote then csv_scan r rows fields cur QuoteSeen
          else csv_scan r rows fields (c :: cur) Quoted
      | QuoteSeen =>
          if c =? c_quote then csv_scan r rows fields (c_quote :: cur) Quoted
          else if c =? 44 then csv_scan r rows (rev cur :: fields) [] FieldStart
          else if c =? c_lf then csv_scan r (rev (rev cur :: fields) :: rows) [] [] FieldStart
          else if (c =? c_cr) && (match r with c2 :: _ => c2 =? c_lf | [] => false end) then
            match r with _ :: r' => csv_scan r' (rev (rev cur :: fields) :: rows) [] [] FieldStart | [] => None end
          else None                                              (* text after a closing quote *)
      end
  end.

Definition csv_decode (s : bytes) : option (list (list bytes)) := csv_scan s [] [] [] FieldStart.
