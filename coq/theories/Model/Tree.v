(** tree_aggregator.go and the three balance printers
    (balance_reporter.go, balance_reporter_collapsed.go after the fix,
    balance_reporter_single.go).  Model only. *)
From HP Require Import Base.Bytes Base.Num Model.Elements.

Section Tree.
  Context (NM : Num).
  Notation T := (T NM).

  (** TreeNode; the [Children] map is an insertion-ordered list with unique names *)
  Inductive tree := Node (name : bytes) (total : T) (children : list tree).

  Definition t_name (t : tree) := match t with Node n _ _ => n end.
  Definition t_total (t : tree) := match t with Node _ x _ => x end.
  Definition t_children (t : tree) := match t with Node _ _ c => c end.

  (** AddDeep below a node whose children are [ch]: every node on the path gets
      [v] (Add: create with [v], or [+= v]) *)
  Fixpoint add_deep (names : list bytes) (v : T) (ch : list tree) : list tree :=
    match names with
    | [] => ch
    | n :: rest =>
        (fix upd (l : list tree) : list tree :=
           match l with
           | [] => [Node n v (add_deep rest v [])]
           | Node n' t c :: r =>
               if beq n n' then Node n' (add NM t v) (add_deep rest v c) :: r
               else Node n' t c :: upd r
           end) ch
    end.

  Definition tree_add (root : tree) (name : bytes) (v : T) : tree :=
    match root with
    | Node n t ch => Node n t (add_deep (split_on c_slash name) v ch)
    end.

  Definition empty_root : tree := Node [] (zero NM) [].

  (** Keys(): the names in the order the runtime delivers them, sorted; then
      [Children[key]] for each.  Applied at every node. *)
  Fixpoint find_child (k : bytes) (l : list tree) : option tree :=
    match l with
    | [] => None
    | t :: r => if beq k (t_name t) then Some t else find_child k r
    end.

  Fixpoint filter_some {A} (l : list (option A)) : list A :=
    match l with [] => [] | Some x :: r => x :: filter_some r | None :: r => filter_some r end.

  Section Ordered.
    Context (perm : list bytes -> list bytes).
    Fixpoint order_tree (t : tree) : tree :=
      match t with
      | Node n x ch =>
          let ch' := map order_tree ch in
          Node n x (filter_some (map (fun k => find_child k ch') (sort_bytes (perm (map t_name ch')))))
      end.
  End Ordered.

  (** a printed row: amount, indentation level, label *)
  Definition row := (T * nat * bytes)%type.

  (** Go's [==] on two amounts: [-0 == +0], NaN is equal to nothing *)
  Definition t_eqb (a b : T) : bool :=
    negb (ltb NM a b) && negb (ltb NM b a) && negb (is_nan NM a) && negb (is_nan NM b).

  (** printNode on a tree whose children are already in key order; the last two
      levels are combined only when the category has no entries of its own
      (its total equals its only child's: fix 3cc3ec3) *)
  Fixpoint print_node (collapse_last : bool) (level : nat) (t : tree) : list row :=
    match t with
    | Node _ _ ch =>
        flat_map (fun child =>
          match child with
          | Node cn ct [] => [(ct, level, cn)]
          | Node cn ct [Node gn gt []] =>
              if (collapse_last && t_eqb gt ct)%bool then [(ct, level, cn ++ [c_slash] ++ gn)]
              else (ct, level, cn) :: print_node collapse_last (S level) child
          | Node cn ct _ => (ct, level, cn) :: print_node collapse_last (S level) child
          end) ch
    end.

  (** printNodeCollapsed: [jump_print level tot acc t] follows the chain of sole
      children from [t] ([acc] = names so far, [tot] = total of the node the
      chain started at), prints the joined row where the chain ends - at a leaf,
      at a fork, or at a category with entries of its own (total different from
      its only child's: fix 3cc3ec3) - and goes on below *)
  Fixpoint jump_print (level : nat) (tot : T) (acc : list bytes) (t : tree) : list row :=
    match t with
    | Node n x ch =>
        (* no [let] for the row-and-children alternative: extraction to OCaml would evaluate it eagerly at every link of a chain *)
        match ch with
        | [only] => if t_eqb (t_total only) x then jump_print level tot (acc ++ [n]) only
                    else (tot, level, join [c_slash] (acc ++ [n])) :: flat_map (fun c => jump_print (S level) (t_total c) [] c) ch
        | _ => (tot, level, join [c_slash] (acc ++ [n])) :: flat_map (fun c => jump_print (S level) (t_total c) [] c) ch
        end
    end.

  Definition print_collapsed (t : tree) : list row :=
    flat_map (fun c => jump_print O (t_total c) [] c) (t_children t).

  Definition render_row (r : row) : bytes :=
    let '(v, level, label) := r in
    brepeat [c_space] (10 - length (fmt_fixed NM 2 v)) ++ fmt_fixed NM 2 v
      ++ b " | " ++ brepeat (b "  ") level ++ label ++ [c_lf].
End Tree.

Arguments Node {NM}.
