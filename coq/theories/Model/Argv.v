(** The argument vector: from [os.Args[1:]] and the environment to the record
    [Cli.invocation], as github.com/urfave/cli/v2 v2.23.7 (app.go, command.go,
    flag.go, flag_string.go, flag_bool.go, flag_int.go, context.go, help.go), Go's
    [flag] package (flag.go, [parseOne]) and the program's flag tables (root.go, the
    [Command()] constructors) and [options.Load] do it.  Exact on the subset described
    below, [ArgvUnmodelled] outside it.  Model only (executable, extracted with
    ExtrOcamlBasic; validated against the real program in extraction/argv_validation).

    Outside the modelled subset ([ArgvUnmodelled]):
    - the command [gen] (no counterpart in [Cli.command]);
    - an integer ([--maxdepth], [HR_MAXDEPTH]) not written as an optional sign and a
      decimal numeral without leading zero: Go reads it with [ParseInt(s, 0, 64)]
      (prefixes 0x 0o 0b 0, underscores).  *)
From HP Require Import Base.Bytes Model.Elements Model.Config Model.Cli.

(** * Go's [flag] package: one argument *)

Inductive tok :=
| TNonFlag                                   (* shorter than two bytes or not starting with '-': ends the flags, stays *)
| TTerm                                      (* exactly "--": ends the flags, is dropped *)
| TBad                                       (* "bad flag syntax": nothing, '-' or '=' after the dashes *)
| TFlag (name : bytes) (val : option bytes). (* -name  --name  -name=val  --name=val *)

(** the first '=' that is not the first byte of the name splits name and value *)
Fixpoint split_eq (s : bytes) : bytes * option bytes :=
  match s with
  | [] => ([], None)
  | c :: r => if c =? 61 then ([], Some r) else let '(n, v) := split_eq r in (c :: n, v)
  end.

Definition flag_name (s : bytes) : tok :=
  match s with
  | [] => TBad
  | c :: r => if (c =? 45) || (c =? 61) then TBad else let '(n, v) := split_eq r in TFlag (c :: n) v
  end.

Definition classify (s : bytes) : tok :=
  match s with
  | c1 :: c2 :: r =>
      if c1 =? 45 then
        if c2 =? 45 then match r with [] => TTerm | _ :: _ => flag_name r end
        else flag_name (c2 :: r)
      else TNonFlag
  | _ => TNonFlag
  end.

(** [strconv.ParseBool] *)
Definition parse_bool (v : bytes) : option bool :=
  if existsb (beq v) [b "1"; b "t"; b "T"; b "TRUE"; b "true"; b "True"] then Some true
  else if existsb (beq v) [b "0"; b "f"; b "F"; b "FALSE"; b "false"; b "False"] then Some false
  else None.

(** [strconv.ParseInt(s, 0, 64)]: exact on an optional sign followed by "0" or by a decimal
    numeral that starts with 1-9; a value that starts with 0 and goes on, or has an underscore
    among its digits, is declined (other bases / digit separators); the rest is a syntax error;
    a numeral outside int64 is a range error *)
Definition go_parse_int (v : bytes) : tri Z :=
  let '(neg, ds) := match v with
                    | c :: r => if c =? 45 then (true, r) else if c =? 43 then (false, r) else (false, v)
                    | [] => (false, v)
                    end in
  match ds with
  | [] => Err
  | c :: r =>
      if c =? 48 then match r with [] => Val 0%Z | _ :: _ => Unm end
      else if is_digit c then
        if forallb is_digit r then
          let z := if neg then (- dec_val ds)%Z else dec_val ds in
          if ((min_int64 <=? z) && (z <=? max_int64))%Z then Val z else Err
        else if forallb (fun x => is_digit x || (x =? 95)) r then Unm else Err
      else Err
  end.

(** * flag tables *)
Inductive fkind := KBool | KStr | KInt.
Record fspec := { f_names : list bytes (* Name, then Aliases *); f_kind : fkind }.
Definition fl (k : fkind) (names : list bytes) : fspec := {| f_names := names; f_kind := k |}.

Definition mem (n : bytes) (names : list bytes) : bool := existsb (beq n) names.

Fixpoint find_flag (tbl : list fspec) (n : bytes) : option fkind :=
  match tbl with
  | [] => None
  | f :: r => if mem n (f_names f) then Some (f_kind f) else find_flag r n
  end.

(** the help flag urfave appends to every level, the version flag of the root *)
Definition n_help : list bytes := [b "help"; b "h"].
Definition n_version : list bytes := [b "version"; b "v"].
Definition help_spec : fspec := fl KBool [b "help"; b "h"].

(** root.go *)
Definition tbl_root : list fspec :=
  [ fl KStr [b "begin"; b "b"]; fl KStr [b "end"; b "e"]; fl KStr [b "today"];
    fl KStr [b "database"; b "d"]; fl KStr [b "logfile"; b "l"]; fl KStr [b "config"; b "c"];
    fl KStr [b "date-format"]; fl KInt [b "maxdepth"]; fl KBool [b "no-color"]; fl KBool [b "no-database"];
    help_spec; fl KBool [b "version"; b "v"] ].

Inductive leaf :=
| FReg | FBal | FLint | FElementTotal | FUnresolved | FQuantity | FTotals
| FCsvLog | FCsvDb | FCsvDbResolved | FStats | FSummary | FPrint.

(** register.go, balance.go, lint.go, report.go, csv.go, print.go (stats, summary: no flags) *)
Definition tbl_leaf (c : leaf) : list fspec :=
  match c with
  | FReg => [ fl KStr [b "begin"; b "b"]; fl KStr [b "end"; b "e"]; fl KStr [b "single-food"; b "f"];
              fl KStr [b "single-element"; b "s"]; fl KBool [b "group-food"; b "g"]; fl KBool [b "csv"];
              fl KBool [b "no-color"]; fl KBool [b "no-totals"]; fl KBool [b "totals-only"]; fl KBool [b "shorten"];
              fl KBool [b "use-old-reg-reporter"]; fl KStr [b "internal-template-name"]; help_spec ]
  | FBal => [ fl KStr [b "begin"; b "b"]; fl KStr [b "end"; b "e"]; fl KBool [b "collapse-last"];
              fl KBool [b "collapse"; b "c"]; fl KStr [b "single-element"; b "s"]; help_spec ]
  | FLint => [ fl KBool [b "silent"; b "s"]; help_spec ]
  | FElementTotal | FQuantity => [ fl KBool [b "desc"]; help_spec ]
  | FCsvLog | FPrint => [ fl KStr [b "begin"; b "b"]; fl KStr [b "end"; b "e"]; help_spec ]
  | FUnresolved | FTotals | FCsvDb | FCsvDbResolved | FStats | FSummary => [ help_spec ]
  end.

(** a level that has only the help flag: [report], [csv], the [help] command *)
Definition tbl_help : list fspec := [ help_spec ].

(** * [FlagSet.Parse]: the flags of one level *)
Inductive fval := VB (v : bool) | VS (s : bytes) | VI (z : Z).
Definition asg := list (bytes * fval).          (* name as written (without dashes), value; in order *)

Inductive fres := FOk (a : asg) (rest : list bytes) | FUsage | FUnm.

Definition cons_asg (e : bytes * fval) (r : fres) : fres :=
  match r with FOk a rest => FOk (e :: a) rest | FUsage => FUsage | FUnm => FUnm end.

(** [Value.Set] of a flag that takes a value *)
Definition set_value (k : fkind) (n x : bytes) (r : fres) : fres :=
  match k with
  | KInt => match go_parse_int x with Val z => cons_asg (n, VI z) r | Err => FUsage | Unm => FUnm end
  | _ => cons_asg (n, VS x) r
  end.

Fixpoint parse_flags (tbl : list fspec) (args : list bytes) : fres :=
  match args with
  | [] => FOk [] []
  | s :: r =>
      match classify s with
      | TNonFlag => FOk [] (s :: r)
      | TTerm => FOk [] r
      | TBad => FUsage
      | TFlag n v =>
          match find_flag tbl n with
          | None => FUsage                                   (* flag provided but not defined *)
          | Some KBool =>                                      (* never takes the next argument *)
              match (match v with None => Some true | Some x => parse_bool x end) with
              | None => FUsage                                 (* invalid boolean value *)
              | Some bv => cons_asg (n, VB bv) (parse_flags tbl r)
              end
          | Some k =>
              match v with
              | Some x => set_value k n x (parse_flags tbl r)
              | None =>
                  match r with
                  | [] => FUsage                               (* flag needs an argument *)
                  | x :: r' => set_value k n x (parse_flags tbl r')
                  end
              end
          end
      end
  end.

(** [normalizeFlags]: "Cannot use two forms of the same flag" *)
Definition used (a : asg) (n : bytes) : bool := existsb (fun e => beq (fst e) n) a.
Definition conflict (tbl : list fspec) (a : asg) : bool :=
  existsb (fun f => Nat.ltb 1 (length (filter (used a) (f_names f)))) tbl.

(** the value a flag ends up with: its last occurrence under any of its names *)
Fixpoint get (names : list bytes) (a : asg) : option fval :=
  match a with
  | [] => None
  | e :: r => match get names r with
              | Some v => Some v
              | None => if mem (fst e) names then Some (snd e) else None
              end
  end.
Definition get_bool (names : list bytes) (a : asg) : bool := match get names a with Some (VB v) => v | _ => false end.
Definition get_str (names : list bytes) (a : asg) : option bytes := match get names a with Some (VS s) => Some s | _ => None end.
Definition get_int (names : list bytes) (a : asg) : option Z := match get names a with Some (VI z) => Some z | _ => None end.
Definition or_empty (o : option bytes) : bytes := match o with Some s => s | None => [] end.

(** * results *)
Inductive argv_result :=
| ArgvOk (i : invocation)   (* an action of the program runs with these settings (its own checks - no file, no element name - included) *)
| ArgvHelp                  (* urfave answers itself: help or version text, exit status 0 *)
| ArgvUsage                 (* urfave's own error: unknown flag, missing value, bad boolean / integer, two forms of a flag, no help topic *)
| ArgvUnmodelled.

(** * help *)
Definition is_help_word (x : bytes) : bool := mem x n_help.

(** [helpCommand.Action] in a context whose command has the sub-commands [children] *)
Definition help_action (children : list bytes) (args : list bytes) : argv_result :=
  match args with
  | [] => ArgvHelp
  | x :: _ => match x with
              | [] => ArgvHelp
              | _ :: _ => if mem x children then ArgvHelp else ArgvUsage        (* No help topic for 'x' *)
              end
  end.

(** the [help] command run below a command whose sub-commands are [pc]; itself a command with the help flag and the sub-command [help] *)
Fixpoint help_level (fuel : nat) (pc : list bytes) (args : list bytes) : argv_result :=
  match parse_flags tbl_help args with
  | FUsage => ArgvUsage
  | FUnm => ArgvUnmodelled
  | FOk a rest =>
      if conflict tbl_help a then ArgvUsage
      else if get_bool n_help a then help_action pc rest
      else match rest with
           | x :: r =>
               if is_help_word x then
                 match fuel with O => ArgvUnmodelled | S f => help_level f n_help r end
               else help_action pc rest
           | [] => help_action pc rest
           end
  end.

(** * the command tree *)
Definition children_root : list bytes :=
  [b "register"; b "reg"; b "balance"; b "bal"; b "lint"; b "report"; b "csv"; b "stats"; b "summary"; b "print"; b "gen"; b "help"; b "h"].
Definition children_report : list bytes := [b "element-total"; b "unresolved"; b "quantity"; b "totals"; b "help"; b "h"].
Definition children_csv : list bytes := [b "log"; b "database"; b "database-resolved"; b "help"; b "h"].

Definition leaf_of_root (x : bytes) : option leaf :=
  if mem x [b "register"; b "reg"] then Some FReg
  else if mem x [b "balance"; b "bal"] then Some FBal
  else if beq x (b "lint") then Some FLint
  else if beq x (b "stats") then Some FStats
  else if beq x (b "summary") then Some FSummary
  else if beq x (b "print") then Some FPrint
  else None.

Definition leaf_of_report (x : bytes) : option leaf :=
  if beq x (b "element-total") then Some FElementTotal
  else if beq x (b "unresolved") then Some FUnresolved
  else if beq x (b "quantity") then Some FQuantity
  else if beq x (b "totals") then Some FTotals
  else None.

Definition leaf_of_csv (x : bytes) : option leaf :=
  if beq x (b "log") then Some FCsvLog
  else if beq x (b "database") then Some FCsvDb
  else if beq x (b "database-resolved") then Some FCsvDbResolved
  else None.

Definition command_of (c : leaf) (arg : bytes) : command :=
  match c with
  | FReg => CReg | FBal => CBal | FLint => CLint arg | FElementTotal => CElementTotal arg
  | FUnresolved => CUnresolved | FQuantity => CQuantity | FTotals => CTotals
  | FCsvLog => CCsvLog | FCsvDb => CCsvDb | FCsvDbResolved => CCsvDbResolved
  | FStats => CStats | FSummary => CSummary arg | FPrint => CPrint
  end.

(** * the environment *)
Definition env := list (bytes * bytes).

(** an IntFlag: a variable that is set but empty counts as not set; a value that is not an integer is an error of [Apply] *)
Definition env_int (e : env) (k : bytes) : tri (option Z) :=
  match lookup k e with
  | None => Val None
  | Some [] => Val None
  | Some v => match go_parse_int v with Val z => Val (Some z) | Err => Err | Unm => Unm end
  end.

(** * options.Load: which flag of which level fills which field *)
Definition n_begin := [b "begin"; b "b"].
Definition n_end := [b "end"; b "e"].
Definition n_no_color := [b "no-color"].

(** [ga]: the flags before the command; [la]: the flags of the command itself.  A local table has only the
    flags of its command, so a field whose flag the command lacks stays at its default.
    [populateReporter] walks the lineage from the root to the command and lets every level that has
    the flag SET overwrite the colour: a command-level [--no-color=false] switches the colour on again
    after a global [--no-color]; the record has no field for that, the global field is cleared instead
    (same loaded options). *)
Definition build (ga : asg) (e : env) (edepth : option Z) (c : leaf) (la : asg) (arg : bytes) : invocation :=
  {| i_f_db := get_str [b "database"; b "d"] ga; i_e_db := lookup (b "HR_DATABASE") e;
     i_f_log := get_str [b "logfile"; b "l"] ga; i_e_log := lookup (b "HR_LOGFILE") e;
     i_f_fmt := get_str [b "date-format"] ga; i_e_fmt := lookup (b "HR_DATE_FORMAT") e;
     i_f_depth := get_int [b "maxdepth"] ga; i_e_depth := edepth;
     i_f_today := get_str [b "today"] ga;
     i_f_config := get_str [b "config"; b "c"] ga; i_e_config := lookup (b "HR_CONFIG") e;
     i_no_database := get_bool [b "no-database"] ga;
     i_g_begin := get_str n_begin ga; i_g_end := get_str n_end ga;
     i_l_begin := get_str n_begin la; i_l_end := get_str n_end la;
     i_g_no_color := get_bool n_no_color ga && negb (match get n_no_color la with Some (VB false) => true | _ => false end);
     i_l_no_color := get_bool n_no_color la;
     i_single_food := or_empty (get_str [b "single-food"; b "f"] la);
     i_single_element := or_empty (get_str [b "single-element"; b "s"] la);
     i_group_food := get_bool [b "group-food"; b "g"] la;
     i_csv := get_bool [b "csv"] la;
     i_no_totals := get_bool [b "no-totals"] la;
     i_totals_only := get_bool [b "totals-only"] la;
     i_shorten := get_bool [b "shorten"] la;
     i_old := get_bool [b "use-old-reg-reporter"] la;
     i_template := get_str [b "internal-template-name"] la;
     i_collapse := get_bool [b "collapse"; b "c"] la;
     i_collapse_last := get_bool [b "collapse-last"] la;
     i_desc := get_bool [b "desc"] la;
     i_silent := get_bool [b "silent"; b "s"] la;
     i_cmd := command_of c arg |}.

(** after the flags of a level are read: [normalizeFlags], then [checkHelp], then the level's own business [k] *)
Definition guard (tbl : list fspec) (a : asg) (children rest : list bytes) (k : argv_result) : argv_result :=
  if conflict tbl a then ArgvUsage                         (* Cannot use two forms of the same flag *)
  else if get_bool n_help a then help_action children rest
  else k.

(** * one command with an action ([Command.Run] below the root) *)
(** lint, element-total: [Before] refuses an empty first argument before the [help] sub-command is looked for;
    that refusal is the program's, not urfave's: the invocation with the empty argument *)
Definition leaf_args (ga : asg) (e : env) (edepth : option Z) (c : leaf) (la : asg) (rest : list bytes) : argv_result :=
  match rest with
  | [] => ArgvOk (build ga e edepth c la [])
  | x :: r => if is_help_word x then help_level (length r) n_help r else ArgvOk (build ga e edepth c la x)
  end.

Definition leaf_level (ga : asg) (e : env) (edepth : option Z) (c : leaf) (args : list bytes) : argv_result :=
  match parse_flags (tbl_leaf c) args with
  | FUsage => ArgvUsage
  | FUnm => ArgvUnmodelled
  | FOk la rest => guard (tbl_leaf c) la n_help rest (leaf_args ga e edepth c la rest)
  end.

(** [report], [csv]: no action of their own *)
Definition group_args (ga : asg) (e : env) (edepth : option Z) (children : list bytes)
                      (sub : bytes -> option leaf) (rest : list bytes) : argv_result :=
  match rest with
  | [] => ArgvHelp
  | x :: r =>
      match sub x with
      | Some c => leaf_level ga e edepth c r
      | None => if is_help_word x then help_level (length r) children r else help_action children rest
      end
  end.

Definition group_level (ga : asg) (e : env) (edepth : option Z) (children : list bytes)
                       (sub : bytes -> option leaf) (args : list bytes) : argv_result :=
  match parse_flags tbl_help args with
  | FUsage => ArgvUsage
  | FUnm => ArgvUnmodelled
  | FOk a rest => guard tbl_help a children rest (group_args ga e edepth children sub rest)
  end.

(** * [App.Run] *)
Definition root_args (ga : asg) (e : env) (edepth : option Z) (rest : list bytes) : argv_result :=
  match rest with
  | [] => ArgvHelp
  | x :: r =>
      match leaf_of_root x with
      | Some c => leaf_level ga e edepth c r
      | None =>
          if beq x (b "report") then group_level ga e edepth children_report leaf_of_report r
          else if beq x (b "csv") then group_level ga e edepth children_csv leaf_of_csv r
          else if beq x (b "gen") then ArgvUnmodelled
          else if is_help_word x then help_level (length r) children_root r
          else help_action children_root rest
      end
  end.

Definition root_level (e : env) (edepth : option Z) (argv : list bytes) : argv_result :=
  match parse_flags tbl_root argv with
  | FUsage => ArgvUsage
  | FUnm => ArgvUnmodelled
  | FOk ga rest =>
      guard tbl_root ga children_root rest (if get_bool n_version ga then ArgvHelp else root_args ga e edepth rest)
  end.

(** the flag set of the root is built first ([Apply]: the environment), then the arguments are read *)
Definition parse_argv (argv : list bytes) (e : env) : argv_result :=
  match env_int e (b "HR_MAXDEPTH") with
  | Err => ArgvUsage                       (* could not parse ... as int value from environment variable *)
  | Unm => ArgvUnmodelled
  | Val edepth => root_level e edepth argv
  end.

(** * the rendering the test harness uses (harness/py/hv/run.py, [argv_env]) *)
Definition opt_str (flag : string) (o : option bytes) : list bytes :=
  match o with Some v => [b flag; v] | None => [] end.
Definition opt_int (flag : string) (o : option Z) : list bytes :=
  match o with Some z => [b flag; dec_of_Z z] | None => [] end.
Definition opt_bool (flag : string) (v : bool) : list bytes := if v then [b flag] else [].
Definition opt_nonempty (flag : string) (s : bytes) : list bytes :=
  match s with [] => [] | _ :: _ => [b flag; s] end.

Definition command_words (c : command) : list bytes :=
  match c with
  | CReg => [b "reg"] | CBal => [b "bal"] | CLint _ => [b "lint"]
  | CElementTotal _ => [b "report"; b "element-total"] | CUnresolved => [b "report"; b "unresolved"]
  | CQuantity => [b "report"; b "quantity"] | CTotals => [b "report"; b "totals"]
  | CCsvLog => [b "csv"; b "log"] | CCsvDb => [b "csv"; b "database"] | CCsvDbResolved => [b "csv"; b "database-resolved"]
  | CStats => [b "stats"] | CSummary _ => [b "summary"] | CPrint => [b "print"]
  end.

Definition command_arg (c : command) : bytes :=
  match c with CLint a | CElementTotal a | CSummary a => a | _ => [] end.

Definition render_arg (a : bytes) : list bytes :=
  match a with
  | [] => []
  | c :: _ => if c =? 45 then [b "--"; a] else [a]
  end.

Definition render_global (i : invocation) : list bytes :=
  opt_str "-d" (i_f_db i) ++ opt_str "-l" (i_f_log i) ++ opt_str "--date-format" (i_f_fmt i)
  ++ opt_int "--maxdepth" (i_f_depth i) ++ opt_str "--today" (i_f_today i) ++ opt_str "-c" (i_f_config i)
  ++ opt_bool "--no-database" (i_no_database i) ++ opt_str "-b" (i_g_begin i) ++ opt_str "-e" (i_g_end i)
  ++ opt_bool "--no-color" (i_g_no_color i).

Definition render_local (i : invocation) : list bytes :=
  opt_str "-b" (i_l_begin i) ++ opt_str "-e" (i_l_end i) ++ opt_bool "--no-color" (i_l_no_color i)
  ++ opt_nonempty "-f" (i_single_food i) ++ opt_nonempty "-s" (i_single_element i)
  ++ opt_bool "-g" (i_group_food i) ++ opt_bool "--csv" (i_csv i) ++ opt_bool "--no-totals" (i_no_totals i)
  ++ opt_bool "--totals-only" (i_totals_only i) ++ opt_bool "--shorten" (i_shorten i)
  ++ opt_bool "--use-old-reg-reporter" (i_old i) ++ opt_bool "--collapse" (i_collapse i)
  ++ opt_bool "--collapse-last" (i_collapse_last i) ++ opt_bool "--desc" (i_desc i) ++ opt_bool "--silent" (i_silent i)
  ++ opt_str "--internal-template-name" (i_template i).

Definition opt_env (name : string) (o : option bytes) : env :=
  match o with Some v => [(b name, v)] | None => [] end.

Definition render_env (i : invocation) : env :=
  opt_env "HR_DATABASE" (i_e_db i) ++ opt_env "HR_LOGFILE" (i_e_log i) ++ opt_env "HR_DATE_FORMAT" (i_e_fmt i)
  ++ opt_env "HR_MAXDEPTH" (option_map dec_of_Z (i_e_depth i)) ++ opt_env "HR_CONFIG" (i_e_config i).

(** (the harness adds TZ, which belongs to the world, not to the invocation) *)
Definition render_argv (i : invocation) : list bytes * env :=
  (render_global i ++ command_words (i_cmd i) ++ render_local i ++ render_arg (command_arg (i_cmd i)), render_env i).

(** the invocations the rendering is meant for: the integers fit Go's int, the argument is not a word urfave takes
    for its help command, and the flags of the command level are flags the command has *)
Definition is_none {A} (o : option A) : bool := match o with None => true | Some _ => false end.
Definition is_nil (s : bytes) : bool := match s with [] => true | _ :: _ => false end.
Definition int64_ok (o : option Z) : bool :=
  match o with None => true | Some z => ((min_int64 <=? z) && (z <=? max_int64))%Z end.
Definition no_period (i : invocation) : bool := is_none (i_l_begin i) && is_none (i_l_end i).
Definition no_reg (i : invocation) : bool :=
  negb (i_l_no_color i) && is_nil (i_single_food i) && negb (i_group_food i) && negb (i_csv i) && negb (i_no_totals i)
  && negb (i_totals_only i) && negb (i_shorten i) && negb (i_old i) && is_none (i_template i).
Definition no_bal (i : invocation) : bool := negb (i_collapse i) && negb (i_collapse_last i).
Definition local_ok (i : invocation) : bool :=
  match i_cmd i with
  | CReg => no_bal i && negb (i_desc i) && negb (i_silent i)
  | CBal => no_reg i && negb (i_desc i) && negb (i_silent i)
  | CLint _ => no_period i && no_reg i && is_nil (i_single_element i) && no_bal i && negb (i_desc i)
  | CElementTotal _ | CQuantity => no_period i && no_reg i && is_nil (i_single_element i) && no_bal i && negb (i_silent i)
  | CCsvLog | CPrint => no_reg i && is_nil (i_single_element i) && no_bal i && negb (i_desc i) && negb (i_silent i)
  | CUnresolved | CTotals | CCsvDb | CCsvDbResolved | CStats | CSummary _ =>
      no_period i && no_reg i && is_nil (i_single_element i) && no_bal i && negb (i_desc i) && negb (i_silent i)
  end.
Definition renderable (i : invocation) : bool :=
  int64_ok (i_f_depth i) && int64_ok (i_e_depth i) && negb (is_help_word (command_arg (i_cmd i))) && local_ok i.

(** * the program on an argument vector *)
Section Run.
  Context (NM : Num.Num).
  Definition run_argv (w : world) (argv : list bytes) (e : env) : option outcome :=
    match parse_argv argv e with ArgvOk i => Some (run NM w i) | _ => None end.
End Run.
