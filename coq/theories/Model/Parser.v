(** parser/parser.go [ParseStreamCallback], line by line.  Model only.

    The Go function interleaves scanning, classification and callback calls.
    The callback cannot influence what is parsed, only stop the walk, so the
    model separates (1) [parse_lines]: the sequence of callback events the
    lines give rise to, with the pending last record kept apart because the Go
    code treats it differently (after the loop, stop flag ignored, and not at
    all when the scanner reports an error), and (2) [drive]: the callback
    protocol. *)
From HP Require Import Base.Bytes Base.Utf8 Base.Num Model.Scanner.
Open Scope N_scope.

Section Parser.
  Context (NM : Num).
  Notation T := (T NM).

  (** constants of parser.go *)
  Definition trim_text : bytes := [c_tab; c_space; c_lf; c_colon; c_quote; c_dash].   (* tab space LF colon quote dash *)
  Definition trim_qty : bytes := [c_tab; c_space; c_lf; c_colon; c_quote].   (* tab space LF colon quote *)
  Definition comment_char : N := c_hash.
  Definition blanks : bytes := [c_tab; c_space].   (* tab space *)

  Record pnode := { header : bytes; elems : list (bytes * T); meta : option (list (bytes * bytes)) }.

  Inductive perr :=
  | BadSyntax (line : N) (raw : bytes)
  | Conversion (txt : bytes) (line : N) (raw : bytes).

  Inductive event := ENode (n : pnode) | EErr (e : perr).

  (** getMetadataPair *)
  Definition metadata_pair (line : bytes) : bytes * bytes :=
    let t := trim_space (trim [c_hash] line) in
    match index_byte c_colon t with
    | Some i => (trim [c_hash; c_space; c_tab] (firstn i t), trim_space (skipn (S i) t))
    | None => ([], t)
    end.

  Definition add_meta (n : pnode) (mp : bytes * bytes) : pnode :=
    {| header := header n; elems := elems n;
       meta := Some (match meta n with None => [mp] | Some l => l ++ [mp] end) |}.

  Definition add_elem (n : pnode) (name : bytes) (v : T) : pnode :=
    {| header := header n; elems := elems n ++ [(name, v)]; meta := meta n |}.

  Definition new_node (h : bytes) : pnode := {| header := h; elems := []; meta := None |}.

  Definition head_byte (l : bytes) : N := match l with c :: _ => c | [] => 0 end.

  Inductive line_class :=
  | LSkip                         (* blank, comment, or indented line before the first heading *)
  | LHeading (h : bytes)
  | LMeta (mp : bytes * bytes)
  | LEntry (name : bytes) (v : T)
  | LBad (e : perr).

  (** what one physical line is, given whether a record is open; [ln] is the
      1-based line number *)
  Definition classify (ln : N) (line : bytes) (in_record : bool) : line_class :=
    let t := trim trim_text line in
    match t, line with
    | [], _ => LSkip
    | _, [] => LSkip  (* unreachable: a non-empty trim comes from a non-empty line *)
    | t0 :: _, l0 :: _ =>
        if l0 =? comment_char then LSkip
        else if negb ((l0 =? c_space) || (l0 =? c_tab) || (l0 =? c_dash)) then LHeading t
        else if negb in_record then LSkip
        else if t0 =? comment_char then LMeta (metadata_pair t)
        else
          match last_index_any blanks t with
          | None => LBad (BadSyntax ln line)
          | Some sep =>
              let title := trim trim_text (firstn sep t) in
              let sqty := trim trim_qty (skipn sep t) in
              match of_lexeme NM sqty with
              | None => LBad (Conversion sqty ln line)
              | Some v => LEntry title v
              end
          end
    end.

  (** events emitted during the loop (in order) and the record still open at
      the end of the loop *)
  Fixpoint parse_loop (lines : list bytes) (ln : N) (cur : option pnode) : list event * option pnode :=
    match lines with
    | [] => ([], cur)
    | line :: rest =>
        let ln' := ln + 1 in
        match classify ln' line (match cur with Some _ => true | None => false end) with
        | LSkip => parse_loop rest ln' cur
        | LHeading h =>
            let '(evs, last) := parse_loop rest ln' (Some (new_node h)) in
            (match cur with Some n => ENode n :: evs | None => evs end, last)
        | LMeta mp => parse_loop rest ln' (option_map (fun n => add_meta n mp) cur)
        | LEntry name v => parse_loop rest ln' (option_map (fun n => add_elem n name v) cur)
        | LBad e => let '(evs, last) := parse_loop rest ln' cur in (EErr e :: evs, last)
        end
    end.

  Definition parse_lines (lines : list bytes) : list event * option pnode := parse_loop lines 0 None.

  (** The callback protocol.  [cb s ev] returns the new state, the stop flag
      and the callback's error.  Result: final state and the error returned by
      ParseStreamCallback ([inl] = the callback's own error value, [inr] = the
      scanner's). *)
  Section Drive.
    Context {S E : Type} (cb : S -> event -> S * bool * option E).

    Fixpoint drive_loop (evs : list event) (s : S) : S * option (option E) (* Some = stopped with this *) :=
      match evs with
      | [] => (s, None)
      | ev :: r =>
          let '(s', stop, e) := cb s ev in
          if stop then (s', Some e) else drive_loop r s'
      end.

    Definition drive (evs : list event) (last : option pnode) (fin : scan_end) (s : S)
      : S * option (E + scan_end) :=
      match drive_loop evs s with
      | (s', Some e) => (s', option_map inl e)
      | (s', None) =>
          match fin with
          | ScanEOF =>
              match last with
              | Some n => let '(s'', _, e) := cb s' (ENode n) in (s'', option_map inl e)
              | None => (s', None)
              end
          | _ => (s', Some (inr fin))
          end
      end.
  End Drive.

  (** everything a callback that never stops sees, and the returned error *)
  Definition parse_stream {S E} (cb : S -> event -> S * bool * option E) (data : bytes) (f : read_fault) (s : S)
    : S * option (E + scan_end) :=
    let '(lines, fin) := scan data f in
    let '(evs, last) := parse_lines lines in
    drive cb evs last fin s.

  (** all events of a complete, readable file, the last record included *)
  Definition events (data : bytes) : list event :=
    let '(evs, last) := parse_lines (fst (scan data NoFault)) in
    evs ++ match last with Some n => [ENode n] | None => [] end.

  (** error messages of parser/errors.go *)
  Definition perr_message (e : perr) : bytes :=
    match e with
    | BadSyntax ln raw => b "bad syntax on line " ++ dec_of_N ln ++ b ", """ ++ raw ++ b """."
    | Conversion txt ln raw =>
        b "error converting """ ++ txt ++ b """ to float on line " ++ dec_of_N ln ++ b " """ ++ raw ++ b """."
    end.
End Parser.

Arguments header {NM}. Arguments elems {NM}. Arguments meta {NM}.
Arguments ENode {NM}. Arguments EErr {NM}.
