(** The channel API of parser.go ([Parser.ParseStream], [Parser.ParseFile]) as a
    labelled transition system: one producer goroutine sending on three
    unbuffered channels, one consumer receiving with [select].  What the
    producer will try to send is a function of the input, transliterated from
    ParseStream (after the fix: a parse error is sent once).  Model only. *)
From HP Require Import Base.Bytes Base.Num Model.Scanner Model.Parser.

Section Channel.
  Context (NM : Num).

  Inductive cherr := ChParse (e : perr) | ChScan (e : scan_end) | ChIO.
  Inductive msg := MNode (n : pnode NM) | MErr (e : cherr) | MDone.

  (** ParseStream's callback: send the node and go on, or stop with the error *)
  Definition chan_cb (sent : list msg) (ev : event NM) : list msg * bool * option cherr :=
    match ev with
    | ENode n => (sent ++ [MNode n], false, None)
    | EErr e => (sent, true, Some (ChParse e))
    end.

  (** everything ParseStream sends, in order, if the consumer keeps receiving *)
  Definition stream_sends (data : bytes) (f : read_fault) : list msg :=
    let '(sent, r) := parse_stream NM chan_cb data f [] in
    sent ++ match r with
            | None => []
            | Some (inl e) => [MErr e]
            | Some (inr se) => [MErr (ChScan se)]
            end ++ [MDone].

  (** ParseFile: an unreadable path sends the I/O error and then Done, as ParseStream does after every other error (fix F23;
      before, it returned without Done and a consumer that keeps receiving until completion waited for ever) *)
  Definition file_sends (content : option (bytes * read_fault)) : list msg :=
    match content with
    | None => [MErr ChIO; MDone]
    | Some (d, f) => stream_sends d f
    end.

  Inductive policy := StopAtFirstError | DrainUntilDone.

  Inductive cons_state := Receiving | Returned.

  (** the state of the system: what the producer still has to send, what the
      consumer has received, whether the consumer is still in its loop, and
      budgets of internal (invisible) steps each side may still take *)
  Record state := { pending : list msg; obs : list msg; cons : cons_state; ptau : nat; ctau : nat }.

  Definition after_receive (p : policy) (m : msg) : cons_state :=
    match m, p with
    | MDone, _ => Returned
    | MErr _, StopAtFirstError => Returned
    | _, _ => Receiving
    end.

  Inductive step (p : policy) : state -> state -> Prop :=
  | step_prod_tau : forall s n, ptau s = S n ->
      step p s {| pending := pending s; obs := obs s; cons := cons s; ptau := n; ctau := ctau s |}
  | step_cons_tau : forall s n, ctau s = S n -> cons s = Receiving ->
      step p s {| pending := pending s; obs := obs s; cons := cons s; ptau := ptau s; ctau := n |}
  | step_rendezvous : forall s m rest, pending s = m :: rest -> cons s = Receiving ->
      step p s {| pending := rest; obs := obs s ++ [m]; cons := after_receive p m; ptau := ptau s; ctau := ctau s |}.

  Definition init (sends : list msg) (pt ct : nat) : state :=
    {| pending := sends; obs := []; cons := Receiving; ptau := pt; ctau := ct |}.

  Inductive reachable (p : policy) (s0 : state) : state -> Prop :=
  | reach_refl : reachable p s0 s0
  | reach_step : forall s s', reachable p s0 s -> step p s s' -> reachable p s0 s'.

  (** what each kind of consumer must end up having seen *)
  Fixpoint spec_stop (sends : list msg) : list msg :=
    match sends with
    | [] => []
    | MNode n :: r => MNode n :: spec_stop r
    | m :: _ => [m]
    end.

  Fixpoint spec_drain (sends : list msg) : list msg :=
    match sends with
    | [] => []
    | MDone :: _ => [MDone]
    | m :: r => m :: spec_drain r
    end.

  Definition spec (p : policy) (sends : list msg) : list msg :=
    match p with StopAtFirstError => spec_stop sends | DrainUntilDone => spec_drain sends end.

  (** executable schedule-free run: the consumer receives until its policy says stop *)
  Fixpoint run_consumer (p : policy) (sends : list msg) : list msg * list msg (* seen, left unsent *) :=
    match sends with
    | [] => ([], [])
    | m :: r =>
        match after_receive p m with
        | Returned => ([m], r)
        | Receiving => let '(seen, unsent) := run_consumer p r in (m :: seen, unsent)
        end
    end.
End Channel.

Arguments MNode {NM}. Arguments MErr {NM}. Arguments MDone {NM}.
