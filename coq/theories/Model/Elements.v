(** element.go, node.go (DBNodeMap), accumulator.go.  Model only.
    A Go map is an association list with unique keys in insertion order; every
    [range] over one takes an explicit order oracle at its use site. *)
From HP Require Import Base.Bytes Base.Num.

Section Elements.
  Context (NM : Num).
  Notation T := (T NM).

  Definition elements := list (bytes * T).

  (** generic association-list operations (keys are byte strings) *)
  Section Assoc.
    Context {V : Type}.
    Fixpoint lookup (k : bytes) (l : list (bytes * V)) : option V :=
      match l with
      | [] => None
      | (k', v) :: r => if beq k k' then Some v else lookup k r
      end.
    (** [m[k] = v]: replace in place or append *)
    Fixpoint set (k : bytes) (v : V) (l : list (bytes * V)) : list (bytes * V) :=
      match l with
      | [] => [(k, v)]
      | (k', v') :: r => if beq k k' then (k, v) :: r else (k', v') :: set k v r
      end.
    Definition keys (l : list (bytes * V)) : list bytes := map fst l.
  End Assoc.

  (** Elements.Index / Add / SumMerge / Sort *)
  Fixpoint add_to (name : bytes) (v : T) (el : elements) : elements :=
    (* el[Index(name)].Value += v, or append *)
    match el with
    | [] => [(name, v)]
    | (n, x) :: r => if beq n name then (n, add NM x v) :: r else (n, x) :: add_to name v r
    end.

  Definition sum_merge (el left : elements) (mult : T) : elements :=
    fold_left (fun acc nv => add_to (fst nv) (mul NM (snd nv) mult) acc) left el.

  Definition name_leb (x y : bytes * T) : bool := bleb (fst x) (fst y).
  Definition sort_elements (el : elements) : elements := isort name_leb el.

  (** NewLogNodeFromElements: merge repeated names keeping first position *)
  Definition merge_elements (el : elements) : elements :=
    fold_left (fun acc nv => add_to (fst nv) (snd nv) acc) el [].

  (** Accumulator: name -> (positive, negative), insertion ordered.
      First occurrence assigns, later ones add; routing by [val < 0]. *)
  Definition accumulator := list (bytes * (T * T)).

  Definition acc_add (name : bytes) (v : T) (acc : accumulator) : accumulator :=
    let neg := ltb NM v (zero NM) in
    match lookup name acc with
    | Some (p, n) => set name (if neg then (p, add NM n v) else (add NM p v, n)) acc
    | None => acc ++ [(name, if neg then (zero NM, v) else (v, zero NM))]
    end.
End Elements.

Arguments lookup {V}. Arguments set {V}. Arguments keys {V}.
